(* C03 — completeness for Accept: every value of the ABNF language of Accept is a rendering of media ranges
   with their parameters, weight and extension parameters (quoted strings may contain commas: the inversion goes
   through the regular-expression structure, not through splitting at commas). *)
From Coq Require Import ZArith NArith List Bool Lia ZifyBool ZifyN.
Require Import Webob.Lib.Val Webob.Lib.PyStr Webob.Lib.Rx Webob.Gen.C03_regexes Webob.Spec.C03_abnf
               Webob.Model.C03_scan Webob.Proofs.C03_lang Webob.Proofs.C03_scan Webob.Proofs.C03_accept_scan
               Webob.Proofs.C03_complete.
Import ListNotations.
Local Open Scope N_scope.

(* ---------- tokens that are not "q" ---------- *)
Lemma inv_tok_not_q w : matches tok_not_q w -> token_ok w /\ not_q w.
Proof.
  intros H. apply inv_alt in H as [H|H].
  - apply inv_cat in H as (c1 & rest & -> & Hc & Hrest). apply inv_cls in Hc as (c & -> & Hc).
    rewrite cmem_false in Hc. cbn [in_ranges] in Hc.
    assert (Ht : is_tchar c = true) by (unfold is_tchar; cbn [in_ranges]; lia).
    assert (Hq : is_qQ c = false) by (unfold is_qQ; lia).
    apply inv_star in Hrest as (ws & -> & Hws).
    assert (Hf : Forall (fun c => is_tchar c = true) (concat ws)).
    { induction Hws as [|x ws Hx _ IH]; [constructor|]. apply inv_tchar in Hx as (d & -> & Hd). cbn. constructor; assumption. }
    split; [split; [discriminate|constructor; assumption]|].
    cbn. destruct (concat ws); [exact Hq|exact I].
  - unfold C03_abnf.cats in H. apply inv_cat in H as (q & r & -> & Hq & H). apply inv_cat in H as (t & rest & -> & Ht & Hrest).
    apply inv_cls in Hq as (cq & -> & Hcq). apply inv_tchar in Ht as (ct & -> & Hct).
    apply inv_star in Hrest as (ws & -> & Hws).
    assert (Hf : Forall (fun c => is_tchar c = true) (concat ws)).
    { induction Hws as [|x ws Hx _ IH]; [constructor|]. apply inv_tchar in Hx as (d & -> & Hd). cbn. constructor; assumption. }
    assert (Hqt : is_tchar cq = true) by (apply cmem_two in Hcq as [-> | ->]; reflexivity).
    split; [split; [discriminate|constructor; [exact Hqt|constructor; assumption]]|]. cbn. exact I.
Qed.

(* ---------- quoted strings and values ---------- *)
Lemma inv_qstr w : matches qstr w -> exists b, w = 34 :: b /\ qbody b.
Proof.
  unfold qstr. cbn [cats]. intros H.
  apply inv_cat in H as (o & r & -> & Ho & H). apply inv_cat in H as (m & c & -> & Hm & Hc).
  apply inv_ch in Ho as ->. apply inv_ch in Hc as ->.
  apply inv_star in Hm as (ws & -> & Hws). exists (concat ws ++ [34]). split; [reflexivity|].
  induction Hws as [|x ws Hx _ IH]; [apply qb_end|].
  apply inv_alt in Hx as [Hx|Hx].
  - apply inv_cls in Hx as (c & -> & Hc). rewrite cmem_false in Hc. cbn [concat app]. apply qb_text; [exact Hc|exact IH].
  - apply inv_cat in Hx as (bs & c1 & -> & Hb & Hc). apply inv_ch in Hb as ->. apply inv_cls in Hc as (c & -> & Hc).
    rewrite cmem_false in Hc. cbn [concat app]. apply qb_pair; [exact Hc|exact IH].
Qed.

Lemma inv_value w : matches value w -> value_ok w.
Proof.
  intros H. apply inv_alt in H as [H|H]; [left; apply inv_token, H|right; apply inv_qstr, H].
Qed.

Lemma inv_param w : matches (cats [OWS; ch 59; OWS; parameter]) w -> exists p, param_ok p /\ w = render_param p.
Proof.
  cbn [cats]. intros H.
  apply inv_cat in H as (o1 & r & -> & Ho1 & H). apply inv_cat in H as (s & r2 & -> & Hs & H).
  apply inv_cat in H as (o2 & pr & -> & Ho2 & Hp). apply inv_ch in Hs as ->. apply inv_ows in Ho1, Ho2.
  unfold parameter in Hp. cbn [cats] in Hp.
  apply inv_cat in Hp as (nm & r3 & -> & Hn & Hp). apply inv_cat in Hp as (e & v & -> & He & Hv).
  apply inv_ch in He as ->. apply inv_tok_not_q in Hn as [Hn Hq]. apply inv_value in Hv.
  exists (mkP o1 o2 nm v). split; [split; [exact Ho1|split; [exact Ho2|split; [exact Hn|split; [exact Hq|exact Hv]]]]|].
  unfold render_param. cbn. rewrite <- ?app_assoc. reflexivity.
Qed.

Lemma inv_params w : matches (Star (cats [OWS; ch 59; OWS; parameter])) w ->
  exists ps, Forall param_ok ps /\ w = flat_map render_param ps.
Proof.
  intros H. apply inv_star in H as (ws & -> & Hws).
  induction Hws as [|x ws Hx _ IH]; [exists []; split; [constructor|reflexivity]|].
  destruct IH as (ps & Hps & E). apply inv_param in Hx as (p & Hp & ->).
  exists (p :: ps). split; [constructor; assumption|]. cbn [concat flat_map]. rewrite E. reflexivity.
Qed.

Lemma inv_ext w : matches accept_ext w -> exists x, ext_ok x /\ w = render_ext x.
Proof.
  unfold accept_ext. cbn [cats]. intros H.
  apply inv_cat in H as (o1 & r & -> & Ho1 & H). apply inv_cat in H as (s & r2 & -> & Hs & H).
  apply inv_cat in H as (o2 & r3 & -> & Ho2 & H). apply inv_cat in H as (nm & ov & -> & Hn & Hov).
  apply inv_ch in Hs as ->. apply inv_ows in Ho1, Ho2. apply inv_token in Hn.
  apply inv_opt in Hov as [->|Hov].
  - exists (mkX o1 o2 nm None). split; [split; [exact Ho1|split; [exact Ho2|split; [exact Hn|exact I]]]|].
    unfold render_ext. cbn. rewrite <- ?app_assoc. rewrite ?app_nil_r. reflexivity.
  - apply inv_cat in Hov as (e & v & -> & He & Hv). apply inv_ch in He as ->. apply inv_value in Hv.
    exists (mkX o1 o2 nm (Some v)). split; [split; [exact Ho1|split; [exact Ho2|split; [exact Hn|exact Hv]]]|].
    unfold render_ext. cbn. rewrite <- ?app_assoc. reflexivity.
Qed.

Lemma inv_exts w : matches (Star accept_ext) w -> exists xs, Forall ext_ok xs /\ w = flat_map render_ext xs.
Proof.
  intros H. apply inv_star in H as (ws & -> & Hws).
  induction Hws as [|x ws Hx _ IH]; [exists []; split; [constructor|reflexivity]|].
  destruct IH as (xs & Hxs & E). apply inv_ext in Hx as (x' & Hx' & ->).
  exists (x' :: xs). split; [constructor; assumption|]. cbn [concat flat_map]. rewrite E. reflexivity.
Qed.

Lemma star_token : token_ok [42].
Proof. split; [discriminate|repeat constructor]. Qed.

Lemma inv_type_sub w :
  matches (Alt (cats [ch 42; ch 47; ch 42]) (Alt (cats [token; ch 47; ch 42]) (cats [token; ch 47; token]))) w ->
  exists ty sub, token_ok ty /\ token_ok sub /\ w = ty ++ 47 :: sub.
Proof.
  intros H. apply inv_alt in H as [H|H]; [|apply inv_alt in H as [H|H]]; cbn [cats] in H;
    apply inv_cat in H as (a & r & -> & Ha & H); apply inv_cat in H as (s & b & -> & Hs & Hb); apply inv_ch in Hs as ->.
  - apply inv_ch in Ha as ->. apply inv_ch in Hb as ->. exists [42], [42]. split; [apply star_token|split; [apply star_token|reflexivity]].
  - apply inv_token in Ha. apply inv_ch in Hb as ->. exists a, [42]. split; [exact Ha|split; [apply star_token|reflexivity]].
  - apply inv_token in Ha, Hb. exists a, b. split; [exact Ha|split; [exact Hb|reflexivity]].
Qed.

Definition ael_rx := Cat media_range_strict (opt accept_params).

Lemma inv_ael w : matches ael_rx w -> exists e : rel, rel_ok e /\ w = render_rel e.
Proof.
  intros H. apply inv_cat in H as (mr & ap & -> & Hmr & Hap).
  unfold media_range_strict in Hmr. apply inv_cat in Hmr as (ts & ps & -> & Hts & Hps).
  apply inv_type_sub in Hts as (ty & sub & Hty & Hsub & ->). apply inv_params in Hps as (params & Hparams & ->).
  apply inv_opt in Hap as [->|Hap].
  - exists (mkR ty sub params None). split; [split; [exact Hty|split; [exact Hsub|split; [exact Hparams|exact I]]]|].
    unfold render_rel. cbn. rewrite <- ?app_assoc. cbn. rewrite ?app_nil_r. reflexivity.
  - unfold accept_params in Hap. apply inv_cat in Hap as (wt & xs & -> & Hwt & Hxs).
    apply inv_weight in Hwt as (t & Ht & ->). apply inv_exts in Hxs as (exts & Hexts & ->).
    exists (mkR ty sub params (Some (t, exts))). split; [split; [exact Hty|split; [exact Hsub|split; [exact Hparams|split; [exact Ht|exact Hexts]]]]|].
    unfold render_rel. cbn. rewrite <- ?app_assoc. cbn. reflexivity.
Qed.

(* ---------- the #rule ---------- *)
(* one repetition of   OWS "," [ OWS element ]  *)
Definition apiece_ok (p : str) : Prop :=
  exists o, all_ows_l o /\
    (p = o ++ [44] \/ exists o' (e : rel), all_ows_l o' /\ rel_ok e /\ p = o ++ 44 :: o' ++ render_rel e).
Definition apiece_rx := cats [OWS; ch 44; opt (Cat OWS ael_rx)].

Lemma inv_apiece p : matches apiece_rx p -> apiece_ok p.
Proof.
  unfold apiece_rx. cbn [cats]. intros H.
  apply inv_cat in H as (o & r & -> & Ho & H). apply inv_cat in H as (c & t & -> & Hc & Ht).
  apply inv_ch in Hc as ->. apply inv_ows in Ho. exists o. split; [exact Ho|].
  apply inv_opt in Ht as [->|Ht]; [left; reflexivity|].
  apply inv_cat in Ht as (o' & e & -> & Ho' & He). apply inv_ows in Ho'. apply inv_ael in He as (e' & He' & ->).
  right. exists o', e'. split; [exact Ho'|split; [exact He'|reflexivity]].
Qed.

Lemma ows_junk' o : all_ows_l o -> all_junk o.
Proof.
  intros H. eapply Forall_impl; [|exact H]. intros c Hc. unfold is_junk. unfold is_ows in Hc.
  apply orb_true_iff in Hc as [Hc|Hc]; rewrite Hc; [reflexivity|apply orb_true_r || (rewrite orb_true_r; reflexivity)].
Qed.

Lemma all_junk_app' a b : all_junk a -> all_junk b -> all_junk (a ++ b).
Proof. intros; apply Forall_app; split; assumption. Qed.

(* pieces after a current element [e] whose junk so far is [j] *)
Lemma abuild_after ps : forall (e : rel) j, rel_ok e -> all_junk j -> Forall apiece_ok ps ->
  exists els, rels_ok els /\ abody els = render_rel e ++ j ++ concat ps.
Proof.
  induction ps as [|p ps IH]; intros e j He Hj Hps.
  - exists [(e, j)]. split; [cbn; split; [exact He|split; [exact Hj|split; [intros H; exfalso; apply H; reflexivity|exact I]]]|].
    unfold abody. cbn. rewrite !app_nil_r. reflexivity.
  - inversion Hps as [|? ? (o & Ho & Hp) Hps']; subst.
    destruct Hp as [->|(o' & e' & Ho' & He' & ->)].
    + destruct (IH e (j ++ o ++ [44]) He) as (els & Hels & Hb); [|exact Hps'|].
      * apply all_junk_app'; [exact Hj|]. apply all_junk_app'; [apply ows_junk', Ho|repeat constructor].
      * exists els. split; [exact Hels|]. rewrite Hb. cbn [concat]. rewrite <- ?app_assoc. reflexivity.
    + destruct (IH e' [] He' (Forall_nil _) Hps') as (els & Hels & Hb).
      exists ((e, j ++ o ++ 44 :: o') :: els). split.
      * cbn. split; [exact He|]. split.
        -- apply all_junk_app'; [exact Hj|]. apply all_junk_app'; [apply ows_junk', Ho|].
           constructor; [reflexivity|apply ows_junk', Ho'].
        -- split; [|exact Hels]. intros _ H. apply app_eq_nil in H as [_ H]. apply app_eq_nil in H as [_ H]. discriminate.
      * unfold abody in *. cbn [flat_map fst snd]. rewrite Hb. cbn [concat app]. rewrite <- ?app_assoc. cbn [app].
        rewrite <- ?app_assoc. reflexivity.
Qed.

(* pieces when no element has been seen yet: only junk [j0] so far *)
Lemma abuild_before ps : forall j0, all_junk j0 -> Forall apiece_ok ps ->
  exists j0' els, all_junk j0' /\ rels_ok els /\ j0' ++ abody els = j0 ++ concat ps.
Proof.
  induction ps as [|p ps IH]; intros j0 Hj Hps.
  - exists j0, []. repeat split; auto.
  - inversion Hps as [|? ? (o & Ho & Hp) Hps']; subst.
    destruct Hp as [->|(o' & e' & Ho' & He' & ->)].
    + destruct (IH (j0 ++ o ++ [44])) as (j0' & els & Hj' & Hels & Hb); [|exact Hps'|].
      * apply all_junk_app'; [exact Hj|]. apply all_junk_app'; [apply ows_junk', Ho|repeat constructor].
      * exists j0', els. repeat split; auto. rewrite Hb. cbn [concat]. rewrite <- ?app_assoc. reflexivity.
    + destruct (abuild_after ps e' [] He' (Forall_nil _) Hps') as (els & Hels & Hb).
      exists (j0 ++ o ++ 44 :: o'), els. split; [|split; [exact Hels|]].
      * apply all_junk_app'; [exact Hj|]. apply all_junk_app'; [apply ows_junk', Ho|].
        constructor; [reflexivity|apply ows_junk', Ho'].
      * rewrite Hb. cbn [concat app]. rewrite <- ?app_assoc. cbn [app]. rewrite <- ?app_assoc. reflexivity.
Qed.

Lemma inv_apieces w : matches (Star apiece_rx) w -> exists ps, w = concat ps /\ Forall apiece_ok ps.
Proof.
  intros H. apply inv_star in H as (ps & -> & Hps). exists ps. split; [reflexivity|].
  eapply Forall_impl; [|exact Hps]. intros p Hp. apply inv_apiece, Hp.
Qed.


  (* #element *)
  Theorem accept_is_render w : matches abnf_accept w ->
    exists j0 els, all_junk j0 /\ rels_ok els /\ w = arender j0 els.
  Proof.
    unfold abnf_accept, hash0. fold ael_rx. fold apiece_rx. intros H. apply inv_opt in H as [->|H].
    - exists [], []. repeat split; constructor.
    - apply inv_cat in H as (first & post & -> & Hf & Hpost). apply inv_apieces in Hpost as (ps & -> & Hps).
      apply inv_alt in Hf as [Hf|Hf].
      + apply inv_ch in Hf as ->.
        destruct (abuild_before ps [44]) as (j0' & els & Hj' & Hels & Hb); [repeat constructor|exact Hps|].
        exists j0', els. repeat split; auto.
      + apply inv_ael in Hf as (e' & He' & ->).
        destruct (abuild_after ps e' [] He' (Forall_nil _) Hps) as (els & Hels & Hb).
        exists [], els. repeat split; auto. constructor.
  Qed.

(* ---------- unconditional element theorem for Accept ---------- *)
Theorem accept_accepted_elements w : no_LF w -> rmatch gen_accept w = true ->
  exists j0 els, all_junk j0 /\ rels_ok els /\ w = arender j0 els /\
                 parse_accept w = Some (map (fun ej => canon_rel (fst ej)) els).
Proof.
  intros Hlf Hv. pose proof (proj1 (accept_eq w Hlf) Hv) as Hm.
  destruct (accept_is_render w Hm) as (j0 & els & Hj & Hels & ->).
  exists j0, els. repeat split; auto. apply parse_accept_render; assumption.
Qed.
