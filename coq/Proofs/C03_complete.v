(* C03 — completeness: every value of the ABNF language of Accept-Charset / Accept-Encoding IS a rendering
   (junk, elements with their weights, junk ...), so that the element theorems hold for every accepted value. *)
From Coq Require Import ZArith NArith List Bool Lia.
Require Import Webob.Lib.Val Webob.Lib.PyStr Webob.Lib.Rx Webob.Gen.C03_regexes Webob.Spec.C03_abnf
               Webob.Model.C03_scan Webob.Proofs.C03_lang Webob.Proofs.C03_scan.
Import ListNotations.
Local Open Scope N_scope.

(* ---------- generic inversion ---------- *)
Lemma inv_star r w : matches (Star r) w -> exists ws, w = concat ws /\ Forall (matches r) ws.
Proof.
  intros H. remember (Star r) as s eqn:Es. induction H as [| | | | | |a w1 w2 H1 _ H2 IH2]; try discriminate.
  - exists []. split; [reflexivity|constructor].
  - injection Es as ->. destruct (IH2 eq_refl) as (ws & -> & Hws).
    exists (w1 :: ws). split; [reflexivity|constructor; assumption].
Qed.

Lemma inv_opt r w : matches (opt r) w -> w = [] \/ matches r w.
Proof. intros H. apply inv_alt in H as [H|H]; [left; apply inv_eps, H|right; exact H]. Qed.

Lemma cmem_false rs c : cmem false rs c = in_ranges rs c.
Proof. unfold cmem. destruct (in_ranges rs c); reflexivity. Qed.

Lemma cmem_single c x : cmem false [(c, c)] x = true -> x = c.
Proof.
  unfold cmem. cbn [in_ranges]. rewrite orb_false_r. unfold xorb. intros H.
  destruct ((c <=? x) && (x <=? c)) eqn:E; [|discriminate].
  apply (proj1 (andb_true_iff _ _)) in E. destruct E as [A B].
  apply (proj1 (N.leb_le _ _)) in A. apply (proj1 (N.leb_le _ _)) in B. lia.
Qed.
Lemma cmem_two a b x : cmem false [(a, a); (b, b)] x = true -> x = a \/ x = b.
Proof.
  unfold cmem. cbn [in_ranges]. rewrite orb_false_r. unfold xorb. intros H.
  destruct ((a <=? x) && (x <=? a) || (b <=? x) && (x <=? b)) eqn:E; [|discriminate].
  apply (proj1 (orb_true_iff _ _)) in E. destruct E as [E|E];
    apply (proj1 (andb_true_iff _ _)) in E; destruct E as [A B];
    apply (proj1 (N.leb_le _ _)) in A; apply (proj1 (N.leb_le _ _)) in B; [left|right]; lia.
Qed.

Lemma inv_ch c w : matches (ch c) w -> w = [c].
Proof. intros H. apply inv_cls in H as (x & -> & Hx). apply cmem_single in Hx as ->. reflexivity. Qed.

Lemma inv_upto n r w (P : N -> Prop) :
  (forall x, matches r x -> exists c, x = [c] /\ P c) ->
  matches (upto n r) w -> (length w <= n)%nat /\ Forall P w.
Proof.
  intros Hr. revert w. induction n as [|n IH]; intros w H; cbn in H.
  - apply inv_eps in H as ->. split; [cbn; lia|constructor].
  - apply inv_opt in H as [->|H]; [split; [cbn; lia|constructor]|].
    apply inv_cat in H as (w1 & w2 & -> & H1 & H2). destruct (Hr _ H1) as (c & -> & Hc).
    destruct (IH _ H2) as [Hl Hf]. split; [cbn; lia|constructor; assumption].
Qed.

(* ---------- tokens, OWS, weight ---------- *)
Lemma inv_tchar w : matches tchar w -> exists c, w = [c] /\ is_tchar c = true.
Proof. intros H. apply inv_cls in H as (c & -> & Hc). exists c. split; [reflexivity|]. rewrite cmem_false in Hc. exact Hc. Qed.

Lemma inv_token w : matches token w -> token_ok w.
Proof.
  intros H. apply inv_cat in H as (w1 & w2 & -> & H1 & H2). apply inv_tchar in H1 as (c & -> & Hc).
  apply inv_star in H2 as (ws & -> & Hws). split; [discriminate|]. constructor; [exact Hc|].
  induction Hws as [|x ws Hx _ IH]; [constructor|]. apply inv_tchar in Hx as (d & -> & Hd). cbn. constructor; assumption.
Qed.

Lemma inv_ows w : matches OWS w -> Forall (fun c => is_ows c = true) w.
Proof.
  intros H. apply inv_star in H as (ws & -> & Hws).
  induction Hws as [|x ws Hx _ IH]; [constructor|].
  apply inv_cls in Hx as (c & -> & Hc). cbn. constructor; [|exact IH].
  apply cmem_two in Hc as [-> | ->]; reflexivity.
Qed.

Lemma inv_qvalue w : matches qvalue w -> qtext_ok w.
Proof.
  intros H. apply inv_alt in H as [H|H]; apply inv_cat in H as (w1 & w2 & -> & H1 & H2);
    apply inv_ch in H1 as ->; apply inv_opt in H2 as [->|H2].
  - left. reflexivity.
  - right. right. left. apply inv_cat in H2 as (d & ds & -> & Hd & Hds). apply inv_ch in Hd as ->.
    apply (inv_upto 3 DIGIT ds (fun c => is_digit c = true)) in Hds.
    + destruct Hds as [Hl Hf]. exists ds. repeat split; assumption.
    + intros x Hx. apply inv_cls in Hx as (c & -> & Hc). exists c. split; [reflexivity|].
      rewrite cmem_false in Hc. cbn [in_ranges] in Hc. rewrite orb_false_r in Hc. exact Hc.
  - right. left. reflexivity.
  - right. right. right. apply inv_cat in H2 as (d & ds & -> & Hd & Hds). apply inv_ch in Hd as ->.
    apply (inv_upto 3 (ch 48) ds (fun c => c = 48)) in Hds.
    + destruct Hds as [Hl Hf]. exists ds. repeat split; assumption.
    + intros x Hx. apply inv_ch in Hx as ->. exists 48. split; reflexivity.
Qed.

Lemma inv_weight w : matches weight w -> exists t, wt_ok t /\ w = render_weight t.
Proof.
  unfold weight. cbn [cats]. intros H.
  apply inv_cat in H as (o1 & r1 & -> & Ho1 & H). apply inv_cat in H as (s & r2 & -> & Hs & H).
  apply inv_cat in H as (o2 & r3 & -> & Ho2 & H). apply inv_cat in H as (q & r4 & -> & Hq & H).
  apply inv_cat in H as (e & qv & -> & He & Hqv).
  apply inv_ch in Hs as ->. apply inv_ch in He as ->. apply inv_ows in Ho1, Ho2. apply inv_qvalue in Hqv.
  apply inv_cls in Hq as (c & -> & Hc).
  exists (mkWt o1 o2 c qv). split.
  - repeat split; try assumption. apply cmem_two in Hc as [-> | ->]; reflexivity.
  - unfold render_weight. cbn. rewrite <- ?app_assoc. reflexivity.
Qed.

Section Hash.
  (* element = item [ weight ], for an item syntax given by a regex and its reading *)
  Variable item_rx : rx.
  Variable item_ok : str -> Prop.
  Hypothesis Hitem : forall w, matches item_rx w -> item_ok w.
  Definition el_rx := Cat item_rx (opt weight).

Lemma inv_el w : matches el_rx w -> exists e : el, el_ok item_ok e /\ w = render_el e.
Proof.
  intros H. apply inv_cat in H as (it & wt & -> & Hit & Hwt).
  assert (Htok : item_ok it) by (apply Hitem, Hit).
  apply inv_opt in Hwt as [->|Hwt].
  - exists (it, None). split; [split; [exact Htok|exact I]|]. unfold render_el. cbn. reflexivity.
  - apply inv_weight in Hwt as (t & Ht & ->). exists (it, Some t). split; [split; assumption|reflexivity].
Qed.

(* ---------- the #rule ---------- *)
(* one repetition of   OWS "," [ OWS element ]  *)
Definition all_ows_l (o : str) : Prop := Forall (fun c => is_ows c = true) o.
Definition piece_ok (p : str) : Prop :=
  exists o, all_ows_l o /\
    (p = o ++ [44] \/ exists o' (e : el), all_ows_l o' /\ el_ok item_ok e /\ p = o ++ 44 :: o' ++ render_el e).
Definition piece_rx := cats [OWS; ch 44; opt (Cat OWS el_rx)].

Lemma inv_piece p : matches piece_rx p -> piece_ok p.
Proof.
  unfold piece_rx. cbn [cats]. intros H.
  apply inv_cat in H as (o & r & -> & Ho & H). apply inv_cat in H as (c & t & -> & Hc & Ht).
  apply inv_ch in Hc as ->. apply inv_ows in Ho. exists o. split; [exact Ho|].
  apply inv_opt in Ht as [->|Ht]; [left; reflexivity|].
  apply inv_cat in Ht as (o' & e & -> & Ho' & He). apply inv_ows in Ho'. apply inv_el in He as (e' & He' & ->).
  right. exists o', e'. split; [exact Ho'|split; [exact He'|reflexivity]].
Qed.

Lemma ows_junk o : all_ows_l o -> all_junk o.
Proof.
  intros H. eapply Forall_impl; [|exact H]. intros c Hc. unfold is_junk. unfold is_ows in Hc.
  apply orb_true_iff in Hc as [Hc|Hc]; rewrite Hc; [reflexivity|apply orb_true_r || (rewrite orb_true_r; reflexivity)].
Qed.

Lemma all_junk_app a b : all_junk a -> all_junk b -> all_junk (a ++ b).
Proof. intros; apply Forall_app; split; assumption. Qed.

(* pieces after a current element [e] whose junk so far is [j] *)
Lemma build_after ps : forall (e : el) j, el_ok item_ok e -> all_junk j -> Forall piece_ok ps ->
  exists els, els_ok item_ok els /\ body els = render_el e ++ j ++ concat ps.
Proof.
  induction ps as [|p ps IH]; intros e j He Hj Hps.
  - exists [(e, j)]. split; [cbn; split; [exact He|split; [exact Hj|split; [intros H; exfalso; apply H; reflexivity|exact I]]]|].
    unfold body. cbn. rewrite !app_nil_r. reflexivity.
  - inversion Hps as [|? ? (o & Ho & Hp) Hps']; subst.
    destruct Hp as [->|(o' & e' & Ho' & He' & ->)].
    + destruct (IH e (j ++ o ++ [44]) He) as (els & Hels & Hb); [|exact Hps'|].
      * apply all_junk_app; [exact Hj|]. apply all_junk_app; [apply ows_junk, Ho|repeat constructor].
      * exists els. split; [exact Hels|]. rewrite Hb. cbn [concat]. rewrite <- ?app_assoc. reflexivity.
    + destruct (IH e' [] He' (Forall_nil _) Hps') as (els & Hels & Hb).
      exists ((e, j ++ o ++ 44 :: o') :: els). split.
      * cbn. split; [exact He|]. split.
        -- apply all_junk_app; [exact Hj|]. apply all_junk_app; [apply ows_junk, Ho|].
           constructor; [reflexivity|apply ows_junk, Ho'].
        -- split; [|exact Hels]. intros _ H. apply app_eq_nil in H as [_ H]. apply app_eq_nil in H as [_ H]. discriminate.
      * unfold body in *. cbn [flat_map fst snd]. rewrite Hb. cbn [concat app]. rewrite <- ?app_assoc. cbn [app].
        rewrite <- ?app_assoc. reflexivity.
Qed.

(* pieces when no element has been seen yet: only junk [j0] so far *)
Lemma build_before ps : forall j0, all_junk j0 -> Forall piece_ok ps ->
  exists j0' els, all_junk j0' /\ els_ok item_ok els /\ j0' ++ body els = j0 ++ concat ps.
Proof.
  induction ps as [|p ps IH]; intros j0 Hj Hps.
  - exists j0, []. repeat split; auto.
  - inversion Hps as [|? ? (o & Ho & Hp) Hps']; subst.
    destruct Hp as [->|(o' & e' & Ho' & He' & ->)].
    + destruct (IH (j0 ++ o ++ [44])) as (j0' & els & Hj' & Hels & Hb); [|exact Hps'|].
      * apply all_junk_app; [exact Hj|]. apply all_junk_app; [apply ows_junk, Ho|repeat constructor].
      * exists j0', els. repeat split; auto. rewrite Hb. cbn [concat]. rewrite <- ?app_assoc. reflexivity.
    + destruct (build_after ps e' [] He' (Forall_nil _) Hps') as (els & Hels & Hb).
      exists (j0 ++ o ++ 44 :: o'), els. split; [|split; [exact Hels|]].
      * apply all_junk_app; [exact Hj|]. apply all_junk_app; [apply ows_junk, Ho|].
        constructor; [reflexivity|apply ows_junk, Ho'].
      * rewrite Hb. cbn [concat app]. rewrite <- ?app_assoc. cbn [app]. rewrite <- ?app_assoc. reflexivity.
Qed.

Lemma inv_pieces w : matches (Star piece_rx) w -> exists ps, w = concat ps /\ Forall piece_ok ps.
Proof.
  intros H. apply inv_star in H as (ps & -> & Hps). exists ps. split; [reflexivity|].
  eapply Forall_impl; [|exact Hps]. intros p Hp. apply inv_piece, Hp.
Qed.


  (* 1#element *)
  Theorem hash1_is_render w : matches (hash1 el_rx) w ->
    exists j0 els, all_junk j0 /\ els_ok item_ok els /\ w = render j0 els.
  Proof.
    unfold hash1. cbn [cats]. intros H.
    apply inv_cat in H as (pre & r & -> & Hpre & H). apply inv_cat in H as (e & post & -> & He & Hpost).
    apply inv_el in He as (e' & He' & ->). apply inv_pieces in Hpost as (ps & -> & Hps).
    assert (Hj0 : all_junk pre).
    { apply inv_star in Hpre as (cs & -> & Hcs). induction Hcs as [|x cs Hx _ IH]; [constructor|].
      apply inv_cat in Hx as (c & o & -> & Hc & Ho). apply inv_ch in Hc as ->. apply inv_ows in Ho.
      cbn [concat]. apply all_junk_app; [|exact IH]. constructor; [reflexivity|apply ows_junk, Ho]. }
    destruct (build_after ps e' [] He' (Forall_nil _) Hps) as (els & Hels & Hb).
    exists pre, els. repeat split; auto. unfold render. rewrite Hb. reflexivity.
  Qed.

  (* #element *)
  Theorem hash0_is_render w : matches (hash0 el_rx) w ->
    exists j0 els, all_junk j0 /\ els_ok item_ok els /\ w = render j0 els.
  Proof.
    unfold hash0. intros H. apply inv_opt in H as [->|H].
    - exists [], []. repeat split; constructor.
    - apply inv_cat in H as (first & post & -> & Hf & Hpost). apply inv_pieces in Hpost as (ps & -> & Hps).
      apply inv_alt in Hf as [Hf|Hf].
      + apply inv_ch in Hf as ->.
        destruct (build_before ps [44]) as (j0' & els & Hj' & Hels & Hb); [repeat constructor|exact Hps|].
        exists j0', els. repeat split; auto.
      + apply inv_el in Hf as (e' & He' & ->).
        destruct (build_after ps e' [] He' (Forall_nil _) Hps) as (els & Hels & Hb).
        exists [], els. repeat split; auto. constructor.
  Qed.
End Hash.

Lemma inv_token_or_star w : matches (Alt token (ch 42)) w -> token_ok w.
Proof.
  intros Hit. apply inv_alt in Hit as [Hit|Hit]; [apply inv_token, Hit|]. apply inv_ch in Hit as ->.
  split; [discriminate|repeat constructor].
Qed.

(* ---------- unconditional element theorems ---------- *)
Theorem charset_accepted_elements w : no_LF w -> rmatch gen_accept_charset w = true ->
  exists j0 els, all_junk j0 /\ els_ok token_ok els /\ w = render j0 els /\
                 parse_accept_charset w = Some (map (fun ej => canon (fst ej)) els).
Proof.
  intros Hlf Hv. pose proof (proj1 (accept_charset_eq w Hlf) Hv) as Hm.
  destruct (hash1_is_render _ _ inv_token_or_star w Hm) as (j0 & els & Hj & Hels & ->).
  exists j0, els. repeat split; auto. apply parse_charset_render; assumption.
Qed.

Theorem encoding_accepted_elements w : no_LF w -> rmatch gen_accept_encoding w = true ->
  exists j0 els, all_junk j0 /\ els_ok token_ok els /\ w = render j0 els /\
                 parse_accept_encoding w = Some (map (fun ej => canon (fst ej)) els).
Proof.
  intros Hlf Hv. pose proof (proj1 (accept_encoding_eq w Hlf) Hv) as Hm.
  destruct (hash0_is_render _ _ inv_token_or_star w Hm) as (j0 & els & Hj & Hels & ->).
  exists j0, els. repeat split; auto. apply parse_encoding_render; assumption.
Qed.

(* ---------- Accept-Language ---------- *)
From Coq Require Import ZifyBool ZifyN.

Lemma inv_one_to n r w (P : N -> Prop) :
  (forall x, matches r x -> exists c, x = [c] /\ P c) ->
  matches (one_to (S n) r) w -> (1 <= length w <= S n)%nat /\ Forall P w.
Proof.
  intros Hr H. unfold one_to in H. apply inv_cat in H as (w1 & w2 & -> & H1 & H2).
  destruct (Hr _ H1) as (c & -> & Hc). replace (S n - 1)%nat with n in H2 by lia.
  destruct (inv_upto n r w2 P Hr H2) as [Hl Hf]. split; [cbn; lia|constructor; assumption].
Qed.

Lemma inv_alpha x : matches ALPHA x -> exists c, x = [c] /\ is_alpha c = true.
Proof.
  intros H. apply inv_cls in H as (c & -> & Hc). exists c. split; [reflexivity|].
  rewrite cmem_false in Hc. cbn [in_ranges] in Hc. unfold is_alpha. lia.
Qed.
Lemma inv_alnum x : matches alphanum x -> exists c, x = [c] /\ is_alnum c = true.
Proof.
  intros H. apply inv_cls in H as (c & -> & Hc). exists c. split; [reflexivity|].
  rewrite cmem_false in Hc. cbn [in_ranges] in Hc. unfold is_alnum, is_alpha, is_digit. lia.
Qed.

Lemma inv_lang_range w : matches lang_range w -> lang_ok w.
Proof.
  intros H. apply inv_alt in H as [H|H]; [|left; apply inv_ch, H].
  right. apply inv_cat in H as (a & rest & -> & Ha & Hrest).
  apply (inv_one_to 7 ALPHA a (fun c => is_alpha c = true) inv_alpha) in Ha as [Hl Hf].
  apply inv_star in Hrest as (ws & -> & Hws).
  assert (G : exists subs, concat ws = subs_text subs /\ Forall subtag_ok subs).
  { induction Hws as [|x ws Hx _ IH]; [exists []; split; [reflexivity|constructor]|].
    destruct IH as (subs & E & Hs). apply inv_cat in Hx as (d & s & -> & Hd & Hs1). apply inv_ch in Hd as ->.
    apply (inv_one_to 7 alphanum s (fun c => is_alnum c = true) inv_alnum) in Hs1 as [Hl1 Hf1].
    exists (s :: subs). split; [|constructor; [split; assumption|exact Hs]].
    cbn [concat]. rewrite E. unfold subs_text. cbn [flat_map app]. reflexivity. }
  destruct G as (subs & -> & Hs). exists a, subs. repeat split; try assumption; lia.
Qed.

Theorem language_accepted_elements w : no_LF w -> rmatch gen_accept_language w = true ->
  exists j0 els, all_junk j0 /\ els_ok lang_ok els /\ w = render j0 els /\
                 parse_accept_language w = Some (map (fun ej => canon (fst ej)) els).
Proof.
  intros Hlf Hv. pose proof (proj1 (accept_language_eq w Hlf) Hv) as Hm.
  destruct (hash1_is_render _ _ inv_lang_range w Hm) as (j0 & els & Hj & Hels & ->).
  exists j0, els. repeat split; auto. apply parse_language_render; assumption.
Qed.
