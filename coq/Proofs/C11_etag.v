(* C11 — lemmas and proofs about Model/C11_etag.v instantiated with the REGENERATED pattern
   parameters of Gen/C11_rx.v.  The four facts about those parameters that the list theorems need
   are proved first, by computation; they fail to compile when the live list pattern does not
   accept a comma before a tag or still has the backslash-DQUOTE alternative. *)
From Coq Require Import NArith ZArith List Bool Lia ZifyBool ZifyN.
Require Import Webob.Lib.Val Webob.Lib.Rx Webob.Gen.C11_rx Webob.Model.C11_etag Webob.Spec.C11_taglist.
Import ListNotations.
Local Open Scope N_scope.

(* ------------------------------------------------------------------ facts about the regenerated parameters *)
Lemma lst_esc_false : esc lst_cfg = false.
Proof. reflexivity. Qed.

Lemma lst_excl_only_dq : forall x, x <> 34 -> in_ranges (excl lst_cfg) x = false.
Proof.
  intros x Hx. change (excl lst_cfg) with lst_excl. unfold lst_excl. cbn [in_ranges]. lia.
Qed.

Lemma lst_pre_ows : forall c, ows_comma c -> in_ranges (pre lst_cfg) c = true.
Proof. intros c [-> | [-> | ->]]; vm_compute; reflexivity. Qed.

(* response side: `.` crosses everything but LF (and the body stops at a DQUOTE) *)
Lemma rsp_excl_only_lf : forall x, x <> 10 -> in_ranges (excl rsp_cfg) x = false.
Proof.
  intros x Hx. change (excl rsp_cfg) with rsp_excl. unfold rsp_excl. cbn [in_ranges]. lia.
Qed.

(* ------------------------------------------------------------------ strings *)
Lemma str_eqb_eq : forall a b, str_eqb a b = true <-> a = b.
Proof.
  induction a as [|x a IH]; destruct b as [|y b]; cbn; split; intros E; try reflexivity; try discriminate.
  - apply andb_true_iff in E. destruct E as [E1 E2]. apply N.eqb_eq in E1. apply IH in E2. congruence.
  - injection E as -> ->. rewrite N.eqb_refl. cbn. apply IH. reflexivity.
Qed.

Lemma str_eqb_refl : forall a, str_eqb a a = true.
Proof. intros a. apply str_eqb_eq. reflexivity. Qed.

Lemma existsb_str_eqb : forall p l, existsb (str_eqb p) l = true <-> In p l.
Proof.
  intros p l. rewrite existsb_exists. split.
  - intros [x [Hin E]]. apply str_eqb_eq in E. subst. exact Hin.
  - intros Hin. exists p. split; [exact Hin | apply str_eqb_refl].
Qed.

Lemma ows_not_tag_start : forall c, ows_comma c -> (c =? DQ) = false /\ (c =? 87) = false.
Proof. intros c [-> | [-> | ->]]; split; reflexivity. Qed.

(* ------------------------------------------------------------------ the body of one tag *)
(* one ordinary character, when the two-character alternative cannot apply *)
Lemma body_scan_step : forall c x r,
  x <> 34 -> in_ranges (excl c) x = false ->
  (esc c = false \/ x <> 92 \/ (exists y r', r = y :: r' /\ y <> 34)) ->
  body_scan c (x :: r) = option_map (cons x) (body_scan c r).
Proof.
  intros c x r Hx Hex Hne. cbn [body_scan].
  replace (x =? DQ) with false by (symmetry; apply N.eqb_neq; exact Hx).
  destruct r as [|y r'].
  - rewrite Hex. reflexivity.
  - replace (esc c && (x =? BS) && (y =? DQ)) with false.
    + rewrite Hex. reflexivity.
    + symmetry. destruct Hne as [He | [Hb | [y0 [r0 [E Hy]]]]].
      * rewrite He. reflexivity.
      * replace (x =? BS) with false by (symmetry; apply N.eqb_neq; exact Hb).
        rewrite andb_false_r. reflexivity.
      * injection E as <- <-.
        replace (y =? DQ) with false by (symmetry; apply N.eqb_neq; exact Hy).
        apply andb_false_r.
Qed.

(* list scanner (no escape alternative): a quote-free tag is read exactly, whatever follows *)
Lemma body_scan_tag_noesc : forall c t more,
  esc c = false -> (forall x, In x t -> x <> 34 /\ in_ranges (excl c) x = false) ->
  body_scan c (t ++ 34 :: more) = Some t.
Proof.
  intros c t more He. induction t as [|x t IH]; intros Ht.
  - reflexivity.
  - cbn [app]. destruct (Ht x (or_introl eq_refl)) as [Hx Hex].
    rewrite body_scan_step; [| exact Hx | exact Hex | left; exact He].
    rewrite IH; [reflexivity |]. intros y Hy. apply Ht. right. exact Hy.
Qed.

(* any pattern of the family, escape alternative included: a quote-free tag that is the LAST
   thing in the string is read exactly (the engine backtracks out of the backslash-DQUOTE reading) *)
Lemma body_scan_tag_last : forall c t,
  (forall x, In x t -> x <> 34 /\ in_ranges (excl c) x = false) ->
  body_scan c (t ++ [34]) = Some t.
Proof.
  intros c t. induction t as [|x t IH]; intros Ht.
  - reflexivity.
  - destruct (Ht x (or_introl eq_refl)) as [Hx Hex].
    assert (Ht' : forall y, In y t -> y <> 34 /\ in_ranges (excl c) y = false)
      by (intros y Hy; apply Ht; right; exact Hy).
    destruct t as [|y t'].
    + (* the last character of the tag: x, then the closing quote *)
      cbn [app body_scan].
      replace (x =? DQ) with false by (symmetry; apply N.eqb_neq; exact Hx).
      destruct (esc c && (x =? BS) && (34 =? DQ)) eqn:E.
      * reflexivity.
      * rewrite Hex. reflexivity.
    + cbn [app]. rewrite body_scan_step; [| exact Hx | exact Hex |].
      * change (y :: t' ++ [34]) with ((y :: t') ++ [34]). rewrite (IH Ht'). reflexivity.
      * right. right. exists y, (t' ++ [34]). split; [reflexivity |].
        apply (Ht' y). left. reflexivity.
Qed.

(* ------------------------------------------------------------------ one tag *)
Lemma tag_at_render : forall c wt more,
  (forall m, body_scan c (snd wt ++ 34 :: m) = Some (snd wt)) ->
  tag_at c (render_tag wt ++ more) = Some wt.
Proof.
  intros c [w t] more Hb. cbn [fst snd] in *. unfold render_tag. cbn [fst snd].
  destruct w.
  - cbn [app tag_at]. change (87 =? DQ) with false. change (87 =? 87) with true.
    change (47 =? 47) with true. change (34 =? DQ) with true. cbn [andb].
    rewrite <- app_assoc. cbn [app]. rewrite Hb. reflexivity.
  - cbn [app tag_at]. change (34 =? DQ) with true. cbn iota.
    rewrite <- app_assoc. cbn [app]. rewrite Hb. reflexivity.
Qed.

Lemma tag_at_ows : forall c x r, ows_comma x -> tag_at c (x :: r) = None.
Proof.
  intros c x r Hx. destruct (ows_not_tag_start x Hx) as [E1 E2]. cbn [tag_at]. rewrite E1, E2. reflexivity.
Qed.

Lemma tag_at_filler : forall c s more,
  s <> [] -> filler s -> tag_at c (s ++ more) = None.
Proof.
  intros c [|x s] more Hne Hf; [congruence |]. cbn [app]. apply tag_at_ows. inversion Hf. assumption.
Qed.

Lemma render_tag_len : forall wt, length (render_tag wt) = tag_len wt.
Proof.
  intros [w t]. unfold render_tag, tag_len. cbn [fst snd]. destruct w; cbn [app length];
    rewrite app_length; cbn [length]; lia.
Qed.

(* a tag contains a DQUOTE: what tag_at accepts starts with DQ or W/DQ *)
Lemma tag_at_some_dq : forall c s wt, tag_at c s = Some wt -> In 34 s.
Proof.
  intros c [|x r] wt E; cbn [tag_at] in E; [discriminate |].
  destruct (x =? DQ) eqn:Ex.
  - apply N.eqb_eq in Ex. left. exact Ex.
  - destruct (x =? 87); [| discriminate].
    destruct r as [|y [|z r']]; try discriminate.
    destruct ((y =? 47) && (z =? DQ)) eqn:Eyz; [| discriminate].
    apply andb_true_iff in Eyz. destruct Eyz as [_ Ez]. apply N.eqb_eq in Ez.
    right. right. left. exact Ez.
Qed.

Lemma match_start_none : forall c s, ~ In 34 s -> match_start c s = None.
Proof.
  intros c s Hs. unfold match_start.
  destruct (tag_at c s) eqn:E; [exfalso; apply Hs; eapply tag_at_some_dq; exact E |].
  destruct s as [|x r]; [reflexivity |].
  destruct (in_ranges (pre c) x); [| reflexivity].
  destruct (tag_at c r) eqn:E2; [| reflexivity].
  exfalso. apply Hs. right. eapply tag_at_some_dq. exact E2.
Qed.

(* ------------------------------------------------------------------ findall over a rendered list *)
Lemma scan_go_skip : forall c x more, scan_go c (length x) (x ++ more) = scan_go c 0 more.
Proof. intros c x more. induction x as [|a x IH]; [reflexivity | cbn [length app scan_go]; exact IH]. Qed.

Section ListScanner.
  (* the only things the list theorems use about the pattern *)
  Variable c : scfg.
  Hypothesis c_pre : forall x, ows_comma x -> in_ranges (pre c) x = true.
  Hypothesis c_body : forall t more, tag_ok t -> body_scan c (t ++ 34 :: more) = Some t.

  Lemma tag_at_ok : forall wt more, tag_ok (snd wt) -> tag_at c (render_tag wt ++ more) = Some wt.
  Proof. intros wt more Hok. apply tag_at_render. intros m. apply c_body. exact Hok. Qed.

  Lemma scan_go_after_tag : forall wt more,
    scan_go c (tag_len wt) (render_tag wt ++ more) = scan_go c 0 more.
  Proof. intros wt more. rewrite <- render_tag_len. apply scan_go_skip. Qed.

  (* separator (non-empty run of SP / HTAB / comma) followed by a tag *)
  Lemma scan_go_sep_tag : forall sep wt more,
    sep <> [] -> filler sep -> tag_ok (snd wt) ->
    scan_go c 0 (sep ++ render_tag wt ++ more) = wt :: scan_go c 0 more.
  Proof.
    induction sep as [|x sep IH]; intros wt more Hne Hf Hok; [congruence |].
    inversion Hf as [|x' s' Hx Hf']; subst.
    cbn [app scan_go]. rewrite (c_pre x Hx).
    destruct sep as [|y sep'].
    - cbn [app]. rewrite tag_at_ok by exact Hok. rewrite scan_go_after_tag. reflexivity.
    - rewrite tag_at_filler; [| discriminate | exact Hf'].
      apply IH; [discriminate | exact Hf' | exact Hok].
  Qed.

  Lemma scan_go_filler : forall s, filler s -> scan_go c 0 s = [].
  Proof.
    induction s as [|x s IH]; intros Hf; [reflexivity |].
    inversion Hf as [|x' s' Hx Hf']; subst.
    cbn [scan_go]. rewrite (c_pre x Hx).
    replace (tag_at c s) with (@None (bool * str)).
    - apply IH. exact Hf'.
    - symmetry. destruct s as [|y s']; [reflexivity |]. apply tag_at_ows. inversion Hf'. assumption.
  Qed.

  Lemma scan_go_rest : forall rest trail,
    Forall (fun p => separator (fst p)) rest -> Forall (fun wt => tag_ok (snd wt)) (map snd rest) ->
    filler trail ->
    scan_go c 0 (render_rest rest ++ trail) = map snd rest.
  Proof.
    induction rest as [|[sep wt] rest IH]; intros trail Hs Ht Hf.
    - cbn. apply scan_go_filler. exact Hf.
    - inversion Hs as [|p l [Hsf Hsc] Hs']; subst. inversion Ht as [|q l' Hok Ht']; subst.
      cbn [render_rest map snd fst] in *. rewrite <- !app_assoc.
      rewrite scan_go_sep_tag; [| intros E; rewrite E in Hsc; exact Hsc | exact Hsf | exact Hok].
      rewrite IH; [reflexivity | exact Hs' | exact Ht' | exact Hf].
  Qed.

  Theorem findall_render : forall lead first rest trail,
    wf_list lead first rest trail ->
    findall c (render lead first rest trail) = tags_of first rest.
  Proof.
    intros lead first rest trail [Hl [Htr [Hs Ht]]].
    unfold tags_of in *. inversion Ht as [|q l Hok Ht']; subst.
    unfold render, findall.
    destruct lead as [|x lead].
    - cbn [app]. rewrite tag_at_ok by exact Hok. rewrite scan_go_after_tag.
      rewrite scan_go_rest; [reflexivity | exact Hs | exact Ht' | exact Htr].
    - rewrite tag_at_filler; [| discriminate | exact Hl].
      rewrite scan_go_sep_tag; [| discriminate | exact Hl | exact Hok].
      rewrite scan_go_rest; [reflexivity | exact Hs | exact Ht' | exact Htr].
  Qed.
End ListScanner.

Lemma lst_body : forall t more, tag_ok t -> body_scan lst_cfg (t ++ 34 :: more) = Some t.
Proof.
  intros t more Hok. apply body_scan_tag_noesc; [exact lst_esc_false |].
  intros x Hx. assert (x <> 34) by (intros ->; exact (Hok Hx)).
  split; [assumption | apply lst_excl_only_dq; assumption].
Qed.

(* C11_scan_render *)
Theorem scan_render : forall lead first rest trail,
  wf_list lead first rest trail ->
  findall lst_cfg (render lead first rest trail) = tags_of first rest.
Proof. exact (findall_render lst_cfg lst_pre_ows lst_body). Qed.

(* ------------------------------------------------------------------ membership *)
Lemma render_has_dq : forall lead first rest trail, In 34 (render lead first rest trail).
Proof.
  intros. unfold render, render_tag. apply in_or_app. right. apply in_or_app. left.
  apply in_or_app. right. left. reflexivity.
Qed.

Lemma has_dq_not_special : forall v, In 34 v -> v <> [] /\ str_eqb v STAR = false.
Proof.
  intros v Hin. split.
  - intros ->. exact Hin.
  - destruct (str_eqb v STAR) eqn:E; [| reflexivity].
    apply str_eqb_eq in E. subst. unfold STAR in Hin. cbn in Hin. destruct Hin as [H | []]. discriminate.
Qed.

Lemma matcher_parse_list : forall strong lead first rest trail,
  wf_list lead first rest trail ->
  matcher_parse strong (render lead first rest trail) =
  MTags (if strong then strong_tags (tags_of first rest) else all_tags (tags_of first rest)).
Proof.
  intros strong lead first rest trail Hwf. unfold matcher_parse.
  destruct (has_dq_not_special _ (render_has_dq lead first rest trail)) as [Hne Hst].
  rewrite Hst. rewrite (scan_render _ _ _ _ Hwf).
  destruct (render lead first rest trail) eqn:E; [congruence |].
  unfold tags_of, strong_tags, all_tags. destruct strong; reflexivity.
Qed.

Lemma getter_list : forall default strong lead first rest trail,
  wf_list lead first rest trail ->
  etag_getter default strong (Some (render lead first rest trail)) =
  MTags (if strong then strong_tags (tags_of first rest) else all_tags (tags_of first rest)).
Proof.
  intros default strong lead first rest trail Hwf. unfold etag_getter.
  rewrite <- (matcher_parse_list strong _ _ _ _ Hwf).
  destruct (has_dq_not_special _ (render_has_dq lead first rest trail)) as [Hne _].
  destruct (render lead first rest trail); [congruence | reflexivity].
Qed.

(* C11_membership *)
Theorem membership : forall lead first rest trail p,
  wf_list lead first rest trail ->
  let v := Some (render lead first rest trail) in
  (contains (if_none_match v) (Some p) = true <-> In p (all_tags (tags_of first rest))) /\
  (contains (if_match v) (Some p) = true <-> In p (strong_tags (tags_of first rest))).
Proof.
  intros lead first rest trail p Hwf v. unfold v, if_none_match, if_match.
  rewrite !(getter_list _ _ _ _ _ _ Hwf). cbn [contains]. split; apply existsb_str_eqb.
Qed.

(* None is never a member of a tag list (Response.etag_strong of a weak or missing ETag) *)
Theorem membership_none : forall lead first rest trail,
  wf_list lead first rest trail ->
  let v := Some (render lead first rest trail) in
  contains (if_none_match v) None = false /\ contains (if_match v) None = false.
Proof.
  intros lead first rest trail Hwf v. unfold v, if_none_match, if_match.
  rewrite !(getter_list _ _ _ _ _ _ Hwf). split; reflexivity.
Qed.

(* C11_star_absent *)
Theorem star_absent : forall p,
  contains (if_match None) p = true /\ contains (if_match (Some [])) p = true /\
  contains (if_none_match None) p = false /\ contains (if_none_match (Some [])) p = false /\
  contains (if_match (Some STAR)) p = true /\ contains (if_none_match (Some STAR)) p = true.
Proof. intros p. repeat split; reflexivity. Qed.

(* C11_getter_malformed: when the scanner finds no tag at all, the whole value becomes the only tag *)
Theorem getter_malformed : forall v,
  v <> [] -> v <> STAR -> findall lst_cfg v = [] ->
  if_match (Some v) = MTags [v] /\ if_none_match (Some v) = MTags [v].
Proof.
  intros v Hne Hst Hf. unfold if_match, if_none_match, etag_getter, matcher_parse.
  destruct v as [|x r]; [congruence |].
  destruct (str_eqb (x :: r) STAR) eqn:E; [apply str_eqb_eq in E; congruence |].
  rewrite Hf. split; reflexivity.
Qed.

(* every getter answers with one of the three matchers, and for a header that is present, not
   empty and not STAR it is a tag list *)
Theorem getter_total : forall value,
  (if_match value = MAny \/ exists l, if_match value = MTags l) /\
  (if_none_match value = MNo \/ if_none_match value = MAny \/ exists l, if_none_match value = MTags l).
Proof.
  intros [v|]; [| split; left; reflexivity].
  destruct v as [|x r]; [split; left; reflexivity |].
  unfold if_match, if_none_match, etag_getter, matcher_parse.
  destruct (str_eqb (x :: r) STAR); [split; [left | right; left]; reflexivity |].
  destruct (findall lst_cfg (x :: r)); split; right; try right; eexists; reflexivity.
Qed.

(* ------------------------------------------------------------------ the response ETag *)
Lemma escape_id : forall v, tag_ok v -> escape v = v.
Proof.
  induction v as [|x v IH]; intros Hok; [reflexivity |].
  cbn [escape]. replace (x =? DQ) with false.
  - rewrite IH; [reflexivity |]. intros Hin. apply Hok. right. exact Hin.
  - symmetry. apply N.eqb_neq. intros ->. apply Hok. left. reflexivity.
Qed.

Lemma unescape_id : forall v, tag_ok v -> unescape v = v.
Proof.
  induction v as [|x v IH]; intros Hok; [reflexivity |].
  assert (Hv : tag_ok v) by (intros Hin; apply Hok; right; exact Hin).
  cbn [unescape]. destruct v as [|y v']; [reflexivity |].
  replace (y =? DQ) with false.
  - rewrite andb_false_r. rewrite (IH Hv). reflexivity.
  - symmetry. apply N.eqb_neq. intros ->. apply Hv. left. reflexivity.
Qed.

Definition no_crlf (v : str) : Prop := ~ In 10 v /\ ~ In 13 v.

Lemma crlf_test_false : forall v, no_crlf v -> existsb (fun c => (c =? 10) || (c =? 13)) v = false.
Proof.
  induction v as [|x v IH]; intros [H10 H13]; [reflexivity |].
  cbn [existsb]. rewrite IH.
  - assert (x <> 10) by (intros ->; apply H10; left; reflexivity).
    assert (x <> 13) by (intros ->; apply H13; left; reflexivity). lia.
  - split; intros Hin; [apply H10 | apply H13]; right; exact Hin.
Qed.

Lemma rsp_body_last : forall v, tag_ok v -> ~ In 10 v -> body_scan rsp_cfg (v ++ [34]) = Some v.
Proof.
  intros v Hok Hlf. apply body_scan_tag_last. intros x Hx. split.
  - intros ->. exact (Hok Hx).
  - apply rsp_excl_only_lf. intros ->. exact (Hlf Hx).
Qed.

Lemma match_start_header : forall w v, tag_ok v -> ~ In 10 v ->
  match_start rsp_cfg (render_tag (w, v)) = Some (w, v).
Proof.
  intros w v Hok Hlf. unfold match_start.
  assert (E : tag_at rsp_cfg (render_tag (w, v)) = Some (w, v)).
  { pose proof (rsp_body_last v Hok Hlf) as Hb.
    unfold render_tag. cbn [fst snd]. destruct w.
    - cbn [app tag_at]. change (87 =? DQ) with false. change (87 =? 87) with true.
      change (47 =? 47) with true. change (34 =? DQ) with true. cbn [andb]. rewrite Hb. reflexivity.
    - cbn [app tag_at]. change (34 =? DQ) with true. cbn iota. rewrite Hb. reflexivity. }
  rewrite E. reflexivity.
Qed.

Lemma render_tag_ne : forall wt, render_tag wt <> [].
Proof. intros [[|] t]; unfold render_tag; cbn; discriminate. Qed.

Lemma parse_header : forall strong w v, tag_ok v -> ~ In 10 v ->
  parse_etag_response strong (Some (render_tag (w, v))) = if strong && w then None else Some v.
Proof.
  intros strong w v Hok Hlf. unfold parse_etag_response.
  destruct (render_tag (w, v)) eqn:E; [exfalso; exact (render_tag_ne _ E) |].
  rewrite <- E. rewrite (match_start_header w v Hok Hlf).
  destruct (strong && w); [reflexivity |]. rewrite (unescape_id v Hok). reflexivity.
Qed.

Lemma quote_tag_render : forall strong v, tag_ok v -> quote_tag strong v = render_tag (negb strong, v).
Proof.
  intros strong v Hok. unfold quote_tag, render_tag. cbn [fst snd]. rewrite (escape_id v Hok).
  destruct strong; reflexivity.
Qed.

Lemma header_no_crlf : forall w v, no_crlf v ->
  existsb (fun c => (c =? 10) || (c =? 13)) (render_tag (w, v)) = false.
Proof.
  intros w v Hv. unfold render_tag. cbn [fst snd].
  rewrite existsb_app. cbn [existsb]. rewrite existsb_app. rewrite (crlf_test_false v Hv).
  destruct w; reflexivity.
Qed.

(* the argument forms of the statement: a string (strong) or a (value, strong) pair *)
Definition arg_strong (a : etag_arg) : bool := match a with EStr _ => true | EPair _ s => s end.
Definition arg_value (a : etag_arg) : str := match a with EStr v => v | EPair v _ => v end.

Lemma serialize_quote_free : forall a, tag_ok (arg_value a) ->
  serialize_etag_response a = render_tag (negb (arg_strong a), arg_value a).
Proof.
  intros [v | v s] Hok; cbn [arg_value arg_strong serialize_etag_response] in *.
  - rewrite (match_start_none rsp_cfg v Hok). apply quote_tag_render. exact Hok.
  - apply quote_tag_render. exact Hok.
Qed.

(* C11_etag_response_roundtrip *)
Theorem etag_response_roundtrip : forall a,
  tag_ok (arg_value a) -> no_crlf (arg_value a) ->
  let h := render_tag (negb (arg_strong a), arg_value a) in
  set_etag a = Some h /\
  get_etag (Some h) = Some (arg_value a) /\
  get_etag_strong (Some h) = (if arg_strong a then Some (arg_value a) else None).
Proof.
  intros a Hok Hcr h. unfold set_etag, get_etag, get_etag_strong.
  rewrite (serialize_quote_free a Hok). fold h. unfold h.
  rewrite (header_no_crlf _ _ Hcr). destruct Hcr as [Hlf _].
  rewrite !(parse_header _ _ _ Hok Hlf). cbn [andb].
  destruct (arg_strong a); repeat split; reflexivity.
Qed.

(* CR or LF in the value: the assignment is refused, no header is written *)
Theorem etag_set_refuses_crlf : forall a,
  tag_ok (arg_value a) -> (In 10 (arg_value a) \/ In 13 (arg_value a)) -> set_etag a = None.
Proof.
  intros a Hok Hin. unfold set_etag. rewrite (serialize_quote_free a Hok).
  replace (existsb _ _) with true; [reflexivity |]. symmetry. apply existsb_exists.
  destruct Hin as [Hin | Hin]; [exists 10 | exists 13]; (split; [| reflexivity]);
    unfold render_tag; cbn [fst snd]; apply in_or_app; right; right; apply in_or_app; left; exact Hin.
Qed.

(* ------------------------------------------------------------------ If-Range *)
Lemma ends_with_s_suffix : forall suf s, ends_with_s suf s = true -> exists p, s = p ++ suf.
Proof.
  intros suf. induction s as [|x s IH]; intros E; cbn [ends_with_s] in E.
  - apply orb_true_iff in E. destruct E as [E | E]; [| discriminate].
    apply str_eqb_eq in E. exists []. rewrite <- E. reflexivity.
  - apply orb_true_iff in E. destruct E as [E | E].
    + apply str_eqb_eq in E. exists []. rewrite <- E. reflexivity.
    + destruct (IH E) as [p Hp]. exists (x :: p). rewrite Hp. reflexivity.
Qed.

Lemma tag_not_gmt : forall wt, ends_with_s GMT (render_tag wt) = false.
Proof.
  intros wt. destruct (ends_with_s GMT (render_tag wt)) eqn:E; [| reflexivity].
  apply ends_with_s_suffix in E. destruct E as [p Hp]. exfalso.
  unfold render_tag, GMT in Hp.
  change (p ++ [32; 71; 77; 84]) with (p ++ [32; 71; 77] ++ [84]) in Hp.
  change (34 :: snd wt ++ [34]) with ((34 :: snd wt) ++ [34]) in Hp.
  rewrite !app_assoc in Hp. apply app_inj_tail in Hp. destruct Hp as [_ Hp]. discriminate.
Qed.

(* what the asctime pattern accepts never contains a DQUOTE: no class of the regenerated pattern
   admits 34 (computed), so a quoted value cannot take the date branch *)
Fixpoint rx_avoids (c : N) (r : rx) : bool :=
  match r with
  | Emp | Eps => true
  | Cls neg rs => negb (cmem neg rs c)
  | Cat a b | Alt a b => rx_avoids c a && rx_avoids c b
  | Star a => rx_avoids c a
  end.

Lemma rx_avoids_sound : forall c r w, rx_avoids c r = true -> matches r w -> ~ In c w.
Proof.
  intros c r w Hav Hm. induction Hm; cbn [rx_avoids] in Hav.
  - intros [].
  - intros [E | []]. subst. rewrite H in Hav. discriminate.
  - apply andb_true_iff in Hav. destruct Hav as [Ha Hb]. intros Hin. apply in_app_or in Hin.
    destruct Hin; [apply IHHm1 | apply IHHm2]; assumption.
  - apply andb_true_iff in Hav. apply IHHm. apply Hav.
  - apply andb_true_iff in Hav. apply IHHm. apply Hav.
  - intros [].
  - intros Hin. apply in_app_or in Hin. destruct Hin; [apply IHHm1 | apply IHHm2]; assumption.
Qed.

Lemma asctime_no_dq : forall v, is_asctime v = true -> ~ In 34 v.
Proof.
  intros v H. apply (rx_avoids_sound 34 asctime_rx); [vm_compute; reflexivity |].
  apply rmatch_correct. exact H.
Qed.

Lemma tag_not_asctime : forall wt, is_asctime (render_tag wt) = false.
Proof.
  intros wt. destruct (is_asctime (render_tag wt)) eqn:E; [| reflexivity].
  exfalso. apply (asctime_no_dq _ E). unfold render_tag. apply in_or_app. right. left. reflexivity.
Qed.

Lemma single_tag_list : forall wt, tag_ok (snd wt) -> wf_list [] wt [] [].
Proof. intros wt Hok. repeat split; constructor; [exact Hok | constructor]. Qed.

Lemma render_single : forall wt, render [] wt [] [] = render_tag wt.
Proof. intros wt. unfold render. cbn [render_rest app]. rewrite app_nil_r. reflexivity. Qed.

Section IfRange.
  Variable pd : str -> option Z.

  Lemma if_range_parse_tag : forall wt, tag_ok (snd wt) ->
    if_range_parse pd (Some (render_tag wt)) = IRTag (MTags (strong_tags [wt])).
  Proof.
    intros wt Hok. unfold if_range_parse. rewrite tag_not_gmt, tag_not_asctime. cbn [negb].
    destruct (render_tag wt) eqn:E; [exfalso; exact (render_tag_ne _ E) |]. rewrite <- E.
    rewrite <- (render_single wt). rewrite (matcher_parse_list true _ _ _ _ (single_tag_list wt Hok)).
    reflexivity.
  Qed.

  (* C11_if_range_tag: a strong tag matches exactly the responses whose strong ETag is that tag;
     a weak one matches none *)
  Theorem if_range_tag : forall w t etag_hdr lm_hdr, tag_ok t ->
    exists b, if_range_contains pd (if_range_parse pd (Some (render_tag (w, t)))) etag_hdr lm_hdr = Some b /\
              (b = true <-> w = false /\ get_etag_strong etag_hdr = Some t).
  Proof.
    intros w t e l Hok. rewrite (if_range_parse_tag (w, t) Hok). cbn [if_range_contains].
    eexists. split; [reflexivity |].
    unfold strong_tags. cbn [filter fst snd map]. destruct w; cbn [negb map contains].
    - destruct (get_etag_strong e); split; try discriminate; intros [? _]; discriminate.
    - destruct (get_etag_strong e) as [u|]; cbn [existsb].
      + rewrite orb_false_r. rewrite str_eqb_eq. split.
        * intros ->. split; reflexivity.
        * intros [_ E]. injection E as ->. reflexivity.
      + split; [discriminate | intros [_ E]; discriminate].
  Qed.

  (* C11_if_range_date *)
  Theorem if_range_date : forall v d etag_hdr,
    ends_with_s GMT v = true -> pd v = Some d ->
    (forall lm l, lm <> [] -> pd lm = Some l ->
       if_range_contains pd (if_range_parse pd (Some v)) etag_hdr (Some lm) = Some (Z.leb l d)) /\
    if_range_contains pd (if_range_parse pd (Some v)) etag_hdr None = Some false.
  Proof.
    intros v d e Hg Hd. unfold if_range_parse. rewrite Hg.
    destruct v as [|x r]; [cbn in Hg; discriminate |]. rewrite Hd. cbn [if_range_contains]. split.
    - intros lm l Hne Hl. destruct lm as [|y lm']; [congruence |]. rewrite Hl. reflexivity.
    - reflexivity.
  Qed.

  (* the asctime form of HTTP-date: no SP GMT suffix, exactly the asctime-date shape, and parse_date
     understands it once SP GMT is appended *)
  Theorem if_range_asctime : forall v d etag_hdr,
    ends_with_s GMT v = false -> is_asctime v = true -> pd (v ++ GMT) = Some d ->
    (forall lm l, lm <> [] -> pd lm = Some l ->
       if_range_contains pd (if_range_parse pd (Some v)) etag_hdr (Some lm) = Some (Z.leb l d)) /\
    if_range_contains pd (if_range_parse pd (Some v)) etag_hdr None = Some false.
  Proof.
    intros v d e Hg Hs Hd. unfold if_range_parse. rewrite Hg, Hs, Hd. cbn [negb].
    destruct v as [|x r]; [vm_compute in Hs; discriminate |]. cbn [if_range_contains]. split.
    - intros lm l Hl0 Hl. destruct lm as [|y lm']; [congruence |]. rewrite Hl. reflexivity.
    - reflexivity.
  Qed.

  (* ... and ONLY that shape: any other value without the SP GMT suffix is handed to ETagMatcher.parse,
     whatever parse_date would make of it (an IMF-fixdate or RFC 850 date with the zone cut off, an
     asctime date with a zone appended, lower-case names, ...) *)
  Theorem if_range_not_date : forall v,
    ends_with_s GMT v = false -> is_asctime v = false ->
    if_range_parse pd (Some v) = IRTag (match v with [] => MAny | _ => matcher_parse true v end).
  Proof.
    intros v Hg Hs. unfold if_range_parse. rewrite Hg, Hs. destruct v; reflexivity.
  Qed.

  (* no If-Range (or an empty one): every response matches *)
  Theorem if_range_absent : forall etag_hdr lm_hdr,
    if_range_contains pd (if_range_parse pd None) etag_hdr lm_hdr = Some true /\
    if_range_contains pd (if_range_parse pd (Some [])) etag_hdr lm_hdr = Some true.
  Proof. intros. split; reflexivity. Qed.

  (* C11_echo_matches *)
  Theorem echo_matches : forall a lead first rest trail lm_hdr,
    tag_ok (arg_value a) -> no_crlf (arg_value a) ->
    wf_list lead first rest trail ->
    let me := (negb (arg_strong a), arg_value a) in      (* the entity-tag the response carries *)
    let h := Some (render_tag me) in                      (* = its ETag header (etag_response_roundtrip) *)
    In me (tags_of first rest) ->                         (* the client echoes it somewhere in a list *)
    let v := Some (render lead first rest trail) in
    contains (if_none_match v) (get_etag h) = true /\
    (arg_strong a = true -> contains (if_match v) (get_etag h) = true) /\
    (~ In (false, arg_value a) (tags_of first rest) -> contains (if_match v) (get_etag h) = false) /\
    if_range_contains pd (if_range_parse pd h) h lm_hdr = Some (arg_strong a).
  Proof.
    intros a lead first rest trail lm Hok Hcr Hwf me h Hin v.
    destruct (etag_response_roundtrip a Hok Hcr) as [_ [Hget Hstrong]].
    fold me in Hget, Hstrong. fold h in Hget, Hstrong. rewrite Hget.
    destruct (membership lead first rest trail (arg_value a) Hwf) as [Hinm Him]. fold v in Hinm, Him.
    repeat split.
    - apply Hinm. unfold all_tags. apply in_map_iff. exists me. split; [reflexivity | exact Hin].
    - intros Hs. apply Him. unfold strong_tags. apply in_map_iff. exists me. split; [reflexivity |].
      apply filter_In. split; [exact Hin |]. unfold me. cbn [fst]. rewrite Hs. reflexivity.
    - intros Hnot. destruct (contains (if_match v) (Some (arg_value a))) eqn:E; [| reflexivity].
      exfalso. pose proof (proj1 Him eq_refl) as E'. unfold strong_tags in E'. apply in_map_iff in E'.
      destruct E' as [[w t] [Et Ef]]. apply filter_In in Ef. destruct Ef as [Ein Ew].
      cbn [fst snd] in *. subst t. destruct w; [discriminate |]. exact (Hnot Ein).
    - unfold h. rewrite (if_range_parse_tag me Hok). cbn [if_range_contains]. fold h. rewrite Hstrong.
      unfold strong_tags, me. cbn [filter fst snd map]. destruct (arg_strong a); cbn [negb map contains existsb].
      + rewrite str_eqb_refl. reflexivity.
      + reflexivity.
  Qed.
End IfRange.

(* a client (or this library) scanning the emitted header alone sees exactly one entity-tag *)
Theorem header_is_one_tag : forall a,
  tag_ok (arg_value a) ->
  findall lst_cfg (render_tag (negb (arg_strong a), arg_value a)) = [(negb (arg_strong a), arg_value a)].
Proof.
  intros a Hok. rewrite <- render_single. rewrite scan_render; [reflexivity |].
  apply single_tag_list. exact Hok.
Qed.
