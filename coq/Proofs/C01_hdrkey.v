(* C01 — reading the header names back: for an ASCII header name without "_", the key it is stored under
   is listed by request.headers as the title-cased name (headers.py:113-130). *)
From Coq Require Import ZArith NArith List Bool String Lia.
Require Import Webob.Lib.Val Webob.Lib.PyStr Webob.Lib.C01_Str Webob.Model.MultiDict Webob.Model.C01_EnvView
               Webob.Proofs.C08_multidict Webob.Proofs.C01_env.
Import ListNotations.
Local Open Scope list_scope.

Definition up (c : N) : N := if ((97 <=? c) && (c <=? 122))%N then (c - 32)%N else c.
Definition ascii : list N := map N.of_nat (seq 0 128).

Lemma in_ascii c : (c < 128)%N -> In c ascii.
Proof. intros H. unfold ascii. rewrite <- (N2Nat.id c). apply in_map. apply in_seq. lia. Qed.

Definition char_facts (c : N) : bool :=
  str_eqb (upper_c1 c) [up c] && Bool.eqb (is_cased (up c)) (is_cased c)
  && str_eqb (lower_c1 (up c)) (lower_c1 c) && str_eqb (title_c1 (up c)) (title_c1 c)
  && Bool.eqb (up c =? 95)%N (c =? 95)%N.

Lemma char_facts_sweep : forallb char_facts ascii = true.
Proof. vm_compute. reflexivity. Qed.

Lemma char_facts_ascii c : (c < 128)%N ->
  upper_c1 c = [up c] /\ is_cased (up c) = is_cased c /\ lower_c1 (up c) = lower_c1 c /\
  title_c1 (up c) = title_c1 c /\ (up c =? 95)%N = (c =? 95)%N.
Proof.
  intros H. pose proof char_facts_sweep as S. rewrite forallb_forall in S. specialize (S c (in_ascii c H)).
  unfold char_facts in S. repeat (apply andb_prop in S; destruct S as [S ?]).
  repeat split; try (apply str_eqb_eq; assumption); apply eqb_prop; assumption.
Qed.

Lemma py_upper_ascii n : Forall (fun c => (c < 128)%N) n -> py_upper n = map up n.
Proof.
  unfold py_upper. induction 1 as [|c n Hc Hn IH]; cbn [flat_map map]; [reflexivity|].
  destruct (char_facts_ascii c Hc) as [E _]. rewrite E, IH. reflexivity.
Qed.

Lemma title_up n : Forall (fun c => (c < 128)%N) n -> forall b, title_go b (map up n) = title_go b n.
Proof.
  induction 1 as [|c n Hc Hn IH]; intros b; cbn [map title_go]; [reflexivity|].
  destruct (char_facts_ascii c Hc) as [_ [E1 [E2 [E3 _]]]]. rewrite E1, E2, E3, IH. reflexivity.
Qed.

Lemma mem95_up n : Forall (fun c => (c < 128)%N) n -> mem_n 95 (map up n) = mem_n 95 n.
Proof.
  induction 1 as [|c n Hc Hn IH]; cbn [map mem_n]; [reflexivity|].
  destruct (char_facts_ascii c Hc) as [_ [_ [_ [_ E]]]]. rewrite E, IH. reflexivity.
Qed.

Lemma replace_back u : mem_n 95 u = false -> replace_cc 95 45 (replace_cc 45 95 u) = u.
Proof.
  unfold replace_cc. induction u as [|c u IH]; cbn [map mem_n]; [reflexivity|].
  intros H. apply orb_false_iff in H. destruct H as [Hc Hu]. rewrite IH by exact Hu. f_equal.
  destruct (c =? 45)%N eqn:E45.
  - apply N.eqb_eq in E45. subst c. reflexivity.
  - rewrite Hc. reflexivity.
Qed.

Lemma key_CT X : str_eqb (lit "CONTENT_TYPE") (HTTP_ ++ X) = false. Proof. vm_compute. reflexivity. Qed.
Lemma key_CL X : str_eqb (lit "CONTENT_LENGTH") (HTTP_ ++ X) = false. Proof. vm_compute. reflexivity. Qed.
Lemma key_HCT X : str_eqb (lit "HTTP_CONTENT_TYPE") (HTTP_ ++ X) = str_eqb (lit "CONTENT_TYPE") X.
Proof. vm_compute. reflexivity. Qed.
Lemma key_HCL X : str_eqb (lit "HTTP_CONTENT_LENGTH") (HTTP_ ++ X) = str_eqb (lit "CONTENT_LENGTH") X.
Proof. vm_compute. reflexivity. Qed.
Lemma starts_HTTP X : starts_with HTTP_ (HTTP_ ++ X) = true. Proof. vm_compute. reflexivity. Qed.
Lemma skip_HTTP X : skipn 5 (HTTP_ ++ X) = X. Proof. vm_compute. reflexivity. Qed.

Theorem header_key_roundtrip n :
  Forall (fun c => (c < 128)%N) n -> mem_n 95 n = false -> trans_key (trans_name n) = Some (py_title n).
Proof.
  intros Ha H95.
  assert (Hu95 : mem_n 95 (map up n) = false) by (rewrite mem95_up; assumption).
  assert (Ht : py_title n = py_title (map up n)) by (unfold py_title; rewrite title_up; auto).
  unfold trans_name. rewrite py_upper_ascii by exact Ha. set (u := map up n) in *.
  unfold header2key. cbn [lookup].
  destruct (str_eqb (lit "CONTENT-TYPE") u) eqn:E1.
  { apply str_eqb_eq in E1. rewrite Ht, <- E1. vm_compute. reflexivity. }
  destruct (str_eqb (lit "CONTENT-LENGTH") u) eqn:E2.
  { apply str_eqb_eq in E2. rewrite Ht, <- E2. vm_compute. reflexivity. }
  destruct (str_eqb (lit "CONTENT_TYPE") u) eqn:E3.
  { apply str_eqb_eq in E3. rewrite <- E3 in Hu95. vm_compute in Hu95. discriminate. }
  destruct (str_eqb (lit "CONTENT_LENGTH") u) eqn:E4.
  { apply str_eqb_eq in E4. rewrite <- E4 in Hu95. vm_compute in Hu95. discriminate. }
  unfold trans_key, key2header. cbn [lookup].
  rewrite key_CT, key_CL, key_HCT, key_HCL.
  destruct (str_eqb (lit "CONTENT_TYPE") (replace_cc 45 95 u)) eqn:F1.
  { exfalso. apply str_eqb_eq in F1. pose proof (replace_back u Hu95) as R. rewrite <- F1 in R.
    rewrite <- R in E1. vm_compute in E1. discriminate. }
  destruct (str_eqb (lit "CONTENT_LENGTH") (replace_cc 45 95 u)) eqn:F2.
  { exfalso. apply str_eqb_eq in F2. pose proof (replace_back u Hu95) as R. rewrite <- F2 in R.
    rewrite <- R in E2. vm_compute in E2. discriminate. }
  rewrite starts_HTTP, skip_HTTP, replace_back by exact Hu95. rewrite Ht. reflexivity.
Qed.

(* so a header written through request.headers is listed back under its title-cased name *)
Example header_key_roundtrip_ex : trans_key (trans_name (lit "x-forwarded-for")) = Some (lit "X-Forwarded-For").
Proof. vm_compute. reflexivity. Qed.
