(* C13 — url_quote / url_unquote: output alphabet, inverse, homomorphism; text <-> WSGI string. *)
From Coq Require Import NArith ZArith List Bool Lia ZifyBool ZifyNat ZifyN.
Require Import Webob.Lib.Val Webob.Lib.PyStr Webob.Lib.C13_Utf8 Webob.Gen.C13_tables
               Webob.Model.C13_urlsplit Webob.Model.C13_urlpath Webob.Spec.C13_spec Webob.Proofs.C13_utf8.
Import ListNotations.
Local Open Scope N_scope.

(* ------------------------------------------------------------------ finite sweeps over the ASCII range *)
Definition below (n : nat) : list N := map N.of_nat (seq 0 n).
Lemma in_below n c : (N.to_nat c < n)%nat -> In c (below n).
Proof.
  intros H. unfold below. apply in_map_iff. exists (N.to_nat c). split; [lia|].
  apply in_seq. lia.
Qed.

Lemma sweep128 (P : N -> bool) : forallb P (below 128) = true -> forall c, c < 128 -> P c = true.
Proof.
  intros H c Hc. rewrite forallb_forall in H. apply H. apply in_below. lia.
Qed.
Lemma sweep16 (P : N -> bool) : forallb P (below 16) = true -> forall c, c < 16 -> P c = true.
Proof.
  intros H c Hc. rewrite forallb_forall in H. apply H. apply in_below. lia.
Qed.

(* what the safe set (regenerated PATH_SAFE + urllib's always-safe) must satisfy for the property *)
Definition path_char (c : N) : bool := printable c && negb (c =? 63) && negb (c =? 35).

Lemma quote_safe_lt c : quote_safe c = true -> c < 128.
Proof. unfold quote_safe. intros H. apply andb_true_iff in H as [H _]. lia. Qed.

Lemma quote_safe_rfc c : quote_safe c = true -> rfc_path_char c = true.
Proof.
  intros H. pose proof (quote_safe_lt c H) as Hl. revert H.
  apply (sweep128 (fun c => implb (quote_safe c) (rfc_path_char c))) in Hl; [|vm_compute; reflexivity].
  destruct (quote_safe c); cbn in *; auto. discriminate.
Qed.

Lemma rfc_path_char_facts c : rfc_path_char c = true -> path_char c = true /\ c <> 37 /\ c < 128.
Proof.
  unfold rfc_path_char, rfc_unreserved, rfc_subdelim, path_char, printable, is_alpha, is_digit. lia.
Qed.

Lemma quote_safe_slash : quote_safe 47 = true.
Proof. vm_compute. reflexivity. Qed.

Lemma hexU_spec n : n < 16 -> hexval (hexU n) = Some n /\ upper_hex (hexU n) = true.
Proof.
  intros H.
  apply (sweep16 (fun n => match hexval (hexU n) with Some m => (m =? n) | None => false end && upper_hex (hexU n))) in H;
    [|vm_compute; reflexivity].
  apply andb_true_iff in H as [H1 H2]. split; [|exact H2].
  destruct (hexval (hexU n)); [|discriminate]. f_equal. lia.
Qed.

Lemma upper_hex_facts a : upper_hex a = true -> path_char a = true /\ a <> 37 /\ a < 128 /\ exists x, hexval a = Some x.
Proof.
  unfold upper_hex, path_char, printable, is_digit, hexval. intros H.
  repeat split; try lia.
  destruct ((48 <=? a) && (a <=? 57)) eqn:E1; [eexists; reflexivity|].
  destruct ((65 <=? a) && (a <=? 70)) eqn:E2; [eexists; reflexivity|]. lia.
Qed.

(* ------------------------------------------------------------------ url_quote *)
Lemma url_quote_app a b : url_quote (a ++ b) = url_quote a ++ url_quote b.
Proof. unfold url_quote. apply flat_map_app. Qed.

Lemma url_quote_cons c s : url_quote (c :: s) = quote_char c ++ url_quote s.
Proof. reflexivity. Qed.

Theorem quote_pct_encoded bs : forallb is_octet bs = true -> pct_encoded (url_quote bs).
Proof.
  induction bs as [|c bs IH]; intros H; [constructor|].
  cbn [forallb] in H. apply andb_true_iff in H as [Hc Hb]. unfold is_octet in Hc.
  rewrite url_quote_cons. unfold quote_char.
  destruct (quote_safe c) eqn:Es.
  - cbn [app]. apply pe_lit; [apply quote_safe_rfc; exact Es | apply IH; exact Hb].
  - cbn [app].
    assert (H1 : c / 16 < 16) by (apply N.div_lt_upper_bound; lia).
    assert (H2 : c mod 16 < 16) by (apply N.mod_lt; lia).
    apply pe_esc; [apply hexU_spec; exact H1 | apply hexU_spec; exact H2 | apply IH; exact Hb].
Qed.

Lemma pct_encoded_chars s : pct_encoded s -> forallb path_char s = true /\ forallb is_ascii s = true.
Proof.
  induction 1 as [|c s Hc _ [IH1 IH2]|a b s Ha Hb _ [IH1 IH2]]; [split; reflexivity| |].
  - destruct (rfc_path_char_facts c Hc) as [P1 [_ P3]]. cbn [forallb]. rewrite P1, IH1, IH2.
    unfold is_ascii. split; [reflexivity|]. rewrite andb_true_r. lia.
  - destruct (upper_hex_facts a Ha) as [A1 [_ [A3 _]]]. destruct (upper_hex_facts b Hb) as [B1 [_ [B3 _]]].
    cbn [forallb]. rewrite A1, B1, IH1, IH2. unfold is_ascii. split; [reflexivity|].
    rewrite andb_true_r. lia.
Qed.

(* ------------------------------------------------------------------ unquote equations *)
Lemma split_c_nonempty d s : exists f fs, split_c d s = f :: fs.
Proof.
  induction s as [|c s [f [fs E]]]; [eexists; eexists; reflexivity|].
  cbn [split_c]. destruct (c =? d); [eexists; eexists; reflexivity|].
  rewrite E. eexists; eexists; reflexivity.
Qed.

Lemma unquote_plain c s : c <> 37 -> unquote (c :: s) = (r <- unquote s ;; Ok (c :: r)).
Proof.
  intros Hc. unfold unquote. cbn [split_c].
  destruct (c =? 37) eqn:E; [lia|].
  destruct (split_c_nonempty 37 s) as [f [fs Es]]. rewrite Es.
  destruct (unquote_items fs); reflexivity.
Qed.

Lemma hexval_not_pct a x : hexval a = Some x -> (a =? 37) = false.
Proof.
  unfold hexval. intros H.
  destruct ((48 <=? a) && (a <=? 57)) eqn:E1; [lia|].
  destruct ((65 <=? a) && (a <=? 70)) eqn:E2; [lia|].
  destruct ((97 <=? a) && (a <=? 102)) eqn:E3; [lia|discriminate].
Qed.

Lemma unquote_pct a b s x y : hexval a = Some x -> hexval b = Some y ->
  unquote (37 :: a :: b :: s) = (r <- unquote s ;; Ok ((16 * x + y) :: r)).
Proof.
  intros Ha Hb. unfold unquote. cbn [split_c].
  rewrite (hexval_not_pct a x Ha), (hexval_not_pct b y Hb). cbn [N.eqb Pos.eqb].
  destruct (split_c_nonempty 37 s) as [f [fs Es]]. rewrite Es.
  cbn [unquote_items]. rewrite Ha, Hb.
  destruct (unquote_items fs); reflexivity.
Qed.

Theorem unquote_quote bs : forallb is_octet bs = true -> unquote (url_quote bs) = Ok bs.
Proof.
  induction bs as [|c bs IH]; intros H; [reflexivity|].
  cbn [forallb] in H. apply andb_true_iff in H as [Hc Hb]. unfold is_octet in Hc.
  rewrite url_quote_cons. unfold quote_char.
  destruct (quote_safe c) eqn:Es.
  - cbn [app]. pose proof (quote_safe_rfc c Es) as Hr. apply rfc_path_char_facts in Hr as [_ [Hn _]].
    rewrite unquote_plain by exact Hn. rewrite (IH Hb). reflexivity.
  - cbn [app].
    assert (H1 : c / 16 < 16) by (apply N.div_lt_upper_bound; lia).
    assert (H2 : c mod 16 < 16) by (apply N.mod_lt; lia).
    rewrite (unquote_pct _ _ _ (c / 16) (c mod 16)) by (apply hexU_spec; assumption).
    rewrite (IH Hb). cbn [bind]. f_equal. f_equal.
    pose proof (N.div_mod' c 16). lia.
Qed.

Theorem url_unquote_quote bs : forallb is_octet bs = true -> url_unquote (url_quote bs) = Ok bs.
Proof.
  intros H. unfold url_unquote.
  destruct (pct_encoded_chars _ (quote_pct_encoded bs H)) as [_ Ha]. rewrite Ha.
  apply unquote_quote. exact H.
Qed.

(* the reference decoder of the statement reads the same bytes back *)
Theorem pct_decode_quote bs : forallb is_octet bs = true ->
  forall fuel, (length (url_quote bs) < fuel)%nat -> pct_decode fuel (url_quote bs) = Some bs.
Proof.
  induction bs as [|c bs IH]; intros H fuel Hf.
  { destruct fuel; [cbn in Hf; lia|reflexivity]. }
  cbn [forallb] in H. apply andb_true_iff in H as [Hc Hb]. unfold is_octet in Hc.
  rewrite url_quote_cons in *. unfold quote_char in *.
  destruct (quote_safe c) eqn:Es.
  - cbn [app] in *. pose proof (quote_safe_rfc c Es) as Hr. apply rfc_path_char_facts in Hr as [_ [Hn _]].
    destruct fuel; [cbn in Hf; lia|]. cbn [pct_decode].
    destruct (c =? 37) eqn:E; [lia|]. cbn [length] in Hf. rewrite IH by (exact Hb || lia). reflexivity.
  - cbn [app] in *.
    assert (H1 : c / 16 < 16) by (apply N.div_lt_upper_bound; lia).
    assert (H2 : c mod 16 < 16) by (apply N.mod_lt; lia).
    destruct fuel; [cbn in Hf; lia|]. cbn [pct_decode]. cbn [N.eqb Pos.eqb].
    destruct (hexU_spec _ H1) as [-> _]. destruct (hexU_spec _ H2) as [-> _].
    cbn [length] in Hf. rewrite IH by (exact Hb || lia). cbn [option_map]. f_equal. f_equal.
    pose proof (N.div_mod' c 16). lia.
Qed.

(* ------------------------------------------------------------------ text <-> bytes <-> WSGI string *)
Lemma encode_octets enc t raw : encode enc t = Ok raw -> forallb is_octet raw = true.
Proof.
  destruct enc; cbn [encode].
  - destruct (valid_text t) eqn:E; [|discriminate]. intros [= <-]. apply utf8_encode_octets. exact E.
  - destruct (forallb is_octet t) eqn:E; [|discriminate]. intros [= <-]. exact E.
Qed.

Lemma encode_text_ok enc t : text_ok enc t -> exists raw, encode enc t = Ok raw.
Proof.
  destruct enc; cbn [text_ok encode]; intros ->; eexists; reflexivity.
Qed.

Lemma encode_ok_text enc t raw : encode enc t = Ok raw -> text_ok enc t.
Proof.
  destruct enc; cbn [text_ok encode].
  - destruct (valid_text t); [reflexivity|discriminate].
  - destruct (forallb is_octet t); [reflexivity|discriminate].
Qed.

Theorem encget_encode enc t raw : encode enc t = Ok raw -> encget enc raw = Ok t.
Proof.
  intros H. pose proof (encode_octets _ _ _ H) as Ho. destruct enc; cbn [encode encget] in *.
  - destruct (valid_text t) eqn:E; [|discriminate]. injection H as <-.
    rewrite Ho, (utf8_roundtrip t E). reflexivity.
  - destruct (forallb is_octet t); [|discriminate]. injection H as <-. reflexivity.
Qed.

Lemma utf8_encode_app a b : utf8_encode (a ++ b) = utf8_encode a ++ utf8_encode b.
Proof. unfold utf8_encode. apply flat_map_app. Qed.

Lemma encode_app enc a b ra rb :
  encode enc a = Ok ra -> encode enc b = Ok rb -> encode enc (a ++ b) = Ok (ra ++ rb).
Proof.
  destruct enc; cbn [encode].
  - destruct (valid_text a) eqn:Ea; [|discriminate]. destruct (valid_text b) eqn:Eb; [|discriminate].
    intros [= <-] [= <-]. rewrite valid_text_app, Ea, Eb, utf8_encode_app. reflexivity.
  - destruct (forallb is_octet a) eqn:Ea; [|discriminate]. destruct (forallb is_octet b) eqn:Eb; [|discriminate].
    intros [= <-] [= <-]. rewrite forallb_app, Ea, Eb. reflexivity.
Qed.

Lemma encode_app_inv enc a b r : encode enc (a ++ b) = Ok r ->
  exists ra rb, encode enc a = Ok ra /\ encode enc b = Ok rb /\ r = ra ++ rb.
Proof.
  destruct enc; cbn [encode].
  - rewrite valid_text_app. destruct (valid_text a); [|discriminate]. destruct (valid_text b); [|discriminate].
    cbn [andb]. intros [= <-]. eexists; eexists. repeat split. apply utf8_encode_app.
  - rewrite forallb_app. destruct (forallb is_octet a); [|discriminate]. destruct (forallb is_octet b); [|discriminate].
    cbn [andb]. intros [= <-]. eexists; eexists. repeat split.
Qed.

Lemma encode_nil enc : encode enc [] = Ok [].
Proof. destruct enc; reflexivity. Qed.

(* a text that starts with '/' encodes to bytes that start with '/' *)
Lemma encode_rooted enc t raw : encode enc t = Ok raw -> rooted t -> rooted raw.
Proof.
  intros H [->|[t' ->]].
  - rewrite encode_nil in H. injection H as <-. left; reflexivity.
  - right. change (47 :: t') with ([47] ++ t') in H. apply encode_app_inv in H as [ra [rb [Ha [_ ->]]]].
    destruct enc; cbn in Ha; injection Ha as <-; eexists; reflexivity.
Qed.

Lemma url_quote_rooted raw : rooted raw -> rooted (url_quote raw).
Proof.
  intros [->|[t' ->]]; [left; reflexivity|]. right. rewrite url_quote_cons. unfold quote_char.
  rewrite quote_safe_slash. eexists; reflexivity.
Qed.
