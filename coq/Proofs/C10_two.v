(* C10 — two requests alive at the same time in one heap: each behaves as if it were alone. *)
From Coq Require Import ZArith NArith List Bool Arith Lia.
Require Import Webob.Lib.Val Webob.Model.C10_BodyStream Webob.Spec.C10_BodySpec
               Webob.Proofs.C10_stream Webob.Proofs.C10_loops Webob.Proofs.C10_refine Webob.Proofs.C10_step
               Webob.Proofs.C10_world Webob.Proofs.C10_body.
Import ListNotations.

Lemma R_init_at : forall h i s c sk tm lg lim,
  i < next h -> cells h i = mkFile s 0 KOrig -> consistent s c sk ->
  R h (init_req_at i c sk tm lg lim) (sinit s c sk tm lg).
Proof.
  intros h i s c sk tm lg lim Hi Hcell Hsk.
  unfold R, init_req_at, sinit; cbn [inp postc form]. rewrite Hcell. cbn [fdata fpos].
  destruct sk.
  - rewrite (Hsk eq_refl). cbn [smode sbody scur spost sform].
    splits; auto; try discriminate. { unfold fwf; cbn; lia. }
    unfold Rmode; cbn. splits; auto.
  - destruct c as [z|].
    + destruct (0 <? z)%Z eqn:Ez.
      * apply Z.ltb_lt in Ez.
        destruct (Nat.leb (Z.to_nat z) (length s)) eqn:El; cbn [smode sbody scur spost sform].
        -- apply Nat.leb_le in El.
           splits; auto; try discriminate. { unfold fwf; cbn; lia. }
           unfold Rmode, Rraw; cbn. split; auto. exists (Z.to_nat z).
           rewrite Z2Nat.id by lia. splits; auto; lia.
        -- apply Nat.leb_gt in El.
           splits; auto; try discriminate. { unfold fwf; cbn; lia. }
           unfold Rmode, Rraw; cbn. split; auto. exists (Z.to_nat z).
           rewrite Z2Nat.id by lia. splits; auto; try lia.
           symmetry. apply firstn_all2. lia.
      * cbn [smode sbody scur spost sform].
        splits; auto; try discriminate. { unfold fwf; cbn; lia. }
        unfold Rmode; cbn. splits; auto.
    + unfold flag0. destruct (match tm with Some b => b | None => lg end) eqn:Ef;
        cbn [smode sbody scur spost sform].
      * splits; auto; try discriminate. { unfold fwf; cbn; lia. }
        unfold Rmode; cbn. splits; auto.
      * splits; auto; try discriminate. { unfold fwf; cbn; lia. }
        unfold Rmode; cbn. splits; auto.
Qed.

Definition outputs2 chunk s1 c1 sk1 tm1 lg1 lim1 s2 c2 sk2 tm2 lg2 lim2 (hist : list step) : list out :=
  fst (wrun chunk (init_world2 s1 c1 sk1 tm1 lg1 lim1 s2 c2 sk2 tm2 lg2 lim2) hist).

Lemma init_rel2 : forall s1 c1 sk1 tm1 lg1 lim1 s2 c2 sk2 tm2 lg2 lim2,
  consistent s1 c1 sk1 -> consistent s2 c2 sk2 ->
  Wrel (init_world2 s1 c1 sk1 tm1 lg1 lim1 s2 c2 sk2 tm2 lg2 lim2)
       [sinit s1 c1 sk1 tm1 lg1; sinit s2 c2 sk2 tm2 lg2].
Proof.
  intros. unfold Wrel, init_world2; cbn [wheap wreqs]. splits; auto.
  - intros [|[|i]] r s Er Es; cbn in Er, Es; try (destruct i; discriminate).
    + injection Er as <-. injection Es as <-. apply R_init_at; cbn; auto.
    + injection Er as <-. injection Es as <-. apply R_init_at; cbn; auto.
  - intros i j ri rj Hij Ei Ej.
    destruct i as [|[|i]]; destruct j as [|[|j]]; cbn in Ei, Ej;
      try (destruct i; discriminate); try (destruct j; discriminate); try lia;
      injection Ei as <-; injection Ej as <-; cbn; lia.
Qed.

Theorem refines2 : forall chunk s1 c1 sk1 tm1 lg1 lim1 s2 c2 sk2 tm2 lg2 lim2 hist,
  1 <= chunk -> consistent s1 c1 sk1 -> consistent s2 c2 sk2 ->
  exists ss', srun_ok [sinit s1 c1 sk1 tm1 lg1; sinit s2 c2 sk2 tm2 lg2] hist
                      (outputs2 chunk s1 c1 sk1 tm1 lg1 lim1 s2 c2 sk2 tm2 lg2 lim2 hist) ss'.
Proof.
  intros chunk s1 c1 sk1 tm1 lg1 lim1 s2 c2 sk2 tm2 lg2 lim2 hist Hch H1 H2. unfold outputs2.
  pose proof (init_rel2 s1 c1 sk1 tm1 lg1 lim1 s2 c2 sk2 tm2 lg2 lim2 H1 H2) as HW.
  destruct (wrun chunk _ hist) as [xs w'] eqn:Er.
  destruct (wrun_refines chunk None _ _ _ _ _ Hch HW I Er) as (ss' & Hrun & _ & _).
  exists ss'. exact Hrun.
Qed.

Theorem exact2 : forall chunk s1 c1 sk1 tm1 lg1 lim1 s2 c2 sk2 tm2 lg2 lim2 hist,
  1 <= chunk -> consistent s1 c1 sk1 -> consistent s2 c2 sk2 ->
  long_enough s1 c1 sk1 -> long_enough s2 c2 sk2 ->
  outputs2 chunk s1 c1 sk1 tm1 lg1 lim1 s2 c2 sk2 tm2 lg2 lim2 hist =
  fst (srun [sinit s1 c1 sk1 tm1 lg1; sinit s2 c2 sk2 tm2 lg2] hist).
Proof.
  intros chunk s1 c1 sk1 tm1 lg1 lim1 s2 c2 sk2 tm2 lg2 lim2 hist Hch H1 H2 L1 L2.
  destruct (refines2 chunk s1 c1 sk1 tm1 lg1 lim1 s2 c2 sk2 tm2 lg2 lim2 hist Hch H1 H2) as [ss' Hrun].
  apply srun_ok_det in Hrun.
  - now rewrite Hrun.
  - repeat constructor; now apply sinit_not_short.
Qed.

(* the answers of the specification on request i depend only on the steps addressed to request i
   (copies are new requests with new indices) *)
Fixpoint only_for (i : nat) (hist : list step) : list step :=
  match hist with
  | [] => []
  | st :: t => if Nat.eqb (fst (fst st)) i then st :: only_for i t else only_for i t
  end.

Fixpoint answers_for (i : nat) (hist : list step) (xs : list out) : list out :=
  match hist, xs with
  | st :: t, x :: xs' => if Nat.eqb (fst (fst st)) i then x :: answers_for i t xs' else answers_for i t xs'
  | _, _ => []
  end.

(* one request alone: what the specification answers for a state s on a history *)
Fixpoint alone (s : sreq) (hist : list step) : list out :=
  match hist with
  | [] => []
  | (_, o, _) :: t => let '(x, s', _) := sstep o s in x :: alone s' t
  end.

Lemma srun_answers_for : forall hist ss i s,
  nth_error ss i = Some s ->
  answers_for i hist (fst (srun ss hist)) = alone s (only_for i hist).
Proof.
  induction hist as [|[[j o] adv] t IH]; intros ss i s Hs; cbn [srun answers_for only_for alone fst]; auto.
  destruct (sapply o j ss) as [x ss1] eqn:Ea.
  destruct (srun ss1 t) as [xs ss2] eqn:Er. cbn [fst snd].
  assert (Hi : i < length ss) by (apply nth_error_Some; congruence).
  destruct (Nat.eqb_spec j i) as [E|E].
  - subst j. unfold sapply in Ea. rewrite Hs in Ea.
    destruct (sstep o s) as [[y s'] new] eqn:Est. injection Ea as <- <-.
    cbn [alone]. rewrite Est. f_equal. specialize (IH (match new with Some sn => set_nth i s' ss ++ [sn] | None => set_nth i s' ss end) i s').
    rewrite Er in IH. cbn [fst] in IH. apply IH.
    destruct new.
    + rewrite nth_error_app1 by (rewrite set_nth_length; auto). apply nth_set_nth_eq; auto.
    + apply nth_set_nth_eq; auto.
  - destruct (sapply_other o j ss i ltac:(auto) Hi) as [Hn _]. rewrite Ea in Hn. cbn [snd] in Hn.
    specialize (IH ss1 i s). rewrite Er in IH. cbn [fst] in IH. apply IH. congruence.
Qed.

(* ... hence, in the model: the answers request 0 gives in ANY interleaving with a second live request (and all
   copies of both) are the answers it gives to its own steps alone; and likewise for request 1 *)
Theorem two_live_independent : forall chunk s1 c1 sk1 tm1 lg1 lim1 s2 c2 sk2 tm2 lg2 lim2 hist,
  1 <= chunk -> consistent s1 c1 sk1 -> consistent s2 c2 sk2 ->
  long_enough s1 c1 sk1 -> long_enough s2 c2 sk2 ->
  let xs := outputs2 chunk s1 c1 sk1 tm1 lg1 lim1 s2 c2 sk2 tm2 lg2 lim2 hist in
  answers_for 0 hist xs = alone (sinit s1 c1 sk1 tm1 lg1) (only_for 0 hist) /\
  answers_for 1 hist xs = alone (sinit s2 c2 sk2 tm2 lg2) (only_for 1 hist).
Proof.
  intros chunk s1 c1 sk1 tm1 lg1 lim1 s2 c2 sk2 tm2 lg2 lim2 hist Hch H1 H2 L1 L2 xs. unfold xs.
  rewrite exact2; auto. split; apply srun_answers_for; reflexivity.
Qed.

(* the same for the single-request world of the main theorems: a long-lived request answers each of its steps as
   the specification's request does on its own steps, whatever happens to its copies in between *)
Theorem long_lived_alone : forall chunk s c sk tm lg lim hist,
  1 <= chunk -> consistent s c sk -> long_enough s c sk ->
  answers_for 0 hist (outputs chunk s c sk tm lg lim hist) = alone (sinit s c sk tm lg) (only_for 0 hist).
Proof.
  intros chunk s c sk tm lg lim hist Hch H1 L1.
  rewrite exact; auto. apply srun_answers_for. reflexivity.
Qed.
