(* C04 — AcceptCharsetValidHeader / AcceptEncodingValidHeader.acceptable_offers: the header scan with
   the `acceptable` dict, the `not acceptable` set and the first-asterisk variable computes "first
   explicit entry, else first *, else identity default"; the two sorts are the ranking. *)
From Coq Require Import ZArith NArith List Bool Permutation Sorted Arith Lia.
Require Import Webob.Lib.Val Webob.Lib.PyStr Webob.Lib.C04_Sort Webob.Model.C04_negotiation
               Webob.Spec.C04_negotiation Webob.Proofs.C04_sort Webob.Proofs.C04_accept.
Import ListNotations.

Lemma str_eqb_sym : forall a b, str_eqb a b = str_eqb b a.
Proof.
  intros a b. destruct (str_eqb a b) eqn:E.
  - apply str_eqb_eq in E. subst. symmetry. apply str_eqb_refl.
  - destruct (str_eqb b a) eqn:E'; [|reflexivity]. apply str_eqb_eq in E'. subst.
    rewrite str_eqb_refl in E. discriminate.
Qed.

(* ------------------------------------------------------------------ association list / set *)
Lemma aget_app : forall k l1 l2,
  aget k (l1 ++ l2) = match aget k l1 with Some q => Some q | None => aget k l2 end.
Proof.
  intros k l1 l2; induction l1 as [|[k' q] l1 IH]; cbn; [reflexivity|].
  destruct (str_eqb k' k); [reflexivity|exact IH].
Qed.

Lemma aget_in : forall k q l, aget k l = Some q -> In (k, q) l.
Proof.
  intros k q l; induction l as [|[k' q'] l IH]; cbn; [discriminate|].
  destruct (str_eqb k' k) eqn:E; intros H.
  - apply str_eqb_eq in E. injection H as ->. subst. now left.
  - right. now apply IH.
Qed.

Lemma in_aget : forall k q l, NoDup (map fst l) -> In (k, q) l -> aget k l = Some q.
Proof.
  intros k q l; induction l as [|[k' q'] l IH]; cbn; [contradiction|].
  intros Hnd [H|H]; inversion Hnd as [|? ? Hnin Hnd']; subst.
  - injection H as -> ->. now rewrite str_eqb_refl.
  - destruct (str_eqb k' k) eqn:E; [|now apply IH].
    apply str_eqb_eq in E. subst. exfalso. apply Hnin. change k with (fst (k, q)). now apply in_map.
Qed.

Lemma aget_none : forall k l, (forall q, ~ In (k, q) l) -> aget k l = None.
Proof.
  intros k l H. destruct (aget k l) as [q|] eqn:E; [|reflexivity]. apply aget_in in E. now apply H in E.
Qed.

Lemma aget_none_in : forall k l, aget k l = None -> ~ In k (map fst l).
Proof.
  intros k l; induction l as [|[k' q'] l IH]; cbn; [tauto|].
  destruct (str_eqb k' k) eqn:E; [discriminate|]. intros H [H1|H1]; [|now apply IH].
  subst. rewrite str_eqb_refl in E. discriminate.
Qed.

Lemma smem_app : forall k l1 l2, smem k (l1 ++ l2) = smem k l1 || smem k l2.
Proof. intros. unfold smem. apply existsb_app. Qed.

Lemma NoDup_snoc : forall {A} (l : list A) x, NoDup l -> ~ In x l -> NoDup (l ++ [x]).
Proof.
  intros A l x Hnd Hnin. eapply Permutation_NoDup; [apply Permutation_cons_append|]. now constructor.
Qed.

(* the sorted copy of the dict items answers look-ups like the dict *)
Lemma find_perm_aget : forall o l l', NoDup (map fst l) -> Permutation l' l ->
  option_map snd (find (fun cq : str * N => str_eqb o (fst cq)) l') = aget o l.
Proof.
  intros o l l' Hnd Hp.
  destruct (find (fun cq : str * N => str_eqb o (fst cq)) l') as [[k q]|] eqn:E; cbn.
  - apply find_some in E as [Hin Hk]. cbn in Hk. apply str_eqb_eq in Hk. subst k.
    symmetry. apply in_aget; [exact Hnd|]. eapply Permutation_in; eauto.
  - symmetry. apply aget_none. intros q Hin.
    assert (Hin' : In (o, q) l') by (eapply Permutation_in; [symmetry; exact Hp|exact Hin]).
    pose proof (find_none _ _ E _ Hin') as H. cbn in H. rewrite str_eqb_refl in H. discriminate.
Qed.

(* ------------------------------------------------------------------ the header scan *)
Definition lk (st : cstate) (c : str) : option N :=
  if smem c (c_nacc st) then Some 0%N else aget c (c_acc st).

Definition hit (cq : str * N) (c : str) : bool := negb (str_eqb (fst cq) star) && str_eqb (fst cq) c.

Definition first_explicit (lp : list (str * N)) (c : str) : option N := option_map snd (find (fun cq => hit cq c) lp).
Definition first_star (lp : list (str * N)) : option N := option_map snd (find (fun cq => str_eqb (fst cq) star) lp).

Definition inv (st : cstate) : Prop :=
  Forall (fun cq : str * N => snd cq <> 0%N) (c_acc st) /\ NoDup (map fst (c_acc st)).

Lemma hdr_step_inv : forall st cq, inv st -> inv (hdr_step st cq).
Proof.
  intros st [c q] [Hnz Hnd]. unfold hdr_step. cbn [fst snd].
  destruct (str_eqb c star); [destruct (c_ast st); split; assumption|].
  destruct (aget c (c_acc st)) eqn:Ea; cbn [negb andb]; [split; assumption|].
  destruct (smem c (c_nacc st)); cbn [negb]; [split; assumption|].
  destruct (q =? 0)%N eqn:Eq; [split; assumption|].
  apply N.eqb_neq in Eq. split; cbn.
  - apply Forall_app; split; [exact Hnz|]. constructor; [exact Eq|constructor].
  - rewrite map_app. cbn. apply NoDup_snoc; [exact Hnd|]. now apply aget_none_in.
Qed.

Lemma hdr_step_ast : forall st cq,
  c_ast (hdr_step st cq) =
  match c_ast st with Some a => Some a | None => if str_eqb (fst cq) star then Some (snd cq) else None end.
Proof.
  intros st [c q]. unfold hdr_step. cbn [fst snd].
  destruct (str_eqb c star).
  - destruct (c_ast st) eqn:E; cbn; rewrite ?E; reflexivity.
  - destruct (aget c (c_acc st)); cbn [negb andb]; [destruct (c_ast st) eqn:E; cbn; rewrite ?E; reflexivity|].
    destruct (smem c (c_nacc st)); cbn [negb]; [destruct (c_ast st) eqn:E; cbn; rewrite ?E; reflexivity|].
    destruct (q =? 0)%N; cbn; destruct (c_ast st); reflexivity.
Qed.

Lemma smem_single : forall c n, smem c [n] = str_eqb n c.
Proof. intros. unfold smem. cbn. apply orb_false_r. Qed.

Lemma hdr_step_lk : forall st cq c,
  lk (hdr_step st cq) c =
  match lk st c with Some q => Some q | None => if hit cq c then Some (snd cq) else None end.
Proof.
  intros st [n q] c. unfold hit. cbn [fst snd].
  assert (Hid : forall x : option N, x = match x with Some q0 => Some q0 | None => None end)
    by (intros [?|]; reflexivity).
  unfold hdr_step. cbn [fst snd].
  destruct (str_eqb n star) eqn:Es; cbn [negb andb].
  - replace (lk match c_ast st with
                | Some _ => st
                | None => {| c_acc := c_acc st; c_nacc := c_nacc st; c_ast := Some q |}
                end c) with (lk st c); [apply Hid|]. destruct (c_ast st); reflexivity.
  - destruct (aget n (c_acc st)) eqn:Ea; cbn [negb andb].
    + destruct (str_eqb n c) eqn:Enc; [|apply Hid]. apply str_eqb_eq in Enc; subst c.
      unfold lk. rewrite Ea. destruct (smem n (c_nacc st)); reflexivity.
    + destruct (smem n (c_nacc st)) eqn:Em; cbn [negb].
      * destruct (str_eqb n c) eqn:Enc; [|apply Hid]. apply str_eqb_eq in Enc; subst c.
        unfold lk. rewrite Em. reflexivity.
      * destruct (q =? 0)%N eqn:Eq; unfold lk; cbn [c_acc c_nacc].
        -- rewrite smem_app, smem_single.
           destruct (str_eqb n c) eqn:Enc.
           ++ apply str_eqb_eq in Enc; subst c. rewrite Em, Ea. cbn. apply N.eqb_eq in Eq. now subst q.
           ++ rewrite orb_false_r. apply Hid.
        -- rewrite aget_app. cbn [aget]. 
           destruct (str_eqb n c) eqn:Enc.
           ++ apply str_eqb_eq in Enc; subst c. rewrite Em, Ea. reflexivity.
           ++ destruct (smem c (c_nacc st)); [reflexivity|]. destruct (aget c (c_acc st)); reflexivity.
Qed.

Lemma scan : forall lp st, inv st ->
  let st' := fold_left hdr_step lp st in
  inv st' /\
  (forall c, lk st' c = match lk st c with Some q => Some q | None => first_explicit lp c end) /\
  c_ast st' = match c_ast st with Some a => Some a | None => first_star lp end.
Proof.
  induction lp as [|cq lp IH]; intros st Hinv; cbn [fold_left].
  - cbn. repeat split; try apply Hinv.
    + intros c. destruct (lk st c); reflexivity.
    + destruct (c_ast st); reflexivity.
  - destruct (IH (hdr_step st cq) (hdr_step_inv _ _ Hinv)) as (Hi & Hl & Ha).
    cbv zeta. repeat split; try apply Hi.
    + intros c. rewrite Hl, hdr_step_lk. unfold first_explicit. cbn [find].
      destruct (lk st c); [reflexivity|]. destruct (hit cq c); reflexivity.
    + rewrite Ha, hdr_step_ast. unfold first_star. cbn [find].
      destruct (c_ast st); [reflexivity|]. destruct (str_eqb (fst cq) star); reflexivity.
Qed.

Lemma find_map : forall {A B} (f : B -> bool) (g : A -> B) l,
  find f (map g l) = option_map g (find (fun x => f (g x)) l).
Proof.
  intros A B f g l; induction l as [|x l IH]; cbn; [reflexivity|]. destruct (f (g x)); [reflexivity|exact IH].
Qed.

Definition lowered (parsed : list (str * N)) : list (str * N) := map (fun cq => (lower (fst cq), snd cq)) parsed.

Lemma first_explicit_lowered : forall parsed o, first_explicit (lowered parsed) (lower o) = explicit parsed o.
Proof.
  intros parsed o. unfold first_explicit, explicit, lowered. rewrite find_map.
  destruct (find _ parsed) as [[c q]|]; reflexivity.
Qed.

Lemma first_star_lowered : forall parsed, first_star (lowered parsed) = wildcard parsed.
Proof.
  intros parsed. unfold first_star, wildcard, lowered. rewrite find_map.
  destruct (find _ parsed) as [[c q]|]; reflexivity.
Qed.

(* ------------------------------------------------------------------ one offer *)
Lemma offer_q_spec : forall enc parsed o,
  let st := fold_left hdr_step (lowered parsed) (mkC [] [] None) in
  offer_q enc (py_sort snd_leb true (c_acc st)) (c_nacc st) (c_ast st) (lower o) =
  match governing_q enc parsed o with
  | Some q => if (q =? 0)%N then None else Some q
  | None => None
  end.
Proof.
  intros enc parsed o.
  assert (Hinv0 : inv (mkC [] [] None)) by (split; constructor).
  destruct (scan (lowered parsed) _ Hinv0) as ((Hnz & Hnd) & Hl & Ha).
  cbv zeta in *. set (st := fold_left hdr_step (lowered parsed) (mkC [] [] None)) in *.
  specialize (Hl (lower o)).
  replace (lk (mkC [] [] None) (lower o)) with (@None N) in Hl by reflexivity.
  replace (c_ast (mkC [] [] None)) with (@None N) in Ha by reflexivity.
  rewrite first_explicit_lowered in Hl. rewrite first_star_lowered in Ha.
  unfold offer_q, governing_q.
  pose proof (find_perm_aget (lower o) (c_acc st) (py_sort snd_leb true (c_acc st)) Hnd (py_sort_perm _ _ _)) as Hf.
  unfold lk in Hl.
  destruct (smem (lower o) (c_nacc st)).
  - rewrite <- Hl. reflexivity.
  - destruct (find (fun cq : str * N => str_eqb (lower o) (fst cq)) (py_sort snd_leb true (c_acc st))) as [cq|];
      cbn in Hf.
    + rewrite <- Hl, <- Hf.
      assert (Hq : snd cq <> 0%N).
      { symmetry in Hf. apply aget_in in Hf. rewrite Forall_forall in Hnz. apply (Hnz _ Hf). }
      apply N.eqb_neq in Hq. now rewrite Hq.
    + rewrite <- Hl, <- Hf, Ha.
      destruct (wildcard parsed) as [a|].
      * destruct (a =? 0)%N; reflexivity.
      * destruct (enc && str_eqb (lower o) identity); reflexivity.
Qed.

Lemma enum_sorted_verdicts : forall enc parsed offers,
  StronglySorted (fun a b : qent str => x_idx a < x_idx b) (flat_map (verdict_q enc parsed) (enum_from 0 offers)).
Proof.
  intros enc parsed offers.
  eapply SS_flat_map1; [| |apply (proj1 (enum_from_sorted offers 0))].
  - intros io. unfold verdict_q. destruct (governing_q enc parsed (snd io)) as [q|]; cbn; [|lia].
    destruct (q =? 0)%N; cbn; lia.
  - intros a1 a2 b1 b2 Hlt. unfold verdict_q.
    destruct (governing_q enc parsed (snd a1)) as [q1|]; [|contradiction].
    destruct (governing_q enc parsed (snd a2)) as [q2|]; [|contradiction].
    destruct (q1 =? 0)%N; [contradiction|]. destruct (q2 =? 0)%N; [contradiction|].
    intros [<-|[]] [<-|[]]. cbn. exact Hlt.
Qed.

Theorem simple_offers_spec : forall enc parsed offers,
  simple_offers enc parsed offers = spec_simple enc parsed offers.
Proof.
  intros enc parsed offers. unfold simple_offers, spec_simple, rank.
  fold (lowered parsed).
  set (st := fold_left hdr_step (lowered parsed) (mkC [] [] None)).
  assert (Hfm : flat_map (fun io : nat * str =>
                   match offer_q enc (py_sort snd_leb true (c_acc st)) (c_nacc st) (c_ast st) (lower (snd io)) with
                   | Some q => [mkQ (snd io) q (fst io)]
                   | None => []
                   end) (enum_from 0 offers) = flat_map (verdict_q enc parsed) (enum_from 0 offers)).
  { apply flat_map_ext. intros io. unfold st. rewrite offer_q_spec. unfold verdict_q.
    destruct (governing_q enc parsed (snd io)) as [q|]; [|reflexivity]. destruct (q =? 0)%N; reflexivity. }
  rewrite Hfm. rewrite py_sort_two_rank; [reflexivity|apply enum_sorted_verdicts].
Qed.
