(* C06 — header text level: decimal printing / reading round trip, and Range.parse on the
   canonical RFC 7233 spelling of every well-formed byte-range-spec. *)
From Coq Require Import ZArith NArith List Bool Lia.
Require Import Webob.Lib.Val Webob.Model.C06_ByteRange Webob.Model.C06_CondResp Webob.Spec.C06_Rfc
               Webob.Proofs.C06_range.
Import ListNotations.
Local Open Scope Z_scope.

Definition dv (init : Z) (s : str) : Z := fold_left (fun a c => a * 10 + (Z.of_N c - 48)) s init.

Lemma dec_val_dv : forall s, dec_val s = dv 0 s.
Proof. reflexivity. Qed.

Lemma dv_app : forall a b init, dv init (a ++ b) = dv (dv init a) b.
Proof. intros. unfold dv. apply fold_left_app. Qed.

Lemma pos_digits_app : forall fuel n acc, pos_digits fuel n acc = pos_digits fuel n [] ++ acc.
Proof.
  induction fuel as [|k IH]; intros n acc; cbn [pos_digits]; [reflexivity|].
  destruct (n / 10 =? 0); [reflexivity|].
  rewrite (IH (n / 10) (_ :: acc)), (IH (n / 10) [_]). now rewrite <- app_assoc.
Qed.

Definition digit_of (n : Z) : N := Z.to_N (48 + n mod 10).

Lemma digit_of_val : forall n, Z.of_N (digit_of n) - 48 = n mod 10.
Proof. intros n. unfold digit_of. pose proof (Z.mod_pos_bound n 10 ltac:(lia)). rewrite Z2N.id by lia. lia. Qed.

Lemma digit_of_is_digit : forall n, is_digit (digit_of n) = true.
Proof.
  intros n. unfold is_digit, digit_of. pose proof (Z.mod_pos_bound n 10 ltac:(lia)).
  apply andb_true_intro; split; apply N.leb_le; lia.
Qed.

Lemma pos_digits_spec : forall fuel n,
  0 <= n < 2 ^ Z.of_nat fuel ->
  dv 0 (pos_digits fuel n []) = n /\ digits (pos_digits fuel n []).
Proof.
  induction fuel as [|k IH]; intros n Hn.
  - cbn in Hn. assert (n = 0) by lia. subst. split; [reflexivity | constructor].
  - cbn [pos_digits]. fold (digit_of n).
    destruct (Z.eqb_spec (n / 10) 0) as [E|E].
    + split.
      * unfold dv; cbn [fold_left]. rewrite digit_of_val. pose proof (Z.div_mod n 10 ltac:(lia)). lia.
      * constructor; [apply digit_of_is_digit | constructor].
    + rewrite pos_digits_app.
      assert (Hk : 0 <= n / 10 < 2 ^ Z.of_nat k).
      { rewrite Nat2Z.inj_succ, Z.pow_succ_r in Hn by lia.
        split; [apply Z.div_pos; lia|]. apply Z.div_lt_upper_bound; lia. }
      destruct (IH (n / 10) Hk) as [H1 H2]. split.
      * rewrite dv_app, H1. unfold dv; cbn [fold_left]. rewrite digit_of_val.
        pose proof (Z.div_mod n 10 ltac:(lia)). lia.
      * apply Forall_app; split; [exact H2|]. constructor; [apply digit_of_is_digit | constructor].
Qed.

Lemma nat_str_fuel : forall n, 0 <= n -> 0 <= n < 2 ^ Z.of_nat (S (Z.to_nat (Z.log2 n))).
Proof.
  intros n Hn. split; [exact Hn|].
  rewrite Nat2Z.inj_succ, Z2Nat.id by apply Z.log2_nonneg.
  destruct (Z.eq_dec n 0) as [->|Hz]; [cbn; lia|].
  apply Z.log2_spec. lia.
Qed.

(* int(str(n)) = n *)
Theorem dec_val_nat_str : forall n, 0 <= n -> dec_val (nat_str n) = n.
Proof. intros n Hn. unfold nat_str. rewrite dec_val_dv. apply pos_digits_spec, nat_str_fuel, Hn. Qed.

Lemma nat_str_digits : forall n, 0 <= n -> digits (nat_str n).
Proof. intros n Hn. unfold nat_str. apply pos_digits_spec, nat_str_fuel, Hn. Qed.

Lemma nat_str_nonempty : forall n, nat_str n <> [].
Proof.
  intros n. unfold nat_str. cbn [pos_digits]. destruct (n / 10 =? 0); [discriminate|].
  rewrite pos_digits_app. intros H. apply app_eq_nil in H as [_ H]. discriminate.
Qed.

(* ---------------------------------------------------------------- the scanner on rendered text *)
Lemma span_digits : forall ds c r, digits ds -> is_digit c = false ->
  span is_digit (ds ++ c :: r) = (ds, c :: r).
Proof.
  induction ds as [|d ds IH]; intros c r Hd Hc; cbn [app span].
  - now rewrite Hc.
  - inversion Hd as [|? ? H1 H2]; subst. rewrite H1, (IH c r H2 Hc). reflexivity.
Qed.

Lemma span_digits_end : forall ds, digits ds -> span is_digit ds = (ds, []).
Proof.
  induction ds as [|d ds IH]; intros Hd; cbn [span]; [reflexivity|].
  inversion Hd as [|? ? H1 H2]; subst. now rewrite H1, (IH H2).
Qed.

Lemma digit_not_space : forall c, is_digit c = true -> (c =? 32)%N = false.
Proof.
  intros c H. unfold is_digit in H. apply andb_prop in H as [H _]. apply N.leb_le in H.
  apply N.eqb_neq. lia.
Qed.

Lemma drop_sp_digits : forall ds r, digits ds -> ds <> [] -> drop_sp (ds ++ r) = ds ++ r.
Proof.
  intros [|d ds] r Hd Hne; [now elim Hne|]. inversion Hd as [|? ? H1 H2]; subst.
  unfold drop_sp. cbn [app span]. now rewrite (digit_not_space d H1).
Qed.

Lemma match_range_render : forall d1 d2, digits d1 -> digits d2 ->
  match_range (S_bytes_eq ++ d1 ++ [45%N] ++ d2) = Some (d1, d2).
Proof.
  intros d1 d2 H1 H2. unfold match_range, S_bytes_eq, kw_bytes.
  cbn [app ci_prefix ci_eq N.eqb Pos.eqb N.sub Pos.sub Pos.sub_mask orb].
  change (drop_sp (61%N :: d1 ++ 45%N :: d2)) with (61%N :: d1 ++ 45%N :: d2). cbv beta iota.
  assert (Hd1 : drop_sp (d1 ++ 45%N :: d2) = d1 ++ 45%N :: d2).
  { destruct d1 as [|c d1]; [reflexivity|]. apply drop_sp_digits; [exact H1 | discriminate]. }
  rewrite Hd1, (span_digits d1 45%N d2 H1 eq_refl).
  change (drop_sp (45%N :: d2)) with (45%N :: d2). cbv beta iota.
  assert (Hd2 : drop_sp d2 = d2).
  { destruct d2 as [|c d2]; [reflexivity|]. rewrite <- (app_nil_r (c :: d2)). apply drop_sp_digits; [exact H2 | discriminate]. }
  rewrite Hd2, (span_digits_end d2 H2). reflexivity.
Qed.

(* Range.parse reads the canonical spelling of every well-formed spec back as that spec *)
Theorem header_spec_render : forall sp, wf_spec sp -> header_spec (Some (render_spec sp)) = Some sp.
Proof.
  intros sp Hwf. unfold header_spec, render_spec.
  destruct sp as [f l|f|n]; cbn [wf_spec] in Hwf.
  - rewrite match_range_render by (apply nat_str_digits; lia).
    pose proof (nat_str_nonempty f) as Nf. pose proof (nat_str_nonempty l) as Nl.
    unfold spec_of_groups. destruct (nat_str f) as [|a x] eqn:Ef; [now elim Nf|].
    destruct (nat_str l) as [|b y] eqn:El; [now elim Nl|].
    rewrite <- Ef, <- El, !dec_val_nat_str by lia.
    destruct (Z.ltb_spec l f); [lia | reflexivity].
  - change (S_bytes_eq ++ nat_str f ++ [45%N]) with (S_bytes_eq ++ nat_str f ++ [45%N] ++ []).
    rewrite match_range_render; [| apply nat_str_digits; lia | constructor].
    pose proof (nat_str_nonempty f) as Nf.
    unfold spec_of_groups. destruct (nat_str f) as [|a x] eqn:Ef; [now elim Nf|].
    rewrite <- Ef, dec_val_nat_str by lia. reflexivity.
  - change (S_bytes_eq ++ [45%N] ++ nat_str n) with (S_bytes_eq ++ [] ++ [45%N] ++ nat_str n).
    rewrite match_range_render; [| constructor | apply nat_str_digits; lia].
    pose proof (nat_str_nonempty n) as Nn.
    unfold spec_of_groups. destruct (nat_str n) as [|a x] eqn:En; [now elim Nn|].
    rewrite <- En, dec_val_nat_str by lia.
    destruct (Z.eqb_spec n 0); [lia | reflexivity].
Qed.

(* from header text to the served range, in one statement *)
Theorem render_parse_arith : forall sp L,
  wf_spec sp -> 0 <= L -> suffix_within sp L ->
  exists r, range_parse (render_spec sp) = Some r /\
            range_content_range r (Some L) = Some (option_map (cr_of L) (rfc_selected sp L)).
Proof.
  intros sp L Hwf HL Hs. exists (range_of_spec sp). split.
  - rewrite range_parse_spec, (header_spec_render sp Hwf). reflexivity.
  - now apply range_arith.
Qed.

(* str(n) for the non-negative numbers that appear in Content-Range / Content-Length reads back *)
Lemma int_str_nonneg : forall n, 0 <= n -> int_str n = nat_str n.
Proof. intros n H. unfold int_str. destruct (Z.ltb_spec n 0); [lia | reflexivity]. Qed.

Theorem int_str_roundtrip : forall n, 0 <= n -> dec_val (int_str n) = n.
Proof. intros n H. rewrite int_str_nonneg by exact H. now apply dec_val_nat_str. Qed.
