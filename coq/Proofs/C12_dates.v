(* C12 — HTTP dates: totality of parse_date / parse_date_delta for ANY behaviour of parsedate_tz and
   time.mktime, and parse_date (formatdate t) = t for every second of the years 100-9999.
   About Model/C12_Dates.v. *)
From Coq Require Import ZArith NArith List Bool Lia.
Require Import Webob.Lib.Val Webob.Lib.PyStr Webob.Lib.C12_PyInt Webob.Lib.C12_Civil Webob.Model.C12_Headers
               Webob.Model.C12_Dates Webob.Proofs.C12_civil Webob.Proofs.C12_headers.
Import ListNotations.
Local Open Scope Z_scope.

(* ------------------------------------------------------------------ totality *)
Lemma parse_date_total pd mk v : is_raise (parse_date pd mk v) = false.
Proof. unfold parse_date. destruct (parse_date_unguarded pd mk v); reflexivity. Qed.

Lemma conv_date_total now pd mk : conv_total (conv_date now pd mk).
Proof. intros v. apply parse_date_total. Qed.

Lemma parse_date_delta_total nu pd mk v : is_raise (parse_date_delta nu pd mk v) = false.
Proof. unfold parse_date_delta. destruct (parse_date_delta_unguarded nu pd mk v); reflexivity. Qed.

Lemma conv_date_delta_total nu pd mk : conv_total (conv_date_delta nu pd mk).
Proof. intros v. apply parse_date_delta_total. Qed.

(* the unguarded parsers do raise: a parsedate_tz tuple with year 99999; twenty nines as delta-seconds *)
Lemma parse_date_unguarded_raises mk :
  parse_date_unguarded (fun _ => Some ((99999, 1, 1, 0, 0, 0), Some 0)) mk (Some [77%N]) = Raise ValueError.
Proof. reflexivity. Qed.

Lemma parse_date_delta_unguarded_raises pd mk :
  parse_date_delta_unguarded 1614766830 pd mk (Some (repeat 57%N 20)) = Raise OverflowError.
Proof. vm_compute. reflexivity. Qed.

(* ------------------------------------------------------------------ year bounds from second bounds *)
Definition ts_y100 : Z := -59011459200.       (* 0100-01-01T00:00:00Z *)

Lemma dfc_closed y m d :
  days_from_civil y m d =
  let ys := if m <=? 2 then y - 1 else y in
  365 * ys + ys / 4 - ys / 100 + ys / 400 + (153 * mp_of_month m + 2) / 5 + d - 1 - 719468.
Proof.
  unfold days_from_civil, doe_of. cbv zeta.
  set (ys := if m <=? 2 then y - 1 else y). generalize ys. clear. intros ys.
  Z.div_mod_to_equations. lia.
Qed.

Lemma year_bounds days y m d :
  civil_from_days days = (y, m, d) -> -683003 <= days <= 2932896 -> 100 <= y <= 9999.
Proof.
  intros E Hd.
  pose proof (days_from_civil_of_days days) as D. rewrite E in D.
  pose proof (civil_from_days_ranges days) as V. rewrite E in V. destruct V as [Vm Vd].
  rewrite dfc_closed in D. cbv zeta in D. unfold mp_of_month in D.
  destruct (m <=? 2) eqn:E1; destruct (m >? 2) eqn:E2; try lia;
    revert D; Z.div_mod_to_equations; lia.
Qed.

(* ------------------------------------------------------------------ time of day *)
Lemma time_of_day t :
  let sod := t mod 86400 in
  0 <= sod / 3600 <= 23 /\ 0 <= (sod / 60) mod 60 <= 59 /\ 0 <= sod mod 60 <= 59 /\
  (((t / 86400) * 24 + sod / 3600) * 60 + (sod / 60) mod 60) * 60 + sod mod 60 = t.
Proof. cbv zeta. Z.div_mod_to_equations. lia. Qed.

(* ------------------------------------------------------------------ digits *)
Lemma digit_cases k : 0 <= k <= 9 -> k = 0 \/ k = 1 \/ k = 2 \/ k = 3 \/ k = 4 \/ k = 5 \/ k = 6 \/ k = 7 \/ k = 8 \/ k = 9.
Proof. lia. Qed.

Lemma dg_ok k : 0 <= k <= 9 -> is_digit (dg k) = true /\ dv (dg k) = k.
Proof.
  intros H. destruct (digit_cases k H) as [->|[->|[->|[->|[->|[->|[->|[->|[->| ->]]]]]]]]]; split; reflexivity.
Qed.

Lemma two_digits n : 0 <= n <= 99 -> 0 <= n / 10 <= 9 /\ 0 <= n mod 10 <= 9 /\ (n / 10) * 10 + n mod 10 = n.
Proof. intros H. Z.div_mod_to_equations. lia. Qed.

Lemma four_digits y : 0 <= y <= 9999 ->
  0 <= y / 1000 <= 9 /\ 0 <= (y / 100) mod 10 <= 9 /\ 0 <= (y / 10) mod 10 <= 9 /\ 0 <= y mod 10 <= 9 /\
  (((y / 1000) * 10 + (y / 100) mod 10) * 10 + (y / 10) mod 10) * 10 + y mod 10 = y.
Proof. intros H. Z.div_mod_to_equations. lia. Qed.

Lemma wd_known_name w a b c : 0 <= w <= 6 -> wd_name w = (a, b, c) -> wd_known a b c = true.
Proof.
  intros H E.
  assert (C : w = 0 \/ w = 1 \/ w = 2 \/ w = 3 \/ w = 4 \/ w = 5 \/ w = 6) by lia.
  destruct C as [->|[->|[->|[->|[->|[->| ->]]]]]]; injection E as <- <- <-; reflexivity.
Qed.

Lemma mon_lookup_name m a b c : 1 <= m <= 12 -> mon_name m = (a, b, c) -> mon_lookup a b c = Some m.
Proof.
  intros H E.
  assert (C : m = 1 \/ m = 2 \/ m = 3 \/ m = 4 \/ m = 5 \/ m = 6 \/ m = 7 \/ m = 8 \/ m = 9 \/ m = 10 \/ m = 11 \/ m = 12) by lia.
  destruct C as [->|[->|[->|[->|[->|[->|[->|[->|[->|[->|[->| ->]]]]]]]]]]]; injection E as <- <- <-; reflexivity.
Qed.

(* ------------------------------------------------------------------ parse (format fields) *)
Lemma parse_format w y m d hh mi ss :
  0 <= w <= 6 -> 100 <= y <= 9999 -> 1 <= m <= 12 -> 0 <= d <= 99 -> 0 <= hh <= 99 -> 0 <= mi <= 99 -> 0 <= ss <= 99 ->
  parse_imf (format_fields w (y, m, d, hh, mi, ss)) = Some ((y, m, d, hh, mi, ss), Some 0).
Proof.
  intros Hw Hy Hm Hd Hh Hi Hs. unfold format_fields.
  destruct (wd_name w) as [[w1 w2] w3] eqn:Ew. destruct (mon_name m) as [[m1 m2] m3] eqn:Em.
  unfold parse_imf.
  rewrite (wd_known_name w _ _ _ Hw Ew), (mon_lookup_name m _ _ _ Hm Em).
  destruct (two_digits d Hd) as [D1 [D2 D3]]. destruct (two_digits hh Hh) as [H1 [H2 H3]].
  destruct (two_digits mi Hi) as [I1 [I2 I3]]. destruct (two_digits ss Hs) as [S1 [S2 S3]].
  destruct (four_digits y ltac:(lia)) as [Y1 [Y2 [Y3 [Y4 Y5]]]].
  cbn [forallb].
  rewrite (proj1 (dg_ok _ D1)), (proj1 (dg_ok _ D2)), (proj1 (dg_ok _ H1)), (proj1 (dg_ok _ H2)),
          (proj1 (dg_ok _ I1)), (proj1 (dg_ok _ I2)), (proj1 (dg_ok _ S1)), (proj1 (dg_ok _ S2)),
          (proj1 (dg_ok _ Y1)), (proj1 (dg_ok _ Y2)), (proj1 (dg_ok _ Y3)), (proj1 (dg_ok _ Y4)).
  rewrite (proj2 (dg_ok _ D1)), (proj2 (dg_ok _ D2)), (proj2 (dg_ok _ H1)), (proj2 (dg_ok _ H2)),
          (proj2 (dg_ok _ I1)), (proj2 (dg_ok _ I2)), (proj2 (dg_ok _ S1)), (proj2 (dg_ok _ S2)),
          (proj2 (dg_ok _ Y1)), (proj2 (dg_ok _ Y2)), (proj2 (dg_ok _ Y3)), (proj2 (dg_ok _ Y4)).
  cbn [N.eqb Pos.eqb andb].
  rewrite Y5, D3, H3, I3, S3.
  assert (E : (y <? 100) = false) by lia. rewrite E. reflexivity.
Qed.

(* ------------------------------------------------------------------ the round trip, for every second *)
Definition in_range (t : Z) : Prop := ts_y100 <= t <= ts_max.

Lemma fields_in_range t : in_range t ->
  let '(y, m, d, hh, mi, ss) := fields_of_ts t in
  100 <= y <= 9999 /\ 1 <= m <= 12 /\ 1 <= d <= 31 /\ 0 <= hh <= 23 /\ 0 <= mi <= 59 /\ 0 <= ss <= 59 /\
  timegm (y, m, d, hh, mi, ss) = Ok t.
Proof.
  unfold in_range, ts_y100, ts_max. intros Ht. unfold fields_of_ts.
  destruct (civil_from_days (t / 86400)) as [[y m] d] eqn:E.
  assert (Hdays : -683003 <= t / 86400 <= 2932896) by (Z.div_mod_to_equations; lia).
  pose proof (year_bounds _ _ _ _ E Hdays) as Hy.
  pose proof (civil_from_days_ranges (t / 86400)) as V. rewrite E in V. destruct V as [Vm Vd].
  pose proof (days_from_civil_of_days (t / 86400)) as D. rewrite E in D.
  destruct (time_of_day t) as [T1 [T2 [T3 T4]]].
  repeat split; try lia.
  unfold timegm, date_ok.
  assert (Eok : ((1 <=? y) && (y <=? 9999) && (1 <=? m) && (m <=? 12)) = true) by lia.
  rewrite Eok. f_equal. rewrite (days_from_civil_day y m d) in D. rewrite <- T4 at 2. lia.
Qed.

Lemma weekday_range z : 0 <= weekday_of_days z <= 6.
Proof. unfold weekday_of_days. pose proof (Z.mod_pos_bound (z + 3) 7 ltac:(lia)). lia. Qed.

Lemma format_date_in_range t : in_range t ->
  format_date t = Ok (format_fields (weekday_of_days (t / 86400)) (fields_of_ts t)).
Proof.
  unfold in_range, ts_y100. intros Ht. unfold format_date, fromtimestamp.
  assert (E : ((ts_min <=? t) && (t <=? ts_max)) = true) by (unfold ts_min, ts_max in *; lia).
  rewrite E. reflexivity.
Qed.

Theorem parse_format_date mk t : in_range t ->
  exists text, format_date t = Ok text /\
               parse_date parse_imf mk (Some text) = Ok (dt_val (fields_of_ts t) (Some 0)) /\
               has_crlf text = false /\ length text = 29%nat.
Proof.
  intros Ht.
  exists (format_fields (weekday_of_days (t / 86400)) (fields_of_ts t)).
  split; [apply format_date_in_range; exact Ht|].
  pose proof (fields_in_range t Ht) as F.
  destruct (fields_of_ts t) as [[[[[y m] d] hh] mi] ss] eqn:Ef.
  destruct F as [Hy [Hm [Hd [Hh [Hi [Hs Htg]]]]]].
  pose proof (weekday_range (t / 86400)) as Hw.
  pose proof (parse_format _ y m d hh mi ss Hw Hy Hm ltac:(lia) ltac:(lia) ltac:(lia) ltac:(lia)) as P.
  split; [|split].
  - unfold parse_date, parse_date_unguarded.
    remember (format_fields (weekday_of_days (t / 86400)) (y, m, d, hh, mi, ss)) as text eqn:Et.
    destruct text as [|c text']; [unfold format_fields in Et; destruct (wd_name _) as [[? ?] ?]; destruct (mon_name _) as [[? ?] ?]; discriminate|].
    rewrite P. unfold mktime_tz. cbn [fst snd]. rewrite Htg.
    replace (t - 0) with t by lia. unfold fromtimestamp.
    assert (E : ((ts_min <=? t) && (t <=? ts_max)) = true) by (unfold in_range, ts_y100, ts_min, ts_max in *; lia).
    rewrite E, Ef. reflexivity.
  - assert (ND : forall k, ((dg k =? 10)%N || (dg k =? 13)%N) = false).
    { intros k. unfold dg. destruct (N.eqb_spec (48 + Z.to_N k) 10); [lia|].
      destruct (N.eqb_spec (48 + Z.to_N k) 13); [lia|]. reflexivity. }
    remember (weekday_of_days (t / 86400)) as w eqn:Eqw. clear Eqw P.
    assert (Cw : w = 0 \/ w = 1 \/ w = 2 \/ w = 3 \/ w = 4 \/ w = 5 \/ w = 6) by lia.
    assert (Cm : m = 1 \/ m = 2 \/ m = 3 \/ m = 4 \/ m = 5 \/ m = 6 \/ m = 7 \/ m = 8 \/ m = 9 \/ m = 10 \/ m = 11 \/ m = 12) by lia.
    destruct Cw as [->|[->|[->|[->|[->|[->| ->]]]]]];
      destruct Cm as [->|[->|[->|[->|[->|[->|[->|[->|[->|[->|[->| ->]]]]]]]]]]];
      unfold format_fields, wd_name, mon_name, has_crlf; cbn [existsb]; rewrite !ND; reflexivity.
  - unfold format_fields. destruct (wd_name _) as [[? ?] ?]. destruct (mon_name _) as [[? ?] ?]. reflexivity.
Qed.

(* ------------------------------------------------------------------ values *)
(* the fields of a valid naive UTC date-time are recovered from its timestamp *)
Lemma fields_of_timegm y m d hh mi ss t :
  valid_date y m d = true -> 0 <= hh <= 23 -> 0 <= mi <= 59 -> 0 <= ss <= 59 ->
  timegm (y, m, d, hh, mi, ss) = Ok t -> fields_of_ts t = (y, m, d, hh, mi, ss).
Proof.
  intros V Hh Hi Hs E. unfold timegm in E. destruct (date_ok y m); [|discriminate].
  injection E as E. rewrite <- (days_from_civil_day y m d) in E.
  set (D := days_from_civil y m d) in *.
  assert (Et : t = D * 86400 + (hh * 3600 + mi * 60 + ss)) by lia.
  unfold fields_of_ts.
  assert (E1 : t / 86400 = D) by (Z.div_mod_to_equations; lia).
  assert (E2 : t mod 86400 = hh * 3600 + mi * 60 + ss) by (Z.div_mod_to_equations; lia).
  rewrite E1, E2. unfold D. rewrite (civil_from_days_of_civil y m d V).
  repeat f_equal; Z.div_mod_to_equations; lia.
Qed.

(* whatever date value is assigned: the header is formatdate of the instant it denotes, and the value
   read back is the UTC date-time of that instant *)
Lemma serialize_date_instant now v t : (forall s, v <> PStr s) -> instant now v = Ok t -> in_range t ->
  exists text, serialize_date now v = Ok (Some text) /\ format_date t = Ok text /\
               has_crlf text = false /\ length text = 29%nat /\
               forall mk, parse_date parse_imf mk (Some text) = Ok (dt_val (fields_of_ts t) (Some 0)).
Proof.
  intros Hs Hi Hr.
  destruct (parse_format_date (fun _ => Raise ValueError) t Hr) as [text [F [_ [C L]]]].
  exists text. split; [|split; [exact F|split; [exact C|split; [exact L|]]]].
  - unfold serialize_date. destruct v; try (rewrite Hi, F; reflexivity). exfalso. eapply Hs. reflexivity.
  - intros mk. destruct (parse_format_date mk t Hr) as [text' [F' [P' _]]].
    rewrite F in F'. injection F' as <-. exact P'.
Qed.
