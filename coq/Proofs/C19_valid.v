(* C19 — validity facts about header texts, all through the RFC ABNF of C03 and the verified regex
   equivalence checker:
     * a value accepted by a validator contains no LF (so the C03 language equalities apply to it);
     * the four languages are closed under joining two NON-EMPTY members with ", "
       (decided by equiv_check: L = L ∪ L+ ", " L+), re-decided whenever the source regex changes;
     * generic lemmas putting ", "-joined lists of elements into #element / 1#element. *)
From Coq Require Import ZArith NArith List Bool Lia.
Require Import Webob.Lib.Val Webob.Lib.PyStr Webob.Lib.Rx Webob.Lib.RxEquiv Webob.Gen.C03_regexes
               Webob.Spec.C03_abnf Webob.Proofs.C03_lang Webob.Model.C03_scan Webob.Model.C19_acceptstr
               Webob.Proofs.C19_quote.
Import ListNotations.
Local Open Scope N_scope.

(* ---------- no LF in any member of an LF-free regex ---------- *)
Fixpoint rx_nolf (r : rx) : bool :=
  match r with
  | Emp | Eps => true
  | Cls neg rs => negb neg && negb (in_ranges rs 10)
  | Cat a b | Alt a b => rx_nolf a && rx_nolf b
  | Star a => rx_nolf a
  end.

Lemma no_LF_app a b : no_LF a -> no_LF b -> no_LF (a ++ b).
Proof. unfold no_LF. intros. apply Forall_app; auto. Qed.

Lemma nolf_matches r w : matches r w -> rx_nolf r = true -> no_LF w.
Proof.
  induction 1 as [|neg rs c Hc|a b w1 w2 H1 IH1 H2 IH2|a b w H IH|a b w H IH| |a w1 w2 H1 IH1 H2 IH2];
    cbn [rx_nolf]; intros Hr.
  - constructor.
  - apply andb_true_iff in Hr as [Hn Hr]. apply negb_true_iff in Hn, Hr. subst neg. rewrite cmem_false in Hc.
    constructor; [|constructor]. unfold LF. cbn [in_ranges]. rewrite orb_false_r.
    destruct (N.eq_dec c 10) as [->|Hne]; [congruence|].
    apply andb_false_iff. destruct (N.leb_spec 10 c); [right; apply N.leb_gt; lia|left; reflexivity].
  - apply andb_true_iff in Hr as [Ha Hb]. apply no_LF_app; auto.
  - apply andb_true_iff in Hr as [Ha Hb]. auto.
  - apply andb_true_iff in Hr as [Ha Hb]. auto.
  - constructor.
  - apply no_LF_app; auto.
Qed.

Lemma valid_no_LF gen w : rx_nolf gen = true -> rmatch gen w = true -> no_LF w.
Proof. intros Hg H. apply rmatch_correct in H. eapply nolf_matches; eauto. Qed.

Lemma nolf_accept : rx_nolf gen_accept = true. Proof. vm_compute. reflexivity. Qed.
Lemma nolf_charset : rx_nolf gen_accept_charset = true. Proof. vm_compute. reflexivity. Qed.
Lemma nolf_encoding : rx_nolf gen_accept_encoding = true. Proof. vm_compute. reflexivity. Qed.
Lemma nolf_language : rx_nolf gen_accept_language = true. Proof. vm_compute. reflexivity. Qed.
Lemma nolf_abnf_accept : rx_nolf abnf_accept = true. Proof. vm_compute. reflexivity. Qed.
Lemma nolf_abnf_charset : rx_nolf abnf_accept_charset = true. Proof. vm_compute. reflexivity. Qed.
Lemma nolf_abnf_encoding : rx_nolf abnf_accept_encoding = true. Proof. vm_compute. reflexivity. Qed.
Lemma nolf_abnf_language : rx_nolf abnf_accept_language = true. Proof. vm_compute. reflexivity. Qed.

(* membership in the ABNF language gives validity, with no side condition *)
Lemma abnf_valid gen abnf w :
  (forall w, no_LF w -> (rmatch gen w = true <-> matches abnf w)) -> rx_nolf abnf = true ->
  matches abnf w -> rmatch gen w = true.
Proof. intros Heq Hn H. apply Heq; [eapply nolf_matches; eauto|exact H]. Qed.
Lemma valid_abnf gen abnf w :
  (forall w, no_LF w -> (rmatch gen w = true <-> matches abnf w)) -> rx_nolf gen = true ->
  rmatch gen w = true -> matches abnf w.
Proof. intros Heq Hn H. apply Heq; [eapply valid_no_LF; eauto|exact H]. Qed.

(* ---------- closure under ", " ---------- *)
Definition sep_rx : rx := Cat (ch 44) (ch 32).
Lemma sep_matches : matches sep_rx comma_sp.
Proof. unfold sep_rx, comma_sp. change [44; 32] with ([44] ++ [32]). constructor; apply matches_ch. Qed.

Definition hash0_ne (el : rx) : rx := Cat (Alt (ch 44) el) (Star (cats [OWS; ch 44; opt (Cat OWS el)])).
Lemma hash0_nonempty el w : matches (hash0 el) w -> w <> [] -> matches (hash0_ne el) w.
Proof.
  unfold hash0, opt. intros H Hne. apply inv_alt in H as [H|H]; [apply inv_eps in H; contradiction|exact H].
Qed.

Definition el_accept : rx := Cat media_range_strict (opt accept_params).
Definition el_simple : rx := Cat (Alt token (ch 42)) (opt weight).
Definition el_language : rx := Cat lang_range (opt weight).

Definition join_rx (abnf ne : rx) : rx := Alt abnf (Cat ne (Cat sep_rx ne)).
Definition cfuel : nat := 8000.

Lemma closed_accept : equiv_check cfuel LF (join_rx abnf_accept (hash0_ne el_accept)) abnf_accept = true.
Proof. vm_compute. reflexivity. Qed.
Lemma closed_encoding : equiv_check cfuel LF (join_rx abnf_accept_encoding (hash0_ne el_simple)) abnf_accept_encoding = true.
Proof. vm_compute. reflexivity. Qed.
Lemma closed_charset : equiv_check cfuel LF (join_rx abnf_accept_charset abnf_accept_charset) abnf_accept_charset = true.
Proof. vm_compute. reflexivity. Qed.
Lemma closed_language : equiv_check cfuel LF (join_rx abnf_accept_language abnf_accept_language) abnf_accept_language = true.
Proof. vm_compute. reflexivity. Qed.

Section JoinValid.
  Variables gen abnf ne : rx.
  Hypothesis Heq : forall w, no_LF w -> (rmatch gen w = true <-> matches abnf w).
  Hypothesis Hgen : rx_nolf gen = true.
  Hypothesis Habnf : rx_nolf abnf = true.
  Hypothesis Hne : forall w, matches abnf w -> w <> [] -> matches ne w.
  Hypothesis Hclosed : equiv_check cfuel LF (join_rx abnf ne) abnf = true.

  Theorem join_valid a b :
    rmatch gen a = true -> a <> [] -> rmatch gen b = true -> b <> [] ->
    rmatch gen (a ++ comma_sp ++ b) = true.
  Proof.
    intros Ha Hane Hb Hbne.
    pose proof (valid_no_LF _ _ Hgen Ha) as La. pose proof (valid_no_LF _ _ Hgen Hb) as Lb.
    assert (Lw : no_LF (a ++ comma_sp ++ b)).
    { apply no_LF_app; [exact La|]. apply no_LF_app; [|exact Lb]. repeat constructor. }
    apply Heq; [exact Lw|].
    apply (equiv_check_sound cfuel LF (join_rx abnf ne) abnf Hclosed _ Lw). unfold join_rx. apply MAltR.
    constructor; [apply Hne; [apply Heq; assumption|exact Hane]|].
    constructor; [apply sep_matches|]. apply Hne; [apply Heq; assumption|exact Hbne].
  Qed.
End JoinValid.

Definition join_valid_accept :=
  join_valid gen_accept abnf_accept (hash0_ne el_accept) accept_eq nolf_accept
             (hash0_nonempty el_accept) closed_accept.
Definition join_valid_encoding :=
  join_valid gen_accept_encoding abnf_accept_encoding (hash0_ne el_simple) accept_encoding_eq nolf_encoding
             (hash0_nonempty el_simple) closed_encoding.
Definition join_valid_charset :=
  join_valid gen_accept_charset abnf_accept_charset abnf_accept_charset accept_charset_eq nolf_charset
             (fun w H _ => H) closed_charset.
Definition join_valid_language :=
  join_valid gen_accept_language abnf_accept_language abnf_accept_language accept_language_eq nolf_language
             (fun w H _ => H) closed_language.

(* the empty text: valid for #element, invalid for 1#element *)
Lemma empty_accept : rmatch gen_accept [] = true. Proof. vm_compute. reflexivity. Qed.
Lemma empty_encoding : rmatch gen_accept_encoding [] = true. Proof. vm_compute. reflexivity. Qed.
Lemma empty_charset : rmatch gen_accept_charset [] = false. Proof. vm_compute. reflexivity. Qed.
Lemma empty_language : rmatch gen_accept_language [] = false. Proof. vm_compute. reflexivity. Qed.

(* ---------- ", "-joined element lists are #element / 1#element ---------- *)
Lemma join_cons sep x y l : join sep (x :: y :: l) = x ++ sep ++ join sep (y :: l).
Proof. reflexivity. Qed.

Lemma matches_cat a b w1 w2 : matches a w1 -> matches b w2 -> matches (Cat a b) (w1 ++ w2).
Proof. intros; constructor; assumption. Qed.
Lemma matches_ows_nil : matches OWS []. Proof. constructor. Qed.
Lemma matches_ows_sp : matches OWS [32].
Proof. unfold OWS. apply matches_star_one. constructor. reflexivity. Qed.

Section Lists.
  Variable el : rx.
  Definition tail_rx : rx := cats [OWS; ch 44; opt (Cat OWS el)].
  Lemma tail_one y : matches el y -> matches tail_rx (comma_sp ++ y).
  Proof.
    intros H. unfold tail_rx, comma_sp. cbn [cats].
    change ([44; 32] ++ y) with ([] ++ [44] ++ [32] ++ y).
    apply matches_cat; [apply matches_ows_nil|]. apply matches_cat; [apply matches_ch|].
    apply MAltR. apply matches_cat; [apply matches_ows_sp|exact H].
  Qed.
  Lemma tails xs x : Forall (matches el) xs ->
    exists w, join comma_sp (x :: xs) = x ++ w /\ matches (Star tail_rx) w.
  Proof.
    revert x. induction xs as [|y xs IH]; intros x Hall.
    - exists []. split; [cbn; rewrite app_nil_r; reflexivity|constructor].
    - inversion Hall as [|? ? Hy Hxs]; subst. destruct (IH y Hxs) as (w & Ew & Hw).
      exists (comma_sp ++ y ++ w). split.
      + rewrite join_cons, Ew. reflexivity.
      + rewrite app_assoc. constructor; [apply tail_one, Hy|exact Hw].
  Qed.

  Theorem join_hash1 xs : Forall (matches el) xs -> xs <> [] -> matches (hash1 el) (join comma_sp xs).
  Proof.
    intros Hall Hne. destruct xs as [|x xs]; [contradiction|]. inversion Hall as [|? ? Hx Hxs]; subst.
    destruct (tails xs x Hxs) as (w & -> & Hw). unfold hash1. cbn [cats].
    change (x ++ w) with ([] ++ x ++ w). apply matches_cat; [constructor|].
    apply matches_cat; [exact Hx|exact Hw].
  Qed.
  Theorem join_hash0 xs : Forall (matches el) xs -> matches (hash0 el) (join comma_sp xs).
  Proof.
    intros Hall. destruct xs as [|x xs]; [apply MAltL; constructor|]. inversion Hall as [|? ? Hx Hxs]; subst.
    destruct (tails xs x Hxs) as (w & -> & Hw). unfold hash0. apply MAltR.
    apply matches_cat; [apply MAltR; exact Hx|exact Hw].
  Qed.
End Lists.
