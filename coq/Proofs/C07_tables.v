(* C07 — finite sweeps over the alphabets and tables regenerated from webob/cookies.py
   (Gen/C07_tables.v).  Each sweep is a [forallb ... = true] closed by vm_compute and lifted with
   forallb_forall; a table that no longer satisfies it makes this file fail to compile. *)
From Coq Require Import String.
From Coq Require Import ZArith NArith List Bool Lia ZifyBool ZifyNat ZifyN.
Require Import Webob.Lib.Val Webob.Lib.PyStr Webob.Gen.C07_tables Webob.Model.C07_CookieCodec
               Webob.Spec.C07_CookieSpec.
Import ListNotations.
Local Open Scope N_scope.

Definition all_octets : list N := map N.of_nat (seq 0 256).

Lemma in_all_octets c : c < 256 -> In c all_octets.
Proof.
  intros Hc. unfold all_octets. apply in_map_iff. exists (N.to_nat c). split.
  - apply N2Nat.id.
  - apply in_seq. lia.
Qed.

Lemma sweep (P : N -> bool) : forallb P all_octets = true -> forall c, c < 256 -> P c = true.
Proof. intros Hs c Hc. rewrite forallb_forall in Hs. apply Hs, in_all_octets, Hc. Qed.

Lemma mem_n_In c l : mem_n c l = true -> In c l.
Proof.
  induction l as [|x l IH]; cbn; [discriminate|].
  intros Hm. apply orb_true_iff in Hm as [Hx|Hm].
  - left. apply N.eqb_eq, Hx.
  - right. apply IH, Hm.
Qed.

Lemma In_mem_n c l : In c l -> mem_n c l = true.
Proof.
  induction l as [|x l IH]; cbn; [tauto|].
  intros [->|Hi]; apply orb_true_iff; [left; apply N.eqb_refl|right; auto].
Qed.

Lemma member_sweep (P : N -> bool) l : forallb P l = true -> forall c, mem_n c l = true -> P c = true.
Proof. intros Hs c Hm. rewrite forallb_forall in Hs. apply Hs, mem_n_In, Hm. Qed.

(* the model's octal digit tests are the specification's *)
Lemma is03_oct a : is03 a = oct03 a. Proof. reflexivity. Qed.
Lemma is07_oct a : is07 a = oct07 a. Proof. reflexivity. Qed.

(* ---------------------------------------------------------------- the escape tables *)
Definition esc_ok (sp : bool) (c : N) (e : str) : bool :=
  match e with
  | [x] => (x =? c) && (bare_safe c || (sp && (c =? 32)))
  | [x; a; b; d] => (x =? 92) && oct03 a && oct07 b && oct07 d && (oct_value a b d =? c)
  | _ => false
  end.

Inductive esc_shape (sp : bool) (c : N) : str -> Prop :=
| shape_bare : bare_safe c = true -> esc_shape sp c [c]
| shape_sp : sp = true -> c = 32 -> esc_shape sp c [c]
| shape_oct a b d : oct03 a = true -> oct07 b = true -> oct07 d = true -> oct_value a b d = c ->
                    esc_shape sp c [92; a; b; d].

Lemma esc_ok_shape sp c e : esc_ok sp c e = true -> esc_shape sp c e.
Proof.
  destruct e as [|x [|a [|b [|d [|y e]]]]]; cbn [esc_ok]; try discriminate.
  - intros Hk. apply andb_true_iff in Hk as [Hx Hs]. apply N.eqb_eq in Hx. subst x.
    apply orb_true_iff in Hs as [Hs|Hs].
    + apply shape_bare, Hs.
    + apply andb_true_iff in Hs as [Hs Hc]. apply N.eqb_eq in Hc. apply shape_sp; assumption.
  - intros Hk. repeat (apply andb_true_iff in Hk as [Hk ?]).
    apply N.eqb_eq in Hk. subst x. apply shape_oct; try assumption. apply N.eqb_eq; assumption.
Qed.

(* every one of the 256 entries of _escape_map is the octet itself (a printable non-delimiter, or SP)
   or its three-digit octal escape *)
Lemma escape_sweep : forallb (fun c => esc_ok true c (escape_char c)) all_octets = true.
Proof. vm_compute. reflexivity. Qed.

(* _path_quote: the same, and SP is escaped too (there are no surrounding quotes to protect it) *)
Lemma path_escape_sweep : forallb (fun c => esc_ok false c (path_escape_char c)) all_octets = true.
Proof. vm_compute. reflexivity. Qed.

Lemma escape_shape c : c < 256 -> esc_shape true c (escape_char c).
Proof. intros Hc. apply esc_ok_shape. exact (sweep _ escape_sweep c Hc). Qed.

Lemma path_escape_shape c : c < 256 -> esc_shape false c (path_escape_char c).
Proof. intros Hc. apply esc_ok_shape. exact (sweep _ path_escape_sweep c Hc). Qed.

(* ---------------------------------------------------------------- the three alphabets *)
(* octets emitted without quoting are printable non-delimiters *)
Lemma allowed_safe_sweep : forallb bare_safe allowed_cookie_bytes = true.
Proof. vm_compute. reflexivity. Qed.
Lemma allowed_safe c : is_allowed c = true -> bare_safe c = true.
Proof. apply member_sweep, allowed_safe_sweep. Qed.

(* C07_octets_in_out: every octet allowed unquoted on output is legal unquoted on input *)
Lemma allowed_legal_sweep : forallb is_legal allowed_cookie_bytes = true.
Proof. vm_compute. reflexivity. Qed.
Lemma allowed_legal c : is_allowed c = true -> is_legal c = true.
Proof. apply member_sweep, allowed_legal_sweep. Qed.

(* every octet _path_quote leaves alone is legal on input as well *)
Lemma path_raw_legal_sweep :
  forallb (fun c => match path_escape_char c with [x] => is_legal x | _ => true end) all_octets = true.
Proof. vm_compute. reflexivity. Qed.

(* name characters: legal on input, not '=', not white space; and _valid_token_bytes is exactly RFC tchar *)
Lemma token_sweep :
  forallb (fun c => is_legal c && negb (c =? 61) && negb (is_ws c) && tchar c && (c <? 128)) valid_token_bytes = true.
Proof. vm_compute. reflexivity. Qed.
Lemma token_props c : is_token c = true ->
  is_legal c = true /\ c <> 61 /\ is_ws c = false /\ tchar c = true /\ c < 128.
Proof.
  intros Ht. pose proof (member_sweep _ _ token_sweep c Ht) as Hs. cbv beta in Hs.
  repeat (apply andb_true_iff in Hs as [Hs ?]).
  repeat split; try assumption.
  - intros ->. discriminate.
  - destruct (is_ws c); [discriminate|reflexivity].
  - apply N.ltb_lt. assumption.
Qed.

Lemma tchar_token_sweep : forallb (fun c => Bool.eqb (is_token c) (tchar c)) all_octets = true.
Proof. vm_compute. reflexivity. Qed.

Lemma tchar_small c : tchar c = true -> c < 256.
Proof.
  unfold tchar. cbn [mem_n]. intros Ht.
  repeat (apply orb_true_iff in Ht as [Ht|Ht]); lia.
Qed.

Lemma tchar_is_token c : tchar c = true -> is_token c = true.
Proof.
  intros Ht. pose proof (sweep _ tchar_token_sweep c (tchar_small c Ht)) as Hs. cbv beta in Hs.
  rewrite Ht in Hs. destruct (is_token c); [reflexivity|discriminate].
Qed.

Lemma is_token_tchar c : is_token c = true -> tchar c = true.
Proof. intros Ht. apply token_props in Ht. tauto. Qed.

(* what the scanner must stop at / must not mistake for a key *)
Lemma legal_facts : is_legal 59 = false /\ is_legal 32 = false /\ is_legal 34 = false /\ is_legal 92 = false /\ is_legal 44 = false.
Proof. vm_compute. repeat split; reflexivity. Qed.

(* ---------------------------------------------------------------- the unquote map *)
Lemma unquote_oct_sweep : forallb (fun i => nth (N.to_nat i) ch_unquote_oct 0 =? i) all_octets = true.
Proof. vm_compute. reflexivity. Qed.

Lemma unq_oct_value a b d : oct03 a = true -> oct07 b = true -> oct07 d = true ->
  unq_oct a b d = oct_value a b d.
Proof.
  intros Ha Hb Hd. unfold unq_oct. fold (oct_value a b d).
  assert (Hlt : oct_value a b d < 256) by (unfold oct_value, oct03, oct07 in *; lia).
  pose proof (sweep _ unquote_oct_sweep _ Hlt) as Hs. cbv beta in Hs. apply N.eqb_eq, Hs.
Qed.

(* ---------------------------------------------------------------- table sanity used by the serializer lemmas *)
Lemma escape_tables_total : length escape_map = 256%nat /\ length path_escape_map = 256%nat.
Proof. vm_compute. split; reflexivity. Qed.
