(* C02 — lemmas about the helpers of Lib/C02_Base.v and the header-list primitives of the model *)
From Coq Require Import ZArith NArith List Bool Lia ZifyBool ZifyNat ZifyN.
From Coq Require Decimal DecimalN DecimalPos.
Require Import Webob.Lib.Val Webob.Lib.PyStr Webob.Lib.C02_Base Webob.Lib.C02_Utf8 Webob.Gen.C02_status
               Webob.Model.C02_RespBody.
Import ListNotations.
Local Open Scope N_scope.

(* ---------- str_eqb ---------- *)
Lemma str_eqb_refl s : str_eqb s s = true.
Proof. induction s as [|x s IH]; cbn; [reflexivity|]. rewrite N.eqb_refl. exact IH. Qed.

Lemma str_eqb_eq a : forall b, str_eqb a b = true -> a = b.
Proof.
  induction a as [|x a IH]; intros [|y b] H; cbn in H; try discriminate; [reflexivity|].
  apply andb_true_iff in H as [H1 H2]. apply N.eqb_eq in H1. subst y. f_equal. apply IH. exact H2.
Qed.

Lemma str_eqb_neq a b : a <> b -> str_eqb a b = false.
Proof. intros H. destruct (str_eqb a b) eqn:E; [|reflexivity]. exfalso. apply H. apply str_eqb_eq. exact E. Qed.

(* ---------- decimal ---------- *)
Lemma str_uint_uint_str u : str_uint (uint_str u) = Some u.
Proof. induction u; cbn [uint_str str_uint]; try rewrite IHu; reflexivity. Qed.

Lemma uint_str_nil u : uint_str u = [] -> u = Decimal.Nil.
Proof. destruct u; cbn; intros H; try discriminate; reflexivity. Qed.

Lemma dec_nonempty n : dec n <> [].
Proof.
  unfold dec. intros H. apply uint_str_nil in H. destruct n as [|p]; cbn in H; [discriminate|].
  exact (DecimalPos.Unsigned.to_uint_nonnil p H).
Qed.

Lemma parse_dec_dec n : parse_dec (dec n) = Some n.
Proof.
  unfold parse_dec. destruct (dec n) eqn:E; [exfalso; exact (dec_nonempty n E)|].
  rewrite <- E. unfold dec. rewrite str_uint_uint_str. cbn. f_equal. apply DecimalN.Unsigned.of_to.
Qed.

Lemma parse_int_dec n : parse_int (Some (dec n)) = Ok (Some n).
Proof.
  unfold parse_int. destruct (dec n) eqn:E; [exfalso; exact (dec_nonempty n E)|].
  rewrite <- E, parse_dec_dec. reflexivity.
Qed.

(* ---------- lengths ---------- *)
Lemma blen_app a b : blen (a ++ b) = blen a + blen b.
Proof. unfold blen. rewrite app_length. lia. Qed.

Lemma blen_nil : blen [] = 0.
Proof. reflexivity. Qed.

Lemma sum_len_acc cs : forall a, fold_left (fun a c => a + blen c) cs a = a + blen (List.concat cs).
Proof.
  induction cs as [|x cs IH]; intros a; cbn [fold_left List.concat].
  - rewrite blen_nil. lia.
  - rewrite IH, blen_app. lia.
Qed.

Lemma sum_len_concat cs : sum_len cs = blen (List.concat cs).
Proof. unfold sum_len. rewrite sum_len_acc. lia. Qed.

(* ---------- header lists: the Content-Length values ---------- *)
Definition clvals (h : hdrs) : list str := map snd (filter (is_key K_CL) h).

Lemma hfirst_clvals h : hfirst K_CL h = hd_error (clvals h).
Proof.
  unfold clvals. induction h as [|kv h IH]; [reflexivity|].
  cbn [hfirst filter]. destruct (is_key K_CL kv); [reflexivity|exact IH].
Qed.

Lemma clvals_app a b : clvals (a ++ b) = clvals a ++ clvals b.
Proof. unfold clvals. rewrite filter_app, map_app. reflexivity. Qed.

Lemma clvals_hdel_same h : clvals (hdel K_CL h) = [].
Proof.
  unfold clvals, hdel. induction h as [|kv h IH]; [reflexivity|].
  cbn [filter]. destruct (is_key K_CL kv) eqn:E; cbn [negb]; [exact IH|].
  cbn [filter]. rewrite E. exact IH.
Qed.

Lemma is_key_excl k kv : k <> K_CL -> is_key k kv = true -> is_key K_CL kv = false.
Proof.
  unfold is_key. intros Hk H. apply str_eqb_eq in H. apply str_eqb_neq. congruence.
Qed.

Lemma clvals_hdel_other k h : k <> K_CL -> clvals (hdel k h) = clvals h.
Proof.
  intros Hk. unfold clvals, hdel. induction h as [|kv h IH]; [reflexivity|].
  cbn [filter]. destruct (is_key k kv) eqn:E; cbn [negb].
  - rewrite (is_key_excl k kv Hk E). exact IH.
  - cbn [filter]. destruct (is_key K_CL kv); cbn [map]; rewrite IH; reflexivity.
Qed.

Lemma clvals_single_cl n v : lower n = K_CL -> clvals [(n, v)] = [v].
Proof. intros H. unfold clvals. cbn [filter]. unfold is_key. cbn [fst]. rewrite H, str_eqb_refl. reflexivity. Qed.

Lemma clvals_single_other n v : lower n <> K_CL -> clvals [(n, v)] = [].
Proof. intros H. unfold clvals. cbn [filter]. unfold is_key. cbn [fst]. rewrite (str_eqb_neq _ _ H). reflexivity. Qed.

Lemma lower_N_CL : lower N_CL = K_CL.
Proof. reflexivity. Qed.

Lemma clvals_set_cl v h : clvals (hset_plain N_CL v h) = [v].
Proof.
  unfold hset_plain. rewrite clvals_app, lower_N_CL, clvals_hdel_same, (clvals_single_cl _ _ lower_N_CL).
  reflexivity.
Qed.

(* setting / deleting any other header leaves the Content-Length values alone *)
Lemma clvals_hset_plain_other n v h : lower n <> K_CL -> clvals (hset_plain n v h) = clvals h.
Proof.
  intros H. unfold hset_plain. rewrite clvals_app, (clvals_hdel_other _ _ H), (clvals_single_other _ _ H).
  apply app_nil_r.
Qed.

Lemma clvals_rh_set_other n v h : lower n <> K_CL -> clvals (rh_set n v h) = clvals h.
Proof. exact (clvals_hset_plain_other n v h). Qed.

Lemma clvals_hset_other n v h : lower n <> K_CL -> clvals (fst (hset n v h)) = clvals h.
Proof.
  intros H. unfold hset. destruct (has_crlf v); cbn [fst].
  - reflexivity.
  - rewrite clvals_app, (clvals_hdel_other _ _ H), (clvals_single_other _ _ H). apply app_nil_r.
Qed.

Lemma clvals_rh_pop_other k h : k <> K_CL -> clvals (snd (rh_pop k h)) = clvals h.
Proof.
  intros Hk. induction h as [|kv h IH]; [reflexivity|].
  cbn [rh_pop]. destruct (is_key k kv) eqn:E.
  - cbn [snd]. unfold clvals. cbn [filter]. rewrite (is_key_excl k kv Hk E). reflexivity.
  - destruct (rh_pop k h) as [v r] eqn:Er. cbn [snd] in *.
    unfold clvals in *. cbn [filter]. destruct (is_key K_CL kv); cbn [map]; rewrite IH; reflexivity.
Qed.

Lemma K_CT_ne : K_CT <> K_CL. Proof. discriminate. Qed.
Lemma K_CE_ne : K_CE <> K_CL. Proof. discriminate. Qed.
Lemma K_CMD5_ne : K_CMD5 <> K_CL. Proof. discriminate. Qed.
Lemma K_LOC_ne : K_LOC <> K_CL. Proof. discriminate. Qed.
Lemma N_CT_ne : lower N_CT <> K_CL. Proof. discriminate. Qed.
Lemma N_CE_ne : lower N_CE <> K_CL. Proof. discriminate. Qed.
Lemma N_CMD5_ne : lower N_CMD5 <> K_CL. Proof. discriminate. Qed.
Lemma N_ETAG_ne : lower N_ETAG <> K_CL. Proof. discriminate. Qed.
Lemma N_LOC_ne : lower N_LOC <> K_CL. Proof. discriminate. Qed.

Lemma clvals_set_charset cs h : clvals (fst (set_charset cs h)) = clvals h.
Proof.
  unfold set_charset. destruct cs as [cs|].
  - destruct (hlast K_CT h); cbn [fst]; [|reflexivity]. apply clvals_rh_set_other. exact N_CT_ne.
  - pose proof (clvals_rh_pop_other K_CT h K_CT_ne) as P.
    destruct (rh_pop K_CT h) as [[v|] h1]; cbn [fst snd] in *; [|reflexivity].
    rewrite (clvals_rh_set_other _ _ _ N_CT_ne). exact P.
Qed.

Lemma clvals_set_content_type c v h : clvals (set_content_type c v h) = clvals h.
Proof.
  unfold set_content_type. destruct v as [[|x ct]|].
  - apply clvals_rh_pop_other. exact K_CT_ne.
  - apply clvals_rh_set_other. exact N_CT_ne.
  - apply clvals_rh_pop_other. exact K_CT_ne.
Qed.

(* reading Content-Length when every Content-Length value present is str(n) *)
Lemma cl_read h n : Forall (fun v => v = dec n) (clvals h) ->
  (parse_int (hfirst K_CL h) = Ok None /\ clvals h = []) \/ parse_int (hfirst K_CL h) = Ok (Some n).
Proof.
  intros F. rewrite hfirst_clvals. destruct (clvals h) as [|v vs]; [left; split; reflexivity|].
  right. inversion F as [|? ? Hv _]; subst. cbn [hd_error]. apply parse_int_dec.
Qed.

(* ---------- first / last lookups against set / delete ---------- *)
Lemma hfirst_hdel_same k h : hfirst k (hdel k h) = None.
Proof.
  unfold hdel. induction h as [|kv h IH]; [reflexivity|].
  cbn [filter]. destruct (is_key k kv) eqn:E; cbn [negb]; [exact IH|].
  cbn [hfirst]. rewrite E. exact IH.
Qed.

Lemma hfirst_app k a b : hfirst k (a ++ b) = match hfirst k a with Some v => Some v | None => hfirst k b end.
Proof.
  induction a as [|kv a IH]; [reflexivity|]. rewrite <- app_comm_cons. cbn [hfirst]. destruct (is_key k kv); [reflexivity|exact IH].
Qed.

Lemma hfirst_hset_plain_same n v h : hfirst (lower n) (hset_plain n v h) = Some v.
Proof.
  unfold hset_plain. rewrite hfirst_app, hfirst_hdel_same. cbn [hfirst]. unfold is_key. cbn [fst snd].
  rewrite str_eqb_refl. reflexivity.
Qed.

Lemma is_key_neq k k' kv : k <> k' -> is_key k' kv = true -> is_key k kv = false.
Proof. unfold is_key. intros Hk H. apply str_eqb_eq in H. apply str_eqb_neq. congruence. Qed.

Lemma hfirst_hdel_other k k' h : k <> k' -> hfirst k (hdel k' h) = hfirst k h.
Proof.
  intros Hk. unfold hdel. induction h as [|kv h IH]; [reflexivity|].
  cbn [filter hfirst]. destruct (is_key k' kv) eqn:E; cbn [negb].
  - rewrite (is_key_neq k k' kv Hk E). exact IH.
  - cbn [hfirst]. destruct (is_key k kv); [reflexivity|exact IH].
Qed.

Lemma hfirst_single_other k n v : lower n <> k -> hfirst k [(n, v)] = None.
Proof. intros H. cbn [hfirst]. unfold is_key. cbn [fst]. rewrite (str_eqb_neq _ _ H). reflexivity. Qed.

Lemma hfirst_hset_plain_other k n v h : lower n <> k -> hfirst k (hset_plain n v h) = hfirst k h.
Proof.
  intros H. unfold hset_plain. rewrite hfirst_app, hfirst_hdel_other by congruence.
  rewrite (hfirst_single_other _ _ _ H). destruct (hfirst k h); reflexivity.
Qed.

Lemma rev_hdel k h : rev (hdel k h) = hdel k (rev h).
Proof.
  unfold hdel. induction h as [|kv h IH]; [reflexivity|].
  cbn [filter rev]. rewrite filter_app. cbn [filter].
  destruct (negb (is_key k kv)); cbn [rev]; rewrite IH; [reflexivity|symmetry; apply app_nil_r].
Qed.

Lemma hlast_hdel_other k k' h : k <> k' -> hlast k (hdel k' h) = hlast k h.
Proof. intros Hk. unfold hlast. rewrite rev_hdel. apply hfirst_hdel_other. exact Hk. Qed.

Lemma hlast_app_other k n v h : lower n <> k -> hlast k (h ++ [(n, v)]) = hlast k h.
Proof.
  intros H. unfold hlast. rewrite rev_app_distr. cbn [rev]. rewrite app_nil_l, <- app_comm_cons, app_nil_l. cbn [hfirst]. unfold is_key at 1. cbn [fst].
  rewrite (str_eqb_neq _ _ H). reflexivity.
Qed.

Lemma hlast_hset_plain_other k n v h : lower n <> k -> hlast k (hset_plain n v h) = hlast k h.
Proof.
  intros H. unfold hset_plain. rewrite (hlast_app_other _ _ _ _ H). apply hlast_hdel_other. congruence.
Qed.

Lemma hlast_hset_other k n v h : lower n <> k -> hlast k (fst (hset n v h)) = hlast k h.
Proof.
  intros H. unfold hset. destruct (has_crlf v); cbn [fst].
  - reflexivity.
  - rewrite (hlast_app_other _ _ _ _ H). apply hlast_hdel_other. congruence.
Qed.

(* ---------- codecs: decoding what was encoded gives the text back ---------- *)
Require Import Webob.Proofs.C02_utf8.

Lemma decode_encode name t b : encode name t = Ok b -> decode name b = Ok t.
Proof.
  unfold encode, decode. destruct (codec_of name) as [[| |]|]; try discriminate.
  - destruct (utf8_encode t) as [x|] eqn:E; [|discriminate]. intros H. injection H as <-.
    rewrite (utf8_encode_decode _ _ E). reflexivity.
  - destruct (forallb is_octet t); [|discriminate]. intros H. injection H as <-. reflexivity.
  - destruct (forallb is_ascii t) eqn:E; [|discriminate]. intros H. injection H as <-. rewrite E. reflexivity.
Qed.
