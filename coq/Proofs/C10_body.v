(* C10 — the property-level statements, derived from the refinement theorem. *)
From Coq Require Import ZArith NArith List Bool Arith Lia.
Require Import Webob.Lib.Val Webob.Model.C10_BodyStream Webob.Spec.C10_BodySpec
               Webob.Proofs.C10_stream Webob.Proofs.C10_loops Webob.Proofs.C10_refine Webob.Proofs.C10_step
               Webob.Proofs.C10_world.
Import ListNotations.

Definition outputs (chunk : nat) (s : bytes) (c : option Z) (sk : bool) (tm : option bool) (lg : bool)
           (lim : Z) (hist : list step) : list out :=
  fst (wrun chunk (init_world s c sk tm lg lim) hist).

Definition final (chunk : nat) (s : bytes) (c : option Z) (sk : bool) (tm : option bool) (lg : bool)
           (lim : Z) (hist : list step) : world :=
  snd (wrun chunk (init_world s c sk tm lg lim) hist).

(* a seekable input is supposed to hold exactly the declared body *)
Definition consistent (s : bytes) (c : option Z) (sk : bool) : Prop :=
  sk = true -> c = Some (Z.of_nat (length s)).

(* ------------------------------------------------------------------ 1. refinement *)
Theorem refines : forall chunk s c sk tm lg lim hist,
  1 <= chunk -> consistent s c sk ->
  exists ss', srun_ok [sinit s c sk tm lg] hist (outputs chunk s c sk tm lg lim hist) ss'.
Proof.
  intros chunk s c sk tm lg lim hist Hch Hcons. unfold outputs.
  destruct (init_rel s c sk tm lg lim Hcons) as [HW HB].
  destruct (wrun chunk (init_world s c sk tm lg lim) hist) as [xs w'] eqn:Er.
  destruct (wrun_refines _ _ _ _ _ _ _ Hch HW HB Er) as (ss' & Hrun & _ & _).
  exists ss'. exact Hrun.
Qed.

(* ------------------------------------------------------------------ 2. determinism off the short mode *)
Definition not_short (s : sreq) : Prop := smode s <> MShort.

Lemma sconv_modes : forall s, not_short s ->
  match sconv s with
  | (Some s1, s2) => smode s1 = MHeld /\ not_short s2
  | (None, s2) => not_short s2
  end.
Proof.
  intros s H. unfold sconv, not_short in *. destruct (smode s) eqn:E; cbn; try congruence.
  - destruct (Nat.eqb (scur s) 0); cbn; rewrite ?E; try split; congruence.
  - split; congruence.
  - split; congruence.
  - rewrite E. split; congruence.
Qed.

Lemma sstep_not_short : forall o s x s' new,
  not_short s -> sstep o s = (x, s', new) ->
  not_short s' /\ match new with Some sn => not_short sn | None => True end.
Proof.
  intros o s x s' new H E. pose proof (sconv_modes s H) as Hc.
  unfold not_short in *.
  destruct o; cbn [sstep] in E.
  - destruct (smode s) eqn:Em; try congruence;
      destruct (sconv s) as [[s1|] s2]; injection E as <- <- <-; cbn; intuition congruence.
  - destruct (smode s) eqn:Em; try congruence; injection E as <- <- <-; cbn; rewrite ?Em; intuition congruence.
  - destruct (smode s) eqn:Em; try congruence;
      try (destruct (sconv s) as [[s1|] s2]; injection E as <- <- <-; cbn; intuition congruence).
  - destruct (sconv s) as [[s1|] s2]; injection E as <- <- <-; cbn; intuition congruence.
  - injection E as <- <- <-; cbn; intuition congruence.
  - destruct (spost s || negb (sform s)); [injection E as <- <- <-; cbn; intuition congruence|].
    destruct (sconv s) as [[s1|] s2]; injection E as <- <- <-; cbn; intuition congruence.
  - destruct (smode s) eqn:Em; injection E as <- <- <-; cbn; rewrite ?Em; intuition congruence.
  - injection E as <- <- <-; cbn; intuition congruence.
Qed.

Lemma Forall_set_nth : forall A (P : A -> Prop) i x l, Forall P l -> P x -> Forall P (set_nth i x l).
Proof.
  intros A P i x l; revert i; induction l as [|y l IH]; intros [|i] Hl Hx; cbn; auto;
    inversion Hl; subst; constructor; auto.
Qed.

Lemma Forall_nth_error : forall A (P : A -> Prop) l i x, Forall P l -> nth_error l i = Some x -> P x.
Proof.
  intros A P l i x Hl E. rewrite Forall_forall in Hl. apply Hl. eapply nth_error_In; eauto.
Qed.

Lemma srun_ok_det : forall ss hist xs ss',
  Forall not_short ss -> srun_ok ss hist xs ss' -> srun ss hist = (xs, ss').
Proof.
  intros ss hist xs ss' Hns Hrun. induction Hrun as [ss|ss i o adv t xs ss' Hn Hrun IH|ss i o adv t s x s' new xs ss' Hs Hok Hrun IH].
  - reflexivity.
  - cbn [srun]. unfold sapply. rewrite Hn. rewrite (IH Hns). reflexivity.
  - pose proof (Forall_nth_error _ _ _ _ _ Hns Hs) as Hsn.
    destruct Hok as [Hok|(Hm & _)]; [|contradiction].
    destruct (sstep_not_short _ _ _ _ _ Hsn Hok) as [Hs' Hnew].
    cbn [srun]. unfold sapply. rewrite Hs, Hok.
    rewrite IH; [reflexivity|].
    destruct new as [sn|].
    + apply Forall_app. split; [apply Forall_set_nth; auto|constructor; auto].
    + apply Forall_set_nth; auto.
Qed.

Definition long_enough (s : bytes) (c : option Z) (sk : bool) : Prop :=
  sk = false -> forall z, c = Some z -> (z <= Z.of_nat (length s))%Z.

Lemma sinit_not_short : forall s c sk tm lg, long_enough s c sk -> not_short (sinit s c sk tm lg).
Proof.
  intros s c sk tm lg H. unfold not_short, sinit. destruct sk; [cbn; congruence|].
  destruct c as [z|].
  - destruct (0 <? z)%Z eqn:Ez; [|cbn; congruence].
    destruct (Nat.leb (Z.to_nat z) (length s)) eqn:El; [cbn; congruence|].
    apply Nat.leb_gt in El. specialize (H eq_refl z eq_refl). lia.
  - destruct (flag0 tm lg); cbn; congruence.
Qed.

Theorem exact : forall chunk s c sk tm lg lim hist,
  1 <= chunk -> consistent s c sk -> long_enough s c sk ->
  outputs chunk s c sk tm lg lim hist = fst (srun [sinit s c sk tm lg] hist).
Proof.
  intros chunk s c sk tm lg lim hist Hch Hcons Hlong.
  destruct (refines chunk s c sk tm lg lim hist Hch Hcons) as [ss' Hrun].
  apply srun_ok_det in Hrun.
  - now rewrite Hrun.
  - constructor; [|constructor]. now apply sinit_not_short.
Qed.

(* what comes out does not depend on the temp-file threshold or on the copy step *)
Theorem limit_irrelevant : forall chunk chunk' s c sk tm lg lim lim' hist,
  1 <= chunk -> 1 <= chunk' -> consistent s c sk -> long_enough s c sk ->
  outputs chunk s c sk tm lg lim hist = outputs chunk' s c sk tm lg lim' hist.
Proof.
  intros. rewrite !exact; auto.
Qed.

(* ------------------------------------------------------------------ 3. no over-read *)
Theorem no_overread : forall chunk s c tm lg lim hist b,
  1 <= chunk -> obound (init_req c false tm lg lim) = Some b ->
  fpos (cells (wheap (final chunk s c false tm lg lim hist)) 0) <= b.
Proof.
  intros chunk s c tm lg lim hist b Hch Hb. unfold final.
  assert (Hcons : consistent s c false) by (intros E; discriminate).
  destruct (init_rel s c false tm lg lim Hcons) as [HW HB]. rewrite Hb in HB.
  destruct (wrun chunk (init_world s c false tm lg lim) hist) as [xs w'] eqn:Er.
  destruct (wrun_refines _ _ _ _ _ _ _ Hch HW HB Er) as (ss' & _ & _ & HB').
  cbn [snd]. exact (proj1 HB').
Qed.

Corollary no_overread_cl : forall chunk s z tm lg lim hist,
  1 <= chunk ->
  fpos (cells (wheap (final chunk s (Some z) false tm lg lim hist)) 0) <= Z.to_nat z.
Proof. intros. apply no_overread; auto. Qed.

Corollary no_read_without_cl : forall chunk s tm lg lim hist,
  1 <= chunk -> flag0 tm lg = false ->
  fpos (cells (wheap (final chunk s None false tm lg lim hist)) 0) = 0.
Proof.
  intros chunk s tm lg lim hist Hch Hf.
  enough (fpos (cells (wheap (final chunk s None false tm lg lim hist)) 0) <= 0) by lia.
  apply no_overread; auto. unfold obound, init_req, term_flag; cbn. unfold flag0 in Hf. now rewrite Hf.
Qed.

(* ------------------------------------------------------------------ 4. short streams *)
Lemma short_answers : forall o s x s' new,
  smode s = MShort -> sstep_ok o s x s' new ->
  (smode s' = MShort \/ exists b, o = SetBody b) /\
  match o with
  | Body | SeekRead _ | Copy | FileRead None => x = ODisc
  | Post => x = ODisc \/ x = OCached
  | FileRead (Some k) =>
      x = ODisc \/ (x = OBytes (firstn k (skipn (scur s) (sbody s))) /\ scur s + k <= length (sbody s))
  | CallApp => x = OSkip
  | CopyGet => x = ONew true
  | SetBody _ => x = OBytes []
  end.
Proof.
  intros o s x s' new Hm [E|(_ & k & -> & Hk & -> & -> & ->)].
  - destruct o; cbn [sstep] in E; unfold sconv in E; rewrite ?Hm in E;
      try (injection E as <- <- <-; cbn; rewrite ?Hm; split; eauto; fail).
    + destruct k; injection E as <- <- <-; cbn; rewrite ?Hm; split; auto.
    + destruct (spost s || negb (sform s)); injection E as <- <- <-; cbn; rewrite ?Hm; split; auto.
  - cbn. rewrite Hm. split; auto.
Qed.

(* ------------------------------------------------------------------ 5. what body_file hands out is a prefix of the body *)
Fixpoint delivered (xs : list out) : bytes :=
  match xs with
  | [] => []
  | OBytes d :: t => d ++ delivered t
  | _ :: t => delivered t
  end.

Definition only_reads (hist : list step) : Prop :=
  Forall (fun st => fst (fst st) = 0 /\ exists k, snd (fst st) = FileRead k) hist.

Definition is_prefix (a b : bytes) : Prop := exists rest, a ++ rest = b.

Lemma firstn_skipn_split : forall (l : bytes) c k,
  skipn c l = firstn k (skipn c l) ++ skipn (c + length (firstn k (skipn c l))) l.
Proof.
  intros l c k. rewrite <- skipn_skipn'. rewrite firstn_length.
  destruct (Nat.le_gt_cases k (length (skipn c l))).
  - rewrite Nat.min_l by lia. symmetry. apply firstn_skipn.
  - rewrite Nat.min_r by lia. rewrite firstn_all2 by lia. rewrite skipn_all. now rewrite app_nil_r.
Qed.

Lemma reads_prefix_spec : forall hist s xs ss',
  only_reads hist -> srun_ok [s] hist xs ss' ->
  is_prefix (delivered xs) (skipn (scur s) (sbody s)).
Proof.
  induction hist as [|[[i o] adv] t IH]; intros s xs ss' Hor Hrun.
  - inversion Hrun; subst. exists (skipn (scur s) (sbody s)). reflexivity.
  - inversion Hor as [|? ? [Hi0 [k Hk]] Hor']; subst. cbn in Hi0, Hk. subst i o.
    inversion Hrun as [|? ? ? ? ? ? ? Hn Hrun'|? ? ? ? ? s0 x s' new xs' ? Hs Hok Hrun']; subst.
    + cbn in Hn. discriminate.
    + cbn in Hs. injection Hs as <-.
      assert (Hnew : new = None /\
                ((exists d, x = OBytes d /\ d = take k (skipn (scur s) (sbody s)) /\
                            s' = s_cur s (scur s + length d)) \/
                 (x = ODisc /\ s' = s_cur s (length (sbody s))) \/
                 (x = OBytes [] /\ s' = s))).
      { destruct Hok as [E|(Hm & k' & Ek & Hk' & -> & -> & ->)].
        - cbn [sstep] in E. destruct (smode s); unfold sread in E; injection E as <- <- <-; split; auto.
          + left. eexists; splits; eauto.
          + left. eexists; splits; eauto.
          + left. eexists; splits; eauto.
        - injection Ek as Ek. subst k. split; auto. left. eexists. splits; eauto.
          cbn [take]. rewrite firstn_length. f_equal. rewrite skipn_length. lia. }
      destruct Hnew as [-> Hcases]. cbn [set_nth] in Hrun'.
      specialize (IH s' xs' ss' Hor' Hrun').
      destruct Hcases as [(d & -> & Hd & ->)|[(-> & ->)|(-> & ->)]]; cbn [delivered].
      * cbn [s_cur scur sbody] in IH. destruct IH as [rest IH].
        exists rest. rewrite <- app_assoc, IH. subst d.
        destruct k as [k|]; cbn [take].
        -- symmetry. apply firstn_skipn_split.
        -- rewrite <- skipn_skipn', skipn_all, app_nil_r. reflexivity.
      * cbn [s_cur scur sbody] in IH. rewrite skipn_all in IH. destruct IH as [rest IH].
        apply app_eq_nil in IH. destruct IH as [-> _]. exists (skipn (scur s) (sbody s)). reflexivity.
      * cbn [app]. exact IH.
Qed.

Theorem reads_prefix : forall chunk s c tm lg lim hist,
  1 <= chunk -> only_reads hist ->
  is_prefix (delivered (outputs chunk s c false tm lg lim hist)) (sbody (sinit s c false tm lg)).
Proof.
  intros chunk s c tm lg lim hist Hch Hor.
  assert (Hcons : consistent s c false) by (intros E; discriminate).
  destruct (refines chunk s c false tm lg lim hist Hch Hcons) as [ss' Hrun].
  pose proof (reads_prefix_spec _ _ _ _ Hor Hrun) as H.
  replace (scur (sinit s c false tm lg)) with 0 in H; [exact H|].
  unfold sinit. destruct c as [z|]; [destruct (0 <? z)%Z; [destruct (Nat.leb _ _)|]|destruct (flag0 tm lg)]; reflexivity.
Qed.

(* ------------------------------------------------------------------ 6. every whole-body path of a fresh request *)
Definition fresh_paths5 (adv : list nat) : list (list step) :=
  [ [(0, Body, adv)];
    [(0, FileRead None, adv)];
    [(0, SeekRead None, adv)];
    [(0, Copy, adv); (1, Body, adv)];
    [(0, Post, adv)] ].

(* ... and an application called after .body made the input seekable *)
Definition fresh_paths (adv : list nat) : list (list step) :=
  fresh_paths5 adv ++ [ [(0, Body, adv); (0, CallApp, adv)] ].

Definition last_out (xs : list out) : out := last xs OSkip.

Theorem fresh_body_exact : forall chunk s z tm lg lim adv p,
  1 <= chunk -> (0 < z)%Z -> (z <= Z.of_nat (length s))%Z -> In p (fresh_paths adv) ->
  last_out (outputs chunk s (Some z) false tm lg lim p) = OBytes (firstn (Z.to_nat z) s).
Proof.
  intros chunk s z tm lg lim adv p Hch Hz Hle Hin.
  rewrite (exact chunk s (Some z) false tm lg lim p Hch ltac:(intros E; discriminate)
             ltac:(intros _ z' E; injection E as <-; auto)).
  unfold sinit.
  assert (E1 : (0 <? z)%Z = true) by (apply Z.ltb_lt; auto).
  assert (E2 : Nat.leb (Z.to_nat z) (length s) = true) by (apply Nat.leb_le; lia).
  rewrite E1, E2.
  cbn in Hin. repeat (destruct Hin as [<-|Hin]; [cbn; rewrite ?firstn_all; reflexivity|]). contradiction.
Qed.

Theorem fresh_no_cl_empty : forall chunk s tm lg lim adv p,
  1 <= chunk -> flag0 tm lg = false -> In p (fresh_paths5 adv) ->
  last_out (outputs chunk s None false tm lg lim p) = OBytes [].
Proof.
  intros chunk s tm lg lim adv p Hch Hf Hin.
  rewrite (exact chunk s None false tm lg lim p Hch ltac:(intros E; discriminate)
             ltac:(intros _ z' E; discriminate)).
  unfold sinit. rewrite Hf.
  cbn in Hin. repeat (destruct Hin as [<-|Hin]; [cbn; reflexivity|]). contradiction.
Qed.

Theorem fresh_no_cl_terminated : forall chunk s tm lg lim adv p,
  1 <= chunk -> flag0 tm lg = true -> In p (fresh_paths adv) ->
  last_out (outputs chunk s None false tm lg lim p) = OBytes s.
Proof.
  intros chunk s tm lg lim adv p Hch Hf Hin.
  rewrite (exact chunk s None false tm lg lim p Hch ltac:(intros E; discriminate)
             ltac:(intros _ z' E; discriminate)).
  unfold sinit. rewrite Hf.
  cbn in Hin. repeat (destruct Hin as [<-|Hin]; [cbn; rewrite ?firstn_all; reflexivity|]). contradiction.
Qed.

Theorem fresh_zero_or_negative_cl_empty : forall chunk s z tm lg lim adv p,
  1 <= chunk -> (z <= 0)%Z -> In p (fresh_paths5 adv) ->
  last_out (outputs chunk s (Some z) false tm lg lim p) = OBytes [].
Proof.
  intros chunk s z tm lg lim adv p Hch Hz Hin.
  rewrite (exact chunk s (Some z) false tm lg lim p Hch ltac:(intros E; discriminate)
             ltac:(intros _ z' E; injection E as <-; lia)).
  unfold sinit.
  assert (E1 : (0 <? z)%Z = false) by (apply Z.ltb_ge; auto). rewrite E1.
  cbn in Hin. repeat (destruct Hin as [<-|Hin]; [cbn; reflexivity|]). contradiction.
Qed.

(* a stream shorter than declared: every whole-body path of the fresh request raises *)
Definition no_sized_read (hist : list step) : Prop :=
  Forall (fun st => forall k, snd (fst st) <> FileRead (Some k)) hist.

Lemma srun_ok_det2 : forall ss hist xs ss',
  no_sized_read hist -> srun_ok ss hist xs ss' -> srun ss hist = (xs, ss').
Proof.
  intros ss hist xs ss' Hns Hrun.
  induction Hrun as [ss|ss i o adv t xs ss' Hn Hrun IH|ss i o adv t s x s' new xs ss' Hs Hok Hrun IH].
  - reflexivity.
  - inversion Hns; subst. cbn [srun]. unfold sapply. rewrite Hn. rewrite (IH H2). reflexivity.
  - inversion Hns as [|? ? Hh Ht]; subst. cbn in Hh.
    destruct Hok as [Hok|(_ & k & Ek & _)]; [|exfalso; eapply Hh; eauto].
    cbn [srun]. unfold sapply. rewrite Hs, Hok. rewrite (IH Ht). reflexivity.
Qed.

Theorem fresh_short_disconnects : forall chunk s z tm lg lim adv p,
  1 <= chunk -> (Z.of_nat (length s) < z)%Z -> In p (fresh_paths adv) ->
  hd OSkip (outputs chunk s (Some z) false tm lg lim p) = ODisc /\
  Forall (fun x => x = ODisc \/ x = OSkip) (outputs chunk s (Some z) false tm lg lim p).
Proof.
  intros chunk s z tm lg lim adv p Hch Hz Hin.
  assert (Hcons : consistent s (Some z) false) by (intros E; discriminate).
  destruct (refines chunk s (Some z) false tm lg lim p Hch Hcons) as [ss' Hrun].
  remember (outputs chunk s (Some z) false tm lg lim p) as xs. clear Heqxs.
  unfold sinit in Hrun.
  assert (E1 : (0 <? z)%Z = true) by (apply Z.ltb_lt; lia).
  assert (E2 : Nat.leb (Z.to_nat z) (length s) = false) by (apply Nat.leb_gt; lia).
  rewrite E1, E2 in Hrun.
  apply srun_ok_det2 in Hrun.
  - cbn in Hin.
    repeat (destruct Hin as [<-|Hin];
            [cbn in Hrun; injection Hrun as <- _; split; [reflexivity|repeat (apply Forall_cons; [auto|]); apply Forall_nil]|]).
    contradiction.
  - cbn in Hin. unfold no_sized_read.
    repeat (destruct Hin as [<-|Hin]; [repeat constructor; cbn; intros; discriminate|]).
    contradiction.
Qed.

(* ------------------------------------------------------------------ 7. histories: append *)
Lemma srun_app : forall h1 h2 ss,
  srun ss (h1 ++ h2) =
  let '(x1, ss1) := srun ss h1 in let '(x2, ss2) := srun ss1 h2 in (x1 ++ x2, ss2).
Proof.
  induction h1 as [|[[i o] adv] t IH]; intros h2 ss; cbn [app srun].
  - destruct (srun ss h2); reflexivity.
  - destruct (sapply o i ss) as [x ss1]. rewrite IH.
    destruct (srun ss1 t) as [x1 ss2]. destruct (srun ss2 h2) as [x2 ss3]. reflexivity.
Qed.

Lemma wrun_app : forall chunk h1 h2 w,
  wrun chunk w (h1 ++ h2) =
  let '(x1, w1) := wrun chunk w h1 in let '(x2, w2) := wrun chunk w1 h2 in (x1 ++ x2, w2).
Proof.
  induction h1 as [|st t IH]; intros h2 w; cbn [app wrun].
  - destruct (wrun chunk w h2); reflexivity.
  - destruct (wstep chunk w st) as [x w1]. rewrite IH.
    destruct (wrun chunk w1 t) as [x1 w2]. destruct (wrun chunk w2 h2) as [x2 w3]. reflexivity.
Qed.

Lemma srun_not_short : forall hist ss, Forall not_short ss -> Forall not_short (snd (srun ss hist)).
Proof.
  induction hist as [|[[i o] adv] t IH]; intros ss H; cbn [srun]; auto.
  destruct (sapply o i ss) as [x ss1] eqn:Ea.
  assert (H1 : Forall not_short ss1).
  { unfold sapply in Ea. destruct (nth_error ss i) as [s|] eqn:Es; [|injection Ea as <- <-; auto].
    destruct (sstep o s) as [[y s'] new] eqn:Est. injection Ea as <- <-.
    destruct (sstep_not_short _ _ _ _ _ (Forall_nth_error _ _ _ _ _ H Es) Est) as [Hs' Hnew].
    destruct new; [apply Forall_app; split; [apply Forall_set_nth; auto|constructor; auto]|apply Forall_set_nth; auto]. }
  specialize (IH ss1 H1). destruct (srun ss1 t). exact IH.
Qed.

(* ------------------------------------------------------------------ 8. .body twice, then read again *)
Lemma sconv_some : forall s s1 s2, sconv s = (Some s1, s2) -> smode s1 = MHeld /\ scur s1 = 0.
Proof.
  intros s s1 s2 E. unfold sconv in E. destruct (smode s) eqn:Em.
  - destruct (Nat.eqb (scur s) 0); [|discriminate]. injection E as <- _. auto.
  - discriminate.
  - injection E as <- _. auto.
  - injection E as <- _. auto.
  - injection E as <- _. cbn. auto.
Qed.

Lemma body_twice_spec : forall s b s1 n1,
  sstep Body s = (OBytes b, s1, n1) ->
  n1 = None /\ exists s2, sstep Body s1 = (OBytes b, s2, None) /\
                          exists s3, sstep (FileRead None) s2 = (OBytes b, s3, None).
Proof.
  intros s b s1 n1 E. cbn [sstep] in E.
  assert (Hcase : (smode s = MNone /\ b = [] /\ s1 = s /\ n1 = None) \/
                  (exists s', sconv s = (Some s1, s') /\ b = sbody s1 /\ n1 = None)).
  { destruct (smode s) eqn:Em; try (left; injection E as <- <- <-; auto; fail);
      right; destruct (sconv s) as [[t|] t'] eqn:Ec; try discriminate; injection E as <- <- <-; eauto. }
  destruct Hcase as [(Em & -> & -> & ->)|(s' & Ec & -> & ->)].
  - split; auto. exists s. cbn [sstep]. rewrite Em. split; auto. exists s. reflexivity.
  - split; auto. destruct (sconv_some _ _ _ Ec) as [Em1 Ec1].
    exists (s_cur s1 0). cbn [sstep]. unfold sconv. rewrite Em1. cbn [smode s_cur]. rewrite ?Em1.
    split; [cbn; rewrite ?Em1; reflexivity|]. eexists. unfold sread. cbn. rewrite ?Em1. rewrite ?Ec1. reflexivity.
Qed.

Lemma srun_outputs_length : forall hist ss, length (fst (srun ss hist)) = length hist.
Proof.
  induction hist as [|[[j o] adv] t IH]; intros ss; cbn [srun]; auto.
  destruct (sapply o j ss) as [x ss']. specialize (IH ss'). destruct (srun ss' t). cbn in *. lia.
Qed.

Lemma sapply_some : forall o i ss s0 x s',
  nth_error ss i = Some s0 -> sstep o s0 = (x, s', None) -> sapply o i ss = (x, set_nth i s' ss).
Proof. intros o i ss s0 x s' H1 H2. unfold sapply. now rewrite H1, H2. Qed.

Lemma three_steps : forall ss i a1 a2 a3,
  let xs := fst (srun ss [(i, Body, a1); (i, Body, a2); (i, FileRead None, a3)]) in
  forall b, nth_error xs 0 = Some (OBytes b) -> xs = [OBytes b; OBytes b; OBytes b].
Proof.
  intros ss i a1 a2 a3 xs b. unfold xs. clear xs. cbn [srun].
  destruct (nth_error ss i) as [s0|] eqn:Es0.
  - destruct (sstep Body s0) as [[y1 s1] n1] eqn:Eb1.
    assert (Hi : i < length ss) by (apply nth_error_Some; congruence).
    destruct y1 as [b'| | | | |].
    2-6: (unfold sapply at 1; rewrite Es0, Eb1;
          destruct (sapply Body i _) as [y2 ss2]; destruct (sapply (FileRead None) i ss2) as [y3 ss3];
          cbn [fst nth_error]; discriminate).
    destruct (body_twice_spec _ _ _ _ Eb1) as (-> & s2 & Eb2 & s3 & Eb3).
    rewrite (sapply_some _ _ _ _ _ _ Es0 Eb1).
    rewrite (sapply_some _ _ _ _ _ _ (nth_set_nth_eq _ _ _ _ Hi) Eb2).
    assert (Hi2 : i < length (set_nth i s1 ss)) by (rewrite set_nth_length; auto).
    rewrite (sapply_some _ _ _ _ _ _ (nth_set_nth_eq _ _ _ _ Hi2) Eb3).
    cbn [fst nth_error]. intros Hy. injection Hy as ->. reflexivity.
  - unfold sapply at 1. rewrite Es0.
    destruct (sapply Body i ss) as [y2 ss2]. destruct (sapply (FileRead None) i ss2) as [y3 ss3].
    cbn [fst nth_error]. discriminate.
Qed.

Theorem idempotent : forall chunk s c sk tm lg lim hist i a1 a2 a3 b,
  1 <= chunk -> consistent s c sk -> long_enough s c sk ->
  let xs := outputs chunk s c sk tm lg lim (hist ++ [(i, Body, a1); (i, Body, a2); (i, FileRead None, a3)]) in
  nth_error xs (length hist) = Some (OBytes b) ->
  nth_error xs (S (length hist)) = Some (OBytes b) /\
  nth_error xs (S (S (length hist))) = Some (OBytes b).
Proof.
  intros chunk s c sk tm lg lim hist i a1 a2 a3 b Hch Hcons Hlong xs.
  unfold xs. rewrite exact; auto. rewrite srun_app.
  pose proof (srun_outputs_length hist [sinit s c sk tm lg]) as Hlen.
  destruct (srun [sinit s c sk tm lg] hist) as [x1 ss1] eqn:E1. cbn [fst] in Hlen.
  pose proof (three_steps ss1 i a1 a2 a3) as H3. cbv zeta in H3.
  destruct (srun ss1 [(i, Body, a1); (i, Body, a2); (i, FileRead None, a3)]) as [x2 ss2].
  cbn [fst] in *. unfold step in *. rewrite <- Hlen.
  rewrite nth_error_app2 by lia. rewrite Nat.sub_diag. intros Hy.
  rewrite (H3 b Hy).
  split.
  - rewrite nth_error_app2 by lia. replace (S (length x1) - length x1) with 1 by lia. reflexivity.
  - rewrite nth_error_app2 by lia. replace (S (S (length x1)) - length x1) with 2 by lia. reflexivity.
Qed.

(* ------------------------------------------------------------------ 9. setters *)
Theorem setter_cl : forall chunk s c sk tm lg lim hist i b adv r,
  nth_error (wreqs (final chunk s c sk tm lg lim hist)) i <> None ->
  nth_error (wreqs (final chunk s c sk tm lg lim (hist ++ [(i, SetBody b, adv)]))) i = Some r ->
  cl r = Some (Z.of_nat (length b)) /\ seekable r = true.
Proof.
  intros chunk s c sk tm lg lim hist i b adv r Hex H. unfold final in *.
  rewrite wrun_app in H.
  destruct (wrun chunk (init_world s c sk tm lg lim) hist) as [x1 w1] eqn:E1. cbn [snd] in Hex.
  cbn [wrun] in H. unfold wstep in H.
  destruct (nth_error (wreqs w1) i) as [r0|] eqn:Er0; [|congruence].
  cbn [rstep] in H. destruct (set_body b (wheap w1) r0) as [h' r'] eqn:Esb.
  cbn [snd wreqs] in H.
  assert (Hi : i < length (wreqs w1)) by (apply nth_error_Some; congruence).
  rewrite nth_set_nth_eq in H by auto. injection H as <-.
  destruct (set_body_spec _ _ _ _ _ Esb) as (_ & _ & _ & _ & Hcl & Hsk & _). auto.
Qed.

Theorem setter_then_body : forall chunk s c sk tm lg lim hist i b a1 a2,
  1 <= chunk -> consistent s c sk -> long_enough s c sk ->
  nth_error (snd (srun [sinit s c sk tm lg] hist)) i <> None ->
  last_out (outputs chunk s c sk tm lg lim (hist ++ [(i, SetBody b, a1); (i, Body, a2)])) = OBytes b.
Proof.
  intros chunk s c sk tm lg lim hist i b a1 a2 Hch Hcons Hlong Hex.
  rewrite exact; auto. rewrite srun_app.
  destruct (srun [sinit s c sk tm lg] hist) as [x1 ss1] eqn:E1. cbn [snd] in Hex.
  cbn [srun]. unfold sapply at 1.
  destruct (nth_error ss1 i) as [s0|] eqn:Es0; [|congruence].
  assert (Hi : i < length ss1) by (apply nth_error_Some; congruence).
  cbn [sstep]. unfold sapply. rewrite nth_set_nth_eq by auto.
  cbn [sstep smode sconv]. unfold sconv; cbn [smode s_cur sbody fst].
  unfold last_out. change [OBytes []; OBytes b] with ([OBytes []] ++ [OBytes b]).
  rewrite app_assoc, last_last. reflexivity.
Qed.

(* ------------------------------------------------------------------ 10. a copy's body is independent of the original's *)
Definition avoids (i : nat) (hist : list step) : Prop := Forall (fun st => fst (fst st) <> i) hist.

Lemma sapply_other : forall o j ss i, i <> j -> i < length ss ->
  nth_error (snd (sapply o j ss)) i = nth_error ss i /\ length ss <= length (snd (sapply o j ss)).
Proof.
  intros o j ss i Hij Hi. unfold sapply.
  destruct (nth_error ss j) as [s|] eqn:Es; [|cbn; auto].
  destruct (sstep o s) as [[x s'] new]. cbn [snd].
  destruct new; rewrite ?app_length, ?set_nth_length; split; try lia.
  - rewrite nth_error_app1 by (rewrite set_nth_length; auto). apply nth_set_nth_neq; auto.
  - apply nth_set_nth_neq; auto.
Qed.

Lemma srun_other : forall hist ss i, avoids i hist -> i < length ss ->
  nth_error (snd (srun ss hist)) i = nth_error ss i.
Proof.
  induction hist as [|[[j o] adv] t IH]; intros ss i Hav Hi; cbn [srun]; auto.
  inversion Hav as [|? ? Hj Hav']; subst. cbn in Hj.
  destruct (sapply_other o j ss i ltac:(auto) Hi) as [Hn Hl].
  destruct (sapply o j ss) as [x ss1]. cbn [snd] in *.
  specialize (IH ss1 i Hav' ltac:(lia)). destruct (srun ss1 t). cbn [snd] in *. congruence.
Qed.

Theorem copy_independent : forall chunk s c sk tm lg lim hist1 hist2 i a a',
  1 <= chunk -> consistent s c sk -> long_enough s c sk ->
  nth_error (snd (srun [sinit s c sk tm lg] hist1)) i <> None ->
  avoids i hist2 ->
  last_out (outputs chunk s c sk tm lg lim (hist1 ++ hist2 ++ [(i, Body, a')])) =
  last_out (outputs chunk s c sk tm lg lim (hist1 ++ [(i, Body, a)])).
Proof.
  intros chunk s c sk tm lg lim hist1 hist2 i a a' Hch Hcons Hlong Hex Hav.
  rewrite !exact; auto. rewrite !srun_app.
  destruct (srun [sinit s c sk tm lg] hist1) as [x1 ss1] eqn:E1. cbn [snd] in Hex.
  assert (Hi : i < length ss1) by (apply nth_error_Some; auto).
  pose proof (srun_other hist2 ss1 i Hav Hi) as Hsame.
  rewrite srun_app.
  destruct (srun ss1 hist2) as [x2 ss2] eqn:E2. cbn [snd] in Hsame.
  cbn [srun]. unfold sapply. rewrite Hsame.
  destruct (nth_error ss1 i) as [s0|]; [|congruence].
  destruct (sstep Body s0) as [[y s'] new]. cbn [fst].
  unfold last_out. rewrite !app_assoc, !last_last. reflexivity.
Qed.

(* ------------------------------------------------------------------ 11. .body on an input flagged seekable, whatever its length *)
Theorem body_seekable_any : forall chunk s z tm lg lim adv,
  (0 < z)%Z ->
  outputs chunk s (Some z) true tm lg lim [(0, Body, adv)] =
  [if (Z.of_nat (length s) <? z)%Z then ODisc else OBytes (firstn (Z.to_nat z) s)].
Proof.
  intros chunk s z tm lg lim adv Hz.
  assert (E : (0 <? z)%Z = true) by (apply Z.ltb_lt; auto).
  unfold outputs, init_world, init_req. cbn [wrun wstep wreqs wheap nth_error rstep].
  unfold get_body, readable, make_seekable, body_file, readable. cbn [cl seekable inp]. rewrite E. cbn [negb].
  cbn. rewrite firstn_length.
  destruct (Z.of_nat (length s) <? z)%Z eqn:El.
  - apply Z.ltb_lt in El. rewrite Nat.min_r by lia.
    assert (E2 : (Z.of_nat (length s) <? z)%Z = true) by (apply Z.ltb_lt; auto). rewrite E2. reflexivity.
  - apply Z.ltb_ge in El. rewrite Nat.min_l by lia. rewrite Z2Nat.id by lia. rewrite Z.ltb_irrefl. reflexivity.
Qed.
