(* C16 — proofs about Model/C16_signed.v *)
From Coq Require Import ZArith NArith List Bool Lia ZifyBool ZifyNat ZifyN.
Require Import Webob.Lib.Val Webob.Lib.PyStr Webob.Model.C16_signed.
Import ListNotations.
Local Open Scope N_scope.

Ltac Zify.zify_post_hook ::= Z.to_euclidean_division_equations.

(* ------------------------------------------------------------------ lists *)

Lemma list_ind3 {A} (P : list A -> Prop) :
  P [] -> (forall x, P [x]) -> (forall x y, P [x; y]) ->
  (forall x y z r, P r -> P (x :: y :: z :: r)) -> forall l, P l.
Proof.
  intros H0 H1 H2 H3. fix IH 1.
  intros [|x [|y [|z r]]]; [exact H0 | apply H1 | apply H2 | apply H3, IH].
Qed.

Lemma firstn_app_exact {A} (a b : list A) n : length a = n -> firstn n (a ++ b) = a.
Proof.
  intros <-. rewrite firstn_app, firstn_all, Nat.sub_diag. cbn. apply app_nil_r.
Qed.

Lemma skipn_app_exact {A} (a b : list A) n : length a = n -> skipn n (a ++ b) = b.
Proof.
  intros <-. rewrite skipn_app, skipn_all, Nat.sub_diag. reflexivity.
Qed.

Lemma bytes_eqb_refl a : bytes_eqb a a = true.
Proof. induction a as [|x a IH]; cbn; [reflexivity|]. rewrite N.eqb_refl, IH. reflexivity. Qed.

Lemma bytes_eqb_eq a : forall b, bytes_eqb a b = true -> a = b.
Proof.
  induction a as [|x a IH]; intros [|y b] H; cbn in H; try discriminate; [reflexivity|].
  apply andb_true_iff in H as [H1 H2]. apply N.eqb_eq in H1. subst y. f_equal. apply IH, H2.
Qed.

Lemma bytes_eqb_neq a b : a <> b -> bytes_eqb a b = false.
Proof.
  intros H. destruct (bytes_eqb a b) eqn:E; [|reflexivity]. elim H. apply bytes_eqb_eq, E.
Qed.

Lemma drop_while_all f (l m : str) :
  Forall (fun c => f c = true) l -> drop_while f (l ++ m) = drop_while f m.
Proof. induction 1 as [|c l Hc _ IH]; cbn; [reflexivity|]. rewrite Hc. exact IH. Qed.

Lemma rstrip_by_app_all f (a b : str) :
  Forall (fun c => f c = true) b -> rstrip_by f (a ++ b) = rstrip_by f a.
Proof.
  intros H. unfold rstrip_by. rewrite rev_app_distr, drop_while_all; [reflexivity|].
  apply Forall_rev, H.
Qed.

Lemma rstrip_by_none f (a : str) : Forall (fun c => f c = false) a -> rstrip_by f a = a.
Proof.
  intros H. unfold rstrip_by. apply Forall_rev in H.
  destruct (rev a) as [|c r] eqn:E.
  - cbn. rewrite <- (rev_involutive a), E. reflexivity.
  - cbn. inversion H as [|? ? Hc _]; subst. rewrite Hc. rewrite <- E. apply rev_involutive.
Qed.

(* ----------------------------------------------------------------- base64 *)

Definition is_b64url (c : N) : bool :=
  ((65 <=? c) && (c <=? 90)) || ((97 <=? c) && (c <=? 122)) || ((48 <=? c) && (c <=? 57))
  || (c =? 45) || (c =? 95).

Definition bytesP (l : bytes) : Prop := Forall (fun c => c < 256) l.

Lemma b2a_b64url i : is_b64url (b2a i) = true.
Proof.
  unfold b2a, is_b64url.
  destruct (i <? 26) eqn:E1; [lia|]. destruct (i <? 52) eqn:E2; [lia|].
  destruct (i <? 62) eqn:E3; [lia|]. destruct (i =? 62) eqn:E4; reflexivity.
Qed.

Lemma b64url_not_pad c : is_b64url c = true -> (c =? PAD) = false.
Proof. unfold is_b64url, PAD. lia. Qed.

Lemma b64url_in_alphabet c : is_b64url c = true -> exists v, a2b c = Some v /\ v < 64.
Proof.
  unfold is_b64url, a2b. intros H.
  destruct ((65 <=? c) && (c <=? 90)) eqn:E1; [eexists; split; [reflexivity|lia]|].
  destruct ((97 <=? c) && (c <=? 122)) eqn:E2; [eexists; split; [reflexivity|lia]|].
  destruct ((48 <=? c) && (c <=? 57)) eqn:E3; [eexists; split; [reflexivity|lia]|].
  destruct ((c =? 43) || (c =? 45)) eqn:E4; [eexists; split; [reflexivity|lia]|].
  destruct ((c =? 47) || (c =? 95)) eqn:E5; [eexists; split; [reflexivity|lia]|].
  lia.
Qed.

Lemma a2b_b2a i : i < 64 -> a2b (b2a i) = Some i.
Proof.
  intros Hi. unfold b2a.
  destruct (i <? 26) eqn:E1.
  { unfold a2b. replace ((65 <=? 65 + i) && (65 + i <=? 90)) with true by lia. f_equal. lia. }
  destruct (i <? 52) eqn:E2.
  { unfold a2b. replace ((65 <=? 71 + i) && (71 + i <=? 90)) with false by lia.
    replace ((97 <=? 71 + i) && (71 + i <=? 122)) with true by lia. f_equal. lia. }
  destruct (i <? 62) eqn:E3.
  { unfold a2b. replace ((65 <=? i - 4) && (i - 4 <=? 90)) with false by lia.
    replace ((97 <=? i - 4) && (i - 4 <=? 122)) with false by lia.
    replace ((48 <=? i - 4) && (i - 4 <=? 57)) with true by lia. f_equal. lia. }
  destruct (i =? 62) eqn:E4.
  { assert (i = 62) by lia. subst i. reflexivity. }
  assert (i = 63) by lia. subst i. reflexivity.
Qed.

(* one alphabet symbol through the decoder loop *)
Lemma a2b_loop_sym i s q l p : i < 64 ->
  a2b_loop (b2a i :: s) q l p =
  if q =? 0 then a2b_loop s 1 i 0
  else if q =? 1 then option_map (cons (l * 4 + i / 16)) (a2b_loop s 2 (i mod 16) 0)
  else if q =? 2 then option_map (cons (l * 16 + i / 4)) (a2b_loop s 3 (i mod 4) 0)
  else option_map (cons (l * 64 + i)) (a2b_loop s 0 0 0).
Proof.
  intros Hi. cbn [a2b_loop].
  rewrite (b64url_not_pad _ (b2a_b64url i)), (a2b_b2a i Hi). reflexivity.
Qed.

Lemma a2b_loop_group x y z rest l p : x < 256 -> y < 256 -> z < 256 ->
  a2b_loop (b2a (x / 4) :: b2a ((x mod 4) * 16 + y / 16) :: b2a ((y mod 16) * 4 + z / 64)
              :: b2a (z mod 64) :: rest) 0 l p
  = option_map (fun t => x :: y :: z :: t) (a2b_loop rest 0 0 0).
Proof.
  intros Hx Hy Hz.
  rewrite a2b_loop_sym by lia. cbn [N.eqb].
  rewrite a2b_loop_sym by lia. change (1 =? 0) with false. change (1 =? 1) with true. cbv iota.
  rewrite a2b_loop_sym by lia. change (2 =? 0) with false. change (2 =? 1) with false.
  change (2 =? 2) with true. cbv iota.
  rewrite a2b_loop_sym by lia. change (3 =? 0) with false. change (3 =? 1) with false.
  change (3 =? 2) with false. cbv iota.
  replace (x / 4 * 4 + (x mod 4 * 16 + y / 16) / 16) with x by lia.
  replace ((x mod 4 * 16 + y / 16) mod 16 * 16 + (y mod 16 * 4 + z / 64) / 4) with y by lia.
  replace ((y mod 16 * 4 + z / 64) mod 4 * 64 + z mod 64) with z by lia.
  destruct (a2b_loop rest 0 0 0); reflexivity.
Qed.

Lemma b64dec_enc_state bs : bytesP bs -> forall l p, a2b_loop (b64enc bs) 0 l p = Some bs.
Proof.
  induction bs as [| x | x y | x y z r IH] using list_ind3; intros HB l p.
  - reflexivity.
  - inversion HB as [|? ? Hx _]; subst. cbn [b64enc].
    rewrite a2b_loop_sym by lia. cbn [N.eqb].
    rewrite a2b_loop_sym by lia. change (1 =? 0) with false. change (1 =? 1) with true. cbv iota.
    replace (x / 4 * 4 + x mod 4 * 16 / 16) with x by lia. reflexivity.
  - inversion HB as [|? ? Hx HB']; subst. inversion HB' as [|? ? Hy _]; subst. cbn [b64enc].
    rewrite a2b_loop_sym by lia. cbn [N.eqb].
    rewrite a2b_loop_sym by lia. change (1 =? 0) with false. change (1 =? 1) with true. cbv iota.
    rewrite a2b_loop_sym by lia. change (2 =? 0) with false. change (2 =? 1) with false.
    change (2 =? 2) with true. cbv iota.
    replace (x / 4 * 4 + (x mod 4 * 16 + y / 16) / 16) with x by lia.
    replace ((x mod 4 * 16 + y / 16) mod 16 * 16 + y mod 16 * 4 / 4) with y by lia.
    reflexivity.
  - inversion HB as [|? ? Hx HB1]; subst. inversion HB1 as [|? ? Hy HB2]; subst.
    inversion HB2 as [|? ? Hz HB3]; subst.
    cbn [b64enc]. rewrite a2b_loop_group by assumption. rewrite (IH HB3). reflexivity.
Qed.

Lemma b64dec_enc bs : bytesP bs -> b64dec (b64enc bs) = Some bs.
Proof. intros H. apply b64dec_enc_state, H. Qed.

(* shape of an encoding: symbols of the urlsafe alphabet, then 0-2 pads, total a multiple of 4 *)
Lemma b64enc_shape bs : exists body k,
  b64enc bs = body ++ repeat PAD k /\
  Forall (fun c => is_b64url c = true) body /\
  (k < 3)%nat /\ ((length body + k) mod 4 = 0)%nat /\
  length body = ((4 * length bs + 2) / 3)%nat.
Proof.
  induction bs as [| x | x y | x y z r IH] using list_ind3.
  - exists [], 0%nat. cbn. repeat split; auto.
  - exists [b2a (x / 4); b2a (x mod 4 * 16)], 2%nat. cbn [b64enc repeat app length].
    repeat split; auto. repeat constructor; apply b2a_b64url.
  - exists [b2a (x / 4); b2a (x mod 4 * 16 + y / 16); b2a (y mod 16 * 4)], 1%nat.
    cbn [b64enc repeat app length]. repeat split; auto. repeat constructor; apply b2a_b64url.
  - destruct IH as (body & k & E & HF & Hk & Hm & HL).
    exists (b2a (x / 4) :: b2a (x mod 4 * 16 + y / 16) :: b2a (y mod 16 * 4 + z / 64)
              :: b2a (z mod 64) :: body), k.
    cbn [b64enc]. rewrite E. repeat split.
    + repeat constructor; try apply b2a_b64url. exact HF.
    + exact Hk.
    + cbn [length]. lia.
    + cbn [length]. lia.
Qed.

(* .rstrip(b"=") followed by the padding repair of loads gives the padded encoding back *)
Lemma repad_rstrip bs :
  let t := rstrip_by (N.eqb PAD) (b64enc bs) in
  t ++ b64padding t = b64enc bs /\ Forall (fun c => is_b64url c = true) t /\
  length t = ((4 * length bs + 2) / 3)%nat.
Proof.
  destruct (b64enc_shape bs) as (body & k & E & HF & Hk & Hm & HL).
  cbn zeta. rewrite E.
  rewrite rstrip_by_app_all.
  2:{ apply Forall_forall. intros c Hc. apply repeat_spec in Hc. subst c. reflexivity. }
  rewrite rstrip_by_none.
  2:{ eapply Forall_impl; [|exact HF]. intros c Hc. cbv beta.
      rewrite N.eqb_sym. apply b64url_not_pad, Hc. }
  repeat split; [|exact HF|exact HL].
  unfold b64padding. f_equal. f_equal. lia.
Qed.

Lemma decoded_rstrip_enc bs : bytesP bs ->
  decoded (rstrip_by (N.eqb PAD) (b64enc bs)) = Some bs.
Proof.
  intros HB. unfold decoded. destruct (repad_rstrip bs) as (E & _ & _). cbn zeta in E.
  rewrite E. apply b64dec_enc, HB.
Qed.

Lemma latin1_bytes t : Forall (fun c => is_b64url c = true) t -> latin1 t = Some t.
Proof.
  intros H. unfold latin1. replace (forallb is_byte t) with true; [reflexivity|].
  symmetry. apply forallb_forall. intros c Hc. rewrite Forall_forall in H. specialize (H c Hc).
  unfold is_b64url in H. unfold is_byte. lia.
Qed.

(* ------------------------------------------------------- SignedSerializer *)

Section SignedProofs.
  Variable V : Type.
  Variable mac : bytes -> bytes -> bytes.
  Variable dsize : nat.
  Variable ser : V -> bytes.
  Variable deser : bytes -> res V.
  Variable key : bytes.

  Notation dumps := (signed_dumps V mac ser key).
  Notation loads_b := (signed_loads_b V mac dsize deser key).
  Notation loads := (signed_loads V mac dsize deser key).

  (* the octets a correctly signed token for v decodes to *)
  Definition signed_bytes (v : V) : bytes := mac key (ser v) ++ ser v.

  (* --- facts that need no assumption on mac / ser / deser at all --- *)

  Lemma loads_b_accept t v :
    loads_b t = Ok v ->
    exists c, decoded t = Some (mac key c ++ c) /\ deser c = Ok v.
  Proof.
    unfold signed_loads_b. destruct (decoded t) as [f|]; [|discriminate].
    destruct (bytes_eqb (mac key (skipn dsize f)) (firstn dsize f)) eqn:E; [|discriminate].
    intros Hd. exists (skipn dsize f). split; [|exact Hd].
    apply bytes_eqb_eq in E. rewrite E, firstn_skipn. reflexivity.
  Qed.

  Lemma loads_accept t v :
    loads t = Ok v ->
    exists b c, latin1 t = Some b /\ decoded b = Some (mac key c ++ c) /\ deser c = Ok v.
  Proof.
    unfold signed_loads. destruct (latin1 t) as [b|]; [|discriminate].
    intros H. apply loads_b_accept in H as (c & H1 & H2). exists b, c. auto.
  Qed.

  Lemma loads_b_same_decoding t1 t2 : decoded t1 = decoded t2 -> loads_b t1 = loads_b t2.
  Proof. unfold signed_loads_b. intros ->. reflexivity. Qed.

  Lemma loads_b_undecodable t : decoded t = None -> loads_b t = ValueError.
  Proof. unfold signed_loads_b. intros ->. reflexivity. Qed.

  Lemma loads_not_latin1 t : latin1 t = None -> loads t = ValueError.
  Proof. unfold signed_loads. intros ->. reflexivity. Qed.

  (* altering the tag only: rejected whatever the mac is *)
  Lemma loads_b_bad_tag t e c :
    decoded t = Some (e ++ c) -> length e = dsize -> e <> mac key c -> loads_b t = ValueError.
  Proof.
    intros Hd Hl Hne. unfold signed_loads_b. rewrite Hd.
    rewrite (skipn_app_exact e c dsize Hl), (firstn_app_exact e c dsize Hl).
    rewrite bytes_eqb_neq; [reflexivity|]. intros E. apply Hne. symmetry. exact E.
  Qed.

  (* --- facts that use the digest length --- *)
  Hypothesis mac_len : forall k m, length (mac k m) = dsize.

  Lemma loads_b_of_signed t c : decoded t = Some (mac key c ++ c) -> loads_b t = deser c.
  Proof.
    intros Hd. unfold signed_loads_b. rewrite Hd.
    rewrite (skipn_app_exact _ c dsize (mac_len key c)), (firstn_app_exact _ c dsize (mac_len key c)).
    rewrite bytes_eqb_refl. reflexivity.
  Qed.

  (* a token that decodes to fewer octets than a digest is rejected *)
  Lemma loads_b_short t f : decoded t = Some f -> (length f < dsize)%nat -> loads_b t = ValueError.
  Proof.
    intros Hd Hl. unfold signed_loads_b. rewrite Hd.
    rewrite bytes_eqb_neq; [reflexivity|]. intros E.
    assert (L : length (mac key (skipn dsize f)) = length (firstn dsize f)) by (rewrite E; reflexivity).
    rewrite mac_len, firstn_length in L. lia.
  Qed.

  Hypothesis deser_ser : forall v, deser (ser v) = Ok v.

  Lemma same_bytes_same_value t v : decoded t = Some (signed_bytes v) -> loads_b t = Ok v.
  Proof. intros Hd. rewrite (loads_b_of_signed t (ser v) Hd). apply deser_ser. Qed.

  (* returning anything but the signed value needs a valid tag on a message never signed *)
  Lemma never_other_value t v v' :
    loads_b t = Ok v' ->
    v' = v \/ exists c, c <> ser v /\ decoded t = Some (mac key c ++ c) /\ deser c = Ok v'.
  Proof.
    intros H. apply loads_b_accept in H as (c & Hd & Hv).
    destruct (list_eq_dec N.eq_dec c (ser v)) as [E|NE].
    - left. subst c. rewrite deser_ser in Hv. inversion Hv. reflexivity.
    - right. exists c. auto.
  Qed.

  (* the statement of the property, with the cryptographic assumption made explicit: the party
     that produced t cannot exhibit a valid tag for any message other than the one signed *)
  Lemma integrity_under_unforgeability t v :
    (forall c, c <> ser v -> decoded t <> Some (mac key c ++ c)) ->
    (decoded t = Some (signed_bytes v) -> loads_b t = Ok v) /\
    (decoded t <> Some (signed_bytes v) -> loads_b t = ValueError) /\
    (forall v', loads_b t = Ok v' -> v' = v).
  Proof.
    intros UF. split; [apply same_bytes_same_value|]. split.
    - intros Hne. destruct (loads_b t) as [v'|] eqn:E; [|reflexivity].
      apply loads_b_accept in E as (c & Hd & Hv).
      destruct (list_eq_dec N.eq_dec c (ser v)) as [Ec|NE].
      + subst c. elim Hne. exact Hd.
      + elim (UF c NE Hd).
    - intros v' E. destruct (never_other_value t v v' E) as [|(c & NE & Hd & _)]; [assumption|].
      elim (UF c NE Hd).
  Qed.

  Hypothesis mac_bytes : forall k m, bytesP (mac k m).
  Hypothesis ser_bytes : forall v, bytesP (ser v).

  Lemma decoded_dumps v : decoded (dumps v) = Some (signed_bytes v).
  Proof.
    unfold signed_dumps. apply decoded_rstrip_enc. apply Forall_app. split; [apply mac_bytes|apply ser_bytes].
  Qed.

  Lemma dumps_alphabet v : Forall (fun c => is_b64url c = true) (dumps v).
  Proof. unfold signed_dumps. apply (repad_rstrip (mac key (ser v) ++ ser v)). Qed.

  Lemma dumps_length v : length (dumps v) = ((4 * (dsize + length (ser v)) + 2) / 3)%nat.
  Proof.
    unfold signed_dumps. destruct (repad_rstrip (mac key (ser v) ++ ser v)) as (_ & _ & L).
    cbn zeta in L. rewrite L, app_length, mac_len. reflexivity.
  Qed.

  Lemma roundtrip_b v : loads_b (dumps v) = Ok v.
  Proof. apply same_bytes_same_value, decoded_dumps. Qed.

  Lemma roundtrip v : loads (dumps v) = Ok v.
  Proof. unfold signed_loads. rewrite (latin1_bytes _ (dumps_alphabet v)). apply roundtrip_b. Qed.

  (* the altered token t' of an issued token: accepted with v iff same octets, and any other
     acceptance exhibits a forged tag *)
  Lemma altered_token v t' :
    (decoded t' = decoded (dumps v) -> loads_b t' = Ok v) /\
    (forall v', loads_b t' = Ok v' ->
       v' = v \/ exists c, c <> ser v /\ decoded t' = Some (mac key c ++ c) /\ deser c = Ok v').
  Proof.
    split.
    - rewrite decoded_dumps. apply same_bytes_same_value.
    - intros v'. apply never_other_value.
  Qed.

  (* two issued tokens never decode to the same octets unless they are the same token *)
  Lemma issued_tokens_distinct v1 v2 :
    decoded (dumps v1) = decoded (dumps v2) -> dumps v1 = dumps v2.
  Proof.
    rewrite !decoded_dumps. intros E. inversion E as [E']. unfold signed_dumps.
    unfold signed_bytes in E'. rewrite E'. reflexivity.
  Qed.
End SignedProofs.

(* a token issued under another configuration (secret / salt / digest) *)
Section OtherConfig.
  Variable V : Type.
  Variable ser : V -> bytes.
  Variable deser : bytes -> res V.
  Variable mac1 mac2 : bytes -> bytes -> bytes.
  Variable d1 d2 : nat.
  Variable k1 k2 : bytes.
  Hypothesis mac1_len : forall k m, length (mac1 k m) = d1.
  Hypothesis mac2_len : forall k m, length (mac2 k m) = d2.
  Hypothesis mac1_bytes : forall k m, bytesP (mac1 k m).
  Hypothesis ser_bytes : forall v, bytesP (ser v).
  Hypothesis deser_ser : forall v, deser (ser v) = Ok v.

  (* accepted only if the foreign tag+payload happens to be a valid pair under the loader's key *)
  Lemma other_config v v' :
    signed_loads_b V mac2 d2 deser k2 (signed_dumps V mac1 ser k1 v) = Ok v' ->
    exists c, mac1 k1 (ser v) ++ ser v = mac2 k2 c ++ c /\ deser c = Ok v'.
  Proof.
    intros H. apply loads_b_accept in H as (c & Hd & Hv).
    rewrite (decoded_dumps V mac1 ser k1 mac1_bytes ser_bytes v) in Hd.
    inversion Hd as [E]. exists c. split; [exact E|exact Hv].
  Qed.

  (* same digest, different key: rejected unless both keys give the very same tag *)
  Lemma other_key v : d1 = d2 ->
    mac2 k2 (ser v) <> mac1 k1 (ser v) ->
    signed_loads_b V mac2 d2 deser k2 (signed_dumps V mac1 ser k1 v) = ValueError.
  Proof.
    intros Ed Hne.
    apply (loads_b_bad_tag V mac2 d2 deser k2 _ (mac1 k1 (ser v)) (ser v)).
    - apply (decoded_dumps V mac1 ser k1 mac1_bytes ser_bytes v).
    - rewrite mac1_len. exact Ed.
    - intros E. apply Hne. symmetry. exact E.
  Qed.
End OtherConfig.

(* ------------------------------------------------------ Base64Serializer *)
Section B64Ser.
  Variable V : Type.
  Variable ser : V -> bytes.
  Variable deser : bytes -> res V.
  Hypothesis ser_bytes : forall v, bytesP (ser v).
  Hypothesis deser_ser : forall v, deser (ser v) = Ok v.

  Lemma b64ser_roundtrip v : b64ser_loads V deser (b64ser_dumps V ser v) = Ok v.
  Proof.
    unfold b64ser_loads, b64ser_dumps.
    assert (L : latin1 (b64enc (ser v)) = Some (b64enc (ser v))).
    { unfold latin1. replace (forallb is_byte (b64enc (ser v))) with true; [reflexivity|].
      symmetry. apply forallb_forall. intros c Hc.
      destruct (b64enc_shape (ser v)) as (body & k & E & HF & _). rewrite E in Hc.
      apply in_app_or in Hc as [Hc|Hc].
      - rewrite Forall_forall in HF. specialize (HF c Hc). unfold is_b64url in HF. unfold is_byte. lia.
      - apply repeat_spec in Hc. subst c. reflexivity. }
    rewrite L, (b64dec_enc _ (ser_bytes v)). apply deser_ser.
  Qed.
End B64Ser.

(* ------------------------------------------------------------ CookieProfile *)
Section ProfileProofs.
  Variable V : Type.
  Variable loads : str -> res V.
  Variable dumps : V -> bytes.

  Lemma get_value_none c : loads c = ValueError -> get_value_bound V loads (JarValue c) = None.
  Proof. cbn. intros ->. reflexivity. Qed.

  Lemma get_value_some j v :
    get_value_bound V loads j = Some v -> exists c, j = JarValue c /\ loads c = Ok v.
  Proof.
    destruct j as [| |c]; cbn; try discriminate.
    destruct (loads c) as [v'|] eqn:E; [|discriminate]. intros H. inversion H. subst. eauto.
  Qed.

  Lemma get_value_total j : get_value V loads (Some j) = Ok (get_value_bound V loads j).
  Proof. reflexivity. Qed.

  Variable mk : option str -> bytes -> str.

  Lemma limit_refused doms v :
    (4093 < length (dumps v))%nat -> get_headers V dumps mk doms v = ValueError.
  Proof. intros H. unfold get_headers. replace (4093 <? length (dumps v))%nat with true by lia. reflexivity. Qed.

  Lemma limit_accepted doms v :
    (length (dumps v) <= 4093)%nat ->
    exists h hs, get_headers V dumps mk doms v = Ok (h :: hs) /\
                 forall x, In x (h :: hs) -> exists d, x = mk d (dumps v).
  Proof.
    intros H. unfold get_headers. replace (4093 <? length (dumps v))%nat with false by lia.
    destruct doms as [|d ds].
    - exists (mk None (dumps v)), []. split; [reflexivity|]. intros x [<-|[]]. eauto.
    - exists (mk (Some d) (dumps v)), (map (fun d => mk (Some d) (dumps v)) ds).
      split; [reflexivity|]. intros x [<-|Hx]; [eauto|].
      apply in_map_iff in Hx as (d' & <- & _). eauto.
  Qed.
End ProfileProofs.

(* ------------------------------------------------- SignedCookieProfile *)
Section SignedProfileProofs.
  Variable V : Type.
  Variable mac : bytes -> bytes -> bytes.
  Variable dsize : nat.
  Variable ser : V -> bytes.
  Variable deser : bytes -> res V.
  Hypothesis mac_len : forall k m, length (mac k m) = dsize.
  Hypothesis mac_bytes : forall k m, bytesP (mac k m).
  Hypothesis ser_bytes : forall v, bytesP (ser v).
  Hypothesis deser_ser : forall v, deser (ser v) = Ok v.

  (* The browser leg: what request.cookies.get(name) yields when the Set-Cookie value h is echoed
     back as "Cookie: name=value".  That make_cookie emits, and the Cookie parser returns, a value
     made of base64url symbols unchanged is C07's theorem (C07_pair_roundtrip); here it is the
     stated law of the section, validated on the real code by this property's oracle sweep. *)
  Variable echo : str -> str -> jar.
  Variable good_name : str -> Prop.
  Hypothesis echo_plain : forall name dom tok,
    good_name name -> Forall (fun c => is_b64url c = true) tok ->
    echo name (mk_cookie_plain name dom tok) = JarValue tok.

  Lemma profile_roundtrip p v key :
    good_name (sp_name p) ->
    salted_secret (sp_salt p) (sp_secret p) = Some key ->
    (length (signed_dumps V mac ser key v) <= 4093)%nat ->
    exists h hs,
      sp_get_headers V mac ser p v = Some (Ok (h :: hs)) /\
      forall x, In x (h :: hs) ->
        sp_get_value V mac dsize deser (sp_bind p (echo (sp_name p) x)) = Some (Ok (Some v)).
  Proof.
    intros Hn Hk Hl. unfold sp_get_headers, sp_get_value. cbn [sp_bind sp_salt sp_secret sp_request].
    rewrite Hk.
    destruct (limit_accepted V (signed_dumps V mac ser key) (mk_cookie_plain (sp_name p)) (sp_domains p) v Hl)
      as (h & hs & E & Hall).
    exists h, hs. split; [rewrite E; reflexivity|].
    intros x Hx. destruct (Hall x Hx) as (d & ->).
    rewrite (echo_plain _ d _ Hn (dumps_alphabet V mac ser key v)).
    cbn [get_value get_value_bound].
    rewrite (roundtrip V mac dsize ser deser key mac_len deser_ser mac_bytes ser_bytes v). reflexivity.
  Qed.

  Lemma profile_refuses_long p v key :
    salted_secret (sp_salt p) (sp_secret p) = Some key ->
    (4093 < (4 * (dsize + length (ser v)) + 2) / 3)%nat ->
    sp_get_headers V mac ser p v = Some ValueError.
  Proof.
    intros Hk Hl. unfold sp_get_headers. rewrite Hk. f_equal.
    apply limit_refused. rewrite (dumps_length V mac dsize ser key mac_len). exact Hl.
  Qed.

  (* a bound signed profile never yields a value without a full-length valid tag over exactly
     the octets deserialised; an undecodable Cookie header or a rejected token gives None *)
  Lemma profile_get_value_sound p j v' key :
    salted_secret (sp_salt p) (sp_secret p) = Some key ->
    sp_get_value V mac dsize deser (sp_bind p j) = Some (Ok (Some v')) ->
    exists t b c, j = JarValue t /\ latin1 t = Some b /\
                  decoded b = Some (mac key c ++ c) /\ deser c = Ok v'.
  Proof.
    intros Hk. unfold sp_get_value. cbn [sp_bind sp_salt sp_secret sp_request]. rewrite Hk.
    cbn [get_value]. intros H. inversion H as [H'].
    apply get_value_some in H' as (t & -> & Hl).
    apply loads_accept in Hl as (b & c & H1 & H2 & H3). exists t, b, c. auto.
  Qed.
End SignedProfileProofs.

(* -------------------------------------------------------- salted secret *)

Lemma salted_secret_latin1 salt secret :
  forallb is_byte salt = true -> forallb is_byte secret = true ->
  salted_secret salt secret = Some (salt ++ secret).
Proof. intros H1 H2. unfold salted_secret, latin1. rewrite H1, H2. reflexivity. Qed.

(* -------------------------------------- a concrete instance (for Examples) *)
Definition toy_mac (k m : bytes) : bytes := [N.of_nat (length k + length m) mod 256].
Definition toy_ser (n : nat) : bytes := repeat 65 n.
Definition toy_deser (c : bytes) : res nat := Ok (length c).

Lemma toy_mac_len k m : length (toy_mac k m) = 1%nat.
Proof. reflexivity. Qed.
Lemma toy_mac_bytes k m : bytesP (toy_mac k m).
Proof. unfold toy_mac. repeat constructor. lia. Qed.
Lemma toy_ser_bytes v : bytesP (toy_ser v).
Proof. apply Forall_forall. intros c Hc. apply repeat_spec in Hc. subst c. lia. Qed.
Lemma toy_deser_ser v : toy_deser (toy_ser v) = Ok v.
Proof. unfold toy_deser, toy_ser. rewrite repeat_length. reflexivity. Qed.

(* ------------------------------------------- pair level: (salt, secret) vs key *)
(* What the theorems above call "another key" is another KEY OCTET STRING giving another tag.  At the level of
   (salt, secret) PAIRS the claim "a token of a different pair is rejected" is false: the key is the plain
   concatenation of the encoded parts, so distinct pairs can share one key. *)

(* keys that the mac does not distinguish (HMAC: keys equal up to trailing NULs; a key longer than the block and
   its hash) are one key for dumps/loads *)
Lemma equivalent_keys_accepted (V : Type) (mac : bytes -> bytes -> bytes) (dsize : nat) (ser : V -> bytes)
      (deser : bytes -> res V) (k1 k2 : bytes) :
  (forall k m, length (mac k m) = dsize) -> (forall v, deser (ser v) = Ok v) ->
  (forall k m, bytesP (mac k m)) -> (forall v, bytesP (ser v)) ->
  (forall m, mac k1 m = mac k2 m) ->
  forall v, signed_loads V mac dsize deser k2 (signed_dumps V mac ser k1 v) = Ok v.
Proof.
  intros ML DS MB SB E v.
  replace (signed_dumps V mac ser k1 v) with (signed_dumps V mac ser k2 v)
    by (unfold signed_dumps; rewrite E; reflexivity).
  apply roundtrip; assumption.
Qed.

(* the pair-level statement, refuted by computation: salt "a" + secret "bc" and salt "ab" + secret "c" *)
Lemma pair_level_refuted_boundary :
  exists salt1 secret1 salt2 secret2 key,
    (salt1, secret1) <> (salt2, secret2) /\
    salted_secret salt1 secret1 = Some key /\ salted_secret salt2 secret2 = Some key /\
    forall (V : Type) (mac : bytes -> bytes -> bytes) (dsize : nat) (ser : V -> bytes) (deser : bytes -> res V),
      (forall k m, length (mac k m) = dsize) -> (forall v, deser (ser v) = Ok v) ->
      (forall k m, bytesP (mac k m)) -> (forall v, bytesP (ser v)) ->
      forall v, signed_loads V mac dsize deser key (signed_dumps V mac ser key v) = Ok v.
Proof.
  exists [97], [98; 99], [97; 98], [99], [97; 98; 99].
  split; [discriminate|]. split; [reflexivity|]. split; [reflexivity|].
  intros V mac dsize ser deser ML DS MB SB v. apply roundtrip; assumption.
Qed.

(* same secret "b", two different salts: U+03B1 (utf-8 fallback: CE B1) and the latin-1 text U+00CE U+00B1 *)
Lemma pair_level_refuted_encoding :
  exists salt1 salt2 secret key,
    salt1 <> salt2 /\
    salted_secret salt1 secret = Some key /\ salted_secret salt2 secret = Some key.
Proof.
  exists [945], [206; 177], [98], [206; 177; 98].
  split; [discriminate|]. split; reflexivity.
Qed.
