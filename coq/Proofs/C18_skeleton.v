(* C18 — no slot can introduce an element, attribute or comment boundary. *)
From Coq Require Import NArith List Bool Lia ZifyBool ZifyNat ZifyN String Ascii.
Require Import Webob.Lib.Val Webob.Lib.PyStr Webob.Model.C18_ExcBody Webob.Spec.C18_HtmlTok
               Webob.Spec.C18_Flat Webob.Proofs.C18_escape.
Import ListNotations.
Local Open Scope N_scope.

(* ------------------------------------------------------------------ str_eqb *)
Lemma str_eqb_eq : forall a b, str_eqb a b = true -> a = b.
Proof.
  induction a as [|x a IH]; intros [|y b] H; cbn in H; try discriminate; auto.
  apply andb_true_iff in H as [H1 H2]. apply N.eqb_eq in H1. f_equal; auto.
Qed.

Lemma str_eqb_refl : forall a, str_eqb a a = true.
Proof. induction a; cbn; auto. rewrite N.eqb_refl; auto. Qed.

(* ------------------------------------------------------------------ tokenizer facts *)
Lemma step_stay : forall st c, (st = Data \/ st = DQ \/ st = SQ) -> safe_c c = true -> step st c = (st, []).
Proof.
  intros st c Hst Hc. unfold safe_c in Hc.
  destruct Hst as [-> | [-> | ->]]; cbn [step].
  - destruct (c =? 60) eqn:E; [lia | reflexivity].
  - destruct (c =? 34) eqn:E; [lia | reflexivity].
  - destruct (c =? 39) eqn:E; [lia | reflexivity].
Qed.

Lemma step_cm_safe : forall st c, is_cm st = true -> safe_c c = true ->
  is_cm (fst (step st c)) = true /\ snd (step st c) = [].
Proof.
  intros st c Hst Hc. unfold safe_c in Hc.
  destruct st; try discriminate; cbn [step];
    destruct (c =? 62) eqn:E1; try lia;
    destruct (c =? 45) eqn:E2; try (split; reflexivity);
    destruct (c =? 33) eqn:E3; split; reflexivity.
Qed.

Lemma step_cm_reset : forall st c, is_cm st = true -> reset_c c = true -> step st c = (Cm0, []).
Proof.
  intros st c Hst Hc. unfold reset_c in Hc.
  destruct st; try discriminate; cbn [step];
    destruct (c =? 62) eqn:E1; try lia;
    destruct (c =? 45) eqn:E2; try lia;
    destruct (c =? 33) eqn:E3; try lia; reflexivity.
Qed.

Lemma run_app : forall a b st,
  run st (a ++ b) = let (s1, e1) := run st a in let (s2, e2) := run s1 b in (s2, e1 ++ e2).
Proof.
  induction a as [|c a IH]; intros b st; cbn [run app].
  - destruct (run st b); reflexivity.
  - destruct (step st c) as [st' e]. rewrite IH.
    destruct (run st' a) as [s1 e1]. destruct (run s1 b) as [s2 e2]. rewrite app_assoc. reflexivity.
Qed.

Lemma run_stay : forall s st, (st = Data \/ st = DQ \/ st = SQ) -> safe s = true -> run st s = (st, []).
Proof.
  induction s as [|c s IH]; intros st Hst Hs; cbn [run]; auto.
  cbn [safe forallb] in Hs. apply andb_true_iff in Hs as [Hc Hs].
  rewrite (step_stay st c Hst Hc). rewrite (IH st Hst Hs). reflexivity.
Qed.

Lemma run_cm_safe : forall s st, is_cm st = true -> safe s = true ->
  exists st', run st s = (st', []) /\ is_cm st' = true.
Proof.
  induction s as [|c s IH]; intros st Hst Hs; cbn [run].
  - exists st; auto.
  - cbn [safe forallb] in Hs. apply andb_true_iff in Hs as [Hc Hs].
    destruct (step_cm_safe st c Hst Hc) as [H1 H2].
    destruct (step st c) as [st1 e1]. cbn [fst snd] in H1, H2. subst e1.
    destruct (IH st1 H1 Hs) as [st' [E C]]. rewrite E. exists st'; auto.
Qed.

Lemma run_cm_reset_head : forall st c x, is_cm st = true -> reset_c c = true ->
  run st (c :: x) = run Cm0 (c :: x).
Proof.
  intros st c x Hst Hc. cbn [run].
  rewrite (step_cm_reset st c Hst Hc), (step_cm_reset Cm0 c eq_refl Hc). reflexivity.
Qed.

Lemma fsubst_cons_c : forall c r f, fsubst (FC c :: r) f = c :: fsubst r f.
Proof. reflexivity. Qed.
Lemma fsubst_cons_s : forall id r f, fsubst (FS id :: r) f = f id ++ fsubst r f.
Proof. reflexivity. Qed.
Lemma fsubst_app : forall a b f, fsubst (a ++ b) f = fsubst a f ++ fsubst b f.
Proof. intros; unfold fsubst; apply flat_map_app. Qed.
Lemma fsubst_lit : forall s f, fsubst (map FC s) f = s.
Proof. intros s f. unfold fsubst. induction s as [|c s IH]; cbn [map flat_map app]; [reflexivity | rewrite IH; reflexivity]. Qed.

(* THE structural lemma: in a well-formed template the whole tokenizer run (final state and every
   boundary event) is independent of the safe text put into the slots *)
Lemma wf_run : forall its st f g,
  wf st its = true ->
  (forall id, In (FS id) its -> safe (f id) = true) ->
  (forall id, In (FS id) its -> safe (g id) = true) ->
  run st (fsubst its f) = run st (fsubst its g).
Proof.
  induction its as [|it r IH]; intros st f g Hwf Hf Hg; [reflexivity|].
  assert (Hf' : forall id, In (FS id) r -> safe (f id) = true) by (intros; apply Hf; right; auto).
  assert (Hg' : forall id, In (FS id) r -> safe (g id) = true) by (intros; apply Hg; right; auto).
  destruct it as [c|id].
  - rewrite !fsubst_cons_c. cbn [run]. cbn [wf] in Hwf.
    destruct (step st c) as [st' e]. cbn [fst] in Hwf.
    rewrite (IH st' f g Hwf Hf' Hg'). reflexivity.
  - rewrite !fsubst_cons_s, !run_app.
    assert (Sf : safe (f id) = true) by (apply Hf; left; auto).
    assert (Sg : safe (g id) = true) by (apply Hg; left; auto).
    cbn [wf] in Hwf.
    assert (Hcase : (st = Data \/ st = DQ \/ st = SQ) \/ is_cm st = true).
    { destruct st; cbn [is_cm] in Hwf; try discriminate; auto. }
    destruct Hcase as [Hst | Hcm].
    + rewrite (run_stay (f id) st Hst Sf), (run_stay (g id) st Hst Sg).
      assert (Hwf' : wf st r = true) by (destruct Hst as [-> | [-> | ->]]; exact Hwf).
      rewrite (IH st f g Hwf' Hf' Hg'). reflexivity.
    + assert (Hr : exists c r', r = FC c :: r' /\ reset_c c = true /\ wf Cm0 r = true).
      { destruct st; cbn [is_cm] in Hcm, Hwf; try discriminate;
          (destruct r as [|[c|id'] r']; try discriminate;
           apply andb_true_iff in Hwf as [H1 H2]; exists c, r'; auto). }
      destruct Hr as [c [r' [-> [Hc Hwf0]]]].
      destruct (run_cm_safe (f id) st Hcm Sf) as [s1 [E1 C1]].
      destruct (run_cm_safe (g id) st Hcm Sg) as [s2 [E2 C2]].
      rewrite E1, E2. rewrite !fsubst_cons_c.
      rewrite (run_cm_reset_head s1 c _ C1 Hc), (run_cm_reset_head s2 c _ C2 Hc).
      rewrite <- !fsubst_cons_c. rewrite (IH Cm0 f g Hwf0 Hf' Hg'). reflexivity.
Qed.

(* ------------------------------------------------------------------ Template parsing: names are identifiers *)
Lemma take_while_all : forall f s, forallb f (take_while f s) = true.
Proof. induction s as [|c s IH]; cbn; auto. destruct (f c) eqn:E; cbn; auto. rewrite E; auto. Qed.

Definition item_ok (it : item) : Prop :=
  match it with C _ => True | V n _ => forallb is_idc n = true end.

Lemma tmpl_scan_ok : forall s skip, Forall item_ok (tmpl_scan skip s).
Proof.
  induction s as [|c r IH]; intros skip; cbn [tmpl_scan]; [constructor|].
  destruct skip as [|k]; [|apply IH].
  destruct (c =? 36); [|constructor; [exact I | apply IH]].
  destruct r as [|d r']; [repeat constructor|].
  destruct (d =? 36); [constructor; [exact I | apply IH]|].
  destruct (is_id_start d).
  - constructor; [apply take_while_all | apply IH].
  - destruct (d =? 123); [|constructor; [exact I | apply IH]].
    destruct (take_while is_idc r') as [|n0 nm'] eqn:E; [constructor; [exact I | apply IH]|].
    destruct (is_id_start n0 && (nth (List.length (n0 :: nm')) r' 0 =? 125)).
    + constructor; [|apply IH]. cbn [item_ok]. rewrite <- E. apply take_while_all.
    + constructor; [exact I | apply IH].
Qed.

Lemma idc_safe : forall c, is_idc c = true -> safe_c c = true.
Proof. unfold is_idc, is_id_start, safe_c; intros; lia. Qed.

Lemma safe_app : forall a b, safe (a ++ b) = safe a && safe b.
Proof. intros; unfold safe; apply forallb_app. Qed.

Lemma raw_safe : forall n b, forallb is_idc n = true -> safe (raw n b) = true.
Proof.
  intros n b H. assert (Hn : safe n = true).
  { unfold safe. apply forallb_forall. intros c Hc. apply idc_safe.
    rewrite forallb_forall in H. auto. }
  unfold raw. destruct b.
  - change (36 :: 123 :: n ++ [125]) with ([36; 123] ++ n ++ [125]).
    rewrite !safe_app, Hn. reflexivity.
  - change (36 :: n) with ([36] ++ n). rewrite safe_app, Hn. reflexivity.
Qed.

(* ------------------------------------------------------------------ html_body is the flat document *)
Lemma base_args_hc : forall esc cl i,
  base_args esc cl i hc_name = Some (html_comment esc (i_comment i)).
Proof. reflexivity. Qed.

Lemma inner_bridge : forall cl i its,
  subst its (args html_escape cl i) = fsubst (flat_inner (shape cl i) its) (hval cl i).
Proof.
  intros cl i. induction its as [|it r IH]; [reflexivity|].
  unfold subst, flat_inner in *. cbn [flat_map]. rewrite fsubst_app, <- IH. f_equal.
  destruct it as [c|n b]; [reflexivity|].
  cbn [flat_inner_item subst_item].
  destruct (str_eqb n hc_name && shape cl i) eqn:E.
  - apply andb_true_iff in E as [En Es]. apply str_eqb_eq in En. subst n.
    rewrite !fsubst_app, !fsubst_lit. cbn [fsubst flat_map hval]. rewrite app_nil_r.
    unfold shape in Es. apply andb_true_iff in Es as [Hne Hov].
    assert (Ha : args html_escape cl i hc_name = Some (html_comment html_escape (i_comment i))).
    { unfold args. destruct (c_custom cl); [|apply base_args_hc].
      destruct (override i hc_name); [discriminate Hov | apply base_args_hc]. }
    rewrite Ha. unfold html_comment. rewrite Hne. reflexivity.
  - cbn [fsubst flat_map hval]. rewrite app_nil_r. reflexivity.
Qed.

Lemma outer_bridge : forall its status inner body f,
  fsubst inner f = body ->
  subst_strict its (fun n => if str_eqb n (A "title") then None else outer_args status [] body n)
  = option_map (fun l => fsubst l f) (flat_outer status inner its).
Proof.
  intros its status inner body f Hb. induction its as [|it r IH]; [reflexivity|].
  cbn [subst_strict flat_outer]. destruct it as [c|n b].
  - rewrite IH. cbn [flat_outer_item]. destruct (flat_outer status inner r); reflexivity.
  - rewrite IH. cbn [flat_outer_item]. unfold outer_args.
    destruct (str_eqb n (A "title")); [reflexivity|].
    destruct (str_eqb n (A "status")).
    + destruct (flat_outer status inner r); cbn [option_map]; [|reflexivity].
      rewrite fsubst_app, fsubst_lit. reflexivity.
    + destruct (str_eqb n (A "body")); [|reflexivity].
      destruct (flat_outer status inner r); cbn [option_map]; [|reflexivity].
      rewrite fsubst_app, Hb. reflexivity.
Qed.

Lemma html_body_flat : forall cfg cl i,
  html_body cfg cl i = option_map (fun l => fsubst l (hval cl i)) (flat cfg cl (shape cl i)).
Proof.
  intros. unfold html_body, flat. apply outer_bridge.
  unfold make_body. symmetry. apply inner_bridge.
Qed.

(* ------------------------------------------------------------------ the slots of the flat document *)
Lemma in_map_FC : forall id s, ~ In (FS id) (map FC s).
Proof. induction s; cbn; intuition discriminate. Qed.

Lemma flat_inner_slots : forall sh its id, In (FS id) (flat_inner sh its) ->
  id = SComment \/ exists n b, id = SV n b /\ In (V n b) its /\ str_eqb n hc_name && sh = false.
Proof.
  intros sh. induction its as [|it r IH]; intros id H; [destruct H|].
  unfold flat_inner in H. cbn [flat_map] in H. apply in_app_or in H as [H|H].
  - destruct it as [c|n b]; cbn [flat_inner_item] in H.
    + destruct H as [H|[]]; discriminate.
    + destruct (str_eqb n hc_name && sh) eqn:E.
      * apply in_app_or in H as [H|H]; [exfalso; eapply in_map_FC; eauto|].
        apply in_app_or in H as [H|H]; [|exfalso; eapply in_map_FC; eauto].
        destruct H as [H|[]]. inversion H. auto.
      * destruct H as [H|[]]. inversion H. right. exists n, b. repeat split; auto. left; auto.
  - destruct (IH id H) as [->|[n [b [-> [Hin E]]]]]; auto.
    right. exists n, b. repeat split; auto. right; auto.
Qed.

Lemma flat_outer_slots : forall status inner its l id,
  flat_outer status inner its = Some l -> In (FS id) l -> In (FS id) inner.
Proof.
  intros status inner. induction its as [|it r IH]; intros l id H Hin; cbn [flat_outer] in H.
  - inversion H; subst; destruct Hin.
  - destruct (flat_outer_item status inner it) as [a|] eqn:Ea; [|discriminate].
    destruct (flat_outer status inner r) as [b|] eqn:Eb; [|discriminate].
    inversion H; subst. apply in_app_or in Hin as [Hin|Hin]; [|eapply IH; eauto].
    destruct it as [c|n bb]; cbn [flat_outer_item] in Ea.
    + inversion Ea; subst. destruct Hin as [Hin|[]]; discriminate.
    + destruct (str_eqb n (A "title")); [discriminate|].
      destruct (str_eqb n (A "status")); [inversion Ea; subst; exfalso; eapply in_map_FC; eauto|].
      destruct (str_eqb n (A "body")); [inversion Ea; subst; auto | discriminate].
Qed.

Lemma parse_names_ok : forall t n b, In (V n b) (tmpl_parse t) -> forallb is_idc n = true.
Proof.
  intros t n b H. pose proof (tmpl_scan_ok t 0) as Hall. rewrite Forall_forall in Hall.
  exact (Hall _ H).
Qed.

(* every slot of the flat document is filled with safe text, whatever the request *)
Lemma hval_safe : forall cl i t id,
  In (FS id) (flat_inner (shape cl i) (tmpl_parse t)) -> safe (hval cl i id) = true.
Proof.
  intros cl i t id H. apply flat_inner_slots in H as [->|[n [b [-> [Hin E]]]]].
  - apply html_escape_safe.
  - cbn [hval]. pose proof (parse_names_ok _ _ _ Hin) as Hn.
    assert (Hbase : forall v, base_args html_escape cl i n = Some v ->
                    (c_custom cl && is_some (override i hc_name) = false \/ n <> hc_name) -> safe v = true).
    { intros v Hv Hsh. unfold base_args in Hv.
      destruct (str_eqb n (A "explanation")); [inversion Hv; apply html_escape_safe|].
      destruct (str_eqb n (A "detail")); [inversion Hv; apply html_escape_safe|].
      destruct (str_eqb n (A "comment")); [inversion Hv; apply html_escape_safe|].
      destruct (str_eqb n (A "html_comment")) eqn:Eh; [|discriminate].
      inversion Hv; subst v. unfold html_comment.
      destruct (nonempty (i_comment i)) eqn:Ene; [|reflexivity].
      exfalso. apply str_eqb_eq in Eh. fold hc_name in Eh. subst n.
      rewrite str_eqb_refl in E. cbn [andb] in E. unfold shape in E. rewrite Ene in E. cbn [andb] in E.
      destruct Hsh as [Hsh|Hsh]; [rewrite Hsh in E; discriminate | congruence]. }
    unfold args. destruct (c_custom cl) eqn:Ec.
    + destruct (override i n) as [v|] eqn:Eo; [apply html_escape_safe|].
      destruct (base_args html_escape cl i n) as [v|] eqn:Eb; [|apply raw_safe; auto].
      apply (Hbase v eq_refl). destruct (str_eqb n hc_name) eqn:Eh.
      * apply str_eqb_eq in Eh. subst n. rewrite Eo. left. apply andb_false_r.
      * right. intros ->. rewrite str_eqb_refl in Eh. discriminate.
    + destruct (base_args html_escape cl i n) as [v|] eqn:Eb; [|apply raw_safe; auto].
      apply (Hbase v eq_refl). left. reflexivity.
Qed.

(* ------------------------------------------------------------------ the theorem *)
Theorem skeleton_invariant : forall cfg cl i i' h h',
  wf_html cfg cl (shape cl i) = true ->
  shape cl i = shape cl i' ->
  html_body cfg cl i = Some h -> html_body cfg cl i' = Some h' ->
  skeleton h = skeleton h'.
Proof.
  intros cfg cl i i' h h' Hwf Hsh Hb Hb'.
  rewrite html_body_flat in Hb, Hb'. rewrite <- Hsh in Hb'.
  unfold wf_html in Hwf. destruct (flat cfg cl (shape cl i)) as [its|] eqn:Ef; [|discriminate].
  cbn [option_map] in Hb, Hb'. inversion Hb; inversion Hb'; subst h h'.
  unfold skeleton. f_equal. apply wf_run; auto.
  - intros id Hin. unfold flat in Ef. eapply flat_outer_slots in Hin; eauto.
    eapply hval_safe; eauto.
  - intros id Hin. unfold flat in Ef. eapply flat_outer_slots in Hin; eauto.
    rewrite Hsh in Hin. eapply hval_safe; eauto.
Qed.

(* html_body never fails when the outer template only mentions status and body *)
Lemma html_body_some : forall cfg cl i sh,
  wf_html cfg cl sh = true -> shape cl i = sh -> exists h, html_body cfg cl i = Some h.
Proof.
  intros cfg cl i sh Hwf <-. rewrite html_body_flat. unfold wf_html in Hwf.
  destruct (flat cfg cl (shape cl i)); [eexists; reflexivity | discriminate].
Qed.
