(* C15 — request side: RequestCookies edits on well-formed headers are the reference operations on the
   sequence of cookie pairs (hence on the dict that is read back). *)
From Coq Require Import String.
From Coq Require Import Arith NArith List Bool Lia ZifyBool ZifyNat ZifyN.
Require Import Webob.Lib.Val Webob.Lib.PyStr Webob.Lib.C15_Utf8 Webob.Gen.C15_tables Webob.Model.C15_Scan Webob.Model.C15_CookieJar
               Webob.Spec.C15_JarSpec Webob.Proofs.C15_scan.
Import ListNotations.
Local Open Scope N_scope.
Local Opaque is_legal.

(* ------------------------------------------------------------------ small helpers *)
Lemma str_eqb_eq : forall a b, str_eqb a b = true <-> a = b.
Proof.
  induction a as [|x a IH]; destruct b as [|y b]; cbn; split; intros H; try reflexivity; try discriminate.
  - apply andb_true_iff in H. destruct H as [Hx Hab]. apply N.eqb_eq in Hx. apply IH in Hab. subst. reflexivity.
  - inversion H; subst. rewrite N.eqb_refl. cbn. apply IH. reflexivity.
Qed.

Lemma str_eqb_refl : forall a, str_eqb a a = true.
Proof. intros a. apply str_eqb_eq. reflexivity. Qed.

Lemma str_eqb_neq : forall a b, str_eqb a b = false <-> a <> b.
Proof.
  intros a b. split; intros H.
  - intros ->. rewrite str_eqb_refl in H. discriminate.
  - destruct (str_eqb a b) eqn:E; [|reflexivity]. apply str_eqb_eq in E. contradiction.
Qed.

Lemma str_eqb_sym : forall a b, str_eqb a b = str_eqb b a.
Proof.
  intros a b. destruct (str_eqb a b) eqn:E.
  - apply str_eqb_eq in E. subst. symmetry. apply str_eqb_refl.
  - symmetry. apply str_eqb_neq. apply str_eqb_neq in E. congruence.
Qed.

Lemma drop_while_suffix : forall f l, exists y, l = y ++ drop_while f l.
Proof.
  induction l as [|c l [y Hy]]; [exists []; reflexivity|].
  cbn. destruct (f c).
  - exists (c :: y). cbn. f_equal. exact Hy.
  - exists []. reflexivity.
Qed.

Lemma rstrip_prefix : forall f g, exists z, g = rstrip_by f g ++ z.
Proof.
  intros f g. unfold rstrip_by. destruct (drop_while_suffix f (rev g)) as [y Hy].
  exists (rev y). rewrite <- rev_app_distr, <- Hy, rev_involutive. reflexivity.
Qed.

Lemma forallb_prefix : forall (p : N -> bool) a b, forallb p (a ++ b) = true -> forallb p a = true.
Proof. intros p a b H. rewrite forallb_app in H. apply andb_true_iff in H. tauto. Qed.

Lemma last_app_ne : forall (a b : str) d, b <> [] -> last (a ++ b) d = last b d.
Proof.
  induction a as [|x a IH]; intros b d Hb; [reflexivity|].
  cbn [app]. destruct (a ++ b) eqn:E.
  - destruct a; destruct b; try discriminate; congruence.
  - rewrite <- E. cbn [last]. rewrite E. rewrite <- E. apply IH. exact Hb.
Qed.

(* ------------------------------------------------------------------ the edits, on the rendered structure *)
Definition rend (ps : list (str * item)) : str := flat_map (fun p => fst p ++ item_text (snd p)) ps.

Lemma render_rend : forall ps tail, render ps tail = rend ps ++ tail.
Proof. reflexivity. Qed.

Lemma rend_cons : forall g i ps, rend ((g, i) :: ps) = g ++ item_text i ++ rend ps.
Proof. intros. unfold rend. cbn [flat_map fst snd]. rewrite <- app_assoc. reflexivity. Qed.

Definition has_item (name : str) (ps : list (str * item)) : bool :=
  existsb (fun p => str_eqb (i_key (snd p)) name) ps.

(* assignment: the last pair carrying the name gets the new item, its gap stays *)
Fixpoint set_ps (name : str) (ni : item) (ps : list (str * item)) : list (str * item) :=
  match ps with
  | [] => []
  | (g, i) :: ps' =>
      if str_eqb (i_key i) name && negb (has_item name ps') then (g, ni) :: ps'
      else (g, i) :: set_ps name ni ps'
  end.

Lemma set_ps_absent : forall name ni ps, has_item name ps = false -> set_ps name ni ps = ps.
Proof.
  induction ps as [|[g i] ps IH]; intros H; [reflexivity|].
  cbn [has_item existsb snd] in H. apply orb_false_iff in H. destruct H as [H1 H2].
  cbn [set_ps]. rewrite H1. cbn [andb]. f_equal. apply IH. exact H2.
Qed.

Lemma e_text_entry_of : forall p, e_text (entry_of p) = item_text (snd p).
Proof. reflexivity. Qed.

Lemma mut_replace_ps : forall name ni ps,
  mut_replace name (item_text ni) (entries_of ps) = (rend (set_ps name ni ps), has_item name ps).
Proof.
  induction ps as [|[g i] ps IH]; [reflexivity|].
  cbn [entries_of map mut_replace]. fold (entries_of ps). rewrite IH.
  cbn [entry_of e_gap e_key fst snd has_item existsb set_ps]. fold (has_item name ps).
  rewrite e_text_entry_of. cbn [snd].
  destruct (has_item name ps) eqn:Hh.
  - rewrite andb_false_r, orb_true_r. rewrite rend_cons. reflexivity.
  - rewrite andb_true_r, orb_false_r. destruct (str_eqb (i_key i) name) eqn:Hk.
    + rewrite (set_ps_absent name ni ps Hh). rewrite rend_cons. reflexivity.
    + rewrite rend_cons. reflexivity.
Qed.

(* deletion: every pair carrying the name goes, with the " ;" run that ends the gap in front of it; what is
   left of that gap joins the next gap (or the tail) *)
Definition prepend_gap (x : str) (r : list (str * item) * str) : list (str * item) * str :=
  match fst r with
  | [] => ([], x ++ snd r)
  | (g', i') :: r' => ((x ++ g', i') :: r', snd r)
  end.

Fixpoint del_ps (name : str) (ps : list (str * item)) (tail : str) : list (str * item) * str :=
  match ps with
  | [] => ([], tail)
  | (g, i) :: ps' =>
      let r := del_ps name ps' tail in
      if str_eqb (i_key i) name then prepend_gap (rstrip_sp_semi g) r else ((g, i) :: fst r, snd r)
  end.

Lemma render_prepend : forall x r, render (fst (prepend_gap x r)) (snd (prepend_gap x r)) = x ++ render (fst r) (snd r).
Proof.
  intros x [[|[g' i'] r'] t]; unfold prepend_gap; cbn [fst snd].
  - reflexivity.
  - rewrite !render_cons. rewrite <- app_assoc. reflexivity.
Qed.

Lemma mut_remove_ps : forall name ps tail,
  fst (mut_remove name (entries_of ps)) ++ tail = render (fst (del_ps name ps tail)) (snd (del_ps name ps tail))
  /\ snd (mut_remove name (entries_of ps)) = has_item name ps.
Proof.
  induction ps as [|[g i] ps IH]; intros tail; [split; reflexivity|].
  destruct (IH tail) as [IH1 IH2].
  cbn [entries_of map mut_remove]. fold (entries_of ps).
  destruct (mut_remove name (entries_of ps)) as [rest found] eqn:Hm. cbn [fst snd] in IH1, IH2.
  cbn [entry_of e_gap e_key fst snd has_item existsb del_ps]. fold (has_item name ps).
  rewrite e_text_entry_of. cbn [snd].
  destruct (str_eqb (i_key i) name) eqn:Hk; cbn [fst snd].
  - split; [|reflexivity]. rewrite render_prepend. rewrite <- app_assoc. rewrite IH1. reflexivity.
  - split; [|cbn [orb]; exact IH2]. rewrite render_cons. rewrite <- !app_assoc. rewrite IH1. reflexivity.
Qed.

(* the pairs after the edits *)
Lemma pairs_prepend : forall x r, pairs_of (fst (prepend_gap x r)) = pairs_of (fst r).
Proof. intros x [[|[g' i'] r'] t]; reflexivity. Qed.

Lemma pairs_del_ps : forall name ps tail, pairs_of (fst (del_ps name ps tail)) = pairs_del name (pairs_of ps).
Proof.
  induction ps as [|[g i] ps IH]; intros tail; [reflexivity|].
  cbn [del_ps]. unfold pairs_del in *. cbn [pairs_of map snd filter item_pair fst].
  destruct (str_eqb (i_key i) name) eqn:Hk; cbn [negb].
  - rewrite pairs_prepend. apply IH.
  - cbn [fst pairs_of map snd]. f_equal. apply IH.
Qed.

Lemma has_item_pairs : forall name ps, has_item name ps = has_key name (pairs_of ps).
Proof.
  induction ps as [|[g i] ps IH]; [reflexivity|].
  cbn [has_item existsb pairs_of map snd item_pair has_key]. fold (has_item name ps). fold (pairs_of ps).
  rewrite IH. reflexivity.
Qed.

Lemma pairs_set_ps : forall name ni ps, i_key ni = name ->
  pairs_of (set_ps name ni ps) = set_last name (snd (item_pair ni)) (pairs_of ps).
Proof.
  induction ps as [|[g i] ps IH]; intros Hn; [reflexivity|].
  cbn [set_ps pairs_of map snd set_last]. fold (pairs_of ps). unfold item_pair at 2. 
  rewrite <- has_item_pairs.
  destruct (str_eqb (i_key i) name && negb (has_item name ps)) eqn:Hc.
  - cbn [pairs_of map snd]. fold (pairs_of ps). unfold item_pair at 1. cbn [snd].
    apply andb_true_iff in Hc. destruct Hc as [Hc _]. apply str_eqb_eq in Hc. rewrite Hn, Hc. reflexivity.
  - cbn [pairs_of map snd]. fold (pairs_of ps). f_equal. apply IH. exact Hn.
Qed.

(* ------------------------------------------------------------------ the class is closed under the edits *)
Lemma follows_ok_app : forall s x, s <> [] -> follows_ok (s ++ x) = follows_ok s.
Proof. intros [|c s] x H; [congruence|reflexivity]. Qed.

Lemma item_text_head : forall i, item_ok i = true -> exists c t, item_text i = c :: t /\ keych c = true.
Proof.
  intros i Hi. destruct (key_ok_cons _ (item_ok_key i Hi)) as [c [k' [Hk Hc]]].
  exists c, (k' ++ item_sep i ++ val_text (i_val i)). unfold item_text. rewrite Hk. split; [reflexivity|exact Hc].
Qed.

Lemma keych_59 : keych 59 = false.
Proof. unfold keych. rewrite not_legal_59. reflexivity. Qed.

Lemma wf_cons_inv : forall g i ps tail, wf_ps ((g, i) :: ps) tail = true ->
  gap_ok g = true /\ item_ok i = true /\ follows_ok (render ps tail) = true /\ wf_ps ps tail = true.
Proof.
  intros g i ps tail H. cbn [wf_ps] in H.
  apply andb_true_iff in H. destruct H as [H H4].
  apply andb_true_iff in H. destruct H as [H H3].
  apply andb_true_iff in H. destruct H as [H1 H2]. tauto.
Qed.

Lemma gap_ok_inv : forall g, gap_ok g = true ->
  noeq g = true /\ match g with [] => true | _ => negb (is_legal (last g 0)) end = true /\ is_latin1 g = true.
Proof.
  intros g H. unfold gap_ok in H. apply andb_true_iff in H. destruct H as [H H3].
  apply andb_true_iff in H. destruct H as [H1 H2]. tauto.
Qed.

(* a pair that follows something starts after a non-empty gap *)
Lemma follows_gap_nonempty : forall g i ps tail, item_ok i = true ->
  follows_ok (render ((g, i) :: ps) tail) = true -> g <> [].
Proof.
  intros g i ps tail Hi Hf ->. rewrite render_cons in Hf. cbn [app] in Hf.
  destruct (item_text_head i Hi) as [c [t [Ht Hc]]]. rewrite Ht in Hf. cbn in Hf.
  apply N.eqb_eq in Hf. subst c. rewrite keych_59 in Hc. discriminate.
Qed.

Lemma rstrip_noeq : forall g, noeq g = true -> noeq (rstrip_sp_semi g) = true.
Proof.
  intros g H. destruct (rstrip_prefix is_sp_semi g) as [z Hz]. unfold rstrip_sp_semi.
  unfold noeq in *. rewrite Hz in H. eapply forallb_prefix. exact H.
Qed.

Lemma rstrip_latin1 : forall g, is_latin1 g = true -> is_latin1 (rstrip_sp_semi g) = true.
Proof.
  intros g H. destruct (rstrip_prefix is_sp_semi g) as [z Hz]. unfold rstrip_sp_semi.
  unfold is_latin1 in *. rewrite Hz in H. eapply forallb_prefix. exact H.
Qed.

Lemma noeq_app : forall a b, noeq (a ++ b) = noeq a && noeq b.
Proof. intros. unfold noeq. apply forallb_app. Qed.
Lemma is_latin1_app : forall a b, is_latin1 (a ++ b) = is_latin1 a && is_latin1 b.
Proof. intros. unfold is_latin1. apply forallb_app. Qed.

Lemma del_follows : forall name ps tail, wf_ps ps tail = true -> follows_ok (render ps tail) = true ->
  follows_ok (render (fst (del_ps name ps tail)) (snd (del_ps name ps tail))) = true.
Proof.
  induction ps as [|[g i] ps IH]; intros tail Hwf Hf; [exact Hf|].
  destruct (wf_cons_inv _ _ _ _ Hwf) as [Hg [Hi [Hfo Hrest]]].
  cbn [del_ps]. destruct (str_eqb (i_key i) name).
  - rewrite render_prepend.
    destruct (rstrip_sp_semi g) as [|c z] eqn:Hr.
    + cbn [app]. apply IH; assumption.
    + destruct (rstrip_prefix is_sp_semi g) as [z' Hz]. fold (rstrip_sp_semi g) in Hz. rewrite Hr in Hz.
      rewrite render_cons, Hz in Hf. cbn in Hf. cbn. exact Hf.
  - cbn [fst snd]. rewrite render_cons in *. rewrite app_assoc in *.
    destruct (item_text_head i Hi) as [c [t [Ht _]]].
    rewrite follows_ok_app in *; try exact Hf; rewrite Ht; destruct g; discriminate.
Qed.

Lemma wf_del : forall name ps tail, wf_ps ps tail = true ->
  wf_ps (fst (del_ps name ps tail)) (snd (del_ps name ps tail)) = true.
Proof.
  induction ps as [|[g i] ps IH]; intros tail Hwf; [exact Hwf|].
  destruct (wf_cons_inv _ _ _ _ Hwf) as [Hg [Hi [Hfo Hrest]]].
  specialize (IH tail Hrest). pose proof (del_follows name ps tail Hrest Hfo) as Hdf.
  cbn [del_ps]. destruct (del_ps name ps tail) as [r t] eqn:Hd. cbn [fst snd] in *.
  destruct (gap_ok_inv g Hg) as [Hn [_ Hl1]].
  destruct (str_eqb (i_key i) name).
  - unfold prepend_gap. cbn [fst snd]. destruct r as [|[g' i'] r'].
    + cbn [fst snd wf_ps] in *. apply andb_true_iff in IH. destruct IH as [IH1 IH2].
      rewrite noeq_app, is_latin1_app.
      rewrite (rstrip_noeq g Hn), (rstrip_latin1 g Hl1), IH1, IH2. reflexivity.
    + cbn [fst snd]. destruct (wf_cons_inv _ _ _ _ IH) as [Hg' [Hi' [Hfo' Hrest']]].
      pose proof (follows_gap_nonempty g' i' r' t Hi' Hdf) as Hne.
      destruct (gap_ok_inv g' Hg') as [Hn' [Hlast' Hl1']].
      cbn [wf_ps]. rewrite Hi', Hfo', Hrest'. rewrite !andb_true_r.
      unfold gap_ok. rewrite noeq_app, is_latin1_app.
      rewrite (rstrip_noeq g Hn), (rstrip_latin1 g Hl1), Hn', Hl1'. cbn [andb]. rewrite andb_true_r.
      destruct (rstrip_sp_semi g ++ g') eqn:E.
      * destruct (rstrip_sp_semi g); destruct g'; try discriminate; congruence.
      * rewrite <- E. rewrite last_app_ne by exact Hne. destruct g'; [congruence|exact Hlast'].
  - cbn [fst snd wf_ps]. rewrite Hg, Hi, Hdf, IH. reflexivity.
Qed.

Lemma follows_ok_same_head : forall a x y, a <> [] -> follows_ok (a ++ x) = follows_ok (a ++ y).
Proof. intros a x y H. rewrite !follows_ok_app by exact H. reflexivity. Qed.

Lemma hd_set : forall name ni ps tail, i_key ni = name -> item_ok ni = true -> wf_ps ps tail = true ->
  follows_ok (render (set_ps name ni ps) tail) = follows_ok (render ps tail).
Proof.
  intros name ni [|[g i] ps] tail Hn Hni Hwf; [reflexivity|].
  destruct (wf_cons_inv _ _ _ _ Hwf) as [Hg [Hi [Hfo Hrest]]].
  cbn [set_ps]. destruct (str_eqb (i_key i) name && negb (has_item name ps)) eqn:Hc.
  - apply andb_true_iff in Hc. destruct Hc as [Hc _]. apply str_eqb_eq in Hc.
    rewrite !render_cons. destruct g as [|c g]; [|reflexivity]. cbn [app].
    destruct (key_ok_cons _ (item_ok_key ni Hni)) as [c [k' [Hk _]]].
    unfold item_text. rewrite Hc, <- Hn, Hk. reflexivity.
  - rewrite !render_cons, !app_assoc. destruct (item_text_head i Hi) as [c [t [Ht _]]].
    apply follows_ok_same_head. rewrite Ht. destruct g; discriminate.
Qed.

Lemma wf_set : forall name ni ps tail, i_key ni = name -> item_ok ni = true -> wf_ps ps tail = true ->
  wf_ps (set_ps name ni ps) tail = true.
Proof.
  induction ps as [|[g i] ps IH]; intros tail Hn Hni Hwf; [exact Hwf|].
  destruct (wf_cons_inv _ _ _ _ Hwf) as [Hg [Hi [Hfo Hrest]]].
  cbn [set_ps]. destruct (str_eqb (i_key i) name && negb (has_item name ps)).
  - cbn [wf_ps]. rewrite Hg, Hni, Hfo, Hrest. reflexivity.
  - cbn [wf_ps]. rewrite Hg, Hi, (hd_set name ni ps tail Hn Hni Hrest), Hfo, (IH tail Hn Hni Hrest). reflexivity.
Qed.

Definition semi_sp : str := [59; 32].

Lemma render_snoc : forall ps tail ni,
  render (ps ++ [(tail ++ semi_sp, ni)]) [] = render ps tail ++ semi_sp ++ item_text ni.
Proof.
  intros. unfold render. rewrite flat_map_app. cbn [flat_map fst snd]. rewrite !app_nil_r, <- !app_assoc. reflexivity.
Qed.

Lemma wf_append : forall ni ps tail, item_ok ni = true -> wf_ps ps tail = true ->
  wf_ps (ps ++ [(tail ++ semi_sp, ni)]) [] = true.
Proof.
  induction ps as [|[g i] ps IH]; intros tail Hni Hwf.
  - cbn [wf_ps] in Hwf. apply andb_true_iff in Hwf. destruct Hwf as [Hn Hl].
    cbn [app wf_ps]. rewrite Hni. unfold gap_ok. rewrite noeq_app, is_latin1_app, Hn, Hl.
    replace (noeq semi_sp) with true by reflexivity. replace (is_latin1 semi_sp) with true by reflexivity.
    cbn [andb]. rewrite !andb_true_r.
    destruct (tail ++ semi_sp) eqn:E; [destruct tail; discriminate|]. rewrite <- E.
    rewrite last_app_ne by discriminate. cbn [semi_sp last]. rewrite not_legal_32. reflexivity.
  - destruct (wf_cons_inv _ _ _ _ Hwf) as [Hg [Hi [Hfo Hrest]]].
    cbn [app wf_ps]. rewrite Hg, Hi, (IH tail Hni Hrest). rewrite !andb_true_r. cbn [andb].
    rewrite render_snoc. destruct (render ps tail) eqn:E; [reflexivity|]. exact Hfo.
Qed.

(* every character of a well-formed header is an octet *)
Lemma is_ws_octet : forall w, forallb is_ws w = true -> is_latin1 w = true.
Proof.
  induction w as [|c w IH]; intros H; [reflexivity|]. cbn [forallb] in H. apply andb_true_iff in H. destruct H as [Hc H].
  cbn [is_latin1 forallb]. fold (is_latin1 w). rewrite (IH H). unfold is_ws in Hc. rewrite andb_true_r. lia.
Qed.

Lemma legal_octet : forall u, forallb is_legal u = true -> is_latin1 u = true.
Proof.
  induction u as [|c u IH]; intros H; [reflexivity|]. cbn [forallb] in H. apply andb_true_iff in H. destruct H as [Hc H].
  cbn [is_latin1 forallb]. fold (is_latin1 u). rewrite (IH H). pose proof (legal_facts c Hc) as Hf. unfold legal_fact in Hf.
  apply andb_true_iff in Hf. destruct Hf as [_ Hf]. rewrite Hf. reflexivity.
Qed.

Lemma keych_all_legal : forall k, forallb keych k = true -> forallb is_legal k = true.
Proof.
  induction k as [|c k IH]; intros H; [reflexivity|]. cbn [forallb] in *. apply andb_true_iff in H. destruct H as [Hc H].
  rewrite (keych_legal c Hc), (IH H). reflexivity.
Qed.

Lemma item_latin1 : forall i, item_ok i = true -> is_latin1 (item_text i) = true.
Proof.
  intros i Hi. unfold item_ok in Hi.
  apply andb_true_iff in Hi. destruct Hi as [Hi Hv].
  apply andb_true_iff in Hi. destruct Hi as [Hi Hw2].
  apply andb_true_iff in Hi. destruct Hi as [Hk Hw1].
  unfold item_text, item_sep. rewrite !is_latin1_app.
  assert (Hkk : is_latin1 (i_key i) = true).
  { apply legal_octet, keych_all_legal. destruct (i_key i); [discriminate|exact Hk]. }
  rewrite Hkk, (is_ws_octet _ Hw1). cbn [andb].
  change (61 :: i_w2 i) with ([61] ++ i_w2 i). rewrite is_latin1_app, (is_ws_octet _ Hw2).
  replace (is_latin1 [61]) with true by reflexivity. cbn [andb].
  destruct (i_val i) as [u|b]; cbn [val_text val_ok] in *.
  - apply legal_octet, Hv.
  - apply andb_true_iff in Hv. destruct Hv as [_ Hb].
    change (34 :: b ++ [34]) with ([34] ++ b ++ [34]). rewrite !is_latin1_app, Hb. reflexivity.
Qed.

Lemma wf_latin1 : forall ps tail, wf_ps ps tail = true -> is_latin1 (render ps tail) = true.
Proof.
  induction ps as [|[g i] ps IH]; intros tail Hwf.
  - cbn [wf_ps] in Hwf. apply andb_true_iff in Hwf. destruct Hwf as [_ Hl]. exact Hl.
  - destruct (wf_cons_inv _ _ _ _ Hwf) as [Hg [Hi [_ Hrest]]]. destruct (gap_ok_inv g Hg) as [_ [_ Hl]].
    rewrite render_cons, !is_latin1_app, Hl, (item_latin1 i Hi), (IH tail Hrest). reflexivity.
Qed.

(* ------------------------------------------------------------------ the value written by an assignment *)
Definition esc_fact (c : N) : bool :=
  match escape_char c with
  | [x] => (x =? c) && negb (x =? 92) && negb (x =? 34) && negb (x =? 10) && (x <? 256)
  | [x; a; b; d] => (x =? 92) && is03 a && is07 b && is07 d && (unq_oct a b d =? c)
  | _ => false
  end.

Lemma esc_sweep : forallb esc_fact (map N.of_nat (seq 0 256)) = true.
Proof. vm_compute. reflexivity. Qed.

Lemma esc_facts : forall c, c < 256 -> esc_fact c = true.
Proof.
  intros c Hc. apply (proj1 (forallb_forall _ _) esc_sweep).
  apply in_map_iff. exists (N.to_nat c). split; [apply N2Nat.id|]. apply in_seq. lia.
Qed.

Lemma oct_digit_facts : forall d, is07 d = true -> qch d = true /\ (d <? 256) = true /\ (d =? 92) = false.
Proof. intros d H. unfold is07 in H. unfold qch. repeat split; lia. Qed.
Lemma oct03_is07 : forall d, is03 d = true -> is07 d = true.
Proof. intros d H. unfold is03 in H. unfold is07. lia. Qed.

Lemma esc_shape : forall c, c < 256 ->
  forallb qch (escape_char c) = true /\ is_latin1 (escape_char c) = true /\
  escape_char c <> [] /\ (last (escape_char c) 0 =? 92) = false.
Proof.
  intros c Hc. pose proof (esc_facts c Hc) as Hf. unfold esc_fact in Hf.
  destruct (escape_char c) as [|x [|a [|b [|d [|e t]]]]]; try discriminate.
  - repeat (apply andb_true_iff in Hf; destruct Hf as [Hf ?]).
    cbn [forallb is_latin1 last]. unfold qch. rewrite H1, H0, H. repeat split; [discriminate|apply negb_true_iff; exact H2].
  - repeat (apply andb_true_iff in Hf; destruct Hf as [Hf ?]).
    destruct (oct_digit_facts a (oct03_is07 a H2)) as [Ha1 [Ha2 _]].
    destruct (oct_digit_facts b H1) as [Hb1 [Hb2 _]]. destruct (oct_digit_facts d H0) as [Hd1 [Hd2 Hd3]].
    apply N.eqb_eq in Hf. subst x.
    cbn [forallb is_latin1 last]. rewrite Ha1, Ha2, Hb1, Hb2, Hd1, Hd2, Hd3. repeat split; discriminate.
Qed.

Lemma unq_scan_plain : forall c s, (c =? 92) = false -> unq_scan (c :: s) = c :: unq_scan s.
Proof. intros c s H. cbn [unq_scan]. rewrite H. reflexivity. Qed.

Lemma esc_unq : forall c rest, c < 256 -> unq_scan (escape_char c ++ rest) = c :: unq_scan rest.
Proof.
  intros c rest Hc. pose proof (esc_facts c Hc) as Hf. unfold esc_fact in Hf.
  destruct (escape_char c) as [|x [|a [|b [|d [|e t]]]]]; try discriminate.
  - repeat (apply andb_true_iff in Hf; destruct Hf as [Hf ?]).
    apply N.eqb_eq in Hf. subst x. cbn [app]. apply unq_scan_plain. apply negb_true_iff. assumption.
  - repeat (apply andb_true_iff in Hf; destruct Hf as [Hf ?]).
    apply N.eqb_eq in Hf. subst x. apply N.eqb_eq in H. cbn [app unq_scan]. cbn [N.eqb Pos.eqb].
    rewrite H2, H1, H0. cbn [andb]. rewrite H. reflexivity.
Qed.

Lemma forallb_flat_map : forall (p : N -> bool) (f : N -> str) l,
  forallb p (flat_map f l) = forallb (fun c => forallb p (f c)) l.
Proof. induction l as [|c l IH]; [reflexivity|]. cbn [flat_map forallb]. rewrite forallb_app, IH. reflexivity. Qed.

Lemma octets_lt : forall b c, is_latin1 b = true -> In c b -> c < 256.
Proof. intros b c H Hin. unfold is_latin1 in H. pose proof (proj1 (forallb_forall _ _) H c Hin) as Hx. cbv beta in Hx. lia. Qed.

Lemma esc_body_ok : forall b, is_latin1 b = true -> b <> [] ->
  forallb qch (flat_map escape_char b) = true /\ is_latin1 (flat_map escape_char b) = true /\
  flat_map escape_char b <> [] /\ (last (flat_map escape_char b) 0 =? 92) = false.
Proof.
  induction b as [|c b IH]; intros Hb Hne; [congruence|].
  assert (Hc : c < 256) by (apply (octets_lt (c :: b)); [exact Hb|left; reflexivity]).
  destruct (esc_shape c Hc) as [H1 [H2 [H3 H4]]].
  assert (Hb' : is_latin1 b = true) by (cbn in Hb; apply andb_true_iff in Hb; tauto).
  cbn [flat_map]. destruct b as [|c' b'].
  - cbn [flat_map]. rewrite app_nil_r. tauto.
  - destruct (IH Hb' ltac:(discriminate)) as [I1 [I2 [I3 I4]]].
    rewrite forallb_app, is_latin1_app, H1, H2, I1, I2. repeat split.
    + intros E. apply app_eq_nil in E. tauto.
    + rewrite last_app_ne by exact I3. exact I4.
Qed.

Definition new_val (b : str) : cvalue := if forallb is_allowed b then VU b else VQ (flat_map escape_char b).
Definition new_item (n b : str) : item := mkItem n [] [] (new_val b).

(* an all-allowed value is emitted bare: it has to be all-legal to be read back whole (C07's alphabet question) *)
Definition plain_ok (b : str) : bool := implb (forallb is_allowed b) (forallb is_legal b).

Lemma new_item_text : forall n b, item_text (new_item n b) = n ++ 61 :: value_quote b.
Proof.
  intros n b. unfold item_text, item_sep, new_item, new_val, value_quote. cbn [i_key i_w1 i_w2 i_val app].
  destruct (forallb is_allowed b); reflexivity.
Qed.

Lemma new_item_ok : forall n b, key_ok n = true -> is_latin1 b = true -> plain_ok b = true ->
  item_ok (new_item n b) = true.
Proof.
  intros n b Hn Hb Hp. unfold item_ok, new_item, new_val. cbn [i_key i_w1 i_w2 i_val forallb]. rewrite Hn. cbn [andb].
  unfold plain_ok in Hp. destruct (forallb is_allowed b) eqn:Ha; cbn [val_ok].
  - exact Hp.
  - assert (Hne : b <> []) by (intros ->; discriminate).
    destruct (esc_body_ok b Hb Hne) as [I1 [I2 [_ I4]]]. rewrite I1, I2, I4. reflexivity.
Qed.

Lemma not_allowed_34 : is_allowed 34 = false. Proof. vm_compute. reflexivity. Qed.
Lemma not_allowed_92 : is_allowed 92 = false. Proof. vm_compute. reflexivity. Qed.

Lemma unq_scan_no_bs : forall b, forallb is_allowed b = true -> unq_scan b = b.
Proof.
  induction b as [|c b IH]; intros H; [reflexivity|]. cbn [forallb] in H. apply andb_true_iff in H. destruct H as [Hc H].
  rewrite unq_scan_plain; [rewrite (IH H); reflexivity|].
  destruct (c =? 92) eqn:E; [|reflexivity]. apply N.eqb_eq in E. subst c. rewrite not_allowed_92 in Hc. discriminate.
Qed.

Lemma unq_scan_escaped : forall b, is_latin1 b = true -> unq_scan (flat_map escape_char b) = b.
Proof.
  induction b as [|c b IH]; intros Hb; [reflexivity|].
  cbn [flat_map]. rewrite esc_unq by (apply (octets_lt (c :: b)); [exact Hb|left; reflexivity]).
  rewrite IH; [reflexivity|]. cbn in Hb. apply andb_true_iff in Hb. tauto.
Qed.

Theorem unquote_value_quote : forall b, is_latin1 b = true -> unquote (value_quote b) = b.
Proof.
  intros b Hb. unfold unquote, value_quote. destruct (forallb is_allowed b) eqn:Ha.
  - destruct b as [|c b]; [reflexivity|].
    assert (Hs : strip_quotes (c :: b) = c :: b).
    { unfold strip_quotes. destruct (c =? 34) eqn:E; [|reflexivity]. apply N.eqb_eq in E. subst c.
      cbn [forallb] in Ha. rewrite not_allowed_34 in Ha. discriminate. }
    rewrite Hs. apply unq_scan_no_bs. exact Ha.
  - assert (Hs : strip_quotes (34 :: flat_map escape_char b ++ [34]) = flat_map escape_char b).
    { unfold strip_quotes. cbn [N.eqb Pos.eqb andb].
      change (34 :: flat_map escape_char b ++ [34]) with ((34 :: flat_map escape_char b) ++ [34]).
      rewrite last_app_ne by discriminate. cbn [last N.eqb Pos.eqb]. apply removelast_last. }
    rewrite Hs. apply unq_scan_escaped. exact Hb.
Qed.

Lemma new_item_pair : forall n b, is_latin1 b = true -> item_pair (new_item n b) = (n, b).
Proof.
  intros n b Hb. unfold item_pair. cbn [new_item i_key i_val]. f_equal.
  replace (val_text (new_val b)) with (value_quote b); [apply unquote_value_quote; exact Hb|].
  unfold new_val, value_quote. destruct (forallb is_allowed b); reflexivity.
Qed.

(* ------------------------------------------------------------------ reading a well-formed header *)
Definition valid_pair (kv : str * str) : bool := valid_cookie_name (fst kv).

Lemma parse_wf : forall ps tail, wf_ps ps tail = true ->
  parse_cookie (render ps tail) = filter valid_pair (pairs_of ps).
Proof.
  intros ps tail Hwf. unfold parse_cookie, parse_cookie_raw, findall. rewrite (scan_wf ps tail Hwf). cbn [fst].
  unfold entries_of, pairs_of. rewrite !map_map. reflexivity.
Qed.

Lemma has_key_filter : forall n l, valid_cookie_name n = true -> has_key n (filter valid_pair l) = has_key n l.
Proof.
  intros n l Hn. induction l as [|[k v] l IH]; [reflexivity|].
  cbn [filter has_key]. change (valid_pair (k, v)) with (valid_cookie_name k).
  destruct (valid_cookie_name k) eqn:Hk.
  - cbn [has_key]. rewrite IH. reflexivity.
  - rewrite IH. destruct (str_eqb k n) eqn:E; [|reflexivity]. apply str_eqb_eq in E. subst k. congruence.
Qed.

Lemma filter_set_last : forall n b l, valid_cookie_name n = true ->
  filter valid_pair (set_last n b l) = set_last n b (filter valid_pair l).
Proof.
  intros n b l Hn. induction l as [|[k v] l IH]; [reflexivity|].
  cbn [set_last]. destruct (str_eqb k n && negb (has_key n l)) eqn:Hc.
  - apply andb_true_iff in Hc. destruct Hc as [Hk Hh]. apply str_eqb_eq in Hk. subst k.
    assert (Hvp : forall v', valid_pair (n, v') = true) by (intros; unfold valid_pair; exact Hn).
    cbn [filter]. rewrite !Hvp. cbn [set_last].
    rewrite (has_key_filter n l Hn), str_eqb_refl, Hh. reflexivity.
  - assert (Hvp : forall v', valid_pair (k, v') = valid_cookie_name k) by reflexivity.
    cbn [filter]. rewrite !Hvp. destruct (valid_cookie_name k) eqn:Hk.
    + cbn [set_last]. rewrite (has_key_filter n l Hn), Hc, IH. reflexivity.
    + exact IH.
Qed.

Lemma filter_pairs_set : forall n b l, valid_cookie_name n = true ->
  filter valid_pair (pairs_set n b l) = pairs_set n b (filter valid_pair l).
Proof.
  intros n b l Hn. unfold pairs_set. rewrite (has_key_filter n l Hn). destruct (has_key n l).
  - apply filter_set_last. exact Hn.
  - rewrite filter_app. cbn [filter]. replace (valid_pair (n, b)) with true by (unfold valid_pair; symmetry; exact Hn). reflexivity.
Qed.

Lemma filter_pairs_del : forall n l, filter valid_pair (pairs_del n l) = pairs_del n (filter valid_pair l).
Proof.
  intros n l. unfold pairs_del. induction l as [|[k v] l IH]; [reflexivity|].
  assert (Hvp : forall v', valid_pair (k, v') = valid_cookie_name k) by reflexivity.
  cbn [filter fst]. rewrite !Hvp.
  destruct (negb (str_eqb k n)) eqn:E1; destruct (valid_cookie_name k) eqn:E2; cbn [filter fst];
    rewrite ?Hvp, ?E1, ?E2; rewrite IH; reflexivity.
Qed.

(* ------------------------------------------------------------------ names *)
Lemma token_all_keych : forall k, forallb is_token k = true -> forallb keych k = true.
Proof.
  induction k as [|c k IH]; intros H; [reflexivity|]. cbn [forallb] in *. apply andb_true_iff in H. destruct H as [Hc H].
  rewrite (token_keych c Hc), (IH H). reflexivity.
Qed.

Lemma check_name_ok : forall name n, check_name name = Ok n ->
  name = Some n /\ key_ok n = true /\ valid_cookie_name n = true.
Proof.
  intros [t|] n H; [|discriminate]. unfold check_name in H.
  destruct (negb (is_ascii t)); [discriminate|].
  destruct (valid_cookie_name_res t) as [[|]|e] eqn:Hv; try discriminate.
  inversion H; subst n. split; [reflexivity|].
  unfold valid_cookie_name. rewrite Hv. split; [|reflexivity].
  unfold valid_cookie_name_res in Hv. destruct (forallb is_token t) eqn:Ht; cbn [negb] in Hv; [|discriminate].
  destruct t as [|c t]; [discriminate|]. cbn [key_ok]. apply token_all_keych. exact Ht.
Qed.

(* ------------------------------------------------------------------ the operations *)
Section Request.
  Variable enc : text -> option str.
  Hypothesis enc_octets : forall t b, enc t = Some b -> is_latin1 b = true.

  Definition wf_jar (st : jar) : Prop := wf_header (header_of st).
  Definition cookie_pairs (st : jar) : list (str * str) := parse_cookie (header_of st).

  (* a value is fine when, if it is emitted bare, it is also read back whole *)
  Definition value_ok (v : text) : bool := match enc v with Some b => plain_ok b | None => true end.
  Definition op_ok (o : rop) : bool :=
    match o with
    | RSet _ (Some v) => value_ok v
    | RAssign ps => forallb (fun kv => value_ok (snd kv)) ps
    | _ => true
    end.

  Lemma header_of_result : forall (h2 : str) (had : bool),
    header_of (match h2 with [] => if had then Some [] else None | _ => Some h2 end) = h2.
  Proof. intros [|c h] [|]; reflexivity. Qed.

  Lemma render_nil_inv : forall ps tail, wf_ps ps tail = true -> render ps tail = [] -> ps = [] /\ tail = [].
  Proof.
    intros [|[g i] ps] tail Hwf H.
    - split; [reflexivity|exact H].
    - destruct (wf_cons_inv _ _ _ _ Hwf) as [_ [Hi _]]. destruct (item_text_head i Hi) as [c [t [Ht _]]].
      rewrite render_cons, Ht in H. destruct g; discriminate.
  Qed.

  Lemma mutate_set : forall st ps tail n v b,
    header_of st = render ps tail -> wf_ps ps tail = true ->
    key_ok n = true -> enc v = Some b -> plain_ok b = true ->
    exists st' ps' tail',
      mutate_header enc st n (Some v) = Ok (st', has_item n ps) /\
      header_of st' = render ps' tail' /\ wf_ps ps' tail' = true /\
      pairs_of ps' = pairs_set n b (pairs_of ps).
  Proof.
    intros st ps tail n v b Hh Hwf Hn He Hp.
    pose proof (enc_octets v b He) as Hb.
    pose proof (new_item_ok n b Hn Hb Hp) as Hni.
    unfold mutate_header. rewrite Hh, (wf_latin1 ps tail Hwf). cbn [negb]. rewrite He.
    rewrite (scan_wf ps tail Hwf). rewrite <- new_item_text. rewrite mut_replace_ps.
    destruct (has_item n ps) eqn:Hi.
    - eexists. exists (set_ps n (new_item n b) ps), tail. split; [reflexivity|].
      rewrite header_of_result. split; [reflexivity|]. split; [apply wf_set; [reflexivity|exact Hni|exact Hwf]|].
      rewrite pairs_set_ps by reflexivity. rewrite (new_item_pair n b Hb). cbn [snd].
      unfold pairs_set. rewrite <- has_item_pairs, Hi. reflexivity.
    - destruct (render ps tail) as [|c h] eqn:Hr.
      + destruct (render_nil_inv ps tail Hwf Hr) as [-> ->].
        eexists. exists [([], new_item n b)], []. split; [reflexivity|].
        rewrite header_of_result. split; [unfold render; cbn; rewrite !app_nil_r; reflexivity|].
        split; [cbn [wf_ps]; rewrite Hni; reflexivity|].
        cbn [pairs_of map snd]. rewrite (new_item_pair n b Hb). reflexivity.
      + eexists. exists (ps ++ [(tail ++ semi_sp, new_item n b)]), []. split; [reflexivity|].
        rewrite header_of_result. split; [rewrite render_snoc, Hr; reflexivity|].
        split; [apply wf_append; assumption|].
        unfold pairs_of. rewrite map_app. cbn [map snd]. rewrite (new_item_pair n b Hb).
        unfold pairs_set. fold (pairs_of ps). rewrite <- has_item_pairs, Hi. reflexivity.
  Qed.

  Lemma del_ps_absent : forall n ps tail, has_item n ps = false -> del_ps n ps tail = (ps, tail).
  Proof.
    induction ps as [|[g i] ps IH]; intros tail H; [reflexivity|].
    cbn [has_item existsb snd] in H. apply orb_false_iff in H. destruct H as [H1 H2].
    cbn [del_ps]. rewrite H1, (IH tail H2). reflexivity.
  Qed.

  Lemma mutate_del : forall st ps tail n,
    header_of st = render ps tail -> wf_ps ps tail = true ->
    exists st' ps' tail',
      mutate_header enc st n None = Ok (st', has_item n ps) /\
      header_of st' = render ps' tail' /\ wf_ps ps' tail' = true /\
      pairs_of ps' = pairs_del n (pairs_of ps).
  Proof.
    intros st ps tail n Hh Hwf.
    unfold mutate_header. rewrite Hh, (wf_latin1 ps tail Hwf). cbn [negb].
    rewrite (scan_wf ps tail Hwf).
    destruct (mut_remove_ps n ps tail) as [M1 M2].
    destruct (mut_remove n (entries_of ps)) as [h1 found] eqn:Hm. cbn [fst snd] in M1, M2. subst found.
    eexists. exists (fst (del_ps n ps tail)), (snd (del_ps n ps tail)). split; [reflexivity|].
    rewrite header_of_result. split.
    - destruct (has_item n ps) eqn:Hi; [exact M1|]. rewrite (del_ps_absent n ps tail Hi). reflexivity.
    - split; [apply wf_del; exact Hwf|apply pairs_del_ps].
  Qed.

  (* --- one operation refines the reference operation *)
  Lemma wf_jar_pairs : forall st ps tail, header_of st = render ps tail -> wf_ps ps tail = true ->
    cookie_pairs st = filter valid_pair (pairs_of ps).
  Proof. intros st ps tail Hh Hwf. unfold cookie_pairs. rewrite Hh. apply parse_wf. exact Hwf. Qed.

  Lemma set_refines : forall st name value, wf_jar st ->
    match value with Some v => value_ok v | None => true end = true ->
    wf_jar (fst (jar_set enc st name value)) /\
    (cookie_pairs (fst (jar_set enc st name value)), snd (jar_set enc st name value)) = ref_set enc (cookie_pairs st) name value.
  Proof.
    intros st name value Hwf Hv. unfold jar_set, ref_set.
    destruct (check_name name) as [n|e] eqn:Hc; [|split; [exact Hwf|reflexivity]].
    destruct value as [v|]; [|split; [exact Hwf|reflexivity]].
    destruct (check_name_ok name n Hc) as [_ [Hk Hvalid]].
    destruct Hwf as [ps [tail [Hh Hps]]].
    unfold value_ok in Hv. destruct (enc v) as [b|] eqn:He.
    - destruct (mutate_set st ps tail n v b Hh Hps Hk He Hv) as [st' [ps' [tail' [Hm [Hh' [Hwf' Hp']]]]]].
      rewrite Hm. cbn [fst snd]. split; [exists ps', tail'; split; assumption|].
      rewrite (wf_jar_pairs st' ps' tail' Hh' Hwf'), (wf_jar_pairs st ps tail Hh Hps), Hp'.
      rewrite (filter_pairs_set n b _ Hvalid). reflexivity.
    - unfold mutate_header. rewrite Hh, (wf_latin1 ps tail Hps). cbn [negb]. rewrite He. cbn [fst snd].
      split; [exists ps, tail; split; assumption|reflexivity].
  Qed.

  Lemma del_refines : forall st name, wf_jar st ->
    wf_jar (fst (jar_del enc st name)) /\
    (cookie_pairs (fst (jar_del enc st name)), snd (jar_del enc st name)) = ref_del (cookie_pairs st) name.
  Proof.
    intros st name Hwf. unfold jar_del, ref_del.
    destruct (check_name name) as [n|e] eqn:Hc; [|split; [exact Hwf|reflexivity]].
    destruct (check_name_ok name n Hc) as [_ [Hk Hvalid]].
    destruct Hwf as [ps [tail [Hh Hps]]].
    destruct (mutate_del st ps tail n Hh Hps) as [st' [ps' [tail' [Hm [Hh' [Hwf' Hp']]]]]].
    rewrite Hm.
    rewrite (wf_jar_pairs st ps tail Hh Hps), (has_key_filter n _ Hvalid), <- has_item_pairs.
    assert (Hcp : cookie_pairs st' = pairs_del n (filter valid_pair (pairs_of ps))).
    { rewrite (wf_jar_pairs st' ps' tail' Hh' Hwf'), Hp'. apply filter_pairs_del. }
    destruct (has_item n ps) eqn:Hi; cbn [fst snd].
    - split; [exists ps', tail'; split; assumption|]. rewrite Hcp. reflexivity.
    - split; [exists ps', tail'; split; assumption|]. rewrite Hcp.
      (* nothing carried the name: the filter removes nothing *)
      f_equal. unfold pairs_del. clear -Hi Hvalid.
      assert (Hk : has_key n (filter valid_pair (pairs_of ps)) = false)
        by (rewrite (has_key_filter n _ Hvalid), <- has_item_pairs; exact Hi).
      induction (filter valid_pair (pairs_of ps)) as [|[k v] l IH]; [reflexivity|].
      cbn [has_key] in Hk. apply orb_false_iff in Hk. destruct Hk as [Hk1 Hk2].
      cbn [filter fst]. rewrite Hk1. cbn [negb]. f_equal. apply IH. exact Hk2.
  Qed.

  Lemma wf_jar_empty : forall st, header_of st = [] -> wf_jar st.
  Proof. intros st H. exists [], []. split; [exact H|reflexivity]. Qed.

  Lemma update_refines : forall ps st, wf_jar st -> forallb (fun kv => value_ok (snd kv)) ps = true ->
    wf_jar (fst (jar_update enc st ps)) /\
    (cookie_pairs (fst (jar_update enc st ps)), snd (jar_update enc st ps)) = ref_update enc (cookie_pairs st) ps.
  Proof.
    induction ps as [|[k v] ps IH]; intros st Hwf Hok; [split; [exact Hwf|reflexivity]|].
    cbn [forallb snd] in Hok. apply andb_true_iff in Hok. destruct Hok as [Hv Hok].
    destruct (set_refines st (Some k) (Some v) Hwf Hv) as [Hwf' Heq].
    cbn [jar_update ref_update]. rewrite <- Heq.
    destruct (jar_set enc st (Some k) (Some v)) as [st' [u|e]]; cbn [fst snd] in *.
    - apply IH; assumption.
    - split; [exact Hwf'|reflexivity].
  Qed.

  Theorem rstep_refines : forall st o, wf_jar st -> op_ok o = true ->
    wf_jar (fst (rstep enc st o)) /\
    (cookie_pairs (fst (rstep enc st o)), snd (rstep enc st o)) = ref_rstep enc (cookie_pairs st) o.
  Proof.
    intros st [n v|n| |ps] Hwf Hok; cbn [rstep ref_rstep op_ok] in *.
    - apply set_refines; [exact Hwf|]. destruct v; exact Hok.
    - apply del_refines. exact Hwf.
    - split; [apply wf_jar_empty; reflexivity|reflexivity].
    - destruct (update_refines ps None (wf_jar_empty None eq_refl) Hok) as [Hwf' Heq].
      replace (cookie_pairs None) with (@nil (str * str)) in Heq by reflexivity.
      rewrite <- Heq. destruct (jar_update enc None ps) as [st' [u|e]]; cbn [fst snd] in *.
      + destruct u. split; [exact Hwf'|reflexivity].
      + split; [exact Hwf|reflexivity].
  Qed.

  (* --- any history *)
  Theorem rrun_refines : forall ops st, wf_jar st -> forallb op_ok ops = true ->
    wf_jar (rrun enc ops st) /\ cookie_pairs (rrun enc ops st) = ref_rrun enc ops (cookie_pairs st).
  Proof.
    induction ops as [|o ops IH]; intros st Hwf Hok; [split; [exact Hwf|reflexivity]|].
    cbn [forallb] in Hok. apply andb_true_iff in Hok. destruct Hok as [Ho Hok].
    destruct (rstep_refines st o Hwf Ho) as [Hwf' Heq].
    unfold rrun, ref_rrun in *. cbn [fold_left].
    destruct (IH (fst (rstep enc st o)) Hwf' Hok) as [H1 H2]. split; [exact H1|].
    rewrite H2. f_equal. rewrite <- Heq. reflexivity.
  Qed.
End Request.

(* ------------------------------------------------------------------ what a reader sees: the last pair wins *)
Lemma lookup_none : forall k l, lookup k l = None <-> has_key k l = false.
Proof.
  intros k l. induction l as [|[k' v] l IH]; [split; reflexivity|].
  cbn [lookup has_key]. destruct (lookup k l) eqn:E.
  - split; [discriminate|]. intros H. apply orb_false_iff in H. destruct H as [_ H]. apply IH in H. discriminate.
  - destruct (str_eqb k' k); cbn [orb]; [split; discriminate|]. split; intros _; [apply IH|]; reflexivity.
Qed.

Lemma lookup_set_last_same : forall k v l, has_key k l = true -> lookup k (set_last k v l) = Some v.
Proof.
  intros k v l. induction l as [|[k' v'] l IH]; intros H; [discriminate|].
  cbn [set_last]. cbn [has_key] in H. destruct (str_eqb k' k && negb (has_key k l)) eqn:Hc.
  - apply andb_true_iff in Hc. destruct Hc as [Hk Hh]. apply negb_true_iff in Hh.
    cbn [lookup]. rewrite (proj2 (lookup_none k l) Hh), Hk. reflexivity.
  - cbn [lookup]. destruct (has_key k l) eqn:Hh.
    + rewrite (IH eq_refl). reflexivity.
    + rewrite orb_false_r in H. rewrite H in Hc. discriminate.
Qed.

Lemma lookup_set_last_other : forall k k2 v l, k2 <> k -> lookup k2 (set_last k v l) = lookup k2 l.
Proof.
  intros k k2 v l Hne. induction l as [|[k' v'] l IH]; [reflexivity|].
  cbn [set_last]. destruct (str_eqb k' k && negb (has_key k l)) eqn:Hc.
  - apply andb_true_iff in Hc. destruct Hc as [Hk _]. apply str_eqb_eq in Hk. subst k'.
    cbn [lookup]. replace (str_eqb k k2) with false by (symmetry; apply str_eqb_neq; congruence). reflexivity.
  - cbn [lookup]. rewrite IH. reflexivity.
Qed.

Lemma lookup_snoc : forall k2 k v l,
  lookup k2 (l ++ [(k, v)]) = if str_eqb k k2 then Some v else lookup k2 l.
Proof.
  intros k2 k v l. induction l as [|[k' v'] l IH]; [reflexivity|].
  cbn [app lookup]. rewrite IH. destruct (str_eqb k k2); reflexivity.
Qed.

Theorem lookup_pairs_set : forall k k2 v l,
  lookup k2 (pairs_set k v l) = if str_eqb k k2 then Some v else lookup k2 l.
Proof.
  intros k k2 v l. unfold pairs_set. destruct (has_key k l) eqn:Hh.
  - destruct (str_eqb k k2) eqn:E.
    + apply str_eqb_eq in E. subst k2. apply lookup_set_last_same. exact Hh.
    + apply lookup_set_last_other. apply str_eqb_neq in E. congruence.
  - apply lookup_snoc.
Qed.

Theorem lookup_pairs_del : forall k k2 l,
  lookup k2 (pairs_del k l) = if str_eqb k k2 then None else lookup k2 l.
Proof.
  intros k k2 l. unfold pairs_del. induction l as [|[k' v'] l IH]; [destruct (str_eqb k k2); reflexivity|].
  cbn [filter fst]. destruct (str_eqb k' k) eqn:E; cbn [negb].
  - rewrite IH. apply str_eqb_eq in E. subst k'. cbn [lookup]. destruct (str_eqb k k2); [reflexivity|].
    destruct (lookup k2 l); reflexivity.
  - cbn [lookup]. rewrite IH. destruct (str_eqb k k2) eqn:E2; [|reflexivity].
    apply str_eqb_eq in E2. subst k2. rewrite E. reflexivity.
Qed.

(* ------------------------------------------------------------------ the text API on top *)
Lemma dict_get_set : forall (k k1 : str) (v : text) d,
  dict_get k (dict_set k1 v d) = if str_eqb k1 k then Some v else dict_get k d.
Proof.
  intros k k1 v d. induction d as [|[k' v'] d IH].
  - cbn. destruct (str_eqb k1 k); reflexivity.
  - cbn [dict_set]. destruct (str_eqb k' k1) eqn:E1.
    + apply str_eqb_eq in E1. subst k'. cbn [dict_get]. destruct (str_eqb k1 k); reflexivity.
    + cbn [dict_get]. rewrite IH. destruct (str_eqb k' k) eqn:E2; [|reflexivity].
      apply str_eqb_eq in E2. subst k'. rewrite str_eqb_sym, E1. reflexivity.
Qed.

Lemma token_ascii_sweep : forallb (fun c => c <? 128) valid_token_bytes = true.
Proof. vm_compute. reflexivity. Qed.

Lemma valid_name_ascii : forall k, valid_cookie_name k = true -> is_ascii k = true.
Proof.
  intros k H. unfold valid_cookie_name, valid_cookie_name_res in H.
  destruct (forallb is_token k) eqn:Ht; cbn [negb] in H; [|discriminate].
  clear H. induction k as [|c k IH]; [reflexivity|]. cbn [forallb] in Ht. apply andb_true_iff in Ht. destruct Ht as [Hc Ht].
  cbn [is_ascii forallb]. fold (is_ascii k). rewrite (IH Ht), andb_true_r.
  unfold is_token in Hc. apply mem_n_In in Hc.
  exact (proj1 (forallb_forall _ _) token_ascii_sweep c Hc).
Qed.

Section Text.
  Variable dec : str -> option text.
  Hypothesis dec_ascii : forall k, is_ascii k = true -> dec k = Some k.

  Lemma cache_get : forall ps d0 d,
    (forall k v, In (k, v) ps -> is_ascii k = true) -> cache_fold dec ps d0 = Ok d ->
    forall k, dict_get k d = match lookup k ps with Some bv => dec bv | None => dict_get k d0 end.
  Proof.
    induction ps as [|[k1 v1] ps IH]; intros d0 d Hk Hc k.
    - cbn in Hc. inversion Hc. reflexivity.
    - cbn [cache_fold] in Hc. rewrite (dec_ascii k1 (Hk k1 v1 (or_introl eq_refl))) in Hc.
      destruct (dec v1) as [t1|] eqn:Hd; [|discriminate].
      rewrite (IH _ _ (fun k v H => Hk k v (or_intror H)) Hc k).
      cbn [lookup]. destruct (lookup k ps); [reflexivity|].
      rewrite dict_get_set. destruct (str_eqb k1 k); [symmetry; exact Hd|reflexivity].
  Qed.

  (* dict(req.cookies)[k], whenever the jar is readable as text, is the decoded value of the last pair named k *)
  Theorem request_cookies_lookup : forall st d, wf_jar st -> request_cookies dec st = Ok d ->
    forall k, dict_get k d = match lookup k (cookie_pairs st) with Some bv => dec bv | None => None end.
  Proof.
    intros st d [ps [tail [Hh Hwf]]] Hr k. unfold request_cookies in Hr.
    rewrite Hh, (wf_latin1 ps tail Hwf) in Hr. cbn [negb] in Hr.
    unfold cookie_pairs. rewrite Hh.
    assert (Hk : forall k0 v0, In (k0, v0) (parse_cookie (render ps tail)) -> is_ascii k0 = true).
    { intros k0 v0 Hin. unfold parse_cookie in Hin. apply filter_In in Hin. destruct Hin as [_ Hv].
      apply valid_name_ascii. exact Hv. }
    rewrite (cache_get _ _ _ Hk Hr k). reflexivity.
  Qed.
End Text.

(* ------------------------------------------------------------------ corollaries in the property's words *)
Definition not_named (n : str) (kv : str * str) : bool := negb (str_eqb (fst kv) n).

(* pairs of every other name keep their values and their order *)
Lemma others_set_last : forall n b l, filter (not_named n) (set_last n b l) = filter (not_named n) l.
Proof.
  intros n b l. induction l as [|[k v] l IH]; [reflexivity|].
  cbn [set_last]. destruct (str_eqb k n && negb (has_key n l)) eqn:Hc.
  - apply andb_true_iff in Hc. destruct Hc as [Hk _].
    assert (Hnn : forall x, not_named n (k, x) = false) by (intros; unfold not_named; cbn [fst]; rewrite Hk; reflexivity).
    cbn [filter]. rewrite !Hnn. reflexivity.
  - cbn [filter]. rewrite IH. reflexivity.
Qed.

Theorem others_intact_set : forall n b l, filter (not_named n) (pairs_set n b l) = filter (not_named n) l.
Proof.
  intros n b l. unfold pairs_set. destruct (has_key n l); [apply others_set_last|].
  rewrite filter_app. cbn [filter].
  replace (not_named n (n, b)) with false by (unfold not_named; cbn [fst]; rewrite str_eqb_refl; reflexivity).
  apply app_nil_r.
Qed.

Theorem others_intact_del : forall n l, filter (not_named n) (pairs_del n l) = filter (not_named n) l.
Proof.
  intros n l. unfold pairs_del. fold (not_named n). induction l as [|kv l IH]; [reflexivity|].
  cbn [filter]. destruct (not_named n kv) eqn:E; cbn [filter]; rewrite ?E, IH; reflexivity.
Qed.

Section Corollaries.
  Variable enc : text -> option str.
  Variable dec : str -> option text.
  Hypothesis enc_octets : forall t b, enc t = Some b -> is_latin1 b = true.
  Hypothesis dec_enc : forall t b, enc t = Some b -> dec b = Some t.
  Hypothesis dec_ascii : forall k, is_ascii k = true -> dec k = Some k.

  (* invalid names are rejected and nothing changes *)
  Theorem invalid_name_rejected : forall st name value e, check_name name = Raise e ->
    jar_set enc st name value = (st, Raise e) /\ jar_del enc st name = (st, Raise e).
  Proof. intros st name value e H. unfold jar_set, jar_del. rewrite H. split; reflexivity. Qed.

  (* deleting: KeyError exactly when no pair carries the name; otherwise every pair of that name goes *)
  Theorem delete_keyerror_iff : forall st name n, wf_jar st -> check_name name = Ok n ->
    (has_key n (cookie_pairs st) = false ->
       snd (jar_del enc st name) = Raise KeyError /\ cookie_pairs (fst (jar_del enc st name)) = cookie_pairs st) /\
    (has_key n (cookie_pairs st) = true ->
       snd (jar_del enc st name) = Ok tt /\ cookie_pairs (fst (jar_del enc st name)) = pairs_del n (cookie_pairs st)).
  Proof.
    intros st name n Hwf Hc. destruct (del_refines enc st name Hwf) as [_ Heq].
    unfold ref_del in Heq. rewrite Hc in Heq.
    split; intros Hh; rewrite Hh in Heq; inversion Heq; split; reflexivity.
  Qed.

  (* what was written is what is read, and every other name reads as before *)
  Theorem read_after_set : forall st name n v b d, wf_jar st -> check_name name = Ok n ->
    enc v = Some b -> plain_ok b = true ->
    request_cookies dec (fst (jar_set enc st name (Some v))) = Ok d ->
    snd (jar_set enc st name (Some v)) = Ok tt /\
    dict_get n d = Some v /\
    forall k, k <> n -> dict_get k d = match lookup k (cookie_pairs st) with Some bv => dec bv | None => None end.
  Proof.
    intros st name n v b d Hwf Hc He Hp Hr.
    assert (Hv : value_ok enc v = true) by (unfold value_ok; rewrite He; exact Hp).
    destruct (set_refines enc enc_octets st name (Some v) Hwf Hv) as [Hwf' Heq].
    unfold ref_set in Heq. rewrite Hc, He in Heq. inversion Heq as [[Hp' Hs']].
    split; [reflexivity|].
    pose proof (request_cookies_lookup dec dec_ascii _ d Hwf' Hr) as Hl.
    split.
    - rewrite Hl, Hp', lookup_pairs_set, str_eqb_refl. apply dec_enc. exact He.
    - intros k Hk. rewrite Hl, Hp', lookup_pairs_set.
      replace (str_eqb n k) with false by (symmetry; apply str_eqb_neq; congruence). reflexivity.
  Qed.
End Corollaries.

(* ------------------------------------------------------------------ the class restriction is needed *)
(* outside the class (a double quote opening a value that is never closed) an assignment to ANOTHER name can
   swallow a pair: the restriction to well-formed headers is not an artefact of the proof *)
Lemma outside_class_witness :
  let h := H "613d22783b20623d32"%string in                              (* a=Qx; b=2  with Q the double quote *)
  let ops := [RSet (Some (H "63"%string)) (Some (H "712072"%string))] in (* cookies[c] = q r *)
  cookie_pairs (rrun utf8_encode ops (Some h)) <> ref_rrun utf8_encode ops (cookie_pairs (Some h)).
Proof. vm_compute. discriminate. Qed.

(* ------------------------------------------------------------------ the codec laws are satisfiable *)
Definition ascii_enc (t : text) : option str := if is_ascii t then Some t else None.
Definition ascii_dec (b : str) : option text := if is_ascii b then Some b else None.
Lemma ascii_codec_laws :
  (forall t b, ascii_enc t = Some b -> is_latin1 b = true) /\
  (forall t b, ascii_enc t = Some b -> ascii_dec b = Some t) /\
  (forall k, is_ascii k = true -> ascii_dec k = Some k) /\
  (forall t, is_ascii t = true -> ascii_enc t = Some t).
Proof.
  unfold ascii_enc, ascii_dec. repeat split.
  - intros t b H. destruct (is_ascii t) eqn:E; [|discriminate]. inversion H; subst b.
    unfold is_ascii, is_latin1 in *. rewrite forallb_forall in *. intros x Hx. specialize (E x Hx).
    apply N.ltb_lt in E. apply N.ltb_lt. eapply N.lt_trans; [exact E|reflexivity].
  - intros t b H. destruct (is_ascii t) eqn:E; [|discriminate]. inversion H; subst b. rewrite E. reflexivity.
  - intros k H. rewrite H. reflexivity.
  - intros t H. rewrite H. reflexivity.
Qed.

(* ------------------------------------------------------------------ the class is decidable: wf_headerb *)
Lemma split61_app : forall w1 w2, forallb is_ws w1 = true -> split61 (w1 ++ 61 :: w2) = (w1, w2).
Proof.
  induction w1 as [|c w1 IH]; intros w2 H; [reflexivity|].
  cbn [forallb] in H. apply andb_true_iff in H. destruct H as [Hc H].
  cbn [app split61]. assert (Hne : (c =? 61) = false) by (unfold is_ws in Hc; lia).
  rewrite Hne, (IH w2 H). reflexivity.
Qed.

Lemma unval_text : forall v, val_ok v = true -> unval (val_text v) = v.
Proof.
  intros [u|b] Hv; cbn [val_text val_ok] in *.
  - destruct u as [|c u]; [reflexivity|]. cbn [forallb] in Hv. apply andb_true_iff in Hv. destruct Hv as [Hc _].
    destruct (legal_neq c Hc) as [H34 _]. unfold unval.
    destruct c as [|p]; [reflexivity|]. destruct (N.eq_dec (N.pos p) 34) as [E|E]; [contradiction|].
    repeat (destruct p as [p|p|]; try reflexivity); exfalso; apply E; reflexivity.
  - unfold unval. rewrite rev_app_distr. cbn [rev app]. rewrite rev_involutive. reflexivity.
Qed.

Lemma unentry_entry_of : forall g i, item_ok i = true -> unentry (entry_of (g, i)) = (g, i).
Proof.
  intros g i Hi. unfold item_ok in Hi.
  apply andb_true_iff in Hi. destruct Hi as [Hi Hv].
  apply andb_true_iff in Hi. destruct Hi as [Hi Hw2].
  apply andb_true_iff in Hi. destruct Hi as [Hk Hw1].
  unfold unentry, entry_of. cbn [e_sep e_gap e_key e_val fst snd]. unfold item_sep.
  rewrite (split61_app _ _ Hw1), (unval_text _ Hv). destruct i; reflexivity.
Qed.

Lemma unentry_entries : forall ps tail, wf_ps ps tail = true -> map unentry (entries_of ps) = ps.
Proof.
  induction ps as [|[g i] ps IH]; intros tail Hwf; [reflexivity|].
  destruct (wf_cons_inv _ _ _ _ Hwf) as [_ [Hi [_ Hrest]]].
  cbn [entries_of map]. fold (entries_of ps). rewrite (unentry_entry_of g i Hi), (IH tail Hrest). reflexivity.
Qed.

Theorem wf_headerb_iff : forall h, wf_headerb h = true <-> wf_header h.
Proof.
  intros h. unfold wf_headerb. split.
  - destruct (scan h) as [es tail]. intros H. apply andb_true_iff in H. destruct H as [Hwf Heq].
    apply str_eqb_eq in Heq. exists (map unentry es), tail. split; [symmetry; exact Heq|exact Hwf].
  - intros [ps [tail [-> Hwf]]]. rewrite (scan_wf ps tail Hwf), (unentry_entries ps tail Hwf), Hwf, str_eqb_refl. reflexivity.
Qed.
