(* C13 — host / port / domain lemmas and the behaviour of urlsplit on a URL assembled by webob. *)
From Coq Require Import NArith ZArith List Bool Lia ZifyBool ZifyNat ZifyN.
Require Import Webob.Lib.Val Webob.Lib.PyStr Webob.Lib.C13_Utf8 Webob.Gen.C13_tables
               Webob.Model.C13_urlsplit Webob.Model.C13_urlpath Webob.Spec.C13_spec Webob.Proofs.C13_quote.
Import ListNotations.
Local Open Scope N_scope.

(* ------------------------------------------------------------------ generic list facts *)
Lemma str_eqb_eq a b : str_eqb a b = true <-> a = b.
Proof.
  revert b. induction a as [|x a IH]; intros [|y b]; cbn [str_eqb]; split; intros H; try reflexivity; try discriminate.
  - apply andb_true_iff in H as [H1 H2]. apply N.eqb_eq in H1. apply IH in H2. subst. reflexivity.
  - injection H as -> ->. rewrite N.eqb_refl. apply IH. reflexivity.
Qed.

Lemma str_eqb_refl a : str_eqb a a = true.
Proof. apply str_eqb_eq. reflexivity. Qed.

Lemma str_eqb_neq a b : a <> b -> str_eqb a b = false.
Proof. intros H. destruct (str_eqb a b) eqn:E; [apply str_eqb_eq in E; contradiction|reflexivity]. Qed.

Lemma span_until_app f a b :
  forallb (fun c => negb (f c)) a = true ->
  (b = [] \/ exists c b', b = c :: b' /\ f c = true) ->
  span_until f (a ++ b) = (a, b).
Proof.
  intros Ha Hb. induction a as [|x a IH].
  - cbn [app]. destruct Hb as [-> | [c [b' [-> Hc]]]]; [reflexivity|]. cbn [span_until]. rewrite Hc. reflexivity.
  - cbn [forallb] in Ha. apply andb_true_iff in Ha as [Hx Ha]. cbn [app span_until].
    destruct (f x); [discriminate|]. rewrite (IH Ha). reflexivity.
Qed.

Lemma span_until_none f s : forallb (fun c => negb (f c)) s = true -> span_until f s = (s, []).
Proof.
  intros H. rewrite <- (app_nil_r s) at 1. apply span_until_app; [exact H|left; reflexivity].
Qed.

Lemma span_until_concat f s : fst (span_until f s) ++ snd (span_until f s) = s.
Proof.
  induction s as [|c s IH]; [reflexivity|]. cbn [span_until].
  destruct (f c); [reflexivity|]. destruct (span_until f s) as [a b]. cbn [fst snd app] in *. rewrite IH. reflexivity.
Qed.

Lemma span_until_fst f s : forallb (fun c => negb (f c)) (fst (span_until f s)) = true.
Proof.
  induction s as [|c s IH]; [reflexivity|]. cbn [span_until].
  destruct (f c) eqn:E; [reflexivity|]. destruct (span_until f s) as [a b]. cbn [fst forallb] in *. rewrite E, IH. reflexivity.
Qed.

Lemma span_until_snd f s : snd (span_until f s) = [] \/ exists c b', snd (span_until f s) = c :: b' /\ f c = true.
Proof.
  induction s as [|c s IH]; [left; reflexivity|]. cbn [span_until].
  destruct (f c) eqn:E; [right; eexists; eexists; split; [reflexivity|exact E]|].
  destruct (span_until f s) as [a b]. exact IH.
Qed.

Lemma forallb_rev {A} (f : A -> bool) l : forallb f (rev l) = forallb f l.
Proof.
  destruct (forallb f l) eqn:E.
  - rewrite forallb_forall in *. intros x Hx. apply E. apply in_rev. exact Hx.
  - destruct (forallb f (rev l)) eqn:E2; [|reflexivity].
    rewrite forallb_forall in E2. assert (forallb f l = true) as H.
    { apply forallb_forall. intros x Hx. apply E2. apply in_rev. rewrite rev_involutive. exact Hx. }
    congruence.
Qed.

Lemma forallb_impl {A} (f g : A -> bool) l : (forall x, f x = true -> g x = true) -> forallb f l = true -> forallb g l = true.
Proof.
  intros H Hf. rewrite forallb_forall in *. intros x Hx. apply H. apply Hf. exact Hx.
Qed.

Lemma mem_n_app c a b : mem_n c (a ++ b) = mem_n c a || mem_n c b.
Proof. induction a as [|x a IH]; [reflexivity|]. cbn [app mem_n]. rewrite IH. apply orb_assoc. Qed.

Lemma mem_n_none c l : forallb (fun x => negb (x =? c)) l = true -> mem_n c l = false.
Proof.
  induction l as [|x l IH]; [reflexivity|]. cbn [forallb mem_n]. intros H. apply andb_true_iff in H as [H1 H2].
  rewrite (IH H2). destruct (x =? c); [discriminate|reflexivity].
Qed.

Lemma last_app_ne {A} (a p : list A) d : p <> [] -> last (a ++ p) d = last p d.
Proof.
  intros Hp. induction a as [|x a IH]; [reflexivity|]. cbn [app]. rewrite <- IH.
  destruct (a ++ p) eqn:E; [|reflexivity]. apply app_eq_nil in E as [_ E]. contradiction.
Qed.

Lemma last_in {A} (p : list A) d : p <> [] -> In (last p d) p.
Proof.
  induction p as [|x p IH]; [contradiction|]. intros _. destruct p as [|y p]; [left; reflexivity|].
  right. apply IH. discriminate.
Qed.

Lemma filter_id {A} (f : A -> bool) l : forallb f l = true -> filter f l = l.
Proof.
  induction l as [|x l IH]; [reflexivity|]. cbn [forallb filter]. intros H. apply andb_true_iff in H as [H1 H2].
  rewrite H1, (IH H2). reflexivity.
Qed.

(* ------------------------------------------------------------------ host:port splitting *)
Lemma rsplit_colon_app d p : forallb (fun c => negb (is_colon c)) p = true -> rsplit_colon (d ++ 58 :: p) = (d, p).
Proof.
  intros Hp. unfold rsplit_colon. rewrite rev_app_distr. cbn [rev]. rewrite <- app_assoc. cbn [app].
  rewrite span_until_app.
  - rewrite !rev_involutive. reflexivity.
  - rewrite forallb_rev. exact Hp.
  - right. eexists; eexists; split; reflexivity.
Qed.

Lemma digits_no_colon p : forallb is_digit p = true -> forallb (fun c => negb (is_colon c)) p = true.
Proof. apply forallb_impl. intros x. unfold is_digit, is_colon. lia. Qed.

Lemma has_port_app d p : port_ok p -> has_port (d ++ 58 :: p) = true.
Proof.
  intros [Hne Hd]. unfold has_port. rewrite mem_n_app. cbn [mem_n]. rewrite N.eqb_refl, orb_true_r. cbn [andb].
  rewrite (last_app_ne d (58 :: p)) by discriminate.
  change (58 :: p) with ([58] ++ p). rewrite last_app_ne by exact Hne.
  pose proof (last_in p 0 Hne) as Hin. rewrite forallb_forall in Hd. apply Hd in Hin. unfold is_digit in Hin. lia.
Qed.

Lemma split_host_port_app d p : port_ok p -> split_host_port (d ++ 58 :: p) = (d, Some p).
Proof.
  intros Hp. unfold split_host_port. rewrite (has_port_app d p Hp).
  rewrite rsplit_colon_app by (apply digits_no_colon; apply Hp). reflexivity.
Qed.

Lemma name_no_colon n : forallb name_char n = true -> mem_n 58 n = false.
Proof.
  intros H. apply mem_n_none. revert H. apply forallb_impl. intros x. unfold name_char. lia.
Qed.

Lemma has_port_hs v6ok h : hs_ok v6ok h -> has_port (hs_text h) = false.
Proof.
  destruct h as [n|a]; cbn [hs_ok hs_text]; intros H; unfold has_port.
  - rewrite (name_no_colon n H). reflexivity.
  - change (91 :: a ++ [93]) with ((91 :: a) ++ [93]). rewrite last_app_ne by discriminate. cbn [last].
    rewrite N.eqb_refl. apply andb_false_r.
Qed.

Lemma split_host_header v6ok h p : hs_ok v6ok h -> oport_ok p ->
  split_host_port (hs_text h ++ port_sfx p) = (hs_text h, p).
Proof.
  intros Hh Hp. destruct p as [p|]; cbn [port_sfx oport_ok] in *.
  - apply split_host_port_app. exact Hp.
  - rewrite app_nil_r. unfold split_host_port. rewrite (has_port_hs v6ok h Hh). reflexivity.
Qed.

(* ------------------------------------------------------------------ domain, host_port, host_url of a request *)
Lemma view_split v6ok e h p : host_view v6ok e h p ->
  split_host_port (host e) = (hs_text h, p) /\
  match e_http_host e with
  | Some hh => split_host_port hh
  | None => (e_server_name e, Some (e_server_port e))
  end = (hs_text h, p).
Proof.
  intros [Hh [Hp [Hhdr|[Hnone [[n Hn] [Hsn Hsp]]]]]]; unfold host; rewrite ?Hhdr, ?Hnone.
  - split; apply (split_host_header v6ok); assumption.
  - subst p. cbn [oport_ok] in Hp. rewrite Hsn. split; [|reflexivity].
    apply split_host_port_app. exact Hp.
Qed.

Lemma view_domain v6ok e h p : host_view v6ok e h p -> domain e = hs_text h.
Proof. intros H. unfold domain. destruct (view_split _ _ _ _ H) as [-> _]. reflexivity. Qed.

Lemma view_host_port v6ok e h p : host_view v6ok e h p ->
  host_port e = match p with Some p => p | None => if str_eqb (e_scheme e) s_https then s_443 else s_80 end.
Proof.
  intros H. destruct (view_split _ _ _ _ H) as [_ H2]. unfold host_port.
  destruct H as [_ [Hpo [Hhdr|[Hnone [_ [_ Hsp]]]]]].
  - rewrite Hhdr in *. rewrite H2. cbn [snd]. destruct p as [[|c p']|]; try reflexivity.
    destruct Hpo as [Hne _]. contradiction.
  - rewrite Hnone. subst p. reflexivity.
Qed.

Lemma elide_default_cases sch p : elide_default sch p = None \/ elide_default sch p = p.
Proof.
  unfold elide_default. destruct (str_eqb sch s_https).
  - destruct p as [p|]; [destruct (str_eqb p s_443)|]; auto.
  - destruct (str_eqb sch s_http); [|auto]. destruct p as [p|]; [destruct (str_eqb p s_80)|]; auto.
Qed.

Lemma view_host_url v6ok e h p : host_view v6ok e h p ->
  host_url e = e_scheme e ++ s_css ++ hs_text h ++ port_sfx (elide_default (e_scheme e) p).
Proof.
  intros H. destruct (view_split _ _ _ _ H) as [_ H2]. unfold host_url. rewrite H2.
  destruct H as [_ [Hp _]].
  destruct (elide_default_cases (e_scheme e) p) as [-> | ->]; [reflexivity|].
  destruct p as [p|]; [|reflexivity]. cbn [port_sfx]. destruct Hp as [Hne _].
  destruct p; [contradiction|reflexivity].
Qed.

(* the default port is shown iff it is not the scheme's default *)
Lemma elide_is_default sch p : scheme_ok sch p ->
  let hp := match p with Some p => p | None => if str_eqb sch s_https then s_443 else s_80 end in
  port_sfx (elide_default sch p) = if is_default sch hp then [] else 58 :: hp.
Proof.
  intros Hs. unfold elide_default, is_default, default_port.
  destruct (str_eqb sch s_https) eqn:E1.
  - destruct p as [p|]; [destruct (str_eqb p s_443)|]; reflexivity.
  - destruct (str_eqb sch s_http) eqn:E2.
    + destruct p as [p|]; [destruct (str_eqb p s_80)|]; reflexivity.
    + destruct p as [p|]; [reflexivity|].
      destruct Hs as [-> | [->|[_ [_ Hn]]]]; [discriminate E2|discriminate E1|contradiction].
Qed.

Theorem default_port_elided v6ok e h p : host_view v6ok e h p -> scheme_ok (e_scheme e) p ->
  host_url e = e_scheme e ++ s_css ++ domain e ++
               (if is_default (e_scheme e) (host_port e) then [] else 58 :: host_port e).
Proof.
  intros Hv Hs. rewrite (view_host_url _ _ _ _ Hv), (view_domain _ _ _ _ Hv), (view_host_port _ _ _ _ Hv).
  rewrite (elide_is_default _ _ Hs). reflexivity.
Qed.

(* host_port is a well-formed port *)
Lemma view_host_port_ok v6ok e h p : host_view v6ok e h p -> port_ok (host_port e).
Proof.
  intros H. rewrite (view_host_port _ _ _ _ H). destruct H as [_ [Hp _]].
  destruct p as [p|]; [exact Hp|]. destruct (str_eqb (e_scheme e) s_https); split; (discriminate || reflexivity).
Qed.

(* ------------------------------------------------------------------ urlsplit on scheme://netloc path ?query *)
Definition netloc_char (c : N) : bool := printable c && negb (is_delim c).

Lemma lower_alpha_facts sch : forallb is_lower_alpha sch = true ->
  forallb (fun c => negb (is_colon c)) sch = true /\ forallb is_scheme_char sch = true /\
  map lower_ascii sch = sch /\ forallb (fun c => negb (negb (is_alpha_ci c))) sch = true /\
  forallb printable sch = true.
Proof.
  intros H. repeat split.
  - revert H. apply forallb_impl. intros x. unfold is_lower_alpha, is_colon. lia.
  - revert H. apply forallb_impl. intros x. unfold is_lower_alpha, is_scheme_char, is_alpha. lia.
  - induction sch as [|c sch IH]; [reflexivity|]. cbn [forallb] in H. apply andb_true_iff in H as [Hc Hs].
    cbn [map]. rewrite (IH Hs). unfold lower_ascii, is_lower_alpha in *.
    destruct ((65 <=? c) && (c <=? 90)) eqn:E; [lia|reflexivity].
  - revert H. apply forallb_impl. intros x Hx. unfold is_alpha_ci.
    assert (is_alpha x = true) as -> by (unfold is_lower_alpha, is_alpha in *; lia). reflexivity.
  - revert H. apply forallb_impl. intros x. unfold is_lower_alpha, printable. lia.
Qed.

Lemma split_scheme_lower sch rest : sch <> [] -> forallb is_lower_alpha sch = true ->
  split_scheme (sch ++ 58 :: rest) = (sch, rest).
Proof.
  intros Hne H. destruct (lower_alpha_facts sch H) as [H1 [H2 [H3 _]]].
  destruct sch as [|c0 t]; [contradiction|]. cbn [app]. unfold split_scheme.
  assert (is_alpha c0 = true) as ->.
  { cbn [forallb] in H. apply andb_true_iff in H as [H _]. unfold is_alpha, is_lower_alpha in *. lia. }
  change (c0 :: t ++ 58 :: rest) with ((c0 :: t) ++ 58 :: rest).
  rewrite span_until_app; [|exact H1|right; eexists; eexists; split; reflexivity].
  rewrite H2, H3. reflexivity.
Qed.

Section Split.
  Variable v6ok : str -> bool.
  Variables (sch netloc P q : str).
  Hypothesis Hsch_ne : sch <> [].
  Hypothesis Hsch : forallb is_lower_alpha sch = true.
  Hypothesis Hnet : forallb netloc_char netloc = true.
  Hypothesis Hbad : netloc_bad v6ok netloc = false.
  Hypothesis HP : forallb path_char P = true.
  Hypothesis HProot : rooted P.
  Hypothesis Hq : forallb query_char q = true.

  Let Q : str := if is_empty q then [] else 63 :: q.
  Let u : str := sch ++ s_css ++ netloc ++ P ++ Q.

  Lemma Q_chars : forallb printable Q = true /\ forallb (fun c => negb (c =? 35)) Q = true.
  Proof.
    assert (A : forallb printable q = true).
    { generalize Hq. apply forallb_impl. intros x. unfold query_char, printable. lia. }
    assert (B : forallb (fun c => negb (c =? 35)) q = true).
    { generalize Hq. apply forallb_impl. intros x. unfold query_char, printable. lia. }
    unfold Q. destruct (is_empty q); [split; reflexivity|]. cbn [forallb]. rewrite A, B. split; reflexivity.
  Qed.

  Lemma PQ_head : P ++ Q = [] \/ exists c b', P ++ Q = c :: b' /\ is_delim c = true.
  Proof.
    destruct HProot as [-> | [t ->]].
    - cbn [app]. unfold Q. destruct q; [left; reflexivity|]. right. eexists; eexists; split; reflexivity.
    - right. eexists; eexists; split; reflexivity.
  Qed.

  Lemma u_printable : forallb printable u = true.
  Proof.
    unfold u. rewrite !forallb_app. destruct (lower_alpha_facts sch Hsch) as [_ [_ [_ [_ ->]]]].
    destruct Q_chars as [-> _]. cbn [andb].
    assert (forallb printable netloc = true) as ->.
    { revert Hnet. apply forallb_impl. intros x. unfold netloc_char. lia. }
    assert (forallb printable P = true) as ->.
    { revert HP. apply forallb_impl. intros x. unfold path_char. lia. }
    reflexivity.
  Qed.

  Lemma sch_head : exists c0 t, sch = c0 :: t /\ is_lower_alpha c0 = true.
  Proof.
    destruct sch as [|c0 t]; [contradiction|]. cbn [forallb] in Hsch. apply andb_true_iff in Hsch as [H _].
    eexists; eexists; split; [reflexivity|exact H].
  Qed.

  Lemma urlsplit_built : urlsplit v6ok u = SOk sch netloc P q [].
  Proof.
    unfold urlsplit, urlsplit_with.
    destruct sch_head as [c0 [t [Es Hc0]]].
    (* lstrip: the first character is a letter *)
    assert (drop_while c0_or_space u = u) as ->.
    { unfold u. rewrite Es. cbn [app drop_while]. unfold c0_or_space, is_lower_alpha in *.
      destruct (c0 <=? 32) eqn:E; [lia|reflexivity]. }
    (* no TAB / CR / LF anywhere *)
    rewrite filter_id by (generalize u_printable; apply forallb_impl; intros x; unfold printable, unsafe_byte; lia).
    (* the scheme *)
    assert (split_scheme u = (sch, 47 :: 47 :: netloc ++ P ++ Q)) as ->.
    { unfold u, s_css. cbn [app]. apply split_scheme_lower; assumption. }
    assert (is_empty sch = false) as -> by (rewrite Es; reflexivity).
    (* the network location: up to the first of "/?#" *)
    rewrite span_until_app; [| |exact PQ_head].
    2:{ revert Hnet. apply forallb_impl. intros x. unfold netloc_char. lia. }
    rewrite Hbad.
    (* no fragment *)
    assert (split_first 35 (P ++ Q) = (P ++ Q, [])) as ->.
    { unfold split_first. rewrite span_until_none; [reflexivity|].
      rewrite forallb_app. destruct Q_chars as [_ ->]. rewrite andb_true_r.
      revert HP. apply forallb_impl. intros x. unfold path_char. lia. }
    (* the query *)
    assert (split_first 63 (P ++ Q) = (P, q)) as ->.
    { unfold split_first, Q. destruct q as [|c q'].
      - cbn [is_empty]. rewrite app_nil_r. rewrite span_until_none; [reflexivity|].
        revert HP. apply forallb_impl. intros x. unfold path_char. lia.
      - cbn [is_empty]. rewrite span_until_app; [reflexivity| |right; eexists; eexists; split; reflexivity].
        revert HP. apply forallb_impl. intros x. unfold path_char. lia. }
    assert (forallb is_ascii netloc = true) as ->.
    { revert Hnet. apply forallb_impl. intros x. unfold netloc_char, printable, is_ascii. lia. }
    reflexivity.
  Qed.

  Lemma scheme_re_built : scheme_re_search u = true.
  Proof.
    unfold scheme_re_search, u.
    destruct (lower_alpha_facts sch Hsch) as [_ [_ [_ [H4 _]]]].
    unfold s_css. cbn [app]. rewrite span_until_app; [|exact H4|right; eexists; eexists; split; reflexivity].
    destruct sch; [contradiction|reflexivity].
  Qed.
End Split.

(* ------------------------------------------------------------------ netloc of a well-formed host *)
Lemma partition_c_none d s : mem_n d s = false -> partition_c d s = (s, false, []).
Proof.
  induction s as [|c s IH]; [reflexivity|]. cbn [mem_n partition_c]. intros H.
  destruct (c =? d) eqn:E; [discriminate|]. cbn [orb] in H. rewrite (IH H). reflexivity.
Qed.

Lemma partition_c_app d a b : mem_n d a = false -> partition_c d (a ++ d :: b) = (a, true, b).
Proof.
  induction a as [|c a IH]; intros H.
  - cbn [app partition_c]. rewrite N.eqb_refl. reflexivity.
  - cbn [mem_n] in H. cbn [app partition_c]. destruct (c =? d) eqn:E; [discriminate|]. cbn [orb] in H.
    rewrite (IH H). reflexivity.
Qed.

Lemma digits_no c p : forallb is_digit p = true -> (c =? 91) || (c =? 93) = true -> mem_n c p = false.
Proof.
  intros H Hc. apply mem_n_none. revert H. apply forallb_impl. intros x. unfold is_digit. lia.
Qed.

Lemma sfx_no_bracket c p : oport_ok p -> (c =? 91) || (c =? 93) = true -> mem_n c (port_sfx p) = false.
Proof.
  intros Hp Hc. destruct p as [p|]; [|reflexivity]. cbn [port_sfx mem_n].
  rewrite (digits_no c p) by (apply Hp || exact Hc). destruct (58 =? c) eqn:E; [lia|reflexivity].
Qed.

Lemma netloc_of_host v6ok h p : hs_ok v6ok h -> oport_ok p ->
  forallb netloc_char (hs_text h ++ port_sfx p) = true /\ netloc_bad v6ok (hs_text h ++ port_sfx p) = false.
Proof.
  intros Hh Hp.
  assert (Hs : forallb netloc_char (port_sfx p) = true).
  { destruct p as [p|]; [|reflexivity]. cbn [port_sfx forallb]. destruct Hp as [_ Hd].
    apply andb_true_iff; split; [reflexivity|]. revert Hd. apply forallb_impl. intros x.
    unfold is_digit, netloc_char, printable, is_delim. lia. }
  split.
  - rewrite forallb_app, Hs, andb_true_r. destruct h as [n|a]; cbn [hs_ok hs_text] in *.
    + revert Hh. apply forallb_impl. intros x. unfold name_char, netloc_char. lia.
    + destruct Hh as [Ha _].
      assert (A : forallb netloc_char a = true).
      { revert Ha. apply forallb_impl. intros x. unfold v6_char, name_char, netloc_char, printable, is_delim. lia. }
      cbn [forallb]. rewrite forallb_app, A. reflexivity.
  - unfold netloc_bad. rewrite !mem_n_app.
    rewrite (sfx_no_bracket 91 p Hp) by reflexivity. rewrite (sfx_no_bracket 93 p Hp) by reflexivity.
    rewrite !orb_false_r.
    destruct h as [n|a]; cbn [hs_ok hs_text] in *.
    + assert (mem_n 91 n = false) as ->.
      { apply mem_n_none. revert Hh. apply forallb_impl. intros x. unfold name_char. lia. }
      assert (mem_n 93 n = false) as ->.
      { apply mem_n_none. revert Hh. apply forallb_impl. intros x. unfold name_char. lia. }
      reflexivity.
    + destruct Hh as [Ha Hok].
      assert (A91 : mem_n 91 a = false).
      { apply mem_n_none. revert Ha. apply forallb_impl. intros x. unfold v6_char, name_char. lia. }
      assert (A93 : mem_n 93 a = false).
      { apply mem_n_none. revert Ha. apply forallb_impl. intros x. unfold v6_char, name_char. lia. }
      assert (M91 : mem_n 91 (91 :: a ++ [93]) = true) by (cbn [mem_n]; rewrite N.eqb_refl; reflexivity).
      assert (M93 : mem_n 93 (91 :: a ++ [93]) = true).
      { cbn [mem_n]. rewrite mem_n_app. cbn [mem_n]. rewrite N.eqb_refl, orb_true_r. apply orb_true_r. }
      rewrite M91, M93. cbn [negb andb orb].
      assert (bracket_content ((91 :: a ++ [93]) ++ port_sfx p) = a) as ->.
      { unfold bracket_content.
        replace ((91 :: a ++ [93]) ++ port_sfx p) with ([] ++ 91 :: (a ++ 93 :: port_sfx p))
          by (cbn [app]; rewrite <- app_assoc; reflexivity).
        rewrite partition_c_app by reflexivity.
        rewrite partition_c_app by exact A93. reflexivity. }
      rewrite Hok. reflexivity.
Qed.

(* ------------------------------------------------------------------ "Host: name:" — an empty port is no port *)
Lemma split_host_port_empty v6ok h : hs_ok v6ok h -> split_host_port (hs_text h ++ [58]) = (hs_text h, Some []).
Proof.
  intros Hh. unfold split_host_port, has_port. rewrite mem_n_app. cbn [mem_n]. rewrite N.eqb_refl, orb_true_r.
  rewrite last_app_ne by discriminate. cbn [last N.eqb Pos.eqb negb andb].
  rewrite rsplit_colon_app by reflexivity. reflexivity.
Qed.

Definition with_host (e : environ) (hh : str) : environ :=
  mkEnv (e_scheme e) (Some hh) (e_server_name e) (e_server_port e) (e_script e) (e_path e) (e_query e) (e_enc e).

Theorem empty_port_equiv v6ok e h : hs_ok v6ok h ->
  let e1 := with_host e (hs_text h ++ [58]) in
  let e0 := with_host e (hs_text h) in
  host_port e1 = host_port e0 /\ domain e1 = domain e0 /\ host_url e1 = host_url e0 /\
  application_url e1 = application_url e0 /\ path_url e1 = path_url e0 /\ url e1 = url e0 /\
  path e1 = path e0 /\ path_qs e1 = path_qs e0.
Proof.
  intros Hh. cbv zeta.
  assert (S1 := split_host_port_empty v6ok h Hh).
  assert (S0 : split_host_port (hs_text h) = (hs_text h, None)).
  { unfold split_host_port. rewrite (has_port_hs v6ok h Hh). reflexivity. }
  assert (Hu : host_url (with_host e (hs_text h ++ [58])) = host_url (with_host e (hs_text h))).
  { unfold host_url, with_host. cbn [e_http_host e_scheme]. rewrite S1, S0. unfold elide_default.
    destruct (str_eqb (e_scheme e) s_https); [reflexivity|]. destruct (str_eqb (e_scheme e) s_http); reflexivity. }
  split; [unfold host_port, with_host; cbn [e_http_host e_scheme]; rewrite S1, S0; reflexivity|].
  split; [unfold domain, host, with_host; cbn [e_http_host]; rewrite S1, S0; reflexivity|].
  split; [exact Hu|].
  unfold url, path_qs, path_url, application_url. rewrite Hu. repeat split; reflexivity.
Qed.
