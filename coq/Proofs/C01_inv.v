(* C01 — the cache invariant of the (repaired) Request model and its preservation by every
   operation, by every read, and hence by every history. *)
From Coq Require Import ZArith NArith List Bool String Lia.
Require Import Webob.Lib.Val Webob.Lib.PyStr Webob.Lib.C01_Str Webob.Model.MultiDict Webob.Model.C01_EnvView
               Webob.Spec.C01_View Webob.Proofs.C08_multidict Webob.Proofs.C01_env.
Import ListNotations.
Local Open Scope list_scope.

Section Inv.
  Variable P : Type.
  Variable CCOP : Type.
  Variable parse_qs : str -> items + str.
  Variable urlencode : items -> str.
  Variable parse_cookie : str -> list (str * str).
  Variable valid_name : str -> bool.
  Variable cookie_edit : str -> str -> option str -> str * bool.
  Variable parse_cc : str -> P.
  Variable ser_cc : P -> str.
  Variable cc_empty : P -> bool.
  Variable cc_apply : CCOP -> P -> option P * val.
  Variable cc_obs : P -> val.
  Variable detect_charset : str -> str.

  (* the one law the coherence of GET depends on (C09 proves it for the concrete codec):
     what GetDict.on_change writes parses back to the items of the view *)
  Hypothesis qs_roundtrip : forall l, parse_qs (urlencode l) = inl l.
  Hypothesis qs_empty : parse_qs [] = inl [].

  Notation st := (st P).
  Notation op := (op P CCOP).
  Notation qdata := (qdata parse_qs).
  Notation get_GET := (get_GET P parse_qs).
  Notation get_mut := (get_mut P urlencode).
  Notation get_cookies := (get_cookies P parse_cookie).
  Notation mutate_header := (mutate_header P cookie_edit).
  Notation get_CC := (get_CC P parse_cc ser_cc cc_empty repaired).
  Notation cc_mut := (cc_mut P CCOP ser_cc cc_apply repaired).
  Notation cc_assign := (cc_assign P ser_cc repaired).
  Notation cc_callback := (cc_callback P ser_cc repaired).
  Notation rd := (rd P parse_qs parse_cookie parse_cc ser_cc cc_empty cc_obs detect_charset repaired).
  Notation step := (step P CCOP parse_qs urlencode parse_cookie valid_name cookie_edit parse_cc ser_cc cc_empty
                         cc_apply cc_obs detect_charset repaired).
  Notation run := (run P CCOP parse_qs urlencode parse_cookie valid_name cookie_edit parse_cc ser_cc cc_empty
                       cc_apply cc_obs detect_charset repaired).

  Lemma qdata_urlencode l : qdata (urlencode l) = inl l.
  Proof.
    unfold Spec.C01_View.qdata. destruct (urlencode l) as [|c0 q] eqn:E; cbn [is_nil].
    - pose proof (qs_roundtrip l) as R. rewrite E, qs_empty in R. exact R.
    - rewrite <- E. apply qs_roundtrip.
  Qed.

  (* ---------------------------------------------------------------- the invariant *)
  Record Inv (s : st) : Prop := mkInv {
    inv_q : forall id qs, env_get K_QCACHE (env s) = Some (EQCache id qs) ->
                          exists l, nth_error (gets s) id = Some l /\ qdata qs = inl l;
    inv_ck : forall jar h, env_get K_CKCACHE (env s) = Some (ECkCache jar h) -> jar = parse_cookie h;
    inv_cc : forall h id, env_get K_CCCACHE (env s) = Some (ECCCache (Some (h, id))) ->
                          exists o, nth_error (ccs s) id = Some o /\ (cc_bound P o = true -> cc_props P o = parse_cc h);
    inv_hg : Forall (fun id => (id < List.length (gets s))%nat) (hgets s);
    inv_hc : Forall (fun id => (id < List.length (ccs s))%nat) (hccs s) }.

  (* a state without cache tuples and without views satisfies it: the start of every history *)
  Lemma Inv_init e : (forall k, is_cache_key k = true -> env_get k e = None) -> Inv (init P e).
  Proof.
    intros H. split; cbn; auto.
    - intros id qs E. rewrite (H _ cache_QCACHE) in E. discriminate.
    - intros jar h E. rewrite (H _ cache_CKCACHE) in E. discriminate.
    - intros h id E. rewrite (H _ cache_CCCACHE) in E. discriminate.
  Qed.

  (* writes that leave the three cache entries and the heaps alone *)
  Lemma Inv_plain s e' :
    env_get K_QCACHE e' = env_get K_QCACHE (env s) ->
    env_get K_CKCACHE e' = env_get K_CKCACHE (env s) ->
    env_get K_CCCACHE e' = env_get K_CCCACHE (env s) ->
    Inv s -> Inv (with_env P s e').
  Proof.
    intros Hq Hk Hc [Iq Ik Ic Ig Ih]. split; cbn; auto.
    - intros id qs E. rewrite Hq in E. auto.
    - intros jar h E. rewrite Hk in E. auto.
    - intros h id E. rewrite Hc in E. auto.
  Qed.

  Lemma Inv_set_noncache s k v : is_cache_key k = false -> Inv s -> Inv (with_env P s (env_set k v (env s))).
  Proof.
    intros Hk. apply Inv_plain; apply env_get_set_other; apply noncache_neq; auto using cache_QCACHE, cache_CKCACHE, cache_CCCACHE.
  Qed.
  Lemma Inv_del_noncache s k : is_cache_key k = false -> Inv s -> Inv (with_env P s (env_del k (env s))).
  Proof.
    intros Hk. apply Inv_plain; apply env_get_del_other; apply noncache_neq; auto using cache_QCACHE, cache_CKCACHE, cache_CCCACHE.
  Qed.

  Lemma with_env_env s : with_env P s (env s) = s.
  Proof. destruct s; reflexivity. Qed.

  Lemma Inv_update s l :
    Inv s -> Inv (with_env P s (fold_left (fun e kv => env_set (trans_name (fst kv)) (EStr (snd kv)) e) l (env s))).
  Proof.
    revert s. induction l as [|[n v] l IH]; intros s I; cbn [fold_left].
    - rewrite with_env_env. exact I.
    - specialize (IH (with_env P s (env_set (trans_name n) (EStr v) (env s)))
                     (Inv_set_noncache s _ _ (trans_name_noncache n) I)).
      destruct s; exact IH.
  Qed.

  (* ---------------------------------------------------------------- GET *)
  Lemma get_GET_spec s : Inv s ->
    Inv (snd (get_GET s)) /\
    match fst (get_GET s) with
    | inl id => exists l, nth_error (gets (snd (get_GET s))) id = Some l /\ qdata (src K_QS (env s)) = inl l
    | inr exc => qdata (src K_QS (env s)) = inr exc /\ snd (get_GET s) = s
    end.
  Proof.
    intros I. unfold C01_EnvView.get_GET.
    set (source := src K_QS (env s)).
    assert (Miss : let r := match qdata source with
                            | inr exc => (inr exc, s)
                            | inl data =>
                                (inl (List.length (gets s)),
                                 mkSt P (env_set K_QCACHE (EQCache (List.length (gets s)) source) (env s)) (gets s ++ [data])
                                      (ccs s) (hgets s) (hccs s) (wcs s))
                            end in
                   Inv (snd r) /\
                   match fst r with
                   | inl id => exists l, nth_error (gets (snd r)) id = Some l /\ qdata source = inl l
                   | inr exc => qdata source = inr exc /\ snd r = s
                   end).
    { cbv zeta. destruct (qdata source) as [data|exc] eqn:Q; cbn [fst snd].
      - split.
        + destruct I as [Iq Ik Ic Ig Ih]. split; cbn [env gets ccs hgets hccs].
          * intros id qs E. rewrite env_get_set_same in E. injection E as <- <-.
            exists data. split; [apply nth_error_app_length|exact Q].
          * intros jar h E. rewrite env_get_set_other in E by exact ne_Q_CK. auto.
          * intros h id E. rewrite env_get_set_other in E by exact ne_Q_CC. auto.
          * eapply Forall_impl; [|exact Ig]. intros a Ha. cbv beta in *. rewrite app_length. cbn. lia.
          * exact Ih.
        + exists data. split; [apply nth_error_app_length|reflexivity].
      - split; [exact I|split; reflexivity]. }
    cbv zeta in Miss.
    destruct (env_get K_QCACHE (env s)) as [[| | |id qs| | |]|] eqn:E; try exact Miss.
    destruct (str_eqb qs source) eqn:Eq; [|exact Miss].
    apply str_eqb_eq in Eq. subst qs. cbn [fst snd]. split; [exact I|].
    destruct (inv_q s I _ _ E) as [l [Hl Hq]]. exists l. split; auto.
  Qed.

  Lemma get_mut_inv s id m : Inv s -> (id < List.length (gets s))%nat -> Inv (snd (get_mut id m s)).
  Proof.
    intros I Hid. unfold C01_EnvView.get_mut.
    destruct (step_i (fun k => k) false md_get_other (nth id (gets s) []) m) as [its' ret].
    destruct (is_verr ret); cbn [snd]; [exact I|].
    destruct I as [Iq Ik Ic Ig Ih]. unfold on_change. split; cbn [env gets ccs hgets hccs].
    - intros id' qs E. rewrite env_get_set_same in E. injection E as <- <-.
      exists its'. split; [apply nth_error_set_nth_same; exact Hid|apply qdata_urlencode].
    - intros jar h E. rewrite env_get_set_other in E by exact ne_Q_CK.
      rewrite env_get_set_other in E by (apply noncache_neq; [exact noncache_QS|exact cache_CKCACHE]). auto.
    - intros h id' E. rewrite env_get_set_other in E by exact ne_Q_CC.
      rewrite env_get_set_other in E by (apply noncache_neq; [exact noncache_QS|exact cache_CCCACHE]). auto.
    - rewrite length_set_nth. exact Ig.
    - exact Ih.
  Qed.

  (* ---------------------------------------------------------------- cookies *)
  Lemma get_cookies_spec s : Inv s ->
    Inv (snd (get_cookies s)) /\ fst (get_cookies s) = parse_cookie (src K_COOKIE (env s)).
  Proof.
    intros I. unfold C01_EnvView.get_cookies.
    set (header := src K_COOKIE (env s)).
    assert (Miss : Inv (with_env P s (env_set K_CKCACHE (ECkCache (parse_cookie header) header) (env s)))).
    { destruct I as [Iq Ik Ic Ig Ih]. split; cbn [with_env env gets ccs hgets hccs]; auto.
      - intros id qs E. rewrite env_get_set_other in E by exact ne_CK_Q. auto.
      - intros jar h E. rewrite env_get_set_same in E. injection E as <- <-. reflexivity.
      - intros h id E. rewrite env_get_set_other in E by exact ne_CK_CC. auto. }
    destruct (env_get K_CKCACHE (env s)) as [[| | | |jar h| |]|] eqn:E; cbn [fst snd]; try (split; [exact Miss|reflexivity]).
    destruct (str_eqb h header) eqn:Eh; cbn [fst snd]; [|split; [exact Miss|reflexivity]].
    apply str_eqb_eq in Eh. subst h. split; [exact I|]. exact (inv_ck s I _ _ E).
  Qed.

  Lemma mutate_header_inv s n v : Inv s -> Inv (snd (mutate_header n v s)).
  Proof.
    intros I. unfold C01_EnvView.mutate_header.
    destruct (match env_get K_COOKIE (env s) with Some (EStr h) => (true, h) | _ => (false, []) end) as [had header].
    destruct (cookie_edit header n v) as [header' found]. cbn [snd].
    destruct (negb (is_nil header')); [apply Inv_set_noncache; [exact noncache_COOKIE|exact I]|].
    destruct had; [apply Inv_set_noncache; [exact noncache_COOKIE|exact I]|].
    rewrite with_env_env. exact I.
  Qed.

  (* ---------------------------------------------------------------- cache_control *)
  (* the callback drops the cached object, so it re-establishes the invariant whatever the cache entry was *)
  Lemma cc_callback_inv s p :
    (forall id qs, env_get K_QCACHE (env s) = Some (EQCache id qs) ->
                   exists l, nth_error (gets s) id = Some l /\ qdata qs = inl l) ->
    (forall jar h, env_get K_CKCACHE (env s) = Some (ECkCache jar h) -> jar = parse_cookie h) ->
    Forall (fun id => (id < List.length (gets s))%nat) (hgets s) ->
    Forall (fun id => (id < List.length (ccs s))%nat) (hccs s) ->
    Inv (cc_callback p s).
  Proof.
    intros Iq Ik Ig Ih. unfold C01_EnvView.cc_callback. cbn [cc_update_invalidates repaired].
    split; cbn [with_env env gets ccs hgets hccs]; auto.
    - intros id qs E. rewrite env_get_set_other in E by exact ne_CC_Q.
      rewrite env_get_set_other in E by (apply noncache_neq; [exact noncache_CC|exact cache_QCACHE]). auto.
    - intros jar h E. rewrite env_get_set_other in E by exact ne_CC_CK.
      rewrite env_get_set_other in E by (apply noncache_neq; [exact noncache_CC|exact cache_CKCACHE]). auto.
    - intros h id E. rewrite env_get_set_same in E. discriminate.
  Qed.

  Lemma Forall_set_nth {A} (Q : A -> Prop) l i x : Forall Q l -> Q x -> Forall Q (set_nth i x l).
  Proof.
    intros Hl Hx. revert i. induction Hl as [|y l Hy Hl IH]; intros i; destruct i; cbn; auto.
  Qed.

  Lemma get_CC_spec s : Inv s ->
    Inv (snd (get_CC s)) /\
    exists o, nth_error (ccs (snd (get_CC s))) (fst (get_CC s)) = Some o /\ cc_bound P o = true /\
              cc_props P o = parse_cc (src K_CC (env s)).
  Proof.
    intros I. unfold C01_EnvView.get_CC.
    set (value := src K_CC (env s)).
    set (p := parse_cc value).
    set (id := List.length (ccs s)).
    set (s1 := mkSt P (env s) (gets s) (ccs s ++ [mkCC P p true]) (hgets s) (hccs s) (wcs s)).
    set (s2 := if cc_empty p then s1 else cc_callback p s1).
    assert (I1 : Inv s1).
    { destruct I as [Iq Ik Ic Ig Ih]. split; cbn [s1 env gets ccs hgets hccs]; auto.
      - intros h id' E. destruct (Ic _ _ E) as [o [Ho Hp]]. exists o. split; auto.
        rewrite nth_error_app1; auto. apply nth_error_Some. congruence.
      - eapply Forall_impl; [|exact Ih]. intros a Ha. cbv beta in *. rewrite app_length. cbn. lia. }
    assert (I2 : Inv s2) by (unfold s2; destruct (cc_empty p); [exact I1|destruct I1; apply cc_callback_inv; assumption]).
    assert (C2 : ccs s2 = ccs s ++ [mkCC P p true]) by (unfold s2; destruct (cc_empty p); reflexivity).
    assert (Miss : Inv (with_env P s2 (env_set K_CCCACHE (ECCCache (Some (value, id))) (env s2))) /\
                   exists o, nth_error (ccs (with_env P s2 (env_set K_CCCACHE (ECCCache (Some (value, id))) (env s2)))) id = Some o
                             /\ cc_bound P o = true /\ cc_props P o = parse_cc value).
    { split.
      - destruct I2 as [Iq Ik Ic Ig Ih]. split; cbn [with_env env gets ccs hgets hccs]; auto.
        + intros id' qs E. rewrite env_get_set_other in E by exact ne_CC_Q. auto.
        + intros jar h E. rewrite env_get_set_other in E by exact ne_CC_CK. auto.
        + intros h id' E. rewrite env_get_set_same in E. injection E as <- <-.
          exists (mkCC P p true). rewrite C2. split; [apply nth_error_app_length|reflexivity].
      - exists (mkCC P p true). cbn [with_env ccs]. rewrite C2. split; [apply nth_error_app_length|split; reflexivity]. }
    destruct (env_get K_CCCACHE (env s)) as [[| | | | |[[h id']|]|]|] eqn:E; cbn [fst snd]; try exact Miss.
    cbn [cc_reuse_needs_bound repaired negb orb].
    destruct (str_eqb h value) eqn:Eh; cbn [andb fst snd]; [|exact Miss].
    destruct (inv_cc s I _ _ E) as [o [Ho Hp]]. rewrite Ho.
    destruct (cc_bound P o) eqn:Hb; cbn [fst snd]; [|exact Miss].
    apply str_eqb_eq in Eh. subst h. split; [exact I|]. exists o. auto.
  Qed.

  Lemma cc_mut_inv s id m : Inv s -> Inv (snd (cc_mut id m s)).
  Proof.
    intros I. unfold C01_EnvView.cc_mut.
    destruct (nth_error (ccs s) id) as [o|] eqn:Eo; cbn [snd]; [|exact I].
    destruct (cc_apply m (cc_props P o)) as [[p'|] ret]; cbn [snd]; [|exact I].
    assert (Hid : (id < List.length (ccs s))%nat) by (apply nth_error_Some; congruence).
    destruct I as [Iq Ik Ic Ig Ih].
    destruct (cc_bound P o) eqn:Hb.
    - apply cc_callback_inv; cbn [env gets ccs hgets hccs]; auto.
      rewrite length_set_nth. exact Ih.
    - (* an object that is not bound to this environ (a plain dict, or one that belongs to the environ this one was
         copied from): nothing is written here, and nothing is claimed about such an object *)
      split; cbn [env gets ccs hgets hccs]; auto.
      + intros h id0 E. destruct (Ic _ _ E) as [o0 [Ho0 Hp0]].
        destruct (Nat.eq_dec id id0) as [<-|Hne].
        * exists (mkCC P p' false). split; [apply nth_error_set_nth_same; exact Hid|]. cbn. discriminate.
        * exists o0. split; [rewrite nth_error_set_nth_other by exact Hne; exact Ho0|exact Hp0].
      + rewrite length_set_nth. exact Ih.
  Qed.

  Lemma cc_assign_inv s a : Inv s -> Inv (cc_assign a s).
  Proof.
    intros [Iq Ik Ic Ig Ih]. unfold C01_EnvView.cc_assign. cbn [cc_assign_keeps_obj repaired].
    destruct a as [t|p]; (split; cbn [with_env env gets ccs hgets hccs]; auto;
      [ intros id qs E; rewrite env_get_set_other in E by exact ne_CC_Q;
        rewrite env_get_set_other in E by (apply noncache_neq; [exact noncache_CC|exact cache_QCACHE]); auto
      | intros jar h E; rewrite env_get_set_other in E by exact ne_CC_CK;
        rewrite env_get_set_other in E by (apply noncache_neq; [exact noncache_CC|exact cache_CKCACHE]); auto
      | intros h id E; rewrite env_get_set_same in E; discriminate ]).
  Qed.

  Lemma cc_del_inv s : Inv s -> Inv (with_env P s (env_del K_CCCACHE (env_del K_CC (env s)))).
  Proof.
    intros [Iq Ik Ic Ig Ih]. split; cbn [with_env env gets ccs hgets hccs]; auto.
    - intros id qs E. rewrite env_get_del_other in E by exact ne_CC_Q.
      rewrite env_get_del_other in E by (apply noncache_neq; [exact noncache_CC|exact cache_QCACHE]). auto.
    - intros jar h E. rewrite env_get_del_other in E by exact ne_CC_CK.
      rewrite env_get_del_other in E by (apply noncache_neq; [exact noncache_CC|exact cache_CKCACHE]). auto.
    - intros h id E. rewrite env_get_del_same in E. discriminate.
  Qed.

  (* the shallow copy of the environ: its cache tuples refer to objects that do not belong to it *)
  Lemma copy_env_inv s : Inv s -> Inv (copy_env P s).
  Proof.
    intros [Iq Ik Ic Ig Ih]. unfold copy_env.
    set (f := fun v : eval => match v with EQCache id qs => EQForeign (nth id (gets s) []) qs | v => v end).
    assert (E : map (fun kv : str * eval => match snd kv with
                                           | EQCache id qs => (fst kv, EQForeign (nth id (gets s) []) qs)
                                           | v => (fst kv, v)
                                           end) (env s)
                = map (fun kv => (fst kv, f (snd kv))) (env s)).
    { apply map_ext. intros [k v]. destruct v; reflexivity. }
    rewrite E. split; cbn [env gets ccs hgets hccs]; auto.
    - intros id qs H. rewrite env_get_map in H. destruct (env_get K_QCACHE (env s)) as [v|]; [|discriminate].
      destruct v; discriminate.
    - intros jar h H. rewrite env_get_map in H. destruct (env_get K_CKCACHE (env s)) as [v|] eqn:Ev; [|discriminate].
      destruct v; try discriminate. cbn in H. injection H as <- <-. eapply Ik; eauto.
    - intros h id H. rewrite env_get_map in H. destruct (env_get K_CCCACHE (env s)) as [v|] eqn:Ev; [|discriminate].
      destruct v as [| | | | |c0|]; try discriminate. cbn in H. injection H as ->.
      destruct (Ic _ _ eq_refl) as [o [Ho _]]. exists (mkCC P (cc_props P o) false).
      split; [exact (map_nth_error (fun o => mkCC P (cc_props P o) false) _ _ Ho)|]. cbn. discriminate.
  Qed.

  (* ---------------------------------------------------------------- reads *)
  Lemma rd_inv g w s : Inv s -> Inv (snd (rd g w s)).
  Proof.
    intros I. destruct g; cbn [C01_EnvView.rd snd]; auto.
    - destruct (get_GET_spec s I) as [I' _]. destruct (get_GET s) as [[id|exc] s']; exact I'.
    - destruct (get_cookies_spec s I) as [I' _]. destruct (get_cookies s) as [jar s']; exact I'.
    - destruct (get_CC_spec s I) as [I' _]. destruct (get_CC s) as [id s']; exact I'.
    - unfold get_charset. destruct (nth w (wcs s) None); cbn [snd]; [exact I|].
      destruct I as [Iq Ik Ic Ig Ih]. split; cbn [env gets ccs hgets hccs]; auto.
  Qed.

  (* ---------------------------------------------------------------- every operation *)
  Lemma held_lt_gets s i id : Inv s -> held P HGet i s = Some id -> (id < List.length (gets s))%nat.
  Proof.
    intros I H. unfold held in H. pose proof (inv_hg s I) as F. rewrite Forall_forall in F.
    apply F. eapply nth_error_In; eauto.
  Qed.

  Lemma step_inv s o : wf_op P CCOP o -> Inv s -> Inv (snd (step s o)).
  Proof.
    intros W I. destruct o; cbn [wf_op] in W; cbn [C01_EnvView.step].
    - (* OEnvSet *) apply Inv_set_noncache; auto.
    - apply Inv_del_noncache; auto.
    - (* OGetterSet *) destruct v; cbn [snd]; [apply Inv_set_noncache|apply Inv_del_noncache]; auto.
    - (* OGetterDel *) destruct (env_has k (env s)); cbn [snd]; [apply Inv_del_noncache|]; auto.
    - apply Inv_set_noncache; auto.
    - (* OEtagSet *) destruct v; cbn [snd]; [apply Inv_set_noncache|apply Inv_del_noncache]; auto.
    - (* OAcceptSet *) destruct v; cbn [snd]; [apply Inv_set_noncache|apply Inv_del_noncache]; auto.
    - (* OContentTypeSet *) destruct v; cbn [snd]; [apply Inv_set_noncache|apply Inv_del_noncache]; auto using noncache_CT.
    - apply Inv_set_noncache; auto using noncache_HOST.
    - apply Inv_del_noncache; auto using noncache_HOST.
    - (* OHdrSet *) apply Inv_set_noncache; auto using trans_name_noncache.
    - destruct (env_has (trans_name n) (env s)); cbn [snd]; [apply Inv_del_noncache|]; auto using trans_name_noncache.
    - destruct (env_get (trans_name n) (env s)); cbn [snd]; [apply Inv_del_noncache|]; auto using trans_name_noncache.
    - destruct (env_get (trans_name n) (env s)); cbn [snd]; [|apply Inv_set_noncache]; auto using trans_name_noncache.
    - (* OHdrUpdate *) cbn [snd]. apply Inv_update. exact I.
    - (* OHold *) destruct k.
      + destruct (get_GET_spec s I) as [I' R]. destruct (get_GET s) as [[id|exc] s']; cbn [fst snd] in *; [|exact I'].
        destruct R as [l [Hl _]]. destruct I' as [Iq Ik Ic Ig Ih]. split; cbn [env gets ccs hgets hccs]; auto.
        apply Forall_app. split; auto. constructor; auto. apply nth_error_Some. congruence.
      + destruct (get_CC_spec s I) as [I' R]. destruct (get_CC s) as [id s']; cbn [fst snd] in *.
        destruct R as [o [Ho _]]. destruct I' as [Iq Ik Ic Ig Ih]. split; cbn [env gets ccs hgets hccs]; auto.
        apply Forall_app. split; auto. constructor; auto. apply nth_error_Some. congruence.
    - (* OGetMut *) destruct h as [|i].
      + destruct (get_GET_spec s I) as [I' R]. destruct (get_GET s) as [[id|exc] s']; cbn [fst snd] in *; [|exact I'].
        destruct R as [l [Hl _]]. apply get_mut_inv; auto. apply nth_error_Some. congruence.
      + destruct (held P HGet i s) as [id|] eqn:Eh; cbn [snd]; [|exact I].
        apply get_mut_inv; auto. eapply held_lt_gets; eauto.
    - (* OCookieSet *) destruct (valid_name n); cbn [snd]; [apply mutate_header_inv|]; auto.
    - destruct (valid_name n); cbn [snd]; [|exact I].
      pose proof (mutate_header_inv s n None I) as M. destruct (mutate_header n None s) as [found s']. exact M.
    - apply Inv_set_noncache; auto using noncache_COOKIE.
    - (* OCCMut *) destruct h as [|i].
      + destruct (get_CC_spec s I) as [I' _]. destruct (get_CC s) as [id s']; cbn [fst snd] in *. apply cc_mut_inv; auto.
      + destruct (held P HCC i s) as [id|]; cbn [snd]; [apply cc_mut_inv|]; auto.
    - apply cc_assign_inv; auto.
    - apply cc_del_inv; auto.
    - (* ORead *) cbn [snd]. apply rd_inv; auto.
    - (* OCopyEnv *) cbn [snd]. apply copy_env_inv; auto.
  Qed.

  Theorem run_inv ops : forall s, Forall (wf_op P CCOP) ops -> Inv s -> Inv (run ops s).
  Proof.
    induction ops as [|o ops IH]; intros s W I; cbn; [exact I|].
    inversion W as [|? ? Wo Wops]; subst. apply IH; auto. apply step_inv; auto.
  Qed.
End Inv.
