(* C05 — lookup: the truncation loop of best_match enumerates exactly RFC 4647 3.4's truncations,
   and lookup is the first hit over (range priority, truncation step, offered order) followed by the
   defaults cascade. *)
From Coq Require Import PeanoNat NArith List Bool Lia Sorted Permutation.
Require Import Webob.Lib.Val Webob.Lib.PyStr Webob.Model.C05_AcceptLang Webob.Spec.C05_Rfc4647
               Webob.Proofs.C05_sort.
Import ListNotations.
Local Open Scope N_scope.

(* ------------------------------------------------------------------ split / join *)
Lemma split_c_nonnil sep s : split_c sep s <> [].
Proof.
  induction s as [|c s IH]; cbn; [discriminate|].
  destruct (c =? sep); [discriminate|]. destruct (split_c sep s); discriminate.
Qed.

Lemma join_cons2 sep (x y : str) l : join sep (x :: y :: l) = x ++ sep ++ join sep (y :: l).
Proof. reflexivity. Qed.

Lemma join_split sep s : join [sep] (split_c sep s) = s.
Proof.
  induction s as [|c s IH]; [reflexivity|]. cbn [split_c].
  destruct (split_c sep s) as [|f fs] eqn:Es; [exfalso; eapply split_c_nonnil; eauto|].
  destruct (c =? sep) eqn:E.
  - apply N.eqb_eq in E. subst c. rewrite join_cons2, IH. reflexivity.
  - destruct fs as [|g fs].
    + cbn in *. rewrite IH. reflexivity.
    + rewrite join_cons2. rewrite join_cons2 in IH. rewrite <- IH. reflexivity.
Qed.

(* ------------------------------------------------------------------ the inner scan *)
Lemma lk_scan_find nacc range tags :
  lk_scan nacc range tags (map lower tags) = find (hitsb nacc range) tags.
Proof.
  induction tags as [|t ts IH]; cbn; [reflexivity|]. unfold hitsb at 1.
  destruct (in_strs (lower t) nacc) eqn:Ez; cbn.
  - rewrite andb_false_r. exact IH.
  - rewrite andb_true_r. destruct (str_eqb (lower t) range); [reflexivity | exact IH].
Qed.

Lemma hitsb_hits z c t : hitsb z c t = true <-> hits z c t.
Proof.
  unfold hitsb, hits. rewrite andb_true_iff, negb_true_iff, str_eqb_eq, in_strs_false. reflexivity.
Qed.

(* ------------------------------------------------------------------ the truncation loop *)
Definition res_of (o : option str) : bm_res :=
  match o with Some t => BMHit t | None => BMNone end.

Lemma removelast_rev {A} (a : A) l : removelast (rev (a :: l)) = rev l.
Proof. cbn [rev]. apply removelast_last. Qed.

Lemma rev_cons_nonnil {A} (a : A) l : rev (a :: l) <> [].
Proof. cbn. intros H. apply app_eq_nil in H as [_ H]. discriminate. Qed.

Lemma bm_loop_spec nacc tags : forall fuel rs, rs <> [] -> (length rs < fuel)%nat ->
  bm_loop fuel nacc tags (map lower tags) (join [dash] (rev rs)) (rev rs) =
  res_of (first_hit nacc (map (fun x => join [dash] (rev x)) (truncs_rev rs)) tags).
Proof.
  induction fuel as [|fuel IH]; intros rs Hne Hlen; [lia|].
  destruct rs as [|l rest]; [contradiction|].
  cbn [bm_loop]. rewrite lk_scan_find.
  cbn [truncs_rev map first_hit].
  destruct (find (hitsb nacc (join [dash] (rev (l :: rest)))) tags) as [t|] eqn:Ef; [reflexivity|].
  unfold before_last. rewrite rev_involutive.
  destruct rest as [|b rest']; [reflexivity|].
  cbn [length] in Hlen.
  destruct (singleton b) eqn:Es.
  - rewrite (removelast_rev l (b :: rest')), (removelast_rev b rest').
    destruct rest' as [|c r'']; [reflexivity|].
    destruct (rev (c :: r'')) as [|s0 l0] eqn:Er; [exfalso; eapply rev_cons_nonnil; eauto|].
    rewrite <- Er. apply IH; [discriminate | cbn [length] in *; lia].
  - rewrite (removelast_rev l (b :: rest')).
    destruct (rev (b :: rest')) as [|s0 l0] eqn:Er; [exfalso; eapply rev_cons_nonnil; eauto|].
    rewrite <- Er. apply IH; [discriminate | cbn [length] in *; lia].
Qed.

(* best_match(range_) returns the first hit over the truncations of the range, never runs out of fuel *)
Lemma best_match_spec nacc tags r :
  best_match nacc tags (map lower tags) r = res_of (first_hit nacc (truncations r) tags).
Proof.
  unfold best_match, truncations, truncation_seqs.
  pose proof (split_c_nonnil dash r) as Hne.
  pose proof (join_split dash r) as Hj.
  remember (split_c dash r) as subs eqn:Hs. clear Hs.
  remember (rev subs) as rs eqn:Hrs.
  assert (Hsubs : subs = rev rs) by (subst rs; symmetry; apply rev_involutive).
  subst subs. clear Hrs.
  rewrite <- Hj.
  rewrite bm_loop_spec.
  - rewrite map_map. reflexivity.
  - intros ->. apply Hne. reflexivity.
  - rewrite rev_length. lia.
Qed.

(* ------------------------------------------------------------------ the first loop of lookup *)
Lemma lk_tables_fold p : forall a0 nacc acc,
  fold_left (fun st e => lk_scan_step e st) p (a0, nacc, acc) =
  (a0 || star_q0 p, nacc ++ zero_ranges p, acc ++ nonzero_ranges p).
Proof.
  unfold star_q0, zero_ranges, nonzero_ranges.
  induction p as [|[r q] p IH]; intros a0 nacc acc; cbn [fold_left].
  - cbn. rewrite orb_false_r, !app_nil_r. reflexivity.
  - cbn [lk_scan_step existsb filter map fst snd].
    destruct (str_eqb r star) eqn:Er, (q =? 0) eqn:Eq; cbn [negb andb orb]; rewrite IH; cbn [map fst snd].
    + rewrite orb_true_r. reflexivity.
    + reflexivity.
    + rewrite <- app_assoc. reflexivity.
    + rewrite <- app_assoc. reflexivity.
Qed.

Lemma lk_tables_spec p : lk_tables_of p = (star_q0 p, zero_ranges p, nonzero_ranges p).
Proof. unfold lk_tables_of. rewrite lk_tables_fold. reflexivity. Qed.

(* ------------------------------------------------------------------ the loop over header ranges *)
Lemma first_hit_app z a b tags :
  first_hit z (a ++ b) tags =
  match first_hit z a tags with Some t => Some t | None => first_hit z b tags end.
Proof.
  induction a as [|c a IH]; cbn; [reflexivity|].
  destruct (find (hitsb z c) tags); [reflexivity | exact IH].
Qed.

Lemma lk_ranges_spec nacc tags (l : parsed) :
  lk_ranges nacc tags (map lower tags) (map fst l) =
  res_of (first_hit nacc (flat_map (fun e => truncations (lower (fst e))) l) tags).
Proof.
  induction l as [|e l IH]; cbn [map lk_ranges flat_map]; [reflexivity|].
  rewrite best_match_spec, first_hit_app.
  destruct (first_hit nacc (truncations (lower (fst e))) tags); cbn [res_of]; [reflexivity | exact IH].
Qed.

(* ------------------------------------------------------------------ lookup = its specification *)
Theorem lookup_is_spec p tags dr dt dn : lookup p tags dr dt dn = lookup_spec p tags dr dt dn.
Proof.
  unfold lookup, lookup_spec. rewrite lk_tables_spec.
  fold (is_star_opt dr). fold (priority p).
  rewrite lk_ranges_spec. fold (header_candidates p).
  destruct dt as [t|], dn; try reflexivity;
    (destruct (is_star_opt dr); [reflexivity|];
     destruct (first_hit (zero_ranges p) (header_candidates p) tags); cbn [res_of]; [reflexivity|];
     destruct (star_q0 p); [reflexivity|];
     destruct dr as [r|]; [rewrite best_match_spec;
                           destruct (first_hit (zero_ranges p) (truncations (lower r)) tags); reflexivity
                          | reflexivity]).
Qed.

Corollary lookup_never_fuel p tags dr dt dn : lookup p tags dr dt dn <> LFuel.
Proof.
  rewrite lookup_is_spec. unfold lookup_spec.
  destruct dt as [t|], dn; try discriminate;
    (destruct (is_star_opt dr); [discriminate|];
     destruct (first_hit _ (header_candidates p) tags); [discriminate|];
     destruct (star_q0 p); [discriminate|];
     repeat match goal with |- context [match ?x with _ => _ end] => destruct x end; discriminate).
Qed.

(* ------------------------------------------------------------------ truncation facts (RFC 4647 3.4) *)
Lemma truncation_seqs_nil : truncation_seqs [] = [].
Proof. reflexivity. Qed.

Lemma truncation_seqs_one s : truncation_seqs [s] = [[s]].
Proof. reflexivity. Qed.

Lemma truncation_seqs_step pre b l :
  truncation_seqs (pre ++ [b; l]) =
  (pre ++ [b; l]) :: (if singleton b then truncation_seqs pre else truncation_seqs (pre ++ [b])).
Proof.
  unfold truncation_seqs.
  replace (pre ++ [b; l]) with ((pre ++ [b]) ++ [l]) by (rewrite <- app_assoc; reflexivity).
  rewrite !rev_unit. cbn [truncs_rev map].
  rewrite <- rev_unit, <- rev_unit, rev_involutive.
  destruct (singleton b); reflexivity.
Qed.

(* every candidate is a proper "prefix of subtags" of the range: here, the head of the list is the
   range itself *)
Lemma truncations_head r : exists rest, truncations r = r :: rest.
Proof.
  unfold truncations, truncation_seqs.
  pose proof (split_c_nonnil dash r) as Hne. pose proof (join_split dash r) as Hj.
  destruct (rev (split_c dash r)) as [|l rest] eqn:Er.
  - apply (f_equal (@rev str)) in Er. rewrite rev_involutive in Er. cbn in Er. contradiction.
  - cbn [truncs_rev map]. rewrite <- Er, rev_involutive, Hj. eexists. reflexivity.
Qed.

(* ------------------------------------------------------------------ first_hit, declaratively *)
Lemma find_some_index {A} (f : A -> bool) l x :
  find f l = Some x ->
  exists i, nth_error l i = Some x /\ f x = true /\
            forall i' x', (i' < i)%nat -> nth_error l i' = Some x' -> f x' = false.
Proof.
  induction l as [|a l IH]; cbn; [discriminate|].
  destruct (f a) eqn:E; intros H.
  - injection H as <-. exists 0%nat. split; [reflexivity|]. split; [exact E|]. intros i' x' Hlt. lia.
  - destruct (IH H) as [i [Hn [Hf Hmin]]]. exists (S i). split; [exact Hn|]. split; [exact Hf|].
    intros [|i'] x' Hlt Hn'; cbn in Hn'.
    + injection Hn' as <-. exact E.
    + apply (Hmin i'); [lia | exact Hn'].
Qed.

Lemma not_hits z c t : hitsb z c t = false -> ~ hits z c t.
Proof. intros H Hh. apply hitsb_hits in Hh. congruence. Qed.

Lemma first_hit_some z cands tags t :
  first_hit z cands tags = Some t ->
  exists k i c, nth_error cands k = Some c /\ nth_error tags i = Some t /\ hits z c t /\
    (forall i' t', (i' < i)%nat -> nth_error tags i' = Some t' -> ~ hits z c t') /\
    (forall k' c' t', (k' < k)%nat -> nth_error cands k' = Some c' -> In t' tags -> ~ hits z c' t').
Proof.
  induction cands as [|c cs IH]; cbn; [discriminate|].
  destruct (find (hitsb z c) tags) as [t0|] eqn:Ef; intros H.
  - injection H as ->. destruct (find_some_index _ _ _ Ef) as [i [Hn [Hf Hmin]]].
    exists 0%nat, i, c. split; [reflexivity|]. split; [exact Hn|]. split; [apply hitsb_hits; exact Hf|].
    split.
    + intros i' t' Hlt Hn'. apply not_hits. eapply Hmin; eauto.
    + intros k' c' t' Hlt. lia.
  - destruct (IH H) as [k [i [c0 [Hk [Hi [Hh [Hmin1 Hmin2]]]]]]].
    exists (S k), i, c0. split; [exact Hk|]. split; [exact Hi|]. split; [exact Hh|]. split; [exact Hmin1|].
    intros [|k'] c' t' Hlt Hk' Hin; cbn in Hk'.
    + injection Hk' as <-. apply not_hits. eapply find_none; eauto.
    + apply (Hmin2 k'); [lia | exact Hk' | exact Hin].
Qed.

Lemma first_hit_none z cands tags :
  first_hit z cands tags = None <-> forall c t, In c cands -> In t tags -> ~ hits z c t.
Proof.
  induction cands as [|c cs IH]; cbn.
  - split; [intros _ c t [] | reflexivity].
  - destruct (find (hitsb z c) tags) as [t0|] eqn:Ef.
    + split; [discriminate|]. intros H. exfalso.
      apply find_some in Ef as [Hin Hf]. apply (H c t0); [left; reflexivity | exact Hin | apply hitsb_hits; exact Hf].
    + rewrite IH. split.
      * intros H c' t [<-|Hc] Ht; [apply not_hits; eapply find_none; eauto | apply H; assumption].
      * intros H c' t Hc Ht. apply H; [right; exact Hc | exact Ht].
Qed.

(* the declarative reading determines the result: two hits that are both first coincide *)
Lemma first_hit_unique z cands tags k i c t k2 i2 c2 t2 :
  nth_error cands k = Some c -> nth_error tags i = Some t -> hits z c t ->
  (forall i' t', (i' < i)%nat -> nth_error tags i' = Some t' -> ~ hits z c t') ->
  (forall k' c' t', (k' < k)%nat -> nth_error cands k' = Some c' -> In t' tags -> ~ hits z c' t') ->
  nth_error cands k2 = Some c2 -> nth_error tags i2 = Some t2 -> hits z c2 t2 ->
  (forall i' t', (i' < i2)%nat -> nth_error tags i' = Some t' -> ~ hits z c2 t') ->
  (forall k' c' t', (k' < k2)%nat -> nth_error cands k' = Some c' -> In t' tags -> ~ hits z c' t') ->
  t = t2.
Proof.
  intros Hk Hi Hh Hm1 Hm2 Hk2 Hi2 Hh2 Hn1 Hn2.
  assert (k = k2) as <-.
  { destruct (Nat.lt_trichotomy k k2) as [Hlt|[->|Hlt]]; [|reflexivity|].
    - exfalso. apply (Hn2 k c t Hlt Hk); [eapply nth_error_In; eauto | exact Hh].
    - exfalso. apply (Hm2 k2 c2 t2 Hlt Hk2); [eapply nth_error_In; eauto | exact Hh2]. }
  assert (c2 = c) as -> by congruence.
  assert (i = i2) as <-.
  { destruct (Nat.lt_trichotomy i i2) as [Hlt|[->|Hlt]]; [|reflexivity|].
    - exfalso. apply (Hn1 i t Hlt Hi). exact Hh.
    - exfalso. apply (Hm1 i2 t2 Hlt Hi2). exact Hh2. }
  congruence.
Qed.

(* ------------------------------------------------------------------ priority of header ranges *)
Lemma priority_perm p : Permutation (priority p) (nonzero_ranges p).
Proof. apply sort_k_perm. Qed.

Lemma priority_sorted p :
  StronglySorted (fun x y : str * N => snd y <= snd x) (priority p).
Proof.
  pose proof (sort_k_sorted true (@snd str N) (nonzero_ranges p)) as H. fold (priority p) in H.
  induction H as [|x s Hs IH Hx]; constructor; [exact IH|].
  rewrite Forall_forall in *. intros y Hy. specialize (Hx y Hy). unfold kstrict in Hx. lia.
Qed.

Lemma priority_stable p q :
  filter (fun e : str * N => snd e =? q) (priority p) = filter (fun e => snd e =? q) (nonzero_ranges p).
Proof. apply sort_k_stable. Qed.

(* ------------------------------------------------------------------ consequences named in the statement *)
Lemma zero_ranges_In p z :
  In z (zero_ranges p) <-> exists r, In (r, 0) p /\ r <> star /\ lower r = z.
Proof.
  unfold zero_ranges. rewrite in_map_iff. split.
  - intros [[r q] [E Hin]]. apply filter_In in Hin as [Hin Hf]. cbn in *.
    apply andb_true_iff in Hf as [Hs Hq]. apply negb_true_iff, str_eqb_neq in Hs. apply N.eqb_eq in Hq. subst q.
    exists r. auto.
  - intros [r [Hin [Hs E]]]. exists (r, 0). split; [exact E|]. apply filter_In. split; [exact Hin|]. cbn.
    apply andb_true_iff. split; [apply negb_true_iff, str_eqb_neq; exact Hs | reflexivity].
Qed.

Lemma first_hit_In z cands tags t :
  first_hit z cands tags = Some t -> In t tags /\ ~ In (lower t) z /\ In (lower t) cands.
Proof.
  intros H. destruct (first_hit_some _ _ _ _ H) as [k [i [c [Hk [Hi [[Hl Hz] _]]]]]].
  split; [eapply nth_error_In; eauto|]. split; [exact Hz|]. rewrite Hl. eapply nth_error_In; eauto.
Qed.

(* a returned str is an offered tag in its original spelling, or default_tag; never one whose
   lower-cased form is listed with q=0 *)
Lemma lookup_tag_sound p tags dr dt dn t :
  lookup p tags dr dt dn = LTag t ->
  (In t tags \/ dt = Some t) /\ ~ In (lower t) (zero_ranges p).
Proof.
  rewrite lookup_is_spec. unfold lookup_spec.
  destruct dt as [t0|], dn; try discriminate;
    (destruct (is_star_opt dr); [discriminate|];
     destruct (first_hit _ (header_candidates p) tags) as [t1|] eqn:E1;
     [intros H; injection H as <-; apply first_hit_In in E1 as [H1 [H2 _]]; tauto|];
     destruct (star_q0 p); [discriminate|];
     destruct dr as [r|];
     [destruct (first_hit _ (truncations (lower r)) tags) as [t2|] eqn:E2;
      [intros H; injection H as <-; apply first_hit_In in E2 as [H1 [H2 _]]; tauto|]|]).
  all: try (destruct (in_strs (lower t0) (zero_ranges p)) eqn:Ez; [discriminate|];
            intros H; injection H as <-; apply in_strs_false in Ez; tauto).
  all: discriminate.
Qed.

(* '*;q=0' suppresses default_range and default_tag *)
Lemma lookup_star_q0 p tags dr dt dn :
  star_q0 p = true -> first_hit (zero_ranges p) (header_candidates p) tags = None ->
  lookup p tags dr dt dn = LDefault \/ lookup p tags dr dt dn = LTypeError \/ lookup p tags dr dt dn = LValueError.
Proof.
  intros Hs Hn. rewrite lookup_is_spec. unfold lookup_spec. rewrite Hn, Hs.
  destruct dt, dn, (is_star_opt dr); auto.
Qed.

(* ------------------------------------------------------------------ invalid / missing header *)
Lemma nohdr_spec (tags : list str) dt dn :
  basic_filtering_nohdr tags = [] /\
  lookup_nohdr dt dn = match dt with
                       | Some t => LTag t
                       | None => if dn then LTypeError else LDefault
                       end.
Proof. split; [reflexivity|]. destruct dt, dn; reflexivity. Qed.

(* argument errors, exactly *)
Definition is_answer (r : lres) : Prop :=
  match r with LTag _ | LDefault => True | _ => False end.

Lemma lookup_spec_star p tags dr dt dn :
  ~ (dt = None /\ dn = true) -> is_star_opt dr = true -> lookup_spec p tags dr dt dn = LValueError.
Proof.
  intros Hn Hs. unfold lookup_spec. rewrite Hs. destruct dt, dn; try reflexivity. exfalso. apply Hn. auto.
Qed.

Lemma lookup_spec_answer p tags dr dt dn :
  ~ (dt = None /\ dn = true) -> is_star_opt dr = false -> is_answer (lookup_spec p tags dr dt dn).
Proof.
  intros Hn Hs. unfold lookup_spec. rewrite Hs.
  destruct dt, dn; try (exfalso; apply Hn; auto; fail);
    repeat match goal with |- context [match ?x with _ => _ end] => destruct x end; exact I.
Qed.

Lemma is_star_opt_iff dr : is_star_opt dr = true <-> dr = Some star.
Proof.
  destruct dr as [r|]; cbn; [rewrite str_eqb_eq; split; congruence | split; discriminate].
Qed.

Lemma lookup_errors p tags dr dt dn :
  (lookup p tags dr dt dn = LTypeError <-> (dt = None /\ dn = true)) /\
  (lookup p tags dr dt dn = LValueError <-> (~ (dt = None /\ dn = true) /\ dr = Some star)).
Proof.
  rewrite lookup_is_spec.
  assert (Hdec : (dt = None /\ dn = true) \/ ~ (dt = None /\ dn = true)).
  { destruct dt, dn; try (right; intros [H1 H2]; discriminate); left; auto. }
  destruct Hdec as [[-> ->]|Hn].
  - change (lookup_spec p tags dr None true) with LTypeError.
    split; split; try discriminate; auto. intros [H _]. exfalso. apply H. auto.
  - destruct (is_star_opt dr) eqn:Es.
    + rewrite (lookup_spec_star _ _ _ _ _ Hn Es). split; split; try discriminate; try contradiction; auto.
      intros _. split; [exact Hn | apply is_star_opt_iff; exact Es].
    + pose proof (lookup_spec_answer p tags dr dt dn Hn Es) as Ha.
      assert (Hns : dr <> Some star) by (intros H; apply is_star_opt_iff in H; congruence).
      destruct (lookup_spec p tags dr dt dn); cbn in Ha; try contradiction;
        (split; split; try discriminate; try contradiction; intros [_ H]; contradiction).
Qed.

(* text literals for the examples in Props/C05.v *)
From Coq Require Import String Ascii.
Definition txt (x : string) : str := map N_of_ascii (list_ascii_of_string x).

(* ------------------------------------------------------------------ call histories *)
(* every answer in a history on one object is the answer of the independent call on the header, and
   `.parsed` reads the same after every call *)
Lemma run_history_pure p ops :
  run_history p ops = map (fun o => VList [hop_answer p o; parsed_val p]) ops.
Proof. induction ops as [|o ops IH]; cbn; [reflexivity|]. rewrite IH. reflexivity. Qed.

Lemma run_history_nth p ops i o :
  nth_error ops i = Some o ->
  nth_error (run_history p ops) i = Some (VList [hop_answer p o; parsed_val p]).
Proof. intros H. rewrite run_history_pure, nth_error_map, H. reflexivity. Qed.
