(* C01 — the names request.headers lists lead back to the keys they were listed for: _trans_name is a left inverse
   of _trans_key on the CGI keys that stand for headers (the two meta-variables, their HTTP_ look-alikes, and
   HTTP_ followed by upper-case letters, digits and "_").  headers.py:113-130. *)
From Coq Require Import ZArith NArith List Bool String Lia.
Require Import Webob.Lib.Val Webob.Lib.PyStr Webob.Lib.C01_Str Webob.Model.MultiDict Webob.Model.C01_EnvView
               Webob.Proofs.C08_multidict Webob.Proofs.C01_env Webob.Proofs.C01_hdrkey.
Import ListNotations.
Local Open Scope list_scope.

(* the characters of a CGI variable name after HTTP_ *)
Definition cgi_char (c : N) : bool :=
  (((65 <=? c) && (c <=? 90)) || ((48 <=? c) && (c <=? 57)) || (c =? 95))%N.
(* ... and of the header name spelled with "-" *)
Definition dash (c : N) : N := if (c =? 95)%N then 45%N else c.

Definition listed_facts (c : N) : bool :=
  implb (cgi_char c)
        ((c <? 128)%N && negb (c =? 45)%N && negb (dash c =? 95)%N
         && str_eqb (py_upper (lower_c1 (dash c))) [dash c] && str_eqb (py_upper (title_c1 (dash c))) [dash c]).

Lemma listed_facts_sweep : forallb listed_facts ascii = true.
Proof. vm_compute. reflexivity. Qed.

Lemma cgi_char_small c : cgi_char c = true -> (c < 128)%N.
Proof.
  unfold cgi_char. intros H. apply orb_prop in H. destruct H as [H|H].
  - apply orb_prop in H. destruct H as [H|H]; apply andb_prop in H; destruct H as [_ H]; apply N.leb_le in H; lia.
  - apply N.eqb_eq in H. lia.
Qed.

Lemma listed_char c : cgi_char c = true ->
  (c =? 45)%N = false /\ (dash c =? 95)%N = false /\
  py_upper (lower_c1 (dash c)) = [dash c] /\ py_upper (title_c1 (dash c)) = [dash c].
Proof.
  intros H. pose proof listed_facts_sweep as S. rewrite forallb_forall in S.
  specialize (S c (in_ascii c (cgi_char_small c H))). unfold listed_facts in S. rewrite H in S. cbn [implb] in S.
  repeat (apply andb_prop in S; destruct S as [S ?]).
  repeat split; try (apply str_eqb_eq; assumption); apply negb_true_iff; assumption.
Qed.

Lemma py_upper_app a b : py_upper (a ++ b) = py_upper a ++ py_upper b.
Proof. unfold py_upper. apply flat_map_app. Qed.

Lemma upper_title X : forallb cgi_char X = true -> forall b, py_upper (title_go b (map dash X)) = map dash X.
Proof.
  induction X as [|c X IH]; intros H b; cbn [map title_go]; [reflexivity|].
  cbn [forallb] in H. apply andb_prop in H. destruct H as [Hc HX].
  destruct (listed_char c Hc) as [_ [_ [E1 E2]]].
  rewrite py_upper_app, (IH HX). destruct b; [rewrite E1|rewrite E2]; reflexivity.
Qed.

Lemma replace_is_dash X : replace_cc 95 45 X = map dash X.
Proof. reflexivity. Qed.

Lemma undash X : forallb cgi_char X = true -> replace_cc 45 95 (map dash X) = X.
Proof.
  unfold replace_cc. induction X as [|c X IH]; intros H; cbn [map]; [reflexivity|].
  cbn [forallb] in H. apply andb_prop in H. destruct H as [Hc HX]. rewrite (IH HX). f_equal.
  destruct (listed_char c Hc) as [E45 _]. unfold dash. destruct (c =? 95)%N eqn:E95.
  - apply N.eqb_eq in E95. subst c. reflexivity.
  - rewrite E45. reflexivity.
Qed.

Lemma no95_dash X : forallb cgi_char X = true -> mem_n 95 (map dash X) = false.
Proof.
  induction X as [|c X IH]; intros H; cbn [map mem_n]; [reflexivity|].
  cbn [forallb] in H. apply andb_prop in H. destruct H as [Hc HX].
  destruct (listed_char c Hc) as [_ [E _]]. rewrite E, (IH HX). reflexivity.
Qed.

Theorem listed_key_roundtrip k n :
  k = K_CT \/ k = K_CL \/ (exists X, k = HTTP_ ++ X /\ forallb cgi_char X = true) ->
  trans_key k = Some n -> trans_name n = k.
Proof.
  intros [->|[->|[X [-> HX]]]] Hk.
  - vm_compute in Hk. injection Hk as <-. vm_compute. reflexivity.
  - vm_compute in Hk. injection Hk as <-. vm_compute. reflexivity.
  - revert Hk. unfold trans_key, key2header. cbn [lookup]. rewrite key_CT, key_CL, key_HCT, key_HCL.
    destruct (str_eqb (lit "CONTENT_TYPE") X) eqn:F1.
    { apply str_eqb_eq in F1. subst X. intros Hk. injection Hk as <-. vm_compute. reflexivity. }
    destruct (str_eqb (lit "CONTENT_LENGTH") X) eqn:F2.
    { apply str_eqb_eq in F2. subst X. intros Hk. injection Hk as <-. vm_compute. reflexivity. }
    rewrite starts_HTTP, skip_HTTP, replace_is_dash. intros Hk. injection Hk as <-.
    unfold trans_name, py_title. rewrite (upper_title X HX false).
    set (Y := map dash X).
    unfold header2key. cbn [lookup].
    destruct (str_eqb (lit "CONTENT-TYPE") Y) eqn:E1.
    { exfalso. apply str_eqb_eq in E1. pose proof (undash X HX) as R. fold Y in R. rewrite <- E1 in R.
      rewrite <- R in F1. vm_compute in F1. discriminate. }
    destruct (str_eqb (lit "CONTENT-LENGTH") Y) eqn:E2.
    { exfalso. apply str_eqb_eq in E2. pose proof (undash X HX) as R. fold Y in R. rewrite <- E2 in R.
      rewrite <- R in F2. vm_compute in F2. discriminate. }
    destruct (str_eqb (lit "CONTENT_TYPE") Y) eqn:E3.
    { exfalso. apply str_eqb_eq in E3. pose proof (no95_dash X HX) as R. fold Y in R. rewrite <- E3 in R.
      vm_compute in R. discriminate. }
    destruct (str_eqb (lit "CONTENT_LENGTH") Y) eqn:E4.
    { exfalso. apply str_eqb_eq in E4. pose proof (no95_dash X HX) as R. fold Y in R. rewrite <- E4 in R.
      vm_compute in R. discriminate. }
    unfold Y. rewrite (undash X HX). reflexivity.
Qed.

(* the two look-alike keys are listed under the underscore spelling, which leads back to them *)
Example listed_lookalikes :
  trans_key (lit "HTTP_CONTENT_TYPE") = Some (lit "Content_Type") /\ trans_name (lit "Content_Type") = lit "HTTP_CONTENT_TYPE" /\
  trans_key (lit "HTTP_CONTENT_LENGTH") = Some (lit "Content_Length") /\ trans_name (lit "Content_Length") = lit "HTTP_CONTENT_LENGTH" /\
  trans_key (lit "CONTENT_TYPE") = Some (lit "Content-Type") /\ trans_name (lit "Content-Type") = lit "CONTENT_TYPE".
Proof. repeat split; vm_compute; reflexivity. Qed.

Definition header_cgi_key (k : str) : Prop :=
  k = K_CT \/ k = K_CL \/ (exists X, k = HTTP_ ++ X /\ forallb cgi_char X = true).

(* hence no name is listed for two different header keys *)
Corollary listed_names_unique k1 k2 n :
  header_cgi_key k1 -> header_cgi_key k2 -> trans_key k1 = Some n -> trans_key k2 = Some n -> k1 = k2.
Proof.
  intros H1 H2 E1 E2. rewrite <- (listed_key_roundtrip k1 n H1 E1), <- (listed_key_roundtrip k2 n H2 E2). reflexivity.
Qed.
