(* C10 — from the CONTENT_LENGTH TEXT to the body guarantees.
   1. what parse_int_safe (Model/C10_ContentLength.v) does on every text: digit strings of every length,
      whitespace padding, signs, a character int() has no use for, the 4300-digit limit;
   2. the property-level statements of Proofs/C10_body.v re-stated for a request whose environ carries the
      TEXT: for every text, whatever it parses to (or not). *)
From Coq Require Import ZArith NArith List Bool Arith Lia ZifyBool ZifyNat ZifyN.
Require Import Webob.Lib.Val Webob.Lib.PyStr.
Require Import Webob.Model.C10_BodyStream Webob.Spec.C10_BodySpec Webob.Model.C10_ContentLength
               Webob.Proofs.C10_body.
Require Webob.Lib.C12_PyInt Webob.Proofs.C12_pyint.
Import ListNotations.

Module P := Webob.Lib.C12_PyInt.
Module L := Webob.Proofs.C12_pyint.

(* ------------------------------------------------------------------ 1. the parse function *)
Definition ws (c : N) : Prop := P.int_ws c = true.
Definition all_ws (l : str) : Prop := Forall ws l.
Definition digits_value (d : str) : Z := Z.of_N (L.dval d 0%N).

Lemma content_length_absent : content_length None = None.
Proof. reflexivity. Qed.

Lemma content_length_empty : content_length (Some []) = None.
Proof. reflexivity. Qed.

(* whatever content_length returns was int() of a non-empty text *)
Lemma content_length_some_inv : forall t z,
  content_length t = Some z -> exists s, t = Some s /\ s <> [] /\ py_int s = Some z.
Proof.
  intros t z H. unfold content_length, parse_int_safe, parse_int in H.
  destruct t as [s|]; [|discriminate].
  destruct s as [|c s]; [discriminate|].
  destruct (py_int (c :: s)) as [z'|] eqn:E; [|discriminate].
  injection H as <-. exists (c :: s). repeat split; [discriminate|exact E].
Qed.

Lemma content_length_nonempty : forall s, s <> [] -> content_length (Some s) = py_int s.
Proof.
  intros s Hne. unfold content_length, parse_int_safe, parse_int.
  destruct s as [|c s]; [congruence|].
  destruct (py_int (c :: s)); reflexivity.
Qed.

(* parse_int raises exactly where parse_int_safe swallows *)
Lemma parse_int_safe_of_parse_int : forall t,
  match parse_int t with
  | PInt z => parse_int_safe t = Some z
  | PNone => parse_int_safe t = None /\ (t = None \/ t = Some [])
  | PValueError => parse_int_safe t = None /\ exists s, t = Some s /\ s <> [] /\ py_int s = None
  end.
Proof.
  intros t. unfold parse_int_safe. destruct t as [s|]; cbn [parse_int]; [|auto].
  destruct s as [|c s]; [auto|].
  destruct (py_int (c :: s)) eqn:E; [reflexivity|].
  split; [reflexivity|]. exists (c :: s). repeat split; [discriminate|exact E].
Qed.

(* ---- stripping *)
Lemma drop_while_all : forall f (l s : str),
  Forall (fun c => f c = true) l -> drop_while f (l ++ s) = drop_while f s.
Proof.
  intros f l s H. induction H as [|c l Hc _ IH]; [reflexivity|].
  cbn [app drop_while]. rewrite Hc. exact IH.
Qed.

Lemma strip_by_padded : forall f (l c r : str) a m b m',
  Forall (fun x => f x = true) l -> Forall (fun x => f x = true) r ->
  c = a :: m -> f a = false -> rev c = b :: m' -> f b = false ->
  strip_by f (l ++ c ++ r) = c.
Proof.
  intros f l c r a m b m' Hl Hr Ec Ha Erc Hb.
  unfold strip_by, lstrip_by, rstrip_by.
  rewrite (drop_while_all f l (c ++ r) Hl).
  assert (E1 : drop_while f (c ++ r) = c ++ r).
  { rewrite Ec. cbn [app drop_while]. rewrite Ha. reflexivity. }
  rewrite E1, rev_app_distr.
  rewrite (drop_while_all f (rev r) (rev c) (Forall_rev Hr)).
  rewrite Erc. cbn [drop_while]. rewrite Hb. rewrite <- Erc. apply rev_involutive.
Qed.

Lemma rev_last_digit : forall d, L.all_digits d -> d <> [] ->
  exists b m', rev d = b :: m' /\ P.is_digit b = true.
Proof.
  intros d Hd Hne.
  destruct (rev d) as [|b m'] eqn:E.
  - apply (f_equal (@rev N)) in E. rewrite rev_involutive in E. cbn in E. congruence.
  - exists b, m'. split; [reflexivity|].
    assert (Hin : In b (rev d)) by (rewrite E; left; reflexivity).
    apply in_rev in Hin. unfold L.all_digits in Hd. rewrite Forall_forall in Hd. exact (Hd b Hin).
Qed.

Lemma strip_padded_digits : forall l d r,
  all_ws l -> all_ws r -> L.all_digits d -> d <> [] -> strip_by P.int_ws (l ++ d ++ r) = d.
Proof.
  intros l d r Hl Hr Hd Hne.
  destruct (rev_last_digit d Hd Hne) as (b & m' & Er & Hb).
  destruct d as [|a m]; [congruence|].
  apply (strip_by_padded P.int_ws l (a :: m) r a m b m' Hl Hr eq_refl); auto.
  - apply L.digit_not_ws. inversion Hd; assumption.
  - apply L.digit_not_ws. exact Hb.
Qed.

Lemma strip_padded_signed : forall l sg d r,
  all_ws l -> all_ws r -> P.int_ws sg = false -> L.all_digits d -> d <> [] ->
  strip_by P.int_ws (l ++ (sg :: d) ++ r) = sg :: d.
Proof.
  intros l sg d r Hl Hr Hsg Hd Hne.
  destruct (rev_last_digit d Hd Hne) as (b & m' & Er & Hb).
  apply (strip_by_padded P.int_ws l (sg :: d) r sg d b (m' ++ [sg]) Hl Hr eq_refl Hsg).
  - cbn [rev]. rewrite Er. reflexivity.
  - apply L.digit_not_ws. exact Hb.
Qed.

Lemma app3_nonempty : forall (l d r : str), d <> [] -> l ++ d ++ r <> [].
Proof.
  intros l d r Hne E. apply app_eq_nil in E. destruct E as [_ E].
  apply app_eq_nil in E. destruct E. congruence.
Qed.

(* " 0012 ": any whitespace around at most 4300 digits -> their decimal value (leading zeros allowed) *)
Theorem parse_padded_digits : forall l d r,
  all_ws l -> all_ws r -> L.all_digits d -> d <> [] -> (length d <= 4300)%nat ->
  content_length (Some (l ++ d ++ r)) = Some (digits_value d).
Proof.
  intros l d r Hl Hr Hd Hne Hlen.
  rewrite (content_length_nonempty _ (app3_nonempty l d r Hne)).
  unfold py_int, P.py_int. rewrite (strip_padded_digits l d r Hl Hr Hd Hne).
  apply L.int_signed_digits; assumption.
Qed.

(* more than 4300 digit characters: int() raises ValueError, so content_length is None *)
Theorem parse_too_many_digits : forall l d r,
  all_ws l -> all_ws r -> L.all_digits d -> (4300 < length d)%nat ->
  content_length (Some (l ++ d ++ r)) = None.
Proof.
  intros l d r Hl Hr Hd Hlen.
  assert (Hne : d <> []) by (intros ->; cbn in Hlen; lia).
  rewrite (content_length_nonempty _ (app3_nonempty l d r Hne)).
  unfold py_int, P.py_int. rewrite (strip_padded_digits l d r Hl Hr Hd Hne).
  unfold P.int_signed.
  pose proof (L.digit_head_not_sign d Hd Hne) as Hh.
  assert (E : (match d with 45%N :: s' => (true, s') | 43%N :: s' => (false, s') | _ => (false, d) end) = (false, d)).
  { destruct d as [|c s']; [reflexivity|].
    destruct c as [|p]; [reflexivity|].
    repeat (destruct p as [p|p|]; try reflexivity); contradiction. }
  rewrite E, (L.int_unsigned_digits d Hd Hne).
  unfold P.max_str_digits.
  destruct (Nat.leb (length d) 4300) eqn:El; [apply Nat.leb_le in El; lia|reflexivity].
Qed.

(* "+5" / "-5", padded or not *)
Theorem parse_padded_signed : forall l (neg : bool) d r,
  all_ws l -> all_ws r -> L.all_digits d -> d <> [] -> (length d <= 4300)%nat ->
  content_length (Some (l ++ ((if neg then 45%N else 43%N) :: d) ++ r)) =
  Some (if neg then (- digits_value d)%Z else digits_value d).
Proof.
  intros l neg d r Hl Hr Hd Hne Hlen.
  apply Nat.leb_le in Hlen.
  destruct neg.
  - rewrite (content_length_nonempty _ (app3_nonempty l (45%N :: d) r ltac:(discriminate))).
    unfold py_int, P.py_int.
    rewrite (strip_padded_signed l 45%N d r Hl Hr eq_refl Hd Hne).
    unfold P.int_signed. rewrite (L.int_unsigned_digits d Hd Hne). unfold P.max_str_digits. rewrite Hlen. reflexivity.
  - rewrite (content_length_nonempty _ (app3_nonempty l (43%N :: d) r ltac:(discriminate))).
    unfold py_int, P.py_int.
    rewrite (strip_padded_signed l 43%N d r Hl Hr eq_refl Hd Hne).
    unfold P.int_signed. rewrite (L.int_unsigned_digits d Hd Hne). unfold P.max_str_digits. rewrite Hlen. reflexivity.
Qed.

(* ---- a character int() has no use for makes the text unparsable, wherever it stands *)
Definition int_char (c : N) : bool :=
  P.is_digit c || P.int_ws c || (c =? 43)%N || (c =? 45)%N || (c =? 95)%N.

Lemma in_drop_while : forall f (s : str) c, In c s -> f c = false -> In c (drop_while f s).
Proof.
  intros f s c. induction s as [|x s IH]; intros Hin Hf; [contradiction|].
  cbn [drop_while]. destruct (f x) eqn:Ex.
  - destruct Hin as [->|Hin]; [congruence|]. apply IH; assumption.
  - exact Hin.
Qed.

Lemma in_strip_by : forall f (s : str) c, In c s -> f c = false -> In c (strip_by f s).
Proof.
  intros f s c Hin Hf. unfold strip_by, lstrip_by, rstrip_by.
  apply in_rev. rewrite rev_involutive. apply in_drop_while; [|exact Hf].
  apply in_rev. rewrite rev_involutive. apply in_drop_while; assumption.
Qed.

Lemma int_body_bad : forall s c acc cnt us,
  In c s -> P.is_digit c = false -> c <> 95%N -> P.int_body s acc cnt us = None.
Proof.
  induction s as [|x s IH]; intros c acc cnt us Hin Hd H95; [contradiction|].
  cbn [P.int_body].
  destruct Hin as [->|Hin].
  - rewrite Hd. assert (E : (c =? 95)%N = false) by (apply N.eqb_neq; exact H95). rewrite E. reflexivity.
  - destruct (P.is_digit x); [eapply IH; eassumption|].
    destruct ((x =? 95)%N && negb us); [eapply IH; eassumption|reflexivity].
Qed.

Lemma int_unsigned_bad : forall s c,
  In c s -> P.is_digit c = false -> c <> 95%N -> P.int_unsigned s = None.
Proof.
  intros s c Hin Hd H95. destruct s as [|x s]; [reflexivity|]. cbn [P.int_unsigned].
  destruct Hin as [->|Hin]; [rewrite Hd; reflexivity|].
  destruct (P.is_digit x); [eapply int_body_bad; eassumption|reflexivity].
Qed.

Lemma int_signed_bad : forall s c,
  In c s -> int_char c = false -> P.int_signed s = None.
Proof.
  intros s c Hin Hc. unfold int_char in Hc.
  apply orb_false_elim in Hc. destruct Hc as [Hc H95].
  apply orb_false_elim in Hc. destruct Hc as [Hc H45].
  apply orb_false_elim in Hc. destruct Hc as [Hc H43].
  apply orb_false_elim in Hc. destruct Hc as [Hd _].
  apply N.eqb_neq in H95. apply N.eqb_neq in H45. apply N.eqb_neq in H43.
  unfold P.int_signed.
  assert (G : forall body, In c body -> P.int_unsigned body = None)
    by (intros body Hb; eapply int_unsigned_bad; eassumption).
  destruct s as [|x s]; [contradiction|].
  destruct (N.eq_dec x 45) as [->|N45].
  { destruct Hin as [E|Hin]; [congruence|]. rewrite (G s Hin). reflexivity. }
  destruct (N.eq_dec x 43) as [->|N43].
  { destruct Hin as [E|Hin]; [congruence|]. rewrite (G s Hin). reflexivity. }
  destruct x as [|p]; [cbv beta iota; rewrite (G _ Hin); reflexivity|].
  repeat (destruct p as [p|p|]; try (cbv beta iota; rewrite (G _ Hin); reflexivity)); congruence.
Qed.

Theorem parse_bad_char : forall s c,
  In c s -> int_char c = false -> content_length (Some s) = None.
Proof.
  intros s c Hin Hc.
  rewrite (content_length_nonempty s ltac:(intros ->; contradiction)).
  unfold py_int, P.py_int. apply (int_signed_bad _ c); [|exact Hc].
  apply in_strip_by; [exact Hin|].
  unfold int_char in Hc.
  apply orb_false_elim in Hc. destruct Hc as [Hc _].
  apply orb_false_elim in Hc. destruct Hc as [Hc _].
  apply orb_false_elim in Hc. destruct Hc as [Hc _].
  apply orb_false_elim in Hc. exact (proj2 Hc).
Qed.

(* ------------------------------------------------------------------ 2. the body, from the TEXT *)
(* what the request answers when its environ carries the CONTENT_LENGTH text [t] (None: key absent) *)
Definition outputs_text (chunk : nat) (s : bytes) (t : option str) (sk : bool) (tm : option bool) (lg : bool)
           (lim : Z) (hist : list step) : list out :=
  outputs chunk s (content_length t) sk tm lg lim hist.
Definition final_text (chunk : nat) (s : bytes) (t : option str) (sk : bool) (tm : option bool) (lg : bool)
           (lim : Z) (hist : list step) : world :=
  final chunk s (content_length t) sk tm lg lim hist.

(* the body a text announces over the stream [s]: the declarative reading of the property text *)
Inductive announced :=
| ABytes (b : bytes)     (* every path yields exactly these bytes *)
| ADisconnect.           (* the stream ends early: DisconnectionError *)

Definition announced_body (s : bytes) (t : option str) (tm : option bool) (lg : bool) : announced :=
  match content_length t with
  | None => if flag0 tm lg then ABytes s else ABytes []
  | Some z => if (z <=? 0)%Z then ABytes []
              else if (z <=? Z.of_nat (length s))%Z then ABytes (firstn (Z.to_nat z) s)
              else ADisconnect
  end.

Lemma fresh5_in_fresh : forall adv p, In p (fresh_paths5 adv) -> In p (fresh_paths adv).
Proof. intros adv p H. unfold fresh_paths. apply in_or_app. left. exact H. Qed.

(* ALL texts: a fresh non-seekable request read through any whole-body path delivers the announced body *)
Theorem text_fresh_body : forall chunk s t tm lg lim adv p,
  1 <= chunk -> In p (fresh_paths5 adv) ->
  let xs := outputs_text chunk s t false tm lg lim p in
  match announced_body s t tm lg with
  | ABytes b => last_out xs = OBytes b
  | ADisconnect => hd OSkip xs = ODisc /\ Forall (fun x => x = ODisc \/ x = OSkip) xs
  end.
Proof.
  intros chunk s t tm lg lim adv p Hch Hin. unfold outputs_text, announced_body. cbv zeta.
  destruct (content_length t) as [z|].
  - destruct (z <=? 0)%Z eqn:E0.
    + apply Z.leb_le in E0. eapply fresh_zero_or_negative_cl_empty; eassumption.
    + apply Z.leb_gt in E0. destruct (z <=? Z.of_nat (length s))%Z eqn:E1.
      * apply Z.leb_le in E1. eapply fresh_body_exact; eauto using fresh5_in_fresh.
      * apply Z.leb_gt in E1. eapply fresh_short_disconnects; eauto using fresh5_in_fresh.
  - destruct (flag0 tm lg) eqn:Ef.
    + eapply fresh_no_cl_terminated; eauto using fresh5_in_fresh.
    + eapply fresh_no_cl_empty; eassumption.
Qed.

(* if the text parses to n, the existing guarantee holds with n *)
Theorem text_exact_prefix : forall chunk s t z tm lg lim adv p,
  1 <= chunk -> content_length (Some t) = Some z -> (0 < z)%Z -> (z <= Z.of_nat (length s))%Z ->
  In p (fresh_paths adv) ->
  last_out (outputs_text chunk s (Some t) false tm lg lim p) = OBytes (firstn (Z.to_nat z) s).
Proof.
  intros chunk s t z tm lg lim adv p Hch Hp Hz Hle Hin. unfold outputs_text. rewrite Hp.
  eapply fresh_body_exact; eassumption.
Qed.

(* no over-read, from the text: at most the parsed number of bytes; nothing at all for a text that does not
   parse (absent, empty, malformed, too long) on an input that is not marked terminated, and for "0", "-1" ... *)
Theorem text_no_overread : forall chunk s t tm lg lim hist,
  1 <= chunk ->
  let pos := fpos (cells (wheap (final_text chunk s t false tm lg lim hist)) 0) in
  match content_length t with
  | Some z => pos <= Z.to_nat z /\ ((z <= 0)%Z -> pos = 0)
  | None => flag0 tm lg = false -> pos = 0
  end.
Proof.
  intros chunk s t tm lg lim hist Hch. unfold final_text. cbv zeta.
  destruct (content_length t) as [z|].
  - pose proof (no_overread_cl chunk s z tm lg lim hist Hch) as H. split; [exact H|]. intros Hz.
    assert (Z.to_nat z = 0) by lia. lia.
  - intros Hf. apply no_read_without_cl; assumption.
Qed.

(* a text that does not parse is an absent header, for every history on the original and its copies *)
Theorem text_unparsable_as_absent : forall chunk s t sk tm lg lim hist,
  content_length t = None ->
  outputs_text chunk s t sk tm lg lim hist = outputs chunk s None sk tm lg lim hist /\
  final_text chunk s t sk tm lg lim hist = final chunk s None sk tm lg lim hist.
Proof. intros chunk s t sk tm lg lim hist H. unfold outputs_text, final_text. rewrite H. split; reflexivity. Qed.

(* two texts that parse alike are the same request *)
Theorem text_only_value_matters : forall chunk s t1 t2 sk tm lg lim hist,
  content_length t1 = content_length t2 ->
  outputs_text chunk s t1 sk tm lg lim hist = outputs_text chunk s t2 sk tm lg lim hist.
Proof. intros chunk s t1 t2 sk tm lg lim hist H. unfold outputs_text. rewrite H. reflexivity. Qed.

(* the refinement / exactness / repeatable-read theorems, from the text *)
Theorem text_refines_spec : forall chunk s t sk tm lg lim hist,
  1 <= chunk -> consistent s (content_length t) sk ->
  exists ss', srun_ok [sinit s (content_length t) sk tm lg] hist (outputs_text chunk s t sk tm lg lim hist) ss'.
Proof. intros. unfold outputs_text. apply refines; assumption. Qed.

Theorem text_exact : forall chunk s t sk tm lg lim hist,
  1 <= chunk -> consistent s (content_length t) sk -> long_enough s (content_length t) sk ->
  outputs_text chunk s t sk tm lg lim hist = fst (srun [sinit s (content_length t) sk tm lg] hist).
Proof. intros. unfold outputs_text. apply exact; assumption. Qed.

Theorem text_idempotent : forall chunk s t sk tm lg lim hist i a1 a2 a3 b,
  1 <= chunk -> consistent s (content_length t) sk -> long_enough s (content_length t) sk ->
  let xs := outputs_text chunk s t sk tm lg lim (hist ++ [(i, Body, a1); (i, Body, a2); (i, FileRead None, a3)]) in
  nth_error xs (length hist) = Some (OBytes b) ->
  nth_error xs (S (length hist)) = Some (OBytes b) /\
  nth_error xs (S (S (length hist))) = Some (OBytes b).
Proof. intros chunk s t sk tm lg lim hist i a1 a2 a3 b H1 H2 H3. unfold outputs_text. apply idempotent; assumption. Qed.

(* a non-seekable request whose text does not parse, or parses to something <= 0, satisfies both hypotheses *)
Lemma text_hyps_nonseekable : forall s t,
  (forall z, content_length t = Some z -> (z <= Z.of_nat (length s))%Z) ->
  consistent s (content_length t) false /\ long_enough s (content_length t) false.
Proof. intros s t H. split; [intros E; discriminate|intros _ z E; auto]. Qed.

(* is_body_readable, from the text *)
Theorem text_readable : forall t tm lg,
  readable_text t tm lg =
  match content_length t with Some z => (0 <? z)%Z | None => flag0 tm lg end.
Proof. intros t tm lg. unfold readable_text, readable, term_flag, flag0. cbn. destruct (content_length t); reflexivity. Qed.
