(* C04 — the model's character classes and HTML offer list are those of the source:
   Gen/C04_tables.v is regenerated from webob/acceptparse.py on every run (tchar_re, OWS_re,
   qdtext_re, quoted_pair_re evaluated by CPython's re on every code point < 1024; the literal
   lists inside the two accept_html methods read from the AST). *)
From Coq Require Import NArith List Bool Arith Lia.
Require Import Webob.Lib.Val Webob.Lib.PyStr Webob.Model.C04_negotiation Webob.Gen.C04_tables.
Import ListNotations.

Definition upto : list N := map N.of_nat (seq 0 1024).

Definition classes_agree (c : N) : bool :=
  Bool.eqb (is_tchar c) (mem_n c gen_tchar) && Bool.eqb (is_ows c) (mem_n c gen_ows)
  && Bool.eqb (is_qdtext c) (mem_n c gen_qdtext) && Bool.eqb (is_qpchar c) (mem_n c gen_qpchar).

Lemma classes_sweep : forallb classes_agree upto = true.
Proof. vm_compute. reflexivity. Qed.

Lemma in_upto : forall c, (c < 1024)%N -> In c upto.
Proof.
  intros c H. unfold upto. rewrite <- (N2Nat.id c). apply in_map. apply in_seq. lia.
Qed.

Theorem char_classes : forall c, (c < 1024)%N ->
  is_tchar c = mem_n c gen_tchar /\ is_ows c = mem_n c gen_ows /\
  is_qdtext c = mem_n c gen_qdtext /\ is_qpchar c = mem_n c gen_qpchar.
Proof.
  intros c H.
  pose proof (proj1 (forallb_forall _ _) classes_sweep c (in_upto c H)) as E.
  unfold classes_agree in E. rewrite !andb_true_iff in E. destruct E as [[[E1 E2] E3] E4].
  apply eqb_prop in E1, E2, E3, E4. auto.
Qed.

Theorem html_offers_source :
  html_offers = map OStr gen_html_offers /\ gen_html_offers_nohdr = gen_html_offers.
Proof. vm_compute. split; reflexivity. Qed.
