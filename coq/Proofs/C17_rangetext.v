(* C17 — from the TEXT of the Range header to the bytes and the TEXT of Content-Range:
   serve_range_text (Model/C17_rangetext.v) is exact for every file content and every header text. *)
From Coq Require Import ZArith NArith List Bool Arith Lia.
Require Import Webob.Lib.Val Webob.Model.C17_static Webob.Spec.C17_spec Webob.Proofs.C17_iter
               Webob.Model.C17_rangetext.
Require Webob.Model.C06_ByteRange Webob.Spec.C06_Rfc Webob.Proofs.C06_text Webob.Proofs.C06_range.
Import ListNotations.
Module T := Webob.Proofs.C06_text.
Module R := Webob.Proofs.C06_range.
Module Rfc := Webob.Spec.C06_Rfc.
Local Open Scope Z_scope.

(* ---------------------------------------------------------------- the two models of range_for_length agree *)
Lemma rfl_bridge : forall s e len,
  B.range_for_length (B.Range s e) (Some len) = range_for_length s e len.
Proof.
  intros s e len. unfold B.range_for_length, range_for_length, cr_valid.
  destruct e as [e|].
  - cbn [B.is_cr_valid andb]. destruct (s >=? e); reflexivity.
  - destruct (s <? 0); cbn [B.is_cr_valid andb].
    + destruct (s + len >=? len); reflexivity.
    + destruct (s >=? len); reflexivity.
Qed.

Definition req_pair (o : option B.range) : option (Z * option Z) :=
  match o with Some (B.Range s e) => Some (s, e) | None => None end.

(* the Content-Range text of a 206 / of a 416 *)
Definition cr_text_206 (start stop len : Z) : str :=
  S_bytes_sp ++ B.int_str start ++ [45%N] ++ B.int_str (stop - 1) ++ [47%N] ++ B.int_str len.
Definition cr_text_416 (len : Z) : str := S_bytes_sp ++ [42%N; 47%N] ++ B.int_str len.

Lemma valid_of_bounds : forall a b len, 0 <= a < b -> b <= len ->
  B.is_cr_valid (Some a) (Some b) (Some len) true = true /\
  B.is_cr_valid (Some a) (Some b) (Some len) false = true.
Proof.
  intros a b len H1 H2. unfold B.is_cr_valid. rewrite Z.geb_leb, Z.gtb_ltb.
  destruct (Z.leb_spec b a); [lia|]. destruct (Z.ltb_spec len b); [lia|]. cbn [andb].
  destruct (Z.leb_spec 0 a); [|lia]. destruct (Z.ltb_spec a len); [|lia]. split; reflexivity.
Qed.

(* ---------------------------------------------------------------- 206 *)
Theorem text_range_206 : forall content k h s e start stop,
  kind_ok k content ->
  req_range h = Some (B.Range s e) ->
  range_for_length s e (Z.of_nat (length content)) = Some (start, stop) ->
  serve_range_text k content h =
    Some (mkT 206 (Some (cr_text_206 start stop (Z.of_nat (length content))))
              (B.int_str (stop - start))
              (Some (slice content (Z.to_nat start) (Z.to_nat stop)))) /\
  0 <= start < stop /\ stop <= Z.of_nat (length content).
Proof.
  intros content k h s e start stop Hk Hq Hr.
  pose proof (range_bounds _ _ _ _ _ (Nat2Z.is_nonneg _) Hr) as Hb.
  split; [|lia].
  unfold serve_range_text. rewrite Hq. unfold B.range_content_range. rewrite rfl_bridge, Hr.
  unfold B.mk_content_range.
  destruct (valid_of_bounds start stop (Z.of_nat (length content))) as [_ Hv]; [lia|lia|].
  rewrite Hv. rewrite (range_iter_exact _ _ _ _ Hk) by lia. reflexivity.
Qed.

(* ---------------------------------------------------------------- 416 *)
Theorem text_range_416 : forall content k h s e,
  req_range h = Some (B.Range s e) ->
  range_for_length s e (Z.of_nat (length content)) = None ->
  serve_range_text k content h =
    Some (mkT 416 (Some (cr_text_416 (Z.of_nat (length content))))
              (B.int_str (Z.of_nat (length (body_416 (B.Range s e)))))
              (Some (body_416 (B.Range s e)))).
Proof.
  intros content k h s e Hq Hr. unfold serve_range_text. rewrite Hq.
  unfold B.range_content_range. rewrite rfl_bridge, Hr. reflexivity.
Qed.

(* ---------------------------------------------------------------- 200 *)
Theorem text_range_200 : forall content k h,
  kind_ok k content -> req_range h = None ->
  serve_range_text k content h =
    Some (mkT 200 None (B.int_str (Z.of_nat (length content))) (Some content)).
Proof.
  intros content k h Hk Hq. unfold serve_range_text. rewrite Hq, (full_iter_exact _ _ Hk). reflexivity.
Qed.

(* ---------------------------------------------------------------- every text: one of the three, nothing else *)
Theorem text_range_total : forall content k h, kind_ok k content ->
  let len := Z.of_nat (length content) in
  (req_range h = None /\
   serve_range_text k content h = Some (mkT 200 None (B.int_str len) (Some content)))
  \/ (exists s e, req_range h = Some (B.Range s e) /\ range_for_length s e len = None /\
        serve_range_text k content h =
          Some (mkT 416 (Some (cr_text_416 len)) (B.int_str (Z.of_nat (length (body_416 (B.Range s e)))))
                    (Some (body_416 (B.Range s e)))))
  \/ (exists s e start stop, req_range h = Some (B.Range s e) /\
        range_for_length s e len = Some (start, stop) /\ 0 <= start < stop /\ stop <= len /\
        serve_range_text k content h =
          Some (mkT 206 (Some (cr_text_206 start stop len)) (B.int_str (stop - start))
                    (Some (slice content (Z.to_nat start) (Z.to_nat stop))))).
Proof.
  intros content k h Hk len. destruct (req_range h) as [[s e]|] eqn:Hq.
  - destruct (range_for_length s e len) as [[start stop]|] eqn:Hr.
    + right; right. exists s, e, start, stop.
      destruct (text_range_206 content k h s e start stop Hk Hq Hr) as [H1 H2].
      repeat split; try reflexivity; try lia; try exact Hr. exact H1.
    + right; left. exists s, e. repeat split; try exact Hr. now apply text_range_416.
  - left. split; [reflexivity|]. now apply text_range_200.
Qed.

(* the application never raises, whatever the text (no kind_ok needed) *)
Theorem text_range_never_raises : forall content k h, serve_range_text k content h <> None.
Proof.
  intros content k h. unfold serve_range_text.
  destruct (req_range h) as [[s e]|]; [|discriminate].
  unfold B.range_content_range. rewrite rfl_bridge.
  destruct (range_for_length s e (Z.of_nat (length content))) as [[start stop]|] eqn:Hr; [|discriminate].
  pose proof (range_bounds _ _ _ _ _ (Nat2Z.is_nonneg _) Hr) as Hb.
  unfold B.mk_content_range.
  destruct (valid_of_bounds start stop (Z.of_nat (length content))) as [_ Hv]; [lia|lia|].
  rewrite Hv. discriminate.
Qed.

