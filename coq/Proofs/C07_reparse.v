(* C07 — webob's own parser on the Set-Cookie line it emitted: _rx_cookie.findall + _unquote read
   exactly the name/value pair followed by the requested valued attributes (the flags secure/HttpOnly have
   no '=' and are invisible to it), so Cookie(line) holds exactly one cookie and parse_cookie(line) exactly
   one pair. *)
From Coq Require Import String.
From Coq Require Import ZArith NArith List Bool Lia ZifyBool ZifyNat ZifyN.
Require Import Webob.Lib.Val Webob.Lib.PyStr Webob.Lib.C07_Utf8 Webob.Gen.C07_tables Webob.Model.C07_CookieCodec
               Webob.Spec.C07_CookieSpec Webob.Spec.C07_Requested
               Webob.Proofs.C07_tables Webob.Proofs.C07_output Webob.Proofs.C07_input Webob.Proofs.C07_serialize.
Import ListNotations.
Local Open Scope N_scope.

(* ---------------------------------------------------------------- scanning, compositionally *)
Definition scans (s : str) (L : list (str * str)) : Prop :=
  forall fuel, (length s < fuel)%nat -> findall_fuel fuel s = L.

Lemma scans_nil : scans [] [].
Proof. intros fuel _. destruct fuel; reflexivity. Qed.

Lemma scans_skip c s L : is_legal c = false -> scans s L -> scans (c :: s) L.
Proof.
  intros Hl Hs fuel Hf. cbn [length] in Hf. destruct fuel as [|f]; [lia|].
  rewrite findall_fuel_S, (match_at_illegal c s Hl). apply Hs. lia.
Qed.

Lemma scans_match s k v r L : s <> [] -> match_at s = Some (k, v, r) -> (length r < length s)%nat ->
  scans r L -> scans s ((k, v) :: L).
Proof.
  intros Hne Hm Hlen Hs fuel Hf. destruct fuel as [|f]; [lia|].
  rewrite findall_fuel_S. destruct s as [|c s']; [congruence|]. rewrite Hm. f_equal. apply Hs. lia.
Qed.

(* characters a key may consist of, as far as the lazy key match is concerned *)
Definition keychar (c : N) : bool := is_legal c && negb (c =? 61) && negb (is_ws c).

Lemma keychar_props c : keychar c = true -> is_legal c = true /\ c <> 61 /\ is_ws c = false.
Proof. unfold keychar. intros Hk. repeat split; lia. Qed.

Lemma match_key_keychars k rest : k <> [] -> forallb keychar k = true -> starts_clean rest ->
  match_key (k ++ 61 :: rest) = Some (k, rest).
Proof.
  induction k as [|c k IH]; [congruence|]. intros _ Ht Hr.
  cbn [forallb] in Ht. apply andb_true_iff in Ht as [Hc Hk].
  destruct (keychar_props c Hc) as (Hl & _ & _).
  cbn [app]. rewrite match_key_cons, Hl.
  destruct k as [|c' k'].
  - cbn [app]. unfold eq_sep. rewrite skip_ws_clean by reflexivity.
    change (61 =? 61) with true. cbv iota. rewrite skip_ws_clean by exact Hr. reflexivity.
  - cbn [forallb] in Hk. apply andb_true_iff in Hk as [Hc' Hk'].
    destruct (keychar_props c' Hc') as (_ & Hne & Hws).
    replace (eq_sep ((c' :: k') ++ 61 :: rest)) with (@None str).
    + rewrite IH; [reflexivity|discriminate|cbn [forallb]; rewrite Hc', Hk'; reflexivity|exact Hr].
    + unfold eq_sep. cbn [app]. rewrite skip_ws_clean by exact Hws.
      replace (c' =? 61) with false by lia. reflexivity.
Qed.

Lemma eq_sep_stops tail : stops tail -> eq_sep tail = None.
Proof. intros [->|[t ->]]; reflexivity. Qed.

Lemma match_key_stops tail : stops tail -> match_key tail = None.
Proof.
  intros [->|[t ->]]; [reflexivity|]. rewrite match_key_cons.
  destruct legal_facts as (H59 & _). rewrite H59. reflexivity.
Qed.

(* a word without '=' (a flag) is no key *)
Lemma match_key_flag w tail : forallb keychar w = true -> stops tail -> match_key (w ++ tail) = None.
Proof.
  intros Hw Hs. induction w as [|c w IH]; cbn [app]; [apply match_key_stops, Hs|].
  cbn [forallb] in Hw. apply andb_true_iff in Hw as [Hc Hw].
  destruct (keychar_props c Hc) as (Hl & _ & _).
  rewrite match_key_cons, Hl, (IH Hw).
  replace (eq_sep (w ++ tail)) with (@None str); [reflexivity|].
  destruct w as [|c' w']; cbn [app]; [symmetry; apply eq_sep_stops, Hs|].
  cbn [forallb] in Hw. apply andb_true_iff in Hw as [Hc' _].
  destruct (keychar_props c' Hc') as (_ & Hne & Hws).
  unfold eq_sep. rewrite skip_ws_clean by exact Hws. replace (c' =? 61) with false by lia. reflexivity.
Qed.

Lemma scans_flag w tail L : forallb keychar w = true -> stops tail -> scans tail L -> scans (w ++ tail) L.
Proof.
  intros Hw Hs Ht. induction w as [|c w IH]; cbn [app]; [exact Ht|].
  pose proof Hw as Hw'. cbn [forallb] in Hw'. apply andb_true_iff in Hw' as [_ Hw'].
  intros fuel Hf. cbn [length] in Hf. destruct fuel as [|f]; [lia|].
  rewrite findall_fuel_S. unfold match_at.
  change (c :: w ++ tail) with ((c :: w) ++ tail). rewrite (match_key_flag (c :: w) tail Hw Hs).
  apply (IH Hw'). lia.
Qed.

(* ---------------------------------------------------------------- raw values the value alternatives take in full *)
Definition takes_whole (raw : str) : Prop :=
  forall tail, stops tail -> match_val (raw ++ tail) = (raw, tail) /\ starts_clean (raw ++ tail).

Lemma takes_value_quote v : octets v -> takes_whole (value_quote v).
Proof.
  intros Ho tail Hs. split; [apply match_val_value_quote; assumption|apply value_quote_starts_clean, Hs].
Qed.

(* escaped text all of whose bare characters are legal for the parser *)
Inductive legal_escaped : str -> Prop :=
| le_nil : legal_escaped []
| le_bare c s : is_legal c = true -> bare_safe c = true -> legal_escaped s -> legal_escaped (c :: s)
| le_oct a b d s : oct03 a = true -> oct07 b = true -> oct07 d = true -> legal_escaped s ->
                   legal_escaped (92 :: a :: b :: d :: s).

Lemma legal_escaped_app a b : legal_escaped a -> legal_escaped b -> legal_escaped (a ++ b).
Proof. induction 1; cbn [app]; intros Hb; [exact Hb|apply le_bare; auto|apply le_oct; auto]. Qed.

Lemma legal_escaped_no_comma s : legal_escaped s -> Forall (fun c => c <> 44 /\ c <> 34) s.
Proof.
  induction 1 as [|c s Hl Hb _ IH|a b d s Ha Hb Hd _ IH].
  - constructor.
  - constructor; [apply bare_safe_range in Hb; lia|exact IH].
  - unfold oct03, oct07 in *. repeat (constructor; [lia|]). exact IH.
Qed.

Lemma alt_expires_no_comma v tail : Forall (fun c => c <> 44 /\ c <> 34) v -> stops tail -> alt_expires (v ++ tail) = None.
Proof.
  intros Ha Hs. destruct (alt_expires (v ++ tail)) as [p|] eqn:E; [|reflexivity]. exfalso.
  apply alt_expires_shape in E as (a & b & c & r & Heq & Hwa & Hwb & Hwc).
  assert (H59 : is_word 59 = false) by reflexivity.
  destruct v as [|v0 [|v1 [|v2 [|v3 v']]]]; cbn [app] in Heq.
  - destruct Hs as [->|[t ->]]; [discriminate|]. injection Heq as <- _. congruence.
  - destruct Hs as [->|[t ->]]; [discriminate|]. injection Heq as _ <- _. congruence.
  - destruct Hs as [->|[t ->]]; [discriminate|]. injection Heq as _ _ <- _. congruence.
  - destruct Hs as [->|[t ->]]; [discriminate|]. injection Heq as _ _ _ Hx _. discriminate.
  - injection Heq as _ _ _ Hx _. subst v3.
    inversion Ha as [|? ? _ Ha1]; subst. inversion Ha1 as [|? ? _ Ha2]; subst.
    inversion Ha2 as [|? ? _ Ha3]; subst. inversion Ha3 as [|? ? [Hx _] _]; subst. congruence.
Qed.

Lemma u_body_legal_escaped v tail : legal_escaped v -> stops tail -> u_body (v ++ tail) = (v, tail).
Proof.
  intros Hv Hs. induction Hv as [|c s Hl Hb _ IH|a b d s Ha Hb Hd _ IH]; cbn [app].
  - destruct Hs as [->|[t ->]]; [reflexivity|].
    rewrite u_body_cons. destruct legal_facts as (H59 & _). rewrite H59. reflexivity.
  - rewrite u_body_cons, Hl, IH. reflexivity.
  - rewrite u_body_cons. destruct legal_facts as (_ & _ & _ & H92 & _). rewrite H92.
    change (92 =? 92) with true. cbv beta iota.
    assert (E : is03 a && is07 b && is07 d = true)
      by (change (oct03 a && oct07 b && oct07 d = true); rewrite Ha, Hb, Hd; reflexivity).
    rewrite E, IH. reflexivity.
Qed.

Lemma takes_legal_escaped v : legal_escaped v -> takes_whole v.
Proof.
  intros Hv tail Hs. pose proof (legal_escaped_no_comma v Hv) as Hnc. split.
  - unfold match_val.
    replace (alt_quoted (v ++ tail)) with (@None (str * str)).
    + rewrite alt_expires_no_comma by assumption. apply u_body_legal_escaped; assumption.
    + symmetry. destruct v as [|c v']; cbn [app].
      * destruct Hs as [->|[t ->]]; reflexivity.
      * inversion Hnc as [|? ? [_ Hq] _]; subst. unfold alt_quoted. replace (c =? 34) with false by lia. reflexivity.
  - destruct Hv as [|c s Hl Hb _|a b d s _ _ _ _]; cbn [app starts_clean].
    + destruct Hs as [->|[t ->]]; reflexivity.
    + apply bare_safe_range in Hb. unfold is_ws. lia.
    + reflexivity.
Qed.

(* _path_quote emits such text: the sweep says every octet it leaves alone is legal on input *)
Lemma path_escape_legal c : c < 256 -> legal_escaped (path_escape_char c).
Proof.
  intros Hc. pose proof (path_escape_shape c Hc) as Hs.
  pose proof (sweep _ path_raw_legal_sweep c Hc) as Hl. cbv beta in Hl.
  destruct Hs as [Hb|Hsp _|a b d Ha Hb Hd _].
  - apply le_bare; [exact Hl|exact Hb|constructor].
  - discriminate.
  - apply le_oct; try assumption. constructor.
Qed.

Lemma path_quote_legal v : octets v -> legal_escaped (path_quote v).
Proof.
  unfold path_quote. induction 1 as [|c v Hc _ IH]; cbn [flat_map]; [constructor|].
  apply legal_escaped_app; [apply path_escape_legal, Hc|exact IH].
Qed.

Lemma takes_quote_with q v : octets v -> takes_whole (quote_with q v).
Proof. destruct q; [apply takes_value_quote|intros Ho; apply takes_legal_escaped, path_quote_legal, Ho]. Qed.

(* text made of characters that are legal for the parser and need no escaping (numbers, SameSite words) *)
Definition legal_plain (s : str) : bool := forallb (fun c => is_legal c && bare_safe c) s.

Lemma legal_plain_escaped s : legal_plain s = true -> legal_escaped s.
Proof.
  induction s as [|c s IH]; cbn [legal_plain forallb]; intros Hs; [constructor|].
  apply andb_true_iff in Hs as [Hc Hs]. apply andb_true_iff in Hc as [Hl Hb]. apply le_bare; auto.
Qed.

Lemma num_legal_sweep : forallb (fun c => is_legal c && bare_safe c) [45; 48; 49; 50; 51; 52; 53; 54; 55; 56; 57] = true.
Proof. vm_compute. reflexivity. Qed.

Lemma num_legal_plain s : forallb numc s = true -> legal_plain s = true.
Proof.
  unfold legal_plain. intros Hn. apply forallb_forall. intros c Hc. rewrite forallb_forall in Hn. specialize (Hn c Hc).
  pose proof num_legal_sweep as Hs. rewrite forallb_forall in Hs. apply Hs.
  unfold numc, is_digit in Hn. cbn [In].
  assert (Hx : c = 45 \/ c = 48 \/ c = 49 \/ c = 50 \/ c = 51 \/ c = 52 \/ c = 53 \/ c = 54 \/ c = 55 \/ c = 56 \/ c = 57) by lia.
  intuition.
Qed.

(* the letters: SameSite words under validation *)
Lemma letters_legal_sweep : forallb (fun c => negb (lower_letter (blower_c c)) || (is_legal c && bare_safe c)) all_octets = true.
Proof. vm_compute. reflexivity. Qed.

Lemma blower_letters_legal_plain s : forallb lower_letter (blower s) = true -> legal_plain s = true.
Proof.
  unfold blower, legal_plain. rewrite forallb_forall. intros Hl. apply forallb_forall. intros c Hc.
  specialize (Hl (blower_c c) (in_map _ _ _ Hc)).
  assert (Hlt : c < 256) by (unfold lower_letter, blower_c in Hl; destruct ((65 <=? c) && (c <=? 90)); lia).
  pose proof (sweep _ letters_legal_sweep c Hlt) as Hs. cbv beta in Hs. rewrite Hl in Hs. exact Hs.
Qed.

Lemma samesite_ok_legal_plain s : samesite_ok s = true -> legal_plain s = true.
Proof.
  unfold samesite_ok. intros Hm. apply mem_str_In in Hm.
  pose proof samesite_values_letters as Hl. rewrite forallb_forall in Hl.
  apply blower_letters_legal_plain, Hl, Hm.
Qed.

(* ---------------------------------------------------------------- the rendered date and alternative 2 *)
(* a cookie date: what the expires alternative takes in full when nothing follows *)
Definition cookie_date (d : str) : bool :=
  match alt_expires d with Some (a, []) => str_eqb a d | _ => false end.

Definition stable (f : str -> option (str * str)) : Prop :=
  forall s a r t, f s = Some (a, r) -> f (s ++ t) = Some (a, r ++ t).

Lemma stable_one p : stable (one p).
Proof.
  intros s a r t. unfold one. destruct s as [|c s1]; [discriminate|]. cbn [app].
  destruct (p c); [|discriminate]. intros Hx. injection Hx as <- <-. reflexivity.
Qed.

Lemma stable_take_exact p n : stable (take_exact p n).
Proof.
  induction n as [|n IH]; intros s a r t; cbn [take_exact].
  - intros Hx. injection Hx as <- <-. reflexivity.
  - destruct s as [|c s1]; [discriminate|]. cbn [app]. destruct (p c); [|discriminate].
    destruct (take_exact p n s1) as [[a' r']|] eqn:E; [|discriminate].
    cbn [pre]. intros Hx. injection Hx as <- <-. rewrite (IH s1 a' r' t E). reflexivity.
Qed.

Lemma stable_seq2 f g : stable f -> stable g -> stable (seq2 f g).
Proof.
  intros Hf Hg s a r t. unfold seq2.
  destruct (f s) as [[a1 r1]|] eqn:E1; [|discriminate].
  destruct (g r1) as [[a2 r2]|] eqn:E2; [|discriminate].
  intros Hx. injection Hx as <- <-. rewrite (Hf s a1 r1 t E1), (Hg r1 a2 r2 t E2). reflexivity.
Qed.

(* the greedy run is stable as soon as it is followed by something it cannot take *)
Lemma take_upto_stable p n : forall s a c r t, take_upto p n s = (a, c :: r) -> p c = false ->
  take_upto p n (s ++ t) = (a, (c :: r) ++ t).
Proof.
  induction n as [|n IH]; intros s a c r t; cbn [take_upto].
  - intros Hx _. injection Hx as <- <-. reflexivity.
  - destruct s as [|x s1]; [discriminate|]. cbn [app]. destruct (p x) eqn:Ex.
    + destruct (take_upto p n s1) as [a' r'] eqn:E. intros Hx Hc. injection Hx as Ha Hr. subst a r'.
      rewrite (IH s1 a' c r t E Hc). reflexivity.
    + intros Hx _. injection Hx as <- <- <-. reflexivity.
Qed.

Lemma datec_not_ws c : is_ws c = true -> is_datec c = false.
Proof. unfold is_ws, is_datec, is_word, is_digit. lia. Qed.

Lemma stable_date_then_ws g : stable g -> stable (seq2 date_run (seq2 (one is_ws) g)).
Proof.
  intros Hg s a r t. unfold seq2 at 1. unfold date_run.
  destruct (take_upto is_datec 11 s) as [a1 r1] eqn:E1.
  destruct (9 <=? length a1)%nat eqn:El; [|discriminate].
  destruct (seq2 (one is_ws) g r1) as [[a2 r2]|] eqn:E2; [|discriminate].
  intros Hx. injection Hx as <- <-.
  assert (Hr1 : exists c r1', r1 = c :: r1' /\ is_ws c = true).
  { unfold seq2, one in E2. destruct r1 as [|c r1']; [discriminate|]. destruct (is_ws c) eqn:Ew; [|discriminate].
    exists c, r1'. split; [reflexivity|exact Ew]. }
  destruct Hr1 as (c & r1' & -> & Hw).
  unfold seq2 at 1. rewrite (take_upto_stable is_datec 11 s a1 c r1' t E1 (datec_not_ws c Hw)). rewrite El.
  rewrite (stable_seq2 (one is_ws) g (stable_one is_ws) Hg (c :: r1') a2 r2 t E2). reflexivity.
Qed.

Lemma stable_alt_expires : stable alt_expires.
Proof.
  unfold alt_expires.
  apply stable_seq2; [apply stable_take_exact|].
  apply stable_seq2; [apply stable_one|].
  apply stable_seq2; [apply stable_one|].
  apply stable_date_then_ws.
  apply stable_seq2; [apply stable_take_exact|].
  apply stable_seq2; [apply stable_one|].
  apply stable_seq2; [apply stable_one|].
  apply stable_seq2; apply stable_one.
Qed.

Lemma takes_cookie_date d : cookie_date d = true -> takes_whole d.
Proof.
  unfold cookie_date. destruct (alt_expires d) as [[a [|x r]]|] eqn:E; try discriminate.
  intros Ha. apply str_eqb_eq in Ha. subst a. intros tail Hs.
  pose proof (stable_alt_expires d d [] tail E) as Ht. cbn [app] in Ht.
  destruct (alt_expires_shape d _ E) as (a & b & c & r & -> & Hwa & _).
  split.
  - unfold match_val. cbn [app]. unfold alt_quoted.
    assert (Hq : a =? 34 = false) by (unfold is_word, is_digit in Hwa; lia).
    rewrite Hq. cbn [app] in Ht. rewrite Ht. reflexivity.
  - cbn [app starts_clean]. unfold is_word, is_digit in Hwa. unfold is_ws. lia.
Qed.

(* ---------------------------------------------------------------- a whole line of components *)
Definition scan_comp_ok (c : comp) : Prop :=
  match snd c with
  | Some raw => fst c <> [] /\ forallb keychar (fst c) = true /\ takes_whole raw
  | None => forallb keychar (fst c) = true
  end.

Definition valued_raw (cs : list comp) : list (str * str) :=
  flat_map (fun c : comp => match snd c with Some raw => [(fst c, raw)] | None => [] end) cs.

Lemma valued_raw_cons c cs : valued_raw (c :: cs) = valued_raw [c] ++ valued_raw cs.
Proof. unfold valued_raw. cbn [flat_map]. rewrite app_nil_r. reflexivity. Qed.

Lemma scans_comp c tail L : scan_comp_ok c -> stops tail -> scans tail L ->
  scans (render_comp c ++ tail) (valued_raw [c] ++ L).
Proof.
  destruct c as [k [raw|]]; unfold scan_comp_ok, render_comp, valued_raw; cbn [fst snd flat_map app].
  - intros (Hne & Hk & Htw) Hs Ht. destruct (Htw tail Hs) as [Hmv Hsc].
    rewrite <- app_assoc. cbn [app].
    apply (scans_match _ k raw tail).
    + destruct k; [congruence|discriminate].
    + unfold match_at. rewrite match_key_keychars by assumption. rewrite Hmv. reflexivity.
    + rewrite app_length. cbn [length]. rewrite app_length. lia.
    + exact Ht.
  - intros Hk Hs Ht. apply scans_flag; assumption.
Qed.

Lemma scans_sep s L : scans s L -> scans (59 :: 32 :: s) L.
Proof. intros Hs. destruct legal_facts as (H59 & H32 & _). apply scans_skip; [exact H59|]. apply scans_skip; [exact H32|exact Hs]. Qed.

Theorem scans_line cs : Forall scan_comp_ok cs -> scans (join_semi (map render_comp cs)) (valued_raw cs).
Proof.
  induction 1 as [|c cs Hc Hcs IH]; [exact scans_nil|].
  destruct cs as [|c2 cs'].
  - cbn [map]. change (join_semi [render_comp c]) with (render_comp c).
    rewrite <- (app_nil_r (render_comp c)). rewrite <- (app_nil_r (valued_raw [c])).
    apply scans_comp; [exact Hc|left; reflexivity|exact scans_nil].
  - cbn [map]. rewrite join_semi_cons2.
    rewrite (valued_raw_cons c (c2 :: cs')).
    apply scans_comp; [exact Hc|right; eexists; reflexivity|]. apply scans_sep. exact IH.
Qed.

(* ---------------------------------------------------------------- _unquote agrees with the reference decoder *)
Lemma denote_value_strip s : denote_value s = esc_denote (strip_quotes s).
Proof.
  destruct s as [|c t]; [reflexivity|].
  unfold denote_value, strip_quotes.
  destruct (c =? 34) eqn:Ec.
  - apply N.eqb_eq in Ec. subst c. cbn [andb]. destruct (last (34 :: t) 0 =? 34); reflexivity.
  - cbn [andb]. destruct c as [|p]; [reflexivity|].
    do 6 (destruct p as [p|p|]; try reflexivity). discriminate.
Qed.

Lemma unq_scan_escaped sp s : escaped sp s -> unq_scan s = esc_denote s.
Proof.
  induction 1 as [|c s Hc _ IH|s Hsp _ IH|a b d s Ha Hb Hd _ IH].
  - reflexivity.
  - apply bare_safe_range in Hc. rewrite unq_scan_cons. cbn [esc_denote].
    replace (c =? 92) with false by lia. rewrite IH. reflexivity.
  - rewrite unq_scan_cons. cbn [esc_denote]. change (32 =? 92) with false. cbv iota. rewrite IH. reflexivity.
  - rewrite unq_scan_cons. cbn [esc_denote]. change (92 =? 92) with true. cbv beta iota.
    assert (E : is03 a && is07 b && is07 d = true)
      by (change (oct03 a && oct07 b && oct07 d = true); rewrite Ha, Hb, Hd; reflexivity).
    rewrite E, unq_oct_value, IH by assumption. reflexivity.
Qed.

Definition raw_agrees (raw : str) : Prop := unquote raw = denote_value raw.

Lemma agrees_safe_value s : safe_value s -> raw_agrees s.
Proof.
  intros Hs. unfold raw_agrees, unquote. rewrite denote_value_strip.
  destruct Hs as [He|[body [-> He]]].
  - rewrite strip_quotes_bare by (apply escaped_false_no_quote, He). apply (unq_scan_escaped false), He.
  - rewrite strip_quotes_quoted. apply (unq_scan_escaped true), He.
Qed.

Lemma agrees_escaped s : escaped false s -> raw_agrees s.
Proof. intros He. apply agrees_safe_value. left. exact He. Qed.

Lemma plain_unquote s : plain s = true -> unquote s = s.
Proof.
  intros Hp. unfold unquote. rewrite strip_quotes_bare.
  - apply unq_scan_no_backslash. apply forallb_forall. intros c Hc.
    unfold plain in Hp. rewrite forallb_forall in Hp. specialize (Hp c Hc). unfold plain_char in Hp. lia.
  - intros t ->. unfold plain in Hp. cbn [forallb] in Hp. cbn in Hp. discriminate.
Qed.

Lemma agrees_plain s : plain s = true -> raw_agrees s.
Proof. intros Hp. unfold raw_agrees. rewrite plain_unquote, plain_denote by exact Hp. reflexivity. Qed.

Lemma agrees_quote_with q v : octets v -> raw_agrees (quote_with q v).
Proof.
  intros Ho. destruct q; [apply agrees_safe_value, value_quote_safe, Ho|apply agrees_escaped, path_quote_safe, Ho].
Qed.

(* ---------------------------------------------------------------- every component of an emitted line is fine *)
Definition comp_fine (c : comp) : Prop :=
  scan_comp_ok c /\ match snd c with Some raw => raw_agrees raw | None => True end.

Definition key_scan (nm : str) : Prop := nm <> [] /\ forallb keychar nm = true.

Lemma key_scan_facts : key_scan A_Comment /\ key_scan A_Domain /\ key_scan A_MaxAge /\ key_scan A_Path
  /\ key_scan A_expires /\ key_scan A_secure /\ key_scan A_HttpOnly /\ key_scan A_SameSite.
Proof. repeat split; try discriminate; vm_compute; reflexivity. Qed.

Lemma cpart_fine nm q o : key_scan nm -> opt_octets o -> Forall comp_fine (cpart nm q o).
Proof.
  intros [Hne Hk] Ho. unfold cpart. destruct (truthy o) as [v|] eqn:Et; [|constructor].
  apply truthy_some in Et as [-> _]. constructor; [|constructor].
  split; [|apply agrees_quote_with, Ho].
  unfold scan_comp_ok. cbn [fst snd]. split; [exact Hne|split; [exact Hk|apply takes_quote_with, Ho]].
Qed.

Lemma cplain_fine nm o : key_scan nm -> (forall s, o = Some s -> plain s = true /\ takes_whole s) ->
  Forall comp_fine (cplain nm o).
Proof.
  intros [Hne Hk] Ho. unfold cplain. destruct (truthy o) as [v|] eqn:Et; [|constructor].
  apply truthy_some in Et as [-> _]. destruct (Ho v eq_refl) as [Hp Ht]. constructor; [|constructor].
  split; [|apply agrees_plain, Hp].
  unfold scan_comp_ok. cbn [fst snd]. split; [exact Hne|split; [exact Hk|exact Ht]].
Qed.

Lemma cflag_fine nm b : key_scan nm -> Forall comp_fine (cflag nm b).
Proof.
  intros [_ Hk]. destruct b; cbn [cflag]; [|constructor]. constructor; [|constructor].
  split; [exact Hk|exact I].
Qed.

Lemma delete_expires_date : cookie_date delete_expires = true.
Proof. vm_compute. reflexivity. Qed.

Definition samesite_scannable (r : request) : Prop := forall s, r_samesite r = Some s -> plain s = true /\ legal_plain s = true.

Lemma attr_comps_fine r vb : req_octets r -> plain (r_date r) = true -> cookie_date (r_date r) = true ->
  samesite_scannable r -> Forall comp_fine (attr_comps (mc_morsel r vb (r_samesite r))).
Proof.
  intros (_ & Hp & Hd & Hc) Hdate Hcd Hss.
  destruct key_scan_facts as (K1 & K2 & K3 & K4 & K5 & K6 & K7 & K8).
  unfold attr_comps, mc_morsel. cbn [m_comment m_domain m_maxage m_path m_expires m_secure m_httponly m_samesite].
  repeat (apply Forall_app; split).
  - apply cpart_fine; assumption.
  - apply cpart_fine; assumption.
  - apply cpart_fine; [exact K3|]. destruct (mc_secs r) as [z|]; cbn [option_map opt_octets]; [|exact I].
    apply num_octets, z_to_str_num.
  - apply cpart_fine; assumption.
  - apply cplain_fine; [exact K5|]. intros s Hs. split; [exact (mc_expires_plain r Hdate s Hs)|].
    apply takes_cookie_date. unfold mc_expires in Hs.
    destruct (r_value r), (r_max_age r); try discriminate; injection Hs as <-; try exact Hcd; exact delete_expires_date.
  - apply cflag_fine, K6.
  - apply cflag_fine, K7.
  - apply cplain_fine; [exact K8|]. intros s Hs. destruct (Hss s Hs) as [Hpl Hlp]. split; [exact Hpl|].
    apply takes_legal_escaped, legal_plain_escaped, Hlp.
Qed.

Lemma token_keychars k : forallb is_token k = true -> forallb keychar k = true.
Proof.
  intros Ht. apply forallb_forall. intros c Hc. rewrite forallb_forall in Ht. specialize (Ht c Hc).
  apply token_props in Ht as (Hl & Hne & Hws & _). unfold keychar. rewrite Hl, Hws. lia.
Qed.

Lemma head_fine r : valid_cookie_name (r_name r) = true -> octets (value_octets r) ->
  comp_fine (r_name r, Some (value_quote (value_octets r))).
Proof.
  intros Hv Ho. apply valid_name_token in Hv as [Hne Ht]. split.
  - unfold scan_comp_ok. cbn [fst snd]. split; [exact Hne|split; [apply token_keychars, Ht|apply takes_value_quote, Ho]].
  - cbn [snd]. apply agrees_safe_value, value_quote_safe, Ho.
Qed.

(* ---------------------------------------------------------------- the theorem *)
Definition comp_unq (c : comp) : str * option str := (fst c, option_map unquote (snd c)).

Lemma valued_unq cs : map (fun kv : str * str => (fst kv, unquote (snd kv))) (valued_raw cs) = valued_attrs (map comp_unq cs).
Proof.
  induction cs as [|[k [raw|]] cs IH]; [reflexivity| |].
  - rewrite valued_raw_cons. unfold valued_attrs in *. cbn [map flat_map]. rewrite <- IH.
    unfold valued_raw at 1. cbn [flat_map fst snd app map comp_unq option_map]. reflexivity.
  - rewrite valued_raw_cons. unfold valued_attrs in *. cbn [map flat_map]. rewrite <- IH.
    unfold valued_raw at 1. cbn [flat_map fst snd app map comp_unq option_map]. reflexivity.
Qed.

Lemma fine_unq_denote cs : Forall comp_fine cs -> map comp_unq cs = map comp_denote cs.
Proof.
  induction 1 as [|[k [raw|]] cs [_ Ha] _ IH]; [reflexivity| |]; cbn [map]; rewrite IH; [|reflexivity].
  unfold comp_unq, comp_denote. cbn [fst snd option_map] in *. rewrite Ha. reflexivity.
Qed.

Theorem webob_reads_own_line validate r line :
  req_octets r -> plain (r_date r) = true -> cookie_date (r_date r) = true -> samesite_scannable r ->
  make_cookie validate r = Ok line ->
  parse_cookie_raw line = (r_name r, value_octets r) :: valued_attrs (requested r).
Proof.
  intros Hro Hdate Hcd Hss Hm.
  assert (Hsp : samesite_plain r) by (intros s Hs; apply (Hss s Hs)).
  apply make_cookie_inv in Hm as (_ & _ & Hv & _ & Hser).
  apply morsel_serialize_ok in Hser. subst line.
  unfold morsel_line, head_comp.
  change (m_name (mc_morsel r (value_octets r) (r_samesite r))) with (r_name r).
  change (m_value (mc_morsel r (value_octets r) (r_samesite r))) with (value_octets r).
  match goal with |- context [map render_comp ?l] => remember l as cs eqn:Hcs end.
  assert (Hfine : Forall comp_fine cs).
  { subst cs. constructor; [apply head_fine; [exact Hv|exact (proj1 Hro)]|apply attr_comps_fine; assumption]. }
  assert (Hscan : Forall scan_comp_ok cs) by (eapply Forall_impl; [|exact Hfine]; intros c Hc; exact (proj1 Hc)).
  unfold parse_cookie_raw, findall.
  rewrite (scans_line cs Hscan) by lia.
  rewrite valued_unq, (fine_unq_denote cs Hfine).
  subst cs. cbn [map]. rewrite attr_comps_denote by assumption.
  unfold comp_denote at 1. cbn [fst snd option_map]. rewrite denote_value_quote by exact (proj1 Hro).
  reflexivity.
Qed.

(* hence parse_cookie sees one pair, and Cookie.load builds one cookie *)
Lemma reserved_keys_invalid :
  forallb (fun k => negb (valid_cookie_name k)) [A_Comment; A_Domain; A_MaxAge; A_Path; A_expires; A_SameSite] = true
  /\ forallb (fun k => mem_str (blower k) c_keys) [A_Comment; A_Domain; A_MaxAge; A_Path; A_expires; A_SameSite] = true.
Proof. vm_compute. split; reflexivity. Qed.

Definition attr_key (k : str) : bool := mem_n 0 [] || mem_str k [A_Comment; A_Domain; A_MaxAge; A_Path; A_expires; A_SameSite].

Lemma opt_attr_keys nm o : Forall (fun kv => fst kv = nm) (valued_attrs (opt_attr nm o)).
Proof. unfold opt_attr. destruct o as [[|c v]|]; cbn; repeat constructor. Qed.

Lemma requested_keys r : Forall (fun kv : str * str => attr_key (fst kv) = true) (valued_attrs (requested r)).
Proof.
  unfold requested, valued_attrs. rewrite !flat_map_app. fold valued_attrs.
  assert (Hk : forall nm o, attr_key nm = true -> Forall (fun kv : str * str => attr_key (fst kv) = true) (valued_attrs (opt_attr nm o))).
  { intros nm o Hn. eapply Forall_impl; [|apply opt_attr_keys]. intros kv ->. exact Hn. }
  repeat (apply Forall_app; split); try (apply Hk; reflexivity).
  - destruct (req_seconds r); cbn; repeat constructor.
  - destruct (req_seconds r); [apply Hk; reflexivity|constructor].
  - destruct (r_secure r); cbn; constructor.
  - destruct (r_httponly r); cbn; constructor.
Qed.

Lemma attr_key_facts k : attr_key k = true -> valid_cookie_name k = false /\ mem_str (blower k) c_keys = true.
Proof.
  unfold attr_key. cbn [mem_n orb]. intros Hk. apply mem_str_In in Hk.
  destruct reserved_keys_invalid as [H1 H2]. rewrite forallb_forall in H1, H2.
  specialize (H1 k Hk). specialize (H2 k Hk). split; [|exact H2].
  destruct (valid_cookie_name k); [discriminate|reflexivity].
Qed.

Theorem parse_cookie_own_line validate r line :
  req_octets r -> plain (r_date r) = true -> cookie_date (r_date r) = true -> samesite_scannable r ->
  make_cookie validate r = Ok line ->
  parse_cookie line = [(r_name r, value_octets r)].
Proof.
  intros Hro Hdate Hcd Hss Hm. unfold parse_cookie.
  rewrite (webob_reads_own_line validate r line Hro Hdate Hcd Hss Hm).
  apply make_cookie_inv in Hm as (_ & _ & Hv & _ & _).
  cbn [filter fst]. rewrite Hv. f_equal.
  pose proof (requested_keys r) as Hk. induction Hk as [|kv l Hkv _ IH]; [reflexivity|].
  cbn [filter]. destruct (attr_key_facts _ Hkv) as [Hinv _]. rewrite Hinv. exact IH.
Qed.

(* Cookie.load: every pair after the first is an attribute of the one morsel *)
Lemma load_go_attrs l : Forall (fun kv : str * str => attr_key (fst kv) = true) l -> forall m d,
  exists m', load_go l (Some m) d = (if pm_live m' then dict_set (pm_name m') m' d else d)
             /\ pm_name m' = pm_name m /\ pm_value m' = pm_value m /\ pm_live m' = pm_live m.
Proof.
  induction 1 as [|[k v] l Hk _ IH]; intros m d.
  - exists m. repeat split.
  - cbn [load_go fst]. destruct (attr_key_facts _ Hk) as [_ Hmem]. cbn [fst] in Hmem. rewrite Hmem.
    cbn [option_map]. destruct (IH (pm_set k v m) d) as (m' & Hl & Hn & Hv & Hlive).
    exists m'. repeat split; assumption.
Qed.

Theorem cookie_load_own_line validate r line :
  req_octets r -> plain (r_date r) = true -> cookie_date (r_date r) = true -> samesite_scannable r ->
  make_cookie validate r = Ok line ->
  exists m, cookie_load line = [(r_name r, m)] /\ pm_name m = r_name r /\ pm_value m = value_octets r.
Proof.
  intros Hro Hdate Hcd Hss Hm. unfold cookie_load.
  rewrite (webob_reads_own_line validate r line Hro Hdate Hcd Hss Hm).
  apply make_cookie_inv in Hm as (_ & _ & Hv & _ & _).
  cbn [load_go fst snd].
  assert (Hnk : mem_str (blower (r_name r)) c_keys = false).
  { unfold valid_cookie_name, valid_cookie_name_res in Hv.
    destruct (forallb is_token (r_name r)); cbn [negb] in Hv; [|discriminate].
    destruct (r_name r) as [|c k]; [discriminate|].
    destruct (mem_str (blower (c :: k)) c_keys); [|reflexivity]. rewrite orb_true_r in Hv. discriminate. }
  rewrite Hnk, Hv.
  destruct (load_go_attrs _ (requested_keys r)
              {| pm_name := r_name r; pm_value := value_octets r; pm_attrs := []; pm_live := true |} [])
    as (m' & Hl & Hn & Hval & Hlive).
  rewrite Hl. cbn [pm_live pm_name pm_value] in *. rewrite Hlive. cbn [dict_set]. rewrite Hn.
  exists m'. repeat split; assumption.
Qed.

Lemma tchar_bare_safe c : tchar c = true -> bare_safe c = true.
Proof.
  unfold tchar. cbn [mem_n]. intros Ht. unfold bare_safe, is_delim.
  repeat (apply orb_true_iff in Ht as [Ht|Ht]); lia.
Qed.

Lemma token_legal_plain s : forallb is_token s = true -> legal_plain s = true.
Proof.
  intros Ht. unfold legal_plain. apply forallb_forall. intros c Hc. rewrite forallb_forall in Ht. specialize (Ht c Hc).
  destruct (token_props c Ht) as (Hl & _ & _ & Htc & _). rewrite Hl, (tchar_bare_safe c Htc). reflexivity.
Qed.

Lemma emitted_samesite_scannable validate r line : make_cookie validate r = Ok line -> samesite_scannable r.
Proof.
  intros Hm s Hs. destruct (emitted_samesite_checked validate r line Hm s Hs) as [Ho|Ht].
  - split; [apply samesite_ok_plain, Ho|apply samesite_ok_legal_plain, Ho].
  - split; [apply token_plain, Ht|apply token_legal_plain, Ht].
Qed.

Lemma validated_samesite_scannable r line : make_cookie true r = Ok line -> samesite_scannable r.
Proof. apply emitted_samesite_scannable. Qed.

Theorem webob_reads_own_line_any validate r line :
  req_octets r -> plain (r_date r) = true -> cookie_date (r_date r) = true ->
  make_cookie validate r = Ok line ->
  parse_cookie_raw line = (r_name r, value_octets r) :: valued_attrs (requested r)
  /\ parse_cookie line = [(r_name r, value_octets r)]
  /\ exists m, cookie_load line = [(r_name r, m)] /\ pm_name m = r_name r /\ pm_value m = value_octets r.
Proof.
  intros Hro Hd Hcd Hm. pose proof (emitted_samesite_scannable validate r line Hm) as Hss.
  exact (conj (webob_reads_own_line validate r line Hro Hd Hcd Hss Hm)
              (conj (parse_cookie_own_line validate r line Hro Hd Hcd Hss Hm)
                    (cookie_load_own_line validate r line Hro Hd Hcd Hss Hm))).
Qed.

(* ---------------------------------------------------------------- known finding: byte values that are not UTF-8 *)
(* parse_cookie returns every byte value exactly (C07_pair_roundtrip); RequestCookies then decodes each pair as
   strict UTF-8, so a value that is not UTF-8 is not readable through request.cookies - and takes the other cookies
   of the header with it. *)
Theorem request_cookies_non_utf8_refuted :
  exists b, octets b /\ good_pair (H "6e"%string, b)
    /\ parse_cookie (render [(H "61"%string, H "31"%string); (H "6e"%string, b); (H "63"%string, H "33"%string)])
       = [(H "61"%string, H "31"%string); (H "6e"%string, b); (H "63"%string, H "33"%string)]
    /\ request_cookies (render [(H "61"%string, H "31"%string); (H "6e"%string, b); (H "63"%string, H "33"%string)])
       = Raise UnicodeDecodeError.
Proof.
  exists [255]. split; [repeat constructor|]. split; [split; [reflexivity|repeat constructor]|].
  split; vm_compute; reflexivity.
Qed.
