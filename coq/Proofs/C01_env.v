(* C01 — lemmas about the environ (insertion-ordered dict) and the key constants. *)
From Coq Require Import ZArith NArith List Bool String Lia.
Require Import Webob.Lib.Val Webob.Lib.PyStr Webob.Lib.C01_Str Webob.Model.MultiDict Webob.Model.C01_EnvView
               Webob.Proofs.C08_multidict.
Import ListNotations.
Local Open Scope list_scope.

(* keep the key constants and the cache-key test folded under cbn / simpl *)
Arguments is_cache_key : simpl never.
Arguments K_QS : simpl never.
Arguments K_COOKIE : simpl never.
Arguments K_CC : simpl never.
Arguments K_CT : simpl never.
Arguments K_CL : simpl never.
Arguments K_HOST : simpl never.
Arguments K_SNAME : simpl never.
Arguments K_SPORT : simpl never.
Arguments K_QCACHE : simpl never.
Arguments K_PCACHE : simpl never.
Arguments K_CKCACHE : simpl never.
Arguments K_CCCACHE : simpl never.
Arguments K_BODYFILE : simpl never.
Arguments KeyErr : simpl never.
Arguments TypeErr : simpl never.
Arguments HTTP_ : simpl never.
Arguments trans_name : simpl never.
Arguments trans_key : simpl never.
Arguments lit : simpl never.

Lemma str_eqb_false_sym a b : str_eqb a b = false -> str_eqb b a = false.
Proof.
  intros Hab. destruct (str_eqb b a) eqn:E; auto.
  apply str_eqb_eq in E. subst. rewrite str_eqb_refl in Hab. discriminate.
Qed.

Lemma env_get_set_same k v e : env_get k (env_set k v e) = Some v.
Proof.
  induction e as [|[k' v'] e IH]; cbn.
  - rewrite str_eqb_refl. reflexivity.
  - destruct (str_eqb k' k) eqn:E; cbn; rewrite E; auto.
Qed.

Lemma env_get_set_other k k' v e : str_eqb k k' = false -> env_get k' (env_set k v e) = env_get k' e.
Proof.
  intros Hne. induction e as [|[k0 v0] e IH]; cbn.
  - rewrite Hne. reflexivity.
  - destruct (str_eqb k0 k) eqn:E; cbn.
    + apply str_eqb_eq in E. subst k0. rewrite Hne. reflexivity.
    + destruct (str_eqb k0 k'); auto.
Qed.

Lemma env_get_del_same k e : env_get k (env_del k e) = None.
Proof.
  induction e as [|[k0 v0] e IH]; cbn; auto.
  destruct (str_eqb k0 k) eqn:E; cbn; auto. rewrite E. exact IH.
Qed.

Lemma env_get_del_other k k' e : str_eqb k k' = false -> env_get k' (env_del k e) = env_get k' e.
Proof.
  intros Hne. induction e as [|[k0 v0] e IH]; cbn; auto.
  destruct (str_eqb k0 k) eqn:E; cbn.
  - apply str_eqb_eq in E. subst k0. rewrite Hne. exact IH.
  - destruct (str_eqb k0 k'); auto.
Qed.

Lemma env_has_set_same k v e : env_has k (env_set k v e) = true.
Proof. unfold env_has. rewrite env_get_set_same. reflexivity. Qed.

(* ------------------------------------------------------------------ cache keys *)
Lemma is_cache_key_in k : is_cache_key k = true -> In k cache_keys.
Proof.
  unfold is_cache_key. intros H. apply existsb_exists in H. destruct H as [x [Hin Heq]].
  apply str_eqb_eq in Heq. subst. exact Hin.
Qed.

Lemma noncache_neq k k' : is_cache_key k = false -> is_cache_key k' = true -> str_eqb k k' = false.
Proof.
  intros Hk Hk'. destruct (str_eqb k k') eqn:E; auto.
  apply str_eqb_eq in E. subst. congruence.
Qed.

Lemma cache_QCACHE : is_cache_key K_QCACHE = true. Proof. vm_compute. reflexivity. Qed.
Lemma cache_CKCACHE : is_cache_key K_CKCACHE = true. Proof. vm_compute. reflexivity. Qed.
Lemma cache_CCCACHE : is_cache_key K_CCCACHE = true. Proof. vm_compute. reflexivity. Qed.
Lemma noncache_QS : is_cache_key K_QS = false. Proof. vm_compute. reflexivity. Qed.
Lemma noncache_COOKIE : is_cache_key K_COOKIE = false. Proof. vm_compute. reflexivity. Qed.
Lemma noncache_CC : is_cache_key K_CC = false. Proof. vm_compute. reflexivity. Qed.
Lemma noncache_CT : is_cache_key K_CT = false. Proof. vm_compute. reflexivity. Qed.
Lemma noncache_HOST : is_cache_key K_HOST = false. Proof. vm_compute. reflexivity. Qed.
Lemma noncache_SNAME : is_cache_key K_SNAME = false. Proof. vm_compute. reflexivity. Qed.
Lemma noncache_SPORT : is_cache_key K_SPORT = false. Proof. vm_compute. reflexivity. Qed.

Lemma ne_Q_CK : str_eqb K_QCACHE K_CKCACHE = false. Proof. vm_compute. reflexivity. Qed.
Lemma ne_Q_CC : str_eqb K_QCACHE K_CCCACHE = false. Proof. vm_compute. reflexivity. Qed.
Lemma ne_CK_Q : str_eqb K_CKCACHE K_QCACHE = false. Proof. vm_compute. reflexivity. Qed.
Lemma ne_CK_CC : str_eqb K_CKCACHE K_CCCACHE = false. Proof. vm_compute. reflexivity. Qed.
Lemma ne_CC_Q : str_eqb K_CCCACHE K_QCACHE = false. Proof. vm_compute. reflexivity. Qed.
Lemma ne_CC_CK : str_eqb K_CCCACHE K_CKCACHE = false. Proof. vm_compute. reflexivity. Qed.

(* a header name never translates to one of webob's cache keys: the key starts with "HTTP_" or is CONTENT_* *)
Lemma lookup_header2key_noncache u k : lookup u header2key = Some k -> is_cache_key k = false.
Proof.
  unfold header2key. cbn [lookup].
  repeat match goal with |- context [if ?b then _ else _] => destruct b end;
    intros E; try discriminate; injection E as <-; vm_compute; reflexivity.
Qed.

Lemma http_prefix_noncache x : is_cache_key (HTTP_ ++ x) = false.
Proof.
  unfold is_cache_key, cache_keys. cbn [existsb].
  assert (F : forall k, hd_error k = Some 119%N -> str_eqb (HTTP_ ++ x) k = false).
  { intros k Hk. destruct k as [|c k]; [discriminate|]. cbn in Hk. injection Hk as ->. vm_compute. reflexivity. }
  rewrite !F; try reflexivity.
Qed.

Lemma trans_name_noncache n : is_cache_key (trans_name n) = false.
Proof.
  unfold trans_name. destruct (lookup (py_upper n) header2key) as [k|] eqn:E.
  - eapply lookup_header2key_noncache; eauto.
  - apply http_prefix_noncache.
Qed.

(* ------------------------------------------------------------------ strip *)
Lemma env_get_strip k e : env_get k (strip_env e) = if is_cache_key k then None else env_get k e.
Proof.
  unfold strip_env. induction e as [|[k0 v0] e IH]; cbn.
  - destruct (is_cache_key k); reflexivity.
  - destruct (is_cache_key k0) eqn:C0; cbn.
    + rewrite IH. destruct (is_cache_key k) eqn:Ck; auto.
      rewrite (str_eqb_false_sym _ _ (noncache_neq _ _ Ck C0)). reflexivity.
    + destruct (str_eqb k0 k) eqn:E.
      * apply str_eqb_eq in E. subst k0. rewrite C0. reflexivity.
      * exact IH.
Qed.

Lemma src_strip k e : is_cache_key k = false -> src k (strip_env e) = src k e.
Proof. intros H. unfold src. rewrite env_get_strip, H. reflexivity. Qed.

Lemma trans_key_cache k : is_cache_key k = true -> trans_key k = None.
Proof.
  intros H. apply is_cache_key_in in H. unfold cache_keys in H. cbn [In] in H.
  repeat (destruct H as [<-|H]; [vm_compute; reflexivity|]). destruct H.
Qed.

Lemma hdr_keys_strip e : hdr_keys (strip_env e) = hdr_keys e.
Proof.
  unfold strip_env, hdr_keys. induction e as [|[k0 v0] e IH]; cbn; auto.
  destruct (is_cache_key k0) eqn:C0; cbn.
  - rewrite (trans_key_cache _ C0). cbn. exact IH.
  - rewrite IH. reflexivity.
Qed.

(* ------------------------------------------------------------------ lists *)
Lemma nth_error_set_nth_same {A} (l : list A) i x : (i < List.length l)%nat -> nth_error (set_nth i x l) i = Some x.
Proof.
  revert i. induction l as [|y l IH]; intros i Hi; cbn in Hi; [lia|].
  destruct i; cbn; auto. apply IH. lia.
Qed.

Lemma length_set_nth {A} (l : list A) i x : List.length (set_nth i x l) = List.length l.
Proof.
  revert i. induction l as [|y l IH]; intros i; destruct i; cbn; auto.
Qed.

Lemma nth_error_set_nth_other {A} (l : list A) i j x : i <> j -> nth_error (set_nth i x l) j = nth_error l j.
Proof.
  revert i j. induction l as [|y l IH]; intros i j Hne; destruct i, j; cbn; auto; try congruence.
Qed.

Lemma env_get_map (f : eval -> eval) k e :
  env_get k (map (fun kv => (fst kv, f (snd kv))) e) = option_map f (env_get k e).
Proof.
  induction e as [|[k0 v0] e IH]; cbn; auto. destruct (str_eqb k0 k); auto.
Qed.

Lemma nth_error_app_length {A} (l : list A) x : nth_error (l ++ [x]) (List.length l) = Some x.
Proof. induction l; cbn; auto. Qed.

Lemma nth_error_nth_default {A} (l : list A) i x d : nth_error l i = Some x -> nth i l d = x.
Proof. revert i. induction l; intros [|i]; cbn; intros H; try discriminate; [congruence|auto]. Qed.
