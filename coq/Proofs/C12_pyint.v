(* C12 — lemmas about the int()/str() model of Lib/C12_PyInt.v:
   int(str(z)) = z for every z that str() can print (at most 4300 digits). *)
From Coq Require Import ZArith NArith List Bool Lia ZifyBool ZifyNat ZifyN.
Require Import Webob.Lib.Val Webob.Lib.PyStr Webob.Lib.C12_PyInt.
Import ListNotations.
Local Open Scope N_scope.

Definition dstep (a c : N) : N := 10 * a + (c - 48).
Definition dval (s : str) (acc : N) : N := fold_left dstep s acc.

Definition all_digits (s : str) : Prop := Forall (fun c => is_digit c = true) s.

Lemma is_digit_48 d : d < 10 -> is_digit (48 + d) = true.
Proof. intros Hd. unfold is_digit. lia. Qed.

Lemma digits_fuel_all fuel : forall n, all_digits (digits_fuel fuel n).
Proof.
  induction fuel as [|f IH]; intros n; cbn [digits_fuel].
  - constructor; [|constructor]. apply is_digit_48. apply N.mod_lt. lia.
  - destruct (n <? 10) eqn:Hlt.
    + constructor; [|constructor]. apply is_digit_48. lia.
    + apply Forall_app. split; [apply IH|].
      constructor; [|constructor]. apply is_digit_48. apply N.mod_lt. lia.
Qed.

Lemma digits_fuel_nonempty fuel n : digits_fuel fuel n <> [].
Proof.
  destruct fuel as [|f]; cbn [digits_fuel]; [discriminate|].
  destruct (n <? 10); [discriminate|].
  intros H. apply app_eq_nil in H. destruct H as [_ H]. discriminate.
Qed.

Lemma dval_app a b acc : dval (a ++ b) acc = dval b (dval a acc).
Proof. unfold dval. apply fold_left_app. Qed.

Lemma digits_fuel_val fuel : forall n acc, n < 2 ^ N.of_nat fuel ->
  dval (digits_fuel fuel n) acc = acc * 10 ^ N.of_nat (length (digits_fuel fuel n)) + n.
Proof.
  induction fuel as [|f IH]; intros n acc Hn.
  - cbn in Hn. assert (n = 0) by lia. subst n.
    change (digits_fuel 0 0) with [48]. cbn [length dval fold_left]. unfold dstep.
    change (N.of_nat 1) with 1. rewrite N.pow_1_r. lia.
  - cbn [digits_fuel]. destruct (n <? 10) eqn:Hlt.
    + cbn [length dval fold_left]. unfold dstep.
      change (N.of_nat 1) with 1. rewrite N.pow_1_r. lia.
    + assert (Hdiv : n / 10 < 2 ^ N.of_nat f).
      { rewrite Nat2N.inj_succ, N.pow_succ_r' in Hn.
        apply N.div_lt_upper_bound; lia. }
      rewrite dval_app, (IH _ _ Hdiv), app_length, Nat2N.inj_add.
      cbn [length dval fold_left]. unfold dstep.
      rewrite N.pow_add_r. change (N.of_nat 1) with 1. rewrite N.pow_1_r.
      pose proof (N.div_mod n 10 ltac:(lia)) as Hdm.
      pose proof (N.mod_lt n 10 ltac:(lia)) as Hm.
      replace (48 + n mod 10 - 48) with (n mod 10) by lia.
      lia.
Qed.

Lemma digits_of_N_val n : dval (digits_of_N n) 0 = n.
Proof.
  unfold digits_of_N. rewrite digits_fuel_val.
  - lia.
  - rewrite N2Nat.id. apply N.size_gt.
Qed.

Lemma digits_of_N_all n : all_digits (digits_of_N n).
Proof. apply digits_fuel_all. Qed.

Lemma int_body_digits s : forall acc cnt us, all_digits s ->
  int_body s acc cnt us =
  match s with
  | [] => if us then None else Some (acc, cnt)
  | _ => Some (dval s acc, (cnt + length s)%nat)
  end.
Proof.
  induction s as [|c s IH]; intros acc cnt us Hs; [reflexivity|].
  inversion Hs as [|? ? Hc Hs']; subst.
  cbn [int_body]. rewrite Hc. rewrite (IH _ _ _ Hs').
  destruct s as [|c' s']; cbn [length dval fold_left]; unfold dstep; f_equal; f_equal; lia.
Qed.

Lemma int_unsigned_digits s : all_digits s -> s <> [] ->
  int_unsigned s = Some (dval s 0, length s).
Proof.
  intros Hs Hne. destruct s as [|c s]; [congruence|].
  inversion Hs as [|? ? Hc Hs']; subst.
  cbn [int_unsigned]. rewrite Hc, (int_body_digits _ _ _ _ Hs').
  destruct s as [|c' s']; cbn [length dval fold_left]; unfold dstep; f_equal; f_equal; lia.
Qed.

Lemma digit_not_ws c : is_digit c = true -> int_ws c = false.
Proof. unfold is_digit, int_ws. lia. Qed.

Lemma drop_while_head f (c : N) s : f c = false -> drop_while f (c :: s) = c :: s.
Proof. intros H. cbn. rewrite H. reflexivity. Qed.

Lemma rstrip_by_last f l (last : N) : f last = false -> rstrip_by f (l ++ [last]) = l ++ [last].
Proof.
  intros Hl. unfold rstrip_by. rewrite rev_unit, (drop_while_head _ _ _ Hl).
  cbn [rev]. rewrite rev_involutive. reflexivity.
Qed.

(* a string whose first and last characters are not strippable is left alone *)
Lemma strip_by_noop f s first last mid :
  s = first :: mid ++ [last] \/ (s = [first] /\ last = first) ->
  f first = false -> f last = false -> strip_by f s = s.
Proof.
  intros Hs Hf Hl. unfold strip_by, lstrip_by.
  destruct Hs as [-> | [-> ->]].
  - rewrite (drop_while_head _ _ _ Hf).
    change (first :: mid ++ [last]) with ((first :: mid) ++ [last]).
    apply rstrip_by_last; assumption.
  - rewrite (drop_while_head _ _ _ Hf). apply (rstrip_by_last f [] first Hf).
Qed.

Lemma list_first_last {A} (s : list A) : s <> [] ->
  (exists a, s = [a]) \/ (exists a mid b, s = a :: mid ++ [b]).
Proof.
  intros Hne. destruct s as [|a s]; [congruence|].
  destruct s as [|x s']; [left; eauto|].
  right. destruct (@exists_last _ (x :: s') ltac:(discriminate)) as [mid [b E]].
  rewrite E. eauto.
Qed.

Lemma strip_by_all f (s : str) : Forall (fun c => f c = false) s -> strip_by f s = s.
Proof.
  intros Hs. destruct s as [|a s]; [reflexivity|].
  destruct (list_first_last (a :: s) ltac:(discriminate)) as [[x E]|[x [mid [b E]]]].
  - injection E as -> ->. inversion Hs; subst.
    apply (strip_by_noop _ _ x x []); [right; auto| |]; assumption.
  - rewrite E in *. apply (strip_by_noop _ _ x b mid); [left; reflexivity| |].
    + inversion Hs; subst. assumption.
    + change (x :: mid ++ [b]) with ((x :: mid) ++ [b]) in Hs.
      apply Forall_app in Hs. destruct Hs as [_ Hb]. inversion Hb; subst. assumption.
Qed.

Lemma strip_digits s : all_digits s -> strip_by int_ws s = s.
Proof.
  intros Hs. apply strip_by_all. eapply Forall_impl; [|exact Hs].
  intros c Hc. apply digit_not_ws. exact Hc.
Qed.

Lemma strip_minus_digits s : all_digits s -> s <> [] -> strip_by int_ws (45 :: s) = 45 :: s.
Proof.
  intros Hs Hne.
  destruct (list_first_last s Hne) as [[x ->]|[x [mid [b ->]]]].
  - inversion Hs; subst. apply (strip_by_noop _ _ 45 x []); [left; reflexivity|reflexivity|].
    apply digit_not_ws; assumption.
  - apply (strip_by_noop _ _ 45 b (x :: mid)); [left; reflexivity|reflexivity|].
    change (x :: mid ++ [b]) with ((x :: mid) ++ [b]) in Hs.
    apply Forall_app in Hs. destruct Hs as [_ Hb]. inversion Hb; subst. apply digit_not_ws; assumption.
Qed.

Lemma digit_head_not_sign s : all_digits s -> s <> [] ->
  match s with 45 :: _ => False | 43 :: _ => False | _ => True end.
Proof.
  intros Hs Hne. destruct s as [|c s]; [congruence|].
  inversion Hs as [|? ? Hc _]; subst. unfold is_digit in Hc.
  destruct (N.eq_dec c 45) as [->|]; [cbn in Hc; discriminate|].
  destruct (N.eq_dec c 43) as [->|]; [cbn in Hc; discriminate|].
  destruct c as [|p]; [exact I|].
  repeat (destruct p as [p|p|]; try exact I); congruence.
Qed.

Lemma int_signed_digits s : all_digits s -> s <> [] -> (length s <= max_str_digits)%nat ->
  int_signed s = Some (Z.of_N (dval s 0)).
Proof.
  intros Hs Hne Hlen. unfold int_signed.
  pose proof (digit_head_not_sign s Hs Hne) as Hh.
  assert (E : (match s with 45 :: s' => (true, s') | 43 :: s' => (false, s') | _ => (false, s) end) = (false, s)).
  { destruct s as [|c s']; [reflexivity|].
    destruct c as [|p]; [reflexivity|].
    repeat (destruct p as [p|p|]; try reflexivity); contradiction. }
  rewrite E, (int_unsigned_digits s Hs Hne).
  apply Nat.leb_le in Hlen. rewrite Hlen. reflexivity.
Qed.

Theorem py_int_str_of_Z z : (ndigits z <= max_str_digits)%nat -> py_int (str_of_Z z) = Some z.
Proof.
  unfold ndigits, py_int. intros Hlen.
  destruct z as [|p|p]; cbn [str_of_Z Z.abs_N Z.to_N] in *.
  - reflexivity.
  - rewrite (strip_digits _ (digits_of_N_all _)).
    rewrite (int_signed_digits _ (digits_of_N_all _) (digits_fuel_nonempty _ _) Hlen).
    rewrite digits_of_N_val. reflexivity.
  - rewrite (strip_minus_digits _ (digits_of_N_all _) (digits_fuel_nonempty _ _)).
    unfold int_signed.
    rewrite (int_unsigned_digits _ (digits_of_N_all _) (digits_fuel_nonempty _ _)).
    apply Nat.leb_le in Hlen. rewrite Hlen, digits_of_N_val. reflexivity.
Qed.

(* the printed form is a single line of digits with an optional leading minus *)
Lemma str_of_Z_shape z :
  exists d, all_digits d /\ d <> [] /\ (str_of_Z z = d \/ str_of_Z z = 45 :: d).
Proof.
  destruct z as [|p|p]; cbn [str_of_Z].
  - exists [48]. repeat split; [repeat constructor|discriminate|left; reflexivity].
  - exists (digits_of_N (Z.to_N (Z.pos p))). repeat split;
      [apply digits_of_N_all|apply digits_fuel_nonempty|left; reflexivity].
  - exists (digits_of_N (N.pos p)). repeat split;
      [apply digits_of_N_all|apply digits_fuel_nonempty|right; reflexivity].
Qed.
