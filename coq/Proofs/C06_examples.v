(* C06 — concrete requests/responses showing that the hypotheses of the conditional theorems are
   satisfiable and that every decision actually occurs (used by the Examples in Props/C06.v). *)
From Coq Require Import ZArith NArith List Bool String.
Require Import Webob.Lib.Val Webob.Model.C06_ByteRange Webob.Model.C06_AppIterRange Webob.Model.C06_CondResp
               Webob.Spec.C06_Rfc.
Import ListNotations.
Local Open Scope string_scope.

Definition ex_headers : list (str * str) :=
  [(H "436f6e74656e742d54797065", H "746578742f706c61696e");      (* Content-Type: text/plain *)
   (H "436f6e74656e742d4c656e677468", H "3130");                  (* Content-Length: 10 *)
   (H "45546167", H "226122")].                                   (* ETag: "a" *)
Definition ex_body : list str := [H "30313233"; []; H "343536373839"].   (* 0123 | | 456789 *)

(* GET, Range given, ETag "a", 10-byte body in three chunks *)
Definition ex_req (method : str) (inm : inm) (range : option str) (ifr : ifrange) : cin :=
  mkIn method inm None range ifr (H "323030204f4b") 200%Z (Some (H "61", false)) None (Some 10%Z) false
       ex_headers (AList ex_body).

Definition ex_206 := ex_req S_GET InmAbsent (Some (H "62797465733d322d35")) (IfrTags [H "61"]).   (* bytes=2-5 *)
Definition ex_206_head := ex_req S_HEAD InmAbsent (Some (H "62797465733d322d35")) IfrAbsent.
Definition ex_416 := ex_req S_GET InmAbsent (Some (H "62797465733d31302d")) IfrAbsent.             (* bytes=10- *)
Definition ex_304 := ex_req S_GET (InmTags [H "62"; H "61"]) (Some (H "62797465733d322d35")) IfrAbsent.
Definition ex_full := ex_req S_GET InmAbsent (Some (H "62797465733d322d352c372d38")) IfrAbsent.    (* bytes=2-5,7-8 *)
Definition ex_post := ex_req (H "504f5354") InmStar None IfrAbsent.                                  (* POST, INM * *)
Definition ex_file := mkIn S_GET InmAbsent None (Some (H "62797465733d2d33")) IfrAbsent (H "323030204f4b") 200%Z None None
                           (Some 10%Z) false ex_headers (AFile (H "30313233343536373839") 4).          (* bytes=-3 *)
