(* C10 — histories: any sequence of access paths on any of the requests (original and copies),
   under any adversarial buffering, is a history the specification allows; and the server's
   stream is never consumed beyond the declared length. *)
From Coq Require Import ZArith NArith List Bool Arith Lia.
Require Import Webob.Lib.Val Webob.Model.C10_BodyStream Webob.Spec.C10_BodySpec
               Webob.Proofs.C10_stream Webob.Proofs.C10_loops Webob.Proofs.C10_refine Webob.Proofs.C10_step.
Import ListNotations.

(* ------------------------------------------------------------------ lists *)
Lemma set_nth_length : forall A i (x : A) l, length (set_nth i x l) = length l.
Proof. intros A i x l; revert i; induction l as [|y l IH]; intros [|i]; cbn; auto. Qed.

Lemma nth_set_nth_eq : forall A i (x : A) l, i < length l -> nth_error (set_nth i x l) i = Some x.
Proof.
  intros A i x l; revert i; induction l as [|y l IH]; intros [|i] H; cbn in *; try lia; auto.
  apply IH; lia.
Qed.

Lemma nth_set_nth_neq : forall A i j (x : A) l, j <> i -> nth_error (set_nth i x l) j = nth_error l j.
Proof.
  intros A i j x l; revert i j; induction l as [|y l IH]; intros [|i] [|j] H; cbn; auto; try lia.
Qed.

Lemma nth_error_snoc : forall A (l : list A) x j,
  nth_error (l ++ [x]) j = if Nat.eqb j (length l) then Some x else nth_error l j.
Proof.
  intros A l x j. destruct (Nat.eqb j (length l)) eqn:E.
  - apply Nat.eqb_eq in E. subst. rewrite nth_error_app2 by lia. now rewrite Nat.sub_diag.
  - apply Nat.eqb_neq in E. destruct (Nat.lt_ge_cases j (length l)).
    + now rewrite nth_error_app1.
    + rewrite nth_error_app2 by lia. destruct (j - length l) as [|k] eqn:Ek; [lia|].
      cbn. destruct k; cbn; symmetry; apply nth_error_None; lia.
Qed.

(* ------------------------------------------------------------------ the world relation *)
Definition Wrel (w : world) (ss : list sreq) : Prop :=
  length (wreqs w) = length ss /\
  (forall i r s, nth_error (wreqs w) i = Some r -> nth_error ss i = Some s -> R (wheap w) r s) /\
  (forall i j ri rj, i <> j -> nth_error (wreqs w) i = Some ri -> nth_error (wreqs w) j = Some rj ->
                     inp ri <> inp rj).

(* the server's stream is file 0; [b] bounds what may be consumed from it *)
Definition Bnd (ob : option nat) (w : world) : Prop :=
  match ob with
  | None => True
  | Some b =>
      fpos (cells (wheap w) 0) <= b /\
      forall i r, nth_error (wreqs w) i = Some r -> inp r = 0 -> obound r = Some b
  end.

Definition upd_list {A} (i : nat) (x : A) (new : option A) (l : list A) : list A :=
  match new with Some y => set_nth i x l ++ [y] | None => set_nth i x l end.

Lemma nth_upd_list : forall A i (x : A) new l j, i < length l ->
  nth_error (upd_list i x new l) j =
  if Nat.eqb j i then Some x
  else match new with
       | Some y => if Nat.eqb j (length l) then Some y else nth_error l j
       | None => nth_error l j
       end.
Proof.
  intros A i x new l j Hi. unfold upd_list.
  destruct (Nat.eqb j i) eqn:E.
  - apply Nat.eqb_eq in E. subst j. destruct new.
    + rewrite nth_error_snoc, set_nth_length.
      assert (E : Nat.eqb i (length l) = false) by (apply Nat.eqb_neq; lia).
      rewrite E. now apply nth_set_nth_eq.
    + now apply nth_set_nth_eq.
  - apply Nat.eqb_neq in E. destruct new.
    + rewrite nth_error_snoc, set_nth_length. now rewrite nth_set_nth_neq.
    + now apply nth_set_nth_neq.
Qed.

Theorem wstep_refines : forall chunk b w ss i o adv x w',
  1 <= chunk -> Wrel w ss -> Bnd b w ->
  wstep chunk w (i, o, adv) = (x, w') ->
  (nth_error ss i = None /\ x = OSkip /\ w' = w) \/
  (exists s s' new, nth_error ss i = Some s /\ sstep_ok o s x s' new /\
     Wrel w' (upd_list i s' new ss) /\ Bnd b w').
Proof.
  intros chunk b w ss i o adv x w' Hch (Hlen & HRall & Hdis) HB H.
  unfold wstep in H.
  destruct (nth_error (wreqs w) i) as [r|] eqn:Er.
  2:{ left. injection H as <- <-. splits; auto.
      apply nth_error_None. rewrite <- Hlen. now apply nth_error_None. }
  right.
  assert (Hi : i < length (wreqs w)) by (apply nth_error_Some; congruence).
  destruct (nth_error ss i) as [s|] eqn:Es.
  2:{ apply nth_error_None in Es. lia. }
  pose proof (HRall _ _ _ Er Es) as HR.
  destruct (rstep chunk o adv (wheap w) r) as [[[y h'] r'] new] eqn:Est.
  injection H as <- <-.
  destruct (rstep_refines chunk o adv _ _ _ Hch HR _ _ _ _ Est) as (s' & snew & Hok & HR' & Hfr & Hnew).
  destruct Hfr as (A1 & A2 & A3 & A4 & A5 & A6 & A7 & A8).
  pose proof HR as (Hinp & _).
  exists s, s', snew. split; [reflexivity|]. split; [exact Hok|].
  fold (upd_list i r' new (wreqs w)).
  (* every other request keeps its relation: its file is untouched *)
  assert (Hothers : forall j rj sj, j <> i -> nth_error (wreqs w) j = Some rj -> nth_error ss j = Some sj ->
                      R h' rj sj /\ inp rj <> inp r' /\ inp rj < next (wheap w)).
  { intros j rj sj Hj Ej Esj. pose proof (HRall _ _ _ Ej Esj) as HRj. pose proof HRj as (Hij & _).
    pose proof (Hdis _ _ _ _ Hj Ej Er) as Hne.
    splits; auto.
    - apply (R_frame (wheap w)); auto.
    - destruct A3; lia. }
  split.
  - (* Wrel *)
    unfold Wrel; cbn [wheap wreqs].
    destruct new as [rn|]; cbn [new_ok] in Hnew.
    + destruct Hnew as (sn & -> & HRn & Hn1 & Hn2 & Hn3 & Hn4).
      splits.
      * unfold upd_list. rewrite !app_length, !set_nth_length. cbn. lia.
      * intros j rj sj Ej Esj.
        rewrite nth_upd_list in Ej by lia. rewrite nth_upd_list in Esj by lia. rewrite <- Hlen in Esj.
        destruct (Nat.eqb j i) eqn:Eji.
        { injection Ej as <-. injection Esj as <-. exact HR'. }
        destruct (Nat.eqb j (length (wreqs w))) eqn:Ejl.
        { injection Ej as <-. injection Esj as <-. exact HRn. }
        apply Nat.eqb_neq in Eji. apply (Hothers j rj sj); auto.
      * intros j k rj rk Hjk Ej Ek.
        rewrite nth_upd_list in Ej by lia. rewrite nth_upd_list in Ek by lia.
        assert (Hold : forall m rm, m <> i -> Nat.eqb m (length (wreqs w)) = false ->
                         nth_error (wreqs w) m = Some rm ->
                         inp rm <> inp r' /\ inp rm < next (wheap w)).
        { intros m rm Hm _ Em. destruct (nth_error ss m) as [sm|] eqn:Esm.
          - destruct (Hothers m rm sm Hm Em Esm) as (_ & X & Y). auto.
          - apply nth_error_None in Esm. assert (m < length (wreqs w)) by (apply nth_error_Some; congruence). lia. }
        destruct (Nat.eqb_spec j i) as [Eji|Eji]; destruct (Nat.eqb_spec k i) as [Eki|Eki]; try lia.
        -- injection Ej as <-.
           destruct (Nat.eqb k (length (wreqs w))) eqn:Ekl.
           ++ injection Ek as <-. auto.
           ++ destruct (Hold k rk Eki Ekl Ek). auto.
        -- injection Ek as <-.
           destruct (Nat.eqb j (length (wreqs w))) eqn:Ejl.
           ++ injection Ej as <-. auto.
           ++ destruct (Hold j rj Eji Ejl Ej). auto.
        -- destruct (Nat.eqb j (length (wreqs w))) eqn:Ejl; destruct (Nat.eqb k (length (wreqs w))) eqn:Ekl.
           ++ apply Nat.eqb_eq in Ejl, Ekl. lia.
           ++ injection Ej as <-. destruct (Hold k rk Eki Ekl Ek). lia.
           ++ injection Ek as <-. destruct (Hold j rj Eji Ejl Ej). lia.
           ++ apply (Hdis j k); auto.
    + subst snew. splits.
      * unfold upd_list. rewrite !set_nth_length. lia.
      * intros j rj sj Ej Esj.
        rewrite nth_upd_list in Ej by lia. rewrite nth_upd_list in Esj by lia.
        destruct (Nat.eqb j i) eqn:Eji.
        { injection Ej as <-. injection Esj as <-. exact HR'. }
        apply Nat.eqb_neq in Eji. apply (Hothers j rj sj); auto.
      * intros j k rj rk Hjk Ej Ek.
        rewrite nth_upd_list in Ej by lia. rewrite nth_upd_list in Ek by lia.
        assert (Hold : forall m rm, m <> i -> nth_error (wreqs w) m = Some rm -> inp rm <> inp r').
        { intros m rm Hm Em. destruct (nth_error ss m) as [sm|] eqn:Esm.
          - destruct (Hothers m rm sm Hm Em Esm) as (_ & X & Y). auto.
          - apply nth_error_None in Esm. assert (m < length (wreqs w)) by (apply nth_error_Some; congruence). lia. }
        destruct (Nat.eqb_spec j i) as [Eji|Eji]; destruct (Nat.eqb_spec k i) as [Eki|Eki]; try lia.
        -- injection Ej as <-. pose proof (Hold k rk Eki Ek). auto.
        -- injection Ek as <-. apply (Hold j rj Eji Ej).
        -- apply (Hdis j k); auto.
  - (* Bnd *)
    destruct b as [b|]; [|exact I]. destruct HB as (Hb0 & Hbr).
    unfold Bnd; cbn [wheap wreqs]. split.
    + destruct (Nat.eq_dec (inp r) 0) as [E0|E0].
      * rewrite <- E0. apply A7. apply (Hbr i); auto.
      * rewrite A2; auto; lia.
    + intros j rj Ej Ej0. rewrite nth_upd_list in Ej by lia.
      destruct (Nat.eqb j i) eqn:Eji.
      * injection Ej as <-.
        destruct A3 as [A3|A3]; [|lia].
        destruct (A5 A3) as (a1 & a2 & a3).
        rewrite (obound_same r r'); auto. apply (Hbr i); auto. lia.
      * apply Nat.eqb_neq in Eji.
        destruct new as [rn|].
        -- destruct (Nat.eqb j (length (wreqs w))) eqn:Ejl.
           ++ injection Ej as <-. cbn [new_ok] in Hnew.
              destruct Hnew as (sn & _ & _ & Hn1 & _). lia.
           ++ apply (Hbr j); auto.
        -- apply (Hbr j); auto.
Qed.

Theorem wrun_refines : forall chunk b hist w ss xs w',
  1 <= chunk -> Wrel w ss -> Bnd b w ->
  wrun chunk w hist = (xs, w') ->
  exists ss', srun_ok ss hist xs ss' /\ Wrel w' ss' /\ Bnd b w'.
Proof.
  intros chunk b hist; induction hist as [|[[i o] adv] t IH]; intros w ss xs w' Hch HW HB H.
  - cbn in H. injection H as <- <-. exists ss. splits; auto. constructor.
  - cbn [wrun] in H.
    destruct (wstep chunk w (i, o, adv)) as [x w1] eqn:Es.
    destruct (wrun chunk w1 t) as [xs1 w2] eqn:Er.
    injection H as <- <-.
    destruct (wstep_refines _ _ _ _ _ _ _ _ _ Hch HW HB Es) as [(Hn & Hx & Hw)|(s & s' & new & Hs & Hok & HW1 & HB1)].
    + subst x w1. destruct (IH _ _ _ _ Hch HW HB Er) as (ss' & Hrun & HW' & HB').
      exists ss'. splits; auto. now apply SRmiss.
    + destruct (IH _ _ _ _ Hch HW1 HB1 Er) as (ss' & Hrun & HW' & HB').
      exists ss'. splits; auto. eapply SRstep; eauto.
Qed.

(* ------------------------------------------------------------------ the initial world *)
Lemma init_rel : forall s c sk tm lg lim,
  (sk = true -> c = Some (Z.of_nat (length s))) ->
  Wrel (init_world s c sk tm lg lim) [sinit s c sk tm lg] /\
  Bnd (obound (init_req c sk tm lg lim)) (init_world s c sk tm lg lim).
Proof.
  intros s c sk tm lg lim Hsk. split.
  - unfold Wrel, init_world; cbn [wheap wreqs]. splits; auto.
    + intros [|i] r s0 Er Es; cbn in Er, Es; [|destruct i; discriminate].
      injection Er as <-. injection Es as <-.
      unfold R, init_req, sinit; cbn [inp postc form cells next fdata fpos].
      destruct sk.
      * rewrite (Hsk eq_refl). cbn [smode sbody scur spost sform].
        splits; auto; try lia; try discriminate.
        { unfold fwf; cbn; lia. }
        unfold Rmode; cbn. splits; auto.
      * destruct c as [z|].
        -- destruct (0 <? z)%Z eqn:Ez.
           ++ apply Z.ltb_lt in Ez.
              destruct (Nat.leb (Z.to_nat z) (length s)) eqn:El; cbn [smode sbody scur spost sform].
              ** apply Nat.leb_le in El.
                 splits; auto; try lia; try discriminate. { unfold fwf; cbn; lia. }
                 unfold Rmode, Rraw; cbn. split; auto. exists (Z.to_nat z).
                 rewrite Z2Nat.id by lia. splits; auto; lia.
              ** apply Nat.leb_gt in El.
                 splits; auto; try lia; try discriminate. { unfold fwf; cbn; lia. }
                 unfold Rmode, Rraw; cbn. split; auto. exists (Z.to_nat z).
                 rewrite Z2Nat.id by lia. splits; auto; try lia.
                 symmetry. apply firstn_all2. lia.
           ++ cbn [smode sbody scur spost sform].
              splits; auto; try lia; try discriminate. { unfold fwf; cbn; lia. }
              unfold Rmode; cbn. splits; auto.
        -- unfold flag0. destruct (match tm with Some b => b | None => lg end) eqn:Ef;
             cbn [smode sbody scur spost sform].
           ++ splits; auto; try lia; try discriminate. { unfold fwf; cbn; lia. }
              unfold Rmode; cbn. splits; auto.
           ++ splits; auto; try lia; try discriminate. { unfold fwf; cbn; lia. }
              unfold Rmode; cbn. splits; auto.
    + intros i j ri rj Hij Ei Ej. destruct i as [|[|i]]; destruct j as [|[|j]]; cbn in *; try discriminate; lia.
  - unfold Bnd. destruct (obound (init_req c sk tm lg lim)) as [b|] eqn:Eb; auto.
    unfold init_world; cbn [wheap wreqs cells fpos]. split; [lia|].
    intros [|i] r Er E0; cbn in Er; [|destruct i; discriminate]. injection Er as <-. exact Eb.
Qed.
