(* C17 — slice exactness of FileIter.app_iter_range (every seek/limit/block size, every
   pattern of short reads) and of AppIterRange (every chunking), Range arithmetic, FileApp. *)
From Coq Require Import ZArith NArith List Bool Arith Lia.
Require Import Webob.Lib.Val Webob.Lib.PyStr Webob.Model.C17_path Webob.Model.C17_static Webob.Spec.C17_spec
               Webob.Proofs.C17_path.
Import ListNotations.

(* ------------------------------------------------------------------ list helpers *)
Lemma skipn_app_le {A} n (l1 l2 : list A) : n <= length l1 -> skipn n (l1 ++ l2) = skipn n l1 ++ l2.
Proof. intros H. rewrite skipn_app. replace (n - length l1) with 0 by lia. reflexivity. Qed.
Lemma skipn_app_ge {A} n (l1 l2 : list A) : length l1 <= n -> skipn n (l1 ++ l2) = skipn (n - length l1) l2.
Proof. intros H. rewrite skipn_app. rewrite skipn_all2 by lia. reflexivity. Qed.
Lemma firstn_app_le {A} n (l1 l2 : list A) : n <= length l1 -> firstn n (l1 ++ l2) = firstn n l1.
Proof. intros H. rewrite firstn_app. replace (n - length l1) with 0 by lia. cbn. apply app_nil_r. Qed.
Lemma firstn_app_ge {A} n (l1 l2 : list A) : length l1 <= n -> firstn n (l1 ++ l2) = l1 ++ firstn (n - length l1) l2.
Proof. intros H. rewrite firstn_app. rewrite firstn_all2 by lia. reflexivity. Qed.

Lemma firstn_plus {A} : forall a b (l : list A), firstn (a + b) l = firstn a l ++ firstn b (skipn a l).
Proof.
  induction a as [|a IH]; intros b l; [reflexivity|].
  destruct l as [|x l]; cbn [plus firstn skipn app].
  - rewrite firstn_nil. reflexivity.
  - rewrite IH. reflexivity.
Qed.

Lemma firstn_nil_iff {A} : forall k (l : list A), firstn k l = [] -> k = 0 \/ l = [].
Proof. intros [|k] [|x l] H; auto. discriminate. Qed.

(* ------------------------------------------------------------------ FileIter *)
Lemma read_size_le : forall n cap avail, read_size n cap avail <= avail.
Proof.
  intros n cap avail. unfold read_size.
  destruct (n <? 0)%Z, cap; lia.
Qed.

Lemma read_size_pos : forall n cap avail, (0 < n)%Z -> 0 < avail -> 0 < read_size n cap avail.
Proof.
  intros n cap avail Hn Ha. unfold read_size.
  destruct (n <? 0)%Z eqn:E; [lia|]. destruct cap; lia.
Qed.

Lemma read_size_bound : forall n cap avail, (0 <= n)%Z -> read_size n cap avail <= Z.to_nat n.
Proof.
  intros n cap avail Hn. unfold read_size.
  destruct (n <? 0)%Z eqn:E; [lia|]. destruct cap; lia.
Qed.

(* limit = None: everything from the current position *)
Lemma loop_none : forall fuel bs data caps,
  (0 < bs)%Z -> length data < fuel ->
  exists chunks, fileiter_loop fuel bs None data caps = Some chunks /\ concat chunks = data.
Proof.
  induction fuel as [|f IH]; intros bs data caps Hbs Hf; [lia|].
  cbn [fileiter_loop].
  set (k := read_size bs (hd_cap caps) (length data)).
  destruct (firstn k data) as [|c0 chunk'] eqn:Ec.
  - exists []. split; auto. cbn.
    destruct (firstn_nil_iff _ _ Ec) as [Hk|Hd]; [|auto].
    destruct data as [|x data']; auto. exfalso.
    assert (Hp : 0 < k) by (apply read_size_pos; [exact Hbs|cbn; lia]). lia.
  - rewrite <- Ec.
    assert (Hk : k <= length data) by apply read_size_le.
    assert (Hk0 : 0 < k). { destruct k; [cbn in Ec; discriminate|lia]. }
    destruct (IH bs (skipn k data) (tl caps) Hbs) as [chunks [H1 H2]].
    { rewrite skipn_length. lia. }
    rewrite H1. cbn [option_map]. eexists. split; [reflexivity|].
    cbn [concat]. rewrite H2. apply firstn_skipn.
Qed.

(* limit = Some l: the next l bytes *)
Lemma loop_some : forall fuel bs l data caps,
  (0 < bs)%Z -> (0 <= l)%Z -> length data < fuel ->
  exists chunks, fileiter_loop fuel bs (Some l) data caps = Some chunks /\
                 concat chunks = firstn (Z.to_nat l) data.
Proof.
  induction fuel as [|f IH]; intros bs l data caps Hbs Hl Hf; [lia|].
  cbn [fileiter_loop].
  set (k := read_size (Z.min bs l) (hd_cap caps) (length data)).
  assert (Hk : k <= length data) by apply read_size_le.
  assert (Hkl : k <= Z.to_nat l).
  { pose proof (read_size_bound (Z.min bs l) (hd_cap caps) (length data)) as Hb. fold k in Hb. lia. }
  destruct (firstn k data) as [|c0 chunk'] eqn:Ec.
  - exists []. split; auto. cbn.
    destruct (firstn_nil_iff _ _ Ec) as [Hk0|Hd]; [|subst data; rewrite firstn_nil; reflexivity].
    destruct (Z.eq_dec l 0) as [->|Hne]; [reflexivity|].
    destruct data as [|x data']; [rewrite firstn_nil; reflexivity|]. exfalso.
    assert (Hp : 0 < k) by (apply read_size_pos; [lia|cbn; lia]). lia.
  - rewrite <- Ec.
    assert (Hk0 : 0 < k). { destruct k; [cbn in Ec; discriminate|lia]. }
    assert (Hlen : length (firstn k data) = k) by (rewrite firstn_length; lia).
    rewrite Hlen.
    destruct (l - Z.of_nat k <=? 0)%Z eqn:E.
    + apply Z.leb_le in E. exists [firstn k data]. split; [reflexivity|].
      cbn [concat]. rewrite app_nil_r. f_equal. lia.
    + apply Z.leb_gt in E.
      destruct (IH bs (l - Z.of_nat k)%Z (skipn k data) (tl caps) Hbs) as [chunks [H1 H2]]; [lia| |].
      { rewrite skipn_length. lia. }
      rewrite H1. cbn [option_map]. eexists. split; [reflexivity|].
      cbn [concat]. rewrite H2.
      replace (Z.to_nat l) with (k + Z.to_nat (l - Z.of_nat k)) by lia.
      rewrite firstn_plus. reflexivity.
Qed.

Theorem fileiter_slice : forall seek limit bs content caps,
  (0 < bs)%Z -> (0 <= seek <= limit)%Z ->
  exists chunks, fileiter seek (Some limit) bs content caps = Some chunks /\
                 concat chunks = slice content (Z.to_nat seek) (Z.to_nat limit).
Proof.
  intros seek limit bs content caps Hbs Hsl. unfold fileiter, slice.
  destruct (seek =? 0)%Z eqn:E; cbn [negb option_map].
  - apply Z.eqb_eq in E. subst seek. cbn [Z.to_nat skipn]. rewrite Nat.sub_0_r.
    apply loop_some; lia.
  - replace (Z.to_nat limit - Z.to_nat seek) with (Z.to_nat (limit - seek)) by lia.
    apply loop_some; lia.
Qed.

Theorem fileiter_full : forall bs content caps,
  (0 < bs)%Z ->
  exists chunks, fileiter 0 None bs content caps = Some chunks /\ concat chunks = content.
Proof. intros bs content caps Hbs. unfold fileiter. cbn [Z.eqb negb]. apply loop_none; auto. Qed.

(* ------------------------------------------------------------------ AppIterRange *)
Lemma air_phase2 : forall cs fuel start stop p,
  start <= p -> length cs < fuel ->
  concat (air_run fuel start stop (mkAir cs p)) = firstn (stop - p) (concat cs).
Proof.
  induction cs as [|c cs IH]; intros fuel start stop p Hsp Hf; destruct fuel as [|f]; try (cbn in Hf; lia); cbn [air_run].
  - unfold air_next; cbn [air_pos air_rest]. destruct (p <? start) eqn:E1; [apply Nat.ltb_lt in E1; lia|].
    destruct (stop <=? p); cbn [concat]; rewrite firstn_nil; reflexivity.
  - unfold air_next; cbn [air_pos air_rest]. destruct (p <? start) eqn:E1; [apply Nat.ltb_lt in E1; lia|].
    destruct (stop <=? p) eqn:E2.
    + apply Nat.leb_le in E2. replace (stop - p) with 0 by lia. reflexivity.
    + apply Nat.leb_gt in E2. cbn [concat]. destruct (p + length c <=? stop) eqn:E3.
      * apply Nat.leb_le in E3. cbn [concat]. rewrite IH by (cbn in Hf; lia).
        rewrite firstn_app_ge by lia. f_equal. f_equal. lia.
      * apply Nat.leb_gt in E3. cbn [concat]. rewrite IH by (cbn in Hf; lia).
        replace (stop - (p + length c)) with 0 by lia. cbn [firstn]. rewrite app_nil_r.
        unfold drop_last. rewrite firstn_app_le by lia. f_equal. lia.
Qed.

Lemma air_skip_start_spec : forall cs start stop p,
  p < start -> start < stop ->
  match air_skip_start start stop cs p with
  | None => skipn (start - p) (concat cs) = []
  | Some (y, s') =>
      start <= air_pos s' /\ length (air_rest s') < length cs /\
      y ++ firstn (stop - air_pos s') (concat (air_rest s')) = firstn (stop - start) (skipn (start - p) (concat cs))
  end.
Proof.
  induction cs as [|c cs IH]; intros start stop p Hp Hss; cbn [air_skip_start concat].
  - apply skipn_nil.
  - destruct (p + length c <? start) eqn:E1.
    + apply Nat.ltb_lt in E1. specialize (IH start stop (p + length c) E1 Hss).
      rewrite skipn_app_ge by lia. replace (start - p - length c) with (start - (p + length c)) by lia.
      destruct (air_skip_start start stop cs (p + length c)) as [[y s']|]; [|exact IH].
      destruct IH as (H1 & H2 & H3). cbn [length]. repeat split; [exact H1 | lia | exact H3].
    + apply Nat.ltb_ge in E1. destruct (p + length c =? start) eqn:E2.
      * apply Nat.eqb_eq in E2. cbn [air_pos air_rest length app]. repeat split; [lia | lia |].
        rewrite skipn_app_ge by lia. replace (start - p - length c) with 0 by lia. cbn [skipn]. f_equal. lia.
      * apply Nat.eqb_neq in E2. cbn [air_pos air_rest length]. repeat split; [lia | lia |].
        rewrite skipn_app_le by lia. unfold last_k.
        replace (length c - (p + length c - start)) with (start - p) by lia.
        destruct (stop <? p + length c) eqn:E3.
        -- apply Nat.ltb_lt in E3. replace (stop - (p + length c)) with 0 by lia. cbn [firstn]. rewrite app_nil_r.
           unfold drop_last. rewrite firstn_app_le by (rewrite skipn_length; lia). f_equal. rewrite skipn_length. lia.
        -- apply Nat.ltb_ge in E3. rewrite firstn_app_ge by (rewrite skipn_length; lia). f_equal. f_equal. rewrite skipn_length. lia.
Qed.

Theorem air_slice_exact : forall chunks start stop,
  start < stop -> concat (air chunks start stop) = slice (concat chunks) start stop.
Proof.
  intros chunks start stop Hss. unfold air, slice. cbn [air_run]. unfold air_next; cbn [air_pos air_rest].
  destruct start as [|start'].
  - change (0 <? 0) with false. cbn [skipn].
    pose proof (air_phase2 chunks (S (length chunks)) 0 stop 0 (le_n 0) (Nat.lt_succ_diag_r _)) as H.
    cbn [air_run] in H. unfold air_next in H; cbn [air_pos air_rest] in H. change (0 <? 0) with false in H.
    rewrite Nat.sub_0_r in *. exact H.
  - change (0 <? S start') with true.
    pose proof (air_skip_start_spec chunks (S start') stop 0 (Nat.lt_0_succ _) Hss) as H.
    rewrite Nat.sub_0_r in H.
    destruct (air_skip_start (S start') stop chunks 0) as [[y s']|].
    + destruct H as (H1 & H2 & H3). cbn [concat]. destruct s' as [r p]. cbn [air_pos air_rest] in *.
      rewrite (air_phase2 r (length chunks) (S start') stop p H1 H2). exact H3.
    + cbn [concat]. rewrite H. now rewrite firstn_nil.
Qed.

(* ------------------------------------------------------------------ Range arithmetic *)
Theorem range_bounds : forall s e len a b,
  (0 <= len)%Z -> range_for_length s e len = Some (a, b) -> (0 <= a < b /\ b <= len)%Z.
Proof.
  intros s e len a b Hlen H. unfold range_for_length in H.
  destruct e as [e|].
  - unfold cr_valid in H. destruct (s >=? e)%Z eqn:E1; [discriminate|].
    destruct ((0 <=? s) && (s <? len))%Z eqn:E2; [|discriminate].
    injection H as <- <-. lia.
  - destruct (s <? 0)%Z eqn:E0; unfold cr_valid in H.
    + destruct (s + len >=? len)%Z eqn:E1; [discriminate|].
      destruct ((0 <=? s + len) && (s + len <? len))%Z eqn:E2; [|discriminate].
      injection H as <- <-. lia.
    + destruct (s >=? len)%Z eqn:E1; [discriminate|].
      destruct ((0 <=? s) && (s <? len))%Z eqn:E2; [|discriminate].
      injection H as <- <-. lia.
Qed.

(* the three RFC 7233 forms, Range.parse conventions: bytes=a-b is (a, Some (b+1)),
   bytes=a- is (a, None), bytes=-n is (-n, None) *)
Theorem range_first_last : forall a b len,
  (0 <= a <= b)%Z -> (a < len)%Z -> range_for_length a (Some (b + 1)%Z) len = Some (a, Z.min (b + 1) len).
Proof.
  intros a b len H1 H2. unfold range_for_length, cr_valid.
  destruct (a >=? b + 1)%Z eqn:E1; [lia|].
  destruct ((0 <=? a) && (a <? len))%Z eqn:E2; [reflexivity|lia].
Qed.

Theorem range_first_open : forall a len,
  (0 <= a < len)%Z -> range_for_length a None len = Some (a, len).
Proof.
  intros a len H. unfold range_for_length, cr_valid.
  destruct (a <? 0)%Z eqn:E0; [lia|].
  destruct (a >=? len)%Z eqn:E1; [lia|].
  destruct ((0 <=? a) && (a <? len))%Z eqn:E2; [f_equal; f_equal; lia|lia].
Qed.

Theorem range_suffix : forall n len,
  (0 < n <= len)%Z -> range_for_length (- n) None len = Some ((len - n)%Z, len).
Proof.
  intros n len H. unfold range_for_length, cr_valid.
  destruct (- n <? 0)%Z eqn:E0; [|lia].
  destruct (- n + len >=? len)%Z eqn:E1; [lia|].
  destruct ((0 <=? - n + len) && (- n + len <? len))%Z eqn:E2; [f_equal; f_equal; lia|lia].
Qed.

Theorem range_unsatisfiable : forall a e len,
  (0 <= len <= a)%Z -> range_for_length a e len = None.
Proof.
  intros a e len H. unfold range_for_length, cr_valid.
  destruct e as [e|].
  - destruct (a >=? e)%Z; auto. destruct ((0 <=? a) && (a <? len))%Z eqn:E2; [lia|reflexivity].
  - destruct (a <? 0)%Z eqn:E0; [lia|].
    destruct (a >=? len)%Z eqn:E1; [reflexivity|lia].
Qed.

(* a suffix LONGER than the body: the code (and so the model) finds nothing satisfiable, where RFC 7233 2.1 selects
   the whole body — the classified finding range:suffix-longer-than-file-416 *)
Theorem range_suffix_longer : forall n len,
  (0 <= len < n)%Z -> range_for_length (- n) None len = None.
Proof.
  intros n len H. unfold range_for_length, cr_valid.
  destruct (- n <? 0)%Z eqn:E0; [|lia].
  destruct (- n + len >=? len)%Z eqn:E1; [reflexivity|].
  destruct ((0 <=? - n + len) && (- n + len <? len))%Z eqn:E2; [lia|reflexivity].
Qed.

(* ------------------------------------------------------------------ FileApp *)
Lemma GET_not_HEAD : str_eqb GET HEAD = false.
Proof. reflexivity. Qed.

Lemma full_iter_exact : forall k content, kind_ok k content ->
  option_concat (full_iter k content) = Some content.
Proof.
  intros [bs caps|chunks] content Hk; cbn [kind_ok full_iter] in *.
  - destruct (fileiter_full bs content caps Hk) as [chunks [H1 H2]]. rewrite H1. cbn [option_concat option_map]. rewrite H2. reflexivity.
  - cbn [option_concat option_map]. rewrite Hk. reflexivity.
Qed.

Lemma range_iter_exact : forall k content start stop, kind_ok k content ->
  (0 <= start < stop)%Z ->
  option_concat (range_iter k content start stop) = Some (slice content (Z.to_nat start) (Z.to_nat stop)).
Proof.
  intros [bs caps|chunks] content start stop Hk Hss; cbn [kind_ok range_iter] in *.
  - destruct (fileiter_slice start stop bs content caps Hk) as [chunks [H1 H2]]; [lia|].
    rewrite H1. cbn [option_concat option_map]. rewrite H2. reflexivity.
  - cbn [option_concat option_map]. rewrite air_slice_exact by lia. rewrite Hk. reflexivity.
Qed.

(* GET: exactly the file's bytes, its size as Content-Length *)
Theorem fileapp_get : forall content k, kind_ok k content ->
  fileapp (File true content) (mkFreq GET None k) =
  mkResp 200 None (Some (Z.of_nat (length content))) None [] (Some content).
Proof.
  intros content k Hk. unfold fileapp. cbn [meth range kind].
  change (str_eqb GET GET) with true. cbn [orb negb]. rewrite GET_not_HEAD.
  rewrite (full_iter_exact _ _ Hk). reflexivity.
Qed.

(* HEAD: the same status and headers as GET, no body — for every node and Range *)
Theorem fileapp_head : forall nd r k,
  let g := fileapp nd (mkFreq GET r k) in
  let h := fileapp nd (mkFreq HEAD r k) in
  status h = status g /\ location h = location g /\ content_length h = content_length g /\
  content_range h = content_range g /\ detail h = detail g /\ body h = Some [].
Proof.
  intros nd r k. unfold fileapp. cbn [meth range kind].
  change (str_eqb GET GET) with true. change (str_eqb HEAD HEAD) with true. change (str_eqb HEAD GET) with false.
  rewrite GET_not_HEAD. cbn [orb negb].
  destruct nd as [| |[|] content]; cbn; auto 7.
  destruct r as [[rs re]|]; cbn; auto 7.
  destruct (range_for_length rs re (Z.of_nat (length content))) as [[a b]|]; cbn; auto 7.
Qed.

(* other methods: 405, whatever the node *)
Theorem fileapp_405 : forall nd m r k,
  m <> GET -> m <> HEAD -> fileapp nd (mkFreq m r k) = simple 405.
Proof.
  intros nd m r k H1 H2. unfold fileapp. cbn [meth].
  rewrite (str_eqb_neq _ _ H1), (str_eqb_neq _ _ H2). reflexivity.
Qed.

(* missing: 404; a directory or an unreadable file: 403 *)
Theorem fileapp_missing : forall m r k, m = GET \/ m = HEAD ->
  fileapp NoEnt (mkFreq m r k) = simple 404 /\
  fileapp Dir (mkFreq m r k) = simple 403 /\
  forall content, fileapp (File false content) (mkFreq m r k) = simple 403.
Proof.
  intros m r k [->| ->]; unfold fileapp; cbn [meth];
    [change (str_eqb GET GET) with true | change (str_eqb HEAD HEAD) with true; change (str_eqb HEAD GET) with false];
    cbn [orb negb]; auto.
Qed.

(* a satisfiable Range: 206, exactly content[start:stop], Content-Range start-(stop-1)/len,
   Content-Length stop-start — for every block size, read pattern and wrapper chunking *)
Theorem fileapp_range : forall content k rs re start stop,
  kind_ok k content ->
  range_for_length rs re (Z.of_nat (length content)) = Some (start, stop) ->
  fileapp (File true content) (mkFreq GET (Some (rs, re)) k) =
  mkResp 206 None (Some (stop - start)%Z) (Some (Some (start, stop), Z.of_nat (length content))) []
         (Some (slice content (Z.to_nat start) (Z.to_nat stop))) /\
  (0 <= start < stop)%Z /\ (stop <= Z.of_nat (length content))%Z.
Proof.
  intros content k rs re start stop Hk Hr.
  pose proof (range_bounds _ _ _ _ _ (Nat2Z.is_nonneg _) Hr) as Hb.
  split; [|lia].
  unfold fileapp. cbn [meth range kind].
  change (str_eqb GET GET) with true. cbn [orb negb]. rewrite GET_not_HEAD, Hr.
  rewrite (range_iter_exact _ _ _ _ Hk) by lia. reflexivity.
Qed.

(* an unsatisfiable Range: 416 with Content-Range */len and none of the file *)
Theorem fileapp_416 : forall content k rs re m, m = GET \/ m = HEAD ->
  range_for_length rs re (Z.of_nat (length content)) = None ->
  fileapp (File true content) (mkFreq m (Some (rs, re)) k) =
  mkResp 416 None None (Some (None, Z.of_nat (length content))) [] (Some []).
Proof.
  intros content k rs re m [->| ->] Hr; unfold fileapp; cbn [meth range kind];
    [change (str_eqb GET GET) with true | change (str_eqb HEAD HEAD) with true; change (str_eqb HEAD GET) with false];
    cbn [orb negb]; rewrite Hr; reflexivity.
Qed.

(* "for any Range request exactly the requested slice" is REFUTED for a suffix longer than the file:
   Range: bytes=-20 on a 10-byte file is answered 416 although the requested slice is the whole file *)
Theorem range_suffix_longer_refuted :
  exists content n k,
    (0 < Z.of_nat (length content) < n)%Z /\ kind_ok k content /\
    fileapp (File true content) (mkFreq GET (Some ((- n)%Z, None)) k) =
      mkResp 416 None None (Some (None, Z.of_nat (length content))) [] (Some []).
Proof.
  exists [0; 1; 2; 3; 4; 5; 6; 7; 8; 9]%N, 20%Z, (KFileIter 65536 []).
  repeat split; try reflexivity; cbn; lia.
Qed.

(* ------------------------------------------------------------------ end to end *)
Require Import Webob.Proofs.C17_dirapp.

(* whatever answers 200/206 is a readable regular file inside the root, and the body is
   that file's bytes (GET 200) / the announced slice of them (GET 206) *)
Theorem serve_ok_is_inside_file : forall root idx hide fs dq fq r,
  isabs root = true -> ends_with_sep root = true -> idx_ok idx ->
  serve root idx hide fs dq fq = r -> (status r = 200 \/ status r = 206)%Z ->
  exists p content,
    inside root p /\ normal_abs p /\ fs p = File true content /\
    r = fileapp (File true content) fq.
Proof.
  intros root idx hide fs dq fq r Ha He Hok Hs Hst. unfold serve in Hs.
  destruct (dirapp_call root idx hide fs dq) as [|c|loc|p] eqn:E; subst r;
    try (cbn in Hst; destruct Hst; discriminate).
  destruct (contained _ _ _ _ _ _ Ha He Hok E) as [Hin [Hn Hf]].
  exists p. unfold isfile in Hf. destruct (fs p) as [| |rd content] eqn:Efs; try discriminate.
  exists content. destruct rd.
  - auto.
  - exfalso. unfold fileapp in Hst.
    destruct (negb (str_eqb (meth fq) GET || str_eqb (meth fq) HEAD)); cbn in Hst; destruct Hst; discriminate.
Qed.

Theorem serve_get_exact : forall root idx hide fs dq k r,
  isabs root = true -> ends_with_sep root = true -> idx_ok idx ->
  serve root idx hide fs dq (mkFreq GET None k) = r -> status r = 200%Z ->
  exists p content,
    inside root p /\ normal_abs p /\ fs p = File true content /\
    content_length r = Some (Z.of_nat (length content)) /\
    (kind_ok k content -> body r = Some content).
Proof.
  intros root idx hide fs dq k r Ha He Hok Hs Hst.
  destruct (serve_ok_is_inside_file _ _ _ _ _ _ _ Ha He Hok Hs (or_introl Hst)) as [p [content [H1 [H2 [H3 H4]]]]].
  exists p, content. repeat split; auto; try apply H2.
  - subst r. rewrite H4. unfold fileapp. cbn [meth range kind].
    change (str_eqb GET GET) with true. cbn [orb negb]. reflexivity.
  - intros Hk. rewrite H4, (fileapp_get _ _ Hk). reflexivity.
Qed.
