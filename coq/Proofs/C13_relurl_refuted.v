(* C13 — outside the domain [ref_ok] the stdlib's urljoin (hence relative_url) is NOT RFC 3986 5.2 resolution:
   one witness per deviation class, by computation on the models.  Each corresponds to a `relative_url:*`
   finding and replays on the implementation. *)
From Coq Require Import NArith List Bool String.
Require Import Webob.Lib.Val Webob.Lib.PyStr Webob.Lib.C13_Utf8 Webob.Gen.C13_tables
               Webob.Model.C13_urlsplit Webob.Model.C13_urlpath Webob.Model.C13_urljoin
               Webob.Spec.C13_spec Webob.Spec.C13_rfc3986 Webob.Spec.C13_refdomain.
Import ListNotations.
Local Open Scope N_scope.

(* the request http://h with SCRIPT_NAME "" and PATH_INFO "/a" *)
Definition req_a : environ := mkEnv s_http (Some (H "68"%string)) (H "68"%string) s_80 (Some []) (H "2f61"%string) None Utf8.
Definition base_a : str := H "687474703a2f2f682f61"%string.      (* http://h/a *)

Definition deviates (other : str) : Prop :=
  ref_ok other = false /\
  exists u, relative_url (fun _ => true) req_a other false = ROk u /\ u <> rfc3986_resolve base_a other.

Ltac witness := split; [vm_compute; reflexivity|eexists; split; [vm_compute; reflexivity|vm_compute; discriminate]].

(* "?"            -> http://h/a            RFC: http://h/a?          (empty component delimiter dropped) *)
Lemma dev_empty_component : deviates (H "3f"%string).
Proof. witness. Qed.
(* "g//h"         -> http://h/g/h          RFC: http://h/g//h        (empty path segments collapsed) *)
Lemma dev_empty_segments : deviates (H "672f2f68"%string).
Proof. witness. Qed.
(* "//g/a/../b"   -> http://g/a/../b       RFC: http://g/b           (dot segments kept in an absolute reference) *)
Lemma dev_absolute_reference : deviates (H "2f2f672f612f2e2e2f62"%string).
Proof. witness. Qed.
(* "//"           -> http://h/a            RFC: http://              (empty authority ignored) *)
Lemma dev_empty_authority : deviates (H "2f2f"%string).
Proof. witness. Qed.
(* ".;x"          -> http://h/;x           RFC: http://h/.;x         (a dot segment carrying ;params) *)
Lemma dev_dot_with_params : deviates (H "2e3b78"%string).
Proof. witness. Qed.

(* the domain is inhabited by the usual reference shapes *)
Lemma ref_ok_examples :
  forallb ref_ok
    [ []; H "2e2e2f"%string; H "2e2f"%string; H "3f71"%string; H "2366"%string; H "2f616273"%string;
      H "673b783d312f2e2e2f79"%string; H "2e2e2f2e2e2f673f793d2f2e2e2f7a23732f2e2e2f74"%string;
      H "2e"%string; H "2e2e"%string; H "672f"%string; H "2f"%string; H "2f2e2e2f612e2f2e62"%string ] = true.
Proof. vm_compute. reflexivity. Qed.

(* and the theorem's conclusion computed on one of them: "g;x=1/../y" against http://h/a *)
Lemma relurl_example :
  relative_url (fun _ => true) req_a (H "673b783d312f2e2e2f79"%string) false = ROk (H "687474703a2f2f682f79"%string) /\
  rfc3986_resolve base_a (H "673b783d312f2e2e2f79"%string) = H "687474703a2f2f682f79"%string.
Proof. split; vm_compute; reflexivity. Qed.
