(* C13 — Request.blank(request.url) reproduces the request: the round-trip theorem. *)
From Coq Require Import NArith ZArith List Bool Lia ZifyBool ZifyNat ZifyN.
Require Import Webob.Lib.Val Webob.Lib.PyStr Webob.Lib.C13_Utf8 Webob.Gen.C13_tables
               Webob.Model.C13_urlsplit Webob.Model.C13_urlpath Webob.Spec.C13_spec
               Webob.Proofs.C13_quote Webob.Proofs.C13_host.
Import ListNotations.
Local Open Scope N_scope.

Definition qsfx (q : str) : str := if is_empty q then [] else 63 :: q.

Lemma add_query_spec e u : add_query e u = u ++ qsfx (query_text (e_query e)).
Proof.
  unfold add_query, qsfx, query_text. destruct (e_query e) as [q|]; [|rewrite app_nil_r; reflexivity].
  destruct (is_empty q); [rewrite app_nil_r|]; reflexivity.
Qed.

Lemma scheme_ok_lower sch p : scheme_ok sch p -> sch <> [] /\ forallb is_lower_alpha sch = true.
Proof.
  intros [->|[->|[H1 [H2 _]]]]; [split; [discriminate|reflexivity]|split; [discriminate|reflexivity]|split; assumption].
Qed.

Lemma elide_oport_ok sch p : oport_ok p -> oport_ok (elide_default sch p).
Proof. intros H. destruct (elide_default_cases sch p) as [-> | ->]; [exact I|exact H]. Qed.

(* showing host_port explicitly and eliding it again gives what eliding the original port gives *)
Lemma elide_host_port sch p : scheme_ok sch p ->
  let hp := match p with Some p => p | None => if str_eqb sch s_https then s_443 else s_80 end in
  elide_default sch (Some hp) = elide_default sch p.
Proof.
  intros Hs. destruct p as [p|]; [reflexivity|]. cbn zeta.
  destruct Hs as [-> | [-> | [_ [_ Hn]]]]; [reflexivity|reflexivity|contradiction].
Qed.

(* the netloc after environ_from_url's default-port step is always  domain:host_port *)
Lemma netloc_completed sch (dom : str) p (X : Type) (k : str -> X) (err : X) :
  scheme_ok sch p -> oport_ok p -> has_port dom = false ->
  let hp := match p with Some p => p | None => if str_eqb sch s_https then s_443 else s_80 end in
  let netloc := dom ++ port_sfx (elide_default sch p) in
  (if negb (mem_n 58 netloc) || (last netloc 0 =? 93) then
     if str_eqb sch s_http then k (netloc ++ 58 :: s_80)
     else if str_eqb sch s_https then k (netloc ++ 58 :: s_443)
     else err
   else k netloc) = k (dom ++ 58 :: hp).
Proof.
  intros Hs Hp Hd hp netloc.
  assert (Hc : negb (mem_n 58 netloc) || (last netloc 0 =? 93) = negb (has_port netloc)).
  { unfold has_port. destruct (mem_n 58 netloc), (last netloc 0 =? 93); reflexivity. }
  rewrite Hc. clear Hc. subst netloc hp.
  unfold elide_default.
  destruct (str_eqb sch s_https) eqn:E1.
  { apply str_eqb_eq in E1. subst sch. cbn [str_eqb s_http s_https N.eqb Pos.eqb andb].
    destruct p as [p|].
    - destruct (str_eqb p s_443) eqn:E3.
      + apply str_eqb_eq in E3. subst p. cbn [port_sfx]. rewrite app_nil_r, Hd. reflexivity.
      + cbn [port_sfx]. rewrite has_port_app by exact Hp. reflexivity.
    - cbn [port_sfx]. rewrite app_nil_r, Hd. reflexivity. }
  destruct (str_eqb sch s_http) eqn:E2.
  { destruct p as [p|].
    - destruct (str_eqb p s_80) eqn:E3.
      + apply str_eqb_eq in E3. subst p. cbn [port_sfx]. rewrite app_nil_r, Hd. reflexivity.
      + cbn [port_sfx]. rewrite has_port_app by exact Hp. reflexivity.
    - cbn [port_sfx]. rewrite app_nil_r, Hd. reflexivity. }
  destruct p as [p|].
  - cbn [port_sfx]. rewrite has_port_app by exact Hp. reflexivity.
  - destruct Hs as [-> | [-> | [_ [_ Hn]]]]; [discriminate E2|discriminate E1|contradiction].
Qed.

Lemma encget_nil enc : encget enc [] = Ok [].
Proof. destruct enc; reflexivity. Qed.

Section Blank.
  Variable v6ok : str -> bool.
  Variables (e : environ) (h : hostsp) (p : option str) (st pt : str).
  Hypothesis Hview : host_view v6ok e h p.
  Hypothesis Hsch : scheme_ok (e_scheme e) p.
  Hypothesis Hs : encode (e_enc e) st = Ok (raw_script e).
  Hypothesis Hp : encode (e_enc e) pt = Ok (e_path e).
  Hypothesis Hroot : rooted (st ++ pt).
  Hypothesis Hq : query_ok (e_query e).

  Let sch := e_scheme e.
  Let enc := e_enc e.
  Let raw := raw_script e ++ e_path e.
  Let P := url_quote raw.
  Let q := query_text (e_query e).
  Let dom := hs_text h.
  Let hp := host_port e.
  Let netloc := dom ++ port_sfx (elide_default sch p).
  Let u := sch ++ s_css ++ netloc ++ P ++ qsfx q.

  Lemma b_get_script : get_script e = Ok st.
  Proof. unfold get_script. apply encget_encode. exact Hs. Qed.
  Lemma b_get_path : get_path e = Ok pt.
  Proof. unfold get_path. apply encget_encode. exact Hp. Qed.
  Lemma b_quoted_script : quoted_script e = Ok (url_quote (raw_script e)).
  Proof. unfold quoted_script. rewrite b_get_script. cbn [bind]. rewrite Hs. reflexivity. Qed.
  Lemma b_quoted_path : quoted_path e = Ok (url_quote (e_path e)).
  Proof. unfold quoted_path. rewrite b_get_path. cbn [bind]. rewrite Hp. reflexivity. Qed.

  Lemma b_encode_raw : encode enc (st ++ pt) = Ok raw.
  Proof. apply encode_app; assumption. Qed.
  Lemma b_raw_octets : forallb is_octet raw = true.
  Proof. apply (encode_octets _ _ _ b_encode_raw). Qed.
  Lemma b_P_chars : forallb path_char P = true.
  Proof. apply pct_encoded_chars. apply quote_pct_encoded. exact b_raw_octets. Qed.
  Lemma b_P_rooted : rooted P.
  Proof. apply url_quote_rooted. apply (encode_rooted _ _ _ b_encode_raw Hroot). Qed.
  Lemma b_q_chars : forallb query_char q = true.
  Proof. unfold q, query_text. destruct (e_query e); [exact Hq|reflexivity]. Qed.

  Lemma b_host_ok : hs_ok v6ok h /\ oport_ok p.
  Proof. destruct Hview as [H1 [H2 _]]. split; assumption. Qed.

  Lemma b_url : url e = Ok u.
  Proof.
    unfold url, path_url, application_url. rewrite b_quoted_path, b_quoted_script. cbn [bind].
    rewrite add_query_spec. f_equal. unfold u, P, raw, netloc, sch, dom.
    rewrite (view_host_url _ _ _ _ Hview), url_quote_app. rewrite <- !app_assoc. reflexivity.
  Qed.

  Lemma b_hp : hp = match p with Some p => p | None => if str_eqb sch s_https then s_443 else s_80 end.
  Proof. apply (view_host_port _ _ _ _ Hview). Qed.

  Definition blank_env : environ :=
    mkEnv sch (Some (dom ++ 58 :: hp)) dom hp (Some []) raw (Some q) Utf8.

  Lemma b_parts : blank_parts v6ok u = Ok (sch, dom ++ 58 :: hp, P ++ qsfx q).
  Proof.
    destruct b_host_ok as [Hh Hpo].
    destruct (scheme_ok_lower _ _ Hsch) as [Hne Hlow].
    destruct (netloc_of_host v6ok h (elide_default sch p) Hh (elide_oport_ok sch p Hpo)) as [Hnc Hnb].
    assert (Hre : scheme_re_search u = true) by exact (scheme_re_built sch netloc P q Hne Hlow).
    assert (Hsp : urlsplit v6ok u = SOk sch netloc P q [])
      by exact (urlsplit_built v6ok sch netloc P q Hne Hlow Hnc Hnb b_P_chars b_P_rooted b_q_chars).
    unfold blank_parts. rewrite Hre, Hsp. cbn [is_empty negb].
    rewrite b_hp.
    assert (Hpq : (if is_empty q then P else P ++ 63 :: q) = P ++ qsfx q).
    { unfold qsfx. destruct (is_empty q); [rewrite app_nil_r|]; reflexivity. }
    rewrite <- Hpq.
    exact (netloc_completed sch dom p _ (fun nl => Ok (sch, nl, if is_empty q then P else P ++ 63 :: q))
             (Raise ETypeError) Hsch Hpo (has_port_hs v6ok h Hh)).
  Qed.

  Lemma b_split_pq : split_path_query (P ++ qsfx q) = (P, q).
  Proof.
    assert (Hno : forallb (fun c => negb (c =? 63)) P = true).
    { generalize b_P_chars. apply forallb_impl. intros x. unfold path_char. lia. }
    unfold split_path_query, qsfx. destruct q as [|c q']; cbn [is_empty].
    - rewrite app_nil_r, (mem_n_none 63 P Hno). reflexivity.
    - rewrite mem_n_app. cbn [mem_n]. rewrite N.eqb_refl, orb_true_r.
      unfold split_first. rewrite span_until_app; [reflexivity|exact Hno|].
      right. eexists; eexists; split; reflexivity.
  Qed.

  Lemma b_blank : environ_from_url v6ok u = Ok blank_env.
  Proof.
    unfold environ_from_url. rewrite b_parts. cbn [bind]. rewrite b_split_pq.
    unfold P. rewrite (url_unquote_quote raw b_raw_octets). cbn [bind].
    rewrite rsplit_colon_app; [reflexivity|].
    apply digits_no_colon. apply (view_host_port_ok _ _ _ _ Hview).
  Qed.

  Let e2 := with_enc enc blank_env.

  Lemma b_view2 : host_view v6ok e2 h (Some hp).
  Proof.
    destruct b_host_ok as [Hh _]. split; [exact Hh|]. split; [apply (view_host_port_ok _ _ _ _ Hview)|].
    left. reflexivity.
  Qed.

  Lemma b_host_url2 : host_url e2 = host_url e.
  Proof.
    rewrite (view_host_url _ _ _ _ b_view2), (view_host_url _ _ _ _ Hview).
    change (e_scheme e2) with sch. fold sch. rewrite b_hp. rewrite (elide_host_port sch p Hsch). reflexivity.
  Qed.

  Lemma b_quoted2 : quoted_script e2 = Ok [] /\ quoted_path e2 = Ok P.
  Proof.
    split.
    - unfold quoted_script, get_script. change (raw_script e2) with (@nil N). change (e_enc e2) with enc.
      rewrite encget_nil. cbn [bind]. rewrite encode_nil. reflexivity.
    - unfold quoted_path, get_path. change (e_path e2) with raw. change (e_enc e2) with enc.
      rewrite (encget_encode _ _ _ b_encode_raw). cbn [bind]. rewrite b_encode_raw. reflexivity.
  Qed.

  Lemma b_url2 : url e2 = Ok u.
  Proof.
    destruct b_quoted2 as [H1 H2].
    unfold url, path_url, application_url. rewrite H1, H2. cbn [bind].
    rewrite add_query_spec. change (e_query e2) with (Some q). cbn [query_text].
    rewrite b_host_url2, app_nil_r. f_equal. unfold u, netloc, sch, dom.
    rewrite (view_host_url _ _ _ _ Hview). rewrite <- !app_assoc. reflexivity.
  Qed.

  Lemma b_path_qs2 : path_qs e2 = path_qs e.
  Proof.
    destruct b_quoted2 as [H1 H2].
    unfold path_qs, path. rewrite H1, H2, b_quoted_script, b_quoted_path. cbn [bind].
    rewrite !add_query_spec. change (e_query e2) with (Some q). cbn [query_text app].
    unfold P, raw. rewrite url_quote_app. reflexivity.
  Qed.

  Lemma b_u_printable : forallb printable u = true.
  Proof.
    destruct b_host_ok as [Hh Hpo].
    destruct (scheme_ok_lower _ _ Hsch) as [Hne Hlow].
    destruct (netloc_of_host v6ok h (elide_default sch p) Hh (elide_oport_ok sch p Hpo)) as [Hnc Hnb].
    exact (u_printable v6ok sch netloc P q Hlow Hnc Hnb b_P_chars b_q_chars).
  Qed.

  Theorem blank_roundtrip_sec :
    exists u' e', url e = Ok u' /\ environ_from_url v6ok u' = Ok e' /\
      e_scheme e' = e_scheme e /\ domain e' = domain e /\ host_port e' = host_port e /\
      e_server_name e' = domain e /\ e_server_port e' = host_port e /\
      e_script e' = Some [] /\ e_path e' = raw_script e ++ e_path e /\
      e_query e' = Some (query_text (e_query e)) /\
      get_script (with_enc (e_enc e) e') = Ok [] /\
      get_path (with_enc (e_enc e) e') = Ok (st ++ pt) /\
      url (with_enc (e_enc e) e') = Ok u' /\
      path_qs (with_enc (e_enc e) e') = path_qs e /\
      forallb printable u' = true.
  Proof.
    exists u, blank_env. split; [exact b_url|]. split; [exact b_blank|].
    assert (Hd : domain e = dom) by apply (view_domain _ _ _ _ Hview).
    assert (Hd2 : domain e2 = dom) by apply (view_domain _ _ _ _ b_view2).
    assert (Hp2 : host_port e2 = hp) by apply (view_host_port _ _ _ _ b_view2).
    repeat split; try reflexivity.
    - rewrite Hd. exact Hd2.
    - exact Hp2.
    - symmetry. exact Hd.
    - unfold get_script. cbn. apply encget_nil.
    - unfold get_path. apply (encget_encode _ _ _ b_encode_raw).
    - exact b_url2.
    - exact b_path_qs2.
    - exact b_u_printable.
  Qed.
End Blank.
