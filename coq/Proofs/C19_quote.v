(* C19 — the quoting pair: _process_quoted_string_token inverts _escape_and_quote_parameter_value for EVERY
   string (backslash-run parity), and for values over HTAB / SP / VCHAR / obs-text the quoted form is a
   token or quoted-string of the RFC grammar that the element scanner reads back as one value. *)
From Coq Require Import ZArith NArith List Bool Lia ZifyBool ZifyN.
Require Import Webob.Lib.Val Webob.Lib.PyStr Webob.Lib.Rx Webob.Gen.C03_regexes Webob.Spec.C03_abnf
               Webob.Proofs.C03_lang Webob.Model.C03_scan Webob.Proofs.C03_scan.
Import ListNotations.
Local Open Scope N_scope.

(* ---------- case analysis on "is this character 92 / 34" without unfolding N literals by hand ---------- *)
Ltac split_N c := destruct c as [|c]; [|do 7 (try destruct c as [c|c|])].

Lemma D_bs_bs X : drop_single_bs (92 :: 92 :: X) = 92 :: drop_single_bs (92 :: X).
Proof. reflexivity. Qed.
Lemma D_bs_nil : drop_single_bs [92] = [].
Proof. reflexivity. Qed.
Lemma D_bs_other c X : c <> 92 -> drop_single_bs (92 :: c :: X) = drop_single_bs (c :: X).
Proof. intros H. split_N c; try reflexivity. contradiction H; reflexivity. Qed.
Lemma D_other c X : c <> 92 -> drop_single_bs (c :: X) = c :: drop_single_bs X.
Proof. intros H. split_N c; try reflexivity. contradiction H; reflexivity. Qed.

Lemma C_bs_bs X : collapse_bs (92 :: 92 :: X) = 92 :: collapse_bs X.
Proof. reflexivity. Qed.
Lemma C_other c X : c <> 92 -> collapse_bs (c :: X) = c :: collapse_bs X.
Proof. intros H. split_N c; try reflexivity. contradiction H; reflexivity. Qed.
Lemma C_bs_other c X : c <> 92 -> collapse_bs (92 :: c :: X) = 92 :: collapse_bs (c :: X).
Proof. intros H. split_N c; try reflexivity. contradiction H; reflexivity. Qed.
Lemma C_bs_nil : collapse_bs [92] = [92].
Proof. reflexivity. Qed.

Definition no_bs_head (X : str) : Prop := match X with 92 :: _ => False | _ => True end.
Lemma no_bs_head_cases X : no_bs_head X -> X = [] \/ exists c X', X = c :: X' /\ c <> 92.
Proof.
  destruct X as [|c X']; [auto|]. intros H. right. exists c, X'. split; [reflexivity|].
  intros ->. exact H.
Qed.
Lemma bs_head_dec X : (exists X', X = 92 :: X') \/ no_bs_head X.
Proof.
  destruct X as [|c X']; [right; exact I|]. destruct (N.eq_dec c 92) as [->|Hn]; [left; eauto|].
  right. split_N c; try exact I. contradiction Hn; reflexivity.
Qed.
Lemma D_keeps_no_bs_head X : no_bs_head X -> no_bs_head (drop_single_bs X).
Proof.
  intros H. destruct (no_bs_head_cases X H) as [->|(c & X' & -> & Hc)]; [exact I|].
  rewrite D_other by exact Hc. split_N c; try exact I. contradiction Hc; reflexivity.
Qed.

(* one escaped backslash *)
Lemma CD_bs_bs X :
  collapse_bs (drop_single_bs (92 :: 92 :: X)) = 92 :: collapse_bs (drop_single_bs X).
Proof.
  rewrite D_bs_bs. destruct (bs_head_dec X) as [(X' & ->)|Hn].
  - rewrite D_bs_bs. rewrite C_bs_bs. reflexivity.
  - assert (E : drop_single_bs (92 :: X) = drop_single_bs X).
    { destruct (no_bs_head_cases X Hn) as [->|(c & X' & -> & Hc)]; [reflexivity|]. apply D_bs_other, Hc. }
    rewrite E. pose proof (D_keeps_no_bs_head X Hn) as Hd.
    destruct (no_bs_head_cases _ Hd) as [->|(c & Y & -> & Hc)]; [reflexivity|].
    apply C_bs_other, Hc.
Qed.
(* one escaped quote *)
Lemma CD_bs_dq X :
  collapse_bs (drop_single_bs (92 :: 34 :: X)) = 34 :: collapse_bs (drop_single_bs X).
Proof. reflexivity. Qed.
Lemma CD_other c X : c <> 92 ->
  collapse_bs (drop_single_bs (c :: X)) = c :: collapse_bs (drop_single_bs X).
Proof. intros H. rewrite D_other by exact H. apply C_other, H. Qed.

(* the escape as a character-wise map *)
Definition esc_c (c : N) : str := if c =? 92 then [92; 92] else if c =? 34 then [92; 34] else [c].
Lemma escape_flat s : escape_bs_dq s = flat_map esc_c s.
Proof.
  unfold escape_bs_dq. induction s as [|c s IH]; [reflexivity|].
  cbn [replace_c flat_map]. unfold esc_c at 1.
  destruct (c =? 92) eqn:E92.
  - cbn [app replace_c]. change (92 =? 34) with false. cbn iota. rewrite IH. reflexivity.
  - cbn [replace_c]. destruct (c =? 34) eqn:E34; rewrite IH; reflexivity.
Qed.

Theorem unescape_escape s : collapse_bs (drop_single_bs (escape_bs_dq s)) = s.
Proof.
  rewrite escape_flat. induction s as [|c s IH]; [reflexivity|].
  cbn [flat_map]. unfold esc_c at 1.
  destruct (c =? 92) eqn:E92.
  - apply N.eqb_eq in E92 as ->. cbn [app]. rewrite CD_bs_bs, IH. reflexivity.
  - destruct (c =? 34) eqn:E34.
    + apply N.eqb_eq in E34 as ->. cbn [app]. rewrite CD_bs_dq, IH. reflexivity.
    + cbn [app]. apply N.eqb_neq in E92. rewrite CD_other by exact E92. rewrite IH. reflexivity.
Qed.

Lemma strip_ends_quoted e : strip_ends (34 :: e ++ [34]) = e.
Proof. unfold strip_ends. cbn [tl]. apply removelast_last. Qed.
Lemma is_quoted_quoted e : is_quoted (34 :: e ++ [34]) = true.
Proof.
  unfold is_quoted. cbn [rev]. rewrite rev_app_distr. reflexivity.
Qed.
Lemma process_quoted_escape s : process_quoted (34 :: escape_bs_dq s ++ [34]) = s.
Proof. unfold process_quoted. rewrite strip_ends_quoted. apply unescape_escape. Qed.

(* ---------- the token test: shape of the regenerated token regex ---------- *)
Definition tokL : ranges := match gen_token with Cat (Cls false L) _ => L | _ => [] end.
Lemma gen_token_shape : gen_token = Cat (Cls false tokL) (Star (Cls false tokL)).
Proof. vm_compute. reflexivity. Qed.

Lemma cmem_false L c : cmem false L c = in_ranges L c.
Proof. unfold cmem. destruct (in_ranges L c); reflexivity. Qed.

Lemma star_cls_forall L w : matches (Star (Cls false L)) w -> Forall (fun c => in_ranges L c = true) w.
Proof.
  intros H. remember (Star (Cls false L)) as r eqn:Hr. induction H; try discriminate.
  - constructor.
  - injection Hr as ->. apply inv_cls in H as (c & -> & Hc). rewrite cmem_false in Hc. constructor; [exact Hc|].
    apply IHmatches2. reflexivity.
Qed.

Lemma token_chars e : rmatch gen_token e = true ->
  e <> [] /\ Forall (fun c => in_ranges tokL c = true) e.
Proof.
  intros H. apply rmatch_correct in H. rewrite gen_token_shape in H.
  apply inv_cat in H as (w1 & w2 & -> & H1 & H2). apply inv_cls in H1 as (c & -> & Hc). rewrite cmem_false in Hc.
  split; [discriminate|]. constructor; [exact Hc|]. apply star_cls_forall, H2.
Qed.

Lemma tokL_no_bs : in_ranges tokL 92 = false. Proof. vm_compute. reflexivity. Qed.
Lemma tokL_no_dq : in_ranges tokL 34 = false. Proof. vm_compute. reflexivity. Qed.

Lemma escape_id s : ~ In 92 (escape_bs_dq s) -> escape_bs_dq s = s.
Proof.
  rewrite escape_flat. induction s as [|c s IH]; [reflexivity|].
  cbn [flat_map]. unfold esc_c at 1 3. intros H.
  destruct (c =? 92) eqn:E92; [exfalso; apply H; left; reflexivity|].
  destruct (c =? 34) eqn:E34; [exfalso; apply H; left; reflexivity|].
  cbn [app]. f_equal. apply IH. intros Hin. apply H. right. exact Hin.
Qed.

Lemma escape_and_quote_cons s : s <> [] ->
  escape_and_quote s = if rmatch gen_token (escape_bs_dq s) then escape_bs_dq s else 34 :: escape_bs_dq s ++ [34].
Proof. destruct s; [contradiction|reflexivity]. Qed.

Theorem quote_inverse s : unquote_value (escape_and_quote s) = s.
Proof.
  destruct s as [|c0 s0]; [reflexivity|]. set (s := c0 :: s0). assert (Hs0 : s <> []) by discriminate. clearbody s.
  rewrite escape_and_quote_cons by exact Hs0.
  destruct (rmatch gen_token (escape_bs_dq s)) eqn:E.
  - apply token_chars in E as [Hne Hall].
    assert (Hno : ~ In 92 (escape_bs_dq s)).
    { intros Hin. rewrite Forall_forall in Hall. specialize (Hall _ Hin). rewrite tokL_no_bs in Hall. discriminate. }
    assert (Hq : is_quoted (escape_bs_dq s) = false).
    { unfold is_quoted. destruct (escape_bs_dq s) as [|c r] eqn:Er; [reflexivity|].
      inversion Hall as [|? ? Hc _]; subst.
      destruct (N.eq_dec c 34) as [->|Hn]; [rewrite tokL_no_dq in Hc; discriminate|].
      split_N c; try reflexivity. contradiction Hn; reflexivity. }
    unfold unquote_value. rewrite Hq. apply escape_id, Hno.
  - unfold unquote_value. rewrite is_quoted_quoted. apply process_quoted_escape.
Qed.

(* ---------- values over HTAB / SP / VCHAR / obs-text ---------- *)
Definition qchar_ok (s : str) : Prop := Forall (fun c => is_qpair_char c = true) s.

Lemma qchar_split c : is_qpair_char c = true -> c <> 34 -> c <> 92 -> is_qdtext c = true.
Proof.
  unfold is_qpair_char, is_qdtext. cbn [in_ranges]. intros H H1 H2. lia.
Qed.

Lemma take_qbody_bs_bs r : take_qbody (92 :: 92 :: r) =
  match take_qbody r with Some (b, r') => Some (92 :: 92 :: b, r') | None => None end.
Proof. reflexivity. Qed.
Lemma take_qbody_bs_dq r : take_qbody (92 :: 34 :: r) =
  match take_qbody r with Some (b, r') => Some (92 :: 34 :: b, r') | None => None end.
Proof. reflexivity. Qed.
Lemma take_qbody_qd c r : c <> 34 -> c <> 92 -> is_qdtext c = true -> take_qbody (c :: r) =
  match take_qbody r with Some (b, r') => Some (c :: b, r') | None => None end.
Proof.
  intros H1 H2 Hq.
  split_N c; try (cbn [take_qbody]; rewrite Hq; reflexivity).
  all: try (contradiction H2; reflexivity); try (contradiction H1; reflexivity).
Qed.

(* the scanner reads a freshly quoted value back as one quoted-string, whatever follows *)
Lemma take_qbody_escape s rest : qchar_ok s ->
  take_qbody (escape_bs_dq s ++ 34 :: rest) = Some (escape_bs_dq s ++ [34], rest).
Proof.
  rewrite escape_flat. induction 1 as [|c s Hc Hs IH]; [reflexivity|].
  cbn [flat_map]. unfold esc_c at 1 3.
  destruct (c =? 92) eqn:E92.
  - cbn [app]. rewrite take_qbody_bs_bs, IH. reflexivity.
  - destruct (c =? 34) eqn:E34.
    + cbn [app]. rewrite take_qbody_bs_dq, IH. reflexivity.
    + cbn [app]. apply N.eqb_neq in E92, E34.
      rewrite take_qbody_qd; [rewrite IH; reflexivity|exact E34|exact E92|].
      apply qchar_split; assumption.
Qed.

Lemma tokL_tchar c : in_ranges tokL c = is_tchar c.
Proof.
  destruct (N.ltb_spec c 127) as [Hlt|Hge].
  - assert (G : forallb (fun n => Bool.eqb (in_ranges tokL n) (is_tchar n)) (map N.of_nat (seq 0 127)) = true)
      by (vm_compute; reflexivity).
    rewrite forallb_forall in G. specialize (G c).
    apply Bool.eqb_prop, G. apply in_map_iff. exists (N.to_nat c). split; [lia|]. apply in_seq. lia.
  - assert (E1 : in_ranges tokL c = false).
    { assert (B : forallb (fun r : N * N => snd r <? 127) tokL = true) by (vm_compute; reflexivity).
      revert B. generalize tokL. induction r as [|[lo hi] r IH]; [reflexivity|].
      cbn [forallb in_ranges snd]. intros B. apply andb_true_iff in B as [B1 B2]. apply N.ltb_lt in B1.
      rewrite IH by exact B2. assert ((c <=? hi) = false) as -> by (apply N.leb_gt; lia).
      rewrite andb_false_r. reflexivity. }
    rewrite E1. unfold is_tchar. cbn [in_ranges].
    repeat match goal with |- context [?a <=? c] => idtac end.
    symmetry. repeat (apply orb_false_iff; split); try reflexivity;
      apply andb_false_iff; right; apply N.leb_gt; lia.
Qed.

Lemma token_chars_tchar e : rmatch gen_token e = true -> token_ok e.
Proof.
  intros H. apply token_chars in H as [Hne Hall]. split; [exact Hne|].
  eapply Forall_impl; [|exact Hall]. intros c Hc. rewrite <- tokL_tchar. exact Hc.
Qed.

Theorem take_value_quote s rest : qchar_ok s -> stop_ok rest ->
  take_value (escape_and_quote s ++ rest) = Some (escape_and_quote s, rest).
Proof.
  intros Hs Hr. destruct s as [|c0 s0].
  - cbn [escape_and_quote app]. unfold take_value. cbn [take_token span is_tchar in_ranges].
    reflexivity.
  - set (s := c0 :: s0) in *. assert (Hs0 : s <> []) by discriminate. clearbody s. rewrite escape_and_quote_cons by exact Hs0.
    destruct (rmatch gen_token (escape_bs_dq s)) eqn:E.
    + apply token_chars_tchar in E. unfold take_value. rewrite take_token_item by assumption. reflexivity.
    + unfold take_value. cbn [app]. unfold take_token. cbn [span].
      change (is_tchar 34) with false. cbn iota.
      rewrite <- app_assoc. cbn [app]. rewrite take_qbody_escape by exact Hs. reflexivity.
Qed.

(* and the quoted form is in the grammar: token / quoted-string *)
Lemma matches_star_app r w1 w2 : matches (Star r) w1 -> matches (Star r) w2 -> matches (Star r) (w1 ++ w2).
Proof.
  intros H1 H2. remember (Star r) as s eqn:Hs. induction H1; try discriminate.
  - exact H2.
  - injection Hs as ->. rewrite <- app_assoc. constructor; [assumption|]. apply IHmatches2; [reflexivity|exact H2].
Qed.
Lemma matches_star_one r w : matches r w -> matches (Star r) w.
Proof. intros H. rewrite <- (app_nil_r w). constructor; [exact H|constructor]. Qed.
Lemma matches_ch c : matches (ch c) [c].
Proof. unfold ch. constructor. cbn. rewrite N.leb_refl. reflexivity. Qed.

Lemma qbody_matches s : qchar_ok s -> matches (Star (Alt qdtext qpair)) (escape_bs_dq s).
Proof.
  rewrite escape_flat. induction 1 as [|c s Hc Hs IH]; [constructor|].
  cbn [flat_map]. apply matches_star_app; [|exact IH]. apply matches_star_one.
  unfold esc_c. destruct (c =? 92) eqn:E92.
  - apply MAltR. unfold qpair. change [92; 92] with ([92] ++ [92]). constructor; [apply matches_ch|].
    constructor. reflexivity.
  - destruct (c =? 34) eqn:E34.
    + apply MAltR. unfold qpair. change [92; 34] with ([92] ++ [34]). constructor; [apply matches_ch|].
      constructor. reflexivity.
    + apply MAltL. unfold qdtext. constructor. apply N.eqb_neq in E92, E34.
      pose proof (qchar_split c Hc E34 E92) as Hq. unfold is_qdtext in Hq. rewrite cmem_false. exact Hq.
Qed.

Lemma matches_plus_tchar e : token_ok e -> matches token e.
Proof.
  intros [Hne Hall]. destruct e as [|c e]; [contradiction|]. inversion Hall as [|? ? Hc He]; subst.
  unfold token, plus. change (c :: e) with ([c] ++ e). constructor.
  - unfold tchar. constructor. rewrite cmem_false. exact Hc.
  - clear Hall Hne Hc. induction He as [|d e Hd He IH]; [constructor|].
    change (d :: e) with ([d] ++ e). constructor; [|exact IH]. unfold tchar. constructor. rewrite cmem_false. exact Hd.
Qed.

Theorem quote_in_grammar s : qchar_ok s -> matches value (escape_and_quote s).
Proof.
  intros Hs. destruct s as [|c0 s0].
  - apply MAltR. unfold qstr. cbn [cats escape_and_quote]. change [34; 34] with ([34] ++ [] ++ [34]).
    constructor; [apply matches_ch|]. constructor; [constructor|apply matches_ch].
  - set (s := c0 :: s0) in *. assert (Hs0 : s <> []) by discriminate. clearbody s. rewrite escape_and_quote_cons by exact Hs0.
    destruct (rmatch gen_token (escape_bs_dq s)) eqn:E.
    + apply MAltL. apply matches_plus_tchar, token_chars_tchar, E.
    + apply MAltR. unfold qstr. cbn [cats].
      change (34 :: escape_bs_dq s ++ [34]) with ([34] ++ escape_bs_dq s ++ [34]).
      constructor; [apply matches_ch|]. constructor; [apply qbody_matches, Hs|apply matches_ch].
Qed.
