(* C12 — table-level lemmas: every attribute of the two attribute tables (Model/C12_Attrs.v) is total,
   and the instantiations of the generic set/get lemmas used by Props/C12.v. *)
From Coq Require Import ZArith NArith List Bool Lia.
Require Import Webob.Lib.Val Webob.Lib.PyStr Webob.Lib.C12_PyInt Webob.Model.C12_Headers
               Webob.Model.C12_ByteRange Webob.Model.C12_Dates Webob.Model.C12_AuthCT Webob.Model.C12_Attrs Webob.Proofs.C12_pyint
               Webob.Proofs.C12_headers Webob.Proofs.C12_byterange Webob.Proofs.C12_dates Webob.Proofs.C12_cachecontrol
               Webob.Proofs.C12_authct.
Import ListNotations.

Lemma conv_auth_total : conv_total conv_auth.
Proof.
  intros v. cbn. unfold parse_auth. destruct v as [s|]; [|reflexivity].
  destruct (partition_c 32 s) as [[a b] c].
  destruct (existsb (str_eqb a) known_schemes); [|reflexivity].
  destruct (str_eqb a s_Basic && negb (existsb is_dq c)); reflexivity.
Qed.

Lemma rattr_conv_total g a : conv_total (rattr_conv g a).
Proof.
  destruct a; first [apply conv_list_total | apply conv_int_total | apply conv_str_total
                    | apply conv_content_range_total | apply conv_date_total | apply conv_date_delta_total
                    | apply conv_auth_total].
Qed.

Lemma qattr_conv_total g a : conv_total (qattr_conv g a).
Proof.
  destruct a; first [apply conv_int_total | apply conv_str_total | apply conv_range_total
                    | apply conv_date_total | apply conv_auth_total].
Qed.

(* credentials given as (scheme, text): stored as "scheme text" and read back as the same pair, when the
   scheme has no space and is either not one of the schemes whose parameters get parsed, or is Basic with
   a quote-free token *)
Lemma roundtrip_auth_text header scheme params hl :
  ~ In 32%N scheme -> has_crlf (scheme ++ [32%N] ++ params) = false ->
  (existsb (str_eqb scheme) known_schemes = false \/
   (scheme = s_Basic /\ existsb is_dq params = false)) ->
  let '(hl', e) := resp_set conv_auth header (PAuthS scheme params) hl in
  e = None /\ hg_get (lower header) hl' = Some (scheme ++ [32%N] ++ params) /\
  resp_get conv_auth header hl' = Ok (VList [VStr auth_tag; VStr scheme; VStr params]).
Proof.
  intros Hsp Hcr Hk. apply resp_set_get.
  - discriminate.
  - reflexivity.
  - exact Hcr.
  - cbn [conv_auth c_parse]. unfold parse_auth.
    assert (P : forall a b, ~ In 32%N a -> partition_c 32 (a ++ [32%N] ++ b) = (a, true, b)).
    { intros a b. induction a as [|c a IH]; intros Hn.
      - reflexivity.
      - cbn [app partition_c]. destruct (N.eqb_spec c 32) as [->|Hne]; [exfalso; apply Hn; left; reflexivity|].
        cbn [app] in IH. rewrite IH; [reflexivity|]. intros H. apply Hn. right. exact H. }
    rewrite (P scheme params Hsp).
    destruct Hk as [Hk|[-> Hq]].
    + rewrite Hk. reflexivity.
    + rewrite Hq. reflexivity.
Qed.

Lemma response_table_total g a hl : is_raise (resp_get (rattr_conv g a) (rattr_header a) hl) = false.
Proof. apply resp_get_total, rattr_conv_total. Qed.

Lemma request_table_total g a env :
  (qattr_dflt a = false -> env_get (qattr_key a) env <> None) ->
  is_raise (req_get (qattr_conv g a) (qattr_dflt a) (qattr_key a) env) = false.
Proof.
  intros H. destruct (qattr_dflt a) eqn:E.
  - apply req_get_total, qattr_conv_total.
  - apply req_get_total_nodefault; [apply qattr_conv_total|auto].
Qed.

Lemma roundtrip_int_resp header z hl : (ndigits z <= max_str_digits)%nat ->
  let '(hl', e) := resp_set conv_int header (PInt z) hl in
  e = None /\ hg_get (lower header) hl' = Some (str_of_Z z) /\ resp_get conv_int header hl' = Ok (VInt z).
Proof.
  intros Hn. apply resp_set_get.
  - discriminate.
  - apply serialize_int_ok. exact Hn.
  - apply str_of_Z_no_crlf.
  - apply parse_int_safe_str_of_Z. exact Hn.
Qed.

Lemma roundtrip_int_req dflt key z env : (ndigits z <= max_str_digits)%nat ->
  let '(env', e) := req_set conv_int key (PInt z) env in
  e = None /\ env_get key env' = Some (str_of_Z z) /\ req_get conv_int dflt key env' = Ok (VInt z).
Proof.
  intros Hn. apply req_set_get.
  - discriminate.
  - apply serialize_int_ok. exact Hn.
  - apply parse_int_safe_str_of_Z. exact Hn.
Qed.

Lemma roundtrip_list_resp header l hl : Forall clean l ->
  let '(hl', e) := resp_set conv_list header (PStrs l) hl in
  e = None /\ hg_get (lower header) hl' = Some (join comma_sp l) /\
  resp_get conv_list header hl' = Ok (VList (map VStr l)).
Proof.
  intros Hl. apply resp_set_get.
  - discriminate.
  - reflexivity.
  - apply join_no_crlf. exact Hl.
  - apply parse_list_join; assumption.
Qed.

(* del / None on either store: the header is gone, every other one is where it was *)
Lemma resp_removed c header hl :
  fst (resp_set c header PNone hl) = resp_del header hl /\
  hg_get (lower header) (resp_del header hl) = None /\
  (forall k, k <> lower header -> hg_get k (resp_del header hl) = hg_get k hl).
Proof.
  split; [reflexivity|]. split; [apply hg_get_del|]. intros k Hk. apply hg_get_del_other. exact Hk.
Qed.

Lemma req_removed c key env v :
  env_get key env = Some v ->
  fst (req_set c key PNone env) = fst (eg_del true key env) /\
  snd (eg_del true key env) = None /\
  env_get key (fst (eg_del true key env)) = None /\
  (forall k, k <> key -> env_get k (fst (eg_del true key env)) = env_get k env).
Proof.
  intros Hv. unfold eg_del. rewrite Hv. cbn [fst snd]. split; [reflexivity|]. split; [reflexivity|].
  split; [apply env_get_remove|]. intros k Hk. apply env_get_remove_other. exact Hk.
Qed.

(* ------------------------------------------------------------------ Range / Content-Range attributes *)
Lemma range_checked_ok r : range_ok r -> range_checked r = Ok (Some (range_str r)).
Proof.
  destruct r as [s [e|]]; cbn [range_ok range_checked]; [|reflexivity].
  intros [H _]. assert (E : ((0 <=? s)%Z && (s <? e)%Z) = true) by lia. rewrite E. reflexivity.
Qed.

(* a range with a stop that is not 0 <= start < stop is refused, whether given as tuple or as Range object *)
Lemma range_invalid_refused s e : ~ (0 <= s < e)%Z -> (0 <= e)%Z ->
  serialize_range (PInts [Some s; Some e]) = Raise ValueError /\ serialize_range (PRange s (Some e)) = Raise ValueError.
Proof.
  intros H He. cbn [serialize_range range_init range_checked].
  assert (E0 : (e <? 0)%Z = false) by lia. rewrite E0.
  assert (E : ((0 <=? s)%Z && (s <? e)%Z) = false) by lia. cbn [range_checked]. rewrite E. split; reflexivity.
Qed.
Lemma roundtrip_range_obj anch zn dflt key r env : range_ok r ->
  let '(env', e) := req_set (conv_range anch zn) key (PRange (fst r) (snd r)) env in
  e = None /\ env_get key env' = Some (range_str r) /\
  req_get (conv_range anch zn) dflt key env' = Ok (range_val (Some r)).
Proof.
  intros Hr. apply req_set_get.
  - discriminate.
  - destruct r as [s e]. apply (range_checked_ok (s, e) Hr).
  - apply parse_range_str. exact Hr.
Qed.

Lemma roundtrip_range_tuple anch zn dflt key s e env : range_ok (s, e) -> (0 <= s)%Z ->
  let '(env', x) := req_set (conv_range anch zn) key (PInts [Some s; e]) env in
  x = None /\ env_get key env' = Some (range_str (s, e)) /\
  req_get (conv_range anch zn) dflt key env' = Ok (range_val (Some (s, e))).
Proof.
  intros Hr Hs. apply req_set_get.
  - discriminate.
  - cbn [conv_range c_serialize serialize_range]. unfold range_init.
    destruct e as [e|]; [|apply (range_checked_ok (s, None) Hr)]. pose proof Hr as Hr'. cbn [range_ok] in Hr'.
    assert (E : (e <? 0)%Z = false) by lia. rewrite E. apply (range_checked_ok (s, Some e) Hr).
  - apply parse_range_str. exact Hr.
Qed.

Lemma roundtrip_content_range header s e l hl : crange_ok (s, e, l) ->
  let '(hl', x) := resp_set conv_content_range header (PInts [s; e; l]) hl in
  x = None /\ hg_get (lower header) hl' = Some (crange_str (s, e, l)) /\
  resp_get conv_content_range header hl' = Ok (crange_val (Some (s, e, l))).
Proof.
  intros Hc. apply resp_set_get.
  - discriminate.
  - apply serialize_content_range_triple. exact Hc.
  - apply crange_str_no_crlf.
  - apply parse_content_range_str. exact Hc.
Qed.

(* wire -> Python for Content-Range: first-last/length inclusive reads as (first, last + 1, length) *)
Lemma content_range_wire_inclusive a b l : (0 <= a <= b)%Z -> (b < l)%Z ->
  printable a -> printable b -> printable l ->
  crange_parse (s_bytes_sp ++ str_of_Z a ++ [45%N] ++ str_of_Z b ++ [47%N] ++ str_of_Z l)
  = Ok (Some (Some a, Some (b + 1)%Z, Some l)).
Proof.
  intros Hab Hbl Pa Pb Pl.
  pose proof (crange_parse_str (Some a, Some (b + 1)%Z, Some l)) as H.
  cbn [crange_ok crange_str oz_str] in H. replace (b + 1 - 1)%Z with b in H by lia.
  apply H. repeat split; try lia; assumption.
Qed.

(* ------------------------------------------------------------------ date attributes *)
Lemma roundtrip_date now mk header v t hl :
  v <> PNone -> (forall s, v <> PStr s) -> instant now v = Ok t -> in_range t ->
  let '(hl', e) := resp_set (conv_date now parse_imf mk) header v hl in
  e = None /\
  (exists text, hg_get (lower header) hl' = Some text /\ format_date t = Ok text /\ length text = 29%nat) /\
  resp_get (conv_date now parse_imf mk) header hl' = Ok (dt_val (fields_of_ts t) (Some 0%Z)).
Proof.
  intros Hn Hs Hi Hr.
  destruct (serialize_date_instant now v t Hs Hi Hr) as [text [S [F [C [L P]]]]].
  pose proof (resp_set_get (conv_date now parse_imf mk) header v text (dt_val (fields_of_ts t) (Some 0%Z)) hl
                Hn S C (P mk)) as R.
  destruct (resp_set (conv_date now parse_imf mk) header v hl) as [hl' e].
  destruct R as [R1 [R2 R3]]. split; [exact R1|]. split; [|exact R3].
  exists text. auto.
Qed.

Lemma roundtrip_date_request now mk dflt key v t env :
  v <> PNone -> (forall s, v <> PStr s) -> instant now v = Ok t -> in_range t ->
  let '(env', e) := req_set (conv_date now parse_imf mk) key v env in
  e = None /\
  (exists text, env_get key env' = Some text /\ format_date t = Ok text /\ length text = 29%nat) /\
  req_get (conv_date now parse_imf mk) dflt key env' = Ok (dt_val (fields_of_ts t) (Some 0%Z)).
Proof.
  intros Hn Hs Hi Hr.
  destruct (serialize_date_instant now v t Hs Hi Hr) as [text [S [F [C [L P]]]]].
  pose proof (req_set_get (conv_date now parse_imf mk) dflt key v text (dt_val (fields_of_ts t) (Some 0%Z)) env
                Hn S (P mk)) as R.
  destruct (req_set (conv_date now parse_imf mk) key v env) as [env' e].
  destruct R as [R1 [R2 R3]]. split; [exact R1|]. split; [|exact R3].
  exists text. auto.
Qed.

(* credentials given as (scheme, dict): one of the schemes whose parameters webob parses (not Basic), distinct
   lower-case parameter names, values free of double quote, CR and LF *)
Lemma dict_scheme_no_crlf scheme : dict_scheme scheme -> has_crlf scheme = false.
Proof.
  intros [Hk _]. apply existsb_exists in Hk. destruct Hk as [x [Hx E]]. apply str_eqb_eq in E. subst x.
  cbn in Hx. repeat (destruct Hx as [<-|Hx]; [reflexivity|]). contradiction.
Qed.

Lemma roundtrip_auth_dict header scheme l hl :
  dict_scheme scheme -> Forall ok_aparam l -> NoDup (map fst l) ->
  let '(hl', e) := resp_set conv_auth header (PAuth scheme l) hl in
  e = None /\ hg_get (lower header) hl' = Some (scheme ++ [32%N] ++ ser_params l) /\
  resp_get conv_auth header hl' = Ok (VList [VStr auth_tag; VStr scheme; dict_val l]).
Proof.
  intros Hs Hl Hnd. apply resp_set_get.
  - discriminate.
  - reflexivity.
  - rewrite !has_crlf_app, (dict_scheme_no_crlf _ Hs), (ser_params_no_crlf l Hl). reflexivity.
  - apply parse_auth_dict; assumption.
Qed.

Lemma roundtrip_auth_dict_request dflt key scheme l env :
  dict_scheme scheme -> Forall ok_aparam l -> NoDup (map fst l) ->
  let '(env', e) := req_set conv_auth key (PAuth scheme l) env in
  e = None /\ env_get key env' = Some (scheme ++ [32%N] ++ ser_params l) /\
  req_get conv_auth dflt key env' = Ok (VList [VStr auth_tag; VStr scheme; dict_val l]).
Proof.
  intros Hs Hl Hnd. apply req_set_get.
  - discriminate.
  - reflexivity.
  - apply parse_auth_dict; assumption.
Qed.
