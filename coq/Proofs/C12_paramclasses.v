(* C12 — obligations over the character classes REGENERATED from webob.response._OK_PARAM_RE / _PARAM_RE
   (coq/Gen/C12_ParamClasses.v, rewritten by harness/props/c12.py gen() on every run): they break the build when
   the two regular expressions drift apart or away from the hand-written classes of Model/C12_AuthCT.v. *)
From Coq Require Import NArith List Bool.
Require Import Webob.Lib.Val Webob.Lib.PyStr Webob.Model.C12_AuthCT Webob.Gen.C12_ParamClasses.
Import ListNotations.
Local Open Scope N_scope.

Definition octets : list N := map N.of_nat (seq 0 256).

(* every character the setter leaves unquoted is one the getter's unquoted alternative reads *)
Lemma setter_subset_getter : forallb (fun c => mem_n c getter_unquoted) setter_unquoted = true.
Proof. vm_compute. reflexivity. Qed.

(* the model's classes are the source's, on all 256 octets *)
Lemma model_classes_are_source_classes :
  forallb (fun c => Bool.eqb (is_pvalue c) (mem_n c getter_unquoted)
                    && Bool.eqb (ok_param [c]) (mem_n c setter_unquoted)
                    && Bool.eqb (is_pkey c) (mem_n c getter_name)) octets = true.
Proof. vm_compute. reflexivity. Qed.
