(* C02 — lemmas about the UTF-8 codec of Lib/C02_Utf8.v (same proofs as Proofs/C09_utf8.v) *)
From Coq Require Import NArith ZArith List Bool Lia ZifyBool ZifyNat ZifyN.
Require Import Webob.Lib.Val Webob.Lib.C02_Utf8.
Import ListNotations.
Local Open Scope N_scope.

Ltac ifs := repeat match goal with
  | |- context [if ?b then _ else _] => let E := fresh "E" in destruct b eqn:E; try lia
  end.

Lemma div4096 c : c / 4096 = c / 64 / 64.
Proof. rewrite N.div_div by lia. reflexivity. Qed.
Lemma div262144 c : c / 262144 = c / 64 / 64 / 64.
Proof. rewrite !N.div_div by lia. reflexivity. Qed.

Ltac split64 x q r :=
  let H1 := fresh "D" in let H2 := fresh "D" in
  pose proof (N.div_mod' x 64) as H1; pose proof (N.mod_lt x 64 ltac:(lia)) as H2;
  set (q := x / 64) in *; set (r := x mod 64) in *; clearbody q r.

(* decoding the encoding of one scalar value gives it back, whatever follows *)
Lemma dec_enc_char c r : is_scalar c = true ->
  utf8_decode (utf8_enc_char c ++ r) = option_map (cons c) (utf8_decode r).
Proof.
  intros Hs. unfold is_scalar in Hs. unfold utf8_enc_char.
  rewrite div4096, div262144.
  destruct (c <? 128) eqn:E1.
  { cbn [app utf8_decode]. rewrite E1. reflexivity. }
  split64 c q1 r1. split64 q1 q2 r2. split64 q2 q3 r3.
  destruct (c <? 2048) eqn:E2.
  { cbn [app utf8_decode]. unfold cont.
    ifs. f_equal. f_equal. lia. }
  destruct (c <? 65536) eqn:E3.
  { cbn [app utf8_decode]. unfold cont.
    ifs; f_equal; f_equal; lia. }
  cbn [app utf8_decode]. unfold cont.
  ifs; f_equal; f_equal; lia.
Qed.

Lemma valid_text_cons c s : valid_text (c :: s) = is_scalar c && valid_text s.
Proof. reflexivity. Qed.

Lemma valid_text_app a b : valid_text (a ++ b) = valid_text a && valid_text b.
Proof. unfold valid_text. apply forallb_app. Qed.

Theorem utf8_roundtrip s : valid_text s = true -> utf8_decode (utf8_encode_raw s) = Some s.
Proof.
  induction s as [|c s IH]; intros Hv; [reflexivity|].
  rewrite valid_text_cons in Hv. apply andb_true_iff in Hv as [Hc Hs].
  cbn [utf8_encode_raw flat_map]. rewrite dec_enc_char by exact Hc.
  fold (utf8_encode_raw s). rewrite (IH Hs). reflexivity.
Qed.

Lemma enc_char_octets c : is_scalar c = true -> forallb is_octet (utf8_enc_char c) = true.
Proof.
  intros Hs. unfold is_scalar in Hs. unfold utf8_enc_char, is_octet.
  rewrite div4096, div262144.
  split64 c q1 r1. split64 q1 q2 r2. split64 q2 q3 r3.
  ifs; cbn [forallb]; lia.
Qed.

Theorem utf8_encode_raw_octets s : valid_text s = true -> forallb is_octet (utf8_encode_raw s) = true.
Proof.
  induction s as [|c s IH]; intros Hv; [reflexivity|].
  rewrite valid_text_cons in Hv. apply andb_true_iff in Hv as [Hc Hs].
  cbn [utf8_encode_raw flat_map]. rewrite forallb_app, enc_char_octets by exact Hc. exact (IH Hs).
Qed.

(* whatever the strict decoder accepts is a sequence of scalar values *)
Lemma utf8_decode_scalar_n n : forall b s, (length b <= n)%nat ->
  utf8_decode b = Some s -> valid_text s = true.
Proof.
  induction n as [|n IH]; intros b s Hl Hd.
  { destruct b; [|cbn in Hl; lia]. cbn in Hd. injection Hd as <-. reflexivity. }
  destruct b as [|b0 r]; [cbn in Hd; injection Hd as <-; reflexivity|].
  cbn [utf8_decode] in Hd. cbn [length] in Hl.
  destruct (b0 <? 128) eqn:E0.
  { destruct (utf8_decode r) as [t|] eqn:Er; [|discriminate]. cbn in Hd. injection Hd as <-.
    rewrite valid_text_cons, (IH r t) by (lia || exact Er). unfold is_scalar. lia. }
  destruct ((194 <=? b0) && (b0 <=? 223)) eqn:E1.
  { destruct r as [|b1 r1]; [discriminate|]. unfold cont in Hd.
    destruct ((128 <=? b1) && (b1 <=? 191)) eqn:C1; [|discriminate].
    destruct (utf8_decode r1) as [t|] eqn:Er; [|discriminate]. cbn in Hd. injection Hd as <-.
    cbn [length] in Hl.
    rewrite valid_text_cons, (IH r1 t) by (lia || exact Er). unfold is_scalar. lia. }
  destruct ((224 <=? b0) && (b0 <=? 239)) eqn:E2.
  { destruct r as [|b1 [|b2 r2]]; try discriminate. unfold cont in Hd.
    match type of Hd with (if ?c then _ else _) = _ => destruct c eqn:C1; [|discriminate] end.
    destruct (utf8_decode r2) as [t|] eqn:Er; [|discriminate]. cbn in Hd. injection Hd as <-.
    cbn [length] in Hl.
    rewrite valid_text_cons, (IH r2 t) by (lia || exact Er). unfold is_scalar. lia. }
  destruct ((240 <=? b0) && (b0 <=? 244)) eqn:E3; [|discriminate].
  destruct r as [|b1 [|b2 [|b3 r3]]]; try discriminate. unfold cont in Hd.
  match type of Hd with (if ?c then _ else _) = _ => destruct c eqn:C1; [|discriminate] end.
  destruct (utf8_decode r3) as [t|] eqn:Er; [|discriminate]. cbn in Hd. injection Hd as <-.
  cbn [length] in Hl.
  rewrite valid_text_cons, (IH r3 t) by (lia || exact Er). unfold is_scalar. lia.
Qed.

Theorem utf8_decode_scalar b s : utf8_decode b = Some s -> valid_text s = true.
Proof. apply (utf8_decode_scalar_n (length b)). lia. Qed.

Theorem utf8_encode_decode s b : utf8_encode s = Some b -> utf8_decode b = Some s.
Proof.
  unfold utf8_encode. destruct (valid_text s) eqn:E; [|discriminate].
  intros H. injection H as <-. apply utf8_roundtrip. exact E.
Qed.
