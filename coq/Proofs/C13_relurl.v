(* C13 — urljoin (and relative_url) = RFC 3986 5.2 resolution on the domain of Spec/C13_refdomain.v. *)
From Coq Require Import NArith ZArith List Bool Lia ZifyBool ZifyNat ZifyN.
Require Import Webob.Lib.Val Webob.Lib.PyStr Webob.Lib.C13_Utf8 Webob.Gen.C13_tables
               Webob.Model.C13_urlsplit Webob.Model.C13_urlpath Webob.Model.C13_urljoin
               Webob.Spec.C13_spec Webob.Spec.C13_rfc3986 Webob.Spec.C13_refdomain
               Webob.Proofs.C13_quote Webob.Proofs.C13_host Webob.Proofs.C13_blank Webob.Proofs.C13_pop
               Webob.Proofs.C13_segs.
Import ListNotations.
Local Open Scope N_scope.

(* ------------------------------------------------------------------ split_c / join / cm *)
Lemma split_c_nonempty47 s : split_c 47 s <> [].
Proof. destruct (split_c_nonempty 47 s) as [f [fs E]]. rewrite E. discriminate. Qed.

Lemma split_c_plain s : slash_free s = true -> split_c 47 s = [s].
Proof.
  induction s as [|c s IH]; [reflexivity|]. unfold slash_free in *. cbn [forallb split_c]. intros H.
  apply andb_true_iff in H as [Hc Hs]. destruct (c =? 47) eqn:E; [discriminate|]. rewrite (IH Hs). reflexivity.
Qed.

Lemma split_c_app s t : slash_free s = true -> split_c 47 (s ++ 47 :: t) = s :: split_c 47 t.
Proof.
  induction s as [|c s IH]; intros H.
  - reflexivity.
  - unfold slash_free in *. cbn [forallb] in H. apply andb_true_iff in H as [Hc Hs].
    cbn [app split_c]. destruct (c =? 47) eqn:E; [discriminate|]. rewrite (IH Hs). reflexivity.
Qed.

Lemma split_cm bs : bs <> [] -> forallb slash_free bs = true -> split_c 47 (cm bs) = [] :: bs.
Proof.
  induction bs as [|b bs IH]; [contradiction|]. intros _ H. cbn [forallb] in H. apply andb_true_iff in H as [Hb Hbs].
  change (cm (b :: bs)) with (47 :: b ++ cm bs). change (47 :: b ++ cm bs) with ([] ++ 47 :: (b ++ cm bs)).
  rewrite split_c_app by reflexivity. f_equal.
  destruct bs as [|b2 bs].
  - cbn [cm flat_map]. rewrite app_nil_r. apply split_c_plain. exact Hb.
  - change (cm (b2 :: bs)) with (47 :: b2 ++ cm bs). rewrite split_c_app by exact Hb.
    f_equal. specialize (IH ltac:(discriminate) Hbs). change (cm (b2 :: bs)) with (47 :: b2 ++ cm bs) in IH.
    change (47 :: b2 ++ cm bs) with ([] ++ 47 :: (b2 ++ cm bs)) in IH. rewrite split_c_app in IH by reflexivity.
    injection IH as IH. exact IH.
Qed.

Lemma split_c_slash_free s : forallb slash_free (split_c 47 s) = true.
Proof.
  induction s as [|c s IH]; [reflexivity|]. cbn [split_c]. destruct (c =? 47) eqn:E.
  - cbn [forallb]. rewrite IH. reflexivity.
  - destruct (split_c 47 s) as [|f fs]; [cbn; rewrite E; reflexivity|].
    cbn [forallb] in *. unfold slash_free in *. cbn [forallb]. rewrite E. exact IH.
Qed.

Lemma join_split s : join [47] (split_c 47 s) = s.
Proof.
  induction s as [|c s IH]; [reflexivity|]. cbn [split_c]. destruct (c =? 47) eqn:E.
  - apply N.eqb_eq in E. subst c. destruct (split_c_nonempty 47 s) as [f [fs Es]]. rewrite Es in *.
    rewrite join_cons_ne by discriminate. rewrite IH. reflexivity.
  - destruct (split_c_nonempty 47 s) as [f [fs Es]]. rewrite Es in *.
    destruct fs as [|f2 fs].
    + cbn [join] in *. rewrite IH. reflexivity.
    + rewrite join_cons_ne in * by discriminate. cbn [app]. rewrite IH. reflexivity.
Qed.

(* an absolute path is "/" ++ its segments joined *)
Lemma abs_path_cm p : cm (split_c 47 p) = 47 :: p.
Proof. rewrite cm_join by apply split_c_nonempty47. rewrite join_split. reflexivity. Qed.

Lemma split_c_head_nonempty c s : (c =? 47) = false -> exists f fs, split_c 47 (c :: s) = (c :: f) :: fs.
Proof.
  intros E. cbn [split_c]. rewrite E. destruct (split_c_nonempty 47 s) as [f [fs Es]]. rewrite Es.
  eexists; eexists; reflexivity.
Qed.

(* ------------------------------------------------------------------ the last segment, params *)
Lemma span_fst_app f A B : f 47 = true -> fst (span_until f (A ++ 47 :: B)) = fst (span_until f A).
Proof.
  intros Hf. induction A as [|a A IH]; [cbn [app span_until]; rewrite Hf; reflexivity|].
  cbn [app span_until]. destruct (f a); [reflexivity|].
  destruct (span_until f (A ++ 47 :: B)), (span_until f A). cbn [fst] in *. rewrite IH. reflexivity.
Qed.

Lemma last_seg_join l : l <> [] -> forallb slash_free l = true ->
  fst (span_until is_slash (rev (join [47] l))) = rev (last l []).
Proof.
  induction l as [|x l IH]; [contradiction|]. intros _ H. cbn [forallb] in H. apply andb_true_iff in H as [Hx Hl].
  destruct l as [|y l].
  - cbn [join last]. rewrite span_until_none; [reflexivity|]. rewrite forallb_rev. exact Hx.
  - rewrite join_cons_ne by discriminate. rewrite rev_app_distr. cbn [rev]. rewrite <- app_assoc. cbn [app].
    rewrite span_fst_app by reflexivity. rewrite IH by (discriminate || exact Hl). reflexivity.
Qed.

Lemma last_seg_span p : fst (span_until is_slash (rev p)) = rev (last (split_c 47 p) []).
Proof.
  rewrite <- (join_split p) at 1. apply last_seg_join; [apply split_c_nonempty47|apply split_c_slash_free].
Qed.

Lemma mem_n_forall c l : mem_n c l = false -> forallb (fun x => negb (x =? c)) l = true.
Proof.
  induction l as [|x l IH]; [reflexivity|]. cbn [mem_n forallb]. intros H.
  destruct (x =? c); [discriminate|]. cbn [orb negb andb] in *. apply IH. exact H.
Qed.

Lemma splitparams_id p : mem_n 59 (last (split_c 47 p) []) = false -> splitparams p = (p, []).
Proof.
  intros H. unfold splitparams. pose proof (last_seg_span p) as E.
  destruct (span_until is_slash (rev p)) as [lr hr]. cbn [fst] in E. rewrite E, rev_involutive.
  rewrite span_until_none; [reflexivity|]. apply mem_n_forall in H. exact H.
Qed.

(* ------------------------------------------------------------------ filter(None, segments[1:-1]) *)
Lemma filter_mid_ok D rs : forallb nonempty D = true -> rs <> [] -> forallb nonempty (removelast rs) = true ->
  filter_mid ([] :: D ++ rs) = [] :: D ++ rs.
Proof.
  intros HD Hne Hrs. unfold str in *. unfold filter_mid.
  destruct (D ++ rs) as [|z zs] eqn:E; [apply app_eq_nil in E as [_ E]; contradiction|]. rewrite <- E.
  f_equal. rewrite removelast_app by exact Hne. rewrite last_app_ne by exact Hne.
  rewrite filter_id by (rewrite forallb_app, HD, Hrs; reflexivity).
  rewrite <- app_assoc. f_equal. symmetry. apply app_removelast_last. exact Hne.
Qed.

Lemma filter_mid_drop D rs : forallb nonempty D = true -> rs <> [] -> forallb nonempty (removelast rs) = true ->
  filter_mid (([] :: D ++ [[]]) ++ rs) = [] :: D ++ rs.
Proof.
  intros HD Hne Hrs. unfold str in *. cbn [app]. rewrite <- app_assoc. unfold filter_mid.
  destruct (D ++ [[]] ++ rs) as [|z zs] eqn:E; [apply app_eq_nil in E as [_ E]; discriminate|]. rewrite <- E.
  f_equal. rewrite app_assoc. rewrite removelast_app by exact Hne. rewrite last_app_ne by exact Hne.
  rewrite !filter_app. cbn [filter nonempty is_empty negb]. rewrite app_nil_r.
  rewrite !filter_id by assumption.
  rewrite <- app_assoc. f_equal. symmetry. apply app_removelast_last. exact Hne.
Qed.

Lemma forallb_removelast {A} (f : A -> bool) l : forallb f l = true -> forallb f (removelast l) = true.
Proof.
  induction l as [|x l IH]; [reflexivity|]. cbn [forallb]. intros H. apply andb_true_iff in H as [Hx Hl].
  destruct l; [reflexivity|]. cbn [removelast forallb]. fold (removelast (a :: l)). rewrite Hx. apply IH. exact Hl.
Qed.

Lemma good_both l : forallb nonempty l = true -> forallb slash_free l = true -> forallb good l = true.
Proof.
  intros H1 H2. apply forallb_forall. intros x Hx. rewrite forallb_forall in H1, H2. unfold good.
  rewrite (H1 x Hx), (H2 x Hx). reflexivity.
Qed.

Lemma last_slash_free l : forallb slash_free l = true -> slash_free (last l []) = true.
Proof.
  destruct l as [|x l]; [reflexivity|]. intros H. rewrite forallb_forall in H. apply H. apply last_in. discriminate.
Qed.

(* ------------------------------------------------------------------ the path: urljoin = merge + remove_dot_segments *)
Lemma mid_nonempty_abs p' : mid_nonempty (split_c 47 (47 :: p')) = forallb nonempty (removelast (split_c 47 p')).
Proof. reflexivity. Qed.

(* 5.2.3 on a base path "/d1/.../dk/last": everything up to and including the last "/" *)
Lemma merge_abs a D lb rp s q f : slash_free lb = true ->
  merge (mkUri s (Some a) (cm (D ++ [lb])) q f) rp = cm D ++ 47 :: rp.
Proof.
  intros Hlb. unfold merge. cbn [u_authority u_path]. rewrite cm_app. cbn [cm flat_map]. rewrite app_nil_r.
  destruct (cm D ++ 47 :: lb) as [|c0 t0] eqn:E; [destruct (cm D); discriminate|]. rewrite <- E.
  rewrite rev_app_distr. cbn [rev]. rewrite <- app_assoc. cbn [app].
  rewrite span_until_app; [|rewrite forallb_rev; exact Hlb|right; eexists; eexists; split; reflexivity].
  cbn [rev]. rewrite rev_involutive, <- app_assoc. reflexivity.
Qed.

Lemma join_path_rel a P rp s q f c rp' :
  rooted P -> mid_nonempty (split_c 47 P) = true ->
  rp = c :: rp' -> (c =? 47) = false -> mid_nonempty (split_c 47 rp) = true ->
  fixpath (join_path P rp) = remove_dot_segments (merge (mkUri s (Some a) P q f) rp).
Proof.
  intros HP HPm Erp Hc Hrm. unfold str in *.
  (* the reference path as segments: the first one is not empty *)
  destruct (split_c_head_nonempty c rp' Hc) as [f0 [fs Ers]]. rewrite <- Erp in Ers.
  set (rs := split_c 47 rp) in *.
  assert (Hrs_ne : rs <> []) by (rewrite Ers; discriminate).
  assert (Hrs_sf : forallb slash_free rs = true) by apply split_c_slash_free.
  assert (Hrs_mid : forallb nonempty (removelast rs) = true).
  { rewrite Ers in *. unfold mid_nonempty in Hrm. destruct fs as [|f1 fs']; [reflexivity|].
    change (removelast ((c :: f0) :: f1 :: fs')) with ((c :: f0) :: removelast (f1 :: fs')).
    cbn [forallb]. apply andb_true_iff; split; [reflexivity|exact Hrm]. }
  assert (Hrp : cm rs = 47 :: rp) by apply abs_path_cm.
  assert (Hstart : starts_with [47] rp = false) by (rewrite Erp; cbn [starts_with]; rewrite N.eqb_sym, Hc; reflexivity).
  unfold join_path. rewrite Hstart. fold rs.
  (* the base path as segments *)
  assert (exists D, forallb good D = true /\
            filter_mid ((if nonempty (last (split_c 47 P) []) then removelast (split_c 47 P) else split_c 47 P) ++ rs)
              = [] :: D ++ rs /\
            merge (mkUri s (Some a) P q f) rp = cm (D ++ rs)) as [D [HD [Hseg Hmerge]]].
  { destruct HP as [-> | [P' ->]].
    - exists []. split; [reflexivity|]. split.
      + cbn [split_c last nonempty is_empty negb app]. apply (filter_mid_ok [] rs eq_refl Hrs_ne Hrs_mid).
      + unfold merge. cbn [u_authority u_path app]. rewrite Hrp. reflexivity.
    - set (bs := split_c 47 P') in *.
      assert (Hbs_ne : bs <> []) by apply split_c_nonempty47.
      assert (Hbs_sf : forallb slash_free bs = true) by apply split_c_slash_free.
      rewrite mid_nonempty_abs in HPm. fold bs in HPm.
      change (split_c 47 (47 :: P')) with ([] :: bs).
      assert (HPcm : 47 :: P' = cm bs) by (symmetry; apply abs_path_cm).
      pose proof (app_removelast_last [] Hbs_ne) as Ebs. unfold str in *.
      set (D := removelast bs) in *. set (lb := last bs []) in *.
      assert (HDg : forallb good D = true).
      { apply good_both; [exact HPm|]. apply forallb_removelast. exact Hbs_sf. }
      assert (HDn : forallb nonempty D = true) by exact HPm.
      assert (Hlb : slash_free lb = true) by (apply last_slash_free; exact Hbs_sf).
      exists D. split; [exact HDg|]. split.
      + assert (El : last ([] :: bs) [] = lb) by (destruct bs; [contradiction|reflexivity]).
        rewrite El. destruct (nonempty lb) eqn:Elb.
        * assert (Er : removelast ([] :: bs) = [] :: D) by (destruct bs; [contradiction|reflexivity]).
          rewrite Er. cbn [app]. apply filter_mid_ok; assumption.
        * assert (lb = []) as Elb0 by (destruct lb; [reflexivity|discriminate]).
          rewrite Ebs, Elb0. apply filter_mid_drop; assumption.
      + rewrite cm_app, Hrp, HPcm.
        replace (cm bs) with (cm (D ++ [lb])) by (f_equal; symmetry; exact Ebs).
        apply merge_abs. exact Hlb. }
  rewrite Hseg, Hmerge.
  apply py_path_is_rfc.
  - intros E. apply app_eq_nil in E as [_ E]. contradiction.
  - rewrite removelast_app by exact Hrs_ne. rewrite forallb_app, HD. cbn [andb].
    apply good_both; [exact Hrs_mid|]. apply forallb_removelast. exact Hrs_sf.
  - rewrite last_app_ne by exact Hrs_ne. apply last_slash_free. exact Hrs_sf.
Qed.

Lemma join_path_abs P rp' : mid_nonempty (split_c 47 (47 :: rp')) = true ->
  fixpath (join_path P (47 :: rp')) = remove_dot_segments (47 :: rp').
Proof.
  intros Hm. unfold join_path. cbn [starts_with N.eqb Pos.eqb andb].
  change (split_c 47 (47 :: rp')) with ([] :: split_c 47 rp').
  rewrite <- (abs_path_cm rp'). rewrite mid_nonempty_abs in Hm.
  apply py_path_is_rfc; [apply split_c_nonempty47| |apply last_slash_free, split_c_slash_free].
  apply good_both; [exact Hm|]. apply forallb_removelast, split_c_slash_free.
Qed.

(* ------------------------------------------------------------------ parsing the reference *)
Definition opt_of (d : N) (s : str) : option str := match s with c :: t => if c =? d then Some t else None | [] => None end.
Definition text_of (s : str) : str := match s with _ :: t => t | [] => [] end.

Lemma span4_eq r : mem_n 58 (fst (span_until is_delim r)) = false ->
  span_until is_gen_delim4 r = span_until is_delim r.
Proof.
  induction r as [|c r IH]; [reflexivity|]. cbn [span_until].
  destruct (is_delim c) eqn:Ed.
  - intros _. assert (is_gen_delim4 c = true) as -> by (unfold is_gen_delim4, is_delim in *; lia). reflexivity.
  - destruct (span_until is_delim r) as [a b] eqn:Es. cbn [fst mem_n]. intros H.
    destruct (c =? 58) eqn:Ec; [discriminate|]. cbn [orb] in H.
    assert (is_gen_delim4 c = false) as -> by (unfold is_gen_delim4, is_delim in *; lia).
    cbn [fst] in IH. rewrite (IH H). reflexivity.
Qed.

Lemma colon_free_scheme r : mem_n 58 (fst (span_until is_delim r)) = false ->
  snd (span_until is_colon r) = [] \/ forallb is_scheme_char (fst (span_until is_colon r)) = false.
Proof.
  induction r as [|c r IH]; [left; reflexivity|]. cbn [span_until].
  destruct (is_delim c) eqn:Ed.
  - intros _. assert (is_colon c = false) as -> by (unfold is_colon, is_delim in *; lia). right.
    destruct (span_until is_colon r). cbn [fst forallb].
    assert (is_scheme_char c = false) as -> by (unfold is_scheme_char, is_alpha, is_digit, is_delim in *; lia).
    reflexivity.
  - destruct (span_until is_delim r) as [a b] eqn:Es. cbn [fst mem_n]. intros H.
    destruct (c =? 58) eqn:Ec; [discriminate|]. cbn [orb] in H.
    assert (is_colon c = false) as -> by (unfold is_colon; exact Ec).
    cbn [fst] in IH. specialize (IH H).
    destruct (span_until is_colon r) as [a' b']. cbn [fst snd forallb] in *.
    destruct IH as [->|E]; [left; reflexivity|right]. rewrite E. apply andb_false_r.
Qed.

Lemma split_scheme_none r : mem_n 58 (fst (span_until is_delim r)) = false -> split_scheme r = ([], r).
Proof.
  intros H. unfold split_scheme. destruct r as [|c0 r']; [reflexivity|].
  destruct (is_alpha c0); [|reflexivity].
  destruct (colon_free_scheme _ H) as [E|E]; destruct (span_until is_colon (c0 :: r')) as [a b];
    cbn [fst snd] in E; [rewrite E; reflexivity|].
  destruct b; [reflexivity|]. rewrite E. reflexivity.
Qed.

Lemma printable_clean r : forallb printable r = true ->
  drop_while c0_or_space r = r /\ filter (fun c => negb (unsafe_byte c)) r = r.
Proof.
  intros H. split.
  - destruct r as [|c r]; [reflexivity|]. cbn [forallb] in H. apply andb_true_iff in H as [Hc _].
    cbn [drop_while]. unfold printable, c0_or_space in *. destruct (c <=? 32) eqn:E; [lia|reflexivity].
  - apply filter_id. revert H. apply forallb_impl. intros x. unfold printable, unsafe_byte. lia.
Qed.

Lemma clean_scheme_lower sch : forallb is_lower_alpha sch = true -> clean_scheme sch = sch.
Proof.
  intros H. unfold clean_scheme.
  assert (Hp : forallb printable sch = true) by (apply (lower_alpha_facts sch H)).
  assert (strip_by c0_or_space sch = sch) as ->.
  { unfold strip_by, lstrip_by, rstrip_by. rewrite (proj1 (printable_clean sch Hp)).
    assert (forallb printable (rev sch) = true) as Hr by (rewrite forallb_rev; exact Hp).
    rewrite (proj1 (printable_clean _ Hr)). apply rev_involutive. }
  apply (printable_clean sch Hp).
Qed.

Lemma parse_authority_none r : starts_with [47; 47] r = false -> parse_authority r = (None, r).
Proof.
  intros H. unfold parse_authority. destruct r as [|c1 r1]; [reflexivity|].
  destruct (N.eqb_spec 47 c1) as [<-|n1].
  - destruct r1 as [|c2 r2]; [reflexivity|].
    destruct (N.eqb_spec 47 c2) as [<-|n2]; [cbn in H; discriminate|].
    destruct c2 as [|pc]; [reflexivity|]; repeat (destruct pc as [pc|pc|]; try reflexivity); exfalso; apply n2; reflexivity.
  - destruct c1 as [|pc]; [reflexivity|]; repeat (destruct pc as [pc|pc|]; try reflexivity); exfalso; apply n1; reflexivity.
Qed.

Lemma parse_scheme_none r : mem_n 58 (fst (span_until is_delim r)) = false -> parse_scheme r = (None, r).
Proof.
  intros H. unfold parse_scheme. rewrite (span4_eq r H).
  pose proof (span_until_snd is_delim r) as Hb. destruct (span_until is_delim r) as [a b]. cbn [snd] in Hb.
  destruct a; [reflexivity|]. destruct Hb as [->|[c [b' [-> Hc]]]]; [reflexivity|].
  assert (n58 : 58 <> c) by (unfold is_delim in Hc; lia).
  destruct c as [|pc]; [reflexivity|]; repeat (destruct pc as [pc|pc|]; try reflexivity); exfalso; apply n58; reflexivity.
Qed.

Lemma parse_query_some q t : parse_query (63 :: q ++ t) =
  let (a, b) := span_until is_hash (q ++ t) in (Some a, b).
Proof. reflexivity. Qed.

Lemma parse_query_none t : (t = [] \/ exists t', t = 35 :: t') -> parse_query t = (None, t).
Proof. intros [->|[t' ->]]; reflexivity. Qed.

Lemma match_dslash {A} (r : str) (x : A) (g : str -> A) : starts_with [47; 47] r = false ->
  (match r with 47 :: 47 :: after => g after | _ => x end) = x.
Proof.
  intros H. destruct r as [|c1 r1]; [reflexivity|].
  destruct (N.eqb_spec 47 c1) as [<-|n1].
  - destruct r1 as [|c2 r2]; [reflexivity|].
    destruct (N.eqb_spec 47 c2) as [<-|n2]; [cbn in H; discriminate|].
    destruct c2 as [|pc]; [reflexivity|]; repeat (destruct pc as [pc|pc|]; try reflexivity); exfalso; apply n2; reflexivity.
  - destruct c1 as [|pc]; [reflexivity|]; repeat (destruct pc as [pc|pc|]; try reflexivity); exfalso; apply n1; reflexivity.
Qed.

Section Ref.
  Variables (r p q f : str).
  Hypothesis Hparts : r = p ++ q ++ f.
  Hypothesis Hprint : forallb printable r = true.
  Hypothesis Hcolon : mem_n 58 (fst (span_until is_delim r)) = false.
  Hypothesis Hp : forallb (fun c => negb (is_qf c)) p = true.
  Hypothesis Hshape : path_shape_ok p = true.
  Hypothesis Hq : q = [] \/ exists q', q = 63 :: q' /\ q' <> [] /\ forallb (fun c => negb (is_hash c)) q' = true.
  Hypothesis Hf : f = [] \/ exists f', f = 35 :: f' /\ f' <> [].

  Lemma qf_head : q ++ f = [] \/ exists c t, q ++ f = c :: t /\ is_qf c = true.
  Proof.
    destruct Hq as [->|[q' [-> _]]]; [|right; eexists; eexists; split; reflexivity].
    destruct Hf as [->|[f' [-> _]]]; [left; reflexivity|right; eexists; eexists; split; reflexivity].
  Qed.

  Lemma ref_no_dslash : starts_with [47; 47] r = false.
  Proof.
    pose proof qf_head as QH. pose proof Hshape as Hsh. revert QH Hsh. rewrite Hparts. clear. intros QH Hsh.
    unfold path_shape_ok in Hsh. apply andb_true_iff in Hsh as [Hm _].
    destruct p as [|c1 [|c2 p']].
    - cbn [app]. destruct QH as [->|[c [t [-> Hc]]]]; [reflexivity|]. cbn [starts_with].
      unfold is_qf in Hc. destruct (47 =? c) eqn:E; [lia|reflexivity].
    - cbn [app starts_with]. destruct (47 =? c1); [|reflexivity]. cbn [andb].
      destruct QH as [->|[c [t [-> Hc]]]]; [reflexivity|]. unfold is_qf in Hc.
      destruct (47 =? c) eqn:E; [lia|reflexivity].
    - cbn [app starts_with]. destruct (47 =? c1) eqn:E1; [|reflexivity]. destruct (47 =? c2) eqn:E2; [|reflexivity].
      exfalso. apply N.eqb_eq in E1, E2. subst c1 c2.
      change (split_c 47 (47 :: 47 :: p')) with ([] :: [] :: split_c 47 p') in Hm.
      unfold mid_nonempty in Hm. destruct (split_c_nonempty 47 p') as [x [xs Ex]]. rewrite Ex in Hm. discriminate.
  Qed.

  Lemma rfc_parse_ref : rfc_parse r = mkUri None None p (opt_of 63 q) (opt_of 35 f).
  Proof.
    unfold rfc_parse. rewrite (parse_scheme_none r Hcolon), (parse_authority_none r ref_no_dslash).
    rewrite Hparts at 1. rewrite (span_until_app is_qf p (q ++ f) Hp qf_head).
    destruct Hq as [->|[q' [-> [_ Hq']]]].
    - cbn [app opt_of]. rewrite parse_query_none.
      + destruct Hf as [->|[f' [-> _]]]; reflexivity.
      + destruct Hf as [->|[f' [-> _]]]; [left; reflexivity|right; eexists; reflexivity].
    - cbn [app]. rewrite parse_query_some. rewrite (span_until_app is_hash q' f Hq').
      + destruct Hf as [->|[f' [-> _]]]; reflexivity.
      + destruct Hf as [->|[f' [-> _]]]; [left; reflexivity|right; eexists; eexists; split; reflexivity].
  Qed.

  Lemma pq_no_hash : forallb (fun c => negb (c =? 35)) (p ++ q) = true.
  Proof.
    rewrite forallb_app. apply andb_true_iff; split.
    - revert Hp. apply forallb_impl. intros x. unfold is_qf. lia.
    - destruct Hq as [->|[q' [-> [_ Hq']]]]; [reflexivity|]. cbn [forallb]. apply andb_true_iff; split; [reflexivity|].
      revert Hq'. apply forallb_impl. intros x. unfold is_hash. lia.
  Qed.

  Lemma split_hash : split_first 35 r = (p ++ q, text_of f).
  Proof.
    pose proof pq_no_hash as PQ. unfold split_first. rewrite Hparts, app_assoc.
    destruct Hf as [E|[f' [E _]]]; rewrite E.
    - rewrite app_nil_r. rewrite (span_until_none _ _ PQ). reflexivity.
    - rewrite (span_until_app _ _ _ PQ); [reflexivity|right; eexists; eexists; split; reflexivity].
  Qed.

  Lemma split_qmark : split_first 63 (p ++ q) = (p, text_of q).
  Proof.
    assert (Hp63 : forallb (fun c => negb (c =? 63)) p = true).
    { revert Hp. apply forallb_impl. intros x. unfold is_qf. lia. }
    unfold split_first. destruct Hq as [E|[q' [E _]]]; rewrite E.
    - rewrite app_nil_r. rewrite (span_until_none _ _ Hp63). reflexivity.
    - rewrite (span_until_app _ _ _ Hp63); [reflexivity|right; eexists; eexists; split; reflexivity].
  Qed.

  Lemma urlparse_ref v6ok sch : forallb is_lower_alpha sch = true ->
    urlparse v6ok sch r = POk sch [] p [] (text_of q) (text_of f).
  Proof.
    intros Hsch. unfold urlparse, urlsplit_with.
    destruct (printable_clean r Hprint) as [-> ->].
    rewrite (split_scheme_none r Hcolon). cbn [is_empty]. rewrite (clean_scheme_lower sch Hsch).
    rewrite (match_dslash r (@nil N, r) (fun r0 => span_until is_delim r0) ref_no_dslash).
    cbn [netloc_bad mem_n andb negb orb]. rewrite split_hash, split_qmark. cbn [forallb].
    unfold path_shape_ok in Hshape. apply andb_true_iff in Hshape as [_ Hsemi].
    rewrite (splitparams_id p) by (destruct (mem_n 59 (last (split_c 47 p) [])); [discriminate|reflexivity]).
    destruct (mem_str sch USES_PARAMS && mem_n 59 p); reflexivity.
  Qed.
End Ref.

(* ------------------------------------------------------------------ from the boolean domain to its parts *)
Lemma ref_decomp r : ref_ok r = true ->
  exists p q f, r = p ++ q ++ f /\ forallb printable r = true /\
    mem_n 58 (fst (span_until is_delim r)) = false /\
    forallb (fun c => negb (is_qf c)) p = true /\ path_shape_ok p = true /\
    (q = [] \/ exists q', q = 63 :: q' /\ q' <> [] /\ forallb (fun c => negb (is_hash c)) q' = true) /\
    (f = [] \/ exists f', f = 35 :: f' /\ f' <> []).
Proof.
  unfold ref_ok, ref_parts. intros H.
  pose proof (span_until_concat is_hash r) as C1. pose proof (span_until_fst is_hash r) as F1.
  pose proof (span_until_snd is_hash r) as S1.
  destruct (span_until is_hash r) as [pq f]. cbn [fst snd] in *.
  pose proof (span_until_concat (fun c => c =? 63) pq) as C2. pose proof (span_until_fst (fun c => c =? 63) pq) as F2.
  pose proof (span_until_snd (fun c => c =? 63) pq) as S2.
  destruct (span_until (fun c => c =? 63) pq) as [p q]. cbn [fst snd] in *.
  apply andb_true_iff in H as [H H2]. apply andb_true_iff in H as [Hprint Hcolon].
  apply andb_true_iff in H2 as [H2 Hf]. apply andb_true_iff in H2 as [Hshape Hq].
  exists p, q, f. subst pq. rewrite forallb_app in F1. apply andb_true_iff in F1 as [F1p F1q].
  split; [rewrite <- C1, app_assoc; reflexivity|]. split; [exact Hprint|].
  split; [destruct (mem_n 58 (fst (span_until is_delim r))); [discriminate|reflexivity]|].
  split.
  { apply forallb_forall. intros x Hx. rewrite forallb_forall in F1p, F2. specialize (F1p x Hx). specialize (F2 x Hx).
    unfold is_qf, is_hash in *. lia. }
  split; [exact Hshape|]. split.
  - destruct S2 as [->|[c [q' [-> Hc]]]]; [left; reflexivity|right]. apply N.eqb_eq in Hc. subst c.
    exists q'. split; [reflexivity|]. split.
    + intros ->. discriminate.
    + cbn [forallb] in F1q. apply andb_true_iff in F1q. apply F1q.
  - destruct S1 as [->|[c [f' [-> Hc]]]]; [left; reflexivity|right]. unfold is_hash in Hc. apply N.eqb_eq in Hc. subst c.
    exists f'. split; [reflexivity|]. intros ->. discriminate.
Qed.

Lemma app3_eq {A} (a b c a' b' c' : list A) : a = a' -> b = b' -> c = c' -> a ++ b ++ c = a' ++ b' ++ c'.
Proof. congruence. Qed.

(* ------------------------------------------------------------------ the base URL *)
Section Base.
  Variable v6ok : str -> bool.
  Variables (sch netloc P : str).
  Hypothesis Hsch : sch = s_http \/ sch = s_https.
  Hypothesis Hnet_ne : netloc <> [].
  Hypothesis Hnet : forallb netloc_char netloc = true.
  Hypothesis Hbad : netloc_bad v6ok netloc = false.
  Hypothesis HP : forallb path_char P = true.
  Hypothesis HProot : rooted P.
  Hypothesis HPshape : path_shape_ok P = true.

  Let B : str := sch ++ s_css ++ netloc ++ P.

  Lemma sch_facts : sch <> [] /\ forallb is_lower_alpha sch = true /\
    mem_str sch USES_RELATIVE = true /\ mem_str sch USES_NETLOC = true.
  Proof. destruct Hsch as [-> | ->]; repeat split; try discriminate; reflexivity. Qed.

  Lemma urlparse_base : urlparse v6ok [] B = POk sch netloc P [] [] [].
  Proof.
    destruct sch_facts as [Hne [Hlow _]].
    pose proof (urlsplit_built v6ok sch netloc P [] Hne Hlow Hnet Hbad HP HProot eq_refl) as E.
    cbn [is_empty] in E. rewrite app_nil_r in E.
    unfold urlparse. change (urlsplit_with v6ok [] B) with (urlsplit v6ok B). unfold B. rewrite E.
    unfold path_shape_ok in HPshape. apply andb_true_iff in HPshape as [_ Hsemi].
    rewrite (splitparams_id P) by (destruct (mem_n 59 (last (split_c 47 P) [])); [discriminate|reflexivity]).
    destruct (mem_str sch USES_PARAMS && mem_n 59 P); reflexivity.
  Qed.

  Lemma rfc_parse_base : rfc_parse B = mkUri (Some sch) (Some netloc) P None None.
  Proof.
    destruct sch_facts as [Hne [Hlow _]].
    assert (Hs4 : forallb (fun c => negb (is_gen_delim4 c)) sch = true).
    { revert Hlow. apply forallb_impl. intros x. unfold is_lower_alpha, is_gen_delim4. lia. }
    assert (Hn3 : forallb (fun c => negb (is_delim c)) netloc = true).
    { revert Hnet. apply forallb_impl. intros x. unfold netloc_char. lia. }
    assert (HPqf : forallb (fun c => negb (is_qf c)) P = true).
    { revert HP. apply forallb_impl. intros x. unfold path_char, is_qf. lia. }
    unfold rfc_parse, B, s_css. cbn [app].
    assert (parse_scheme (sch ++ 58 :: 47 :: 47 :: netloc ++ P) = (Some sch, 47 :: 47 :: netloc ++ P)) as ->.
    { unfold parse_scheme. rewrite (span_until_app _ _ _ Hs4); [|right; eexists; eexists; split; reflexivity].
      destruct sch; [contradiction|reflexivity]. }
    assert (parse_authority (47 :: 47 :: netloc ++ P) = (Some netloc, P)) as ->.
    { unfold parse_authority. rewrite (span_until_app _ _ _ Hn3); [reflexivity|].
      destruct HProot as [->|[t ->]]; [left; reflexivity|right; eexists; eexists; split; reflexivity]. }
    rewrite (span_until_none _ _ HPqf). reflexivity.
  Qed.

  Lemma base_nonempty : is_empty B = false.
  Proof. destruct sch_facts as [Hne _]. unfold B. destruct sch; [contradiction|reflexivity]. Qed.

  (* urlunparse with a non-empty netloc and no params *)
  Lemma urlunparse_eq X qt ft :
    urlunparse sch netloc X [] qt ft =
    sch ++ 58 :: 47 :: 47 :: netloc ++
      (if nonempty X && negb (starts_with [47] X) then 47 :: X else X) ++
      (if nonempty qt then 63 :: qt else []) ++ (if nonempty ft then 35 :: ft else []).
  Proof.
    destruct sch_facts as [Hne _].
    unfold urlunparse, urlunsplit. cbn [nonempty is_empty negb].
    assert (nonempty netloc = true) as -> by (destruct netloc; [contradiction|reflexivity]).
    assert (nonempty sch = true) as -> by (destruct sch; [contradiction|reflexivity]).
    cbn [orb app]. destruct (nonempty qt), (nonempty ft); rewrite <- ?app_assoc; cbn [app];
      rewrite ?app_nil_r; rewrite <- ?app_assoc; reflexivity.
  Qed.

  Lemma recompose_eq T qo fo :
    recompose (mkUri (Some sch) (Some netloc) T qo fo) =
    sch ++ 58 :: 47 :: 47 :: netloc ++ T ++
      (match qo with Some q => 63 :: q | None => [] end) ++ (match fo with Some f => 35 :: f | None => [] end).
  Proof. unfold recompose. cbn [u_scheme u_authority u_path u_query u_fragment]. rewrite <- !app_assoc. reflexivity. Qed.

  Lemma opt_text d s : (s = [] \/ exists s', s = d :: s' /\ s' <> []) ->
    (if nonempty (text_of s) then d :: text_of s else []) = match opt_of d s with Some t => d :: t | None => [] end.
  Proof.
    intros [->|[s' [-> Hne]]]; [reflexivity|]. cbn [text_of opt_of]. rewrite N.eqb_refl.
    destruct s'; [contradiction|reflexivity].
  Qed.

  Theorem urljoin_rfc r : ref_ok r = true -> urljoin v6ok B r = JOk (rfc3986_resolve B r).
  Proof.
    intros Hr. destruct (ref_decomp r Hr) as [p [q [f [Hparts [Hprint [Hcolon [Hp [Hshape [Hq Hf]]]]]]]]].
    destruct sch_facts as [Hne [Hlow [Hrel Hnl]]].
    pose proof (rfc_parse_ref r p q f Hparts Hcolon Hp Hshape Hq Hf) as Rr.
    unfold rfc3986_resolve. rewrite rfc_parse_base, Rr.
    unfold urljoin. rewrite base_nonempty.
    assert (Hq2 : q = [] \/ exists q', q = 63 :: q' /\ q' <> []).
    { destruct Hq as [->|[q' [-> [Hn _]]]]; [left; reflexivity|right; exists q'; auto]. }
    destruct (is_empty r) eqn:Er.
    { (* the empty reference *)
      destruct r; [|discriminate]. symmetry in Hparts. apply app_eq_nil in Hparts as [-> Hqf].
      apply app_eq_nil in Hqf as [-> ->]. unfold transform. cbn [u_scheme u_authority u_path u_query u_fragment opt_of].
      rewrite recompose_eq. cbn [app]. rewrite !app_nil_r. unfold B, s_css. cbn [app]. reflexivity. }
    rewrite urlparse_base. rewrite (urlparse_ref r p q f Hparts Hprint Hcolon Hp Hshape Hq Hf v6ok sch Hlow).
    rewrite str_eqb_refl, Hrel, Hnl. cbn [negb orb andb]. change (nonempty (@nil N)) with false. cbn [andb].
    unfold transform. cbn [u_scheme u_authority u_path u_query u_fragment].
    assert (HQ : forall qt, qt = text_of q \/ qt = (if is_empty (text_of q) then [] else text_of q) ->
              (if nonempty qt then 63 :: qt else []) = match opt_of 63 q with Some t => 63 :: t | None => [] end).
    { intros qt Hqt. destruct Hq2 as [E|[q' [E Hn]]]; rewrite E in *; cbn [text_of opt_of is_empty N.eqb Pos.eqb] in *.
      - destruct Hqt as [-> | ->]; reflexivity.
      - destruct q' as [|x q'']; [contradiction|]. cbn [is_empty] in Hqt. destruct Hqt as [-> | ->]; reflexivity. }
    assert (HF : (if nonempty (text_of f) then 35 :: text_of f else []) =
                 match opt_of 35 f with Some t => 35 :: t | None => [] end).
    { destruct Hf as [E|[f' [E Hn]]]; rewrite E; cbn [text_of opt_of N.eqb Pos.eqb]; [reflexivity|].
      destruct f'; [contradiction|reflexivity]. }
    destruct p as [|c p'] eqn:Ep.
    - (* empty path: the base path, the reference's query or none *)
      cbn [is_empty andb]. rewrite urlunparse_eq, recompose_eq.
      do 6 f_equal. apply app3_eq; [| |exact HF].
      + destruct HProot as [E|[t E]]; rewrite E; reflexivity.
      + rewrite (HQ _ (or_intror eq_refl)). destruct (opt_of 63 q); reflexivity.
    - cbn [is_empty andb]. rewrite urlunparse_eq.
      unfold path_shape_ok in Hshape, HPshape.
      apply andb_true_iff in Hshape as [Hm _]. apply andb_true_iff in HPshape as [HPm _].
      destruct (N.eqb_spec c 47) as [->|Hc].
      + (* absolute-path reference *)
        rewrite recompose_eq. do 6 f_equal. apply app3_eq; [|exact (HQ _ (or_introl eq_refl))|exact HF].
        exact (join_path_abs P p' Hm).
      + (* relative-path reference: merge *)
        assert (Hc' : (c =? 47) = false) by (apply N.eqb_neq; exact Hc).
        assert ((match c :: p' with
                 | [] => mkUri (Some sch) (Some netloc) P (match opt_of 63 q with Some q0 => Some q0 | None => None end) (opt_of 35 f)
                 | 47 :: _ => mkUri (Some sch) (Some netloc) (remove_dot_segments (c :: p')) (opt_of 63 q) (opt_of 35 f)
                 | _ :: _ => mkUri (Some sch) (Some netloc)
                               (remove_dot_segments (merge (mkUri (Some sch) (Some netloc) P None None) (c :: p')))
                               (opt_of 63 q) (opt_of 35 f)
                 end) = mkUri (Some sch) (Some netloc)
                               (remove_dot_segments (merge (mkUri (Some sch) (Some netloc) P None None) (c :: p')))
                               (opt_of 63 q) (opt_of 35 f)) as E3.
        { destruct c as [|pc]; [reflexivity|]; repeat (destruct pc as [pc|pc|]; try reflexivity); exfalso; apply Hc; reflexivity. }
        etransitivity; [|apply f_equal, f_equal; symmetry; exact E3].
        rewrite recompose_eq. do 6 f_equal. apply app3_eq; [|exact (HQ _ (or_introl eq_refl))|exact HF].
        exact (join_path_rel netloc P (c :: p') (Some sch) None None c p' HProot HPm eq_refl Hc' Hm).
  Qed.
End Base.

(* ------------------------------------------------------------------ relative_url of a request *)
Lemma rooted_prefix (a b : str) : rooted (a ++ b) -> rooted a.
Proof.
  intros [E|[t E]]; destruct a as [|c a']; try (left; reflexivity).
  - discriminate.
  - right. cbn [app] in E. injection E as -> _. eexists; reflexivity.
Qed.

Lemma last_netloc_not_slash n : n <> [] -> forallb netloc_char n = true -> (last n 0 =? 47) = false.
Proof.
  intros Hne H. pose proof (last_in n 0 Hne) as Hin. rewrite forallb_forall in H. apply H in Hin.
  unfold netloc_char, is_delim in Hin. lia.
Qed.

Section RelUrl.
  Variable v6ok : str -> bool.
  Variables (e : environ) (h : hostsp) (p : option str) (st pt : str).
  Hypothesis Hview : host_view v6ok e h p.
  Hypothesis Hsch : e_scheme e = s_http \/ e_scheme e = s_https.
  Hypothesis Hhost : hs_text h <> [].
  Hypothesis Hs : encode (e_enc e) st = Ok (raw_script e).
  Hypothesis Hp : encode (e_enc e) pt = Ok (e_path e).
  Hypothesis Hroot : rooted (st ++ pt).

  Let sch := e_scheme e.
  Let netloc := hs_text h ++ port_sfx (elide_default sch p).

  Lemma ru_host_url : host_url e = sch ++ s_css ++ netloc.
  Proof. rewrite (view_host_url _ _ _ _ Hview). reflexivity. Qed.

  Lemma ru_netloc : netloc <> [] /\ forallb netloc_char netloc = true /\ netloc_bad v6ok netloc = false.
  Proof.
    destruct Hview as [Hh [Hpo _]].
    destruct (netloc_of_host v6ok h (elide_default sch p) Hh (elide_oport_ok sch p Hpo)) as [H1 H2].
    split; [|split; assumption]. unfold netloc. intros E. apply app_eq_nil in E as [E _]. contradiction.
  Qed.

  Lemma ru_base (to_app : bool) :
    (if to_app then a <- application_url e ;; Ok (if ends_with_slash a then a else a ++ [47]) else path_url e)
    = Ok (host_url e ++ rel_base_path e to_app).
  Proof.
    destruct (url_forms e st pt Hs Hp) as [Fa [_ [Fp _]]]. destruct to_app.
    - rewrite Fa. cbn [bind]. unfold rel_base_path. f_equal.
      destruct (url_quote (raw_script e)) as [|c Q] eqn:EQ.
      + rewrite app_nil_r. unfold ends_with_slash. rewrite ru_host_url.
        destruct ru_netloc as [Hne [Hnc _]].
        rewrite app_assoc, (last_app_ne _ netloc 0 Hne), (last_netloc_not_slash _ Hne Hnc). cbn [last N.eqb].
        reflexivity.
      + unfold ends_with_slash. rewrite (last_app_ne (host_url e) (c :: Q) 0) by discriminate.
        destruct (last (c :: Q) 0 =? 47); [reflexivity|]. rewrite <- app_assoc. reflexivity.
    - rewrite Fp. reflexivity.
  Qed.

  Lemma ru_path_facts (to_app : bool) : forallb path_char (rel_base_path e to_app) = true /\ rooted (rel_base_path e to_app).
  Proof.
    pose proof (encode_octets _ _ _ Hs) as Os. pose proof (encode_octets _ _ _ Hp) as Op.
    unfold rel_base_path. destruct to_app.
    - assert (HQ : forallb path_char (url_quote (raw_script e)) = true)
        by (apply pct_encoded_chars, quote_pct_encoded; exact Os).
      assert (HR : rooted (url_quote (raw_script e)))
        by (apply url_quote_rooted, (encode_rooted _ _ _ Hs), (rooted_prefix st pt Hroot)).
      destruct (ends_with_slash (url_quote (raw_script e))); [split; assumption|]. split.
      + rewrite forallb_app, HQ. reflexivity.
      + destruct HR as [-> | [t ->]]; right; eexists; reflexivity.
    - split.
      + apply pct_encoded_chars, quote_pct_encoded. rewrite forallb_app, Os, Op. reflexivity.
      + apply url_quote_rooted. apply (encode_rooted _ _ _ (encode_app _ _ _ _ _ Hs Hp) Hroot).
  Qed.

  Theorem relative_url_rfc (other : str) (to_app : bool) :
    path_shape_ok (rel_base_path e to_app) = true -> ref_ok other = true ->
    relative_url v6ok e other to_app = ROk (rfc3986_resolve (host_url e ++ rel_base_path e to_app) other).
  Proof.
    intros Hshape Href. unfold relative_url. rewrite (ru_base to_app).
    destruct ru_netloc as [Hne [Hnc Hnb]]. destruct (ru_path_facts to_app) as [HPc HPr].
    rewrite ru_host_url. rewrite <- !app_assoc.
    rewrite (urljoin_rfc v6ok sch netloc (rel_base_path e to_app) Hsch Hne Hnc Hnb HPc HPr Hshape other Href).
    reflexivity.
  Qed.
End RelUrl.
