(* C12 — lemmas about the descriptor machinery (Model/C12_Headers.v): totality of converters,
   set-then-get, single-line storage, CR/LF refusal, None / del removal; integers and lists. *)
From Coq Require Import ZArith NArith List Bool Lia ZifyBool ZifyNat ZifyN.
Require Import Webob.Lib.Val Webob.Lib.PyStr Webob.Lib.C12_PyInt Webob.Model.C12_Headers
               Webob.Proofs.C12_pyint.
Import ListNotations.
Local Open Scope N_scope.

(* ------------------------------------------------------------------ str_eqb *)
Lemma str_eqb_refl s : str_eqb s s = true.
Proof. induction s as [|c s IH]; cbn; [reflexivity|]. rewrite N.eqb_refl, IH. reflexivity. Qed.

Lemma str_eqb_eq a : forall b, str_eqb a b = true <-> a = b.
Proof.
  induction a as [|x a IH]; intros [|y b]; cbn; split; intros H; try reflexivity; try discriminate.
  - apply andb_true_iff in H as [H1 H2]. apply N.eqb_eq in H1. apply IH in H2. congruence.
  - injection H as -> ->. rewrite N.eqb_refl. apply str_eqb_refl.
Qed.

Lemma str_eqb_neq a b : a <> b -> str_eqb a b = false.
Proof. intros H. destruct (str_eqb a b) eqn:E; [apply str_eqb_eq in E; contradiction|reflexivity]. Qed.

(* ------------------------------------------------------------------ header_getter *)
Local Opaque lower.
Lemma hg_get_app key a b :
  hg_get key (a ++ b) = match hg_get key a with Some v => Some v | None => hg_get key b end.
Proof.
  induction a as [|[k v] a IH]; cbn; [reflexivity|].
  destruct (str_eqb (lower k) key); [reflexivity|exact IH].
Qed.

Lemma hg_get_del key hl : hg_get key (hg_del key hl) = None.
Proof.
  induction hl as [|[k v] hl IH]; cbn; [reflexivity|].
  destruct (str_eqb (lower k) key) eqn:E; cbn; [exact IH|]. rewrite E. exact IH.
Qed.

Lemma hg_get_del_other key key' hl : key' <> key -> hg_get key' (hg_del key hl) = hg_get key' hl.
Proof.
  intros Hne. induction hl as [|[k v] hl IH]; cbn; [reflexivity|].
  destruct (str_eqb (lower k) key) eqn:E; cbn.
  - apply str_eqb_eq in E. rewrite E. rewrite (str_eqb_neq key key') by congruence. exact IH.
  - destruct (str_eqb (lower k) key'); [reflexivity|exact IH].
Qed.

Lemma hg_del_no_key key hl k v : In (k, v) (hg_del key hl) -> str_eqb (lower k) key = false.
Proof.
  unfold hg_del. intros H. apply filter_In in H. destruct H as [_ H]. cbn in H.
  destruct (str_eqb (lower k) key); [discriminate|reflexivity].
Qed.

(* set-then-get on the header list *)
Lemma hg_set_get header s hl :
  has_crlf s = false ->
  hg_set header (Some s) hl = (hg_del (lower header) hl ++ [(header, s)], None) /\
  hg_get (lower header) (hg_del (lower header) hl ++ [(header, s)]) = Some s.
Proof.
  intros Hs. unfold hg_set. rewrite Hs. split; [reflexivity|].
  rewrite hg_get_app, hg_get_del. cbn. rewrite str_eqb_refl. reflexivity.
Qed.

(* whatever is stored under the header after an accepted set is ONE line without CR / LF *)
Lemma hg_set_single_line header t hl hl' :
  hg_set header t hl = (hl', None) ->
  forall k v, In (k, v) hl' -> str_eqb (lower k) (lower header) = true ->
  t = Some v /\ has_crlf v = false.
Proof.
  unfold hg_set. intros H k v Hin Hk. destruct t as [s|].
  - destruct (has_crlf s) eqn:Hs; [discriminate|]. injection H as <-.
    apply in_app_or in Hin. destruct Hin as [Hin|Hin].
    + apply hg_del_no_key in Hin. congruence.
    + destruct Hin as [Hin|[]]. injection Hin as <- <-. auto.
  - injection H as <-. apply hg_del_no_key in Hin. congruence.
Qed.

Lemma hg_set_one_pair header s hl :
  has_crlf s = false ->
  filter (fun kv => str_eqb (lower (fst kv)) (lower header)) (fst (hg_set header (Some s) hl)) = [(header, s)].
Proof.
  intros Hs. unfold hg_set. rewrite Hs. cbn [fst]. rewrite filter_app.
  assert (E : filter (fun kv => str_eqb (lower (fst kv)) (lower header)) (hg_del (lower header) hl) = []).
  { unfold hg_del. induction hl as [|[k v] hl IH]; cbn; [reflexivity|].
    destruct (str_eqb (lower k) (lower header)) eqn:E; cbn; [exact IH|]. rewrite E. exact IH. }
  rewrite E. cbn. rewrite str_eqb_refl. reflexivity.
Qed.

(* a CR / LF value is refused, and nothing is stored under the header *)
Lemma hg_set_refuses header s hl :
  has_crlf s = true -> hg_set header (Some s) hl = (hl, Some ValueError).
Proof. intros Hs. unfold hg_set. rewrite Hs. reflexivity. Qed.

(* ------------------------------------------------------------------ environ *)
Lemma env_get_put key v env : env_get key (env_put key v env) = Some v.
Proof.
  induction env as [|[k x] env IH]; cbn.
  - rewrite str_eqb_refl. reflexivity.
  - destruct (str_eqb k key) eqn:E; cbn; rewrite E; [reflexivity|exact IH].
Qed.

Lemma env_get_put_other key key' v env : key' <> key -> env_get key' (env_put key v env) = env_get key' env.
Proof.
  intros Hne. induction env as [|[k x] env IH]; cbn.
  - rewrite (str_eqb_neq key key') by congruence. reflexivity.
  - destruct (str_eqb k key) eqn:E; cbn.
    + apply str_eqb_eq in E. subst k. rewrite (str_eqb_neq key key') by congruence. reflexivity.
    + destruct (str_eqb k key'); [reflexivity|exact IH].
Qed.

Lemma env_get_remove key env : env_get key (env_remove key env) = None.
Proof.
  induction env as [|[k x] env IH]; cbn; [reflexivity|].
  destruct (str_eqb k key) eqn:E; cbn; [exact IH|]. rewrite E. exact IH.
Qed.

Lemma env_get_remove_other key key' env : key' <> key -> env_get key' (env_remove key env) = env_get key' env.
Proof.
  intros Hne. induction env as [|[k x] env IH]; cbn; [reflexivity|].
  destruct (str_eqb k key) eqn:E; cbn.
  - apply str_eqb_eq in E. subst k. rewrite (str_eqb_neq key key') by congruence. exact IH.
  - destruct (str_eqb k key'); [reflexivity|exact IH].
Qed.

(* ------------------------------------------------------------------ converters, generically *)
Definition conv_total (c : conv) : Prop := forall v, is_raise (c_parse c v) = false.

Lemma resp_get_total c header hl : conv_total c -> is_raise (resp_get c header hl) = false.
Proof. intros Hc. unfold resp_get, conv_get. apply Hc. Qed.

Lemma req_get_total c key env : conv_total c -> is_raise (req_get c true key env) = false.
Proof.
  intros Hc. unfold req_get, conv_get, eg_get. destruct (env_get key env); apply Hc.
Qed.

Lemma req_get_total_nodefault c key env : conv_total c -> env_get key env <> None ->
  is_raise (req_get c false key env) = false.
Proof.
  intros Hc Hk. unfold req_get, conv_get, eg_get. destruct (env_get key env); [apply Hc|congruence].
Qed.

(* set v then get: the stored header is the serialisation and the value read is its parse *)
Lemma resp_set_get c header v t w hl :
  v <> PNone -> c_serialize c v = Ok (Some t) -> has_crlf t = false -> c_parse c (Some t) = Ok w ->
  let '(hl', e) := resp_set c header v hl in
  e = None /\ hg_get (lower header) hl' = Some t /\ resp_get c header hl' = Ok w.
Proof.
  intros Hv Hser Ht Hp. unfold resp_set, conv_ser.
  assert (E : match v with PNone => Ok None | _ => c_serialize c v end = Ok (Some t)).
  { destruct v; try exact Hser. congruence. }
  rewrite E. destruct (hg_set_get header t hl Ht) as [E1 E2]. rewrite E1.
  split; [reflexivity|]. split; [exact E2|]. unfold resp_get, conv_get. rewrite E2. exact Hp.
Qed.

Lemma req_set_get c dflt key v t w env :
  v <> PNone -> c_serialize c v = Ok (Some t) -> c_parse c (Some t) = Ok w ->
  let '(env', e) := req_set c key v env in
  e = None /\ env_get key env' = Some t /\ req_get c dflt key env' = Ok w.
Proof.
  intros Hv Hser Hp. unfold req_set, conv_ser.
  assert (E : match v with PNone => Ok None | _ => c_serialize c v end = Ok (Some t)).
  { destruct v; try exact Hser. congruence. }
  rewrite E. cbn [eg_set]. split; [reflexivity|]. split; [apply env_get_put|].
  unfold req_get, conv_get, eg_get. rewrite env_get_put. exact Hp.
Qed.

(* None removes the header and leaves the others alone; del likewise *)
Lemma resp_set_none c header hl :
  resp_set c header PNone hl = (hg_del (lower header) hl, None).
Proof. reflexivity. Qed.

Lemma req_set_none c key env : req_set c key PNone env = (env_remove key env, None).
Proof. reflexivity. Qed.

(* a serialised value containing CR / LF never reaches a Response header list *)
Lemma resp_set_crlf c header v t hl :
  c_serialize c v = Ok (Some t) -> v <> PNone -> has_crlf t = true ->
  resp_set c header v hl = (hl, Some ValueError).
Proof.
  intros Hser Hv Ht. unfold resp_set, conv_ser.
  assert (E : match v with PNone => Ok None | _ => c_serialize c v end = Ok (Some t)).
  { destruct v; try exact Hser. congruence. }
  rewrite E. apply hg_set_refuses. exact Ht.
Qed.

Lemma resp_set_single_line c header v hl hl' :
  resp_set c header v hl = (hl', None) ->
  forall k x, In (k, x) hl' -> str_eqb (lower k) (lower header) = true -> has_crlf x = false.
Proof.
  unfold resp_set. intros H k x Hin Hk.
  destruct (conv_ser c v) as [t|e]; [|discriminate].
  destruct (hg_set_single_line header t hl hl' H k x Hin Hk) as [_ Hx]. exact Hx.
Qed.

(* ------------------------------------------------------------------ integers *)
Lemma conv_int_total : conv_total conv_int.
Proof.
  intros v. cbn. unfold parse_int_safe, parse_int.
  destruct v as [[|c s]|]; try reflexivity. destruct (py_int (c :: s)); reflexivity.
Qed.

Lemma conv_str_total : conv_total conv_str.
Proof. intros v. reflexivity. Qed.

Lemma conv_list_total : conv_total conv_list.
Proof. intros v. cbn. unfold parse_list. destruct v; reflexivity. Qed.

(* parse_int itself lets ValueError escape: an attribute built on it is not total *)
Lemma parse_int_not_total : exists v, c_parse conv_int_unsafe v = Raise ValueError.
Proof. exists (Some [97; 98; 99]). reflexivity. Qed.

Lemma str_of_Z_nonempty z : str_of_Z z <> [].
Proof.
  destruct (str_of_Z_shape z) as [d [_ [Hne [E|E]]]]; rewrite E; [exact Hne|discriminate].
Qed.

Lemma digit_not_crlf c : is_digit c = true -> ((c =? 10) || (c =? 13)) = false.
Proof. unfold is_digit. lia. Qed.

Lemma all_digits_no_crlf d : all_digits d -> has_crlf d = false.
Proof.
  intros Hd. unfold has_crlf. induction Hd as [|c d Hc Hd IH]; cbn; [reflexivity|].
  rewrite (digit_not_crlf c Hc), IH. reflexivity.
Qed.

Lemma str_of_Z_no_crlf z : has_crlf (str_of_Z z) = false.
Proof.
  destruct (str_of_Z_shape z) as [d [Hd [_ [E|E]]]]; rewrite E.
  - apply all_digits_no_crlf. exact Hd.
  - unfold has_crlf. cbn. apply (all_digits_no_crlf d Hd).
Qed.

Lemma parse_int_safe_str_of_Z z : (ndigits z <= max_str_digits)%nat ->
  parse_int_safe (Some (str_of_Z z)) = Ok (VInt z).
Proof.
  intros Hn. unfold parse_int_safe, parse_int.
  destruct (str_of_Z z) as [|c s] eqn:E; [exfalso; exact (str_of_Z_nonempty z E)|].
  rewrite <- E, (py_int_str_of_Z z Hn). reflexivity.
Qed.

Lemma serialize_int_ok z : (ndigits z <= max_str_digits)%nat ->
  serialize_int (PInt z) = Ok (Some (str_of_Z z)).
Proof. intros Hn. cbn. apply Nat.leb_le in Hn. rewrite Hn. reflexivity. Qed.

(* wire syntax of a non-negative integer: 1*DIGIT *)
Lemma str_of_Z_wire z : (0 <= z)%Z -> all_digits (str_of_Z z) /\ str_of_Z z <> [].
Proof.
  intros Hz. split; [|apply str_of_Z_nonempty].
  destruct z as [|p|p]; cbn [str_of_Z]; try apply digits_of_N_all. lia.
Qed.

(* ------------------------------------------------------------------ comma lists *)
(* an element of a comma list: non-empty, no comma, no white space *)
Definition clean (t : str) : Prop :=
  t <> [] /\ Forall (fun c => c <> 44 /\ is_space_str c = false) t.

Lemma split_c_nosep sep s : ~ In sep s -> split_c sep s = [s].
Proof.
  induction s as [|c s IH]; intros Hn; cbn; [reflexivity|].
  destruct (c =? sep) eqn:E; [apply N.eqb_eq in E; subst; exfalso; apply Hn; left; reflexivity|].
  rewrite IH; [reflexivity|]. intros H. apply Hn. right. exact H.
Qed.

Lemma split_c_app sep a b : ~ In sep a -> split_c sep (a ++ sep :: b) = a :: split_c sep b.
Proof.
  induction a as [|c a IH]; intros Hn; cbn.
  - rewrite N.eqb_refl. reflexivity.
  - destruct (c =? sep) eqn:E; [apply N.eqb_eq in E; subst; exfalso; apply Hn; left; reflexivity|].
    rewrite IH; [reflexivity|]. intros H. apply Hn. right. exact H.
Qed.

Lemma clean_no_comma t : clean t -> ~ In 44 t.
Proof.
  intros [_ Hf] Hin. rewrite Forall_forall in Hf. destruct (Hf 44 Hin) as [H _]. congruence.
Qed.

Lemma clean_no_space t : clean t -> Forall (fun c => is_space_str c = false) t.
Proof. intros [_ Hf]. eapply Forall_impl; [|exact Hf]. intros c [_ H]. exact H. Qed.

Lemma strip_clean t : clean t -> strip_by is_space_str t = t.
Proof. intros Ht. apply strip_by_all. apply clean_no_space. exact Ht. Qed.

Lemma strip_sp_clean t : clean t -> strip_by is_space_str (32 :: t) = t.
Proof.
  intros Ht. unfold strip_by, lstrip_by. cbn [drop_while].
  change (is_space_str 32) with true. cbv iota.
  destruct t as [|c t'] eqn:E; [destruct Ht as [Hne _]; congruence|].
  rewrite <- E in *. pose proof (clean_no_space t Ht) as Hs.
  assert (Hd : drop_while is_space_str t = t).
  { rewrite E in *. inversion Hs as [|? ? Hc _]; subst. cbn. rewrite Hc. reflexivity. }
  rewrite Hd. pose proof (strip_clean t Ht) as Hst. unfold strip_by, lstrip_by in Hst.
  rewrite Hd in Hst. exact Hst.
Qed.

(* split(",") of ", ".join(l): the first element, then the others each preceded by a space *)
Lemma split_join t ts : clean t -> Forall clean ts ->
  split_c 44 (join comma_sp (t :: ts)) = t :: map (cons 32) ts.
Proof.
  revert t. induction ts as [|u ts IH]; intros t Ht Hts.
  - cbn. apply split_c_nosep. apply clean_no_comma. exact Ht.
  - inversion Hts as [|? ? Hu Hts']; subst.
    change (join comma_sp (t :: u :: ts)) with (t ++ comma_sp ++ join comma_sp (u :: ts)).
    unfold comma_sp. cbn [app].
    rewrite split_c_app by (apply clean_no_comma; exact Ht).
    f_equal.
    assert (E : split_c 44 (32 :: join [44; 32] (u :: ts)) =
                match split_c 44 (join [44; 32] (u :: ts)) with [] => [[32]] | f :: fs => (32 :: f) :: fs end).
    { reflexivity. }
    rewrite E. fold comma_sp. rewrite (IH u Hu Hts'). reflexivity.
Qed.

Lemma nonempty_clean t : clean t -> nonempty t = true.
Proof. intros [Hne _]. destruct t; [congruence|reflexivity]. Qed.

Lemma list_items_join l : l <> [] -> Forall clean l -> list_items (join comma_sp l) = l.
Proof.
  intros Hne Hl. destruct l as [|t ts]; [congruence|].
  inversion Hl as [|? ? Ht Hts]; subst.
  unfold list_items. rewrite (split_join t ts Ht Hts). cbn [map filter].
  rewrite (strip_clean t Ht), (nonempty_clean t Ht). f_equal.
  clear Hne Hl Ht. induction Hts as [|u ts Hu Hts IH]; [reflexivity|].
  cbn [map filter]. rewrite (strip_sp_clean u Hu), (nonempty_clean u Hu), IH. reflexivity.
Qed.

Lemma join_nonempty t ts : clean t -> join comma_sp (t :: ts) <> [].
Proof.
  intros [Hne _]. destruct ts; cbn; [exact Hne|]. destruct t; [congruence|discriminate].
Qed.

Lemma parse_list_join l : Forall clean l ->
  parse_list (Some (join comma_sp l)) = Ok (VList (map VStr l)).
Proof.
  intros Hl. unfold parse_list. destruct l as [|t ts]; [reflexivity|].
  rewrite (list_items_join (t :: ts) ltac:(discriminate) Hl). reflexivity.
Qed.

Lemma has_crlf_app a b : has_crlf (a ++ b) = has_crlf a || has_crlf b.
Proof. unfold has_crlf. apply existsb_app. Qed.

Lemma clean_no_crlf t : clean t -> has_crlf t = false.
Proof.
  intros Ht. pose proof (clean_no_space t Ht) as Hs. unfold has_crlf.
  induction Hs as [|c t' Hc Hs IH]; cbn; [reflexivity|].
  assert (((c =? 10) || (c =? 13)) = false) as ->.
  { unfold is_space_str in Hc. lia. }
  cbn. destruct t' as [|c' t'']; [reflexivity|]. apply IH.
  destruct Ht as [_ Hf]. inversion Hf; subst. split; [discriminate|assumption].
Qed.

Lemma join_no_crlf l : Forall clean l -> has_crlf (join comma_sp l) = false.
Proof.
  intros Hl. induction Hl as [|t ts Ht Hts IH]; [reflexivity|].
  destruct ts as [|u ts'].
  - cbn. apply clean_no_crlf. exact Ht.
  - change (join comma_sp (t :: u :: ts')) with (t ++ comma_sp ++ join comma_sp (u :: ts')).
    rewrite !has_crlf_app, (clean_no_crlf t Ht), IH. reflexivity.
Qed.
