(* C06 — the hand-written scanner [match_content_range] against the REGENERATED pattern [cr_rx]
   (Gen/C06_crx.v, the live webob.byterange._rx_content_range): the scanner succeeds on h exactly when
   some prefix of h is in the language of the pattern (`pattern.match`), and then the groups it returns
   spell that prefix. *)
From Coq Require Import ZArith NArith List Bool Lia.
Require Import Webob.Lib.Val Webob.Lib.Rx Webob.Model.C06_ByteRange Webob.Model.C06_ContentRangeText
               Webob.Proofs.C06_range Webob.Proofs.C06_text Webob.Proofs.C06_crtext Webob.Gen.C06_crx.
Import ListNotations.
Local Open Scope N_scope.

(* ---------------------------------------------------------------- single characters *)
Lemma lit_matches : forall c, matches (rx_lit c) [c].
Proof.
  intros c. apply MCls. unfold cmem. cbn [in_ranges xorb]. rewrite N.leb_refl. reflexivity.
Qed.

Lemma inv_lit : forall c w, matches (rx_lit c) w -> w = [c].
Proof.
  intros c w H. apply inv_cls in H as (x & -> & Hx). unfold cmem in Hx. cbn [in_ranges xorb] in Hx.
  destruct (N.leb_spec c x), (N.leb_spec x c); cbn in Hx; try discriminate. f_equal. lia.
Qed.

Lemma digit_matches : forall c, is_digit c = true -> matches rx_digit [c].
Proof.
  intros c H. apply MCls. unfold cmem. cbn [in_ranges xorb]. unfold is_digit in H. rewrite H. reflexivity.
Qed.

Lemma inv_digit : forall w, matches rx_digit w -> exists c, w = [c] /\ is_digit c = true.
Proof.
  intros w H. apply inv_cls in H as (x & -> & Hx). exists x. split; [reflexivity|].
  unfold cmem in Hx. cbn [in_ranges xorb] in Hx. unfold is_digit.
  destruct ((48 <=? x) && (x <=? 57)); [reflexivity | cbn in Hx; discriminate].
Qed.

Lemma star_digits : forall ds, digits ds -> matches (Star rx_digit) ds.
Proof.
  intros ds H. induction H as [|c ds Hc _ IH]; [constructor|].
  change (c :: ds) with ([c] ++ ds). apply MStarS; [apply digit_matches, Hc | exact IH].
Qed.

Lemma inv_star_digits : forall w, matches (Star rx_digit) w -> digits w.
Proof.
  induction w as [|c w IH]; intros H; [constructor|].
  apply star_cons in H as (w1 & w2 & -> & H1 & H2).
  apply inv_digit in H1 as (x & Hx & Hd). injection Hx as -> ->. cbn [app] in *.
  constructor; [exact Hd | apply IH, H2].
Qed.

Lemma digits1_matches : forall ds, digits ds -> ds <> [] -> matches rx_digits1 ds.
Proof.
  intros [|c ds] H Hn; [contradiction|]. inversion H as [|? ? Hc Hr]; subst.
  change (c :: ds) with ([c] ++ ds). apply MCat; [apply digit_matches, Hc | apply star_digits, Hr].
Qed.

Lemma inv_digits1 : forall w, matches rx_digits1 w -> digits w /\ w <> [].
Proof.
  intros w H. apply inv_cat in H as (w1 & w2 & -> & H1 & H2).
  apply inv_digit in H1 as (x & -> & Hd). apply inv_star_digits in H2.
  split; [constructor; assumption | discriminate].
Qed.

(* ---------------------------------------------------------------- the text a group tuple spells *)
Definition se_text (se : option (str * str)) : str :=
  match se with Some (d1, d2) => d1 ++ 45 :: d2 | None => [42] end.
Definition lg_text (l : option str) : str := match l with Some d => d | None => [42] end.
Definition groups_text (se : option (str * str)) (l : option str) : str :=
  S_bytes_sp ++ se_text se ++ 47 :: lg_text l.
Definition groups_ok (se : option (str * str)) (l : option str) : Prop :=
  match se with Some (d1, d2) => digits d1 /\ d1 <> [] /\ digits d2 /\ d2 <> [] | None => True end /\
  match l with Some d => digits d /\ d <> [] | None => True end.

Lemma groups_match : forall se l, groups_ok se l -> matches cr_rx_spec (groups_text se l).
Proof.
  intros se l [Hse Hl]. unfold cr_rx_spec, groups_text, S_bytes_sp.
  repeat (match goal with |- matches (Cat (rx_lit ?c) _) ((?c :: ?r) ++ ?t) =>
            change ((c :: r) ++ t) with ([c] ++ (r ++ t)); apply MCat; [apply lit_matches|] end).
  cbn [app]. apply MCat.
  - destruct se as [[d1 d2]|]; cbn [se_text].
    + destruct Hse as (H1 & N1 & H2 & N2). apply MAltL. apply MCat; [apply digits1_matches; assumption|].
      change (45 :: d2) with ([45] ++ d2). apply MCat; [apply lit_matches | apply digits1_matches; assumption].
    + apply MAltR, lit_matches.
  - change (47 :: lg_text l) with ([47] ++ lg_text l). apply MCat; [apply lit_matches|].
    destruct l as [d|]; cbn [lg_text].
    + destruct Hl. apply MAltL, digits1_matches; assumption.
    + apply MAltR, lit_matches.
Qed.

Lemma inv_groups : forall p, matches cr_rx_spec p -> exists se l, groups_ok se l /\ p = groups_text se l.
Proof.
  intros p H. unfold cr_rx_spec in H.
  repeat (apply inv_cat in H as (?w & ?w & -> & ?Hl & H); apply inv_lit in Hl; subst).
  apply inv_cat in H as (a & b & -> & Ha & Hb).
  apply inv_cat in Hb as (s & c & -> & Hs & Hc). apply inv_lit in Hs; subst.
  assert (Hse : exists se, a = se_text se /\
                 match se with Some (d1, d2) => digits d1 /\ d1 <> [] /\ digits d2 /\ d2 <> [] | None => True end).
  { apply inv_alt in Ha as [Ha|Ha].
    - apply inv_cat in Ha as (d1 & r & -> & H1 & Hr). apply inv_cat in Hr as (m & d2 & -> & Hm & H2).
      apply inv_lit in Hm; subst. apply inv_digits1 in H1 as [? ?]. apply inv_digits1 in H2 as [? ?].
      exists (Some (d1, d2)). split; [reflexivity | auto].
    - apply inv_lit in Ha; subst. exists None. split; [reflexivity | exact I]. }
  assert (Hlg : exists l, c = lg_text l /\ match l with Some d => digits d /\ d <> [] | None => True end).
  { apply inv_alt in Hc as [Hc|Hc].
    - apply inv_digits1 in Hc. exists (Some c). split; [reflexivity | exact Hc].
    - apply inv_lit in Hc; subst. exists None. split; [reflexivity | exact I]. }
  destruct Hse as (se & -> & Hse), Hlg as (l & -> & Hl).
  exists se, l. split; [split; assumption | reflexivity].
Qed.

(* ---------------------------------------------------------------- what the scanner's steps say *)
Lemma span_split : forall f s a b, span f s = (a, b) -> s = a ++ b.
Proof.
  intros f; induction s as [|c s IH]; intros a b H; cbn [span] in H.
  - injection H as <- <-. reflexivity.
  - destruct (f c).
    + destruct (span f s) as [a' b'] eqn:E. injection H as <- <-. cbn [app]. f_equal. apply IH. reflexivity.
    + injection H as <- <-. reflexivity.
Qed.

Lemma span1_some : forall s d r, span1 s = Some (d, r) -> s = d ++ r /\ digits d /\ d <> [].
Proof.
  intros s d r H. unfold span1 in H. destruct (span is_digit s) as [a b] eqn:E.
  destruct a as [|x a]; cbn [is_nil] in H; [discriminate|]. injection H as <- <-.
  split; [apply (span_split _ _ _ _ E)|]. split; [apply (span_forall _ _ _ _ E) | discriminate].
Qed.

Lemma cs_prefix_some : forall p s r, cs_prefix p s = Some r -> s = p ++ r.
Proof.
  induction p as [|a p IH]; intros s r H; cbn [cs_prefix] in H.
  - injection H as ->. reflexivity.
  - destruct s as [|c s]; [discriminate|]. destruct (N.eqb_spec a c) as [->|]; [|discriminate].
    cbn [app]. f_equal. apply IH, H.
Qed.

Lemma match_cr_len_some : forall r l, match_cr_len r = Some l ->
  (match l with Some d => digits d /\ d <> [] | None => True end) /\ exists t, r = 47 :: lg_text l ++ t.
Proof.
  intros r l H. unfold match_cr_len in H. destruct r as [|c r]; [discriminate|].
  destruct (N.eqb_spec c 47) as [->|Hn].
  - destruct (span1 r) as [[d t]|] eqn:E.
    + injection H as <-. apply span1_some in E as (-> & Hd & Hne). split; [auto|]. exists t. reflexivity.
    + destruct r as [|x r]; [discriminate|]. destruct (N.eqb_spec x 42) as [->|Hx].
      * injection H as <-. split; [exact I|]. exists r. reflexivity.
      * exfalso. destruct x as [|px]; [discriminate|].
        repeat (destruct px as [px|px|]; try discriminate; try (apply Hx; reflexivity)).
  - exfalso. destruct c as [|pc]; [discriminate|].
    repeat (destruct pc as [pc|pc|]; try discriminate; try (apply Hn; reflexivity)).
Qed.

Ltac not_char c Hn :=
  exfalso; destruct c as [|?pc]; [discriminate|];
  repeat (destruct pc as [pc|pc|]; try discriminate; try (apply Hn; reflexivity)).

(* ---------------------------------------------------------------- scanner success => a prefix in the language *)
Theorem scan_spells : forall h se l, match_content_range h = Some (se, l) ->
  groups_ok se l /\ exists t, h = groups_text se l ++ t.
Proof.
  intros h se l H. unfold match_content_range in H.
  destruct (cs_prefix S_bytes_sp h) as [r0|] eqn:Ep; [|discriminate].
  apply cs_prefix_some in Ep. subst h.
  destruct (span1 r0) as [[d1 r1]|] eqn:E1.
  - apply span1_some in E1 as (-> & Hd1 & Hn1).
    destruct r1 as [|c r2]; [discriminate|].
    destruct (N.eqb_spec c 45) as [->|Hc]; [|not_char c Hc].
    destruct (span1 r2) as [[d2 r3]|] eqn:E2; [|discriminate].
    apply span1_some in E2 as (-> & Hd2 & Hn2).
    destruct (match_cr_len r3) as [lg|] eqn:E3; [|discriminate].
    injection H as <- <-. apply match_cr_len_some in E3 as (Hl & t & ->).
    split; [split; auto|]. exists t. unfold groups_text, se_text.
    repeat (rewrite <- app_assoc; cbn [app]). reflexivity.
  - destruct r0 as [|c r1]; [discriminate|].
    destruct (N.eqb_spec c 42) as [->|Hc]; [|not_char c Hc].
    destruct (match_cr_len r1) as [lg|] eqn:E3; [|discriminate].
    injection H as <- <-. apply match_cr_len_some in E3 as (Hl & t & ->).
    split; [split; [exact I | exact Hl]|]. exists t. unfold groups_text, se_text.
    repeat (rewrite <- app_assoc; cbn [app]). reflexivity.
Qed.

(* ---------------------------------------------------------------- a prefix in the language => scanner success *)
Lemma span1_app_some : forall d t, digits d -> d <> [] -> span1 (d ++ t) <> None.
Proof.
  intros [|c d] t H Hn; [contradiction|]. inversion H as [|? ? Hc _]; subst.
  unfold span1. cbn [app span]. rewrite Hc. destruct (span is_digit (d ++ t)). cbn [is_nil]. discriminate.
Qed.

Lemma match_cr_len_complete : forall l t,
  match l with Some d => digits d /\ d <> [] | None => True end ->
  match_cr_len (47 :: lg_text l ++ t) <> None.
Proof.
  intros [d|] t Hl; cbn [lg_text match_cr_len].
  - destruct Hl as [Hd Hn]. pose proof (span1_app_some d t Hd Hn) as Hs.
    destruct (span1 (d ++ t)) as [[a b]|]; [discriminate | contradiction].
  - change (span1 ([42] ++ t)) with (@None (str * str)). cbn [app]. discriminate.
Qed.

Theorem scan_complete : forall p t, matches cr_rx_spec p -> match_content_range (p ++ t) <> None.
Proof.
  intros p t H. apply inv_groups in H as (se & l & [Hse Hl] & ->).
  unfold groups_text, match_content_range. rewrite <- app_assoc, cs_prefix_bytes.
  pose proof (match_cr_len_complete l t Hl) as Hc.
  destruct se as [[d1 d2]|]; cbn [se_text].
  - destruct Hse as (H1 & N1 & H2 & N2).
    repeat (rewrite <- app_assoc; cbn [app]).
    rewrite (span1_digits d1 45 _ H1 N1 eq_refl).
    rewrite (span1_digits d2 47 _ H2 N2 eq_refl).
    destruct (match_cr_len (47 :: lg_text l ++ t)); [discriminate | contradiction].
  - cbn [app].
    change (span1 (42 :: 47 :: lg_text l ++ t)) with (@None (str * str)).
    cbv beta iota. destruct (match_cr_len (47 :: lg_text l ++ t)); [discriminate | contradiction].
Qed.

(* `_rx_content_range.match(h)` succeeds  <->  the scanner does; stated for the REGENERATED pattern *)
Theorem scan_iff_rx : forall h,
  match_content_range h <> None <-> exists p t, h = p ++ t /\ matches cr_rx p.
Proof.
  intros h. rewrite (proj1 gen_rx_is_spec). split.
  - intros H. destruct (match_content_range h) as [[se l]|] eqn:E; [|contradiction].
    apply scan_spells in E as (Hok & t & ->). exists (groups_text se l), t.
    split; [reflexivity | apply groups_match, Hok].
  - intros (p & t & -> & Hm). apply scan_complete, Hm.
Qed.

Theorem scan_groups_rx : forall h se l, match_content_range h = Some (se, l) ->
  exists t, h = groups_text se l ++ t /\ matches cr_rx (groups_text se l).
Proof.
  intros h se l H. rewrite (proj1 gen_rx_is_spec). apply scan_spells in H as (Hok & t & ->).
  exists t. split; [reflexivity | apply groups_match, Hok].
Qed.
