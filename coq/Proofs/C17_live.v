(* C17 — the positive direction: a regular file inside the root, requested by its plain
   relative path, IS handed to FileApp (so "403 for everything" is not a model of the code).
   Needs: normpath is the identity on "/" ++ join "/" (proper names). *)
From Coq Require Import ZArith NArith List Bool Lia.
Require Import Webob.Lib.Val Webob.Lib.PyStr Webob.Model.C17_path Webob.Model.C17_static Webob.Spec.C17_spec
               Webob.Proofs.C17_path Webob.Proofs.C17_dirapp.
Import ListNotations.
Local Open Scope N_scope.

Lemma proper_parts : forall c, proper c = true ->
  is_empty c = false /\ is_dot c = false /\ is_dotdot c = false /\ mem_n SEP c = false.
Proof.
  intros c H. unfold proper in H. repeat (apply andb_true_iff in H; destruct H as [H ?]).
  repeat split; apply negb_true_iff; assumption.
Qed.

Lemma proper_head : forall c, proper c = true -> exists x c', c = x :: c' /\ (x =? SEP) = false.
Proof.
  intros c H. destruct (proper_parts _ H) as [H1 [_ [_ H4]]].
  destruct c as [|x c']; [discriminate|]. exists x, c'. split; auto.
  cbn in H4. apply orb_false_iff in H4. apply H4.
Qed.

Lemma join_cons2 : forall x y l, join [SEP] (x :: y :: l) = x ++ SEP :: join [SEP] (y :: l).
Proof. reflexivity. Qed.

Lemma join_app : forall a b, a <> [] -> b <> [] ->
  join [SEP] (a ++ b) = join [SEP] a ++ SEP :: join [SEP] b.
Proof.
  induction a as [|x a IH]; intros b Ha Hb; [contradiction|].
  destruct a as [|y a'].
  - destruct b as [|z b']; [contradiction|]. reflexivity.
  - change ((x :: y :: a') ++ b) with (x :: y :: (a' ++ b)).
    rewrite join_cons2. change (y :: a' ++ b) with ((y :: a') ++ b).
    rewrite IH by (auto; discriminate). rewrite join_cons2, <- app_assoc. reflexivity.
Qed.

Lemma split_join : forall cs, cs <> [] -> Forall (fun c => proper c = true) cs ->
  split_c SEP (join [SEP] cs) = cs.
Proof.
  induction cs as [|x cs IH]; intros Hne H; [contradiction|].
  inversion H as [|? ? Hx Hcs]; subst.
  destruct (proper_parts _ Hx) as [_ [_ [_ Hs]]].
  destruct cs as [|y cs'].
  - cbn [join]. apply split_c_nosep. exact Hs.
  - rewrite join_cons2, split_c_app_sep, (split_c_nosep _ Hs), IH by (auto; discriminate). reflexivity.
Qed.

Lemma norm_loop_proper : forall cs stack, Forall (fun c => proper c = true) cs ->
  norm_loop true cs stack = rev stack ++ cs.
Proof.
  induction cs as [|c cs IH]; intros stack H; cbn [norm_loop].
  - symmetry. apply app_nil_r.
  - inversion H as [|? ? Hc Hcs]; subst.
    destruct (proper_parts _ Hc) as [H1 [H2 [H3 _]]]. rewrite H1, H2, H3. cbn [orb negb].
    rewrite IH by auto. cbn [rev]. rewrite <- app_assoc. reflexivity.
Qed.

Lemma join_proper_head : forall cs, cs <> [] -> Forall (fun c => proper c = true) cs ->
  exists x r, join [SEP] cs = x :: r /\ (x =? SEP) = false.
Proof.
  intros [|c cs] Hne H; [contradiction|]. inversion H as [|? ? Hc _]; subst.
  destruct (proper_head _ Hc) as [x [c' [-> Hx]]].
  destruct cs as [|y cs'].
  - exists x, c'. auto.
  - rewrite join_cons2. exists x, (c' ++ SEP :: join [SEP] (y :: cs')). auto.
Qed.

(* normpath is the identity on normal absolute paths *)
Lemma normpath_normal : forall cs, cs <> [] -> Forall (fun c => proper c = true) cs ->
  normpath (SEP :: join [SEP] cs) = SEP :: join [SEP] cs.
Proof.
  intros cs Hne H. destruct (join_proper_head cs Hne H) as [x [r [Ej Hx]]].
  unfold normpath.
  assert (Hk : initial_slashes (SEP :: join [SEP] cs) = 1%nat).
  { rewrite Ej. destruct r as [|y r']; cbn; rewrite Hx; reflexivity. }
  rewrite Hk. cbn [Nat.eqb negb repeat app].
  change (SEP :: join [SEP] cs) with ([] ++ SEP :: join [SEP] cs) at 1.
  rewrite split_c_app_sep, (split_join _ Hne H). cbn [split_c app norm_loop is_empty orb].
  rewrite (norm_loop_proper _ _ H). reflexivity.
Qed.

Lemma lstrip_sep_cons : forall x, lstrip_sep (SEP :: x) = lstrip_sep x.
Proof. reflexivity. Qed.

Lemma lstrip_sep_head : forall x r, (x =? SEP) = false -> lstrip_sep (x :: r) = x :: r.
Proof. intros x r H. unfold lstrip_sep, is_sep. cbn. rewrite H. reflexivity. Qed.

(* every regular file inside the root, requested by its plain relative path, is served
   (index pages hidden by a redirect excepted: hide = false or no index page) *)
Theorem serves_plain_file : forall rootc ns idx hide fs purl qs,
  rootc <> [] -> ns <> [] ->
  Forall (fun c => proper c = true) rootc -> Forall (fun c => proper c = true) ns ->
  (hide = false \/ idx_truthy idx = false) ->
  let root := SEP :: join [SEP] rootc ++ [SEP] in
  let p := root ++ join [SEP] ns in
  isfile fs p = true ->
  dirapp_call root idx hide fs (mkDreq (SEP :: join [SEP] ns) purl qs) = DServe p.
Proof.
  intros rootc ns idx hide fs purl qs Hr Hn Hpr Hpn Hh root p Hf.
  destruct (join_proper_head ns Hn Hpn) as [x [r [Ej Hx]]].
  assert (Hall : Forall (fun c => proper c = true) (rootc ++ ns)) by (apply Forall_app; auto).
  assert (Hne : rootc ++ ns <> []) by (destruct rootc; [contradiction|discriminate]).
  assert (Hp : p = SEP :: join [SEP] (rootc ++ ns)).
  { unfold p, root. rewrite (join_app _ _ Hr Hn). cbn [app]. rewrite <- app_assoc. reflexivity. }
  assert (Hpath : req_path root (mkDreq (SEP :: join [SEP] ns) purl qs) = p).
  { unfold req_path. cbn [path_info]. rewrite lstrip_sep_cons, Ej, (lstrip_sep_head _ _ Hx), <- Ej.
    assert (Hj : pjoin root (join [SEP] ns) = p).
    { unfold pjoin. rewrite Ej. cbn [isabs]. rewrite Hx, <- Ej.
      unfold root at 1. cbn [app]. fold root.
      replace (ends_with_sep root) with true; [reflexivity|].
      symmetry. unfold root. change (SEP :: join [SEP] rootc ++ [SEP]) with ((SEP :: join [SEP] rootc) ++ [SEP]).
      apply ends_with_sep_app. }
    rewrite Hj, abspath_of_abs by (rewrite Hp; reflexivity).
    rewrite Hp. apply normpath_normal; auto. }
  unfold dirapp_call. fold (req_path root (mkDreq (SEP :: join [SEP] ns) purl qs)). rewrite Hpath.
  assert (H0 : starts_with root (p ++ [SEP]) = true).
  { unfold p. rewrite <- app_assoc. apply starts_with_app_intro. }
  assert (H1 : starts_with root p = true) by (unfold p; apply starts_with_app_intro).
  rewrite H0, H1, Hf. cbn [negb].
  assert (Hd : isdir fs p = false).
  { unfold isdir, isfile in *. destruct (fs p); auto; discriminate. }
  rewrite Hd. cbn [andb].
  destruct Hh as [-> | Hi].
  - rewrite andb_false_r. reflexivity.
  - rewrite Hi. reflexivity.
Qed.

Example serves_plain_file_hyps :
  let rootc := [[114]; [115]] in let ns := [[97]; [98; 46; 116]] in
  rootc <> [] /\ ns <> [] /\ Forall (fun c => proper c = true) rootc /\ Forall (fun c => proper c = true) ns.
Proof. cbn. repeat split; try discriminate; repeat constructor. Qed.
