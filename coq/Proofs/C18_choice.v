(* C18 — format choice, __call__ (HEAD / body-less classes / explicit body), status line, status_map. *)
From Coq Require Import NArith List Bool Lia ZifyBool ZifyNat ZifyN String Ascii.
Require Import Webob.Lib.Val Webob.Lib.PyStr Webob.Model.C18_ExcBody Webob.Spec.C18_HtmlTok
               Webob.Spec.C18_Flat Webob.Gen.C18_exctable Webob.Proofs.C18_skeleton.
Import ListNotations.
Local Open Scope N_scope.

(* ------------------------------------------------------------------ the dict entry of an offer *)
Section Entry.
Variables oty osub : str.
Let spec := specificity oty osub.

(* [e] is the entry after the ranges [pre]: nothing matched, or the FIRST range of maximal specificity *)
Definition summ (pre : list mrange) (e : option (N * N)) : Prop :=
  match e with
  | None => forall r, In r pre -> spec r = None
  | Some (q, sp) =>
    exists p1 r p2, pre = p1 ++ r :: p2 /\ spec r = Some sp /\ r_q r = q /\
      (forall r' sp', In r' p1 -> spec r' = Some sp' -> sp' < sp) /\
      (forall r' sp', In r' p2 -> spec r' = Some sp' -> sp' <= sp)
  end.

Lemma summ_step : forall pre e r, summ pre e -> summ (pre ++ [r]) (range_step oty osub e r).
Proof.
  intros pre e r H. unfold range_step. fold spec.
  destruct (spec r) as [sp|] eqn:Er.
  - destruct e as [[q0 sp0]|].
    + destruct H as [p1 [r0 [p2 [-> [H0 [Hq [H1 H2]]]]]]].
      destruct (sp <=? sp0) eqn:Ecmp.
      * exists p1, r0, (p2 ++ [r]). repeat split; auto.
        -- rewrite <- app_assoc. reflexivity.
        -- intros r' sp' Hin Hs. apply in_app_or in Hin as [Hin|[<-|[]]]; eauto.
           rewrite Er in Hs. inversion Hs; subst. lia.
      * exists (p1 ++ r0 :: p2), r, []. repeat split; auto.
        -- intros r' sp' Hin Hs. apply in_app_or in Hin as [Hin|[<-|Hin]].
           ++ specialize (H1 _ _ Hin Hs). lia.
           ++ rewrite H0 in Hs. inversion Hs; subst. lia.
           ++ specialize (H2 _ _ Hin Hs). lia.
        -- intros r' sp' [].
    + exists pre, r, []. repeat split; auto.
      * intros r' sp' Hin Hs. rewrite (H _ Hin) in Hs. discriminate.
      * intros r' sp' [].
  - destruct e as [[q0 sp0]|].
    + destruct H as [p1 [r0 [p2 [-> [H0 [Hq [H1 H2]]]]]]].
      exists p1, r0, (p2 ++ [r]). repeat split; auto.
      * rewrite <- app_assoc. reflexivity.
      * intros r' sp' Hin Hs. apply in_app_or in Hin as [Hin|[<-|[]]]; eauto.
        rewrite Er in Hs. discriminate.
    + intros r' Hin. apply in_app_or in Hin as [Hin|[<-|[]]]; auto.
Qed.

Lemma summ_fold : forall rs pre e, summ pre e -> summ (pre ++ rs) (fold_left (range_step oty osub) rs e).
Proof.
  induction rs as [|r rs IH]; intros pre e H; cbn [fold_left].
  - rewrite app_nil_r. exact H.
  - replace (pre ++ r :: rs) with ((pre ++ [r]) ++ rs) by (rewrite <- app_assoc; reflexivity).
    apply IH. apply summ_step. exact H.
Qed.

Lemma offer_entry_summ : forall rs, summ rs (offer_entry oty osub rs).
Proof. intros rs. apply (summ_fold rs [] None). intros r []. Qed.
End Entry.

(* the most specific matching range governs; among equally specific ones, the first *)
Theorem quality_governing : forall oty osub rs,
  match offer_entry oty osub rs with
  | None => (forall r, In r rs -> specificity oty osub r = None) /\ quality oty osub rs = 0
  | Some (q, sp) =>
    quality oty osub rs = q /\
    exists p1 r p2, rs = p1 ++ r :: p2 /\ specificity oty osub r = Some sp /\ r_q r = q /\
      (forall r' sp', In r' p1 -> specificity oty osub r' = Some sp' -> sp' < sp) /\
      (forall r' sp', In r' p2 -> specificity oty osub r' = Some sp' -> sp' <= sp)
  end.
Proof.
  intros oty osub rs. pose proof (offer_entry_summ oty osub rs) as H. unfold quality.
  destruct (offer_entry oty osub rs) as [[q sp]|]; cbn [summ] in H; auto.
Qed.

(* what "specificity" means for the two offers (which carry no parameters) *)
Theorem specificity_cases : forall oty osub r sp,
  specificity oty osub r = Some sp ->
  let p := split_slash (r_ts r) in
  (sp = 3 /\ fst p = oty /\ snd p = osub /\ r_params r = false) \/
  (sp = 2 /\ fst p = oty /\ snd p = A "*") \/
  (sp = 1 /\ r_ts r = A "*/*").
Proof.
  intros oty osub r sp H. unfold specificity in H. cbn zeta.
  destruct (str_eqb oty (fst (split_slash (r_ts r))) && str_eqb osub (snd (split_slash (r_ts r)))) eqn:E1.
  - apply andb_true_iff in E1 as [Ea Eb]. apply str_eqb_eq in Ea, Eb.
    destruct (r_params r); cbn [negb] in H; [discriminate|]. inversion H. left; auto.
  - destruct (str_eqb (snd (split_slash (r_ts r))) (A "*") && str_eqb oty (fst (split_slash (r_ts r)))) eqn:E2.
    + apply andb_true_iff in E2 as [Ea Eb]. apply str_eqb_eq in Ea, Eb. inversion H. right; left; auto.
    + destruct (str_eqb (r_ts r) (A "*/*")) eqn:E3; [|discriminate].
      apply str_eqb_eq in E3. inversion H. right; right; auto.
Qed.

(* ------------------------------------------------------------------ the choice *)

Theorem format_choice : forall rs,
  (choose (AValid rs) = FHtml <-> 0 < q_html rs /\ q_json rs <= q_html rs) /\
  (choose (AValid rs) = FJson <-> 0 < q_json rs /\ q_html rs < q_json rs) /\
  (choose (AValid rs) = FPlain <-> q_html rs = 0 /\ q_json rs = 0).
Proof.
  intros rs. unfold choose, acceptable, q_html, q_json, quality.
  destruct (offer_entry (A "text") (A "html") rs) as [[qh sh]|];
  destruct (offer_entry (A "application") (A "json") rs) as [[qj sj]|].
  - destruct (qh =? 0) eqn:Eh; destruct (qj =? 0) eqn:Ej;
      cbn [app sort_desc fold_left insert_desc before].
    + repeat split; intros; try discriminate; try lia.
    + repeat split; intros; try discriminate; try lia.
    + repeat split; intros; try discriminate; try lia.
    + change (0 <? 1) with true. change (1 <? 0) with false.
      destruct (qj <? qh) eqn:E1; destruct (qh =? qj) eqn:E2; destruct (qh <? qj) eqn:E3;
        destruct (qj =? qh) eqn:E4; try lia;
        cbn [orb andb negb]; repeat split; intros; try discriminate; try lia.
  - destruct (qh =? 0) eqn:Eh; cbn [app sort_desc fold_left insert_desc before];
      repeat split; intros; try discriminate; try lia.
  - destruct (qj =? 0) eqn:Ej; cbn [app sort_desc fold_left insert_desc before];
      repeat split; intros; try discriminate; try lia.
  - cbn [app sort_desc fold_left]. repeat split; intros; try discriminate; try lia.
Qed.

Lemma generate_ctype : forall cfg cl i a,
  rs_ctype (generate cfg cl i a) = Some (ctype_of (choose a)) /\
  rs_status (generate cfg cl i a) = status_of cl.
Proof. intros. unfold generate. destruct (choose a); split; reflexivity. Qed.

Lemma generate_body : forall cfg cl i a,
  rs_body (generate cfg cl i a) =
  match choose a with
  | FHtml => option_map utf8 (html_body cfg cl i)
  | FJson => Some (utf8 (json_dumps [(A "message", make_body no_escape cl i);
                                     (A "code", status_of cl); (A "title", c_title cl)]))
  | FPlain => option_map utf8 (plain_body cfg cl i)
  end.
Proof. intros. unfold generate. destruct (choose a); reflexivity. Qed.

(* ------------------------------------------------------------------ __call__ *)
Lemma call_head : forall cfg cl i a ex, rs_body (call cfg cl i a true ex) = Some [].
Proof.
  intros. unfold call. rewrite orb_true_r. reflexivity.
Qed.

Lemma call_bodyless : forall cfg cl i a hd ex, c_empty cl = true -> (ex = None \/ ex = Some []) ->
  rs_body (call cfg cl i a hd ex) = Some [].
Proof.
  intros cfg cl i a hd ex H [-> | ->]; unfold call; rewrite H; cbn [orb rs_body]; destruct hd; reflexivity.
Qed.

Lemma call_explicit : forall cfg cl i a b, rs_body (call cfg cl i a false (Some b)) = Some b.
Proof. intros. unfold call. reflexivity. Qed.

Lemma call_generated : forall cfg cl i a,
  c_empty cl = false -> call cfg cl i a false None = generate cfg cl i a.
Proof. intros cfg cl i a H. unfold call. rewrite H. reflexivity. Qed.

Lemma call_status : forall cfg cl i a hd ex,
  rs_status (call cfg cl i a hd ex) = dec (c_code cl) ++ 32 :: c_title cl.
Proof.
  intros. unfold call.
  destruct (match ex with Some _ => true | None => false end || c_empty cl || hd); [reflexivity|].
  apply generate_ctype.
Qed.

(* ------------------------------------------------------------------ sweeps over the regenerated class table *)
Definition n_in (k : N) (l : list N) : bool := existsb (N.eqb k) l.

Definition bodyless_check (cl : excls) : bool := Bool.eqb (c_empty cl) (n_in (c_code cl) [204; 205; 304]).

Lemma bodyless_sweep : forallb bodyless_check classes = true.
Proof. vm_compute. reflexivity. Qed.

Lemma bodyless_classes : forall cl, In cl classes ->
  (c_empty cl = true <-> c_code cl = 204 \/ c_code cl = 205 \/ c_code cl = 304).
Proof.
  intros cl Hin. pose proof bodyless_sweep as H. rewrite forallb_forall in H. specialize (H cl Hin).
  unfold bodyless_check in H. apply Bool.eqb_prop in H. rewrite H. unfold n_in. cbn [existsb]. lia.
Qed.

Lemma wf_sweep : forallb (fun cl => wf_html cfg cl true && wf_html cfg cl false) classes = true.
Proof. vm_compute. reflexivity. Qed.

Lemma classes_wf : forall cl sh, In cl classes -> wf_html cfg cl sh = true.
Proof.
  intros cl sh Hin. pose proof wf_sweep as H. rewrite forallb_forall in H. specialize (H cl Hin).
  apply andb_true_iff in H as [H1 H2]. destruct sh; auto.
Qed.

Lemma status_map_built : build_status_map classes = status_map_live.
Proof. vm_compute. reflexivity. Qed.

Definition sm_class_check (cl : excls) : bool :=
  if in_status_map cl
  then match map_get (c_code cl) status_map_live with Some nm => str_eqb nm (c_name cl) | None => false end
  else true.
Definition sm_entry_check (e : N * str) : bool :=
  existsb (fun cl => str_eqb (c_name cl) (snd e) && (c_code cl =? fst e) && in_status_map cl) classes.

Lemma sm_sweep : forallb sm_class_check classes = true /\ forallb sm_entry_check status_map_live = true.
Proof. split; vm_compute; reflexivity. Qed.

Lemma status_map_classes : forall cl, In cl classes -> in_status_map cl = true ->
  map_get (c_code cl) status_map_live = Some (c_name cl).
Proof.
  intros cl Hin Hs. destruct sm_sweep as [H _]. rewrite forallb_forall in H. specialize (H cl Hin).
  unfold sm_class_check in H. rewrite Hs in H.
  destruct (map_get (c_code cl) status_map_live) as [nm|]; [|discriminate].
  apply str_eqb_eq in H. subst; reflexivity.
Qed.

Lemma status_map_entries : forall k nm, In (k, nm) status_map_live ->
  exists cl, In cl classes /\ c_name cl = nm /\ c_code cl = k /\ in_status_map cl = true.
Proof.
  intros k nm Hin. destruct sm_sweep as [_ H]. rewrite forallb_forall in H. specialize (H _ Hin).
  unfold sm_entry_check in H. apply existsb_exists in H as [cl [Hc H]].
  apply andb_true_iff in H as [H H3]. apply andb_true_iff in H as [H1 H2].
  apply str_eqb_eq in H1. apply N.eqb_eq in H2. exists cl; auto.
Qed.

(* two classes that both belong in status_map never share a code *)
Lemma status_map_codes_unique : forall c1 c2, In c1 classes -> In c2 classes ->
  in_status_map c1 = true -> in_status_map c2 = true -> c_code c1 = c_code c2 -> c_name c1 = c_name c2.
Proof.
  intros c1 c2 H1 H2 S1 S2 E.
  pose proof (status_map_classes c1 H1 S1) as A1. pose proof (status_map_classes c2 H2 S2) as A2.
  rewrite E in A1. rewrite A1 in A2. inversion A2; reflexivity.
Qed.
