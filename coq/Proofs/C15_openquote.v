(* C15 — witnesses OUTSIDE the class of well-formed headers: a pre-existing Cookie header that ends inside a quoted
   string (an odd number of unescaped double quotes) or inside a backslash escape.  The faithful model of
   RequestCookies._mutate_header appends  "; name=value"  to such a header; the scanner then reads the appended text as
   part of the open value.  Computed on the model (Model/C15_Scan.v, Model/C15_CookieJar.v); replayed on the
   implementation by harness/props/c15.py (class 'Q', key request-jar:unbalanced-quote-in-existing-header). *)
From Coq Require Import String.
From Coq Require Import ZArith NArith List Bool.
Require Import Webob.Lib.Val Webob.Lib.PyStr Webob.Lib.C15_Utf8 Webob.Gen.C15_tables Webob.Model.C15_Scan
               Webob.Model.C15_CookieJar Webob.Spec.C15_JarSpec Webob.Proofs.C15_request.
Import ListNotations.
Local Open Scope N_scope.

(* header  x=Q  (Q the double quote), then  cookies[A] = "a b" *)
Definition oq_header : str := H "783d22"%string.
Definition oq_ops : list rop := [RSet (Some (H "41"%string)) (Some (H "612062"%string))].

Lemma open_quote_witness :
  forallb (op_ok utf8_encode) oq_ops = true /\
  cookie_pairs (Some oq_header) = [(H "78"%string, [])] /\
  rrun utf8_encode oq_ops (Some oq_header) = Some (H "783d223b20413d2261206222"%string) /\   (* x=Q; A=Qa bQ *)
  cookie_pairs (rrun utf8_encode oq_ops (Some oq_header)) = [(H "78"%string, H "3b20413d"%string)] /\   (* x -> "; A=" *)
  has_key (H "41"%string) (cookie_pairs (rrun utf8_encode oq_ops (Some oq_header))) = false /\
  ref_rrun utf8_encode oq_ops (cookie_pairs (Some oq_header)) = [(H "78"%string, []); (H "41"%string, H "612062"%string)] /\
  request_cookies utf8_decode (rrun utf8_encode oq_ops (Some oq_header)) = Ok [(H "78"%string, H "3b20413d"%string)].
Proof. vm_compute. repeat split; reflexivity. Qed.

Lemma open_quote_refutes :
  exists st ops, forallb (op_ok utf8_encode) ops = true /\
    cookie_pairs (rrun utf8_encode ops st) <> ref_rrun utf8_encode ops (cookie_pairs st) /\
    (exists k v, ops = [RSet (Some k) (Some v)] /\ has_key k (cookie_pairs (rrun utf8_encode ops st)) = false) /\
    (exists k, has_key k (cookie_pairs st) = true /\
               lookup k (cookie_pairs (rrun utf8_encode ops st)) <> lookup k (cookie_pairs st) /\
               lookup k (ref_rrun utf8_encode ops (cookie_pairs st)) = lookup k (cookie_pairs st)).
Proof.
  exists (Some oq_header), oq_ops.
  split; [vm_compute; reflexivity|].
  split; [vm_compute; discriminate|].
  split.
  - exists (H "41"%string), (H "612062"%string). split; vm_compute; reflexivity.
  - exists (H "78"%string). split; [vm_compute; reflexivity|]. split; [vm_compute; discriminate|vm_compute; reflexivity].
Qed.

(* header  x=\  (a dangling backslash), then  cookies[A] = 1 : the appended ';' completes the escape and the untouched
   x, which read as the empty string, now reads as ";" *)
Definition de_header : str := H "783d5c"%string.
Definition de_ops : list rop := [RSet (Some (H "41"%string)) (Some (H "31"%string))].

Lemma dangling_escape_witness :
  forallb (op_ok utf8_encode) de_ops = true /\
  cookie_pairs (Some de_header) = [(H "78"%string, [])] /\
  rrun utf8_encode de_ops (Some de_header) = Some (H "783d5c3b20413d31"%string) /\          (* x=\; A=1 *)
  cookie_pairs (rrun utf8_encode de_ops (Some de_header)) = [(H "78"%string, H "3b"%string); (H "41"%string, H "31"%string)] /\
  ref_rrun utf8_encode de_ops (cookie_pairs (Some de_header)) = [(H "78"%string, []); (H "41"%string, H "31"%string)].
Proof. vm_compute. repeat split; reflexivity. Qed.
