(* C19 — Accept:
     * for the element list p of ANY valid header: str p is valid, parses back to p (fixed point);
     * parsing distributes over ", " for "comma-stable" texts — a class that contains every canonical text
       (str of a header object), every decorated rendering of C03 (Proofs/C03_accept_scan.v), and is closed
       under ", "-joining; with it the generic `+` theorems apply to Accept. *)
From Coq Require Import ZArith NArith List Bool Lia ZifyBool ZifyN.
Require Import Webob.Lib.Val Webob.Lib.PyStr Webob.Lib.Rx Webob.Gen.C03_regexes Webob.Spec.C03_abnf
               Webob.Proofs.C03_lang Webob.Model.C03_scan Webob.Proofs.C03_scan Webob.Proofs.C03_accept_scan
               Webob.Proofs.C03_accept_complete
               Webob.Model.C19_acceptstr Webob.Spec.C19_spec Webob.Proofs.C19_quote Webob.Proofs.C19_local Webob.Proofs.C19_valid
               Webob.Proofs.C19_simple Webob.Proofs.C19_accept_scan Webob.Proofs.C19_add.
Import ListNotations.
Local Open Scope N_scope.

(* ---------- the canonical text of a list of well-formed elements scans back to the list ---------- *)
Lemma str_accept_cons e p :
  str_accept (e :: p) = accept_el_text e ++ match p with [] => [] | _ => comma_sp ++ str_accept p end.
Proof. unfold str_accept. destruct p as [|e2 p']; [cbn; rewrite app_nil_r; reflexivity|reflexivity]. Qed.

Theorem scanA_canon : forall p R, Forall wf_el p -> rest_ok R -> scanA (str_accept p ++ R) = p ++ scanA R.
Proof.
  induction p as [|e p IH]; intros R Hp HR; [reflexivity|].
  inversion Hp as [|? ? He Hp']; subst. rewrite str_accept_cons. destruct p as [|e2 p'].
  - rewrite app_nil_r. rewrite (scanA_hit _ e R); [reflexivity|]. apply take_el_canon; assumption.
  - rewrite <- app_assoc. unfold comma_sp at 1. cbn [app].
    rewrite (scanA_hit _ e (44 :: 32 :: str_accept (e2 :: p') ++ R)).
    + rewrite scanA_comma, scanA_space. rewrite IH by assumption. reflexivity.
    + apply take_el_canon; [exact He|right; eauto].
Qed.

(* ---------- comma-stable texts ---------- *)
(* continuations after a comma that cannot be mistaken for parameters of the previous element:
   the first character that is not a comma / blank is not ';' *)
(* cont_ok, ok_accept : Spec/C19_spec.v *)
Lemma cont_ok_cons c t : cont_ok (c :: t) = if is_junk c then cont_ok t else negb (c =? 59).
Proof. reflexivity. Qed.

Lemma cont_ok_app a t : cont_ok a = true -> cont_ok t = true -> cont_ok (a ++ t) = true.
Proof.
  induction a as [|c a IH]; intros Ha Ht; [exact Ht|]. cbn [app] in *. rewrite cont_ok_cons in *.
  destruct (is_junk c); [apply IH; assumption|exact Ha].
Qed.

Theorem ok_join a b : ok_accept a -> ok_accept b ->
  ok_accept (a ++ comma_sp ++ b) /\ scanA (a ++ comma_sp ++ b) = scanA a ++ scanA b.
Proof.
  intros [Ca Sa] [Cb Sb]. unfold comma_sp. cbn [app].
  assert (E1 : scanA (a ++ 44 :: 32 :: b) = scanA a ++ scanA b).
  { rewrite Sa by exact Cb. rewrite scanA_space. reflexivity. }
  split; [|exact E1]. split.
  - apply cont_ok_app; [exact Ca|exact Cb].
  - intros t Ht. rewrite E1. rewrite <- app_assoc. cbn [app]. rewrite Sa.
    + rewrite scanA_space. rewrite Sb by exact Ht. rewrite app_assoc. reflexivity.
    + rewrite cont_ok_cons. change (is_junk 32) with true. cbv iota. apply cont_ok_app; [exact Cb|exact Ht].
Qed.

Lemma tchar_cont c s : is_tchar c = true -> cont_ok (c :: s) = true.
Proof.
  intros H. rewrite cont_ok_cons. assert (is_junk c = false) as -> by (unfold is_tchar, is_junk in *; cbn [in_ranges] in H; lia).
  unfold is_tchar in H. cbn [in_ranges] in H. lia.
Qed.

Lemma wf_el_text_head e : wf_el e -> exists c s, accept_el_text e = c :: s /\ is_tchar c = true.
Proof.
  intros (ty & sub & Hty & _ & Hmr & _ & _ & Hq). rewrite accept_el_text_eq by exact Hq. rewrite Hmr, form_media_range_eq.
  destruct (token_head ty Hty) as (c & ty' & -> & Hc).
  destruct ((el_q e =? 1000) && is_nil (form_ext_segment (el_exts e))); cbn [app]; eauto.
Qed.

Theorem ok_canonical p : Forall wf_el p -> ok_accept (str_accept p) /\ scanA (str_accept p) = p.
Proof.
  intros Hp.
  assert (E : scanA (str_accept p) = p).
  { rewrite <- (app_nil_r (str_accept p)). rewrite scanA_canon; [apply app_nil_r|exact Hp|left; reflexivity]. }
  split; [|exact E]. split.
  - destruct p as [|e p']; [reflexivity|]. inversion Hp as [|? ? He _]; subst. rewrite str_accept_cons.
    destruct (wf_el_text_head e He) as (c & s & -> & Hc). cbn [app]. apply tchar_cont, Hc.
  - intros t Ht. rewrite scanA_canon; [|exact Hp|right; eauto]. rewrite scanA_comma, E. reflexivity.
Qed.

(* ---------- every decorated rendering of C03 is comma-stable ---------- *)
Lemma scanA_junk j s : all_junk j -> scanA (j ++ s) = scanA s.
Proof.
  induction 1 as [|c j Hc Hj IH]; [reflexivity|]. cbn [app]. rewrite scanA_miss; [exact IH|].
  apply take_accept_el_junk, Hc.
Qed.

Lemma cont_split t : cont_ok t = true -> exists jt tail, t = jt ++ tail /\ all_junk jt /\ head_ok tail.
Proof.
  induction t as [|c t IH]; intros H; [exists [], []; repeat split; constructor|].
  rewrite cont_ok_cons in H. destruct (is_junk c) eqn:Ej.
  - destruct (IH H) as (jt & tail & -> & Hj & Ht). exists (c :: jt), tail. repeat split; [constructor; assumption|exact Ht].
  - exists [], (c :: t). split; [reflexivity|]. split; [constructor|]. cbn. unfold is_stop. rewrite Ej.
    apply negb_true_iff in H. rewrite H. reflexivity.
Qed.

Definition tail_ok (T : str) : Prop := T = [] \/ exists t, T = 44 :: t /\ cont_ok t = true.

Lemma follows_tail j T : all_junk j -> tail_ok T -> follows (j ++ T).
Proof.
  intros Hj [->|(t & -> & Ht)].
  - rewrite app_nil_r. destruct j as [|c j]; [constructor|]. rewrite <- (app_nil_r (c :: j)).
    apply F_junk; [discriminate|exact Hj|exact I].
  - destruct (cont_split t Ht) as (jt & tail & -> & Hjt & Htail).
    replace (j ++ 44 :: jt ++ tail) with ((j ++ 44 :: jt) ++ tail) by (rewrite <- app_assoc; reflexivity).
    apply F_junk; [destruct j; discriminate| |exact Htail].
    apply Forall_app. split; [exact Hj|]. constructor; [reflexivity|exact Hjt].
Qed.

Lemma scanA_tail T : tail_ok T -> scanA T = match T with [] => [] | _ :: t => scanA t end.
Proof. intros [->|(t & -> & _)]; [reflexivity|apply scanA_comma]. Qed.

Theorem scanA_render : forall els j0 T, all_junk j0 -> rels_ok els -> tail_ok T ->
  scanA (j0 ++ abody els ++ T) = map (fun ej => canon_rel (fst ej)) els ++ scanA T.
Proof.
  induction els as [|[e j] rest IH]; intros j0 T Hj0 Hels HT.
  - cbn [abody flat_map app map]. apply scanA_junk, Hj0.
  - destruct Hels as (He & Hj & Hn & Hrest). rewrite scanA_junk by exact Hj0.
    unfold abody. cbn [flat_map fst snd map]. fold (abody rest). rewrite <- !app_assoc.
    assert (Hf : follows (j ++ abody rest ++ T)).
    { destruct rest as [|[e2 j2] more].
      - cbn [abody flat_map app]. apply follows_tail; assumption.
      - apply F_junk; [apply Hn; discriminate|exact Hj|].
        unfold abody. cbn [flat_map fst snd]. rewrite <- !app_assoc. apply render_rel_head. apply Hrest. }
    rewrite (scanA_hit _ (canon_rel e) (j ++ abody rest ++ T)); [|apply take_accept_el_app; assumption].
    cbn [app]. f_equal. apply IH; assumption.
Qed.

Theorem ok_rendered j0 els : all_junk j0 -> rels_ok els ->
  ok_accept (arender j0 els) /\ scanA (arender j0 els) = map (fun ej => canon_rel (fst ej)) els.
Proof.
  intros Hj0 Hels. unfold arender.
  assert (E : scanA (j0 ++ abody els) = map (fun ej => canon_rel (fst ej)) els).
  { pose proof (scanA_render els j0 [] Hj0 Hels (or_introl eq_refl)) as H. rewrite !app_nil_r in H. exact H. }
  split; [|exact E]. split.
  - (* the first non-junk character, if any, starts an element *)
    clear E. induction Hj0 as [|c j0 Hc Hj0 IH]; cbn [app]; rewrite ?cont_ok_cons.
    + destruct els as [|[e j] rest]; [reflexivity|]. destruct Hels as (((Hn & Ht) & _) & _).
      unfold abody. cbn [flat_map fst]. unfold render_rel. destruct (r_type e) as [|c t]; [contradiction|].
      inversion Ht; subst. cbn [app]. apply tchar_cont. assumption.
    + rewrite Hc. exact IH.
  - intros t Ht. rewrite <- app_assoc.
    rewrite (scanA_render els j0 (44 :: t) Hj0 Hels); [|right; eauto]. rewrite scanA_comma, E. reflexivity.
Qed.

(* ---------- validity of the canonical text ---------- *)
Lemma star_tchar_matches s : Forall (fun c => is_tchar c = true) s -> matches (Star tchar) s.
Proof.
  induction 1 as [|d e Hd He IH]; [constructor|].
  change (d :: e) with ([d] ++ e). constructor; [|exact IH]. unfold tchar. constructor. rewrite cmem_false. exact Hd.
Qed.

Lemma tok_not_q_matches n : token_ok n -> not_q n -> matches tok_not_q n.
Proof.
  intros [Hne Ht] Hq. destruct n as [|c n']; [contradiction|]. inversion Ht as [|? ? Hc Hn']; subst.
  unfold tok_not_q. destruct (is_qQ c) eqn:Eq.
  - destruct n' as [|d n'']; [unfold not_q in Hq; congruence|]. inversion Hn' as [|? ? Hd Hn'']; subst.
    apply MAltR. cbn [cats]. change (c :: d :: n'') with ([c] ++ [d] ++ n'').
    apply matches_cat; [constructor; rewrite cmem_false; unfold is_qQ in Eq; cbn [in_ranges]; lia|].
    apply matches_cat; [constructor; rewrite cmem_false; exact Hd|apply star_tchar_matches, Hn''].
  - apply MAltL. change (c :: n') with ([c] ++ n'). apply matches_cat; [|apply star_tchar_matches, Hn'].
    unfold tchar_noq. constructor. rewrite cmem_false. unfold is_qQ in Eq. unfold is_tchar in Hc.
    cbn [in_ranges] in *. lia.
Qed.

Lemma ptext_matches ps : Forall param_ok ps -> matches (Star (cats [OWS; ch 59; OWS; parameter])) (ptext ps).
Proof.
  induction 1 as [|[n v] ps (Hn & Hq & Hv) Hps IH]; [constructor|]. cbn [fst snd] in *.
  unfold ptext. cbn [flat_map fst snd]. fold (ptext ps). constructor; [|exact IH]. cbn [cats].
  change (59 :: n ++ 61 :: escape_and_quote v) with ([] ++ [59] ++ [] ++ n ++ [61] ++ escape_and_quote v).
  apply matches_cat; [apply matches_ows_nil|]. apply matches_cat; [apply matches_ch|].
  apply matches_cat; [apply matches_ows_nil|]. unfold parameter. cbn [cats].
  apply matches_cat; [apply tok_not_q_matches; assumption|].
  apply matches_cat; [apply matches_ch|apply quote_in_grammar, Hv].
Qed.

Lemma ext_seg_matches xs : Forall ext_ok xs -> matches (Star accept_ext) (form_ext_segment xs).
Proof.
  induction 1 as [|[n ov] xs (Hn & Hv) Hxs IH]; [constructor|]. cbn [fst snd] in *.
  rewrite ext_seg_cons. change (59 :: ?x ++ ?y) with ((59 :: x) ++ y). constructor; [|exact IH].
  unfold accept_ext. cbn [cats]. destruct ov as [v|].
  - change (59 :: n ++ 61 :: escape_and_quote v) with ([] ++ [59] ++ [] ++ n ++ ([61] ++ escape_and_quote v)).
    apply matches_cat; [apply matches_ows_nil|]. apply matches_cat; [apply matches_ch|].
    apply matches_cat; [apply matches_ows_nil|]. apply matches_cat; [apply matches_plus_tchar, Hn|].
    apply MAltR. apply matches_cat; [apply matches_ch|apply quote_in_grammar, Hv].
  - replace (59 :: n) with ([] ++ [59] ++ [] ++ n ++ []) by (rewrite app_nil_r; reflexivity).
    apply matches_cat; [apply matches_ows_nil|]. apply matches_cat; [apply matches_ch|].
    apply matches_cat; [apply matches_ows_nil|]. apply matches_cat; [apply matches_plus_tchar, Hn|].
    apply MAltL. constructor.
Qed.

Lemma wq_weight_matches q : q <= 1000 -> matches weight (semi_q_eq ++ wq q).
Proof.
  intros H. unfold wq. destruct (q =? 1000) eqn:E; [|apply weight_matches; apply N.eqb_neq in E; lia].
  apply rmatch_correct. vm_compute. reflexivity.
Qed.

Lemma el_text_matches e : wf_el e -> matches el_accept (accept_el_text e).
Proof.
  intros (ty & sub & Hty & Hsub & Hmr & Hps & Hxs & Hq). rewrite accept_el_text_eq by exact Hq.
  rewrite Hmr, form_media_range_eq.
  assert (Hmrm : matches media_range_strict ((ty ++ 47 :: sub) ++ ptext (el_params e))).
  { unfold media_range_strict. apply matches_cat; [|apply ptext_matches, Hps].
    apply MAltR. apply MAltR. cbn [cats]. change (47 :: sub) with ([47] ++ sub).
    apply matches_cat; [apply matches_plus_tchar, Hty|]. apply matches_cat; [apply matches_ch|apply matches_plus_tchar, Hsub]. }
  unfold el_accept. destruct ((el_q e =? 1000) && is_nil (form_ext_segment (el_exts e))).
  - rewrite <- (app_nil_r (_ ++ ptext _)). apply matches_cat; [exact Hmrm|apply MAltL; constructor].
  - apply matches_cat; [exact Hmrm|]. apply MAltR. unfold accept_params. rewrite app_assoc.
    apply matches_cat; [apply wq_weight_matches, Hq|apply ext_seg_matches, Hxs].
Qed.

Theorem str_accept_valid p : Forall wf_el p -> rmatch gen_accept (str_accept p) = true.
Proof.
  intros Hp. apply (abnf_valid gen_accept abnf_accept _ accept_eq nolf_abnf_accept).
  unfold abnf_accept, str_accept. fold el_accept. apply join_hash0.
  apply Forall_forall. intros x Hx. apply in_map_iff in Hx as (e & <- & He).
  rewrite Forall_forall in Hp. apply el_text_matches, Hp, He.
Qed.

(* ---------- the statements ---------- *)
Lemma parse_accept_scanA s p : parse_accept s = Some p -> rmatch gen_accept s = true /\ p = scanA s.
Proof.
  unfold parse_accept. destruct (rmatch gen_accept s); [|discriminate]. intros E; injection E as <-. split; reflexivity.
Qed.
Lemma parse_accept_wf s p : parse_accept s = Some p -> Forall wf_el p.
Proof. intros H. apply parse_accept_scanA in H as [_ ->]. apply scanA_wf. Qed.

Theorem accept_roundtrip w p : parse_accept w = Some p ->
  rmatch gen_accept (str_accept p) = true /\ parse_accept (str_accept p) = Some p.
Proof.
  intros H. apply parse_accept_wf in H. pose proof (str_accept_valid p H) as V. split; [exact V|].
  unfold parse_accept. rewrite V. f_equal. apply ok_canonical, H.
Qed.

Theorem accept_join a b pa pb : ok_accept a -> ok_accept b ->
  f_parse fam_accept a = Some pa -> f_parse fam_accept b = Some pb -> a <> [] -> b <> [] ->
  f_parse fam_accept (a ++ comma_sp ++ b) = Some (pa ++ pb) /\ ok_accept (a ++ comma_sp ++ b).
Proof.
  cbn [f_parse fam_accept]. intros Oa Ob Ha Hb Hane Hbne.
  apply parse_accept_scanA in Ha as [Va ->]. apply parse_accept_scanA in Hb as [Vb ->].
  destruct (ok_join a b Oa Ob) as [Oj Ej]. split; [|exact Oj].
  unfold parse_accept. rewrite join_valid_accept by assumption. f_equal. exact Ej.
Qed.

Lemma accept_empty : if f_empty_ok fam_accept then f_parse fam_accept [] = Some [] else f_parse fam_accept [] = None.
Proof. unfold fam_accept; cbn [f_empty_ok f_parse]. unfold parse_accept. rewrite empty_accept. reflexivity. Qed.

Lemma accept_falsy_text (v : pyval aitem adval) : falsy v = true -> is_none v = false -> accept_value_text v = [].
Proof.
  destruct v as [|s|l|d]; try discriminate; intros H _.
  - destruct s; [reflexivity|discriminate].
  - destruct l; [reflexivity|discriminate].
  - destruct d; [reflexivity|discriminate].
Qed.

Definition accept_add_val := add_val_spec fam_accept ok_accept accept_join accept_empty accept_falsy_text.
Definition accept_add_hdr := add_hdr_spec fam_accept ok_accept accept_join accept_empty.

(* header objects whose text is canonical (the str of any header object) or any C03 rendering are well formed *)
Theorem accept_wf_canonical p : Forall wf_el p -> wf_hdr fam_accept ok_accept (Valid (str_accept p) p).
Proof.
  intros Hp. split; [|apply ok_canonical, Hp]. cbn [f_parse fam_accept]. unfold parse_accept.
  rewrite str_accept_valid by exact Hp. f_equal. apply ok_canonical, Hp.
Qed.
Theorem accept_wf_rendered j0 els : all_junk j0 -> rels_ok els -> rmatch gen_accept (arender j0 els) = true ->
  wf_hdr fam_accept ok_accept (Valid (arender j0 els) (map (fun ej => canon_rel (fst ej)) els)).
Proof.
  intros Hj Hels V. split; [|apply ok_rendered; assumption]. cbn [f_parse fam_accept]. unfold parse_accept.
  rewrite V. f_equal. apply ok_rendered; assumption.
Qed.

Theorem accept_fixpoint w p : parse_accept w = Some p ->
  exists p', parse_accept (str_accept p) = Some p' /\ str_accept p' = str_accept p.
Proof. intros H. exists p. split; [apply (accept_roundtrip w p H)|reflexivity]. Qed.

Theorem accept_canonical_stable w p : parse_accept w = Some p ->
  ok_accept (str_accept p) /\ wf_hdr fam_accept ok_accept (Valid (str_accept p) p).
Proof.
  intros H. apply parse_accept_wf in H. split; [apply ok_canonical, H|apply accept_wf_canonical, H].
Qed.

Theorem accept_rendered_stable j0 els : all_junk j0 -> rels_ok els ->
  ok_accept (arender j0 els) /\
  (rmatch gen_accept (arender j0 els) = true ->
   wf_hdr fam_accept ok_accept (Valid (arender j0 els) (map (fun ej => canon_rel (fst ej)) els))).
Proof.
  intros Hj Hels. split; [apply ok_rendered; assumption|]. intros V. apply accept_wf_rendered; assumption.
Qed.

(* ---------- every VALID Accept text is comma-stable (C03: every accepted value is a rendering) ---------- *)
Theorem valid_ok_accept w : rmatch gen_accept w = true -> ok_accept w.
Proof.
  intros V. apply (valid_abnf _ _ _ accept_eq nolf_accept) in V.
  destruct (accept_is_render w V) as (j0 & els & Hj & Hels & ->). apply ok_rendered; assumption.
Qed.
Lemma parse_ok_accept t p : parse_accept t = Some p -> ok_accept t.
Proof. intros H. apply parse_accept_scanA in H as [V _]. apply valid_ok_accept, V. Qed.

Theorem accept_join_full a b pa pb :
  parse_accept a = Some pa -> parse_accept b = Some pb -> a <> [] -> b <> [] ->
  parse_accept (a ++ comma_sp ++ b) = Some (pa ++ pb).
Proof.
  intros Ha Hb Hane Hbne.
  apply (accept_join a b pa pb (parse_ok_accept a pa Ha) (parse_ok_accept b pb Hb) Ha Hb Hane Hbne).
Qed.

Lemma wf_all_to_ok h : wf_hdr fam_accept all_ok h -> wf_hdr fam_accept ok_accept h.
Proof. destruct h as [|t|t p]; try exact (fun H => H). intros [Hp _]. split; [exact Hp|exact (parse_ok_accept t p Hp)]. Qed.
Lemma wf_ok_to_all h : wf_hdr fam_accept ok_accept h -> wf_hdr fam_accept all_ok h.
Proof. destruct h as [|t|t p]; try exact (fun H => H). intros [Hp _]. split; [exact Hp|exact I]. Qed.

Theorem accept_add_val_full self v right : wf_hdr fam_accept all_ok self ->
  exists h, add_val fam_accept self v right = Ret h /\ wf_hdr fam_accept all_ok h /\
            elements h = if right then contrib fam_accept v ++ elements self else elements self ++ contrib fam_accept v.
Proof.
  intros Hs. destruct (accept_add_val self v right (wf_all_to_ok self Hs)) as (h & E & Hw & He).
  - intros po Hpo. exact (parse_ok_accept _ po Hpo).
  - exists h. split; [exact E|]. split; [apply wf_ok_to_all, Hw|exact He].
Qed.

Theorem accept_add_hdr_full self other : wf_hdr fam_accept all_ok self -> wf_hdr fam_accept all_ok other ->
  exists h, add_hdr fam_accept self other = Ret h /\ wf_hdr fam_accept all_ok h /\ elements h = elements self ++ elements other.
Proof.
  intros Hs Ho. destruct (accept_add_hdr self other (wf_all_to_ok self Hs) (wf_all_to_ok other Ho)) as (h & E & Hw & He).
  exists h. split; [exact E|]. split; [apply wf_ok_to_all, Hw|exact He].
Qed.

Theorem accept_create_wf h : wf_hdr fam_accept all_ok (create parse_accept h).
Proof. apply (create_wf_ok fam_accept all_ok). intros; exact I. Qed.
