(* C09 — request.GET with write-back (GetDict.on_change), params, Transcoder.transcode_query. *)
From Coq Require Import NArith ZArith List Bool Lia ZifyBool ZifyNat ZifyN.
Require Import Webob.Lib.Val Webob.Lib.PyStr Webob.Lib.C09_Utf8 Webob.Model.MultiDict
               Webob.Spec.ListModel Webob.Proofs.C08_multidict
               Webob.Model.C09_QueryCodec Webob.Spec.C09_FormSpec Webob.Proofs.C09_utf8 Webob.Proofs.C09_query.
Import ListNotations.
Local Open Scope N_scope.

Definition idn (k : str) : str := k.

(* every string an operation may store is text *)
Definition op_valid (o : op) : bool :=
  match o with
  | OSet k v | OAdd k v => valid_text k && valid_text v
  | OSetDefault k d => valid_text k && match d with Some dv => valid_text dv | None => true end
  | OUpdate u | OUpdateMD u | OExtend u => valid_items u
  | _ => true
  end.

Lemma valid_app a b : valid_items (a ++ b) = valid_items a && valid_items b.
Proof. unfold valid_items. apply forallb_app. Qed.

Lemma valid_filter f l : valid_items l = true -> valid_items (filter f l) = true.
Proof.
  unfold valid_items. induction l as [|kv l IH]; [reflexivity|]. cbn [forallb filter]. intros H.
  apply andb_true_iff in H as [H1 H2]. destruct (f kv); [cbn [forallb]; rewrite H1|]; exact (IH H2).
Qed.

Lemma valid_setitem k v l : valid_items l = true -> valid_text k = true -> valid_text v = true ->
  valid_items (setitem_s idn k v l) = true.
Proof.
  intros Hl Hk Hv. unfold setitem_s, del_s. rewrite valid_app, valid_filter by exact Hl.
  cbn [valid_items forallb fst snd andb]. rewrite Hk, Hv. reflexivity.
Qed.

Lemma valid_remove_first k l : valid_items l = true -> valid_items (remove_first idn k l) = true.
Proof.
  unfold valid_items. induction l as [|kv l IH]; [reflexivity|]. cbn [forallb remove_first]. intros H.
  apply andb_true_iff in H as [H1 H2]. destruct (hit idn k kv); [exact H2|]. cbn [forallb]. rewrite H1. exact (IH H2).
Qed.

Lemma valid_removelast l : valid_items l = true -> valid_items (removelast l) = true.
Proof.
  unfold valid_items. induction l as [|kv l IH]; [reflexivity|]. cbn [forallb]. intros H.
  apply andb_true_iff in H as [H1 H2]. cbn [removelast]. destruct l as [|kv2 l]; [reflexivity|].
  cbn [forallb]. rewrite H1. exact (IH H2).
Qed.

Lemma valid_update u : forall l, valid_items l = true -> valid_items u = true ->
  valid_items (fold_left (fun l kv => setitem_s idn (fst kv) (snd kv) l) u l) = true.
Proof.
  induction u as [|[k v] u IH]; intros l Hl Hu; [exact Hl|].
  cbn [valid_items forallb fst snd] in Hu. apply andb_true_iff in Hu as [H1 H2].
  apply andb_true_iff in H1 as [Hk Hv]. cbn [fold_left fst snd].
  apply IH; [apply valid_setitem; assumption|exact H2].
Qed.

Lemma valid_in_fst l k : valid_items l = true -> In k (map fst l) -> valid_text k = true.
Proof.
  unfold valid_items. intros H Hin. apply in_map_iff in Hin as [kv [<- Hkv]].
  rewrite forallb_forall in H. specialize (H kv Hkv). apply andb_true_iff in H as [H _]. exact H.
Qed.

Lemma valid_in_snd l v : valid_items l = true -> In v (map snd l) -> valid_text v = true.
Proof.
  unfold valid_items. intros H Hin. apply in_map_iff in Hin as [kv [<- Hkv]].
  rewrite forallb_forall in H. specialize (H kv Hkv). apply andb_true_iff in H as [_ H]. exact H.
Qed.

Lemma hd_error_rev_in {A} (xs : list A) v : hd_error (rev xs) = Some v -> In v xs.
Proof.
  intros H. apply in_rev. destruct (rev xs) as [|x r]; [discriminate|]. injection H as ->. left; reflexivity.
Qed.

Lemma valid_update_md u ks : forall l, valid_items l = true -> valid_items u = true ->
  (forall k, In k ks -> valid_text k = true) ->
  valid_items (fold_left (fun l k =>
     match hd_error (rev (map snd (filter (fun kv => str_eqb (fst kv) k) u))) with
     | Some v => setitem_s idn k v l | None => l end) ks l) = true.
Proof.
  induction ks as [|k ks IH]; intros l Hl Hu Hks; [exact Hl|].
  cbn [fold_left]. apply IH; [|exact Hu|intros k' Hk'; apply Hks; right; exact Hk'].
  destruct (hd_error (rev (map snd (filter (fun kv => str_eqb (fst kv) k) u)))) as [v|] eqn:E; [|exact Hl].
  apply valid_setitem; [exact Hl|apply Hks; left; reflexivity|].
  apply hd_error_rev_in in E. apply (valid_in_snd (filter (fun kv => str_eqb (fst kv) k) u)); [|exact E].
  apply valid_filter; exact Hu.
Qed.

(* the list-model step keeps the item list text *)
Lemma step_valid l o : valid_items l = true -> op_valid o = true ->
  valid_items (fst (step_s idn l o)) = true.
Proof.
  intros Hl Ho. destruct o as [k v|k v|k|k d| |k d|u|u|u| | |]; cbn [step_s op_valid] in *.
  - apply andb_true_iff in Ho as [Hk Hv]. cbn [fst]. apply valid_setitem; assumption.
  - apply andb_true_iff in Ho as [Hk Hv]. cbn [fst]. rewrite valid_app, Hl. cbn [valid_items forallb fst snd andb]. rewrite Hk, Hv. reflexivity.
  - destruct (contains_s idn k l); cbn [fst]; [apply valid_filter|]; exact Hl.
  - destruct (getall_s idn k l); [destruct d|]; cbn [fst]; try exact Hl. apply valid_remove_first; exact Hl.
  - destruct (rev l) as [|[k v] r]; cbn [fst]; [exact Hl|apply valid_removelast; exact Hl].
  - apply andb_true_iff in Ho as [Hk Hd].
    destruct (getall_s idn k l); [destruct d as [dv|]|]; cbn [fst]; try exact Hl.
    rewrite valid_app, Hl. cbn [valid_items forallb fst snd andb]. rewrite Hk, Hd. reflexivity.
  - cbn [fst]. apply valid_update; assumption.
  - cbn [fst]. apply valid_update_md; [exact Hl|exact Ho|]. intros k Hk. exact (valid_in_fst u k Ho Hk).
  - cbn [fst]. rewrite valid_app, Hl, Ho. reflexivity.
  - cbn [fst]. rewrite valid_app, Hl. reflexivity.
  - reflexivity.
  - exact Hl.
Qed.

(* ------------------------------------------------------------------ the cache invariant of BaseRequest.GET *)
(* the cached (vars, qs) pair is consistent with itself: a fresh parse of the recorded query
   string gives the cached variables *)
Definition cache_ok (r : rq) : Prop :=
  match rq_cache r with
  | Some (l, q) => parse_utf8 q = Ok l
  | None => True
  end.

Definition rq_op_valid (o : rq_op) : bool :=
  match o with RGet o' => op_valid o' | RSetQS _ => true end.

Lemma parse_empty : parse_utf8 [] = Ok [].
Proof. reflexivity. Qed.

(* what a brand-new Request object would compute from the same QUERY_STRING *)
Definition fresh_parse (q : str) : res items := match q with [] => Ok [] | _ => parse_utf8 q end.

Lemma fresh_parse_eq q : fresh_parse q = parse_utf8 q.
Proof. destruct q; reflexivity. Qed.

Lemma get_vars_ok r : cache_ok r ->
  cache_ok (snd (get_vars r)) /\ rq_qs (snd (get_vars r)) = rq_qs r /\
  fst (get_vars r) = parse_utf8 (rq_qs r).
Proof.
  intros Hc. unfold get_vars.
  assert (Hre : let x := match (match rq_qs r with [] => Ok [] | _ => parse_utf8 (rq_qs r) end) with
                         | Ok l => (Ok l, mkRq (rq_qs r) (Some (l, rq_qs r)))
                         | e => (e, r) end in
                cache_ok (snd x) /\ rq_qs (snd x) = rq_qs r /\ fst x = parse_utf8 (rq_qs r)).
  { cbv zeta.
    assert (Hfp : match rq_qs r with [] => Ok [] | _ => parse_utf8 (rq_qs r) end = parse_utf8 (rq_qs r))
      by (destruct (rq_qs r); reflexivity).
    rewrite Hfp.
    destruct (parse_utf8 (rq_qs r)) as [l| |] eqn:E; cbn [fst snd]; repeat split; try exact Hc; try reflexivity.
    unfold cache_ok. cbn. exact E. }
  unfold cache_ok in Hc. destruct (rq_cache r) as [[vars q]|] eqn:Ec; [|exact Hre].
  destruct (str_eqb q (rq_qs r)) eqn:Eq; [|exact Hre].
  apply str_eqb_eq in Eq. subst q. cbn [fst snd]. repeat split.
  - unfold cache_ok. rewrite Ec. exact Hc.
  - symmetry. exact Hc.
Qed.

Lemma rq_step_ok r o : cache_ok r -> rq_op_valid o = true -> cache_ok (fst (rq_step r o)).
Proof.
  intros Hc Ho. destruct o as [o'|s]; cbn [rq_step].
  - destruct (get_vars_ok r Hc) as (Hc1 & Hq1 & Hf1).
    destruct (get_vars r) as [[l| |] r1] eqn:Eg; cbn [fst snd] in *; try exact Hc1.
    rewrite step_refines. destruct (step_s idn l o') as [l' ret] eqn:Es.
    change (fun k : str => k) with idn. rewrite Es.
    destruct (is_err ret || is_copy o'); cbn [fst]; [exact Hc1|].
    unfold cache_ok. cbn. apply writeback.
    replace l' with (fst (step_s idn l o')) by (rewrite Es; reflexivity).
    apply step_valid; [|exact Ho]. apply (parse_valid (rq_qs r)). symmetry. exact Hf1.
  - unfold cache_ok in *. cbn. exact Hc.
Qed.

Lemma rq_history_ok ops : forall r, cache_ok r -> forallb rq_op_valid ops = true ->
  cache_ok (fold_left (fun r o => fst (rq_step r o)) ops r).
Proof.
  induction ops as [|o ops IH]; intros r Hc Hv; [exact Hc|].
  cbn [forallb] in Hv. apply andb_true_iff in Hv as [Ho Hv]. cbn [fold_left].
  apply IH; [apply rq_step_ok; assumption|exact Hv].
Qed.

(* After ANY history of mutations through request.GET and of external assignments to QUERY_STRING,
   what request.GET shows is what a fresh parse of the current QUERY_STRING gives. *)
Theorem get_history qs0 ops : forallb rq_op_valid ops = true ->
  let r := fold_left (fun r o => fst (rq_step r o)) ops (mkRq qs0 None) in
  fst (get_vars r) = fresh_parse (rq_qs r).
Proof.
  intros Hv r. rewrite fresh_parse_eq.
  assert (Hc : cache_ok r) by (apply rq_history_ok; [exact I|exact Hv]).
  exact (proj2 (proj2 (get_vars_ok r Hc))).
Qed.

(* Every successful mutation rewrites QUERY_STRING, and the new QUERY_STRING parses afresh to the
   list model's (C08) result of that mutation. *)
Theorem get_mutation r o l : cache_ok r -> op_valid o = true ->
  fst (get_vars r) = Ok l ->
  let '(r', ret) := rq_step r (RGet o) in
  ret = snd (step_s idn l o) /\
  (is_err ret || is_copy o = false ->
     rq_qs r' = on_change (fst (step_s idn l o)) /\
     fresh_parse (rq_qs r') = Ok (fst (step_s idn l o)) /\
     fst (get_vars r') = Ok (fst (step_s idn l o))).
Proof.
  intros Hc Ho Hg. cbn [rq_step].
  destruct (get_vars_ok r Hc) as (Hc1 & Hq1 & Hf1).
  destruct (get_vars r) as [g r1] eqn:Eg. cbn [fst snd] in *. subst g.
  rewrite step_refines. change (fun k : str => k) with idn.
  destruct (step_s idn l o) as [l' ret] eqn:Es. cbn [fst snd].
  assert (Hv : valid_items l' = true).
  { replace l' with (fst (step_s idn l o)) by (rewrite Es; reflexivity).
    apply step_valid; [|exact Ho]. apply (parse_valid (rq_qs r)). symmetry. exact Hf1. }
  destruct (is_err ret || is_copy o) eqn:Ee.
  - cbv beta iota. rewrite Ee. split; [reflexivity|intros Hd; discriminate Hd].
  - cbv beta iota. split; [reflexivity|]. intros _. cbn [rq_qs]. rewrite fresh_parse_eq, (writeback l' Hv).
    repeat split. unfold get_vars. cbn [rq_cache rq_qs]. rewrite str_eqb_refl. reflexivity.
Qed.

(* ------------------------------------------------------------------ params *)
Theorem params_order get post : params_items get post = get ++ post.
Proof. unfold params_items, nested_items. cbn. rewrite app_nil_r. reflexivity. Qed.

(* ------------------------------------------------------------------ Transcoder.transcode_query *)
Section Transcode.
  Variable decode : list N -> option str.
  (* the source charset's decoder yields text (true of every CPython codec with errors='strict') *)
  Hypothesis decode_text : forall b s, decode b = Some s -> valid_text s = true.

  Lemma parse_pairs_valid fs : forall l, parse_pairs decode fs = Some l -> valid_items l = true.
  Proof.
    induction fs as [|f fs IH]; intros l H.
    - cbn in H. injection H as <-. reflexivity.
    - cbn [parse_pairs] in H. destruct (parse_pair decode f) as [[n v]|] eqn:Ef; [|discriminate].
      destruct (parse_pairs decode fs) as [l'|] eqn:El; [|discriminate]. cbn in H. injection H as <-.
      cbn [valid_items forallb fst snd]. fold (valid_items l'). rewrite (IH l' eq_refl), andb_true_r.
      unfold parse_pair in Ef. destruct (partition_c 61 f) as [[a fl] b].
      destruct (decode (unquote a)) as [n'|] eqn:En; [|discriminate].
      destruct (decode (unquote b)) as [v'|] eqn:Ev; [|discriminate]. injection Ef as <- <-.
      rewrite (decode_text _ _ En), (decode_text _ _ Ev). reflexivity.
  Qed.

  (* a query/form body submitted in the source charset is re-written so that the ordinary UTF-8
     parse gives exactly the pairs the source-charset parse gives *)
  Theorem transcode_same_pairs q l : parse_qsl_text decode q = Ok l -> mem_n 61 q = true ->
    exists q', transcode_query decode q = Ok q' /\ parse_utf8 q' = Ok l.
  Proof.
    intros Hp Hm. unfold transcode_query. rewrite Hp, Hm. eexists. split; [reflexivity|].
    apply writeback. unfold parse_qsl_text in Hp. destruct (forallb is_octet q); [|discriminate].
    destruct (parse_pairs decode (qs_pairs (plus_to_space q))) as [l'|] eqn:E; [|discriminate].
    injection Hp as <-. exact (parse_pairs_valid _ _ E).
  Qed.
  (* ---- a query / body without any '=': bare names ---- *)
  Definition names_nonempty (l : items) : bool := forallb (fun kv => nonempty (fst kv)) l.
  Definition no_values (l : items) : items := map (fun kv => (fst kv, @nil N)) l.

  Lemma utf8_encode_nonempty s : nonempty s = true -> nonempty (utf8_encode s) = true.
  Proof.
    destruct s as [|c s]; [discriminate|]. intros _. cbn [utf8_encode flat_map]. unfold utf8_enc_char.
    destruct (c <? 128); [reflexivity|]. destruct (c <? 2048); [reflexivity|]. destruct (c <? 65536); reflexivity.
  Qed.

  Lemma quote_plus_nonempty b : nonempty b = true -> nonempty (quote_plus b) = true.
  Proof.
    destruct b as [|c b]; [discriminate|]. intros _. cbn [quote_plus flat_map]. unfold quote_plus_byte.
    destruct (always_safe c); [reflexivity|]. destruct (c =? 32); reflexivity.
  Qed.

  Lemma cut_eq_free a : free 61 a = true -> cut_eq a = (a, []).
  Proof.
    induction a as [|c a IH]; intros Hf; [reflexivity|].
    cbn [free forallb] in Hf. apply andb_true_iff in Hf as [Hc Ha]. fold (free 61 a) in Ha.
    cbn [cut_eq]. destruct (c =? 61); [discriminate|]. rewrite (IH Ha). reflexivity.
  Qed.

  Lemma spec_decode_bare l : valid_items l = true -> names_nonempty l = true ->
    spec_decode (bare_names l) = Some (no_values l).
  Proof.
    intros Hv Hn. unfold bare_names, spec_decode.
    destruct l as [|kv0 l0]; [reflexivity|]. remember (kv0 :: l0) as l eqn:Hl.
    assert (Hne : map (fun kv => quote_plus (utf8_encode (fst kv))) l <> []) by (subst l; discriminate).
    clear Hl kv0 l0.
    rewrite (split_by_join is_pair_sep 38); [|reflexivity|exact Hne|].
    2:{ clear Hne Hn. induction l as [|kv l IH]; [reflexivity|]. cbn [valid_items forallb] in Hv.
        apply andb_true_iff in Hv as [H1 H2]. apply andb_true_iff in H1 as [Hk _]. cbn [map forallb].
        rewrite clean_sfree by (apply quote_clean, utf8_encode_octets; exact Hk). exact (IH H2). }
    clear Hne. induction l as [|[k v] l IH]; [reflexivity|].
    cbn [valid_items forallb] in Hv. apply andb_true_iff in Hv as [H1 H2]. fold (valid_items l) in H2.
    cbn [names_nonempty forallb fst] in Hn. apply andb_true_iff in Hn as [Hk0 Hn]. fold (names_nonempty l) in Hn.
    cbn [fst snd] in H1. apply andb_true_iff in H1 as [Hk _].
    assert (Hq : nonempty_s (quote_plus (utf8_encode k)) = true).
    { rewrite <- nonempty_eq. apply quote_plus_nonempty, utf8_encode_nonempty. exact Hk0. }
    cbn [map filter fst]. fold (nonempty_s (quote_plus (utf8_encode k))). rewrite Hq.
    cbn [map all_some no_values fst].
    assert (Hsf : spec_field (quote_plus (utf8_encode k)) = Some (k, [])).
    { unfold spec_field. rewrite cut_eq_free by (apply clean_free61, quote_clean, utf8_encode_octets; exact Hk).
      rewrite (spec_component_quote k Hk). reflexivity. }
    rewrite Hsf. rewrite (IH H2 Hn). reflexivity.
  Qed.

  Lemma bare_names_octets l : valid_items l = true -> forallb is_octet (bare_names l) = true.
  Proof.
    intros Hv. unfold bare_names.
    assert (Hc : forall s, forallb clean s = true -> forallb is_octet s = true).
    { induction s as [|c s IHs]; [reflexivity|]. cbn [forallb]. intros H. apply andb_true_iff in H as [Hc Hs].
      rewrite (IHs Hs). unfold clean in Hc. destruct (is_octet c); [reflexivity|discriminate]. }
    induction l as [|kv l IH]; [reflexivity|].
    cbn [valid_items forallb] in Hv. apply andb_true_iff in Hv as [H1 H2]. fold (valid_items l) in H2.
    apply andb_true_iff in H1 as [Hk _].
    destruct l as [|kv2 l].
    - cbn [map join]. exact (Hc _ (quote_clean _ (utf8_encode_octets _ Hk))).
    - change (join [38] (map (fun kv => quote_plus (utf8_encode (fst kv))) (kv :: kv2 :: l)))
        with (quote_plus (utf8_encode (fst kv)) ++ [38] ++ join [38] (map (fun kv => quote_plus (utf8_encode (fst kv))) (kv2 :: l))).
      rewrite !forallb_app, (Hc _ (quote_clean _ (utf8_encode_octets _ Hk))), (IH H2). reflexivity.
  Qed.

  (* pieces of a string without '=' have no '=' *)
  Lemma split_c_keeps_free a sep s : free a s = true -> forallb (free a) (split_c sep s) = true.
  Proof.
    induction s as [|c s IH]; intros Hf; [reflexivity|].
    cbn [free forallb] in Hf. apply andb_true_iff in Hf as [Hc Hs]. fold (free a s) in Hs. specialize (IH Hs).
    cbn [split_c]. destruct (c =? sep); [cbn [forallb free]; exact IH|].
    destruct (split_c sep s) as [|f fs]; [cbn [forallb free]; rewrite Hc; reflexivity|].
    cbn [forallb] in *. apply andb_true_iff in IH as [Hf1 Hfs]. rewrite Hfs, andb_true_r.
    cbn [free forallb]. rewrite Hc. exact Hf1.
  Qed.

  Lemma qs_pairs_free a s : free a s = true -> forallb (free a) (qs_pairs s) = true.
  Proof.
    intros Hf. unfold qs_pairs.
    assert (H1 := split_c_keeps_free a 38 s Hf).
    assert (H2 : forallb (free a) (flat_map (split_c 59) (split_c 38 s)) = true).
    { induction (split_c 38 s) as [|x xs IH]; [reflexivity|]. cbn [forallb] in H1. apply andb_true_iff in H1 as [Hx Hxs].
      cbn [flat_map]. rewrite forallb_app, (split_c_keeps_free a 59 x Hx). exact (IH Hxs). }
    induction (flat_map (split_c 59) (split_c 38 s)) as [|x xs IH]; [reflexivity|].
    cbn [forallb] in H2. apply andb_true_iff in H2 as [Hx Hxs]. cbn [filter].
    destruct (nonempty x); [cbn [forallb]; rewrite Hx|]; exact (IH Hxs).
  Qed.

  Lemma partition_free f : free 61 f = true -> partition_c 61 f = (f, false, []).
  Proof.
    induction f as [|c f IH]; intros Hf; [reflexivity|].
    cbn [free forallb] in Hf. apply andb_true_iff in Hf as [Hc Hr]. fold (free 61 f) in Hr.
    cbn [partition_c]. destruct (c =? 61); [discriminate|]. rewrite (IH Hr). reflexivity.
  Qed.

  Lemma mem_free a s : mem_n a s = false -> free a s = true.
  Proof.
    induction s as [|c s IH]; [reflexivity|]. cbn [mem_n free forallb]. intros H.
    apply orb_false_iff in H as [Hc Hs]. fold (free a s). rewrite (IH Hs), andb_true_r.
    rewrite Hc. reflexivity.
  Qed.

  (* the codec decodes the empty octet string to the empty text *)
  Hypothesis decode_empty : decode [] = Some [].

  Lemma parse_pairs_bare fs : forallb (free 61) fs = true -> forall l,
    parse_pairs decode fs = Some l -> no_values l = l.
  Proof.
    induction fs as [|f fs IH]; intros Hf l H.
    - cbn in H. injection H as <-. reflexivity.
    - cbn [forallb] in Hf. apply andb_true_iff in Hf as [Hf0 Hfs].
      cbn [parse_pairs] in H. unfold parse_pair in H. rewrite (partition_free f Hf0) in H.
      destruct (decode (unquote f)) as [n|]; [|discriminate].
      change (unquote []) with (@nil N) in H. rewrite decode_empty in H.
      destruct (parse_pairs decode fs) as [l'|] eqn:El; [|discriminate]. cbn in H. injection H as <-.
      cbn [no_values map fst]. fold (no_values l'). rewrite (IH Hfs l' eq_refl). reflexivity.
  Qed.

  (* request.decode(cs) on a query / body that has no '=' at all (bare names): the transcoded string parses, as
     UTF-8, to the same pairs (names with empty values) *)
  Theorem transcode_bare_names q l : parse_qsl_text decode q = Ok l -> mem_n 61 q = false ->
    names_nonempty l = true ->
    exists q', transcode_query decode q = Ok q' /\ parse_utf8 q' = Ok l.
  Proof.
    intros Hp Hm Hn. unfold transcode_query. rewrite Hp, Hm. eexists. split; [reflexivity|].
    unfold parse_qsl_text in Hp. destruct (forallb is_octet q); [|discriminate].
    destruct (parse_pairs decode (qs_pairs (plus_to_space q))) as [l'|] eqn:E; [|discriminate].
    injection Hp as <-.
    assert (Hv : valid_items l' = true) by exact (parse_pairs_valid _ _ E).
    rewrite decode_spec by (apply bare_names_octets; exact Hv).
    rewrite (spec_decode_bare l' Hv Hn). f_equal.
    apply (parse_pairs_bare (qs_pairs (plus_to_space q))); [|exact E].
    apply qs_pairs_free. rewrite plus_to_space_map.
    apply mem_free in Hm. clear -Hm. induction q as [|c q IH]; [reflexivity|].
    cbn [free forallb] in Hm. apply andb_true_iff in Hm as [Hc Hq]. fold (free 61 q) in Hq.
    cbn [map free forallb]. fold (free 61 (map plus_space q)). rewrite (IH Hq), andb_true_r.
    unfold plus_space. destruct (c =? 43) eqn:E43; [reflexivity|exact Hc].
  Qed.
End Transcode.

(* the hypothesis is satisfiable: it holds of the two decoders the model instantiates *)
Lemma latin1_decode_text b s : latin1_decode b = Some s -> valid_text s = true.
Proof.
  unfold latin1_decode. destruct (forallb is_octet b) eqn:Ho; [|discriminate]. intros H. injection H as <-.
  unfold valid_text. induction b as [|c b IH]; [reflexivity|]. cbn [forallb] in *.
  apply andb_true_iff in Ho as [Hc Hb]. rewrite (IH Hb), andb_true_r. unfold is_octet in Hc. unfold is_scalar. lia.
Qed.

Theorem transcode_latin1 q l : parse_qsl_text latin1_decode q = Ok l -> mem_n 61 q = true ->
  exists q', transcode_query latin1_decode q = Ok q' /\ parse_utf8 q' = Ok l.
Proof. exact (transcode_same_pairs latin1_decode latin1_decode_text q l). Qed.


(* the ascii codec returns text, so C09_decode_charset applies to Transcoder('ascii', <any errors>) *)
Lemma ascii_decoder_text b s : ascii_decode_strict b = Some s -> valid_text s = true.
Proof.
  unfold ascii_decode_strict. destruct (forallb (fun c => c <? 128) b) eqn:E; [|discriminate].
  intros H. injection H as <-. unfold valid_text.
  induction b as [|c b IH]; [reflexivity|]. cbn [forallb] in *.
  apply andb_true_iff in E as [Hc Hb]. rewrite (IH Hb), andb_true_r. unfold is_scalar. lia.
Qed.
