(* C04 — AcceptValidHeader.acceptable_offers: the dict loop with "replace only when strictly more
   specific" computes, for every offer, the first range of maximal specificity; the final list
   comprehension + sort is the ranking of the specification. *)
From Coq Require Import ZArith NArith List Bool Permutation Sorted Arith Lia.
Require Import Webob.Lib.Val Webob.Lib.PyStr Webob.Lib.C04_Sort Webob.Model.C04_negotiation
               Webob.Spec.C04_negotiation Webob.Proofs.C04_sort.
Import ListNotations.

(* ------------------------------------------------------------------ boolean equalities *)
Lemma str_eqb_eq : forall a b, str_eqb a b = true <-> a = b.
Proof.
  induction a as [|x a IH]; destruct b as [|y b]; cbn; split; intros H; try reflexivity; try discriminate.
  - apply andb_true_iff in H as [H1 H2]. apply N.eqb_eq in H1. apply IH in H2. now subst.
  - injection H as -> ->. apply andb_true_iff; split; [apply N.eqb_refl|now apply IH].
Qed.

Lemma str_eqb_refl : forall a, str_eqb a a = true.
Proof. intros a. now apply str_eqb_eq. Qed.

Lemma params_eqb_eq : forall a b, params_eqb a b = true <-> a = b.
Proof.
  induction a as [|[n v] a IH]; destruct b as [|[m w] b]; cbn; split; intros H; try reflexivity; try discriminate.
  - apply andb_true_iff in H as [H12 H3]. apply andb_true_iff in H12 as [H1 H2].
    apply str_eqb_eq in H1, H2. apply IH in H3. now subst.
  - injection H as -> -> ->. rewrite !str_eqb_refl. cbn. now apply IH.
Qed.

Lemma offer_eqb_eq : forall a b, offer_eqb a b = true <-> a = b.
Proof.
  intros [x|t1 s1 p1] [y|t2 s2 p2]; cbn; split; intros H; try discriminate.
  - apply str_eqb_eq in H. now subst.
  - injection H as ->. apply str_eqb_refl.
  - apply andb_true_iff in H as [H12 H3]. apply andb_true_iff in H12 as [H1 H2].
    apply str_eqb_eq in H1, H2. apply params_eqb_eq in H3. now subst.
  - injection H as -> -> ->. rewrite !str_eqb_refl. cbn. now apply params_eqb_eq.
Qed.

Lemma offer_eqb_refl : forall a, offer_eqb a a = true.
Proof. intros a. now apply offer_eqb_eq. Qed.

Lemma offer_eqb_neq : forall a b, offer_eqb a b = false <-> a <> b.
Proof.
  intros a b. split.
  - intros H E. apply offer_eqb_eq in E. congruence.
  - intros H. destruct (offer_eqb a b) eqn:E; [apply offer_eqb_eq in E; contradiction|reflexivity].
Qed.

(* ------------------------------------------------------------------ the dict *)
Lemma dget_dset : forall k e d, dget k (dset k e d) = Some e.
Proof.
  intros k e d; induction d as [|[k' e'] d IH]; cbn.
  - now rewrite offer_eqb_refl.
  - destruct (offer_eqb k' k) eqn:E; cbn; rewrite E; [reflexivity|exact IH].
Qed.

Lemma dset_dset : forall k e1 e2 d, dset k e2 (dset k e1 d) = dset k e2 d.
Proof.
  intros k e1 e2 d; induction d as [|[k' e'] d IH]; cbn.
  - now rewrite offer_eqb_refl.
  - destruct (offer_eqb k' k) eqn:E; cbn; rewrite E; [reflexivity|now rewrite IH].
Qed.

Lemma dset_id : forall k e d, dget k d = Some e -> dset k e d = d.
Proof.
  intros k e d; induction d as [|[k' e'] d IH]; cbn; [discriminate|].
  destruct (offer_eqb k' k) eqn:E; intros H; [now injection H as ->|now rewrite IH].
Qed.

Lemma dset_absent : forall k e d, dget k d = None -> dset k e d = d ++ [(k, e)].
Proof.
  intros k e d; induction d as [|[k' e'] d IH]; cbn; [reflexivity|].
  destruct (offer_eqb k' k) eqn:E; intros H; [discriminate|now rewrite IH].
Qed.

Lemma dget_in : forall k e d, dget k d = Some e -> In (k, e) d.
Proof.
  intros k e d; induction d as [|[k' e'] d IH]; cbn; [discriminate|].
  destruct (offer_eqb k' k) eqn:E; intros H.
  - apply offer_eqb_eq in E. injection H as ->. subst. now left.
  - right. now apply IH.
Qed.

Lemma dget_none : forall k d, (forall e, ~ In (k, e) d) -> dget k d = None.
Proof.
  intros k d H. destruct (dget k d) as [e|] eqn:E; [|reflexivity].
  apply dget_in in E. now apply H in E.
Qed.

Lemma dget_some : forall k e d, In (k, e) d -> dget k d <> None.
Proof.
  intros k e d; induction d as [|[k' e'] d IH]; cbn; [contradiction|].
  intros [H|H].
  - injection H as -> ->. now rewrite offer_eqb_refl.
  - destruct (offer_eqb k' k); [discriminate|now apply IH].
Qed.

(* ------------------------------------------------------------------ inner loop, on the entry of one key *)
Definition upd (po : poffer) (idx : nat) (cur : option entry) (r : lrange) : option entry :=
  let sp := specificity r po in
  if (sp =? 0)%nat then cur
  else match cur with
       | Some e => if (sp <=? e_sp e)%nat then cur else Some (mkE (r_q r) idx sp)
       | None => Some (mkE (r_q r) idx sp)
       end.

Definition dput (k : offer) (c : option entry) (d : dict) : dict :=
  match c with Some e => dset k e d | None => d end.

Lemma range_step_upd : forall k idx po r d,
  range_step k idx po d r = dput k (upd po idx (dget k d) r) d.
Proof.
  intros k idx po r d. unfold range_step, upd.
  destruct (specificity r po =? 0)%nat.
  - destruct (dget k d) as [e|] eqn:E; cbn; [symmetry; now apply dset_id|reflexivity].
  - destruct (dget k d) as [e|] eqn:E; cbn; [|reflexivity].
    destruct (specificity r po <=? e_sp e)%nat; cbn; [symmetry; now apply dset_id|reflexivity].
Qed.

Lemma upd_none : forall po idx cur r, upd po idx cur r = None -> cur = None.
Proof.
  intros po idx cur r. unfold upd.
  destruct (specificity r po =? 0)%nat; [trivial|].
  destruct cur as [e|]; [|trivial]. destruct (specificity r po <=? e_sp e)%nat; discriminate.
Qed.

Lemma fold_upd_none : forall po idx rs cur, fold_left (upd po idx) rs cur = None -> cur = None.
Proof.
  intros po idx rs; induction rs as [|r rs IH]; intros cur H; cbn in H; [exact H|].
  apply IH in H. now apply upd_none in H.
Qed.

Lemma dget_dput : forall k c d, (c = None -> dget k d = None) -> dget k (dput k c d) = c.
Proof.
  intros k [e|] d H; cbn; [apply dget_dset|now apply H].
Qed.

Lemma dput_dput : forall k c1 c2 d, (c2 = None -> c1 = None) -> dput k c2 (dput k c1 d) = dput k c2 d.
Proof.
  intros k c1 [e2|] d H; cbn.
  - destruct c1; cbn; [apply dset_dset|reflexivity].
  - now rewrite (H eq_refl).
Qed.

Lemma fold_range_step : forall k idx po rs d,
  fold_left (range_step k idx po) rs d = dput k (fold_left (upd po idx) rs (dget k d)) d.
Proof.
  intros k idx po rs; induction rs as [|r rs IH]; intros d; cbn.
  - destruct (dget k d) as [e|] eqn:E; cbn; [symmetry; now apply dset_id|reflexivity].
  - rewrite IH, range_step_upd.
    rewrite dget_dput by (intros H; now apply upd_none in H).
    apply dput_dput. intros H. now apply fold_upd_none in H.
Qed.

(* ------------------------------------------------------------------ strict improvement = first argmax *)
Definition cur_sp (c : option entry) : nat := match c with Some e => e_sp e | None => 0 end.

Lemma fold_upd : forall po idx rs cur,
  fold_left (upd po idx) rs cur =
  if (max_spec rs po <=? cur_sp cur)%nat then cur
  else option_map (fun r => mkE (r_q r) idx (max_spec rs po))
                  (find (fun r => (specificity r po =? max_spec rs po)%nat) rs).
Proof.
  intros po idx rs; induction rs as [|r rs IH]; intros cur.
  - cbn. reflexivity.
  - cbn [fold_left]. rewrite IH. clear IH.
    unfold max_spec; cbn [map fold_right]; fold (max_spec rs po).
    set (s := specificity r po). set (m' := max_spec rs po).
    unfold upd; fold s. cbn [find]. fold s.
    destruct (s =? 0)%nat eqn:Es0.
    + apply Nat.eqb_eq in Es0. rewrite Es0. cbn [Nat.max].
      destruct (m' <=? cur_sp cur)%nat eqn:Em; [reflexivity|].
      apply Nat.leb_gt in Em.
      replace (0 =? m')%nat with false by (symmetry; apply Nat.eqb_neq; lia). reflexivity.
    + apply Nat.eqb_neq in Es0.
      assert (Hcase : (s <= cur_sp cur) \/ (cur_sp cur < s)) by lia.
      destruct Hcase as [Hle|Hgt].
      * (* not strictly more specific: the entry is kept *)
        assert (Hkeep : match cur with
                        | Some e => if (s <=? e_sp e)%nat then cur else Some (mkE (r_q r) idx s)
                        | None => Some (mkE (r_q r) idx s)
                        end = cur).
        { destruct cur as [e|]; cbn in Hle; [|lia].
          replace (s <=? e_sp e)%nat with true by (symmetry; apply Nat.leb_le; exact Hle). reflexivity. }
        rewrite Hkeep.
        destruct (m' <=? cur_sp cur)%nat eqn:Em.
        -- apply Nat.leb_le in Em.
           replace (Nat.max s m' <=? cur_sp cur)%nat with true by (symmetry; apply Nat.leb_le; lia). reflexivity.
        -- apply Nat.leb_gt in Em.
           replace (Nat.max s m' <=? cur_sp cur)%nat with false by (symmetry; apply Nat.leb_gt; lia).
           replace (Nat.max s m') with m' by lia.
           replace (s =? m')%nat with false by (symmetry; apply Nat.eqb_neq; lia). reflexivity.
      * (* strictly more specific: the entry is replaced *)
        assert (Hrepl : match cur with
                        | Some e => if (s <=? e_sp e)%nat then cur else Some (mkE (r_q r) idx s)
                        | None => Some (mkE (r_q r) idx s)
                        end = Some (mkE (r_q r) idx s)).
        { destruct cur as [e|]; cbn in Hgt; [|reflexivity].
          replace (s <=? e_sp e)%nat with false by (symmetry; apply Nat.leb_gt; exact Hgt). reflexivity. }
        rewrite Hrepl. cbn [cur_sp e_sp].
        replace (Nat.max s m' <=? cur_sp cur)%nat with false by (symmetry; apply Nat.leb_gt; lia).
        destruct (m' <=? s)%nat eqn:Em.
        -- apply Nat.leb_le in Em. replace (Nat.max s m') with s by lia.
           rewrite Nat.eqb_refl. reflexivity.
        -- apply Nat.leb_gt in Em. replace (Nat.max s m') with m' by lia.
           replace (s =? m')%nat with false by (symmetry; apply Nat.eqb_neq; lia). reflexivity.
Qed.

Lemma fold_upd_governing : forall po idx rs,
  fold_left (upd po idx) rs None =
  option_map (fun r => mkE (r_q r) idx (max_spec rs po)) (governing rs po).
Proof.
  intros po idx rs. rewrite fold_upd. unfold governing. cbn [cur_sp].
  destruct (max_spec rs po) as [|m]; reflexivity.
Qed.

Lemma find_max_some : forall po rs, max_spec rs po <> 0 ->
  exists r, find (fun r => (specificity r po =? max_spec rs po)%nat) rs = Some r.
Proof.
  intros po rs; induction rs as [|r rs IH]; intros Hm; [now cbn in Hm|].
  unfold max_spec in *; cbn [map fold_right] in *; fold (max_spec rs po) in *.
  cbn [find].
  destruct (specificity r po =? Nat.max (specificity r po) (max_spec rs po))%nat eqn:E; [now exists r|].
  apply Nat.eqb_neq in E.
  assert (Hlt : specificity r po < max_spec rs po) by lia.
  replace (Nat.max (specificity r po) (max_spec rs po)) with (max_spec rs po) by lia.
  apply IH. lia.
Qed.

Lemma governing_none : forall po rs, governing rs po = None <-> max_spec rs po = 0.
Proof.
  intros po rs. unfold governing. split.
  - destruct (max_spec rs po =? 0)%nat eqn:E; [intros _; now apply Nat.eqb_eq|].
    apply Nat.eqb_neq in E. destruct (find_max_some po rs E) as [r ->]. discriminate.
  - intros ->. reflexivity.
Qed.

(* the governing range is a range of the header, of maximal specificity, and the first such *)
Lemma governing_spec : forall po rs r, governing rs po = Some r ->
  In r rs /\ specificity r po = max_spec rs po /\ specificity r po <> 0 /\
  (forall r', In r' rs -> specificity r' po <= specificity r po).
Proof.
  intros po rs r. unfold governing.
  destruct (max_spec rs po =? 0)%nat eqn:E; [discriminate|]. apply Nat.eqb_neq in E.
  intros H. pose proof (find_some _ _ H) as [Hin Heq]. apply Nat.eqb_eq in Heq.
  repeat split; [exact Hin|exact Heq|lia|].
  intros r' Hr'. rewrite Heq. clear -Hr'.
  induction rs as [|x rs IH]; [contradiction|].
  unfold max_spec; cbn [map fold_right]; fold (max_spec rs po).
  destruct Hr' as [->|Hr']; [lia|]. specialize (IH Hr'). lia.
Qed.

Lemma governing_first : forall po rs r, governing rs po = Some r ->
  exists pre post, rs = pre ++ r :: post /\ forall r', In r' pre -> specificity r' po < specificity r po.
Proof.
  intros po rs r H. pose proof (governing_spec _ _ _ H) as (_ & Heq & _ & Hmax).
  unfold governing in H. destruct (max_spec rs po =? 0)%nat; [discriminate|].
  rewrite <- Heq in H. clear Heq.
  revert Hmax H. generalize (specificity r po) as m. intros m Hmax.
  induction rs as [|x rs IH]; cbn; [discriminate|].
  destruct (specificity x po =? m)%nat eqn:E; intros H.
  - injection H as ->. exists [], rs. split; [reflexivity|]. intros r' [].
  - apply Nat.eqb_neq in E.
    destruct IH as (pre & post & -> & Hpre); [intros r' Hr'; apply Hmax; now right|exact H|].
    exists (x :: pre), post. split; [reflexivity|].
    intros r' [<-|Hr']; [|now apply Hpre].
    specialize (Hmax x (or_introl eq_refl)).
    assert (Hm : specificity r po = m).
    { apply find_some in H as [_ Hm]. now apply Nat.eqb_eq in Hm. }
    lia.
Qed.

(* ------------------------------------------------------------------ outer loop *)
Definition ent_of (rs : list lrange) (it : item) : dict :=
  match governing rs (i_po it) with
  | Some r => [(i_key it, mkE (r_q r) (i_idx it) (max_spec rs (i_po it)))]
  | None => []
  end.
Definition entries (rs : list lrange) (l : list item) : dict := flat_map (ent_of rs) l.

Definition coherent (l : list item) : Prop :=
  forall it, In it l -> parse_offer (i_key it) = Some (i_po it).

Notation has_key k l := (existsb (fun y => offer_eqb (i_key y) k) l) (only parsing).

Lemma has_key_filter : forall k k' l, k <> k' ->
  has_key k (filter (fun y => negb (offer_eqb (i_key y) k')) l) = has_key k l.
Proof.
  intros k k' l Hne; induction l as [|y l IH]; cbn; [reflexivity|].
  destruct (offer_eqb (i_key y) k') eqn:E; cbn.
  - apply offer_eqb_eq in E. rewrite IH.
    replace (offer_eqb (i_key y) k) with false; [reflexivity|].
    symmetry. apply offer_eqb_neq. congruence.
  - now rewrite IH.
Qed.

Lemma has_key_dedup : forall k l, has_key k (dedup l) = has_key k l.
Proof.
  intros k l; induction l as [|x l IH]; cbn; [reflexivity|].
  destruct (offer_eqb (i_key x) k) eqn:E; cbn; [reflexivity|].
  apply offer_eqb_neq in E. rewrite has_key_filter by congruence. exact IH.
Qed.

Lemma filter_snoc : forall {A} (f : A -> bool) l x,
  filter f (l ++ [x]) = if f x then filter f l ++ [x] else filter f l.
Proof.
  intros A f l x. rewrite filter_app. cbn. destruct (f x); [reflexivity|apply app_nil_r].
Qed.

Lemma dedup_snoc : forall l x,
  dedup (l ++ [x]) = if has_key (i_key x) l then dedup l else dedup l ++ [x].
Proof.
  induction l as [|a l IH]; intros x; cbn; [reflexivity|].
  rewrite IH.
  destruct (offer_eqb (i_key a) (i_key x)) eqn:E; cbn.
  - destruct (has_key (i_key x) l); [reflexivity|].
    rewrite filter_snoc.
    replace (offer_eqb (i_key x) (i_key a)) with true; [reflexivity|].
    symmetry. apply offer_eqb_eq. apply offer_eqb_eq in E. congruence.
  - destruct (has_key (i_key x) l); [reflexivity|].
    rewrite filter_snoc.
    replace (offer_eqb (i_key x) (i_key a)) with false; [reflexivity|].
    symmetry. apply offer_eqb_neq. apply offer_eqb_neq in E. congruence.
Qed.

Lemma dedup_incl : forall l y, In y (dedup l) -> In y l.
Proof.
  induction l as [|x l IH]; intros y; cbn; [trivial|].
  intros [->|H]; [now left|]. right. apply IH. apply filter_In in H. apply H.
Qed.

Lemma has_key_in : forall k l, has_key k l = true <-> exists y, In y l /\ i_key y = k.
Proof.
  intros k l. rewrite existsb_exists. split; intros [y [Hy Hk]]; exists y; split; trivial;
    now apply offer_eqb_eq.
Qed.

Lemma entries_in : forall rs l k e, In (k, e) (entries rs l) ->
  exists y, In y l /\ i_key y = k /\ e_sp e = max_spec rs (i_po y) /\ max_spec rs (i_po y) <> 0.
Proof.
  intros rs l k e H. apply in_flat_map in H as [y [Hy H]].
  unfold ent_of in H. destruct (governing rs (i_po y)) as [r|] eqn:G; [|contradiction].
  destruct H as [H|[]]. injection H as <- <-.
  exists y. repeat split; trivial. cbn.
  intros Hz. apply governing_none in Hz. congruence.
Qed.

Lemma offer_step_dedup : forall rs c it,
  coherent (it :: c) ->
  offer_step rs (entries rs c) it =
  if has_key (i_key it) c then entries rs c else entries rs c ++ ent_of rs it.
Proof.
  intros rs c it Hco. unfold offer_step. rewrite fold_range_step.
  set (k := i_key it). set (d := entries rs c).
  destruct (has_key k c) eqn:Hk.
  - (* the offer is already a key: nothing is strictly more specific than what is stored *)
    rewrite fold_upd.
    assert (Hle : (max_spec rs (i_po it) <=? cur_sp (dget k d))%nat = true).
    { apply Nat.leb_le.
      destruct (Nat.eq_dec (max_spec rs (i_po it)) 0) as [->|Hm]; [lia|].
      apply has_key_in in Hk as [y [Hy Hyk]].
      assert (Hpo : i_po y = i_po it).
      { pose proof (Hco y (or_intror Hy)) as H1. pose proof (Hco it (or_introl eq_refl)) as H2.
        fold k in H2. rewrite Hyk in H1. congruence. }
      assert (Hin : exists e, In (k, e) d).
      { unfold d, entries. unfold ent_of.
        destruct (governing rs (i_po y)) as [r|] eqn:G.
        - eexists. apply in_flat_map. exists y. split; [exact Hy|]. unfold ent_of. rewrite G, Hyk. now left.
        - apply governing_none in G. congruence. }
      destruct Hin as [e He].
      destruct (dget k d) as [e'|] eqn:E; [|now apply dget_some in He].
      apply dget_in in E. apply entries_in in E as (y' & Hy' & Hy'k & Hsp & _).
      assert (Hpo' : i_po y' = i_po it).
      { pose proof (Hco y' (or_intror Hy')) as H1. pose proof (Hco it (or_introl eq_refl)) as H2.
        fold k in H2. rewrite Hy'k in H1. congruence. }
      cbn. rewrite Hsp, Hpo'. lia. }
    rewrite Hle.
    destruct (dget k d) as [e|] eqn:E; cbn; [now apply dset_id|reflexivity].
  - (* a new key *)
    assert (Hnone : dget k d = None).
    { apply dget_none. intros e He. apply entries_in in He as (y & Hy & Hyk & _).
      assert (has_key k c = true) by (apply has_key_in; now exists y). congruence. }
    rewrite Hnone, fold_upd_governing. unfold ent_of. fold k.
    destruct (governing rs (i_po it)) as [r|]; cbn; [|now rewrite app_nil_r].
    now apply dset_absent.
Qed.

Lemma coherent_dedup : forall l, coherent l -> coherent (dedup l).
Proof. intros l H it Hin. apply H. now apply dedup_incl. Qed.

Lemma offer_loop : forall rs l pre,
  coherent (pre ++ l) ->
  fold_left (offer_step rs) l (entries rs (dedup pre)) = entries rs (dedup (pre ++ l)).
Proof.
  intros rs l; induction l as [|x l IH]; intros pre Hco; cbn.
  - now rewrite app_nil_r.
  - replace (pre ++ x :: l) with ((pre ++ [x]) ++ l) in * by (now rewrite <- app_assoc).
    rewrite <- IH by exact Hco.
    f_equal. rewrite offer_step_dedup.
    + rewrite dedup_snoc, has_key_dedup.
      destruct (has_key (i_key x) pre); [reflexivity|].
      unfold entries. rewrite flat_map_app. cbn. now rewrite app_nil_r.
    + intros it [<-|Hin].
      * apply Hco. apply in_or_app. left. apply in_or_app. right. now left.
      * apply Hco. apply in_or_app. left. apply in_or_app. left. now apply dedup_incl.
Qed.

Lemma pan_coherent : forall offers, coherent (parse_and_normalize offers).
Proof.
  intros offers it Hin. unfold parse_and_normalize in Hin.
  apply in_flat_map in Hin as [[i o] [_ Hin]]. unfold pan_one in Hin. cbn in Hin.
  destruct (parse_offer o) as [p|] eqn:E; [|contradiction].
  destruct Hin as [<-|[]]. exact E.
Qed.

Lemma accept_dict : forall rs offers,
  fold_left (offer_step rs) (parse_and_normalize offers) [] =
  entries rs (dedup (parse_and_normalize offers)).
Proof.
  intros rs offers. apply (offer_loop rs (parse_and_normalize offers) []). apply pan_coherent.
Qed.

(* ------------------------------------------------------------------ list comprehension *)
Lemma comprehension : forall rs c,
  map (fun ke => mkQ (fst ke) (e_q (snd ke)) (e_idx (snd ke)))
      (filter (fun ke => negb (e_q (snd ke) =? 0)%N) (entries rs c)) = flat_map (verdict rs) c.
Proof.
  intros rs c; induction c as [|x c IH]; [reflexivity|].
  unfold entries in *. cbn [flat_map]. rewrite filter_app, map_app, IH. f_equal.
  unfold ent_of, verdict. destruct (governing rs (i_po x)) as [r|]; cbn; [|reflexivity].
  destruct (r_q r =? 0)%N; reflexivity.
Qed.

(* ------------------------------------------------------------------ sorting *)
Section Order.
  Context {K : Type}.

  Lemma before_prefers : forall a b : qent K, before a b = true <-> prefers a b.
  Proof.
    intros a b. unfold before, prefers.
    rewrite orb_true_iff, andb_true_iff, N.ltb_lt, N.eqb_eq, Nat.leb_le. tauto.
  Qed.

  Lemma before_total : forall a b : qent K, before a b = true \/ before b a = true.
  Proof. intros a b. rewrite !before_prefers. unfold prefers. lia. Qed.

  Lemma before_trans : forall a b c : qent K, before a b = true -> before b c = true -> before a c = true.
  Proof. intros a b c. rewrite !before_prefers. unfold prefers. lia. Qed.

  Lemma before_antisym : forall l (a b : qent K), NoDup (map x_idx l) -> In a l -> In b l ->
    before a b = true -> before b a = true -> a = b.
  Proof.
    intros l a b Hnd Ha Hb. rewrite !before_prefers. unfold prefers. intros H1 H2.
    eapply NoDup_map_inj; [exact Hnd|exact Ha|exact Hb|lia].
  Qed.

  Lemma key_leb_before : forall a b : qent K, key_q_negidx_leb a b = before b a.
  Proof. intros a b. unfold key_q_negidx_leb, before. now rewrite (N.eqb_sym (x_q a)). Qed.

  Lemma sorted_is_isort : forall l l1 : list (qent K),
    NoDup (map x_idx l) -> Permutation l1 l ->
    StronglySorted (fun a b => before a b = true) l1 -> l1 = isort before l.
  Proof.
    intros l l1 Hnd Hp Hs.
    apply (SS_perm_unique (fun a b => before a b = true)).
    - intros a b Ha Hb. eapply before_antisym; [exact Hnd| |]; eapply Permutation_in; eauto.
    - exact Hs.
    - apply isort_sorted; [apply before_total|apply before_trans].
    - rewrite Hp. symmetry. apply isort_perm.
  Qed.

  (* sort(key=(q, -index), reverse=True) *)
  Lemma py_sort_key_rank : forall l : list (qent K),
    NoDup (map x_idx l) -> py_sort key_q_negidx_leb true l = isort before l.
  Proof.
    intros l Hnd. apply sorted_is_isort; [exact Hnd|apply py_sort_perm|].
    unfold py_sort.
    eapply SS_impl; [|apply SS_rev; apply isort_sorted].
    - cbn. intros a b _ _ H. now rewrite <- key_leb_before.
    - intros a b. rewrite !key_leb_before. apply before_total.
    - intros a b c. rewrite !key_leb_before. intros H1 H2. eapply before_trans; eauto.
  Qed.

  (* sort(key=index) then sort(key=q, reverse=True) on a list already in index order *)
  Lemma py_sort_two_rank : forall l : list (qent K),
    StronglySorted (fun a b => x_idx a < x_idx b) l ->
    py_sort q_leb true (py_sort idx_leb false l) = isort before l.
  Proof.
    intros l Hs.
    pose proof (SS_lt_NoDup x_idx l Hs) as Hnd.
    assert (Hid : py_sort idx_leb false l = l).
    { unfold py_sort. symmetry.
      apply (SS_perm_unique (fun a b => idx_leb a b = true)).
      - intros a b Ha Hb H1 H2. unfold idx_leb in *. apply Nat.leb_le in H1, H2.
        eapply NoDup_map_inj; [exact Hnd|exact Ha|exact Hb|lia].
      - eapply SS_impl; [|exact Hs]. intros a b _ _ H. cbv beta in H. unfold idx_leb. apply Nat.leb_le. lia.
      - apply isort_sorted; unfold idx_leb.
        + intros a b. rewrite !Nat.leb_le. lia.
        + intros a b c. rewrite !Nat.leb_le. lia.
      - symmetry. apply isort_perm. }
    rewrite Hid.
    apply sorted_is_isort; [exact Hnd|apply py_sort_perm|].
    unfold py_sort.
    assert (Hrev : StronglySorted (fun a b => x_idx b < x_idx a) (rev l)) by (apply SS_rev in Hs; exact Hs).
    pose proof (isort_stable (@q_leb K)) as Hst.
    specialize (Hst ltac:(intros a b; unfold q_leb; rewrite !N.leb_le; lia)
                    ltac:(intros a b c; unfold q_leb; rewrite !N.leb_le; lia) _ _ Hrev).
    apply SS_rev in Hst.
    eapply SS_impl; [|exact Hst].
    cbn. intros a b _ _ H. apply before_prefers. unfold prefers.
    unfold lexR, q_leb in H. rewrite N.leb_gt, N.leb_le in H. lia.
  Qed.
End Order.

(* ------------------------------------------------------------------ indices are increasing *)
Lemma enum_from_sorted : forall {A} (l : list A) n,
  StronglySorted (fun a b : nat * A => fst a < fst b) (enum_from n l) /\
  Forall (fun a : nat * A => n <= fst a) (enum_from n l).
Proof.
  intros A l; induction l as [|x l IH]; intros n; cbn; [split; constructor|].
  destruct (IH (S n)) as [Hs Hf]. split.
  - constructor; [exact Hs|]. eapply Forall_impl; [|exact Hf]. cbn. intros a H. lia.
  - constructor; [cbn; lia|]. eapply Forall_impl; [|exact Hf]. cbn. intros a H. lia.
Qed.

Lemma pan_sorted : forall offers,
  StronglySorted (fun a b => i_idx a < i_idx b) (parse_and_normalize offers).
Proof.
  intros offers. unfold parse_and_normalize.
  eapply SS_flat_map1; [| |apply (proj1 (enum_from_sorted offers 0))].
  - intros [i o]. unfold pan_one. cbn. destruct (parse_offer o); cbn; lia.
  - intros [i1 o1] [i2 o2] b1 b2 Hlt. unfold pan_one. cbn.
    destruct (parse_offer o1); [|contradiction]. destruct (parse_offer o2); [|contradiction].
    intros [<-|[]] [<-|[]]. cbn in *. exact Hlt.
Qed.

Lemma dedup_sorted : forall (R : item -> item -> Prop) l, StronglySorted R l -> StronglySorted R (dedup l).
Proof.
  intros R l; induction l as [|x l IH]; intros Hs; cbn; [constructor|].
  inversion Hs as [|? ? Hs' Hx]; subst.
  constructor; [apply SS_filter, IH, Hs'|].
  rewrite Forall_forall in *. intros y Hy. apply filter_In in Hy as [Hy _]. apply Hx. now apply dedup_incl.
Qed.

Lemma acceptable_sorted : forall rs offers,
  StronglySorted (fun a b => x_idx a < x_idx b) (acceptable rs offers).
Proof.
  intros rs offers. unfold acceptable.
  eapply SS_flat_map1; [| |apply dedup_sorted, pan_sorted].
  - intros it. unfold verdict. destruct (governing rs (i_po it)) as [r|]; cbn; [|lia].
    destruct (r_q r =? 0)%N; cbn; lia.
  - intros a1 a2 b1 b2 Hlt. unfold verdict.
    destruct (governing rs (i_po a1)) as [r1|]; [|contradiction].
    destruct (governing rs (i_po a2)) as [r2|]; [|contradiction].
    destruct (r_q r1 =? 0)%N; [contradiction|]. destruct (r_q r2 =? 0)%N; [contradiction|].
    intros [<-|[]] [<-|[]]. cbn. exact Hlt.
Qed.

(* ------------------------------------------------------------------ main theorem *)
Theorem accept_offers_spec : forall rs offers, accept_offers rs offers = spec_accept rs offers.
Proof.
  intros rs offers. unfold accept_offers, spec_accept, rank.
  rewrite accept_dict, comprehension. fold (acceptable rs offers).
  rewrite py_sort_key_rank; [reflexivity|].
  apply SS_lt_NoDup, acceptable_sorted.
Qed.
