(* C09 — held GetDict objects: after any history, request.GET = fresh parse of QUERY_STRING. *)
From Coq Require Import NArith ZArith List Bool Lia ZifyBool ZifyNat ZifyN.
Require Import Webob.Lib.Val Webob.Lib.PyStr Webob.Lib.C09_Utf8 Webob.Model.MultiDict
               Webob.Spec.ListModel Webob.Proofs.C08_multidict
               Webob.Model.C09_QueryCodec Webob.Model.C09_Held Webob.Spec.C09_FormSpec
               Webob.Proofs.C09_utf8 Webob.Proofs.C09_query Webob.Proofs.C09_getdict.
Import ListNotations.

Definition hq_op_valid (o : hq_op) : bool :=
  match o with HGet o' | HHeld _ o' => op_valid o' | HSetQS _ => true end.

(* every GetDict ever handed out holds text, and the cached (object, qs) pair is consistent *)
Definition hq_ok (r : hq) : Prop :=
  forallb valid_items (hq_heap r) = true /\
  match hq_cache r with
  | Some (i, q) => (i < length (hq_heap r))%nat /\ parse_utf8 q = Ok (hq_dict r i)
  | None => True
  end.

Lemma forallb_nth {A} (f : A -> bool) l i d : forallb f l = true -> (i < length l)%nat -> f (nth i l d) = true.
Proof. intros H Hi. rewrite forallb_forall in H. apply H. apply nth_In. exact Hi. Qed.

Lemma forallb_set_nth {A} (f : A -> bool) x : forall l i, forallb f l = true -> f x = true ->
  forallb f (set_nth i x l) = true.
Proof.
  induction l as [|y l IH]; intros i Hl Hx; [destruct i; reflexivity|].
  cbn [forallb] in Hl. apply andb_true_iff in Hl as [Hy Hl].
  destruct i; cbn [set_nth forallb]; [rewrite Hx; exact Hl|rewrite Hy; exact (IH i Hl Hx)].
Qed.

Lemma nth_set_nth_other {A} (x d : A) : forall l i j, i <> j -> nth j (set_nth i x l) d = nth j l d.
Proof.
  induction l as [|y l IH]; intros i j Hij; [destruct i; reflexivity|].
  destruct i, j; cbn [set_nth nth]; try reflexivity; [congruence|apply IH; congruence].
Qed.

Definition res_of_get (r : hq) (g : res nat) (r1 : hq) : Prop :=
  match g with
  | Ok i => (i < length (hq_heap r1))%nat /\ parse_utf8 (hq_qs r) = Ok (hq_dict r1 i)
  | UnicodeDecodeError => parse_utf8 (hq_qs r) = UnicodeDecodeError
  | UnicodeEncodeError => parse_utf8 (hq_qs r) = UnicodeEncodeError
  end.

Lemma hq_get_ok r : hq_ok r ->
  hq_ok (snd (hq_get r)) /\ hq_qs (snd (hq_get r)) = hq_qs r /\ res_of_get r (fst (hq_get r)) (snd (hq_get r)).
Proof.
  intros [Hh Hc]. unfold hq_get.
  assert (Hre : let x := match (match hq_qs r with [] => Ok [] | _ => parse_utf8 (hq_qs r) end) with
                         | Ok l => (Ok (length (hq_heap r)),
                                    mkHq (hq_qs r) (Some (length (hq_heap r), hq_qs r)) (hq_heap r ++ [l]))
                         | UnicodeDecodeError => (UnicodeDecodeError, r)
                         | UnicodeEncodeError => (UnicodeEncodeError, r)
                         end in
                hq_ok (snd x) /\ hq_qs (snd x) = hq_qs r /\ res_of_get r (fst x) (snd x)).
  { cbv zeta.
    assert (Hfp : match hq_qs r with [] => Ok [] | _ => parse_utf8 (hq_qs r) end = parse_utf8 (hq_qs r))
      by (destruct (hq_qs r); reflexivity).
    rewrite Hfp.
    destruct (parse_utf8 (hq_qs r)) as [l| |] eqn:E; cbn [fst snd].
    - assert (Hn : nth (length (hq_heap r)) (hq_heap r ++ [l]) [] = l)
        by (rewrite app_nth2, Nat.sub_diag by lia; reflexivity).
      assert (Hlen : (length (hq_heap r) < length (hq_heap r ++ [l]))%nat)
        by (rewrite app_length; cbn; lia).
      split; [|split].
      + split.
        * cbn [hq_heap]. rewrite forallb_app, Hh. cbn [forallb]. rewrite (parse_valid _ _ E). reflexivity.
        * cbn [hq_cache hq_heap]. split; [exact Hlen|]. unfold hq_dict. cbn [hq_heap]. rewrite E. f_equal. symmetry. exact Hn.
      + reflexivity.
      + unfold res_of_get. split; [exact Hlen|]. unfold hq_dict. cbn [hq_heap]. rewrite E. f_equal. symmetry. exact Hn.
    - split; [split; assumption|split; [reflexivity|exact E]].
    - split; [split; assumption|split; [reflexivity|exact E]]. }
  destruct (hq_cache r) as [[i q]|] eqn:Ec; [|exact Hre].
  destruct (str_eqb q (hq_qs r)) eqn:Eq; [|exact Hre].
  apply str_eqb_eq in Eq. subst q. cbn [fst snd]. destruct Hc as [Hi Hp].
  repeat split; try assumption. rewrite Ec. split; assumption.
Qed.

Lemma hq_apply_spec r i o : hq_ok r -> (i < length (hq_heap r))%nat -> op_valid o = true ->
  let l' := fst (step_s idn (hq_dict r i) o) in
  let ret := snd (step_s idn (hq_dict r i) o) in
  snd (hq_apply r i o) = ret /\
  hq_ok (fst (hq_apply r i o)) /\
  (is_err ret || is_copy o = true -> fst (hq_apply r i o) = r) /\
  (is_err ret || is_copy o = false ->
     hq_qs (fst (hq_apply r i o)) = on_change l' /\
     hq_cache (fst (hq_apply r i o)) = Some (i, on_change l') /\
     hq_dict (fst (hq_apply r i o)) i = l' /\
     forall j, j <> i -> hq_dict (fst (hq_apply r i o)) j = hq_dict r j).
Proof.
  intros [Hh Hc] Hi Ho. cbv zeta. unfold hq_apply. rewrite step_refines. change (fun k : str => k) with idn.
  destruct (step_s idn (hq_dict r i) o) as [l' ret] eqn:Es. cbn [fst snd].
  assert (Hv : valid_items l' = true).
  { replace l' with (fst (step_s idn (hq_dict r i) o)) by (rewrite Es; reflexivity).
    apply step_valid; [|exact Ho]. unfold hq_dict. apply forallb_nth; assumption. }
  destruct (is_err ret || is_copy o) eqn:Ee; cbn [fst snd].
  - split; [reflexivity|]. split; [split; assumption|].
    split; [intros _; reflexivity|intros Hd; discriminate Hd].
  - assert (Hn : nth i (set_nth i l' (hq_heap r)) [] = l') by (apply nth_set_nth; exact Hi).
    split; [reflexivity|]. split; [|split; [intros Hd; discriminate Hd|intros _]].
    + split.
      * cbn [hq_heap]. apply forallb_set_nth; assumption.
      * cbn [hq_cache hq_heap]. rewrite set_nth_length. split; [exact Hi|].
        unfold hq_dict. cbn [hq_heap]. rewrite (writeback l' Hv). f_equal. symmetry. exact Hn.
    + split; [reflexivity|]. split; [reflexivity|]. split.
      * unfold hq_dict. cbn [hq_heap]. exact Hn.
      * intros j Hj. unfold hq_dict. cbn [hq_heap]. apply nth_set_nth_other. congruence.
Qed.

Lemma hq_step_ok r o : hq_ok r -> hq_op_valid o = true -> hq_ok (fst (hq_step r o)).
Proof.
  intros Hok Ho. destruct o as [o'|s|i o']; cbn [hq_step hq_op_valid] in *.
  - destruct (hq_get_ok r Hok) as (Hok1 & _ & Hres).
    destruct (hq_get r) as [[i| |] r1] eqn:Eg; cbn [fst snd] in *; try exact Hok1.
    destruct Hres as [Hi _]. exact (proj1 (proj2 (hq_apply_spec r1 i o' Hok1 Hi Ho))).
  - destruct Hok as [Hh Hc]. split; [exact Hh|]. cbn [hq_cache hq_heap]. exact Hc.
  - destruct (Nat.ltb i (length (hq_heap r))) eqn:El; [|exact Hok].
    apply Nat.ltb_lt in El. exact (proj1 (proj2 (hq_apply_spec r i o' Hok El Ho))).
Qed.

Lemma hq_history_ok ops : forall r, hq_ok r -> forallb hq_op_valid ops = true ->
  hq_ok (fold_left (fun r o => fst (hq_step r o)) ops r).
Proof.
  induction ops as [|o ops IH]; intros r Hok Hv; [exact Hok|].
  cbn [forallb] in Hv. apply andb_true_iff in Hv as [Ho Hv]. cbn [fold_left].
  apply IH; [apply hq_step_ok; assumption|exact Hv].
Qed.

Lemma hq_view_fresh r : hq_ok r -> fst (hq_view r) = fresh_parse (hq_qs r).
Proof.
  intros Hok. rewrite fresh_parse_eq. unfold hq_view.
  destruct (hq_get_ok r Hok) as (_ & _ & Hres).
  destruct (hq_get r) as [[i| |] r1]; cbn [fst snd] in *; [destruct Hres as [_ Hp]|..]; symmetry; assumption.
Qed.

(* After ANY history of operations through request.GET, through GetDict objects obtained earlier and
   kept by the caller, and of raw assignments to QUERY_STRING: request.GET shows what a brand-new
   Request parses from the current QUERY_STRING. *)
Theorem held_history qs0 ops : forallb hq_op_valid ops = true ->
  let r := fold_left (fun r o => fst (hq_step r o)) ops (mkHq qs0 None []) in
  fst (hq_view r) = fresh_parse (hq_qs r).
Proof.
  intros Hv r. apply hq_view_fresh. apply hq_history_ok; [|exact Hv]. split; [reflexivity|exact I].
Qed.

(* A successful mutation of ANY GetDict the request ever handed out (current or stale) rewrites
   QUERY_STRING to that object's new contents — the list model's result — makes it the object
   request.GET shows, and leaves every other GetDict object as it was; a failed one changes nothing. *)
Theorem held_mutation r i o : hq_ok r -> (i < length (hq_heap r))%nat -> op_valid o = true ->
  let l' := fst (step_s idn (hq_dict r i) o) in
  let ret := snd (step_s idn (hq_dict r i) o) in
  let r' := fst (hq_apply r i o) in
  snd (hq_apply r i o) = ret /\
  (is_err ret || is_copy o = true -> r' = r) /\
  (is_err ret || is_copy o = false ->
     hq_qs r' = on_change l' /\ fresh_parse (hq_qs r') = Ok l' /\ fst (hq_view r') = Ok l' /\
     forall j, j <> i -> hq_dict r' j = hq_dict r j).
Proof.
  intros Hok Hi Ho. cbv zeta.
  destruct (hq_apply_spec r i o Hok Hi Ho) as (Hret & Hok' & Hsame & Hch).
  split; [exact Hret|]. split; [exact Hsame|]. intros He.
  destruct (Hch He) as (Hq & Hcache & Hd & Hoth).
  assert (Hfp : fresh_parse (hq_qs (fst (hq_apply r i o))) = Ok (fst (step_s idn (hq_dict r i) o))).
  { destruct Hok' as [_ Hc']. rewrite Hcache in Hc'. destruct Hc' as [_ Hp]. rewrite fresh_parse_eq, Hq, Hp, Hd. reflexivity. }
  repeat split; try assumption.
  rewrite (hq_view_fresh _ Hok'). exact Hfp.
Qed.
