(* C04 — facts about Accept.parse_offer: the result is normalised and concrete; on offers written
   without optional whitespace and with token-valued parameters it returns exactly the lower-cased
   components (so type, subtype and parameter names are case-insensitive). *)
From Coq Require Import ZArith NArith List Bool Arith Lia.
Require Import Webob.Lib.Val Webob.Lib.PyStr Webob.Lib.C04_Sort Webob.Model.C04_negotiation
               Webob.Proofs.C04_accept.
Import ListNotations.

Ltac nleb :=
  repeat match goal with
         | |- context [(?a <=? ?b)%N] => destruct (N.leb_spec a b)
         | |- context [(?a =? ?b)%N] => destruct (N.eqb_spec a b)
         end.

Lemma lower_c_idem : forall c, lower_c (lower_c c) = lower_c c.
Proof.
  intros c. unfold lower_c.
  destruct (N.leb_spec 65 c), (N.leb_spec c 90), (N.leb_spec 192 c), (N.leb_spec c 222), (N.eqb_spec c 215);
    cbn [andb negb]; nleb; cbn [andb negb]; try reflexivity; try lia.
Qed.

Lemma lower_idem : forall s, lower (lower s) = lower s.
Proof. intros s. unfold lower. rewrite map_map. apply map_ext. apply lower_c_idem. Qed.

Lemma lower_c_star : forall c, lower_c c = 42%N -> c = 42%N.
Proof.
  intros c. unfold lower_c.
  destruct (N.leb_spec 65 c), (N.leb_spec c 90), (N.leb_spec 192 c), (N.leb_spec c 222), (N.eqb_spec c 215);
    cbn [andb negb]; lia.
Qed.

Lemma lower_star : forall s, lower s = star -> s = star.
Proof.
  intros [|c [|d s]]; cbn; intros H; try discriminate.
  injection H as H. apply lower_c_star in H. now subst.
Qed.

Lemma lower_names_normal : forall ps, Forall (fun p : str * str => lower (fst p) = fst p) (lower_names ps).
Proof.
  intros ps. unfold lower_names. apply Forall_forall. intros p Hin.
  apply in_map_iff in Hin as [p0 [<- _]]. cbn. apply lower_idem.
Qed.

(* what parse_offer returns is concrete and normalised *)
Theorem parse_offer_str_normal : forall s t st ps, parse_offer_str s = Some (t, st, ps) ->
  t <> star /\ st <> star /\ lower t = t /\ lower st = st /\
  Forall (fun p : str * str => lower (fst p) = fst p) ps.
Proof.
  intros s t st ps. unfold parse_offer_str.
  destruct (fst (span is_tchar s)) as [|a t0] eqn:Et; [discriminate|].
  destruct (snd (span is_tchar s)) as [|c s2]; [discriminate|].
  destruct (c =? 47)%N; [|discriminate].
  destruct (fst (span is_tchar s2)) as [|b st0] eqn:Est; [discriminate|].
  destruct (params_loop _ _) as [raw|]; [|discriminate].
  destruct (str_eqb (a :: t0) star || str_eqb (b :: st0) star) eqn:E; [discriminate|].
  apply orb_false_iff in E as [E1 E2].
  intros H. injection H as <- <- <-.
  repeat split.
  - intros H. apply (lower_star (a :: t0)) in H. rewrite H, str_eqb_refl in E1. discriminate.
  - intros H. apply (lower_star (b :: st0)) in H. rewrite H, str_eqb_refl in E2. discriminate.
  - apply (lower_idem (a :: t0)).
  - apply (lower_idem (b :: st0)).
  - apply lower_names_normal.
Qed.

(* ------------------------------------------------------------------ rendering *)
Definition token (s : str) : Prop := s <> [] /\ forallb is_tchar s = true.
Definition render_param (p : str * str) : str := 59%N :: fst p ++ 61%N :: snd p.
Definition render_params (ps : params) : str := concat (map render_param ps).
Definition render_offer (t st : str) (ps : params) : str := t ++ 47%N :: st ++ render_params ps.
Definition plain_param (p : str * str) : Prop := token (fst p) /\ token (snd p) /\ is_q_name (fst p) = false.

Definition stops (s : str) : Prop := match s with [] => True | c :: _ => is_tchar c = false end.

Lemma span_tchar_app : forall t rest, forallb is_tchar t = true -> stops rest ->
  span is_tchar (t ++ rest) = (t, rest).
Proof.
  induction t as [|c t IH]; intros rest Ht Hs; cbn [app span].
  - destruct rest as [|d rest]; [reflexivity|]. cbn [stops] in Hs. cbn [span]. now rewrite Hs.
  - cbn [forallb] in Ht. apply andb_true_iff in Ht as [Hc Ht]. rewrite Hc, (IH rest Ht Hs). reflexivity.
Qed.

Lemma stops_render_params : forall ps, stops (render_params ps).
Proof. intros [|p ps]; cbn; [trivial|reflexivity]. Qed.

Lemma token_not_quoted : forall v, token v -> starts_with dq v = false.
Proof.
  intros [|c v] [Hne Ht]; [contradiction|]. cbn [forallb] in Ht. apply andb_true_iff in Ht as [Hc _].
  unfold dq. cbn [starts_with].
  destruct (N.eqb_spec 34 c) as [<-|]; [vm_compute in Hc; discriminate|reflexivity].
Qed.

Lemma span_stop : forall f c s, f c = false -> span f (c :: s) = ([], c :: s).
Proof. intros f c s H. cbn [span]. now rewrite H. Qed.

Lemma tchar_not_ows : forall c, is_tchar c = true -> is_ows c = false.
Proof.
  intros c H. unfold is_ows.
  destruct (N.eqb_spec c 32) as [->|]; [vm_compute in H; discriminate|].
  destruct (N.eqb_spec c 9) as [->|]; [vm_compute in H; discriminate|]. reflexivity.
Qed.

Lemma params_loop_step : forall fuel n v rest,
  token n -> token v -> is_q_name n = false -> stops rest ->
  params_loop (S fuel) (59%N :: n ++ 61%N :: v ++ rest) =
  match params_loop fuel rest with Some ps => Some ((n, v) :: ps) | None => None end.
Proof.
  intros fuel n v rest [Hn1 Hn2] [Hv1 Hv2] Hq Hrest.
  cbn [params_loop].
  rewrite (span_stop is_ows 59%N) by reflexivity. cbn [snd].
  change ((59 =? 59)%N) with true. cbv iota.
  destruct n as [|c n]; [contradiction|].
  assert (Hc : is_tchar c = true) by (cbn [forallb] in Hn2; now apply andb_true_iff in Hn2).
  cbn [app]. rewrite (span_stop is_ows c) by (now apply tchar_not_ows). cbn [snd].
  change (c :: n ++ 61%N :: v ++ rest) with ((c :: n) ++ 61%N :: v ++ rest).
  rewrite (span_tchar_app (c :: n) (61%N :: v ++ rest) Hn2) by reflexivity. cbn [fst snd].
  change ((61 =? 61)%N) with true. cbn [negb orb]. rewrite Hq.
  destruct v as [|d v]; [contradiction|]. cbn [app].
  assert (Hd : (d =? 34)%N = false).
  { cbn [forallb] in Hv2. apply andb_true_iff in Hv2 as [Hd _].
    destruct (N.eqb_spec d 34) as [->|]; [vm_compute in Hd; discriminate|reflexivity]. }
  rewrite Hd.
  change (d :: v ++ rest) with ((d :: v) ++ rest).
  rewrite (span_tchar_app (d :: v) rest Hv2 Hrest). cbn [fst snd]. reflexivity.
Qed.

Lemma params_loop_render : forall ps fuel, length ps < fuel -> Forall plain_param ps ->
  params_loop fuel (render_params ps) = Some ps.
Proof.
  induction ps as [|[n v] ps IH]; intros fuel Hf Hall.
  - destruct fuel; reflexivity.
  - destruct fuel as [|fuel]; [cbn in Hf; lia|].
    inversion Hall as [|? ? [Hn [Hv Hq]] Hall']; subst. cbn [fst snd] in *.
    unfold render_params. cbn [map concat]. unfold render_param at 1. cbn [fst snd].
    fold (render_params ps). cbn [app]. rewrite <- app_assoc. cbn [app].
    rewrite (params_loop_step fuel n v (render_params ps) Hn Hv Hq (stops_render_params ps)).
    rewrite IH; [reflexivity|cbn in Hf; lia|exact Hall'].
Qed.

Lemma unquote_plain : forall ps, Forall plain_param ps -> map unquote_param ps = ps.
Proof.
  intros ps H. induction H as [|[n v] ps [_ [Hv _]] _ IH]; cbn; [reflexivity|].
  rewrite IH. unfold unquote_param. cbn [fst snd]. now rewrite (token_not_quoted v Hv).
Qed.

Lemma render_params_length : forall ps, length ps <= length (render_params ps).
Proof.
  induction ps as [|p ps IH]; cbn; [lia|]. unfold render_params in IH. rewrite app_length. cbn. lia.
Qed.

Theorem parse_render : forall t st ps,
  token t -> token st -> t <> star -> st <> star -> Forall plain_param ps ->
  parse_offer_str (render_offer t st ps) = Some (lower t, lower st, lower_names ps).
Proof.
  intros t st ps [Ht1 Ht2] [Hs1 Hs2] Hts Hss Hps. unfold parse_offer_str, render_offer.
  rewrite (span_tchar_app t (47%N :: st ++ render_params ps) Ht2) by reflexivity. cbn [fst snd].
  destruct t as [|a t]; [contradiction|].
  change ((47 =? 47)%N) with true. cbv iota.
  rewrite (span_tchar_app st (render_params ps) Hs2 (stops_render_params ps)). cbn [fst snd].
  destruct st as [|b st]; [contradiction|].
  rewrite params_loop_render; [|pose proof (render_params_length ps); lia|exact Hps].
  rewrite unquote_plain by exact Hps.
  replace (str_eqb (a :: t) star) with false
    by (symmetry; destruct (str_eqb (a :: t) star) eqn:E; [apply str_eqb_eq in E; contradiction|reflexivity]).
  replace (str_eqb (b :: st) star) with false
    by (symmetry; destruct (str_eqb (b :: st) star) eqn:E; [apply str_eqb_eq in E; contradiction|reflexivity]).
  reflexivity.
Qed.

(* type, subtype and parameter names are case-insensitive; parameter values are not touched *)
Theorem offer_case_insensitive : forall t st ps t' st' ps',
  token t -> token st -> t <> star -> st <> star -> Forall plain_param ps ->
  token t' -> token st' -> t' <> star -> st' <> star -> Forall plain_param ps' ->
  lower t = lower t' -> lower st = lower st' -> lower_names ps = lower_names ps' ->
  parse_offer_str (render_offer t st ps) = parse_offer_str (render_offer t' st' ps').
Proof.
  intros. rewrite !parse_render by assumption. congruence.
Qed.
