(* C07 — input side: the scanner that models _rx_cookie.findall reads a rendered Cookie header
   (name=value_quote(v) pairs joined by "; ") back as exactly the pairs that were rendered, for every
   list of pairs; RequestCookies then yields the text of every value. *)
From Coq Require Import String.
From Coq Require Import ZArith NArith List Bool Lia ZifyBool ZifyNat ZifyN.
Require Import Webob.Lib.Val Webob.Lib.PyStr Webob.Lib.C07_Utf8 Webob.Gen.C07_tables Webob.Model.C07_CookieCodec
               Webob.Spec.C07_CookieSpec Webob.Proofs.C07_tables Webob.Proofs.C07_output Webob.Proofs.C07_utf8.
Import ListNotations.
Local Open Scope N_scope.

Lemma str_eqb_refl s : str_eqb s s = true.
Proof. induction s as [|c s IH]; cbn; [reflexivity|]. rewrite N.eqb_refl, IH. reflexivity. Qed.

Lemma str_eqb_eq a : forall b, str_eqb a b = true <-> a = b.
Proof.
  induction a as [|x a IH]; intros [|y b]; cbn; split; intros Hx; try reflexivity; try discriminate.
  - apply andb_true_iff in Hx as [Hxy Hab]. apply N.eqb_eq in Hxy. apply IH in Hab. congruence.
  - injection Hx as -> ->. rewrite N.eqb_refl. apply IH. reflexivity.
Qed.

Lemma str_eqb_neq a b : a <> b -> str_eqb a b = false.
Proof. intros Hn. destruct (str_eqb a b) eqn:E; [|reflexivity]. apply str_eqb_eq in E. contradiction. Qed.

(* ---------------------------------------------------------------- one-step unfoldings *)
Lemma match_key_cons c s1 :
  match_key (c :: s1) =
  if is_legal c then
    match eq_sep s1 with
    | Some r => Some ([c], r)
    | None => match match_key s1 with Some (k, r) => Some (c :: k, r) | None => None end
    end
  else None.
Proof. reflexivity. Qed.

Lemma q_body_cons c s1 :
  q_body (c :: s1) =
  if c =? 34 then Some ([34], s1)
  else if c =? 92 then
    match s1 with
    | d :: s2 =>
        if d =? 34 then
          match q_body s2 with
          | Some (b, r) => Some (92 :: 34 :: b, r)
          | None => Some ([92; 34], s2)
          end
        else pre c (q_body s1)
    | [] => None
    end
  else if c =? 10 then None
  else pre c (q_body s1).
Proof. reflexivity. Qed.

Lemma u_body_cons c s1 :
  u_body (c :: s1) =
  if is_legal c then pre2 [c] (u_body s1)
  else if c =? 92 then
    match s1 with
    | [] => ([], c :: s1)
    | a :: s2 =>
        match s2 with
        | b :: d :: s4 =>
            if is03 a && is07 b && is07 d then pre2 [c; a; b; d] (u_body s4)
            else if a =? 10 then ([], c :: s1)
            else pre2 [c; a] (u_body s2)
        | _ =>
            if a =? 10 then ([], c :: s1)
            else pre2 [c; a] (u_body s2)
        end
    end
  else ([], c :: s1).
Proof. reflexivity. Qed.

Lemma findall_fuel_S f s :
  findall_fuel (S f) s =
  match s with
  | [] => []
  | _ :: s1 => match match_at s with
               | Some (k, v, r) => (k, v) :: findall_fuel f r
               | None => findall_fuel f s1
               end
  end.
Proof. reflexivity. Qed.

(* ---------------------------------------------------------------- white space and the key *)
Definition starts_clean (s : str) : Prop := match s with [] => True | c :: _ => is_ws c = false end.

Lemma skip_ws_clean s : starts_clean s -> skip_ws s = s.
Proof. destruct s as [|c s]; [reflexivity|]. cbn [starts_clean]. intros Hc. unfold skip_ws. cbn [drop_while]. rewrite Hc. reflexivity. Qed.

Lemma match_key_token k rest : k <> [] -> forallb is_token k = true -> starts_clean rest ->
  match_key (k ++ 61 :: rest) = Some (k, rest).
Proof.
  induction k as [|c k IH]; [congruence|]. intros _ Ht Hr.
  cbn [forallb] in Ht. apply andb_true_iff in Ht as [Hc Hk].
  destruct (token_props c Hc) as (Hl & _ & _ & _ & _).
  cbn [app]. rewrite match_key_cons, Hl.
  destruct k as [|c' k'].
  - cbn [app]. unfold eq_sep. rewrite skip_ws_clean by reflexivity.
    change (61 =? 61) with true. cbv iota. rewrite skip_ws_clean by exact Hr. reflexivity.
  - cbn [forallb] in Hk. apply andb_true_iff in Hk as [Hc' Hk'].
    destruct (token_props c' Hc') as (_ & Hne & Hws & _ & _).
    replace (eq_sep ((c' :: k') ++ 61 :: rest)) with (@None str).
    + rewrite IH; [reflexivity|discriminate|cbn [forallb]; rewrite Hc', Hk'; reflexivity|exact Hr].
    + unfold eq_sep. cbn [app]. rewrite skip_ws_clean by exact Hws.
      replace (c' =? 61) with false by lia. reflexivity.
Qed.

(* ---------------------------------------------------------------- alternative 1 on a quoted value *)
Definition pre_all (e : str) (o : option (str * str)) : option (str * str) :=
  match o with Some (b, r) => Some (e ++ b, r) | None => None end.

Lemma q_body_plain c s : c <> 34 -> c <> 92 -> c <> 10 -> q_body (c :: s) = pre c (q_body s).
Proof.
  intros H1 H2 H3. rewrite q_body_cons.
  replace (c =? 34) with false by lia. replace (c =? 92) with false by lia. replace (c =? 10) with false by lia.
  reflexivity.
Qed.

Lemma q_body_shape_app c e s : esc_shape true c e -> q_body (e ++ s) = pre_all e (q_body s).
Proof.
  intros Hs. destruct Hs as [Hb|Hsp Hc|a b d Ha Hb Hd Hv]; cbn [app].
  - apply bare_safe_range in Hb. rewrite q_body_plain by lia. destruct (q_body s) as [[x r]|]; reflexivity.
  - subst c. rewrite q_body_plain by lia. destruct (q_body s) as [[x r]|]; reflexivity.
  - unfold oct03, oct07 in *.
    rewrite q_body_cons. change (92 =? 34) with false. change (92 =? 92) with true. cbv iota.
    replace (a =? 34) with false by lia.
    rewrite (q_body_plain a) by lia. rewrite (q_body_plain b) by lia. rewrite (q_body_plain d) by lia.
    destruct (q_body s) as [[x r]|]; reflexivity.
Qed.

Lemma q_body_flat_escape v tail : octets v ->
  q_body (flat_map escape_char v ++ 34 :: tail) = Some (flat_map escape_char v ++ [34], tail).
Proof.
  induction 1 as [|c v Hc _ IH]; cbn [flat_map app].
  - rewrite q_body_cons. reflexivity.
  - rewrite <- app_assoc. rewrite (q_body_shape_app c) by (apply escape_shape, Hc).
    rewrite IH. cbn [pre_all]. rewrite <- app_assoc. reflexivity.
Qed.

Lemma alt_quoted_quoted v tail : octets v ->
  alt_quoted ((34 :: flat_map escape_char v ++ [34]) ++ tail) = Some (34 :: flat_map escape_char v ++ [34], tail).
Proof.
  intros Ho. cbn [app]. rewrite <- app_assoc. cbn [app].
  unfold alt_quoted. change (34 =? 34) with true. cbv iota.
  rewrite q_body_flat_escape by exact Ho. reflexivity.
Qed.

(* ---------------------------------------------------------------- an unquoted value: alternatives 1 and 2 fail, 3 takes it all *)
(* what may follow a value in a rendered header: nothing, or the ';' of the separator *)
Definition stops (tail : str) : Prop := tail = [] \/ exists t, tail = 59 :: t.

Lemma allowed_head c v : forallb is_allowed (c :: v) = true -> is_allowed c = true /\ forallb is_allowed v = true.
Proof. cbn [forallb]. intros Ha. apply andb_true_iff in Ha. exact Ha. Qed.

Lemma alt_quoted_unquoted v tail : forallb is_allowed v = true -> stops tail -> alt_quoted (v ++ tail) = None.
Proof.
  intros Ha Hs. destruct v as [|c v]; cbn [app].
  - destruct Hs as [->|[t ->]]; reflexivity.
  - apply allowed_head in Ha as [Hc _]. apply allowed_safe, bare_safe_range in Hc.
    unfold alt_quoted. replace (c =? 34) with false by lia. reflexivity.
Qed.

Lemma take_exact3 p s w r : take_exact p 3 s = Some (w, r) ->
  exists a b c, s = a :: b :: c :: r /\ p a = true /\ p b = true /\ p c = true.
Proof.
  destruct s as [|a [|b [|c s3]]]; cbn [take_exact pre]; try discriminate.
  - destruct (p a); discriminate.
  - destruct (p a); [|discriminate]. destruct (p b); discriminate.
  - destruct (p a) eqn:Ea; [|discriminate]. destruct (p b) eqn:Eb; [|discriminate].
    destruct (p c) eqn:Ec; [|discriminate].
    intros Hx. injection Hx as <- <-. exists a, b, c. repeat split; assumption.
Qed.

Lemma alt_expires_shape s p : alt_expires s = Some p ->
  exists a b c r, s = a :: b :: c :: 44 :: r /\ is_word a = true /\ is_word b = true /\ is_word c = true.
Proof.
  unfold alt_expires. unfold seq2 at 1.
  destruct (take_exact is_word 3 s) as [[w r]|] eqn:E; [|discriminate].
  unfold seq2 at 1. destruct (one (N.eqb 44) r) as [[x r2]|] eqn:E2; [|discriminate].
  intros _. apply take_exact3 in E as (a & b & c & -> & Ha & Hb & Hc).
  unfold one in E2. destruct r as [|y r']; [discriminate|].
  destruct (44 =? y) eqn:Ey; [|discriminate]. apply N.eqb_eq in Ey. subst y.
  exists a, b, c, r'. repeat split; assumption.
Qed.

Lemma alt_expires_unquoted v tail : forallb is_allowed v = true -> stops tail -> alt_expires (v ++ tail) = None.
Proof.
  intros Ha Hs. destruct (alt_expires (v ++ tail)) as [p|] eqn:E; [|reflexivity]. exfalso.
  apply alt_expires_shape in E as (a & b & c & r & Heq & Hwa & Hwb & Hwc).
  assert (H59 : is_word 59 = false) by reflexivity.
  assert (H44 : is_allowed 44 = false) by reflexivity.
  destruct v as [|v0 [|v1 [|v2 [|v3 v']]]]; cbn [app] in Heq.
  - destruct Hs as [->|[t ->]]; [discriminate|]. injection Heq as <- _. congruence.
  - destruct Hs as [->|[t ->]]; [discriminate|]. injection Heq as _ <- _. congruence.
  - destruct Hs as [->|[t ->]]; [discriminate|]. injection Heq as _ _ <- _. congruence.
  - destruct Hs as [->|[t ->]]; [discriminate|]. injection Heq as _ _ _ Hx _. discriminate.
  - injection Heq as _ _ _ Hx _. subst v3.
    cbn [forallb] in Ha. rewrite H44 in Ha. rewrite !andb_false_r in Ha. cbn in Ha.
    repeat (apply andb_true_iff in Ha as [? Ha]); discriminate.
Qed.

Lemma u_body_unquoted v tail : forallb is_allowed v = true -> stops tail -> u_body (v ++ tail) = (v, tail).
Proof.
  intros Ha Hs. induction v as [|c v IH]; cbn [app].
  - destruct Hs as [->|[t ->]]; [reflexivity|].
    rewrite u_body_cons. destruct legal_facts as (H59 & _). rewrite H59. reflexivity.
  - apply allowed_head in Ha as [Hc Hv]. rewrite u_body_cons, (allowed_legal c Hc), (IH Hv). reflexivity.
Qed.

Theorem match_val_value_quote v tail : octets v -> stops tail ->
  match_val (value_quote v ++ tail) = (value_quote v, tail).
Proof.
  intros Ho Hs. unfold match_val, value_quote. destruct (forallb is_allowed v) eqn:Ea.
  - rewrite alt_quoted_unquoted, alt_expires_unquoted by assumption. apply u_body_unquoted; assumption.
  - rewrite alt_quoted_quoted by exact Ho. reflexivity.
Qed.

Lemma value_quote_starts_clean v tail : stops tail -> starts_clean (value_quote v ++ tail).
Proof.
  intros Hs. unfold value_quote. destruct (forallb is_allowed v) eqn:Ea.
  - destruct v as [|c v]; cbn [app starts_clean].
    + destruct Hs as [->|[t ->]]; reflexivity.
    + apply allowed_head in Ea as [Hc _]. apply allowed_safe, bare_safe_range in Hc.
      unfold is_ws. lia.
  - reflexivity.
Qed.

(* ---------------------------------------------------------------- a whole rendered header *)
Definition render_pair (kv : str * str) : str := fst kv ++ 61 :: value_quote (snd kv).
Definition render (ps : list (str * str)) : str := join_semi (map render_pair ps).

Definition scan_pair (kv : str * str) : Prop :=
  fst kv <> [] /\ forallb is_token (fst kv) = true /\ octets (snd kv).

Lemma match_at_pair k v tail : scan_pair (k, v) -> stops tail ->
  match_at (k ++ 61 :: value_quote v ++ tail) = Some (k, value_quote v, tail).
Proof.
  intros (Hne & Ht & Ho) Hs. cbn [fst snd] in *. unfold match_at.
  rewrite match_key_token by (try assumption; apply value_quote_starts_clean, Hs).
  rewrite match_val_value_quote by assumption. reflexivity.
Qed.

Lemma match_at_illegal c s : is_legal c = false -> match_at (c :: s) = None.
Proof. intros Hl. unfold match_at. rewrite match_key_cons, Hl. reflexivity. Qed.

Lemma render_cons2 p q ps : render (p :: q :: ps) = render_pair p ++ 59 :: 32 :: render (q :: ps).
Proof. reflexivity. Qed.

Lemma render_pair_nonempty kv : scan_pair kv -> exists c s, render_pair kv = c :: s.
Proof.
  intros (Hne & _ & _). unfold render_pair. destruct (fst kv) as [|c k]; [congruence|].
  exists c, (k ++ 61 :: value_quote (snd kv)). reflexivity.
Qed.

Lemma findall_render ps : Forall scan_pair ps -> forall fuel, (length (render ps) < fuel)%nat ->
  findall_fuel fuel (render ps) = map (fun kv => (fst kv, value_quote (snd kv))) ps.
Proof.
  induction 1 as [|[k v] ps Hp Hps IH]; intros fuel Hf.
  - destruct fuel; reflexivity.
  - destruct fuel as [|f]; [lia|].
    destruct (render_pair_nonempty _ Hp) as (c0 & s0 & Hnz).
    destruct ps as [|q ps'].
    + (* last pair: nothing follows *)
      assert (Hr : render [(k, v)] = k ++ 61 :: value_quote v ++ []) by (unfold render, render_pair; cbn; rewrite app_nil_r; reflexivity).
      rewrite findall_fuel_S. rewrite Hr.
      rewrite match_at_pair by (try exact Hp; left; reflexivity).
      unfold render_pair in Hnz. cbn [fst snd] in Hnz. rewrite app_nil_r. rewrite Hnz.
      destruct f; reflexivity.
    + (* a separator and more pairs follow *)
      rewrite render_cons2 in *. unfold render_pair at 1 in Hf. unfold render_pair at 1. cbn [fst snd] in *.
      assert (Hs : k ++ 61 :: value_quote v ++ 59 :: 32 :: render (q :: ps')
                   = (k ++ 61 :: value_quote v) ++ 59 :: 32 :: render (q :: ps'))
        by (rewrite <- app_assoc; reflexivity).
      rewrite findall_fuel_S.
      rewrite <- Hs. rewrite match_at_pair by (try exact Hp; right; eexists; reflexivity).
      unfold render_pair in Hnz. cbn [fst snd] in Hnz.
      assert (Hlen : length ((k ++ 61 :: value_quote v) ++ 59 :: 32 :: render (q :: ps'))
                     = Nat.add (Nat.add (length (k ++ 61 :: value_quote v)) 2%nat) (length (render (q :: ps'))))
        by (rewrite app_length; cbn [length]; lia).
      rewrite Hlen in Hf.
      assert (Hk : Nat.le 1%nat (length (k ++ 61 :: value_quote v))) by (rewrite Hnz; cbn [length]; lia).
      rewrite Hs. rewrite Hnz. cbn [app].
      destruct legal_facts as (H59 & H32 & _).
      destruct f as [|f]; [lia|]. rewrite findall_fuel_S. rewrite (match_at_illegal 59) by exact H59.
      destruct f as [|f]; [lia|]. rewrite findall_fuel_S. rewrite (match_at_illegal 32) by exact H32.
      rewrite IH by lia. reflexivity.
Qed.

(* ---------------------------------------------------------------- parse_cookie on a rendered header *)
Definition good_pair (kv : str * str) : Prop := valid_cookie_name (fst kv) = true /\ octets (snd kv).

Lemma valid_name_token k : valid_cookie_name k = true -> k <> [] /\ forallb is_token k = true.
Proof.
  unfold valid_cookie_name, valid_cookie_name_res.
  destruct (forallb is_token k) eqn:Et; cbn [negb]; [|discriminate].
  destruct k as [|c k]; [discriminate|]. intros _. split; [discriminate|reflexivity].
Qed.

Lemma good_scan kv : good_pair kv -> scan_pair kv.
Proof. intros [Hv Ho]. apply valid_name_token in Hv as [Hne Ht]. repeat split; assumption. Qed.

Theorem findall_rendered ps : Forall good_pair ps ->
  findall (render ps) = map (fun kv => (fst kv, value_quote (snd kv))) ps.
Proof.
  intros Hg. unfold findall. apply findall_render; [|lia].
  eapply Forall_impl; [|exact Hg]. exact good_scan.
Qed.

Theorem parse_cookie_render ps : Forall good_pair ps -> parse_cookie (render ps) = ps.
Proof.
  intros Hg. unfold parse_cookie, parse_cookie_raw. rewrite findall_rendered by exact Hg.
  induction Hg as [|[k v] ps [Hv Ho] _ IH]; [reflexivity|].
  cbn [map filter fst snd] in *. rewrite Hv. rewrite unquote_value_quote by exact Ho. rewrite IH. reflexivity.
Qed.

(* ---------------------------------------------------------------- RequestCookies._cache *)
Lemma dict_get_set {B} k k' (v : B) d :
  dict_get k (dict_set k' v d) = if str_eqb k' k then Some v else dict_get k d.
Proof.
  induction d as [|[k0 v0] d IH]; cbn [dict_set dict_get].
  - reflexivity.
  - destruct (str_eqb k0 k') eqn:E0; cbn [dict_get].
    + apply str_eqb_eq in E0. subst k0. destruct (str_eqb k' k); reflexivity.
    + rewrite IH. destruct (str_eqb k0 k) eqn:E1; [|reflexivity].
      apply str_eqb_eq in E1. subst k0.
      destruct (str_eqb k' k) eqn:E2; [|reflexivity].
      apply str_eqb_eq in E2. subst k'. rewrite str_eqb_refl in E0. discriminate.
Qed.

Lemma utf8_decode_ascii k : forallb (fun c => c <? 128) k = true -> utf8_decode k = Some k.
Proof.
  induction k as [|c k IH]; cbn [forallb utf8_decode]; intros Ha; [reflexivity|].
  apply andb_true_iff in Ha as [Hc Hk]. rewrite Hc, (IH Hk). reflexivity.
Qed.

Lemma token_ascii k : forallb is_token k = true -> forallb (fun c => c <? 128) k = true.
Proof.
  intros Ht. rewrite forallb_forall in *. intros c Hc. specialize (Ht c Hc).
  apply token_props in Ht. apply N.ltb_lt. tauto.
Qed.

(* a pair whose value is the utf-8 encoding of some text *)
Definition text_pair (kv : str * str) : Prop :=
  valid_cookie_name (fst kv) = true /\ exists t, utf8_encode t = Some (snd kv).

Lemma utf8_encode_some_octets t b : utf8_encode t = Some b -> octets b.
Proof.
  unfold utf8_encode. destruct (valid_text t) eqn:E; [|discriminate]. intros Hx. injection Hx as <-.
  pose proof (utf8_encode_raw_octets t E) as Ho. unfold octets. apply Forall_forall. intros c Hc.
  rewrite forallb_forall in Ho. specialize (Ho c Hc). unfold is_octet in Ho. unfold octet. lia.
Qed.

Lemma text_good kv : text_pair kv -> good_pair kv.
Proof. intros [Hv [t Ht]]. split; [exact Hv|eapply utf8_encode_some_octets, Ht]. Qed.

(* the value the dict ends up holding for [k]: the decoding of the last pair named [k] *)
Definition last_text (k : str) (ps : list (str * str)) (init : option (list N)) : option (list N) :=
  fold_left (fun acc kv => if str_eqb (fst kv) k then utf8_decode (snd kv) else acc) ps init.

Lemma cache_fold_text ps : Forall text_pair ps -> forall d,
  exists d', cache_fold ps d = Ok d' /\ forall k, dict_get k d' = last_text k ps (dict_get k d).
Proof.
  induction 1 as [|[k0 b0] ps [Hv [t Ht]] _ IH]; intros d.
  - exists d. split; [reflexivity|]. intros k. reflexivity.
  - cbn [fst snd] in *. cbn [cache_fold].
    apply valid_name_token in Hv as [_ Htok].
    rewrite (utf8_decode_ascii k0 (token_ascii k0 Htok)).
    rewrite (utf8_encode_decode t b0 Ht).
    destruct (IH (dict_set k0 t d)) as (d' & Hd' & Hget).
    exists d'. split; [exact Hd'|]. intros k. rewrite Hget, dict_get_set.
    unfold last_text. cbn [fold_left fst snd]. rewrite (utf8_encode_decode t b0 Ht). reflexivity.
Qed.

Lemma last_text_absent k ps init : ~ In k (map fst ps) -> last_text k ps init = init.
Proof.
  revert init. induction ps as [|[k0 b0] ps IH]; intros init Hn; [reflexivity|].
  unfold last_text. cbn [fold_left fst snd]. cbn [map fst In] in Hn.
  rewrite str_eqb_neq by tauto. apply IH. tauto.
Qed.

Theorem request_cookies_roundtrip l r name t b :
  Forall text_pair l -> Forall text_pair r ->
  valid_cookie_name name = true -> utf8_encode t = Some b ->
  ~ In name (map fst r) ->
  exists d, request_cookies (render (l ++ (name, b) :: r)) = Ok d /\ dict_get name d = Some t.
Proof.
  intros Hl Hr Hv Ht Hn.
  assert (Hall : Forall text_pair (l ++ (name, b) :: r)).
  { apply Forall_app. split; [exact Hl|]. constructor; [|exact Hr]. split; [exact Hv|exists t; exact Ht]. }
  unfold request_cookies. rewrite parse_cookie_render by (eapply Forall_impl; [|exact Hall]; exact text_good).
  destruct (cache_fold_text _ Hall []) as (d & Hd & Hget).
  exists d. split; [exact Hd|]. rewrite Hget. unfold last_text. rewrite fold_left_app. cbn [fold_left fst snd].
  rewrite str_eqb_refl. rewrite (utf8_encode_decode t b Ht).
  apply last_text_absent, Hn.
Qed.
