(* C12 — Cache-Control: request-only / response-only directives are rejected on the wrong side; the
   Response binding is live in both directions in EVERY reachable state (invariant over all histories).
   About Model/C12_CacheControl.v. *)
From Coq Require Import ZArith NArith List Bool Lia.
Require Import Webob.Lib.Val Webob.Lib.PyStr Webob.Lib.C12_PyInt Webob.Model.C12_Headers
               Webob.Model.C12_CacheControl Webob.Proofs.C12_headers.
Import ListNotations.
Local Open Scope N_scope.

(* ------------------------------------------------------------------ sides *)
Lemma attr_set_wrong_side a sd v p : wrong_side a sd = true -> attr_set a sd v p = Raise AttributeError.
Proof. intros H. unfold attr_set. rewrite H. reflexivity. Qed.

Lemma attr_set_right_side a sd v p : wrong_side a sd = false -> is_raise (attr_set a sd v p) = false.
Proof.
  intros H. unfold attr_set. rewrite H. destruct (cattr_info a) as [[name kind] sd'].
  destruct kind.
  - destruct (match v with DNone | DFalse => false | DInt z => negb (z =? 0)%Z | DStr s => nonempty s | DTrue => true end);
      [reflexivity|]. destruct (pmem name p); reflexivity.
  - destruct v; try reflexivity. destruct (pmem name p); reflexivity.
Qed.

(* ------------------------------------------------------------------ what a callback leaves in the header list *)
Lemma hg_get_none key l : (forall k v, In (k, v) l -> str_eqb (lower k) key = false) -> hg_get key l = None.
Proof.
  induction l as [|[k v] l IH]; intros H; [reflexivity|]. cbn [hg_get].
  rewrite (H k v (or_introl eq_refl)). apply IH. intros k' v' Hin. apply (H k' v'). right. exact Hin.
Qed.

Lemma hg_get_last_del key hl : hg_get_last key (hg_del key hl) = None.
Proof.
  unfold hg_get_last. apply hg_get_none. intros k v Hin. apply in_rev in Hin.
  apply (hg_del_no_key key hl k v Hin).
Qed.

Lemma lower_cc_name : str_eqb (lower cc_name) cc_key = true.
Proof. vm_compute. reflexivity. Qed.

Lemma hg_get_last_set t hl : hg_get_last cc_key (hg_del cc_key hl ++ [(cc_name, t)]) = Some t.
Proof. unfold hg_get_last. rewrite rev_unit. cbn [hg_get]. rewrite lower_cc_name. reflexivity. Qed.

Lemma hdr_text_write p hl : hdr_text (resp_write p hl) = serialize_cc p.
Proof.
  unfold hdr_text, resp_write. destruct (serialize_cc p) as [|c t] eqn:E.
  - rewrite hg_get_last_del. reflexivity.
  - rewrite hg_get_last_set. reflexivity.
Qed.

(* ------------------------------------------------------------------ CacheControl.parse with callbacks *)
Definition apply_tokens (toks : list (str * str)) (p : props) : props :=
  fold_left (fun p nv => pset (fst nv) (token_value (snd nv)) p) toks p.

Lemma parse_into_props {S} (cb : props -> S -> S) toks : forall p st,
  fst (parse_into cb toks p st) = apply_tokens toks p.
Proof.
  induction toks as [|[n v] toks IH]; intros p st; [reflexivity|]. cbn [parse_into]. rewrite IH. reflexivity.
Qed.

Lemma parse_cc_tokens s : parse_cc s = apply_tokens (tokens (S (length s)) s) [].
Proof. unfold parse_cc. apply parse_into_props. Qed.

Lemma parse_into_last toks : toks <> [] -> forall p hl,
  exists hl0, snd (parse_into resp_write toks p hl) = resp_write (apply_tokens toks p) hl0.
Proof.
  induction toks as [|[n v] toks IH]; intros Hne p hl; [congruence|].
  cbn [parse_into]. destruct toks as [|t toks'].
  - exists hl. reflexivity.
  - destruct (IH ltac:(discriminate) (pset n (token_value v) p) (resp_write (pset n (token_value v) p) hl)) as [hl0 E].
    exists hl0. rewrite E. reflexivity.
Qed.

Lemma parse_into_nil_state {S} (cb : props -> S -> S) p st : parse_into cb [] p st = (p, st).
Proof. reflexivity. Qed.

(* ------------------------------------------------------------------ the liveness invariant *)
(* object and header denote each other: the object is the parse of the header text, or the header text is
   the serialisation of the object *)
Definition agree (p : props) (h : str) : Prop := p = parse_cc h \/ h = serialize_cc p.

(* what is remembered about the memoised object: it agrees with the header text it recorded *)
Definition inv (st : rstate) : Prop :=
  match r_obj st with None => True | Some (p, hv) => agree p hv end.

Lemma get_spec st : inv st ->
  let '(st', p) := resp_cc_get st in
  inv st' /\ r_obj st' <> None /\
  (exists hv, r_obj st' = Some (p, hv)) /\
  agree p (hdr_text (r_hl st)) /\ agree p (hdr_text (r_hl st')).
Proof.
  intros I. unfold resp_cc_get. set (value := hdr_text (r_hl st)).
  destruct (r_obj st) as [[p hv]|] eqn:Eo.
  - destruct (str_eqb hv value) eqn:Eh.
    + apply str_eqb_eq in Eh. subst hv. unfold inv in I. rewrite Eo in I.
      split; [unfold inv; rewrite Eo; exact I|]. split; [rewrite Eo; discriminate|].
      split; [exists value; exact Eo|]. split; exact I.
    + cbn [r_obj r_hl inv]. split; [left; reflexivity|]. split; [discriminate|].
      split; [eexists; reflexivity|]. split; [left; reflexivity|].
      right. rewrite hdr_text_write. reflexivity.
  - destruct (parse_into resp_write (tokens (S (length value)) value) [] (r_hl st)) as [p hl'] eqn:Ep.
    assert (Pp : p = parse_cc value).
    { rewrite parse_cc_tokens. rewrite <- (parse_into_props resp_write _ [] (r_hl st)). rewrite Ep. reflexivity. }
    cbn [r_obj r_hl inv]. split; [left; exact Pp|]. split; [discriminate|].
    split; [eexists; reflexivity|]. split; [left; exact Pp|].
    destruct (tokens (S (length value)) value) as [|t toks] eqn:Et.
    + cbn [parse_into] in Ep. injection Ep as <- <-. left. fold value. exact Pp.
    + destruct (parse_into_last (t :: toks) ltac:(discriminate) [] (r_hl st)) as [hl0 E].
      rewrite Ep in E. cbn [snd] in E. right. rewrite E, hdr_text_write.
      rewrite <- (parse_into_props resp_write (t :: toks) [] (r_hl st)), Ep. reflexivity.
Qed.

Lemma mutate_spec f st : inv st ->
  let st' := resp_cc_mutate f st in
  inv st' /\ exists p, r_obj st' = Some (p, serialize_cc p) /\ hdr_text (r_hl st') = serialize_cc p.
Proof.
  intros I. unfold resp_cc_mutate, resp_cc_apply. pose proof (get_spec st I) as G.
  destruct (resp_cc_get st) as [st1 p]. cbn [r_obj r_hl inv].
  split; [right; reflexivity|]. exists (f p). split; [reflexivity|apply hdr_text_write].
Qed.

Lemma apply_inv f st1 p : inv (resp_cc_apply f st1 p).
Proof. unfold resp_cc_apply. cbn [inv r_obj]. right. reflexivity. Qed.

Lemma assign_spec v st : inv st -> inv (resp_cc_assign v st).
Proof.
  intros I. unfold resp_cc_assign.
  assert (T : forall t,
    inv (match r_obj st with
         | None => mkR (match t with [] => hg_del cc_key (r_hl st) | _ => hg_del cc_key (r_hl st) ++ [(cc_name, t)] end) None
         | Some _ => let newp := parse_cc t in
                     let '(st1, _) := resp_cc_get st in
                     let hl1 := resp_write [] (r_hl st1) in
                     let hl2 := resp_write newp hl1 in
                     mkR hl2 (Some (newp, serialize_cc newp))
         end)).
  { intros t. destruct (r_obj st); [|exact Logic.I].
    cbv zeta. destruct (resp_cc_get st) as [st1 q]. cbn [inv r_obj]. right. reflexivity. }
  destruct v as [t|[|kv p]|]; try apply T.
  destruct (resp_cc_get st) as [st1 q]. cbn [inv r_obj]. right. reflexivity.
Qed.

Lemma step_inv st o : inv st -> inv (fst (rcc_step st o)).
Proof.
  intros I. destruct o; cbn [rcc_step].
  - pose proof (get_spec st I) as G. destruct (resp_cc_get st) as [st1 p]. cbn [fst]. tauto.
  - pose proof (get_spec st I) as G. destruct (resp_cc_get st) as [st1 p]. destruct G as [I1 _].
    destruct (attr_set a Response v p) as [[f|]|e]; cbn [fst]; try exact I1.
    apply apply_inv.
  - pose proof (get_spec st I) as G. destruct (resp_cc_get st) as [st1 p]. destruct G as [I1 _].
    destruct (attr_del a Response p) as [[f|]|e]; cbn [fst]; try exact I1.
    apply apply_inv.
  - apply (mutate_spec _ st I).
  - apply (mutate_spec _ st I).
  - apply (mutate_spec _ st I).
  - exact I.
  - exact I.
  - apply assign_spec. exact I.
  - destruct (resp_cc_get st) as [st0 p0]. destruct (resp_cc_get st0) as [st1 p]. cbn [fst inv r_obj]. right. reflexivity.
  - apply assign_spec. exact I.
Qed.

Lemma history_inv ops : forall st, inv st -> inv (fold_left (fun s o => fst (rcc_step s o)) ops st).
Proof. induction ops as [|o ops IH]; intros st I; [exact I|]. cbn [fold_left]. apply IH, step_inv, I. Qed.

(* after ANY history on a fresh response: what resp.cache_control shows and the Cache-Control header
   denote each other, both before and after the read *)
Theorem cc_live init ops :
  let st := fold_left (fun s o => fst (rcc_step s o)) ops (mkR init None) in
  let '(st', p) := resp_cc_get st in
  agree p (hdr_text (r_hl st)) /\ agree p (hdr_text (r_hl st')).
Proof.
  cbv zeta. pose proof (history_inv ops (mkR init None) I) as Inv.
  pose proof (get_spec _ Inv) as G. destruct (resp_cc_get _) as [st' p]. tauto.
Qed.

(* object -> header: every change made through the object (directive attribute or properties dict) is in
   the header at once: the header text IS str(cache_control), and the header is absent when it is empty *)
Theorem cc_mutation_written f st : inv st ->
  let st' := resp_cc_mutate f st in
  exists p, r_obj st' = Some (p, serialize_cc p) /\ hdr_text (r_hl st') = serialize_cc p /\
            (serialize_cc p = [] -> hg_get_last cc_key (r_hl st') = None).
Proof.
  intros I. unfold resp_cc_mutate, resp_cc_apply. destruct (resp_cc_get st) as [st1 p]. cbn [r_obj r_hl].
  exists (f p). split; [reflexivity|]. split; [apply hdr_text_write|].
  intros E. unfold resp_write. rewrite E. apply hg_get_last_del.
Qed.

(* header -> object: after the header is replaced by a text different from what the object recorded, the
   next read shows exactly the parse of the new text *)
Theorem cc_header_seen st p hv : r_obj st = Some (p, hv) -> hv <> hdr_text (r_hl st) ->
  snd (resp_cc_get st) = parse_cc (hdr_text (r_hl st)).
Proof.
  intros Eo Hne. unfold resp_cc_get. rewrite Eo.
  rewrite (str_eqb_neq _ _ Hne). reflexivity.
Qed.

Theorem cc_first_read init :
  snd (resp_cc_get (mkR init None)) = parse_cc (hdr_text init).
Proof.
  unfold resp_cc_get. cbn [r_obj r_hl].
  destruct (parse_into resp_write _ [] init) as [p hl'] eqn:Ep.
  cbn [snd]. rewrite parse_cc_tokens, <- (parse_into_props resp_write _ [] init), Ep. reflexivity.
Qed.

(* None / del remove the header *)
Theorem cc_none_removes st : inv st ->
  hg_get_last cc_key (r_hl (resp_cc_assign ANone st)) = None /\
  hg_get_last cc_key (r_hl (resp_cc_assign (ADict []) st)) = None.
Proof.
  intros I. unfold resp_cc_assign.
  assert (E : parse_cc [] = []) by reflexivity.
  destruct (r_obj st) as [[p hv]|]; cbn [r_hl].
  - destruct (resp_cc_get st) as [st1 q]. cbv zeta. rewrite E. cbn [r_hl].
    split; unfold resp_write at 1; change (serialize_cc []) with (@nil N); apply hg_get_last_del.
  - split; apply hg_get_last_del.
Qed.

(* ================================================================== the Request binding *)
(* request.py as repaired by 3a34615 (the setter stores text only) and bc88d45 (_update_cache_control drops the
   cached tuple): [drop] = true.  Objects live in a heap because a caller may keep (and later change) an object
   that the request no longer caches. *)
Definition qenv_text (st : qstate) : str := match q_env st with Some t => t | None => [] end.

(* the cache entry, when there is one, names an object that is exactly the parse of the text it was cached under:
   every write through ANY object drops the entry *)
Definition qinv (st : qstate) : Prop :=
  match q_cache st with
  | Some (h, j) => (j < length (q_heap st))%nat /\ nth j (q_heap st) [] = parse_cc h
  | None => True
  end.

Lemma set_nth_length {A} n (x : A) l : length (set_nth n x l) = length l.
Proof. revert n. induction l as [|y l IH]; intros [|n]; cbn; auto. Qed.

Lemma nth_set_nth {A} n (x d : A) l : (n < length l)%nat -> nth n (set_nth n x l) d = x.
Proof. revert n. induction l as [|y l IH]; intros [|n] H; cbn in *; try lia; [reflexivity|apply IH; lia]. Qed.

Lemma req_parse_into i toks : forall p st,
  let r := parse_into (req_write true i) toks p st in
  length (q_heap (snd r)) = length (q_heap st) /\
  (toks = [] -> snd r = st) /\
  (toks <> [] -> q_env (snd r) = Some (serialize_cc (apply_tokens toks p)) /\ q_cache (snd r) = None).
Proof.
  induction toks as [|[n v] toks IH]; intros p st; cbn [parse_into].
  - cbn. split; [reflexivity|]. split; [reflexivity|congruence].
  - cbv zeta. specialize (IH (pset n (token_value v) p) (req_write true i (pset n (token_value v) p) st)).
    cbv zeta in IH. destruct IH as [L [E N]].
    split; [rewrite L; cbn; apply set_nth_length|]. split; [discriminate|]. intros _.
    destruct toks as [|t toks'].
    + rewrite (E eq_refl). cbn. split; reflexivity.
    + apply N. discriminate.
Qed.

Lemma req_get_spec st : qinv st ->
  let '(st', i) := req_cc_get true st in
  let p := nth i (q_heap st') [] in
  qinv st' /\ agree p (qenv_text st) /\ agree p (qenv_text st').
Proof.
  intros I. unfold req_cc_get. fold (qenv_text st). set (value := qenv_text st).
  (* the path that parses a new object *)
  assert (F :
    let i := length (q_heap st) in
    let st0 := mkQ (q_env st) (q_heap st ++ [[]]) (q_cache st) in
    let '(p, st1) := parse_into (req_write true i) (tokens (S (length value)) value) [] st0 in
    let st' := mkQ (q_env st1) (set_nth i p (q_heap st1)) (Some (value, i)) in
    qinv st' /\ agree (nth i (q_heap st') []) value /\ agree (nth i (q_heap st') []) (qenv_text st')).
  { cbv zeta. set (i := length (q_heap st)). set (st0 := mkQ (q_env st) (q_heap st ++ [[]]) (q_cache st)).
    pose proof (req_parse_into i (tokens (S (length value)) value) [] st0) as R. cbv zeta in R.
    pose proof (parse_into_props (req_write true i) (tokens (S (length value)) value) [] st0) as Pp.
    destruct (parse_into (req_write true i) (tokens (S (length value)) value) [] st0) as [p st1].
    cbn [fst snd] in *. destruct R as [L [E N]].
    assert (Hp : p = parse_cc value) by (rewrite parse_cc_tokens; exact Pp).
    assert (Hi : (i < length (q_heap st1))%nat).
    { rewrite L. unfold st0. cbn [q_heap]. rewrite app_length. cbn. unfold i. lia. }
    cbn [q_heap q_env q_cache qinv qenv_text]. rewrite (nth_set_nth i p [] _ Hi).
    split; [split; [rewrite set_nth_length; exact Hi|exact Hp]|]. split; [left; exact Hp|].
    destruct (tokens (S (length value)) value) as [|t toks] eqn:Et.
    - rewrite (E eq_refl). unfold st0. cbn [q_env]. left. rewrite Hp. reflexivity.
    - destruct (N ltac:(discriminate)) as [Ee _]. rewrite Ee. right. rewrite <- Pp. reflexivity. }
  destruct (q_cache st) as [[h j]|] eqn:Ec.
  - destruct (str_eqb h value) eqn:Eh.
    + apply str_eqb_eq in Eh. subst h. unfold qinv in I. rewrite Ec in I. destruct I as [Hj Hn].
      cbv zeta. split; [unfold qinv; rewrite Ec; split; assumption|]. split; left; exact Hn.
    + cbv zeta in F |- *. destruct (parse_into _ _ _ _) as [p st1]. exact F.
  - cbv zeta in F |- *. destruct (parse_into _ _ _ _) as [p st1]. exact F.
Qed.

Lemma req_write_inv i p st : qinv (req_write true i p st).
Proof. exact I. Qed.

Lemma qstep_inv sth o : qinv (fst sth) -> qinv (fst (fst (qcc_step true sth o))).
Proof.
  destruct sth as [st held]. cbn [fst]. intros Hi.
  assert (T : forall h, qinv (fst (match h, held with true, Some i => (st, i) | _, _ => req_cc_get true st end))).
  { intros h. pose proof (req_get_spec st Hi) as G. destruct (req_cc_get true st) as [st1 i1]. cbv zeta in G.
    destruct h; destruct held; cbn [fst]; tauto. }
  destruct o; cbn [qcc_step].
  - pose proof (req_get_spec st Hi) as G. destruct (req_cc_get true st) as [st1 i]. cbv zeta in G. cbn [fst]. tauto.
  - specialize (T held0). destruct (match held0, held with true, Some i => (st, i) | _, _ => req_cc_get true st end) as [st1 i].
    cbn [fst] in T. destruct (attr_set a Request v (nth i (q_heap st1) [])) as [[f|]|e]; cbn [fst]; try exact T.
    apply req_write_inv.
  - specialize (T held0). destruct (match held0, held with true, Some i => (st, i) | _, _ => req_cc_get true st end) as [st1 i].
    cbn [fst] in T. destruct (attr_del a Request (nth i (q_heap st1) [])) as [[f|]|e]; cbn [fst]; try exact T.
    apply req_write_inv.
  - destruct (req_cc_get true st) as [st1 i]. cbn [fst]. apply req_write_inv.
  - destruct (req_cc_get true st) as [st1 i]. cbn [fst]. apply req_write_inv.
  - cbn [fst]. exact Hi.
  - cbn [fst]. exact Hi.
  - cbn [fst]. exact Logic.I.
  - cbn [fst]. exact Logic.I.
Qed.

Lemma qhistory_inv ops : forall sth, qinv (fst sth) ->
  qinv (fst (fold_left (fun s o => fst (qcc_step true s o)) ops sth)).
Proof. induction ops as [|o ops IH]; intros sth I; [exact I|]. cbn [fold_left]. apply IH, qstep_inv, I. Qed.

(* after ANY history on a request (reads, directive assignments / deletions through request.cache_control or
   through an object the caller kept, direct changes of .properties, changes of the environ key, assignments of
   text / dict / None, del): what request.cache_control shows and HTTP_CACHE_CONTROL denote each other *)
Theorem req_cc_live init ops :
  let sth := fold_left (fun s o => fst (qcc_step true s o)) ops (mkQ init [] None, None) in
  let '(st', i) := req_cc_get true (fst sth) in
  let p := nth i (q_heap st') [] in
  agree p (qenv_text (fst sth)) /\ agree p (qenv_text st').
Proof.
  cbv zeta. pose proof (qhistory_inv ops (mkQ init [] None, None) Logic.I) as Inv.
  pose proof (req_get_spec _ Inv) as G. destruct (req_cc_get true _) as [st' i]. cbv zeta in G. tauto.
Qed.

(* a change made through ANY bound object is in the environ at once *)
Theorem req_cc_mutation_written i f st :
  qenv_text (req_cc_mutate true i f st) = serialize_cc (f (nth i (q_heap st) [])).
Proof. reflexivity. Qed.
