From Coq Require Import ZArith NArith List Bool Lia.
Require Import Webob.Lib.Val Webob.Lib.PyStr Webob.Model.MultiDict Webob.Spec.ListModel.
Import ListNotations.

Lemma str_eqb_refl s : str_eqb s s = true.
Proof. induction s as [|c s IH]; cbn; [reflexivity|]. rewrite N.eqb_refl, IH. reflexivity. Qed.

Lemma str_eqb_eq a : forall b, str_eqb a b = true <-> a = b.
Proof.
  induction a as [|x a IH]; intros [|y b]; cbn; split; intros H; try reflexivity; try discriminate.
  - apply andb_true_iff in H as [H1 H2]. apply N.eqb_eq in H1. apply IH in H2. congruence.
  - injection H as -> ->. rewrite N.eqb_refl. apply str_eqb_refl.
Qed.

Section Refine.
  Variable norm : str -> str.
  Variable rh : bool.
  Notation keq := (keq norm).
  Notation hit := (hit norm).
  Notation miss := (miss norm).

  Lemma find_first_hd key l : find_first norm key l = hd_error (getall_s norm key l).
  Proof.
    induction l as [|[k v] l IH]; cbn; [reflexivity|].
    unfold getall_s, ListModel.hit in *. cbn. destruct (MultiDict.keq norm k key); cbn; auto.
  Qed.

  Lemma filter_rev {A} (f : A -> bool) l : filter f (rev l) = rev (filter f l).
  Proof.
    induction l as [|x l IH]; cbn; [reflexivity|].
    rewrite filter_app, IH. cbn. destruct (f x); cbn; [reflexivity| apply app_nil_r].
  Qed.

  Lemma getall_rev key l : getall_s norm key (rev l) = rev (getall_s norm key l).
  Proof. unfold getall_s. rewrite filter_rev, map_rev. reflexivity. Qed.

  Lemma getitem_refines key l : getitem_i norm key l = getitem_s norm key l.
  Proof. unfold getitem_i, getitem_s. rewrite find_first_hd, getall_rev. reflexivity. Qed.

  Lemma getall_refines key l : getall_i norm key l = getall_s norm key l.
  Proof. reflexivity. Qed.

  Lemma del_scan_spec key l : del_scan norm key l = (filter (miss key) l, existsb (hit key) l).
  Proof.
    induction l as [|[k v] l IH]; cbn; [reflexivity|]. rewrite IH.
    unfold ListModel.miss, ListModel.hit; cbn. destruct (MultiDict.keq norm k key); reflexivity.
  Qed.

  Lemma existsb_rev {A} (f : A -> bool) l : existsb f (rev l) = existsb f l.
  Proof.
    induction l as [|x l IH]; cbn; [reflexivity|].
    rewrite existsb_app, IH. cbn. rewrite orb_false_r. apply orb_comm.
  Qed.

  Lemma del_refines key l : del_i norm key l = (del_s norm key l, contains_s norm key l).
  Proof.
    unfold del_i. rewrite del_scan_spec, filter_rev, rev_involutive, existsb_rev. reflexivity.
  Qed.

  Lemma setitem_refines key v l : setitem_i norm rh key v l = setitem_s norm key v l.
  Proof.
    unfold setitem_i, setitem_s. destruct rh; [reflexivity|]. rewrite del_refines. reflexivity.
  Qed.

  Lemma pop_refines key l :
    pop_i norm key l = match getall_s norm key l with
                       | v :: _ => Some (v, remove_first norm key l)
                       | [] => None
                       end.
  Proof.
    induction l as [|[k v] l IH]; cbn; [reflexivity|].
    unfold getall_s, ListModel.hit in *; cbn.
    destruct (MultiDict.keq norm k key); cbn; [reflexivity|].
    rewrite IH. destruct (map snd _); reflexivity.
  Qed.

  Lemma update_refines u : forall l,
    update_i norm rh u l = fold_left (fun l kv => setitem_s norm (fst kv) (snd kv) l) u l.
  Proof.
    induction u as [|[k v] u IH]; intros l; cbn; [reflexivity|].
    rewrite IH, setitem_refines. reflexivity.
  Qed.


  Lemma update_md_go_refines u ks : forall l,
    update_md_go norm rh md_get_other ks u l =
    fold_left (fun l k => match hd_error (rev (map snd (filter (fun kv => str_eqb (fst kv) k) u))) with
                          | Some v => setitem_s norm k v l | None => l end) ks l.
  Proof.
    induction ks as [|k ks IH]; intros l; cbn; [reflexivity|].
    assert (E : md_get_other k u = hd_error (rev (map snd (filter (fun kv => str_eqb (fst kv) k) u)))).
    { unfold md_get_other, getitem_i. 
      assert (F : forall l0, find_first (fun k0 => k0) k l0 = hd_error (map snd (filter (fun kv => str_eqb (fst kv) k) l0))).
      { induction l0 as [|[k0 v0] l0 IH0]; cbn; [reflexivity|]. unfold MultiDict.keq.
        destruct (str_eqb k0 k); cbn; auto. }
      rewrite F, filter_rev, map_rev. reflexivity. }
    rewrite E. destruct (hd_error _); rewrite IH; [rewrite setitem_refines|]; reflexivity.
  Qed.

  Lemma rev_removelast {A} (l : list A) x r : rev l = x :: r -> rev r = removelast l.
  Proof.
    intros H. assert (l = rev r ++ [x]) as ->.
    { rewrite <- (rev_involutive l), H. reflexivity. }
    rewrite removelast_last. reflexivity.
  Qed.

  Theorem step_refines l o : step_i norm rh md_get_other l o = step_s norm l o.
  Proof.
    destruct o as [k v|k v|k|k d| |k d|u|u|u| | |]; cbn.
    - rewrite setitem_refines. reflexivity.
    - reflexivity.
    - rewrite del_refines. destruct (contains_s norm k l); reflexivity.
    - rewrite pop_refines. destruct (getall_s norm k l); reflexivity.
    - destruct (rev l) as [|[k v] r] eqn:E; [reflexivity|].
      rewrite (rev_removelast _ _ _ E). reflexivity.
    - unfold setdefault_i. rewrite find_first_hd.
      destruct (getall_s norm k l) as [|v vs]; cbn; [|reflexivity]. destruct d; reflexivity.
    - rewrite update_refines. reflexivity.
    - unfold update_md_i. rewrite update_md_go_refines. reflexivity.
    - reflexivity.
    - reflexivity.
    - reflexivity.
    - reflexivity.
  Qed.

  (* every history: same item list, same return values, hence same observations *)
  Theorem run_refines probe ops : forall l,
    run_i norm rh md_get_other probe ops l =
    (fix go ops l := match ops with
                     | [] => []
                     | o :: ops' => let '(l', r) := step_s norm l o in
                                    VList [r; observe norm rh probe l'] :: go ops' l'
                     end) ops l.
  Proof.
    induction ops as [|o ops IH]; intros l; cbn; [reflexivity|].
    rewrite step_refines. destruct (step_s norm l o) as [l' r]. rewrite IH. reflexivity.
  Qed.

  Theorem items_after_history ops : forall l,
    fold_left (fun l o => fst (step_i norm rh md_get_other l o)) ops l = run_s norm ops l.
  Proof.
    unfold run_s. induction ops as [|o ops IH]; intros l; cbn; [reflexivity|].
    rewrite step_refines. apply IH.
  Qed.

  (* the observations are the list-model ones *)
  Theorem observe_getitem_last key l :
    getitem_i norm key l = hd_error (rev (getall_s norm key l)).
  Proof. apply getitem_refines. Qed.

  (* spelling is preserved: the pair appended by d[k] = v carries k as written,
     and no surviving pair is altered *)
  Theorem setitem_preserves_spelling key v l :
    exists kept, setitem_i norm rh key v l = kept ++ [(key, v)] /\
                 kept = filter (miss key) l.
  Proof. rewrite setitem_refines. eexists; split; reflexivity. Qed.
End Refine.

(* ---------- dict_of_lists / mixed against their declarative reading ---------- *)

(* ---------- Response.headers is a live two-way view of Response.headerlist ---------- *)
Definition view_inv (r : resp) : Prop :=
  (hv r = None \/ hv r = Some (hl r)) /\ (hl r < length (heap r))%nat.

Lemma set_nth_length {A} n (x : A) l : length (set_nth n x l) = length l.
Proof. revert n; induction l as [|y l IH]; intros [|n]; cbn; auto. Qed.

Lemma rstep_inv r o : view_inv r -> view_inv (fst (rstep r o)).
Proof.
  intros [Hv Hl]. destruct o as [o| k v| |l|l| |c k v]; unfold rstep.
  - destruct (step_i _ _ _ _ _) as [l' ret]. cbn. split; cbn.
    + right. destruct Hv as [->| ->]; reflexivity.
    + rewrite set_nth_length. exact Hl.
  - split; cbn; [exact Hv| rewrite set_nth_length; exact Hl].
  - split; cbn; [exact Hv| rewrite set_nth_length; exact Hl].
  - split; cbn; [left; reflexivity| rewrite app_length; cbn; lia].
  - split; cbn; [left; reflexivity| rewrite app_length; cbn; lia].
  - split; cbn; [left; reflexivity| rewrite app_length; cbn; lia].
  - destruct (Nat.ltb c (length (heap r))); (split; [exact Hv|]); cbn; [rewrite set_nth_length|]; exact Hl.
Qed.

Theorem view_alias ops : forall r, view_inv r ->
  let r' := fold_left (fun r o => fst (rstep r o)) ops r in
  view_items r' = list_items r'.
Proof.
  induction ops as [|o ops IH]; intros r Hr; cbn.
  - unfold view_items, list_items. destruct Hr as [[->| ->] _]; reflexivity.
  - apply IH, rstep_inv, Hr.
Qed.

Lemma nth_set_nth {A} n (x d : A) l : (n < length l)%nat -> nth n (set_nth n x l) d = x.
Proof. revert n; induction l as [|y l IH]; intros [|n] H; cbn in *; try lia; auto. apply IH; lia. Qed.

(* a write through resp.headers lands in the list object resp.headerlist holds,
   and a direct append to that list object is seen through resp.headers *)
Theorem view_write_lands r o : view_inv r ->
  list_items (fst (rstep r (RVia o))) = fst (step_i lower true md_get_other (list_items r) o).
Proof.
  intros [Hv Hl]. cbn. unfold list_items, view_items, cell.
  assert (E : match hv r with Some c => c | None => hl r end = hl r) by (destruct Hv as [->| ->]; reflexivity).
  rewrite E. destruct (step_i _ _ _ _ _) as [l' ret]. cbn. apply nth_set_nth, Hl.
Qed.

Theorem direct_append_seen r k v : view_inv r ->
  view_items (fst (rstep r (RAppend k v))) = view_items r ++ [(k, v)].
Proof.
  intros [Hv Hl]. cbn. unfold view_items, cell. cbn.
  assert (E : match hv r with Some c => c | None => hl r end = hl r) by (destruct Hv as [->| ->]; reflexivity).
  rewrite E. apply nth_set_nth, Hl.
Qed.

(* ---------- NestedMultiDict is the read-only concatenation ---------- *)
Lemma nested_getall_concat ds key :
  nested_getall ds key = getall_s (fun k => k) key (nested_items ds).
Proof.
  unfold nested_getall, nested_items, getall_s.
  induction ds as [|d ds IH]; cbn; [reflexivity|].
  rewrite IH, filter_app, map_app. reflexivity.
Qed.

Lemma nested_len_concat ds : nested_len ds = length (nested_items ds).
Proof.
  unfold nested_len, nested_items.
  assert (G : forall ds a, fold_left (fun a d => (a + length d)%nat) ds a = (a + length (flat_map (fun d : items => d) ds))%nat).
  { induction ds0 as [|d ds0 IH]; intros a; cbn; [lia|]. rewrite IH, app_length. lia. }
  rewrite G. reflexivity.
Qed.

Lemma nested_contains_concat ds key :
  nested_contains ds key = contains_s (fun k => k) key (nested_items ds).
Proof.
  unfold nested_contains, nested_items, contains_s.
  induction ds as [|d ds IH]; cbn; [reflexivity|]. rewrite existsb_app, IH. reflexivity.
Qed.

(* d[k]: the first part that has k wins, with that part's last value *)
Lemma nested_getitem_first ds key :
  nested_getitem ds key =
  match filter (fun d => contains_s (fun k => k) key d) ds with
  | [] => None
  | d :: _ => getitem_s (fun k => k) key d
  end.
Proof.
  unfold nested_getitem. induction ds as [|d ds IH]; cbn; [reflexivity|].
  rewrite getitem_refines. unfold getitem_s, contains_s at 1.
  assert (E : existsb (hit (fun k => k) key) d = negb (match getall_s (fun k => k) key d with [] => true | _ => false end)).
  { unfold getall_s. induction d as [|kv d IHd]; [reflexivity|]. cbn [filter existsb].
    destruct (hit (fun k => k) key kv); [reflexivity | exact IHd]. }
  rewrite E. destruct (getall_s (fun k => k) key d) as [|v vs] eqn:G; cbn.
  - exact IH.
  - destruct (rev vs ++ [v]) eqn:R.
    + apply app_eq_nil in R as [_ R]; discriminate.
    + cbn. rewrite G. cbn. rewrite R. reflexivity.
Qed.
