(* C03 — the element scanner returns exactly the elements of a rendered header, left to right, with the exact
   item text and numeric quality, for every decoration (OWS amounts, empty list elements, q/Q, qvalue spelling). *)
From Coq Require Import ZArith NArith List Bool Lia.
Require Import Webob.Lib.Val Webob.Lib.PyStr Webob.Lib.Rx Webob.Gen.C03_regexes Webob.Model.C03_scan.
Import ListNotations.
Local Open Scope N_scope.

(* ---------- rendering a header from its elements ---------- *)
Record wt := mkWt { w_ows1 : str; w_ows2 : str; w_q : N; w_text : str }.
Definition render_weight (w : wt) : str := w_ows1 w ++ 59 :: w_ows2 w ++ w_q w :: 61 :: w_text w.
Definition el := (str * option wt)%type.
Definition render_el (e : el) : str :=
  fst e ++ match snd e with Some w => render_weight w | None => [] end.
(* every element is followed by "junk": commas and optional whitespace (also trailing / empty elements) *)
Definition body (els : list (el * str)) : str := flat_map (fun ej => render_el (fst ej) ++ snd ej) els.
Definition render (j0 : str) (els : list (el * str)) : str := j0 ++ body els.
Definition canon (e : el) : str * N :=
  (fst e, match snd e with Some w => thousandths (w_text w) | None => 1000 end).

Definition is_junk (c : N) : bool := (c =? 9) || (c =? 32) || (c =? 44).
Definition is_stop (c : N) : bool := is_junk c || (c =? 59).
Definition stop_ok (rest : str) : Prop := match rest with [] => True | c :: _ => is_stop c = true end.
Definition junk_ok (rest : str) : Prop := match rest with [] => True | c :: _ => is_junk c = true end.

(* qvalue texts: "0" / "1" / "0." 0-3 digits / "1." 0-3 zeros *)
Definition qtext_ok (t : str) : Prop :=
  t = [48] \/ t = [49] \/
  (exists ds, t = 48 :: 46 :: ds /\ (length ds <= 3)%nat /\ Forall (fun c => is_digit c = true) ds) \/
  (exists ds, t = 49 :: 46 :: ds /\ (length ds <= 3)%nat /\ Forall (fun c => c = 48) ds).
Definition wt_ok (w : wt) : Prop :=
  Forall (fun c => is_ows c = true) (w_ows1 w) /\ Forall (fun c => is_ows c = true) (w_ows2 w) /\
  is_qQ (w_q w) = true /\ qtext_ok (w_text w).

Lemma span_app p a rest :
  Forall (fun c => p c = true) a -> (match rest with [] => True | c :: _ => p c = false end) ->
  span p (a ++ rest) = (a, rest).
Proof.
  intros Ha Hr. induction Ha as [|c a Hc Ha IH]; cbn.
  - destruct rest as [|c r]; [reflexivity|]. cbn in *. rewrite Hr. reflexivity.
  - rewrite Hc, IH. reflexivity.
Qed.

Lemma span_upto_app p n a rest :
  Forall (fun c => p c = true) a -> (length a <= n)%nat ->
  (match rest with [] => True | c :: _ => p c = false end) ->
  span_upto n p (a ++ rest) = (a, rest).
Proof.
  intros Ha. revert n. induction Ha as [|c a Hc Ha IH]; intros n Hn Hr; cbn.
  - destruct n; [reflexivity|]. destruct rest as [|c r]; [reflexivity|]. cbn in *. rewrite Hr. reflexivity.
  - destruct n as [|n]; [cbn in Hn; lia|]. cbn. rewrite Hc, IH; [reflexivity| cbn in Hn; lia | exact Hr].
Qed.

Lemma skip_ows_app a rest :
  Forall (fun c => is_ows c = true) a -> (match rest with [] => True | c :: _ => is_ows c = false end) ->
  skip_ows (a ++ rest) = rest.
Proof. intros Ha Hr. unfold skip_ows. rewrite span_app; auto. Qed.

Lemma junk_not p rest :
  (forall c, is_junk c = true -> p c = false) -> junk_ok rest ->
  match rest with [] => True | c :: _ => p c = false end.
Proof. intros H Hr. destruct rest as [|c r]; [exact I|]. apply H, Hr. Qed.

Lemma junk_cases c : is_junk c = true -> c = 9 \/ c = 32 \/ c = 44.
Proof.
  unfold is_junk. intros H. apply orb_true_iff in H as [H|H]; [apply orb_true_iff in H as [H|H]|];
    apply N.eqb_eq in H; auto.
Qed.

Lemma take_qvalue_app t rest : qtext_ok t -> junk_ok rest -> take_qvalue (t ++ rest) = Some (t, rest).
Proof.
  intros Ht Hr.
  assert (Hd : match rest with [] => True | c :: _ => is_digit c = false end).
  { apply junk_not; [|exact Hr]. intros c Hc. destruct (junk_cases c Hc) as [->|[->| ->]]; reflexivity. }
  assert (Hz : match rest with [] => True | c :: _ => (c =? 48) = false end).
  { apply junk_not; [|exact Hr]. intros c Hc. destruct (junk_cases c Hc) as [->|[->| ->]]; reflexivity. }
  assert (Hdot : match rest with [] => True | c :: _ => c <> 46 end).
  { destruct rest as [|c r]; [exact I|]. destruct (junk_cases c Hr) as [->|[->| ->]]; discriminate. }
  destruct Ht as [->|[->|[(ds & -> & Hl & Hds)|(ds & -> & Hl & Hds)]]].
  - cbn. destruct rest as [|c r]; [reflexivity|].
    destruct (N.eq_dec c 46) as [->|Hn]; [contradiction|].
    destruct c as [|p]; [reflexivity|]. do 6 (destruct p as [p|p|]; try reflexivity). contradiction Hn; reflexivity.
  - cbn. destruct rest as [|c r]; [reflexivity|].
    destruct (N.eq_dec c 46) as [->|Hn]; [contradiction|].
    destruct c as [|p]; [reflexivity|]. do 6 (destruct p as [p|p|]; try reflexivity). contradiction Hn; reflexivity.
  - cbn [app take_qvalue]. rewrite span_upto_app; auto.
  - cbn [app take_qvalue]. rewrite span_upto_app; auto.
    eapply Forall_impl; [|exact Hds]. intros c ->. reflexivity.
Qed.

Lemma take_weight_app w rest : wt_ok w -> junk_ok rest ->
  take_weight (render_weight w ++ rest) = Some (w_text w, rest).
Proof.
  intros (H1 & H2 & Hq & Ht) Hr. unfold take_weight, render_weight.
  rewrite <- app_assoc. rewrite skip_ows_app; [|exact H1|reflexivity].
  cbn [app]. rewrite <- app_assoc. rewrite skip_ows_app; [|exact H2|].
  - cbn [app]. rewrite Hq. apply take_qvalue_app; assumption.
  - cbn. unfold is_qQ in Hq. unfold is_ows.
    apply orb_true_iff in Hq as [Hq|Hq]; apply N.eqb_eq in Hq; rewrite Hq; reflexivity.
Qed.


Section Simple.
  Variable take_item : str -> option (str * str).
  Variable item_ok : str -> Prop.
  Hypothesis Hitem : forall it rest, item_ok it -> stop_ok rest -> take_item (it ++ rest) = Some (it, rest).
  Hypothesis Hjunk : forall c rest, is_junk c = true -> take_item (c :: rest) = None.
  Hypothesis Hne : forall it, item_ok it -> it <> [].
  (* an item never starts with ';' or OWS, so that an element without weight is not given the next one's *)
  Hypothesis Hstart : forall it, item_ok it -> match it with c :: _ => is_stop c = false | [] => True end.

  Definition el_ok (e : el) : Prop :=
    item_ok (fst e) /\ match snd e with Some w => wt_ok w | None => True end.
  Definition all_junk (j : str) : Prop := Forall (fun c => is_junk c = true) j.
  (* junk between two elements is non-empty (it contains the comma) *)
  Fixpoint els_ok (els : list (el * str)) : Prop :=
    match els with
    | [] => True
    | (e, j) :: rest => el_ok e /\ all_junk j /\ (rest <> [] -> j <> []) /\ els_ok rest
    end.

  Lemma scan_junk j : forall s fuel, all_junk j ->
    scan_simple take_item (length j + fuel) (j ++ s) = scan_simple take_item fuel s.
  Proof.
    induction j as [|c j IH]; intros s fuel Hj; [reflexivity|].
    inversion Hj as [|? ? Hc Hj']; subst. cbn [length app Nat.add scan_simple].
    rewrite Hjunk by exact Hc. apply IH, Hj'.
  Qed.

  (* weight lookup after an element without weight: what follows is junk, then maybe another item *)
  Lemma no_weight_after j rest_els :
    all_junk j -> (rest_els <> [] -> j <> []) -> els_ok rest_els ->
    take_weight (j ++ body rest_els) = None.
  Proof.
    intros Hj Hne' Hels. unfold take_weight.
    set (tail := body rest_els).
    (* split j into leading OWS and the remainder *)
    assert (G : forall j, all_junk j ->
              (match skip_ows (j ++ tail) with 59 :: _ => False | _ => True end) \/
              (Forall (fun c => is_ows c = true) j)).
    { induction j0 as [|c j0 IH]; intros Hj0; [right; constructor|].
      inversion Hj0 as [|? ? Hc Hj0']; subst.
      destruct (junk_cases c Hc) as [->|[->| ->]].
      - unfold skip_ows in *. cbn. destruct (IH Hj0') as [H|H].
        + left. destruct (span is_ows (j0 ++ tail)) as [a b] eqn:E. cbn. cbn in H. exact H.
        + right. constructor; [reflexivity|exact H].
      - unfold skip_ows in *. cbn. destruct (IH Hj0') as [H|H].
        + left. destruct (span is_ows (j0 ++ tail)) as [a b] eqn:E. cbn. cbn in H. exact H.
        + right. constructor; [reflexivity|exact H].
      - left. unfold skip_ows. cbn. exact I. }
    destruct (G j Hj) as [H|H].
    - destruct (skip_ows (j ++ tail)) as [|c r]; [reflexivity|].
      destruct c as [|p]; [reflexivity|]. do 6 (destruct p as [p|p|]; try reflexivity). contradiction.
    - (* j is all OWS: then either no more elements, or j <> [] and the next char is an item start *)
      destruct rest_els as [|[e j'] more].
      + subst tail. unfold body. cbn. rewrite app_nil_r. rewrite <- (app_nil_r j), skip_ows_app; [reflexivity|exact H|exact I].
      + destruct Hels as ((Hi & _) & _). subst tail. unfold body. cbn [flat_map fst snd].
        unfold render_el. rewrite <- !app_assoc.
        pose proof (Hne _ Hi) as Hn. pose proof (Hstart _ Hi) as Hs.
        destruct (fst e) as [|c it]; [contradiction|]. cbn [app].
        rewrite skip_ows_app; [|exact H|].
        * unfold is_stop in Hs. apply orb_false_iff in Hs as [_ Hs]. apply N.eqb_neq in Hs.
          destruct c as [|p]; [reflexivity|]. do 6 (destruct p as [p|p|]; try reflexivity). contradiction Hs; reflexivity.
        * unfold is_stop, is_junk, is_ows in *. apply orb_false_iff in Hs as [Hs _].
          apply orb_false_iff in Hs as [Hs _]. exact Hs.
  Qed.

  Lemma render_cons_stop (j : str) rest_els :
    all_junk j -> (rest_els <> [] -> j <> []) ->
    junk_ok (j ++ body rest_els) \/
    (j = [] /\ rest_els = []).
  Proof.
    intros Hj Hn. destruct j as [|c j].
    - destruct rest_els; [right; auto| exfalso; apply Hn; [discriminate|reflexivity]].
    - left. inversion Hj; subst. cbn. assumption.
  Qed.

  Theorem scan_render els : forall j0 k, all_junk j0 -> els_ok els ->
    scan_simple take_item
      (length j0 + fold_right (fun ej n => S (length (snd ej) + n))%nat k els) (render j0 els)
    = map (fun ej => canon (fst ej)) els.
  Proof.
    unfold render, body. induction els as [|[e j] rest IH]; intros j0 k Hj0 Hels.
    - cbn. rewrite app_nil_r. rewrite <- (app_nil_r j0) at 2. rewrite scan_junk by exact Hj0.
      destruct k; reflexivity.
    - destruct Hels as ((Hi & Hw) & Hj & Hn & Hrest).
      rewrite scan_junk by exact Hj0. cbn [fold_right flat_map fst snd map].
      fold (body rest). set (tail := body rest).
      pose proof (Hne _ Hi) as Hne'.
      assert (Hstop : junk_ok (j ++ tail) \/ (j = [] /\ rest = [])) by (apply render_cons_stop; assumption).
      assert (Hjt : junk_ok (j ++ tail)).
      { destruct Hstop as [H|[-> ->]]; [exact H|]. subst tail. exact I. }
      unfold render_el, canon. destruct e as [it [w|]]; cbn [fst snd] in *.
      + (* with weight *)
        rewrite <- !app_assoc.
        cbn [scan_simple]. destruct it as [|c it']; [contradiction|]. cbn [app].
        change (c :: it' ++ render_weight w ++ j ++ tail) with ((c :: it') ++ (render_weight w ++ j ++ tail)).
        rewrite Hitem; [|exact Hi|].
        * rewrite take_weight_app by assumption. f_equal.
          specialize (IH j k Hj Hrest). exact IH.
        * destruct Hw as (H1 & _). unfold render_weight. destruct (w_ows1 w) as [|o os]; cbn.
          -- reflexivity.
          -- inversion H1; subst. unfold is_stop, is_junk, is_ows in *.
             match goal with H : _ || _ = true |- _ => apply orb_true_iff in H as [H|H]; apply N.eqb_eq in H; subst; reflexivity end.
      + rewrite app_nil_r. rewrite <- !app_assoc.
        cbn [scan_simple]. destruct it as [|c it']; [contradiction|]. cbn [app].
        change (c :: it' ++ j ++ tail) with ((c :: it') ++ (j ++ tail)).
        rewrite Hitem; [|exact Hi|].
        * subst tail. rewrite no_weight_after by assumption. f_equal.
          specialize (IH j k Hj Hrest). exact IH.
        * destruct (j ++ tail) as [|x xs]; [exact I|]. cbn in Hjt. cbn. unfold is_stop. rewrite Hjt. reflexivity.
  Qed.
End Simple.

(* ---------- fuel: S (length s) is always enough ---------- *)
Lemma render_el_length_pos (item_ok : str -> Prop) (Hne : forall it, item_ok it -> it <> []) e :
  el_ok item_ok e -> (1 <= length (render_el e))%nat.
Proof.
  intros [Hi _]. unfold render_el. rewrite app_length. specialize (Hne _ Hi).
  destruct (fst e); [contradiction|cbn; lia].
Qed.

Lemma fuel_enough (item_ok : str -> Prop) (Hne : forall it, item_ok it -> it <> []) els :
  els_ok item_ok els -> forall m, exists k,
    (m + length (body els) = fold_right (fun (ej : el * str) n => S (length (snd ej) + n)) k els)%nat.
Proof.
  induction els as [|[e j] rest IH]; intros Hels m.
  - exists m. cbn. lia.
  - destruct Hels as (He & _ & _ & Hrest).
    pose proof (render_el_length_pos item_ok Hne e He) as Hl.
    destruct (IH Hrest (m + length (render_el e) - 1)%nat) as [k Hk].
    exists k. unfold body in *. cbn [flat_map fold_right fst snd]. rewrite !app_length. lia.
Qed.

Theorem scan_render_full (take_item : str -> option (str * str)) (item_ok : str -> Prop)
  (Hitem : forall it rest, item_ok it -> stop_ok rest -> take_item (it ++ rest) = Some (it, rest))
  (Hjunk : forall c rest, is_junk c = true -> take_item (c :: rest) = None)
  (Hne : forall it, item_ok it -> it <> [])
  (Hstart : forall it, item_ok it -> match it with c :: _ => is_stop c = false | [] => True end)
  j0 els :
  all_junk j0 -> els_ok item_ok els ->
  scan_simple take_item (S (length (render j0 els))) (render j0 els) = map (fun ej => canon (fst ej)) els.
Proof.
  intros Hj0 Hels. destruct (fuel_enough item_ok Hne els Hels 1%nat) as [k Hk].
  replace (S (length (render j0 els))) with
    (length j0 + fold_right (fun (ej : el * str) n => S (length (snd ej) + n)) k els)%nat.
  - apply scan_render with (item_ok := item_ok); assumption.
  - unfold render. rewrite app_length. lia.
Qed.

(* ---------- instance: token items (Accept-Charset, Accept-Encoding) ---------- *)
Definition token_ok (it : str) : Prop := it <> [] /\ Forall (fun c => is_tchar c = true) it.

Lemma stop_cases c : is_stop c = true -> c = 9 \/ c = 32 \/ c = 44 \/ c = 59.
Proof.
  unfold is_stop. intros H. apply orb_true_iff in H as [H|H].
  - destruct (junk_cases c H) as [->|[->| ->]]; auto.
  - apply N.eqb_eq in H; auto.
Qed.

Lemma stop_not_tchar c : is_stop c = true -> is_tchar c = false.
Proof. intros H. destruct (stop_cases c H) as [->|[->|[->| ->]]]; reflexivity. Qed.

Lemma take_token_item it rest : token_ok it -> stop_ok rest -> take_token (it ++ rest) = Some (it, rest).
Proof.
  intros [Hn Ht] Hr. unfold take_token. rewrite span_app.
  - destruct it; [contradiction|reflexivity].
  - exact Ht.
  - destruct rest as [|c r]; [exact I|]. apply stop_not_tchar, Hr.
Qed.

Lemma take_token_junk c rest : is_junk c = true -> take_token (c :: rest) = None.
Proof.
  intros H. unfold take_token. cbn [span].
  assert (E : is_tchar c = false) by (apply stop_not_tchar; unfold is_stop; rewrite H; reflexivity).
  rewrite E. reflexivity.
Qed.

Lemma token_start it : token_ok it -> match it with c :: _ => is_stop c = false | [] => True end.
Proof.
  intros [_ Ht]. destruct it as [|c it]; [exact I|]. inversion Ht as [|? ? Hc _]; subst.
  destruct (is_stop c) eqn:E; [|reflexivity]. apply stop_not_tchar in E. congruence.
Qed.

Theorem scan_token_render j0 els :
  all_junk j0 -> els_ok token_ok els ->
  scan_simple take_token (S (length (render j0 els))) (render j0 els) = map (fun ej => canon (fst ej)) els.
Proof.
  apply scan_render_full.
  - exact take_token_item.
  - exact take_token_junk.
  - intros it [H _]; exact H.
  - exact token_start.
Qed.

(* parse = validator + scanner *)
Theorem parse_charset_render j0 els :
  all_junk j0 -> els_ok token_ok els ->
  rmatch gen_accept_charset (render j0 els) = true ->
  parse_accept_charset (render j0 els) = Some (map (fun ej => canon (fst ej)) els).
Proof.
  intros Hj Hels Hv. unfold parse_accept_charset, parse_simple. rewrite Hv.
  rewrite scan_token_render by assumption. reflexivity.
Qed.

Theorem parse_encoding_render j0 els :
  all_junk j0 -> els_ok token_ok els ->
  rmatch gen_accept_encoding (render j0 els) = true ->
  parse_accept_encoding (render j0 els) = Some (map (fun ej => canon (fst ej)) els).
Proof.
  intros Hj Hels Hv. unfold parse_accept_encoding, parse_simple. rewrite Hv.
  rewrite scan_token_render by assumption. reflexivity.
Qed.

(* an invalid value yields no element list at all (the class method raises ValueError) *)
Theorem parse_invalid validator take_item s :
  rmatch validator s = false -> parse_simple validator take_item s = None.
Proof. intros H. unfold parse_simple. rewrite H. reflexivity. Qed.

(* ---------- instance: language ranges (Accept-Language) ---------- *)
Definition subtag_ok (s : str) : Prop :=
  (1 <= length s <= 8)%nat /\ Forall (fun c => is_alnum c = true) s.
Definition subs_text (subs : list str) : str := flat_map (fun s => 45 :: s) subs.
Definition lang_ok (it : str) : Prop :=
  it = [42] \/
  exists a subs, it = a ++ subs_text subs /\ (1 <= length a <= 8)%nat /\
                 Forall (fun c => is_alpha c = true) a /\ Forall subtag_ok subs.

Lemma stop_not_alnum c : is_stop c = true -> is_alnum c = false.
Proof. intros H. destruct (stop_cases c H) as [->|[->|[->| ->]]]; reflexivity. Qed.
Lemma stop_not_alpha c : is_stop c = true -> is_alpha c = false.
Proof. intros H. destruct (stop_cases c H) as [->|[->|[->| ->]]]; reflexivity. Qed.
Lemma stop_not_dash c : is_stop c = true -> (c =? 45) = false.
Proof. intros H. destruct (stop_cases c H) as [->|[->|[->| ->]]]; reflexivity. Qed.

Lemma take_subtags_app subs : forall fuel rest,
  Forall subtag_ok subs -> stop_ok rest -> (length subs <= fuel)%nat ->
  take_subtags fuel (subs_text subs ++ rest) = (subs_text subs, rest).
Proof.
  induction subs as [|s subs IH]; intros fuel rest Hs Hr Hf.
  - cbn. destruct fuel; [reflexivity|]. destruct rest as [|c r]; [reflexivity|].
    cbn in Hr. cbn. rewrite (stop_not_dash c Hr). reflexivity.
  - inversion Hs as [|? ? [Hl Ha] Hs']; subst. destruct fuel as [|fuel]; [cbn in Hf; lia|].
    unfold subs_text. cbn [flat_map app take_subtags]. fold (subs_text subs).
    rewrite N.eqb_refl. rewrite <- app_assoc.
    rewrite span_upto_app; [| exact Ha | lia |].
    + destruct s as [|x s']; [cbn in Hl; lia|].
      rewrite IH; [|exact Hs'|exact Hr|cbn in Hf; lia].
      reflexivity.
    + destruct subs as [|s2 subs2]; cbn.
      * destruct rest as [|c r]; [exact I|]. apply stop_not_alnum, Hr.
      * reflexivity.
Qed.

Lemma subs_text_length subs : Forall subtag_ok subs -> (length subs <= length (subs_text subs))%nat.
Proof.
  induction 1 as [|s subs [Hl _] _ IH]; [cbn; lia|].
  unfold subs_text in *. cbn [flat_map]. change ((45 :: s) ++ ?x) with (45 :: s ++ x).
  cbn [length]. rewrite app_length. lia.
Qed.

Lemma alpha_not_star c : is_alpha c = true -> (c =? 42) = false.
Proof.
  intros H. apply N.eqb_neq. intros ->. discriminate.
Qed.

Lemma take_lang_item it rest : lang_ok it -> stop_ok rest -> take_lang_range (it ++ rest) = Some (it, rest).
Proof.
  intros [->|(a & subs & -> & Hl & Ha & Hs)] Hr; [reflexivity|].
  destruct a as [|c a']; [cbn in Hl; lia|].
  inversion Ha as [|? ? Hc Ha']; subst.
  rewrite <- app_assoc. set (X := subs_text subs ++ rest).
  unfold take_lang_range. cbn [app]. rewrite (alpha_not_star c Hc).
  change (c :: a' ++ X) with ((c :: a') ++ X).
  rewrite span_upto_app; [| exact Ha | lia |].
  - subst X. rewrite take_subtags_app; [reflexivity | exact Hs | exact Hr |].
    rewrite app_length. pose proof (subs_text_length subs Hs). lia.
  - subst X. destruct subs as [|s subs]; cbn.
    + destruct rest as [|x r]; [exact I|]. apply stop_not_alpha, Hr.
    + reflexivity.
Qed.

Lemma take_lang_junk c rest : is_junk c = true -> take_lang_range (c :: rest) = None.
Proof.
  intros H. destruct (junk_cases c H) as [->|[->| ->]]; reflexivity.
Qed.

Lemma lang_nonempty it : lang_ok it -> it <> [].
Proof.
  intros [->|(a & subs & -> & Hl & _)]; [discriminate|]. destruct a; [cbn in Hl; lia|discriminate].
Qed.

Lemma lang_start it : lang_ok it -> match it with c :: _ => is_stop c = false | [] => True end.
Proof.
  intros [->|(a & subs & -> & Hl & Ha & _)]; [reflexivity|].
  destruct a as [|c a']; [cbn in Hl; lia|]. inversion Ha as [|? ? Hc _]; subst. cbn.
  destruct (is_stop c) eqn:E; [|reflexivity]. apply stop_not_alpha in E. congruence.
Qed.

Theorem parse_language_render j0 els :
  all_junk j0 -> els_ok lang_ok els ->
  rmatch gen_accept_language (render j0 els) = true ->
  parse_accept_language (render j0 els) = Some (map (fun ej => canon (fst ej)) els).
Proof.
  intros Hj Hels Hv. unfold parse_accept_language, parse_simple. rewrite Hv.
  rewrite (scan_render_full take_lang_range lang_ok take_lang_item take_lang_junk lang_nonempty lang_start)
    by assumption.
  reflexivity.
Qed.

(* quality values: the numeric value of every legal spelling, in thousandths *)
Lemma thousandths_bound t : qtext_ok t -> thousandths t <= 1000.
Proof.
  intros [->|[->|[(ds & -> & Hl & Hd)|(ds & -> & Hl & Hd)]]]; try (cbn; lia).
  - unfold thousandths.
    assert (B : forall k, match nth_error ds k with Some c => digit_val c | None => 0 end <= 9).
    { intros k. destruct (nth_error ds k) eqn:E; [|lia]. apply nth_error_In in E.
      rewrite Forall_forall in Hd. specialize (Hd _ E). unfold is_digit, digit_val in *. lia. }
    pose proof (B 0%nat). pose proof (B 1%nat). pose proof (B 2%nat). cbn [digit_val]. unfold digit_val at 1. lia.
  - unfold thousandths.
    assert (B : forall k, match nth_error ds k with Some c => digit_val c | None => 0 end = 0).
    { intros k. destruct (nth_error ds k) eqn:E; [|reflexivity]. apply nth_error_In in E.
      rewrite Forall_forall in Hd. rewrite (Hd _ E). reflexivity. }
    rewrite !B. cbn. lia.
Qed.

(* header objects: absent header -> NoHeader, valid -> Valid with the parsed elements, else Invalid;
   total by construction, the three cases are exhaustive and exclusive *)
Theorem create_cases {A} (parse : str -> option (list A)) h :
  (h = None /\ create parse h = NoHeader) \/
  (exists v p, h = Some v /\ parse v = Some p /\ create parse h = Valid v p) \/
  (exists v, h = Some v /\ parse v = None /\ create parse h = Invalid v).
Proof.
  destruct h as [v|]; [|left; auto]. right. unfold create. destruct (parse v) as [p|] eqn:E.
  - left. exists v, p. auto.
  - right. exists v. auto.
Qed.
