(* C16 — how single-symbol alterations, truncations and extensions of a token change the octets it decodes to
   (concrete base64 layer of Model/C16_signed.v). *)
From Coq Require Import ZArith NArith List Bool Lia ZifyBool ZifyNat ZifyN.
Require Import Webob.Lib.Val Webob.Lib.PyStr Webob.Model.C16_signed Webob.Proofs.C16_signed.
Import ListNotations.
Local Open Scope N_scope.
Ltac Zify.zify_post_hook ::= Z.to_euclidean_division_equations.

(* ---------------- how single-symbol alterations of a token change what it decodes to ------------- *)

Lemma list_ind4 {A} (P : list A -> Prop) :
  P [] -> (forall a, P [a]) -> (forall a b, P [a; b]) -> (forall a b c, P [a; b; c]) ->
  (forall a b c d r, P r -> P (a :: b :: c :: d :: r)) -> forall l, P l.
Proof.
  intros H0 H1 H2 H3 H4. fix IH 1.
  intros [|a [|b [|c [|d r]]]]; [exact H0 | apply H1 | apply H2 | apply H3 | apply H4, IH].
Qed.

(* symbol value (0 for a symbol outside the alphabet) *)
Definition sext (c : N) : N := match a2b c with Some v => v | None => 0 end.
Definition alpha (c : N) : Prop := a2b c <> None.

(* the octets a run of symbol values stands for; an incomplete last quad of 2 / 3 symbols gives
   1 / 2 octets and its low 4 / 2 bits are dropped *)
Fixpoint dec6 (s : list N) : bytes :=
  match s with
  | a :: b :: c :: d :: r =>
      (a * 4 + b / 16) :: ((b mod 16) * 16 + c / 4) :: ((c mod 4) * 64 + d) :: dec6 r
  | [a; b; c] => [a * 4 + b / 16; (b mod 16) * 16 + c / 4]
  | [a; b] => [a * 4 + b / 16]
  | _ => []
  end.

Lemma a2b_range c v : a2b c = Some v -> v < 64 /\ (c =? PAD) = false.
Proof.
  unfold a2b, PAD.
  destruct ((65 <=? c) && (c <=? 90)) eqn:E1; [intros H; inversion H; lia|].
  destruct ((97 <=? c) && (c <=? 122)) eqn:E2; [intros H; inversion H; lia|].
  destruct ((48 <=? c) && (c <=? 57)) eqn:E3; [intros H; inversion H; lia|].
  destruct ((c =? 43) || (c =? 45)) eqn:E4; [intros H; inversion H; lia|].
  destruct ((c =? 47) || (c =? 95)) eqn:E5; [intros H; inversion H; lia|].
  discriminate.
Qed.

Lemma alpha_sext c : alpha c -> a2b c = Some (sext c) /\ sext c < 64 /\ (c =? PAD) = false.
Proof.
  unfold alpha, sext. destruct (a2b c) as [v|] eqn:E; [|congruence].
  intros _. split; [reflexivity|]. apply (a2b_range c v E).
Qed.

Lemma a2b_loop_alpha c s q l p : alpha c ->
  a2b_loop (c :: s) q l p =
  if q =? 0 then a2b_loop s 1 (sext c) 0
  else if q =? 1 then option_map (cons (l * 4 + sext c / 16)) (a2b_loop s 2 (sext c mod 16) 0)
  else if q =? 2 then option_map (cons (l * 16 + sext c / 4)) (a2b_loop s 3 (sext c mod 4) 0)
  else option_map (cons (l * 64 + sext c)) (a2b_loop s 0 0 0).
Proof.
  intros H. destruct (alpha_sext c H) as (E & _ & NP). cbn [a2b_loop]. rewrite NP, E. reflexivity.
Qed.

(* trailing pads, by decoder state *)
Lemma pads_q0 k l p : a2b_loop (repeat PAD k) 0 l p = Some [].
Proof. induction k as [|k IH]; [reflexivity|]. cbn [repeat a2b_loop]. rewrite N.eqb_refl. exact IH. Qed.

Lemma pads_q1 k l p : a2b_loop (repeat PAD k) 1 l p = None.
Proof. induction k as [|k IH]; [reflexivity|]. cbn [repeat a2b_loop]. rewrite N.eqb_refl. exact IH. Qed.

Lemma pads_q2 k l : a2b_loop (repeat PAD k) 2 l 0 = if (2 <=? k)%nat then Some [] else None.
Proof. destruct k as [|[|k]]; reflexivity. Qed.

Lemma pads_q3 k l : a2b_loop (repeat PAD k) 3 l 0 = if (1 <=? k)%nat then Some [] else None.
Proof. destruct k as [|k]; reflexivity. Qed.

(* a run of alphabet symbols followed by k pads *)
Lemma a2b_loop_alpha_pads t : Forall alpha t -> forall k l p,
  a2b_loop (t ++ repeat PAD k) 0 l p =
  match (length t mod 4)%nat with
  | 0%nat => Some (dec6 (map sext t))
  | 1%nat => None
  | 2%nat => if (2 <=? k)%nat then Some (dec6 (map sext t)) else None
  | _ => if (1 <=? k)%nat then Some (dec6 (map sext t)) else None
  end.
Proof.
  induction t as [| a | a b | a b c | a b c d r IH] using list_ind4; intros HF k l p.
  - cbn [app length map dec6]. apply pads_q0.
  - inversion HF as [|? ? Ha _]; subst. cbn [app length map]. rewrite a2b_loop_alpha by assumption.
    cbn [N.eqb]. apply pads_q1.
  - inversion HF as [|? ? Ha HF1]; subst. inversion HF1 as [|? ? Hb _]; subst.
    cbn [app length map dec6]. rewrite a2b_loop_alpha by assumption. cbn [N.eqb].
    rewrite a2b_loop_alpha by assumption. change (1 =? 0) with false. change (1 =? 1) with true. cbv iota.
    rewrite pads_q2. change (2 mod 4)%nat with 2%nat. cbv iota.
    destruct (2 <=? k)%nat; reflexivity.
  - inversion HF as [|? ? Ha HF1]; subst. inversion HF1 as [|? ? Hb HF2]; subst.
    inversion HF2 as [|? ? Hc _]; subst.
    cbn [app length map dec6]. rewrite a2b_loop_alpha by assumption. cbn [N.eqb].
    rewrite a2b_loop_alpha by assumption. change (1 =? 0) with false. change (1 =? 1) with true. cbv iota.
    rewrite a2b_loop_alpha by assumption. change (2 =? 0) with false. change (2 =? 1) with false.
    change (2 =? 2) with true. cbv iota.
    rewrite pads_q3. change (3 mod 4)%nat with 3%nat. cbv iota.
    destruct (1 <=? k)%nat; reflexivity.
  - inversion HF as [|? ? Ha HF1]; subst. inversion HF1 as [|? ? Hb HF2]; subst.
    inversion HF2 as [|? ? Hc HF3]; subst. inversion HF3 as [|? ? Hd HF4]; subst.
    cbn [app length map dec6]. rewrite a2b_loop_alpha by assumption. cbn [N.eqb].
    rewrite a2b_loop_alpha by assumption. change (1 =? 0) with false. change (1 =? 1) with true. cbv iota.
    rewrite a2b_loop_alpha by assumption. change (2 =? 0) with false. change (2 =? 1) with false.
    change (2 =? 2) with true. cbv iota.
    rewrite a2b_loop_alpha by assumption. change (3 =? 0) with false. change (3 =? 1) with false.
    change (3 =? 2) with false. cbv iota.
    rewrite (IH HF4 k 0 0).
    replace (S (S (S (S (length r)))) mod 4)%nat with (length r mod 4)%nat by lia.
    destruct (length r mod 4)%nat as [|[|[|m]]]; cbn [option_map]; try reflexivity.
    + destruct (2 <=? k)%nat; reflexivity.
    + destruct (1 <=? k)%nat; reflexivity.
Qed.

(* what a token made of alphabet symbols decodes to after the padding repair *)
Lemma decoded_alpha t : Forall alpha t ->
  decoded t = if (length t mod 4 =? 1)%nat then None else Some (dec6 (map sext t)).
Proof.
  intros HF. unfold decoded, b64dec, b64padding. rewrite (a2b_loop_alpha_pads t HF).
  assert (M : (length t mod 4 < 4)%nat) by lia.
  destruct (length t mod 4)%nat as [|[|[|[|m]]]]; try reflexivity; lia.
Qed.

(* a symbol outside the alphabet (other than '=') is invisible to the decoder *)
Lemma a2b_loop_skip x s : a2b x = None -> (x =? PAD) = false -> forall pre q l p,
  a2b_loop (pre ++ x :: s) q l p = a2b_loop (pre ++ s) q l p.
Proof.
  intros Hx Hp. induction pre as [|c pre IH]; intros q l p.
  - cbn [app a2b_loop]. rewrite Hp, Hx. reflexivity.
  - cbn [app a2b_loop].
    destruct (c =? PAD).
    + destruct (2 <=? q); [|apply IH]. destruct (4 <=? q + (p + 1)); [reflexivity|apply IH].
    + destruct (a2b c) as [v|]; [|apply IH].
      destruct (q =? 0); [apply IH|]. destruct (q =? 1); [rewrite IH; reflexivity|].
      destruct (q =? 2); rewrite IH; reflexivity.
Qed.

Lemma Forall_firstn' {A} (P : A -> Prop) l : Forall P l -> forall n, Forall P (firstn n l).
Proof. induction 1 as [|x l Hx _ IH]; intros [|n]; cbn; auto. Qed.
Lemma Forall_skipn' {A} (P : A -> Prop) l : Forall P l -> forall n, Forall P (skipn n l).
Proof. induction 1 as [|x l Hx Hl IH]; intros [|n]; cbn; auto. Qed.

Definition subst_at (i : nat) (x : N) (t : bytes) : bytes := firstn i t ++ x :: skipn (S i) t.

Lemma subst_at_length i x t : (i < length t)%nat -> length (subst_at i x t) = length t.
Proof.
  intros H. unfold subst_at. rewrite app_length. cbn [length]. rewrite firstn_length, skipn_length. lia.
Qed.

(* replacing any symbol of an alphabet-only token by an octet outside the alphabet (and not '=')
   makes the token undecodable: loads raises ValueError whatever the key *)
Lemma outside_symbol_undecodable t i x :
  Forall alpha t -> (length t mod 4 <> 1)%nat -> (i < length t)%nat ->
  a2b x = None -> (x =? PAD) = false ->
  decoded (subst_at i x t) = None.
Proof.
  intros HF Hm Hi Hx Hp. unfold decoded, b64dec, b64padding.
  rewrite (subst_at_length i x t Hi). unfold subst_at. rewrite <- app_assoc. cbn [app].
  rewrite (a2b_loop_skip x _ Hx Hp). rewrite app_assoc.
  assert (HF' : Forall alpha (firstn i t ++ skipn (S i) t)).
  { apply Forall_app. split; [apply Forall_firstn'|apply Forall_skipn']; exact HF. }
  rewrite (a2b_loop_alpha_pads _ HF').
  assert (L : length (firstn i t ++ skipn (S i) t) = (length t - 1)%nat).
  { rewrite app_length, firstn_length, skipn_length. lia. }
  rewrite L.
  assert (M : (length t mod 4 < 4)%nat) by lia.
  destruct (length t mod 4)%nat as [|[|[|[|m]]]] eqn:E; try lia.
  - replace ((length t - 1) mod 4)%nat with 3%nat by lia. reflexivity.
  - replace ((length t - 1) mod 4)%nat with 1%nat by lia. reflexivity.
  - replace ((length t - 1) mod 4)%nat with 2%nat by lia. reflexivity.
Qed.

(* replacing the value at position i of a run of symbol values: the octets change unless the new
   value is the old one, or i is the last position and only its dropped low bits differ *)
Definition same_kept_bits (n : nat) (u s : N) : Prop :=
  match (n mod 4)%nat with
  | 0%nat => u = s
  | 1%nat => True
  | 2%nat => u / 16 = s / 16
  | _ => u / 4 = s / 4
  end.

Lemma dec6_subst S : Forall (fun v => v < 64) S -> forall i u, u < 64 -> (i < length S)%nat ->
  dec6 (firstn i S ++ u :: skipn (Datatypes.S i) S) = dec6 S ->
  if (Datatypes.S i =? length S)%nat then same_kept_bits (length S) u (nth i S 0) else u = nth i S 0.
Proof.
  induction S as [| a | a b | a b c | a b c d r IH] using list_ind4; intros HF i u Hu Hi E.
  - cbn in Hi. lia.
  - destruct i as [|i]; [|cbn in Hi; lia]. exact I.
  - inversion HF as [|? ? Ha HF1]; subst. inversion HF1 as [|? ? Hb _]; subst.
    destruct i as [|[|i]]; [| |cbn in Hi; lia]; cbn in E |- *; inversion E; unfold same_kept_bits; cbn; lia.
  - inversion HF as [|? ? Ha HF1]; subst. inversion HF1 as [|? ? Hb HF2]; subst.
    inversion HF2 as [|? ? Hc _]; subst.
    destruct i as [|[|[|i]]]; [| | |cbn in Hi; lia]; cbn in E |- *; inversion E; unfold same_kept_bits; cbn; lia.
  - inversion HF as [|? ? Ha HF1]; subst. inversion HF1 as [|? ? Hb HF2]; subst.
    inversion HF2 as [|? ? Hc HF3]; subst. inversion HF3 as [|? ? Hd HF4]; subst.
    destruct i as [|[|[|[|i]]]].
    + cbn in E |- *. inversion E. lia.
    + cbn in E |- *. inversion E. lia.
    + cbn in E |- *. inversion E. lia.
    + cbn [firstn skipn app dec6 nth length] in E |- *. injection E as E1.
      destruct r as [|r0 r']; cbn [length Nat.eqb]; [unfold same_kept_bits; cbn; lia | lia].
    + cbn [firstn skipn app dec6 nth length] in E |- *.
      injection E as E4.
      assert (Hi' : (i < length r)%nat) by (cbn [length] in Hi; lia).
      specialize (IH HF4 i u Hu Hi' E4).
      change (Datatypes.S (Datatypes.S (Datatypes.S (Datatypes.S (Datatypes.S i)))) =? Datatypes.S (Datatypes.S (Datatypes.S (Datatypes.S (length r)))))%nat
        with (Datatypes.S i =? length r)%nat.
      destruct (Datatypes.S i =? length r)%nat; [|exact IH].
      unfold same_kept_bits in *.
      replace (Datatypes.S (Datatypes.S (Datatypes.S (Datatypes.S (length r)))) mod 4)%nat with (length r mod 4)%nat by lia.
      exact IH.
Qed.

Lemma sext_nth t i : nth i (map sext t) 0 = sext (nth i t 0).
Proof. exact (map_nth sext t 0 i). Qed.

Lemma alpha_substitution t i x :
  Forall alpha t -> (length t mod 4 <> 1)%nat -> (i < length t)%nat -> alpha x ->
  decoded (subst_at i x t) = decoded t ->
  if (S i =? length t)%nat then same_kept_bits (length t) (sext x) (sext (nth i t 0))
  else sext x = sext (nth i t 0).
Proof.
  intros HF Hm Hi Hx E.
  assert (HF' : Forall alpha (subst_at i x t)).
  { unfold subst_at. apply Forall_app. split; [apply Forall_firstn', HF|].
    constructor; [exact Hx|apply Forall_skipn', HF]. }
  rewrite (decoded_alpha _ HF'), (decoded_alpha _ HF), (subst_at_length i x t Hi) in E.
  destruct (length t mod 4 =? 1)%nat eqn:E1; [lia|].
  injection E as E. unfold subst_at in E. rewrite map_app in E. cbn [map] in E.
  rewrite <- firstn_map, <- skipn_map in E.
  assert (HS : Forall (fun v => v < 64) (map sext t)).
  { apply Forall_forall. intros v Hv. apply in_map_iff in Hv as (c & <- & Hc).
    rewrite Forall_forall in HF. apply (alpha_sext c (HF c Hc)). }
  pose proof (dec6_subst (map sext t) HS i (sext x)) as D.
  rewrite map_length, sext_nth in D. apply D; [apply (alpha_sext x Hx)|exact Hi|exact E].
Qed.

Lemma dec6_length S : length (dec6 S) = (3 * length S / 4)%nat.
Proof.
  induction S as [| a | a b | a b c | a b c d r IH] using list_ind4; try reflexivity.
  cbn [dec6 length]. rewrite IH. lia.
Qed.

(* alphabet-only tokens of different lengths never decode to the same octets: every truncation,
   deletion, insertion or extension by alphabet symbols changes the octets or makes the token
   undecodable *)
Lemma length_change_changes_octets t1 t2 :
  Forall alpha t1 -> Forall alpha t2 -> (length t2 mod 4 <> 1)%nat -> length t1 <> length t2 ->
  decoded t1 <> decoded t2.
Proof.
  intros H1 H2 Hm Hl E. rewrite (decoded_alpha _ H1), (decoded_alpha _ H2) in E.
  destruct (length t2 mod 4 =? 1)%nat eqn:E2; [lia|].
  destruct (length t1 mod 4 =? 1)%nat eqn:E1; [discriminate|].
  injection E as E. apply (f_equal (@length N)) in E. rewrite !dec6_length, !map_length in E. lia.
Qed.

Lemma b64url_alpha c : is_b64url c = true -> alpha c.
Proof. intros H. destruct (b64url_in_alphabet c H) as (v & E & _). unfold alpha. congruence. Qed.

(* --- the same, for tokens issued by SignedSerializer.dumps --- *)
Section IssuedTokens.
  Variable V : Type.
  Variable mac : bytes -> bytes -> bytes.
  Variable ser : V -> bytes.
  Variable key : bytes.
  Notation dumps := (signed_dumps V mac ser key).

  Lemma dumps_alpha v : Forall alpha (dumps v).
  Proof. eapply Forall_impl; [|apply dumps_alphabet]. exact b64url_alpha. Qed.

  Lemma dumps_length_mod v : (length (dumps v) mod 4 <> 1)%nat.
  Proof.
    unfold signed_dumps. destruct (repad_rstrip (mac key (ser v) ++ ser v)) as (_ & _ & L).
    cbn zeta in L. rewrite L. lia.
  Qed.

  Lemma issued_alphabet_symbol_changes_octets v i x :
    (S i < length (dumps v))%nat -> alpha x -> sext x <> sext (nth i (dumps v) 0) ->
    decoded (subst_at i x (dumps v)) <> decoded (dumps v).
  Proof.
    intros Hi Hx Hne E.
    pose proof (alpha_substitution (dumps v) i x (dumps_alpha v) (dumps_length_mod v)) as A.
    replace (S i =? length (dumps v))%nat with false in A by lia.
    apply Hne, A; [lia|exact Hx|exact E].
  Qed.

  Lemma issued_last_symbol_changes_octets v x :
    let t := dumps v in
    let i := (length t - 1)%nat in
    t <> [] -> alpha x -> ~ same_kept_bits (length t) (sext x) (sext (nth i t 0)) ->
    decoded (subst_at i x t) <> decoded t.
  Proof.
    cbn zeta. intros Hne Hx Hk E.
    assert (L : (0 < length (dumps v))%nat) by (destruct (dumps v); [congruence|cbn; lia]).
    pose proof (alpha_substitution (dumps v) (length (dumps v) - 1) x (dumps_alpha v) (dumps_length_mod v)) as A.
    replace (S (length (dumps v) - 1) =? length (dumps v))%nat with true in A by lia.
    apply Hk, A; [lia|exact Hx|exact E].
  Qed.

  Lemma issued_other_length_changes_octets v t' :
    Forall alpha t' -> length t' <> length (dumps v) -> decoded t' <> decoded (dumps v).
  Proof.
    intros H Hl. apply length_change_changes_octets; auto using dumps_alpha, dumps_length_mod.
  Qed.
End IssuedTokens.

Lemma issued_outside_symbol_rejected (V : Type) (mac : bytes -> bytes -> bytes) (dsize : nat)
      (ser : V -> bytes) (deser : bytes -> res V) (key : bytes) v i x :
  (i < length (signed_dumps V mac ser key v))%nat -> a2b x = None -> (x =? PAD) = false ->
  signed_loads_b V mac dsize deser key (subst_at i x (signed_dumps V mac ser key v)) = ValueError.
Proof.
  intros Hi Hx Hp. apply loads_b_undecodable.
  apply outside_symbol_undecodable; auto using dumps_alpha, dumps_length_mod.
Qed.
