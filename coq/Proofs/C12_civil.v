(* C12 — the two inverse laws of proleptic-Gregorian day arithmetic (Lib/C12_Civil.v), for ALL days /
   all valid dates: one 400-year era is swept by computation (146 097 days, resp. 400 x 12 x 31 dates),
   the era number is handled by linear arithmetic. *)
From Coq Require Import ZArith List Bool Lia.
Require Import Webob.Lib.C12_Civil.
Import ListNotations.
Local Open Scope Z_scope.

Fixpoint zrange (fuel : nat) (z : Z) : list Z :=
  match fuel with O => [] | S f => z :: zrange f (z + 1) end.

Lemma zrange_in n : forall a z, a <= z < a + Z.of_nat n -> In z (zrange n a).
Proof.
  induction n as [|n IH]; intros a z Hz; [lia|].
  cbn [zrange]. destruct (Z.eq_dec a z) as [->|Hne]; [left; reflexivity|].
  right. apply IH. lia.
Qed.

(* ------------------------------------------------------------------ sweep 1: every day of an era *)
Definition chk1 (doe : Z) : bool :=
  (0 <=? yoe_of doe) && (yoe_of doe <? 400) &&
  (doe_of (yoe_of doe) (m_of doe) (d_of doe) =? doe) &&
  (1 <=? m_of doe) && (m_of doe <=? 12) && (1 <=? d_of doe) && (d_of doe <=? 31) &&
  valid_date (yoe_of doe + (if m_of doe <=? 2 then 1 else 0)) (m_of doe) (d_of doe).

Lemma sweep1 : forallb chk1 (zrange (Z.to_nat 146097) 0) = true.
Proof. vm_compute. reflexivity. Qed.

Lemma chk1_all doe : 0 <= doe < 146097 -> chk1 doe = true.
Proof.
  intros H. pose proof sweep1 as S. rewrite forallb_forall in S. apply S.
  apply zrange_in. rewrite Z2Nat.id; lia.
Qed.

Lemma era_div yoe era : 0 <= yoe < 400 -> (yoe + era * 400) / 400 = era /\ (yoe + era * 400) mod 400 = yoe.
Proof.
  intros H. split.
  - rewrite Z_div_plus_full by lia. rewrite Z.div_small; lia.
  - rewrite Z_mod_plus_full. apply Z.mod_small. lia.
Qed.

Lemma doe_div doe era : 0 <= doe < 146097 ->
  (era * 146097 + doe) / 146097 = era /\ (era * 146097 + doe) mod 146097 = doe.
Proof.
  intros H. split.
  - rewrite Z.add_comm, Z_div_plus_full by lia. rewrite Z.div_small; lia.
  - rewrite Z.add_comm, Z_mod_plus_full. apply Z.mod_small. lia.
Qed.

Theorem days_from_civil_of_days z :
  let '(y, m, d) := civil_from_days z in days_from_civil y m d = z.
Proof.
  unfold civil_from_days.
  set (z' := z + 719468). set (era := z' / 146097). set (doe := z' mod 146097).
  assert (Hd : 0 <= doe < 146097) by (apply Z.mod_pos_bound; lia).
  pose proof (chk1_all doe Hd) as C. unfold chk1 in C.
  repeat (apply andb_true_iff in C; destruct C as [C ?]).
  unfold days_from_civil.
  set (m := m_of doe) in *. set (yoe := yoe_of doe) in *.
  assert (Hy : 0 <= yoe < 400) by lia.
  assert (E : (if m <=? 2 then yoe + era * 400 + (if m <=? 2 then 1 else 0) - 1
               else yoe + era * 400 + (if m <=? 2 then 1 else 0)) = yoe + era * 400).
  { destruct (m <=? 2); lia. }
  rewrite E. destruct (era_div yoe era Hy) as [E1 E2]. rewrite E1, E2.
  assert (E3 : doe_of yoe m (d_of doe) = doe) by lia. rewrite E3.
  pose proof (Z.div_mod z' 146097 ltac:(lia)) as DM. fold era doe in DM. unfold z' in *. lia.
Qed.

Theorem civil_from_days_valid z :
  let '(y, m, d) := civil_from_days z in valid_date y m d = true.
Proof.
  unfold civil_from_days.
  set (z' := z + 719468). set (era := z' / 146097). set (doe := z' mod 146097).
  assert (Hd : 0 <= doe < 146097) by (apply Z.mod_pos_bound; lia).
  pose proof (chk1_all doe Hd) as C. unfold chk1 in C.
  repeat (apply andb_true_iff in C; destruct C as [C ?]).
  match goal with H : valid_date _ _ _ = true |- _ => rename H into V end.
  unfold valid_date in *. unfold days_in_month in *.
  assert (L : is_leap (yoe_of doe + era * 400 + (if m_of doe <=? 2 then 1 else 0))
              = is_leap (yoe_of doe + (if m_of doe <=? 2 then 1 else 0))).
  { unfold is_leap.
    set (a := yoe_of doe + (if m_of doe <=? 2 then 1 else 0)).
    replace (yoe_of doe + era * 400 + (if m_of doe <=? 2 then 1 else 0)) with (a + era * 400) by (unfold a; lia).
    replace (a + era * 400) with (a + (era * 100) * 4) at 1 by lia. rewrite Z_mod_plus_full.
    replace (a + era * 400) with (a + (era * 4) * 100) at 1 by lia. rewrite Z_mod_plus_full.
    rewrite Z_mod_plus_full. reflexivity. }
  rewrite L. exact V.
Qed.

(* ------------------------------------------------------------------ sweep 2: every valid date of an era *)
Definition chk2 (yoe m d : Z) : bool :=
  implb (valid_date (yoe + (if m <=? 2 then 1 else 0)) m d)
        (let doe := doe_of yoe m d in
         (0 <=? doe) && (doe <? 146097) && (yoe_of doe =? yoe) && (m_of doe =? m) && (d_of doe =? d)).

Lemma sweep2 :
  forallb (fun yoe => forallb (fun m => forallb (fun d => chk2 yoe m d) (zrange 31 1)) (zrange 12 1))
          (zrange 400 0) = true.
Proof. vm_compute. reflexivity. Qed.

Lemma chk2_all yoe m d : 0 <= yoe < 400 -> 1 <= m <= 12 -> 1 <= d <= 31 -> chk2 yoe m d = true.
Proof.
  intros Hy Hm Hd. pose proof sweep2 as S.
  rewrite forallb_forall in S. specialize (S yoe (zrange_in 400 0 yoe ltac:(lia))).
  rewrite forallb_forall in S. specialize (S m (zrange_in 12 1 m ltac:(lia))).
  rewrite forallb_forall in S. exact (S d (zrange_in 31 1 d ltac:(lia))).
Qed.

Lemma is_leap_shift a k : is_leap (a + k * 400) = is_leap a.
Proof.
  unfold is_leap.
  replace (a + k * 400) with (a + (k * 100) * 4) at 1 by lia. rewrite Z_mod_plus_full.
  replace (a + k * 400) with (a + (k * 4) * 100) at 1 by lia. rewrite Z_mod_plus_full.
  rewrite Z_mod_plus_full. reflexivity.
Qed.

Lemma days_in_month_le y m : days_in_month y m <= 31.
Proof.
  unfold days_in_month. destruct (m =? 2); [destruct (is_leap y); lia|].
  destruct ((m =? 4) || (m =? 6) || (m =? 9) || (m =? 11)); lia.
Qed.

Theorem civil_from_days_of_civil y m d : valid_date y m d = true ->
  civil_from_days (days_from_civil y m d) = (y, m, d).
Proof.
  intros V. unfold days_from_civil.
  set (adj := if m <=? 2 then 1 else 0).
  set (ys := if m <=? 2 then y - 1 else y).
  assert (Hys : y = ys + adj) by (unfold ys, adj; destruct (m <=? 2); lia).
  set (era := ys / 400). set (yoe := ys mod 400).
  assert (Hy : 0 <= yoe < 400) by (apply Z.mod_pos_bound; lia).
  pose proof (Z.div_mod ys 400 ltac:(lia)) as DM. fold era yoe in DM.
  assert (V' : valid_date (yoe + adj) m d = true).
  { unfold valid_date, days_in_month in *.
    replace y with ((yoe + adj) + era * 400) in V by lia. rewrite is_leap_shift in V. exact V. }
  assert (Hm : 1 <= m <= 12 /\ 1 <= d <= 31).
  { unfold valid_date in V. repeat (apply andb_true_iff in V; destruct V as [V ?]).
    pose proof (days_in_month_le y m). lia. }
  pose proof (chk2_all yoe m d Hy (proj1 Hm) (proj2 Hm)) as C. unfold chk2 in C.
  fold adj in C. rewrite V' in C. cbn [implb] in C. cbv zeta in C.
  repeat (apply andb_true_iff in C; destruct C as [C ?]).
  set (doe := doe_of yoe m d) in *.
  unfold civil_from_days.
  replace (era * 146097 + doe - 719468 + 719468) with (era * 146097 + doe) by lia.
  destruct (doe_div doe era ltac:(lia)) as [E1 E2]. rewrite E1, E2.
  assert (Em : m_of doe = m) by lia. assert (Ed : d_of doe = d) by lia.
  assert (Ey : yoe_of doe = yoe) by lia.
  rewrite Em, Ed, Ey. fold adj. f_equal. f_equal. lia.
Qed.

(* the day number is linear in the day of the month: what calendar.timegm relies on *)
Lemma days_from_civil_day y m d : days_from_civil y m d = days_from_civil y m 1 + d - 1.
Proof. unfold days_from_civil, doe_of. lia. Qed.
