(* C12 — the two inverse laws of proleptic-Gregorian day arithmetic (Lib/C12_Civil.v), for ALL days / all
   valid dates.  The era number is handled by linear arithmetic; inside one 400-year era the year-of-era
   function is shown monotone (lia) and pinned at the first and last day of each of its 400 years (a sweep of
   400 evaluations); month and day come from the day of the year (sweeps of 366 and 12 x 31 evaluations).
   The sweeps are small on purpose: coqchk re-checks them without the VM. *)
From Coq Require Import ZArith List Bool Lia.
Require Import Webob.Lib.C12_Civil.
Import ListNotations.
Local Open Scope Z_scope.

Fixpoint zrange (fuel : nat) (z : Z) : list Z :=
  match fuel with O => [] | S f => z :: zrange f (z + 1) end.

Lemma zrange_in n : forall a z, a <= z < a + Z.of_nat n -> In z (zrange n a).
Proof.
  induction n as [|n IH]; intros a z Hz; [lia|].
  cbn [zrange]. destruct (Z.eq_dec a z) as [->|Hne]; [left; reflexivity|].
  right. apply IH. lia.
Qed.

(* ------------------------------------------------------------------ year of era *)
(* first day of era of (March-based) year-of-era y *)
Definition ystart (y : Z) : Z := 365 * y + y / 4 - y / 100 + y / 400.
Definition ynum (doe : Z) : Z := doe - doe / 1460 + doe / 36524 - doe / 146096.

Lemma yoe_of_ynum doe : yoe_of doe = ynum doe / 365.
Proof. reflexivity. Qed.

Lemma ynum_step doe : 0 <= doe < 146096 -> ynum doe <= ynum (doe + 1).
Proof. intros H. unfold ynum. Z.div_mod_to_equations. lia. Qed.

Lemma ynum_mono_nat n : forall doe, 0 <= doe -> doe + Z.of_nat n <= 146096 -> ynum doe <= ynum (doe + Z.of_nat n).
Proof.
  induction n as [|n IH]; intros doe H0 H1.
  - replace (doe + Z.of_nat 0) with doe by lia. lia.
  - rewrite Nat2Z.inj_succ. replace (doe + Z.succ (Z.of_nat n)) with ((doe + Z.of_nat n) + 1) by lia.
    pose proof (IH doe H0 ltac:(lia)). pose proof (ynum_step (doe + Z.of_nat n) ltac:(lia)). lia.
Qed.

Lemma yoe_mono a b : 0 <= a <= b -> b <= 146096 -> yoe_of a <= yoe_of b.
Proof.
  intros Hab Hb. rewrite !yoe_of_ynum. apply Z.div_le_mono; [lia|].
  pose proof (ynum_mono_nat (Z.to_nat (b - a)) a ltac:(lia)) as M.
  rewrite Z2Nat.id in M by lia. replace (a + (b - a)) with b in M by lia. apply M. lia.
Qed.

(* each year of the era: length, and yoe_of at its first and last day *)
Definition chk_year (y : Z) : bool :=
  (yoe_of (ystart y) =? y) && (yoe_of (ystart (y + 1) - 1) =? y) &&
  (ystart (y + 1) - ystart y =? 365 + (if is_leap (y + 1) then 1 else 0)).

Lemma sweep_years : forallb chk_year (zrange 400 0) = true.
Proof. vm_compute. reflexivity. Qed.

Lemma year_facts y : 0 <= y < 400 ->
  yoe_of (ystart y) = y /\ yoe_of (ystart (y + 1) - 1) = y /\
  ystart (y + 1) - ystart y = 365 + (if is_leap (y + 1) then 1 else 0).
Proof.
  intros H. pose proof sweep_years as S. rewrite forallb_forall in S.
  specialize (S y (zrange_in 400 0 y ltac:(lia))). unfold chk_year in S.
  repeat (apply andb_true_iff in S; destruct S as [S ?]). lia.
Qed.

Lemma ystart_0 : ystart 0 = 0. Proof. reflexivity. Qed.
Lemma ystart_400 : ystart 400 = 146097. Proof. reflexivity. Qed.

Lemma ystart_mono y : 0 <= y < 400 -> ystart y < ystart (y + 1).
Proof. intros H. destruct (year_facts y H) as [_ [_ E]]. destruct (is_leap (y + 1)); lia. Qed.

Lemma ystart_bounds y : 0 <= y <= 400 -> 0 <= ystart y <= 146097.
Proof. intros H. unfold ystart. Z.div_mod_to_equations. lia. Qed.

(* every day of year y of the era has year-of-era y *)
Lemma yoe_of_in_year y doe : 0 <= y < 400 -> ystart y <= doe < ystart (y + 1) -> yoe_of doe = y.
Proof.
  intros Hy Hd. destruct (year_facts y Hy) as [F1 [F2 _]].
  pose proof (ystart_bounds y ltac:(lia)). pose proof (ystart_bounds (y + 1) ltac:(lia)).
  pose proof (yoe_mono (ystart y) doe ltac:(lia) ltac:(lia)).
  pose proof (yoe_mono doe (ystart (y + 1) - 1) ltac:(lia) ltac:(lia)). lia.
Qed.

(* conversely the year-of-era of any day of the era is in range and brackets the day *)
Lemma yoe_of_spec doe : 0 <= doe < 146097 ->
  0 <= yoe_of doe < 400 /\ ystart (yoe_of doe) <= doe < ystart (yoe_of doe + 1).
Proof.
  intros Hd. set (y := yoe_of doe).
  assert (R : 0 <= y < 400).
  { pose proof (yoe_mono 0 doe ltac:(lia) ltac:(lia)) as L.
    pose proof (yoe_mono doe 146096 ltac:(lia) ltac:(lia)) as U.
    change (yoe_of 0) with 0 in L. change (yoe_of 146096) with 399 in U. unfold y. lia. }
  split; [exact R|]. split.
  - (* doe < ystart y would put it in an earlier year *)
    destruct (Z_lt_ge_dec doe (ystart y)) as [Hlt|]; [|lia]. exfalso.
    destruct (Z.eq_dec y 0) as [E0|]; [rewrite E0, ystart_0 in Hlt; lia|].
    destruct (year_facts (y - 1) ltac:(lia)) as [_ [F2 _]]. replace (y - 1 + 1) with y in F2 by lia.
    pose proof (ystart_bounds y ltac:(lia)).
    pose proof (yoe_mono doe (ystart y - 1) ltac:(lia) ltac:(lia)). unfold y in *. lia.
  - destruct (Z_lt_ge_dec doe (ystart (y + 1))) as [|Hge]; [lia|]. exfalso.
    destruct (Z.eq_dec y 399) as [E|]; [rewrite E in Hge; change (ystart (399 + 1)) with 146097 in Hge; lia|].
    destruct (year_facts (y + 1) ltac:(lia)) as [F1 _].
    pose proof (ystart_bounds (y + 1) ltac:(lia)).
    pose proof (yoe_mono (ystart (y + 1)) doe ltac:(lia) ltac:(lia)). unfold y in *. lia.
Qed.

(* ------------------------------------------------------------------ month and day from the day of year *)
Definition mp_of_doy (doy : Z) : Z := (5 * doy + 2) / 153.
Definition dom_of_doy (doy : Z) : Z := doy - (153 * mp_of_doy doy + 2) / 5 + 1.
Definition doy_of_md (m d : Z) : Z := (153 * mp_of_month m + 2) / 5 + d - 1.

Definition chk_doy (doy : Z) : bool :=
  let m := month_of_mp (mp_of_doy doy) in
  let d := dom_of_doy doy in
  (1 <=? m) && (m <=? 12) && (1 <=? d) && (d <=? 31) && (doy_of_md m d =? doy).

Lemma sweep_doy : forallb chk_doy (zrange 366 0) = true.
Proof. vm_compute. reflexivity. Qed.

Lemma doy_facts doy : 0 <= doy <= 365 ->
  let m := month_of_mp (mp_of_doy doy) in
  let d := dom_of_doy doy in
  1 <= m <= 12 /\ 1 <= d <= 31 /\ doy_of_md m d = doy.
Proof.
  intros H. pose proof sweep_doy as S. rewrite forallb_forall in S.
  specialize (S doy (zrange_in 366 0 doy ltac:(lia))). unfold chk_doy in S. cbv zeta in *.
  repeat (apply andb_true_iff in S; destruct S as [S ?]). lia.
Qed.

(* a month and day, back from their day of year; and how far into the year they can be *)
Definition chk_md (m d : Z) : bool :=
  let doy := doy_of_md m d in
  (* February is the last month of the March-based year; its 29th needs a leap year *)
  implb (d <=? days_in_month 4 m)
        ((0 <=? doy) && (month_of_mp (mp_of_doy doy) =? m) && (dom_of_doy doy =? d) && (doy <=? 365)) &&
  implb (d <=? days_in_month 1 m) (doy <=? 364).

Lemma sweep_md : forallb (fun m => forallb (fun d => chk_md m d) (zrange 31 1)) (zrange 12 1) = true.
Proof. vm_compute. reflexivity. Qed.

Lemma md_facts m d : 1 <= m <= 12 -> 1 <= d <= days_in_month 4 m ->
  let doy := doy_of_md m d in
  0 <= doy <= 365 /\ month_of_mp (mp_of_doy doy) = m /\ dom_of_doy doy = d /\
  (d <= days_in_month 1 m -> doy <= 364).
Proof.
  intros Hm Hd. pose proof sweep_md as S. rewrite forallb_forall in S.
  specialize (S m (zrange_in 12 1 m ltac:(lia))). rewrite forallb_forall in S.
  assert (L31 : days_in_month 4 m <= 31).
  { unfold days_in_month. destruct (m =? 2); [destruct (is_leap 4); lia|].
    destruct ((m =? 4) || (m =? 6) || (m =? 9) || (m =? 11)); lia. }
  specialize (S d (zrange_in 31 1 d ltac:(lia))). unfold chk_md in S. cbv zeta in *.
  apply andb_true_iff in S. destruct S as [S1 S2].
  assert (Q : (d <=? days_in_month 4 m) = true) by lia. rewrite Q in S1. cbn [implb] in S1.
  repeat (apply andb_true_iff in S1; destruct S1 as [S1 ?]).
  repeat split; try lia.
  all: try (intros L; destruct (d <=? days_in_month 1 m) eqn:E; [cbn [implb] in S2; lia|lia]).
Qed.

(* unfolding of the library functions in these terms *)
Lemma doe_of_split yoe m d : 0 <= yoe < 400 -> doe_of yoe m d = ystart yoe + doy_of_md m d.
Proof. intros H. unfold doe_of, ystart, doy_of_md. rewrite (Z.div_small yoe 400) by lia. lia. Qed.
Lemma doy_of_split doe : 0 <= yoe_of doe < 400 -> doy_of doe = doe - ystart (yoe_of doe).
Proof. intros H. unfold doy_of, ystart. cbv zeta. rewrite (Z.div_small (yoe_of doe) 400) by lia. lia. Qed.
Lemma m_of_split doe : m_of doe = month_of_mp (mp_of_doy (doy_of doe)).
Proof. reflexivity. Qed.
Lemma d_of_split doe : d_of doe = dom_of_doy (doy_of doe).
Proof. reflexivity. Qed.

(* ------------------------------------------------------------------ eras *)
Lemma era_div yoe era : 0 <= yoe < 400 -> (yoe + era * 400) / 400 = era /\ (yoe + era * 400) mod 400 = yoe.
Proof.
  intros H. split.
  - rewrite Z_div_plus_full by lia. rewrite Z.div_small; lia.
  - rewrite Z_mod_plus_full. apply Z.mod_small. lia.
Qed.

Lemma doe_div doe era : 0 <= doe < 146097 ->
  (era * 146097 + doe) / 146097 = era /\ (era * 146097 + doe) mod 146097 = doe.
Proof.
  intros H. split.
  - rewrite Z.add_comm, Z_div_plus_full by lia. rewrite Z.div_small; lia.
  - rewrite Z.add_comm, Z_mod_plus_full. apply Z.mod_small. lia.
Qed.

(* what is known about the civil date of every day of an era *)
Lemma doe_facts doe : 0 <= doe < 146097 ->
  0 <= yoe_of doe < 400 /\ 1 <= m_of doe <= 12 /\ 1 <= d_of doe <= 31 /\
  doe_of (yoe_of doe) (m_of doe) (d_of doe) = doe.
Proof.
  intros Hd. destruct (yoe_of_spec doe Hd) as [Hy [L U]].
  destruct (year_facts (yoe_of doe) Hy) as [_ [_ Len]].
  assert (Hdoy : 0 <= doy_of doe <= 365).
  { rewrite (doy_of_split doe Hy). destruct (is_leap (yoe_of doe + 1)); lia. }
  destruct (doy_facts (doy_of doe) Hdoy) as [Hm [Hdd E]]. cbv zeta in *.
  rewrite m_of_split, d_of_split. repeat split; try lia.
  rewrite (doe_of_split _ _ _ Hy), E, (doy_of_split doe Hy). lia.
Qed.

Theorem days_from_civil_of_days z :
  let '(y, m, d) := civil_from_days z in days_from_civil y m d = z.
Proof.
  unfold civil_from_days.
  set (z' := z + 719468). set (era := z' / 146097). set (doe := z' mod 146097).
  assert (Hd : 0 <= doe < 146097) by (apply Z.mod_pos_bound; lia).
  destruct (doe_facts doe Hd) as [Hy [Hm [Hdd E3]]].
  unfold days_from_civil.
  set (m := m_of doe) in *. set (yoe := yoe_of doe) in *.
  assert (E : (if m <=? 2 then yoe + era * 400 + (if m <=? 2 then 1 else 0) - 1
               else yoe + era * 400 + (if m <=? 2 then 1 else 0)) = yoe + era * 400).
  { destruct (m <=? 2); lia. }
  rewrite E. destruct (era_div yoe era Hy) as [E1 E2]. rewrite E1, E2, E3.
  pose proof (Z.div_mod z' 146097 ltac:(lia)) as DM. fold era doe in DM. unfold z' in *. lia.
Qed.

(* month in 1..12 and day in 1..31 for every day *)
Theorem civil_from_days_ranges z :
  let '(y, m, d) := civil_from_days z in 1 <= m <= 12 /\ 1 <= d <= 31.
Proof.
  unfold civil_from_days.
  set (z' := z + 719468). set (doe := z' mod 146097).
  assert (Hd : 0 <= doe < 146097) by (apply Z.mod_pos_bound; lia).
  destruct (doe_facts doe Hd) as [_ [Hm [Hdd _]]]. split; assumption.
Qed.

(* ------------------------------------------------------------------ valid dates *)
Lemma is_leap_shift a k : is_leap (a + k * 400) = is_leap a.
Proof.
  unfold is_leap.
  replace (a + k * 400) with (a + (k * 100) * 4) at 1 by lia. rewrite Z_mod_plus_full.
  replace (a + k * 400) with (a + (k * 4) * 100) at 1 by lia. rewrite Z_mod_plus_full.
  rewrite Z_mod_plus_full. reflexivity.
Qed.

Lemma days_in_month_le y m : days_in_month y m <= 31.
Proof.
  unfold days_in_month. destruct (m =? 2); [destruct (is_leap y); lia|].
  destruct ((m =? 4) || (m =? 6) || (m =? 9) || (m =? 11)); lia.
Qed.

(* days_in_month only looks at leapness: compare with the model years 1 (common) and 4 (leap) *)
Lemma days_in_month_leap y m :
  days_in_month y m = if is_leap y then days_in_month 4 m else days_in_month 1 m.
Proof. unfold days_in_month. destruct (is_leap y); reflexivity. Qed.

Theorem civil_from_days_of_civil y m d : valid_date y m d = true ->
  civil_from_days (days_from_civil y m d) = (y, m, d).
Proof.
  intros V. unfold days_from_civil.
  set (adj := if m <=? 2 then 1 else 0).
  set (ys := if m <=? 2 then y - 1 else y).
  assert (Hys : y = ys + adj) by (unfold ys, adj; destruct (m <=? 2); lia).
  set (era := ys / 400). set (yoe := ys mod 400).
  assert (Hy : 0 <= yoe < 400) by (apply Z.mod_pos_bound; lia).
  pose proof (Z.div_mod ys 400 ltac:(lia)) as DM. fold era yoe in DM.
  unfold valid_date in V. repeat (apply andb_true_iff in V; destruct V as [V ?]).
  pose proof (days_in_month_le y m) as L31.
  assert (Hm : 1 <= m <= 12) by lia.
  assert (Dle : d <= days_in_month y m) by lia. rewrite days_in_month_leap in Dle.
  assert (D14 : days_in_month 1 m <= days_in_month 4 m).
  { unfold days_in_month. destruct (m =? 2); [cbn; lia|].
    destruct ((m =? 4) || (m =? 6) || (m =? 9) || (m =? 11)); lia. }
  assert (Hd : 1 <= d <= days_in_month 4 m) by (destruct (is_leap y); lia).
  destruct (md_facts m d Hm Hd) as [D0 [Dm [Dd B1]]]. cbv zeta in *.
  set (doy := doy_of_md m d) in *.
  destruct (year_facts yoe Hy) as [_ [_ Len]].
  (* the day of year fits into year yoe of the era *)
  assert (Hfit : doy < ystart (yoe + 1) - ystart yoe).
  { rewrite Len.
    destruct (Z.leb_spec m 2) as [M2|M2].
    - (* January / February belong to calendar year yoe + 1 (mod 400) *)
      assert (Ely : is_leap y = is_leap (yoe + 1)).
      { replace y with ((yoe + 1) + era * 400) by (unfold adj in *; destruct (m <=? 2) eqn:Q; lia).
        apply is_leap_shift. }
      rewrite Ely in Dle. destruct (is_leap (yoe + 1)); [lia|pose proof (B1 Dle); lia].
    - (* March .. December: month lengths do not depend on leapness *)
      assert (E14 : days_in_month 4 m = days_in_month 1 m).
      { unfold days_in_month. destruct (m =? 2) eqn:Q; [lia|reflexivity]. }
      rewrite E14 in Dle. assert (Dle1 : d <= days_in_month 1 m) by (destruct (is_leap y); exact Dle).
      pose proof (B1 Dle1). destruct (is_leap (yoe + 1)); lia. }
  set (doe := doe_of yoe m d).
  assert (Edoe : doe = ystart yoe + doy) by (unfold doe; apply doe_of_split; exact Hy).
  pose proof (ystart_bounds yoe ltac:(lia)). pose proof (ystart_bounds (yoe + 1) ltac:(lia)).
  assert (Hdoe : 0 <= doe < 146097) by lia.
  assert (Ey : yoe_of doe = yoe) by (apply yoe_of_in_year; [exact Hy|lia]).
  assert (Edoy : doy_of doe = doy) by (rewrite doy_of_split; rewrite Ey; lia).
  unfold civil_from_days.
  replace (era * 146097 + doe - 719468 + 719468) with (era * 146097 + doe) by lia.
  destruct (doe_div doe era Hdoe) as [E1 E2]. rewrite E1, E2.
  rewrite m_of_split, d_of_split, Edoy, Dm, Dd, Ey. fold adj. f_equal. f_equal. lia.
Qed.

(* the day number is linear in the day of the month: what calendar.timegm relies on *)
Lemma days_from_civil_day y m d : days_from_civil y m d = days_from_civil y m 1 + d - 1.
Proof. unfold days_from_civil, doe_of. lia. Qed.
