(* C17 — lemmas about path strings: split/components algebra, os.path.normpath of an
   absolute path has only proper components, the string test
   (path + sep).startswith(root) implies component-wise containment. *)
From Coq Require Import NArith List Bool Lia.
Require Import Webob.Lib.Val Webob.Lib.PyStr Webob.Model.C17_path Webob.Model.C17_static Webob.Spec.C17_spec.
Import ListNotations.
Local Open Scope N_scope.

(* ------------------------------------------------------------------ strings *)
Lemma str_eqb_eq : forall a b, str_eqb a b = true -> a = b.
Proof.
  induction a as [|x a IH]; destruct b as [|y b]; cbn; intros H; try discriminate; auto.
  apply andb_true_iff in H. destruct H as [H1 H2]. apply N.eqb_eq in H1. subst. f_equal. auto.
Qed.

Lemma str_eqb_refl : forall a, str_eqb a a = true.
Proof. induction a as [|x a IH]; cbn; auto. rewrite N.eqb_refl. exact IH. Qed.

Lemma str_eqb_neq : forall a b, a <> b -> str_eqb a b = false.
Proof. intros a b H. destruct (str_eqb a b) eqn:E; auto. apply str_eqb_eq in E. contradiction. Qed.

Lemma starts_with_app : forall r x, starts_with r x = true -> exists rest, x = r ++ rest.
Proof.
  induction r as [|c r IH]; intros x H.
  - exists x. reflexivity.
  - destruct x as [|y x]; cbn in H; [discriminate|].
    apply andb_true_iff in H. destruct H as [H1 H2]. apply N.eqb_eq in H1. subst y.
    destruct (IH x H2) as [rest ->]. exists rest. reflexivity.
Qed.

Lemma starts_with_app_intro : forall r rest, starts_with r (r ++ rest) = true.
Proof. induction r as [|c r IH]; intros rest; cbn; auto. rewrite N.eqb_refl. apply IH. Qed.

Lemma ends_with_sep_snoc : forall s, ends_with_sep s = true -> exists s0, s = s0 ++ [SEP].
Proof.
  intros s H. unfold ends_with_sep in H. destruct (rev s) as [|c r] eqn:E; [discriminate|].
  apply N.eqb_eq in H. subst c. exists (rev r).
  rewrite <- (rev_involutive s), E. reflexivity.
Qed.

Lemma ends_with_sep_app : forall a, ends_with_sep (a ++ [SEP]) = true.
Proof. intros a. unfold ends_with_sep. rewrite rev_app_distr. cbn. reflexivity. Qed.

(* ------------------------------------------------------------------ split / comps *)
Lemma split_c_nonnil : forall sep s, split_c sep s <> [].
Proof.
  intros sep s. destruct s as [|c s]; cbn; [discriminate|].
  destruct (c =? sep); [discriminate|]. destruct (split_c sep s); discriminate.
Qed.

Lemma split_c_app_sep : forall sep a b, split_c sep (a ++ sep :: b) = split_c sep a ++ split_c sep b.
Proof.
  intros sep a b. induction a as [|c a IH].
  - cbn. rewrite N.eqb_refl. reflexivity.
  - cbn [app split_c]. destruct (c =? sep) eqn:E.
    + rewrite IH. reflexivity.
    + rewrite IH. destruct (split_c sep a) as [|f fs] eqn:Ea.
      * exfalso. exact (split_c_nonnil _ _ Ea).
      * reflexivity.
Qed.

Lemma comps_app_sep : forall a b, comps (a ++ SEP :: b) = comps a ++ comps b.
Proof. intros a b. unfold comps. rewrite split_c_app_sep, filter_app. reflexivity. Qed.

Lemma comps_nil : comps [] = [].
Proof. reflexivity. Qed.

Lemma comps_sep_cons : forall b, comps (SEP :: b) = comps b.
Proof. intros b. change (SEP :: b) with ([] ++ SEP :: b). rewrite comps_app_sep. reflexivity. Qed.

Lemma comps_snoc_sep : forall a, comps (a ++ [SEP]) = comps a.
Proof. intros a. rewrite comps_app_sep. cbn. apply app_nil_r. Qed.

Lemma comps_repeat_sep : forall k x, comps (repeat SEP k ++ x) = comps x.
Proof. induction k as [|k IH]; intros x; cbn [repeat app]; auto. rewrite comps_sep_cons. apply IH. Qed.

Lemma split_c_nosep : forall x, mem_n SEP x = false -> split_c SEP x = [x].
Proof.
  induction x as [|c x IH]; cbn; intros H; auto.
  apply orb_false_iff in H. destruct H as [H1 H2].
  rewrite H1. rewrite (IH H2). reflexivity.
Qed.

Lemma comps_name : forall x, x <> [] -> mem_n SEP x = false -> comps x = [x].
Proof.
  intros x Hne Hs. unfold comps. rewrite (split_c_nosep _ Hs). cbn.
  destruct x; [contradiction|reflexivity].
Qed.

Lemma split_c_fields_nosep : forall s, Forall (fun c => mem_n SEP c = false) (split_c SEP s).
Proof.
  induction s as [|c s IH]; cbn.
  - constructor; auto.
  - destruct (c =? SEP) eqn:E.
    + constructor; auto.
    + destruct (split_c SEP s) as [|f fs]; [constructor; auto; cbn; rewrite E; reflexivity|].
      inversion IH as [|? ? Hf Hfs]; subst. constructor; auto. cbn. rewrite E. exact Hf.
Qed.

(* a component that can stay on normpath's stack *)
Definition good (c : str) : Prop := c <> [] /\ mem_n SEP c = false.

Lemma comps_join : forall cs, Forall good cs -> comps (join [SEP] cs) = cs.
Proof.
  induction cs as [|x cs IH]; intros H; [reflexivity|].
  inversion H as [|? ? [Hx1 Hx2] Hcs]; subst.
  destruct cs as [|y cs'].
  - cbn [join]. apply comps_name; auto.
  - change (join [SEP] (x :: y :: cs')) with (x ++ SEP :: join [SEP] (y :: cs')).
    rewrite comps_app_sep, (IH Hcs), (comps_name _ Hx1 Hx2). reflexivity.
Qed.

Lemma proper_good : forall c, proper c = true -> good c.
Proof.
  intros c H. unfold proper in H. repeat (apply andb_true_iff in H; destruct H as [H ?]).
  split.
  - destruct c; [discriminate|discriminate].
  - apply negb_true_iff. assumption.
Qed.

Lemma proper_not_abs : forall c, proper c = true -> isabs c = false.
Proof.
  intros c H. destruct (proper_good _ H) as [_ Hs]. destruct c as [|x c]; auto.
  cbn in *. apply orb_false_iff in Hs. destruct Hs as [Hs _]. exact Hs.
Qed.

(* ------------------------------------------------------------------ join *)
Lemma comps_pjoin : forall path c, proper c = true -> comps (pjoin path c) = comps path ++ [c].
Proof.
  intros path c H. destruct (proper_good _ H) as [Hne Hs].
  unfold pjoin. rewrite (proper_not_abs _ H).
  destruct path as [|a path'].
  - cbn. apply comps_name; auto.
  - destruct (ends_with_sep (a :: path')) eqn:E.
    + destruct (ends_with_sep_snoc _ E) as [p0 ->].
      rewrite <- app_assoc. cbn [app]. rewrite comps_app_sep, comps_snoc_sep, (comps_name _ Hne Hs). reflexivity.
    + rewrite comps_app_sep, (comps_name _ Hne Hs). reflexivity.
Qed.

Lemma isabs_app : forall a b, isabs a = true -> isabs (a ++ b) = true.
Proof. intros [|x a] b H; [discriminate|exact H]. Qed.

Lemma isabs_pjoin : forall a b, isabs a = true -> isabs (pjoin a b) = true.
Proof.
  intros a b H. unfold pjoin. destruct (isabs b) eqn:E; auto.
  destruct a as [|x a]; [discriminate|].
  destruct (ends_with_sep (x :: a)); apply isabs_app; exact H.
Qed.

(* ------------------------------------------------------------------ normpath *)
Definition okc (c : str) : Prop := good c /\ is_dot c = false /\ is_dotdot c = false.

Lemma okc_proper : forall c, okc c -> proper c = true.
Proof.
  intros c [[H1 H2] [H3 H4]]. unfold proper. rewrite H2, H3, H4.
  destruct c; [contradiction|reflexivity].
Qed.

Lemma norm_loop_abs : forall cs stack,
  Forall (fun c => mem_n SEP c = false) cs -> Forall okc stack ->
  Forall okc (norm_loop true cs stack).
Proof.
  induction cs as [|c cs IH]; intros stack Hcs Hst; cbn [norm_loop].
  - apply Forall_rev. exact Hst.
  - inversion Hcs as [|? ? Hc Hcs']; subst.
    destruct (is_empty c || is_dot c) eqn:E1; [apply IH; auto|].
    apply orb_false_iff in E1. destruct E1 as [E1a E1b].
    cbn [negb andb].
    destruct (is_dotdot c) eqn:E2; cbn [negb orb].
    + (* "..": never pushed, because the stack holds no ".." *)
      destruct stack as [|s st'].
      * apply IH; auto.
      * inversion Hst as [|? ? Hs Hst']; subst. destruct Hs as [_ [_ Hs]]. rewrite Hs.
        apply IH; auto.
    + apply IH; auto. constructor; auto. repeat split; auto.
      destruct c; [discriminate|discriminate].
Qed.

Lemma initial_slashes_abs : forall s, isabs s = true -> initial_slashes s <> 0%nat.
Proof.
  intros [|a [|b [|c s]]] H; cbn in *; try discriminate; rewrite H.
  - discriminate.
  - destruct (b =? SEP); discriminate.
  - destruct ((b =? SEP) && negb (c =? SEP)); discriminate.
Qed.

Theorem normpath_abs : forall s, isabs s = true ->
  isabs (normpath s) = true /\ Forall (fun c => proper c = true) (comps (normpath s)).
Proof.
  intros s H. unfold normpath. destruct s as [|a s']; [discriminate|].
  set (s := a :: s') in *.
  pose proof (initial_slashes_abs s H) as Hk.
  destruct (initial_slashes s) as [|k] eqn:Ek; [contradiction|].
  cbn [Nat.eqb negb repeat app].
  assert (Hok : Forall okc (norm_loop true (split_c SEP s) [])).
  { apply norm_loop_abs; [apply split_c_fields_nosep|constructor]. }
  split; [reflexivity|].
  change (SEP :: repeat SEP k ++ join [SEP] (norm_loop true (split_c SEP s) []))
    with (repeat SEP (S k) ++ join [SEP] (norm_loop true (split_c SEP s) [])).
  rewrite comps_repeat_sep, comps_join.
  - eapply Forall_impl; [|exact Hok]. intros c Hc. apply okc_proper. exact Hc.
  - eapply Forall_impl; [|exact Hok]. intros c [Hc _]. exact Hc.
Qed.

Lemma abspath_of_abs : forall cwd p, isabs p = true -> abspath cwd p = normpath p.
Proof. intros cwd p H. unfold abspath. rewrite H. reflexivity. Qed.

Theorem abspath_normal : forall cwd p, isabs cwd = true -> normal_abs (abspath cwd p).
Proof.
  intros cwd p H. unfold abspath, normal_abs. destruct (isabs p) eqn:E.
  - apply normpath_abs. exact E.
  - apply normpath_abs. apply isabs_pjoin. exact H.
Qed.

(* ------------------------------------------------------------------ the containment test *)
(* (path + os.sep).startswith(root), root ending in the separator, implies that the
   components of path extend those of root — "root2" next to "root" does not pass *)
Theorem check_inside : forall root p,
  ends_with_sep root = true -> starts_with root (p ++ [SEP]) = true -> inside root p.
Proof.
  intros root p He Hs. destruct (ends_with_sep_snoc _ He) as [r0 ->].
  destruct (starts_with_app _ _ Hs) as [rest Hrest].
  exists (comps rest).
  rewrite <- (comps_snoc_sep p), Hrest, <- app_assoc. cbn [app].
  rewrite comps_app_sep, comps_snoc_sep. reflexivity.
Qed.

Lemma inside_pjoin : forall root path c, proper c = true -> inside root path -> inside root (pjoin path c).
Proof.
  intros root path c Hc [rest Hr]. exists (rest ++ [c]).
  rewrite (comps_pjoin _ _ Hc), Hr, app_assoc. reflexivity.
Qed.

Lemma inside_refl : forall root, inside root root.
Proof. intros root. exists []. symmetry. apply app_nil_r. Qed.

(* DirectoryApp.__init__ leaves an absolute root with exactly the trailing separator the test needs *)
Theorem dirapp_root_wf : forall cwd path, isabs cwd = true ->
  isabs (dirapp_root cwd path) = true /\ ends_with_sep (dirapp_root cwd path) = true /\
  Forall (fun c => proper c = true) (comps (dirapp_root cwd path)).
Proof.
  intros cwd path H. unfold dirapp_root.
  destruct (abspath_normal cwd path H) as [Ha Hp].
  destruct (ends_with_sep (abspath cwd path)) eqn:E.
  - auto.
  - repeat split.
    + apply isabs_app. exact Ha.
    + apply ends_with_sep_app.
    + rewrite comps_snoc_sep. exact Hp.
Qed.
