(* C03 — language equality of the regenerated webob validators with the RFC ABNF.
   Each lemma is re-decided from scratch by the verified checker whenever the source regex changes. *)
From Coq Require Import NArith List Bool.
Require Import Webob.Lib.Val Webob.Lib.Rx Webob.Lib.RxEquiv Webob.Gen.C03_regexes Webob.Spec.C03_abnf.
Import ListNotations.
Local Open Scope N_scope.

Definition no_LF (w : str) : Prop := Forall (fun c => in_ranges LF c = false) w.

Ltac decide_equiv fuel :=
  intros w Hw; rewrite rmatch_correct;
  apply (equiv_check_sound fuel LF); [vm_compute; reflexivity | exact Hw].

Lemma accept_eq : forall w, no_LF w -> (rmatch gen_accept w = true <-> matches abnf_accept w).
Proof. decide_equiv 4000%nat. Qed.
Lemma accept_charset_eq : forall w, no_LF w -> (rmatch gen_accept_charset w = true <-> matches abnf_accept_charset w).
Proof. decide_equiv 4000%nat. Qed.
Lemma accept_encoding_eq : forall w, no_LF w -> (rmatch gen_accept_encoding w = true <-> matches abnf_accept_encoding w).
Proof. decide_equiv 4000%nat. Qed.
Lemma accept_language_eq : forall w, no_LF w -> (rmatch gen_accept_language w = true <-> matches abnf_accept_language w).
Proof. decide_equiv 4000%nat. Qed.
Lemma token_eq : forall w, no_LF w -> (rmatch gen_token w = true <-> matches abnf_token w).
Proof. decide_equiv 4000%nat. Qed.
Lemma media_type_eq : forall w, no_LF w -> (rmatch gen_media_type w = true <-> matches abnf_media_type w).
Proof. decide_equiv 4000%nat. Qed.
