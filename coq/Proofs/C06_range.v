(* C06 — byte-range arithmetic: what Range.parse / range_for_length / content_range compute is the
   RFC 7233 selection (Spec/C06_Rfc.v), outside the one region recorded as a known finding. *)
From Coq Require Import ZArith NArith List Bool Lia.
Require Import Webob.Lib.Val Webob.Model.C06_ByteRange Webob.Model.C06_CondResp Webob.Spec.C06_Rfc.
Import ListNotations.
Local Open Scope Z_scope.

Ltac zb :=
  rewrite ?Z.geb_leb, ?Z.gtb_ltb in *;
  repeat match goal with
         | |- context [?a <? ?b] => destruct (Z.ltb_spec a b)
         | |- context [?a <=? ?b] => destruct (Z.leb_spec a b)
         | |- context [?a =? ?b] => destruct (Z.eqb_spec a b)
         end.

(* ---------------------------------------------------------------- digit groups *)
Definition digits (s : str) : Prop := Forall (fun c => is_digit c = true) s.

Lemma span_forall : forall f s a b, span f s = (a, b) -> Forall (fun c => f c = true) a.
Proof.
  intros f; induction s as [|c s IH]; intros a b H; cbn [span] in H.
  - injection H as <- <-. constructor.
  - destruct (f c) eqn:E.
    + destruct (span f s) as [a' b'] eqn:Es. injection H as <- <-. constructor; [exact E|]. eapply IH; reflexivity.
    + injection H as <- <-. constructor.
Qed.

Lemma match_range_digits : forall h d1 d2, match_range h = Some (d1, d2) -> digits d1 /\ digits d2.
Proof.
  intros h d1 d2 H. unfold match_range in H.
  destruct (ci_prefix kw_bytes h) as [r0|]; [|discriminate].
  destruct (drop_sp r0) as [|c r2]; [discriminate|].
  destruct (N.eqb_spec c 61) as [->|Hc].
  2:{ destruct c as [|p]; [discriminate|]. repeat (destruct p as [p|p|]; try discriminate). now elim Hc. }
  destruct (span is_digit (drop_sp r2)) as [a r4] eqn:E1.
  destruct (drop_sp r4) as [|c r6]; [discriminate|].
  destruct (N.eqb_spec c 45) as [->|Hc].
  2:{ destruct c as [|p]; [discriminate|]. repeat (destruct p as [p|p|]; try discriminate). now elim Hc. }
  destruct (span is_digit (drop_sp r6)) as [b r8] eqn:E2.
  assert (a = d1 /\ b = d2) as [<- <-].
  { destruct (drop_sp r8) as [|c [|c' r]]; try discriminate.
    - now injection H as <- <-.
    - destruct (N.eqb_spec c 10) as [->|Hc]; [now injection H as <- <-|].
      destruct c as [|p]; [discriminate|]. repeat (destruct p as [p|p|]; try discriminate). now elim Hc.
    - destruct c as [|p]; [discriminate|]. repeat (destruct p as [p|p|]; try discriminate). }
  split; [eapply span_forall; exact E1 | eapply span_forall; exact E2].
Qed.

Lemma dec_fold_nonneg : forall s acc, digits s -> 0 <= acc ->
  0 <= fold_left (fun a c => a * 10 + (Z.of_N c - 48)) s acc.
Proof.
  induction s as [|c s IH]; intros acc Hd Ha; cbn [fold_left]; [exact Ha|].
  inversion Hd as [|? ? Hc Hs]; subst. apply IH; [exact Hs|].
  unfold is_digit in Hc. apply andb_prop in Hc as [H1 H2].
  apply N.leb_le in H1. lia.
Qed.

Lemma dec_val_nonneg : forall s, digits s -> 0 <= dec_val s.
Proof. intros s H. apply dec_fold_nonneg; [exact H | lia]. Qed.

(* ---------------------------------------------------------------- Range.parse *)
(* Range.parse yields exactly the (half-open) representation of the spec the text denotes *)
Lemma range_parse_spec : forall h, range_parse h = option_map range_of_spec (header_spec (Some h)).
Proof.
  intros h. unfold range_parse, header_spec.
  destruct (match_range h) as [[d1 d2]|]; [|reflexivity].
  destruct d1 as [|c1 d1]; destruct d2 as [|c2 d2]; cbn [is_nil orb spec_of_groups option_map].
  - reflexivity.
  - destruct (dec_val (c2 :: d2) =? 0); reflexivity.
  - reflexivity.
  - remember (dec_val (c1 :: d1)) as a eqn:Ea. remember (dec_val (c2 :: d2)) as b eqn:Eb. clear Ea Eb.
    zb; cbn [option_map range_of_spec]; try reflexivity; exfalso; lia.
Qed.

Lemma header_spec_wf : forall h sp, header_spec h = Some sp -> wf_spec sp.
Proof.
  intros [t|] sp H; [|discriminate]. unfold header_spec in H.
  destruct (match_range t) as [[d1 d2]|] eqn:E; [|discriminate].
  apply match_range_digits in E as [H1 H2].
  apply dec_val_nonneg in H1. apply dec_val_nonneg in H2.
  destruct d1 as [|c1 d1]; destruct d2 as [|c2 d2]; cbn [spec_of_groups] in H; try discriminate.
  - remember (dec_val (c2 :: d2)) as b eqn:Eb. clear Eb.
    revert H. zb; intros Hs; [discriminate|]. injection Hs as <-. cbn. lia.
  - injection H as <-. cbn. exact H1.
  - remember (dec_val (c1 :: d1)) as a eqn:Ea. remember (dec_val (c2 :: d2)) as b eqn:Eb. clear Ea Eb.
    revert H. zb; intros Hs; [discriminate|]. injection Hs as <-. cbn. lia.
Qed.

(* ---------------------------------------------------------------- arithmetic *)
Definition cr_of (L : Z) (fl : Z * Z) : content_range := CR (Some (fst fl)) (Some (snd fl + 1)) (Some L).

Lemma cr_eq : forall a a' b b' L,
  a = a' -> b = b' ->
  Some (Some (CR (Some a) (Some b) (Some L))) = Some (Some (CR (Some a') (Some b') (Some L))).
Proof. intros; subst; reflexivity. Qed.

(* for first-last, first-, -suffix against a length L: satisfiable iff RFC 7233 says so, and
   (start, stop) = (first, last + 1) *)
Theorem range_arith : forall sp L,
  wf_spec sp -> 0 <= L -> suffix_within sp L ->
  range_content_range (range_of_spec sp) (Some L) = Some (option_map (cr_of L) (rfc_selected sp L)).
Proof.
  intros sp L Hwf HL Hsuf. unfold range_content_range, range_for_length, mk_content_range, cr_of.
  destruct sp as [f l|f|n]; cbn [range_of_spec rfc_selected wf_spec suffix_within] in *.
  - cbn [is_cr_valid andb]. zb; cbn [is_cr_valid andb option_map fst snd]; try lia.
    all: zb; cbn [andb]; try lia. all: try (apply cr_eq; lia); try reflexivity.
  - cbn [is_cr_valid andb]. zb; cbn [is_cr_valid andb option_map fst snd]; try lia.
    all: zb; cbn [andb]; try lia. all: try (apply cr_eq; lia); try reflexivity.
  - cbn [is_cr_valid andb]. zb; cbn [is_cr_valid andb option_map fst snd]; try lia.
    all: zb; cbn [andb]; try lia. all: try (apply cr_eq; lia); try reflexivity.
Qed.

(* the selection is inside the body and non-empty *)
Lemma rfc_selected_bounds : forall sp L f l,
  wf_spec sp -> rfc_selected sp L = Some (f, l) -> 0 <= f <= l /\ l < L.
Proof.
  intros sp L f l Hwf Hs. destruct sp as [a b|a|n]; cbn [rfc_selected wf_spec] in *; revert Hs; zb;
    cbn [andb]; intros Hs; try discriminate; injection Hs as <- <-; lia.
Qed.

(* the refuted facet: on the unchanged code a suffix longer than a non-empty body is answered
   "not satisfiable" although RFC 7233 selects the whole body *)
Lemma suffix_longer_refuted :
  exists n L, 0 < n /\ 0 < L /\
    range_content_range (range_of_spec (Suffix n)) (Some L) = Some None /\
    rfc_selected (Suffix n) L = Some (0, L - 1).
Proof. exists 20, 10. repeat split; reflexivity. Qed.

(* the ContentRange constructor never refuses what range_for_length hands it *)
Lemma content_range_never_raises : forall r L, range_content_range r (Some L) <> None.
Proof.
  intros [s e] L. unfold range_content_range, range_for_length, mk_content_range.
  destruct e as [e|].
  - cbn [is_cr_valid andb]. zb; cbn [is_cr_valid andb]; try discriminate. all: zb; cbn [andb]; try discriminate; lia.
  - cbn [is_cr_valid andb]. zb; cbn [is_cr_valid andb]; try discriminate. all: zb; cbn [andb]; try discriminate; lia.
Qed.

(* Content-Range text and Content-Length of a 206 *)
Lemma content_range_text : forall f l L,
  content_range_str (cr_of L (f, l)) =
  S_bytes_sp ++ int_str f ++ [45%N] ++ int_str l ++ [47%N] ++ int_str L.
Proof. intros f l L. unfold cr_of, content_range_str. cbn [fst snd]. now replace (l + 1 - 1) with l by lia. Qed.
