(* C06 — slice exactness of the two range iterators (Model/C06_AppIterRange.v), for every
   chunking (empty chunks included) and every block size. *)
From Coq Require Import NArith List Arith Lia Bool.
Require Import Webob.Lib.Val Webob.Model.C06_AppIterRange.
Import ListNotations.

Lemma skipn_app_le {A} n (l1 l2 : list A) : n <= length l1 -> skipn n (l1 ++ l2) = skipn n l1 ++ l2.
Proof. intros H. rewrite skipn_app. replace (n - length l1) with 0 by lia. reflexivity. Qed.
Lemma skipn_app_ge {A} n (l1 l2 : list A) : length l1 <= n -> skipn n (l1 ++ l2) = skipn (n - length l1) l2.
Proof. intros H. rewrite skipn_app. rewrite skipn_all2 by lia. reflexivity. Qed.
Lemma firstn_app_le {A} n (l1 l2 : list A) : n <= length l1 -> firstn n (l1 ++ l2) = firstn n l1.
Proof. intros H. rewrite firstn_app. replace (n - length l1) with 0 by lia. cbn. apply app_nil_r. Qed.
Lemma firstn_app_ge {A} n (l1 l2 : list A) : length l1 <= n -> firstn n (l1 ++ l2) = l1 ++ firstn (n - length l1) l2.
Proof. intros H. rewrite firstn_app. rewrite firstn_all2 by lia. reflexivity. Qed.

(* ------------------------------------------------------------------ AppIterRange *)
(* steady state: pos >= start *)
Lemma run_phase2 : forall cs fuel start stop p,
  start <= p -> length cs < fuel ->
  concat (air_run fuel start stop (mkAir cs p)) = firstn (stop - p) (concat cs).
Proof.
  induction cs as [|c cs IH]; intros fuel start stop p Hsp Hf; destruct fuel as [|f]; try (cbn in Hf; lia); cbn [air_run].
  - unfold air_next; cbn [air_pos air_rest]. destruct (p <? start) eqn:E1; [apply Nat.ltb_lt in E1; lia|].
    destruct (stop <=? p); cbn [concat]; rewrite firstn_nil; reflexivity.
  - unfold air_next; cbn [air_pos air_rest]. destruct (p <? start) eqn:E1; [apply Nat.ltb_lt in E1; lia|].
    destruct (stop <=? p) eqn:E2.
    + apply Nat.leb_le in E2. replace (stop - p) with 0 by lia. reflexivity.
    + apply Nat.leb_gt in E2. cbn [concat]. destruct (p + length c <=? stop) eqn:E3.
      * apply Nat.leb_le in E3. cbn [concat]. rewrite IH by (cbn in Hf; lia).
        rewrite firstn_app_ge by lia. f_equal. f_equal. lia.
      * apply Nat.leb_gt in E3. cbn [concat]. rewrite IH by (cbn in Hf; lia).
        replace (stop - (p + length c)) with 0 by lia. cbn [firstn]. rewrite app_nil_r.
        unfold drop_last. rewrite firstn_app_le by lia. f_equal. lia.
Qed.

(* what _skip_start returns, in terms of the remaining stream *)
Lemma skip_start_spec : forall cs start stop p,
  p < start -> start < stop ->
  match skip_start start stop cs p with
  | None => skipn (start - p) (concat cs) = []
  | Some (y, s') =>
      start <= air_pos s' /\ length (air_rest s') < length cs /\
      y ++ firstn (stop - air_pos s') (concat (air_rest s')) = firstn (stop - start) (skipn (start - p) (concat cs))
  end.
Proof.
  induction cs as [|c cs IH]; intros start stop p Hp Hss; cbn [skip_start concat].
  - apply skipn_nil.
  - destruct (p + length c <? start) eqn:E1.
    + apply Nat.ltb_lt in E1. specialize (IH start stop (p + length c) E1 Hss).
      rewrite skipn_app_ge by lia. replace (start - p - length c) with (start - (p + length c)) by lia.
      destruct (skip_start start stop cs (p + length c)) as [[y s']|]; [|exact IH].
      destruct IH as (H1 & H2 & H3). cbn [length]. repeat split; [exact H1 | lia | exact H3].
    + apply Nat.ltb_ge in E1. destruct (p + length c =? start) eqn:E2.
      * apply Nat.eqb_eq in E2. cbn [air_pos air_rest length app]. repeat split; [lia | lia |].
        rewrite skipn_app_ge by lia. replace (start - p - length c) with 0 by lia. cbn [skipn]. f_equal. lia.
      * apply Nat.eqb_neq in E2. cbn [air_pos air_rest length]. repeat split; [lia | lia |].
        rewrite skipn_app_le by lia. unfold last_k.
        replace (length c - (p + length c - start)) with (start - p) by lia.
        destruct (stop <? p + length c) eqn:E3.
        -- apply Nat.ltb_lt in E3. replace (stop - (p + length c)) with 0 by lia. cbn [firstn]. rewrite app_nil_r.
           unfold drop_last. rewrite firstn_app_le by (rewrite skipn_length; lia). f_equal. rewrite skipn_length. lia.
        -- apply Nat.ltb_ge in E3. rewrite firstn_app_ge by (rewrite skipn_length; lia). f_equal. f_equal. rewrite skipn_length. lia.
Qed.

Theorem air_slice_exact : forall chunks start stop,
  start < stop -> concat (air chunks start stop) = slice (concat chunks) start stop.
Proof.
  intros chunks start stop Hss. unfold air, slice. cbn [air_run]. unfold air_next; cbn [air_pos air_rest].
  destruct start as [|start'].
  - change (0 <? 0) with false. cbn [skipn].
    pose proof (run_phase2 chunks (S (length chunks)) 0 stop 0 (le_n 0) (Nat.lt_succ_diag_r _)) as H.
    cbn [air_run] in H. unfold air_next in H; cbn [air_pos air_rest] in H. change (0 <? 0) with false in H.
    rewrite Nat.sub_0_r in *. exact H.
  - change (0 <? S start') with true.
    pose proof (skip_start_spec chunks (S start') stop 0 (Nat.lt_0_succ _) Hss) as H.
    rewrite Nat.sub_0_r in H.
    destruct (skip_start (S start') stop chunks 0) as [[y s']|].
    + destruct H as (H1 & H2 & H3). cbn [concat]. destruct s' as [r p]. cbn [air_pos air_rest] in *.
      rewrite (run_phase2 r (length chunks) (S start') stop p H1 H2). exact H3.
    + cbn [concat]. rewrite H. now rewrite firstn_nil.
Qed.

(* ------------------------------------------------------------------ FileIter *)
Lemma firstn_split {A} (l m : nat) (r : list A) :
  m <= l -> firstn l r = firstn m r ++ firstn (l - m) (skipn m r).
Proof.
  intros H. rewrite <- (firstn_skipn m r) at 1.
  destruct (Nat.le_gt_cases m (length r)) as [Hm|Hm].
  - rewrite firstn_app_ge by (rewrite firstn_length; lia).
    rewrite firstn_length. replace (Nat.min m (length r)) with m by lia. reflexivity.
  - rewrite (skipn_all2 r) by lia. rewrite (firstn_all2 (n := m) r) by lia.
    rewrite firstn_nil, !app_nil_r. apply firstn_all2. lia.
Qed.

Lemma skipn_skipn {A} (a b : nat) (l : list A) : skipn a (skipn b l) = skipn (b + a) l.
Proof.
  revert l; induction b as [|b IH]; intros l; [reflexivity|].
  destruct l as [|x l]; [now rewrite !skipn_nil|]. cbn [skipn plus]. apply IH.
Qed.

Lemma firstn_firstn_len {A} (n : nat) (r : list A) : firstn (length (firstn n r)) r = firstn n r.
Proof.
  rewrite firstn_length. destruct (Nat.le_gt_cases n (length r)) as [H|H].
  - now replace (Nat.min n (length r)) with n by lia.
  - replace (Nat.min n (length r)) with (length r) by lia. now rewrite !firstn_all2 by lia.
Qed.

Lemma fi_loop_some : forall fuel bs l data p,
  0 < bs -> 0 < l -> length data - p < fuel ->
  concat (fi_loop fuel bs (Some l) (mkFile data p)) = firstn l (skipn p data).
Proof.
  induction fuel as [|k IH]; intros bs l data p Hbs Hl Hf; [lia|].
  cbn [fi_loop]. unfold f_read; cbn [f_pos f_data].
  set (rest := skipn p data). set (n := Nat.min bs l).
  assert (Hn : 0 < n) by (unfold n; lia).
  destruct (firstn n rest) as [|x d'] eqn:Ed.
  - (* end of file *)
    assert (rest = []) as ->.
    { destruct rest as [|y r]; [reflexivity|]. destruct n; [lia|]. discriminate Ed. }
    now rewrite firstn_nil.
  - rewrite <- Ed. set (d := firstn n rest).
    assert (Hdl : length d <= l) by (unfold d; rewrite firstn_length; unfold n; lia).
    assert (Hd1 : 1 <= length d) by (unfold d; rewrite Ed; cbn; lia).
    assert (Hrest : length rest = length data - p) by (unfold rest; apply skipn_length).
    assert (Hdr : length d <= length rest) by (unfold d; rewrite firstn_length; lia).
    assert (Hpre : firstn (length d) rest = d) by (unfold d; apply firstn_firstn_len).
    destruct (l - length d <=? 0) eqn:E.
    + apply Nat.leb_le in E. cbn [concat]. rewrite app_nil_r.
      assert (length d = l) by lia. rewrite <- H. symmetry; exact Hpre.
    + apply Nat.leb_gt in E. cbn [concat].
      rewrite IH; [| exact Hbs | lia | lia].
      rewrite (firstn_split l (length d) rest) by lia. rewrite Hpre. f_equal.
      unfold rest. now rewrite skipn_skipn.
Qed.

Lemma fi_loop_none : forall fuel bs data p,
  0 < bs -> length data - p < fuel ->
  concat (fi_loop fuel bs None (mkFile data p)) = skipn p data.
Proof.
  induction fuel as [|k IH]; intros bs data p Hbs Hf; [lia|].
  cbn [fi_loop]. unfold f_read; cbn [f_pos f_data].
  set (rest := skipn p data).
  destruct (firstn bs rest) as [|x d'] eqn:Ed.
  - destruct rest as [|y r]; [reflexivity|]. destruct bs; [lia|]. discriminate Ed.
  - rewrite <- Ed. set (d := firstn bs rest).
    assert (Hd1 : 1 <= length d) by (unfold d; rewrite Ed; cbn; lia).
    assert (Hrest : length rest = length data - p) by (unfold rest; apply skipn_length).
    assert (Hdr : length d <= length rest) by (unfold d; rewrite firstn_length; lia).
    assert (Hpre : firstn (length d) rest = d) by (unfold d; apply firstn_firstn_len).
    cbn [concat]. rewrite IH; [| exact Hbs | lia].
    transitivity (firstn (length d) rest ++ skipn (length d) rest); [|apply firstn_skipn].
    rewrite Hpre. f_equal. unfold rest. now rewrite skipn_skipn.
Qed.

(* FileIter(file).app_iter_range(start, stop) yields exactly body[start:stop], for every block size *)
Theorem fileiter_slice_exact : forall data start stop bs,
  0 < bs -> start < stop ->
  concat (file_iter_range data start (Some stop) bs) = slice data start stop.
Proof.
  intros data start stop bs Hbs Hss. unfold file_iter_range, slice.
  destruct (start =? 0) eqn:E.
  - apply Nat.eqb_eq in E. subst start. cbn [option_map].
    rewrite fi_loop_some by (cbn; lia). now rewrite Nat.sub_0_r.
  - cbn [option_map]. rewrite fi_loop_some by (cbn; lia). reflexivity.
Qed.

(* iterating the FileIter itself gives the whole file *)
Theorem fileiter_full : forall data bs, 0 < bs -> concat (file_iter_range data 0 None bs) = data.
Proof.
  intros data bs Hbs. unfold file_iter_range. cbn [Nat.eqb option_map].
  rewrite fi_loop_none by (cbn; lia). reflexivity.
Qed.
