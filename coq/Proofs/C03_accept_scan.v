(* C03 — Accept: the media-range scanner returns exactly the elements of a rendered header: type/subtype text,
   media type parameters (names, values unquoted), weight, extension parameters (bare or name=value, unquoted),
   left to right, for every decoration. *)
From Coq Require Import ZArith NArith List Bool Lia.
Require Import Webob.Lib.Val Webob.Lib.PyStr Webob.Lib.Rx Webob.Gen.C03_regexes Webob.Model.C03_scan
               Webob.Proofs.C03_scan.
Import ListNotations.
Local Open Scope N_scope.

(* ---------- rendered syntax ---------- *)
Inductive qbody : str -> Prop :=
| qb_end : qbody [34]
| qb_pair c b : is_qpair_char c = true -> qbody b -> qbody (92 :: c :: b)
| qb_text c b : is_qdtext c = true -> qbody b -> qbody (c :: b).
(* raw parameter value: a token, or a quoted-string *)
Definition value_ok (v : str) : Prop := token_ok v \/ exists b, v = 34 :: b /\ qbody b.

Record rparam := mkP { p_ows1 : str; p_ows2 : str; p_name : str; p_val : str }.
Record rext := mkX { x_ows1 : str; x_ows2 : str; x_name : str; x_val : option str }.
Definition render_param (p : rparam) : str := p_ows1 p ++ 59 :: p_ows2 p ++ p_name p ++ 61 :: p_val p.
Definition render_ext (x : rext) : str :=
  x_ows1 x ++ 59 :: x_ows2 x ++ x_name x ++ match x_val x with Some v => 61 :: v | None => [] end.
Record rel := mkR { r_type : str; r_sub : str; r_params : list rparam; r_weight : option (wt * list rext) }.
Definition render_rel (e : rel) : str :=
  r_type e ++ 47 :: r_sub e ++ flat_map render_param (r_params e) ++
  match r_weight e with Some (w, xs) => render_weight w ++ flat_map render_ext xs | None => [] end.

Definition all_ows (s : str) : Prop := Forall (fun c => is_ows c = true) s.
Definition not_q (name : str) : Prop := match name with [q] => is_qQ q = false | _ => True end.
Definition param_ok (p : rparam) : Prop :=
  all_ows (p_ows1 p) /\ all_ows (p_ows2 p) /\ token_ok (p_name p) /\ not_q (p_name p) /\ value_ok (p_val p).
Definition ext_ok (x : rext) : Prop :=
  all_ows (x_ows1 x) /\ all_ows (x_ows2 x) /\ token_ok (x_name x) /\
  match x_val x with Some v => value_ok v | None => True end.
Definition rel_ok (e : rel) : Prop :=
  token_ok (r_type e) /\ token_ok (r_sub e) /\ Forall param_ok (r_params e) /\
  match r_weight e with Some (w, xs) => wt_ok w /\ Forall ext_ok xs | None => True end.

(* what the parser reports for a rendered element *)
Definition canon_rel (e : rel) : accept_el :=
  let params := map (fun p => (p_name p, unquote_value (p_val p))) (r_params e) in
  mkEl (form_media_range (r_type e ++ 47 :: r_sub e) params)
       (match r_weight e with Some (w, _) => thousandths (w_text w) | None => 1000 end)
       params
       (match r_weight e with
        | Some (_, xs) => map (fun x => (x_name x, option_map unquote_value (x_val x))) xs
        | None => []
        end).

(* ---------- what may follow an element ---------- *)
Definition head_ok (tail : str) : Prop := match tail with [] => True | c :: _ => is_stop c = false end.
Inductive follows : str -> Prop :=
| F_nil : follows []
| F_junk j tail : j <> [] -> Forall (fun c => is_junk c = true) j -> head_ok tail -> follows (j ++ tail).

Lemma follows_stop rest : follows rest -> stop_ok rest.
Proof.
  intros [|j tail Hn Hj _]; [exact I|]. destruct j as [|c j]; [contradiction|].
  inversion Hj; subst. cbn. unfold is_stop. rewrite H1. reflexivity.
Qed.

Lemma follows_junk rest : follows rest -> junk_ok rest.
Proof.
  intros [|j tail Hn Hj _]; [exact I|]. destruct j as [|c j]; [contradiction|].
  inversion Hj; subst. cbn. assumption.
Qed.

Definition no_semi (s : str) : Prop := match skip_ows s with c :: _ => (c =? 59) = false | [] => True end.

Lemma no_semi_junk j tail : Forall (fun c => is_junk c = true) j -> head_ok tail -> no_semi (j ++ tail).
Proof.
  unfold no_semi, skip_ows. induction 1 as [|c j Hc Hj IH]; intros Ht.
  - cbn [app]. destruct tail as [|c t]; [exact I|]. cbn in Ht. cbn [span].
    destruct (is_ows c) eqn:E.
    + exfalso. unfold is_stop, is_junk in Ht. unfold is_ows in E.
      apply orb_false_iff in Ht as [Ht _]. apply orb_false_iff in Ht as [Ht _]. congruence.
    + cbn. unfold is_stop in Ht. apply orb_false_iff in Ht as [_ Ht]. exact Ht.
  - destruct (junk_cases c Hc) as [->|[->| ->]]; cbn [app span is_ows N.eqb orb Pos.eqb].
    + specialize (IH Ht). destruct (span is_ows (j ++ tail)) as [a b]. exact IH.
    + specialize (IH Ht). destruct (span is_ows (j ++ tail)) as [a b]. exact IH.
    + reflexivity.
Qed.

Lemma follows_no_semi rest : follows rest -> no_semi rest.
Proof. intros [|j tail _ Hj Ht]; [exact I|]. apply no_semi_junk; assumption. Qed.

(* ---------- values ---------- *)
Lemma take_qbody_app b rest : qbody b -> take_qbody (b ++ rest) = Some (b, rest).
Proof.
  induction 1 as [|c b Hc Hb IH|c b Hc Hb IH]; cbn [app take_qbody].
  - reflexivity.
  - rewrite Hc, IH. reflexivity.
  - assert (c <> 34 /\ c <> 92) as [H34 H92].
    { split; intros ->; discriminate. }
    destruct c as [|p]; [discriminate|].
    do 7 (destruct p as [p|p|]; try (cbn in Hc; discriminate); try (rewrite Hc, IH; reflexivity); try contradiction).
Qed.

Lemma take_value_app v rest : value_ok v -> stop_ok rest -> take_value (v ++ rest) = Some (v, rest).
Proof.
  intros [Ht|(b & -> & Hb)] Hr; unfold take_value.
  - rewrite take_token_item by assumption. reflexivity.
  - cbn [app]. unfold take_token. cbn [span]. change (is_tchar 34) with false. cbn iota.
    rewrite take_qbody_app by exact Hb. reflexivity.
Qed.

Lemma ows_then_stop (o rest : str) c : all_ows o -> is_stop c = true -> stop_ok (o ++ c :: rest).
Proof.
  intros Ho Hc. destruct o as [|x o]; cbn; [exact Hc|]. inversion Ho; subst.
  unfold is_stop, is_junk, is_ows in *.
  match goal with H : _ || _ = true |- _ => apply orb_true_iff in H as [H|H]; apply N.eqb_eq in H; subst; reflexivity end.
Qed.

Lemma not_ows_tchar c : is_tchar c = true -> is_ows c = false.
Proof.
  intros H. destruct (is_ows c) eqn:E; [|reflexivity]. unfold is_ows in E.
  apply orb_true_iff in E as [E|E]; apply N.eqb_eq in E; subst; discriminate.
Qed.

Lemma token_head_not_ows t rest : token_ok t -> match t ++ rest with [] => True | c :: _ => is_ows c = false end.
Proof.
  intros [Hn Ht]. destruct t as [|c t]; [contradiction|]. inversion Ht; subst. cbn. apply not_ows_tchar. assumption.
Qed.

Lemma take_token_item' it rest : token_ok it ->
  (match rest with [] => True | c :: _ => is_tchar c = false end) -> take_token (it ++ rest) = Some (it, rest).
Proof.
  intros [Hn Ht] Hr. unfold take_token. rewrite span_app; [|exact Ht|exact Hr].
  destruct it; [contradiction|reflexivity].
Qed.

(* ---------- media type parameters ---------- *)
Definition params_text (ps : list rparam) : str := flat_map render_param ps.

(* the loop stops in front of [rest] *)
Definition params_stop (rest : str) : Prop := forall fuel, take_params fuel rest = ([], rest).

Lemma is_qQ_name name : token_ok name -> not_q name ->
  (match name with [q] => is_qQ q | _ => false end) = false.
Proof. intros _ H. destruct name as [|q [|x n]]; cbn in *; auto. Qed.

Lemma take_params_app ps : forall fuel rest,
  Forall param_ok ps -> (length ps <= fuel)%nat -> params_stop rest -> stop_ok rest ->
  take_params fuel (params_text ps ++ rest) = (map (fun p => (p_name p, p_val p)) ps, rest).
Proof.
  induction ps as [|p ps IH]; intros fuel rest Hps Hf Hstop Hr.
  - cbn. apply Hstop.
  - inversion Hps as [|? ? (H1 & H2 & Hn & Hq & Hv) Hps']; subst.
    destruct fuel as [|fuel]; [cbn in Hf; lia|].
    unfold params_text. cbn [flat_map]. fold (params_text ps). unfold render_param.
    rewrite <- ?app_assoc. cbn [take_params].
    rewrite skip_ows_app; [|exact H1|reflexivity]. cbn [app].
    rewrite <- ?app_assoc.
    rewrite skip_ows_app; [|exact H2|apply token_head_not_ows; exact Hn].
    cbn [app]. rewrite <- ?app_assoc.
    change (p_name p ++ 61 :: p_val p ++ params_text ps ++ rest)
      with (p_name p ++ (61 :: p_val p ++ params_text ps ++ rest)).
    rewrite take_token_item'; [|exact Hn|reflexivity].
    rewrite is_qQ_name by assumption.
    rewrite take_value_app; [|exact Hv|].
    + rewrite IH; [reflexivity|exact Hps'|cbn in Hf; lia|exact Hstop|exact Hr].
    + destruct ps as [|p2 ps2]; [exact Hr|].
      inversion Hps' as [|? ? (H1' & _) _]; subst. unfold params_text. cbn [flat_map]. unfold render_param at 1.
      rewrite <- ?app_assoc. apply ows_then_stop; [exact H1'|reflexivity].
Qed.

Lemma params_stop_no_semi rest : no_semi rest -> params_stop rest.
Proof.
  unfold params_stop, no_semi. intros H fuel. destruct fuel; [reflexivity|]. cbn [take_params].
  destruct (skip_ows rest) as [|c r]; [reflexivity|].
  destruct c as [|p]; [reflexivity|]. do 6 (destruct p as [p|p|]; try reflexivity). discriminate.
Qed.

Lemma params_stop_weight w tail : wt_ok w -> params_stop (render_weight w ++ tail).
Proof.
  intros (H1 & H2 & Hq & Ht) fuel. destruct fuel; [reflexivity|]. cbn [take_params].
  unfold render_weight. rewrite <- ?app_assoc. rewrite skip_ows_app; [|exact H1|reflexivity]. cbn [app].
  rewrite <- ?app_assoc. rewrite skip_ows_app; [|exact H2|].
  - cbn [app]. unfold take_token. cbn [span].
    assert (Htq : is_tchar (w_q w) = true).
    { unfold is_qQ in Hq. apply orb_true_iff in Hq as [E|E]; apply N.eqb_eq in E; rewrite E; reflexivity. }
    rewrite Htq. change (is_tchar 61) with false. cbn iota beta. rewrite Hq. reflexivity.
  - cbn. unfold is_qQ in Hq. unfold is_ows.
    apply orb_true_iff in Hq as [E|E]; apply N.eqb_eq in E; rewrite E; reflexivity.
Qed.

(* ---------- extension parameters ---------- *)
Definition exts_text (xs : list rext) : str := flat_map render_ext xs.

Lemma take_exts_stop rest : no_semi rest -> forall fuel, take_exts fuel rest = ([], rest).
Proof.
  unfold no_semi. intros H fuel. destruct fuel; [reflexivity|]. cbn [take_exts].
  destruct (skip_ows rest) as [|c r]; [reflexivity|].
  destruct c as [|p]; [reflexivity|]. do 6 (destruct p as [p|p|]; try reflexivity). discriminate.
Qed.

Lemma take_exts_app xs : forall fuel rest,
  Forall ext_ok xs -> (length xs <= fuel)%nat -> no_semi rest -> stop_ok rest ->
  take_exts fuel (exts_text xs ++ rest) = (map (fun x => (x_name x, x_val x)) xs, rest).
Proof.
  induction xs as [|x xs IH]; intros fuel rest Hxs Hf Hns Hr.
  - cbn. apply take_exts_stop, Hns.
  - inversion Hxs as [|? ? (H1 & H2 & Hn & Hv) Hxs']; subst.
    destruct fuel as [|fuel]; [cbn in Hf; lia|].
    assert (Hnext : stop_ok (exts_text xs ++ rest)).
    { destruct xs as [|x2 xs2]; [exact Hr|].
      inversion Hxs' as [|? ? (H1' & _) _]; subst. unfold exts_text. cbn [flat_map]. unfold render_ext at 1.
      rewrite <- ?app_assoc. apply ows_then_stop; [exact H1'|reflexivity]. }
    unfold exts_text. cbn [flat_map]. fold (exts_text xs). unfold render_ext.
    rewrite <- ?app_assoc. cbn [take_exts].
    rewrite skip_ows_app; [|exact H1|reflexivity]. cbn [app].
    rewrite <- ?app_assoc.
    rewrite skip_ows_app; [|exact H2|apply token_head_not_ows; exact Hn].
    destruct (x_val x) as [v|] eqn:Ev.
    + cbn [app]. rewrite <- ?app_assoc.
      change (x_name x ++ 61 :: v ++ exts_text xs ++ rest) with (x_name x ++ (61 :: v ++ exts_text xs ++ rest)).
      rewrite take_token_item'; [|exact Hn|reflexivity].
      rewrite N.eqb_refl.
      rewrite take_value_app; [|exact Hv|exact Hnext].
      rewrite IH; [cbn [map]; rewrite Ev; reflexivity|exact Hxs'|cbn in Hf; lia|exact Hns|exact Hr].
    + cbn [app]. rewrite take_token_item; [|exact Hn|exact Hnext].
      assert (Hne : match exts_text xs ++ rest with 61 :: _ => False | _ => True end).
      { destruct (exts_text xs ++ rest) as [|c r]; [exact I|]. cbn in Hnext.
        destruct (stop_cases c Hnext) as [->|[->|[->| ->]]]; exact I. }
      destruct (exts_text xs ++ rest) as [|c r] eqn:E.
      * rewrite <- E at 1. rewrite IH; [cbn [map]; rewrite Ev; reflexivity|exact Hxs'|cbn in Hf; lia|exact Hns|exact Hr].
      * assert (Hc : (c =? 61) = false).
        { cbn in Hnext. destruct (stop_cases c Hnext) as [->|[->|[->| ->]]]; reflexivity. }
        rewrite Hc. rewrite <- E. rewrite IH; [cbn [map]; rewrite Ev; reflexivity|exact Hxs'|cbn in Hf; lia|exact Hns|exact Hr].
Qed.

(* ---------- weight, in front of extension parameters or junk ---------- *)
Lemma take_qvalue_app' t rest : qtext_ok t -> stop_ok rest -> take_qvalue (t ++ rest) = Some (t, rest).
Proof.
  intros Ht Hr.
  assert (Hd : match rest with [] => True | c :: _ => is_digit c = false end).
  { destruct rest as [|c r]; [exact I|]. destruct (stop_cases c Hr) as [->|[->|[->| ->]]]; reflexivity. }
  assert (Hz : match rest with [] => True | c :: _ => (c =? 48) = false end).
  { destruct rest as [|c r]; [exact I|]. destruct (stop_cases c Hr) as [->|[->|[->| ->]]]; reflexivity. }
  destruct Ht as [->|[->|[(ds & -> & Hl & Hds)|(ds & -> & Hl & Hds)]]].
  - cbn. destruct rest as [|c r]; [reflexivity|]. destruct (stop_cases c Hr) as [->|[->|[->| ->]]]; reflexivity.
  - cbn. destruct rest as [|c r]; [reflexivity|]. destruct (stop_cases c Hr) as [->|[->|[->| ->]]]; reflexivity.
  - cbn [app take_qvalue]. rewrite span_upto_app; auto.
  - cbn [app take_qvalue]. rewrite span_upto_app; auto.
    eapply Forall_impl; [|exact Hds]. intros c ->. reflexivity.
Qed.

Lemma take_weight_app' w rest : wt_ok w -> stop_ok rest ->
  take_weight (render_weight w ++ rest) = Some (w_text w, rest).
Proof.
  intros (H1 & H2 & Hq & Ht) Hr. unfold take_weight, render_weight.
  rewrite <- app_assoc. rewrite skip_ows_app; [|exact H1|reflexivity].
  cbn [app]. rewrite <- app_assoc. rewrite skip_ows_app; [|exact H2|].
  - cbn [app]. rewrite Hq. apply take_qvalue_app'; assumption.
  - cbn. unfold is_qQ in Hq. unfold is_ows.
    apply orb_true_iff in Hq as [Hq|Hq]; apply N.eqb_eq in Hq; rewrite Hq; reflexivity.
Qed.

Lemma take_weight_none rest : no_semi rest -> take_weight rest = None.
Proof.
  unfold no_semi, take_weight. intros H. destruct (skip_ows rest) as [|c r]; [reflexivity|].
  destruct c as [|p]; [reflexivity|]. do 6 (destruct p as [p|p|]; try reflexivity). discriminate.
Qed.

Lemma params_text_length ps : Forall param_ok ps -> (length ps <= length (params_text ps))%nat.
Proof.
  induction 1 as [|p ps _ _ IH]; [cbn; lia|]. unfold params_text in *. cbn [flat_map].
  unfold render_param at 1. rewrite !app_length. cbn [length]. rewrite !app_length. cbn [length]. lia.
Qed.
Lemma exts_text_length xs : Forall ext_ok xs -> (length xs <= length (exts_text xs))%nat.
Proof.
  induction 1 as [|x xs _ _ IH]; [cbn; lia|]. unfold exts_text in *. cbn [flat_map].
  unfold render_ext at 1. rewrite !app_length. cbn [length]. rewrite !app_length. lia.
Qed.

Lemma value_nonempty v : value_ok v -> v <> [].
Proof. intros [[H _]|(b & -> & _)]; [exact H|discriminate]. Qed.

Lemma stop_ok_params_then ps rest : Forall param_ok ps -> stop_ok rest -> stop_ok (params_text ps ++ rest).
Proof.
  intros Hps Hr. destruct ps as [|p ps]; [exact Hr|].
  inversion Hps as [|? ? (H1 & _) _]; subst. unfold params_text. cbn [flat_map]. unfold render_param at 1.
  rewrite <- ?app_assoc. apply ows_then_stop; [exact H1|reflexivity].
Qed.
Lemma stop_ok_exts_then xs rest : Forall ext_ok xs -> stop_ok rest -> stop_ok (exts_text xs ++ rest).
Proof.
  intros Hxs Hr. destruct xs as [|x xs]; [exact Hr|].
  inversion Hxs as [|? ? (H1 & _) _]; subst. unfold exts_text. cbn [flat_map]. unfold render_ext at 1.
  rewrite <- ?app_assoc. apply ows_then_stop; [exact H1|reflexivity].
Qed.
Lemma stop_ok_weight_then w rest : wt_ok w -> stop_ok (render_weight w ++ rest).
Proof.
  intros (H1 & _). unfold render_weight. rewrite <- ?app_assoc. apply ows_then_stop; [exact H1|reflexivity].
Qed.

(* ---------- one element ---------- *)
Theorem take_accept_el_app e rest : rel_ok e -> follows rest ->
  take_accept_el (render_rel e ++ rest) = Some (canon_rel e, rest).
Proof.
  intros (Hty & Hsub & Hps & Hw) Hf.
  pose proof (follows_stop _ Hf) as Hstop. pose proof (follows_no_semi _ Hf) as Hns.
  unfold take_accept_el, render_rel. rewrite <- ?app_assoc.
  rewrite take_token_item'; [|exact Hty|reflexivity]. cbn [app]. rewrite <- ?app_assoc.
  fold (params_text (r_params e)).
  destruct (r_weight e) as [[w xs]|] eqn:Ew.
  - destruct Hw as [Hw Hxs]. rewrite <- ?app_assoc. fold (exts_text xs).
    set (W := render_weight w ++ exts_text xs ++ rest).
    assert (HWs : stop_ok W) by (apply stop_ok_weight_then; exact Hw).
    rewrite take_token_item; [|exact Hsub|apply stop_ok_params_then; assumption].
    rewrite take_params_app; [|exact Hps| |apply params_stop_weight; exact Hw|exact HWs].
    2:{ rewrite app_length. pose proof (params_text_length _ Hps). lia. }
    subst W. rewrite take_weight_app'; [|exact Hw|apply stop_ok_exts_then; assumption].
    rewrite take_exts_app; [|exact Hxs| |exact Hns|exact Hstop].
    2:{ rewrite app_length. pose proof (exts_text_length _ Hxs). lia. }
    unfold canon_rel. rewrite Ew. rewrite !map_map. cbn [fst snd]. f_equal. f_equal. f_equal.
    apply map_ext_in. intros x Hx. cbn [fst snd]. rewrite Forall_forall in Hxs.
    destruct (Hxs x Hx) as (_ & _ & _ & Hv). destruct (x_val x) as [v|]; [|reflexivity].
    pose proof (value_nonempty v Hv). destruct v; [contradiction|reflexivity].
  - rewrite app_nil_l.
    rewrite take_token_item; [|exact Hsub|apply stop_ok_params_then; assumption].
    rewrite take_params_app; [|exact Hps| |apply params_stop_no_semi; exact Hns|exact Hstop].
    2:{ rewrite app_length. pose proof (params_text_length _ Hps). lia. }
    rewrite take_weight_none by exact Hns.
    unfold canon_rel. rewrite Ew. rewrite !map_map. reflexivity.
Qed.

Lemma take_accept_el_junk c rest : is_junk c = true -> take_accept_el (c :: rest) = None.
Proof.
  intros H. unfold take_accept_el. rewrite take_token_junk by exact H. reflexivity.
Qed.

(* ---------- the whole header ---------- *)
Definition abody (els : list (rel * str)) : str := flat_map (fun ej => render_rel (fst ej) ++ snd ej) els.
Definition arender (j0 : str) (els : list (rel * str)) : str := j0 ++ abody els.
Fixpoint rels_ok (els : list (rel * str)) : Prop :=
  match els with
  | [] => True
  | (e, j) :: rest => rel_ok e /\ all_junk j /\ (rest <> [] -> j <> []) /\ rels_ok rest
  end.

Lemma scan_accept_junk j : forall s fuel, all_junk j ->
  scan_accept (length j + fuel) (j ++ s) = scan_accept fuel s.
Proof.
  induction j as [|c j IH]; intros s fuel Hj; [reflexivity|].
  inversion Hj as [|? ? Hc Hj']; subst. cbn [length app Nat.add scan_accept].
  rewrite take_accept_el_junk by exact Hc. apply IH, Hj'.
Qed.

Lemma render_rel_head e tail : rel_ok e -> head_ok (render_rel e ++ tail).
Proof.
  intros ((Hn & Ht) & _). unfold render_rel. destruct (r_type e) as [|c t]; [contradiction|].
  inversion Ht; subst. cbn. destruct (is_stop c) eqn:E; [|reflexivity]. apply stop_not_tchar in E. congruence.
Qed.

Lemma abody_follows j rest_els : all_junk j -> (rest_els <> [] -> j <> []) -> rels_ok rest_els ->
  follows (j ++ abody rest_els).
Proof.
  intros Hj Hn Hels. destruct j as [|c j].
  - destruct rest_els; [constructor|]. exfalso. apply Hn; [discriminate|reflexivity].
  - apply F_junk; [discriminate|exact Hj|].
    destruct rest_els as [|[e j'] more]; [exact I|]. destruct Hels as (He & _).
    unfold abody. cbn [flat_map fst snd]. rewrite <- app_assoc. apply render_rel_head, He.
Qed.

Lemma render_rel_nonempty e : rel_ok e -> exists c t, render_rel e = c :: t.
Proof.
  intros ((Hn & _) & _). unfold render_rel. destruct (r_type e) as [|c t]; [contradiction|]. cbn. eauto.
Qed.

Theorem scan_accept_render els : forall j0 k, all_junk j0 -> rels_ok els ->
  scan_accept (length j0 + fold_right (fun (ej : rel * str) n => S (length (snd ej) + n))%nat k els)
              (arender j0 els) = map (fun ej => canon_rel (fst ej)) els.
Proof.
  unfold arender. induction els as [|[e j] rest IH]; intros j0 k Hj0 Hels.
  - unfold abody. cbn [flat_map fold_right map]. rewrite scan_accept_junk by exact Hj0. destruct k; reflexivity.
  - destruct Hels as (He & Hj & Hn & Hrest).
    rewrite scan_accept_junk by exact Hj0. unfold abody. cbn [fold_right flat_map fst snd map]. fold (abody rest).
    rewrite <- app_assoc.
    destruct (render_rel_nonempty e He) as (c & t & Ec).
    rewrite Ec. cbn [app scan_accept].
    change (c :: t ++ j ++ abody rest) with ((c :: t) ++ j ++ abody rest). rewrite <- Ec.
    rewrite take_accept_el_app; [|exact He|apply abody_follows; assumption].
    f_equal. apply (IH j k Hj Hrest).
Qed.

Lemma afuel_enough els : rels_ok els -> forall m, exists k,
  (m + length (abody els) = fold_right (fun (ej : rel * str) n => S (length (snd ej) + n)) k els)%nat.
Proof.
  induction els as [|[e j] rest IH]; intros Hels m.
  - exists m. cbn. lia.
  - destruct Hels as (He & _ & _ & Hrest).
    destruct (render_rel_nonempty e He) as (c & t & Ec).
    destruct (IH Hrest (m + length (render_rel e) - 1)%nat) as [k Hk].
    exists k. unfold abody in *. cbn [flat_map fold_right fst snd]. rewrite !app_length. rewrite Ec in *. cbn [length] in *. lia.
Qed.

Theorem parse_accept_render j0 els :
  all_junk j0 -> rels_ok els -> rmatch gen_accept (arender j0 els) = true ->
  parse_accept (arender j0 els) = Some (map (fun ej => canon_rel (fst ej)) els).
Proof.
  intros Hj Hels Hv. unfold parse_accept. rewrite Hv. f_equal.
  destruct (afuel_enough els Hels 1%nat) as [k Hk].
  replace (S (length (arender j0 els))) with
    (length j0 + fold_right (fun (ej : rel * str) n => S (length (snd ej) + n)) k els)%nat.
  - apply scan_accept_render; assumption.
  - unfold arender. rewrite app_length. lia.
Qed.
