(* C01 — a typed write whose value has no header text ("empty but not None") lands: the key leaves the environ and every
   accessor, long-lived or brand-new, shows the header absent -- after ANY history. *)
From Coq Require Import ZArith NArith List Bool String Lia.
Require Import Webob.Lib.Val Webob.Lib.PyStr Webob.Lib.C01_Str Webob.Model.MultiDict Webob.Model.C01_EnvView
               Webob.Model.C01_Converter Webob.Spec.C01_View Webob.Proofs.C01_env Webob.Proofs.C01_inv
               Webob.Proofs.C01_coherent.
Import ListNotations.
Local Open Scope list_scope.

Section ConverterLands.
  Variable P : Type.
  Variable CCOP : Type.
  Variable V : Type.
  Variable parse_qs : str -> items + str.
  Variable urlencode : items -> str.
  Variable parse_cookie : str -> list (str * str).
  Variable valid_name : str -> bool.
  Variable cookie_edit : str -> str -> option str -> str * bool.
  Variable parse_cc : str -> P.
  Variable ser_cc : P -> str.
  Variable cc_empty : P -> bool.
  Variable cc_apply : CCOP -> P -> option P * val.
  Variable cc_obs : P -> val.
  Variable detect_charset : str -> str.
  Hypothesis qs_roundtrip : forall l, parse_qs (urlencode l) = inl l.
  Hypothesis qs_empty : parse_qs [] = inl [].

  Notation Inv := (Inv P parse_qs parse_cookie parse_cc).
  Notation obsA := (obsA P parse_qs parse_cookie parse_cc ser_cc cc_empty cc_obs detect_charset repaired).
  Notation obsF := (obsF P parse_qs parse_cookie parse_cc ser_cc cc_empty cc_obs detect_charset repaired).
  Notation step := (step P CCOP parse_qs urlencode parse_cookie valid_name cookie_edit parse_cc ser_cc cc_empty
                         cc_apply cc_obs detect_charset repaired).
  Notation run := (run P CCOP parse_qs urlencode parse_cookie valid_name cookie_edit parse_cc ser_cc cc_empty
                       cc_apply cc_obs detect_charset repaired).

  Lemma run_snoc ops o s : run (ops ++ [o]) s = snd (step (run ops s) o).
  Proof. unfold C01_EnvView.run. rewrite fold_left_app. reflexivity. Qed.

  Theorem empty_typed_write_lands ops s0 (serialize : V -> option str) k v :
    Inv s0 -> Forall (wf_op P CCOP) ops -> is_cache_key k = false -> serialize v = None ->
    let s := run ops s0 in
    let s' := snd (step s (conv_fset P CCOP V serialize k (Some v))) in
    env_get k (env s') = None /\
    (forall k', str_eqb k k' = false -> env_get k' (env s') = env_get k' (env s)) /\
    (forall n w, trans_name n = k -> obsA (GHdr n) w s' = VNone /\ obsF (GHdr n) s' = VNone) /\
    (forall g w, wf_getter g -> g <> GCharset -> obsA g w s' = obsF g s') /\
    s' = snd (step s (conv_fset P CCOP V serialize k None)).
  Proof.
    intros I W Hk Hser s s'. subst s'. unfold conv_fset. rewrite Hser.
    pose proof (getter_set_lands P CCOP parse_qs urlencode parse_cookie valid_name cookie_edit parse_cc ser_cc cc_empty
                                 cc_apply cc_obs detect_charset s k []) as (_ & Hdel & Hother).
    assert (Hcoh : forall g w, wf_getter g -> g <> GCharset ->
              obsA g w (snd (step s (OGetterSet P CCOP k None))) = obsF g (snd (step s (OGetterSet P CCOP k None)))).
    { intros g w Wg Ng. subst s. rewrite <- run_snoc.
      apply (coherent P CCOP parse_qs urlencode parse_cookie valid_name cookie_edit parse_cc ser_cc cc_empty
                      cc_apply cc_obs detect_charset qs_roundtrip qs_empty); auto.
      apply Forall_app. split; [exact W|]. constructor; [exact Hk|constructor]. }
    split; [exact Hdel|]. split; [intros k' Hk'; apply (Hother k' Hk')|]. split; [|split; [exact Hcoh|reflexivity]].
    intros n w Hn.
    assert (HA : obsA (GHdr n) w (snd (step s (OGetterSet P CCOP k None))) = VNone).
    { unfold C01_EnvView.obsA. cbn [C01_EnvView.rd fst]. rewrite Hn. rewrite Hdel. reflexivity. }
    split; [exact HA|]. rewrite <- (Hcoh (GHdr n) w); [exact HA|exact Logic.I|discriminate].
  Qed.
End ConverterLands.
