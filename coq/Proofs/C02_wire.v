(* C02 — what a WSGI server observes, read-back of body and text, the gzip round trip and the
   statuses without a body.  Builds on the invariant of Proofs/C02_resp.v. *)
From Coq Require Import String.
From Coq Require Import ZArith NArith List Bool Lia ZifyBool ZifyNat ZifyN.
Require Import Webob.Lib.Val Webob.Lib.PyStr Webob.Lib.C02_Base Webob.Lib.C02_Utf8 Webob.Gen.C02_status
               Webob.Model.C02_RespBody Webob.Proofs.C02_base Webob.Proofs.C02_resp.
Import ListNotations.
Local Open Scope N_scope.

(* ====================================================================== __call__ *)
Section Call.
  Variable uj : str -> str.

  Lemma is_key_fst k kv v : is_key k (fst kv, v) = is_key k kv.
  Proof. reflexivity. Qed.

  Lemma clvals_abs_headerlist h : clvals (abs_headerlist uj h) = clvals h.
  Proof.
    unfold clvals, abs_headerlist. induction h as [|kv h IH]; [reflexivity|].
    cbn [map filter]. destruct (is_key K_LOC kv) eqn:E.
    - rewrite is_key_fst, (is_key_excl K_LOC kv K_LOC_ne E). exact IH.
    - destruct (is_key K_CL kv); cbn [map]; rewrite IH; reflexivity.
  Qed.

  (* start_response is called exactly once, with the current status line and the header list in which
     only Location values are rewritten; GET yields the chunks of the body, HEAD yields nothing *)
  Lemma call_spec head r :
    sr_calls (call uj head r) = [(r_status r, abs_headerlist uj (r_headers r))] /\
    yielded (call uj head r) = if head then [] else chunks (r_app r).
  Proof. unfold call. destruct head; split; reflexivity. Qed.

  Lemma abs_headerlist_shape h :
    map fst (abs_headerlist uj h) = map fst h /\
    Forall2 (fun kv kv' => kv' = kv \/ (is_key K_LOC kv = true /\ kv' = (fst kv, abs_location uj (snd kv))))
            h (abs_headerlist uj h).
  Proof.
    unfold abs_headerlist. induction h as [|kv h [IH1 IH2]]; [split; constructor|].
    cbn [map]. split.
    - f_equal; [destruct (is_key K_LOC kv); reflexivity|exact IH1].
    - constructor; [|exact IH2]. destruct (is_key K_LOC kv); [right; split; reflexivity|left; reflexivity].
  Qed.

  Lemma abs_location_absolute v : has_scheme v = true -> abs_location uj v = v.
  Proof. unfold abs_location. intros ->. reflexivity. Qed.

  Lemma abs_location_relative v : has_scheme v = false -> abs_location uj v = uj v.
  Proof. unfold abs_location. intros ->. reflexivity. Qed.

  (* every Content-Length a server is given equals the number of bytes a GET yields *)
  Lemma wire_truthful r : cl_inv r ->
    forall st hl, In (st, hl) (sr_calls (call uj false r)) ->
    Forall (fun v => v = dec (blen (List.concat (yielded (call uj false r))))) (clvals hl).
  Proof.
    intros [F _] st hl Hin. destruct (call_spec false r) as [E1 E2]. rewrite E1 in Hin. rewrite E2.
    destruct Hin as [Hin|[]]. injection Hin as _ <-. rewrite clvals_abs_headerlist. exact F.
  Qed.

  Lemma head_same_headers r :
    sr_calls (call uj true r) = sr_calls (call uj false r) /\ yielded (call uj true r) = [].
  Proof. split; reflexivity. Qed.
End Call.

(* ====================================================================== read-back *)
Section Readback.
  Variable gz : list bytes -> list bytes.
  Variable gunzip : bytes -> option bytes.
  Variable inflate : bytes -> option bytes.
  Variable md5b64 : bytes -> str.
  Variable uj : str -> str.
  Variable c : cfg.

  Notation stp := (step gz gunzip inflate md5b64 uj c).
  Notation runops := (run_ops gz gunzip inflate md5b64 uj c).

  Lemma get_body_set_body b r : get_body (set_body b r) = (set_body b r, Ok b).
  Proof. reflexivity. Qed.

  (* operations that are not body writes *)
  Definition keeps_body (o : op) : Prop :=
    match o with
    | OGetBody | OGetText | OMd5Etag _ | OCopy _ | OSetCharset _ | OSetContentType _
    | OSetStatus _ | OSetLocation _ | OCall _ => True
    | _ => False
    end.
  (* ... and do not touch Content-Type either *)
  Definition keeps_text (o : op) : Prop :=
    match o with
    | OGetBody | OGetText | OMd5Etag _ | OCopy _ | OSetStatus _ | OSetLocation _ | OCall _ => True
    | _ => False
    end.

  Definition holds (b : bytes) (r : resp) : Prop := cl_inv r /\ is_list r /\ content r = b.

  Lemma md5_etag_fst m r :
    exists h, fst (md5_etag md5b64 m r) = with_headers (fst (get_body r)) h /\
              hlast K_CT h = hlast K_CT (r_headers (fst (get_body r))).
  Proof.
    unfold md5_etag. destruct (get_body r) as [r1 [b|e]]; cbn [fst].
    - set (v := etag_quote (strip_by (fun x => x =? 61) (md5b64 b))).
      pose proof (hlast_hset_other K_CT N_ETAG v (r_headers r1)) as P1.
      destruct (hset N_ETAG v (r_headers r1)) as [h1 e1]. cbn [fst] in P1.
      destruct e1 as [e|]; cbn [fst]; [exists h1; split; [reflexivity|apply P1; discriminate]|].
      destruct m; [|exists h1; split; [reflexivity|apply P1; discriminate]].
      pose proof (hlast_hset_other K_CT N_CMD5 (md5b64 b) h1) as P2.
      destruct (hset N_CMD5 (md5b64 b) h1) as [h2 e2]. cbn [fst] in *.
      exists h2. split; [reflexivity|]. rewrite P2 by discriminate. apply P1. discriminate.
    - exists (r_headers r1). split; [destruct r1; reflexivity|reflexivity].
  Qed.

  Lemma step_keeps_body b r o : keeps_body o -> holds b r -> holds b (fst (stp r o)).
  Proof.
    intros Hk [Hi [Hl Hc]]. split; [apply step_inv; [destruct o; try contradiction; intros []|exact Hi]|].
    unfold step. destruct o; try contradiction.
    - (* body *) pose proof (get_body_is_list r Hl) as A. pose proof (get_body_content r) as B.
      destruct (get_body r). cbn [fst] in *. split; [exact A|congruence].
    - (* text *) pose proof (get_body_is_list r Hl) as A. pose proof (get_body_content r) as B.
      destruct (get_text_fst c r) as [E|E]; destruct (get_text c r); cbn [fst] in *; rewrite E;
        (split; [assumption|congruence]).
    - (* md5_etag *) destruct (md5_etag_fst set_md5 r) as [h [E _]].
      pose proof (get_body_is_list r Hl) as A. pose proof (get_body_content r) as B.
      destruct (md5_etag md5b64 set_md5 r). cbn [fst] in *. subst r0. split; [exact A|].
      rewrite content_with_headers. congruence.
    - (* copy *) destruct (copy_spec c r Hi) as [_ [C1 [L1 H2]]].
      destruct (copy c r) as [r1 [r2|e]]; cbn [fst snd] in *.
      + destruct switch; [|split; [exact L1|congruence]].
        destruct (H2 r2 eq_refl) as [_ [C2 [L2 _]]]. split; [exact L2|congruence].
      + split; [exact L1|congruence].
    - (* charset *) destruct (set_charset c0 (r_headers r)) as [h e]. cbn [fst]. split; [exact Hl|exact Hc].
    - (* content type *) cbn [fst]. split; [exact Hl|exact Hc].
    - (* status *) destruct (status_set s); cbn [fst]; split; assumption.
    - (* location *) destruct v as [x|]; [destruct (hset N_LOC x (r_headers r)) as [h e]|]; cbn [fst]; split; assumption.
    - (* call *) cbn [fst]. unfold call. unfold is_list in Hl.
      destruct head; cbn [after]; destruct (r_app r) eqn:Ea; try contradiction; split; try exact Hc;
        unfold is_list; rewrite Ea; exact I.
  Qed.

  (* .body reads back what was last written, whatever non-writing operations came in between *)
  Theorem readback_body b ops : Forall keeps_body ops -> forall r,
    holds b r -> snd (get_body (runops ops r)) = Ok b.
  Proof.
    induction 1 as [|o ops Ho _ IH]; intros r Hh.
    - destruct Hh as [Hi [_ Hc]]. cbn. rewrite (get_body_ok r Hi), Hc. reflexivity.
    - unfold run_ops. cbn [fold_left]. apply IH. apply step_keeps_body; assumption.
  Qed.

  Lemma holds_set_body b r : holds b (set_body b r).
  Proof. split; [apply set_body_inv|]. split; [exact I|apply set_body_content]. Qed.

  Lemma holds_write x b r : holds b r -> holds (b ++ x) (fst (write_bytes x r)).
  Proof.
    intros [Hi [_ Hc]]. destruct (write_bytes_spec x r Hi) as [A [B [_ D]]].
    split; [exact A|]. split; [exact D|]. rewrite B, Hc. reflexivity.
  Qed.

  (* ---------- text ---------- *)
  Lemma get_text_spec r e : cl_inv r -> text_encoding c (r_headers r) = Some e ->
    snd (get_text c r) = decode e (content r).
  Proof.
    intros Hi He. unfold get_text. rewrite He. pose proof (get_body_ok r Hi) as E.
    destruct (get_body r) as [r1 [b|x]]; cbn [snd] in *; [|discriminate]. injection E as ->. reflexivity.
  Qed.

  Lemma text_encoding_hlast h h' : hlast K_CT h' = hlast K_CT h -> text_encoding c h' = text_encoding c h.
  Proof. unfold text_encoding, charset_of. intros ->. reflexivity. Qed.

  Lemma charset_of_hlast h h' : hlast K_CT h' = hlast K_CT h -> charset_of h' = charset_of h.
  Proof. unfold charset_of. intros ->. reflexivity. Qed.

  Definition holds_text (ct : option str) (b : bytes) (r : resp) : Prop :=
    holds b r /\ hlast K_CT (r_headers r) = ct.

  Lemma step_keeps_text ct b r o : keeps_text o -> holds_text ct b r -> holds_text ct b (fst (stp r o)).
  Proof.
    intros Hk [Hh Ht]. split.
    { apply step_keeps_body; [destruct o; try contradiction; exact I|exact Hh]. }
    destruct Hh as [Hi _]. rewrite <- Ht. unfold step. destruct o; try contradiction.
    - pose proof (get_body_hlast K_CT r K_CT_ne) as A. destruct (get_body r). exact A.
    - pose proof (get_body_hlast K_CT r K_CT_ne) as A.
      destruct (get_text_fst c r) as [E|E]; destruct (get_text c r); cbn [fst] in *; rewrite E; [exact A|reflexivity].
    - destruct (md5_etag_fst set_md5 r) as [h [E P]]. pose proof (get_body_hlast K_CT r K_CT_ne) as A.
      destruct (md5_etag md5b64 set_md5 r). cbn [fst] in *. subst r0. cbn [r_headers with_headers]. congruence.
    - destruct (copy_spec c r Hi) as [_ [_ [_ H2]]].
      assert (E1 : r_headers (fst (copy c r)) = r_headers r) by reflexivity.
      destruct (copy c r) as [r1 [r2|e]]; cbn [fst snd] in *.
      + destruct switch; [|rewrite E1; reflexivity]. destruct (H2 r2 eq_refl) as [_ [_ [_ E2]]]. rewrite E2. reflexivity.
      + rewrite E1. reflexivity.
    - destruct (status_set s); reflexivity.
    - destruct v as [x|]; cbn [fst].
      + pose proof (hlast_hset_other K_CT N_LOC x (r_headers r)) as P.
        destruct (hset N_LOC x (r_headers r)) as [h e]. cbn [fst r_headers with_headers] in *. apply P. discriminate.
      + cbn [r_headers with_headers]. apply hlast_hdel_other. discriminate.
    - cbn [fst]. unfold call. destruct head; cbn [after]; destruct (r_app r) as [cs|[|] cs|cs]; reflexivity.
  Qed.

  (* .text reads back the text last written, whatever operations that keep body and Content-Type
     came in between; the charset is whatever the Content-Type said when the text was written *)
  Theorem readback_text t r r0 ops :
    set_text c t r = (r0, None) -> Forall keeps_text ops ->
    snd (get_text c (runops ops r0)) = Ok t.
  Proof.
    intros Hs Hops. destruct (set_text_cases c t r) as [[x E]|[b [e [E [He Henc]]]]]; rewrite E in Hs; [discriminate|].
    injection Hs as <-.
    assert (H0 : holds_text (hlast K_CT (r_headers r)) b (set_body b r)).
    { split; [apply holds_set_body|]. apply set_body_hlast; discriminate. }
    assert (G : forall ops r1, Forall keeps_text ops -> holds_text (hlast K_CT (r_headers r)) b r1 ->
                holds_text (hlast K_CT (r_headers r)) b (runops ops r1)).
    { clear. induction ops as [|o ops IH]; intros r1 Hf Hh; [exact Hh|].
      inversion Hf as [|? ? Ho Hf']; subst. unfold run_ops. cbn [fold_left]. apply IH; [exact Hf'|].
      apply step_keeps_text; assumption. }
    destruct (G ops _ Hops H0) as [[Hi [_ Hc]] Ht].
    rewrite (get_text_spec _ e Hi), Hc; [apply decode_encode; exact Henc|].
    rewrite (text_encoding_hlast (r_headers r) _ Ht). exact He.
  Qed.
End Readback.

(* ====================================================================== gzip *)
Section Gzip.
  Variable gz : list bytes -> list bytes.
  Variable gunzip : bytes -> option bytes.
  Variable inflate : bytes -> option bytes.
  (* the law assumed of zlib/gzip: what gzip_app_iter produces, joined, reads back as the joined input *)
  Hypothesis gz_law : forall cs, gunzip (List.concat (gz cs)) = Some (List.concat cs).

  Definition not_gzip (r : resp) : Prop :=
    match content_encoding r with Some v => str_eqb v (s2l "gzip") = false | None => True end.

  Lemma encode_shape lazy r : not_gzip r ->
    exists r1, encode_content gz gunzip inflate true lazy r = (r1, None) /\
               content r1 = List.concat (gz (chunks (r_app r))) /\
               content_encoding r1 = Some (s2l "gzip").
  Proof.
    intros Hn. unfold encode_content. cbn [negb]. unfold not_gzip in Hn.
    replace (match content_encoding r with Some v => str_eqb v (s2l "gzip") | None => false end) with false
      by (destruct (content_encoding r); [symmetry; exact Hn|reflexivity]).
    eexists. split; [reflexivity|]. split.
    - rewrite content_with_headers. destruct lazy; reflexivity.
    - unfold content_encoding. cbn [r_headers with_headers]. apply (hfirst_hset_plain_same N_CE).
  Qed.

  (* encode_content('gzip') produces a valid gzip stream of the previous body *)
  Theorem encode_valid lazy r : not_gzip r ->
    gunzip (content (fst (encode_content gz gunzip inflate true lazy r))) = Some (content r).
  Proof.
    intros Hn. destruct (encode_shape lazy r Hn) as [r1 [E [C _]]]. rewrite E. cbn [fst]. rewrite C.
    apply gz_law.
  Qed.

  (* ... and decode_content() restores it byte for byte, with its length *)
  Theorem gzip_roundtrip lazy r : cl_inv r -> not_gzip r ->
    let r1 := fst (encode_content gz gunzip inflate true lazy r) in
    exists r2, decode_content gunzip inflate r1 = (r2, None) /\
               content r2 = content r /\
               clv r2 = [dec (blen (content r))] /\
               content_encoding r2 = None /\
               r_app r2 = AList [content r].
  Proof.
    intros Hi Hn r1. pose proof (encode_inv gz gunzip inflate true lazy r Hi) as Hi1.
    destruct (encode_shape lazy r Hn) as [r1' [E [C CE]]]. subst r1. rewrite E in *. cbn [fst] in *.
    unfold decode_content. rewrite CE. cbn [str_eqb]. 
    replace (str_eqb (s2l "gzip") (s2l "identity")) with false by reflexivity.
    replace (str_eqb (s2l "gzip") (s2l "gzip")) with true by reflexivity. cbn [orb negb].
    pose proof (get_body_ok r1' Hi1) as B. destruct (get_body r1') as [r1b [b|e]]; cbn [snd] in B; [|discriminate].
    injection B as ->. rewrite C, gz_law.
    eexists. split; [reflexivity|]. split; [|split; [|split]].
    - rewrite content_with_headers. apply set_body_content.
    - rewrite clv_with_headers, (clvals_hdel_other _ _ K_CE_ne). apply set_body_clv.
    - unfold content_encoding. cbn [r_headers with_headers]. apply hfirst_hdel_same.
    - reflexivity.
  Qed.
End Gzip.

(* ====================================================================== statuses without a body *)
Section NoBody.
  Variable c : cfg.

  Lemma mk_ct_nobody a : fst (mk_ct c a false) = match a_headerlist a with None => [] | Some h => h end.
  Proof.
    unfold mk_ct. destruct (if truthy (a_ctype a) then a_ctype a else d_ctype c) as [[|x ctv]|]; try reflexivity.
    rewrite andb_false_r. reflexivity.
  Qed.

  (* a response created with a 1xx / 204 / 205 / 304 status line gets no header of its own (no
     Content-Type, no Content-Length) and an empty body, whatever body / content_type / charset was passed *)
  Theorem nobody_status a r : a_app a = None -> mk c a = Ok r -> code_has_body (r_status r) = false ->
    r_headers r = match a_headerlist a with None => [] | Some h => h end /\ r_app r = AList [[]].
  Proof.
    unfold mk. intros Ea. rewrite Ea.
    destruct (a_body a) as [bd|];
      destruct (match a_status a with None => Ok (s2l "200 OK") | Some s => status_set s end) as [st|e];
      try discriminate.
    - destruct (code_has_body st) eqn:Eh.
      + destruct bd as [b|t].
        * intros H. injection H as <-. cbn [r_status mk_finish]. congruence.
        * destruct (if truthy (charset_of (fst (mk_ct c a true))) then charset_of (fst (mk_ct c a true)) else snd (mk_ct c a true));
            [|discriminate].
          destruct (encode s t); [|discriminate]. intros H. injection H as <-. cbn [r_status mk_finish]. congruence.
      + intros H. injection H as <-. intros _. cbn [r_headers r_app]. split; [apply mk_ct_nobody|reflexivity].
    - destruct (code_has_body st) eqn:Eh.
      + intros H. injection H as <-. cbn [r_status mk_finish]. congruence.
      + intros H. injection H as <-. intros _. cbn [r_headers r_app]. split; [apply mk_ct_nobody|reflexivity].
  Qed.

  (* a response created with any other status and a bytes body carries exactly that body and exactly one
     Content-Length, its length -- even when the caller's header list had a Content-Length of its own *)
  Theorem body_status a r b : a_app a = None -> a_body a = Some (BBytes b) -> mk c a = Ok r ->
    code_has_body (r_status r) = true ->
    r_app r = AList [b] /\ clv r = [dec (blen b)].
  Proof.
    unfold mk. intros Ea Eb. rewrite Ea, Eb.
    destruct (match a_status a with None => Ok (s2l "200 OK") | Some s => status_set s end) as [st|e];
      try discriminate.
    destruct (code_has_body st) eqn:Eh.
    - intros H. injection H as <-. intros _. split; [reflexivity|].
      unfold clv, mk_finish. cbn [r_headers]. rewrite clvals_app, (clvals_single_cl _ _ lower_N_CL).
      replace (clvals (if is_some (a_headerlist a) then hdel K_CL (fst (mk_ct c a true)) else fst (mk_ct c a true)))
        with (@nil str); [reflexivity|].
      destruct (a_headerlist a) as [h|] eqn:Eh'; cbn [is_some].
      + rewrite clvals_hdel_same. reflexivity.
      + rewrite clvals_mk_ct, Eh'. reflexivity.
    - intros H. injection H as <-. cbn [r_status]. congruence.
  Qed.
End NoBody.

(* a text body given to the constructor, when the response announces a charset: it reads back, i.e. the
   bytes are the text in the announced charset (whatever charset= argument was passed) *)
Section CtorText.
  Variable c : cfg.

  Lemma charset_of_mk_finish a st hl cond b :
    charset_of (r_headers (mk_finish a st hl cond b)) = charset_of hl.
  Proof.
    unfold mk_finish. cbn [r_headers]. unfold charset_of.
    rewrite hlast_app_other by discriminate.
    destruct (is_some (a_headerlist a)); [rewrite hlast_hdel_other by discriminate|]; reflexivity.
  Qed.

  Theorem ctor_text_readback a r t : a_app a = None -> a_body a = Some (BText t) -> mk c a = Ok r ->
    code_has_body (r_status r) = true -> truthy (charset_of (r_headers r)) = true ->
    get_text c r = (r, Ok t).
  Proof.
    unfold mk. intros Ea Eb. rewrite Ea, Eb.
    destruct (match a_status a with None => Ok (s2l "200 OK") | Some s => status_set s end) as [st|e];
      try discriminate.
    destruct (code_has_body st) eqn:Eh.
    - set (hl1 := fst (mk_ct c a true)).
      destruct (truthy (charset_of hl1)) eqn:Et.
      + destruct (charset_of hl1) as [cs|] eqn:Ec; [|discriminate Et].
        destruct (encode cs t) as [b|x] eqn:Ee; [|discriminate].
        intros H. injection H as <-. intros _ _.
        unfold get_text, text_encoding. rewrite charset_of_mk_finish. fold hl1. rewrite Ec, Et.
        cbn [get_body mk_finish r_app]. rewrite (decode_encode _ _ _ Ee). reflexivity.
      + destruct (snd (mk_ct c a true)) as [e|]; [|discriminate].
        destruct (encode e t); [|discriminate]. intros H. injection H as <-. intros _ Ht.
        rewrite charset_of_mk_finish in Ht. fold hl1 in Ht. congruence.
    - intros H. injection H as <-. cbn [r_status]. congruence.
  Qed.
End CtorText.

(* which integer codes those are, decided on the status table regenerated from webob.util *)
Definition nobody_codes : list Z := map Z.of_nat (seq 100 100) ++ [204; 205; 304]%Z.
Definition body_codes : list Z :=
  filter (fun z => negb (Z.eqb z 204 || Z.eqb z 205 || Z.eqb z 304)) (map Z.of_nat (seq 200 400)).

Lemma nobody_codes_sweep :
  forallb (fun z => match status_of_code z with Ok st => negb (code_has_body st) | Exc _ => false end) nobody_codes = true.
Proof. vm_compute. reflexivity. Qed.

Lemma body_codes_sweep :
  forallb (fun z => match status_of_code z with Ok st => code_has_body st | Exc _ => false end) body_codes = true.
Proof. vm_compute. reflexivity. Qed.

Theorem int_status_nobody z : ((100 <= z < 200)%Z \/ z = 204%Z \/ z = 205%Z \/ z = 304%Z) ->
  exists st, status_of_code z = Ok st /\ code_has_body st = false.
Proof.
  intros H. assert (Hin : In z nobody_codes).
  { unfold nobody_codes. apply in_or_app. destruct H as [H|H].
    - left. apply in_map_iff. exists (Z.to_nat z). split; [lia|]. apply in_seq. lia.
    - right. cbn. lia. }
  pose proof (proj1 (forallb_forall _ _) nobody_codes_sweep z Hin) as P. cbv beta in P.
  destruct (status_of_code z) as [st|e]; [|discriminate].
  exists st. split; [reflexivity|]. destruct (code_has_body st); [discriminate|reflexivity].
Qed.

Theorem int_status_body z : (200 <= z < 600)%Z -> z <> 204%Z -> z <> 205%Z -> z <> 304%Z ->
  exists st, status_of_code z = Ok st /\ code_has_body st = true.
Proof.
  intros H N1 N2 N3. assert (Hin : In z body_codes).
  { unfold body_codes. apply filter_In. split.
    - apply in_map_iff. exists (Z.to_nat z). split; [lia|]. apply in_seq. lia.
    - lia. }
  pose proof (proj1 (forallb_forall _ _) body_codes_sweep z Hin) as P. cbv beta in P.
  destruct (status_of_code z) as [st|e]; [|discriminate].
  exists st. split; [reflexivity|exact P].
Qed.

(* ====================================================================== statements as used in Props/C02.v *)
Section Top.
  Variable gz : list bytes -> list bytes.
  Variable gunzip : bytes -> option bytes.
  Variable inflate : bytes -> option bytes.
  Variable md5b64 : bytes -> str.
  Variable uj : str -> str.
  Variable c : cfg.
  Notation runops := (run_ops gz gunzip inflate md5b64 uj c).

  Theorem cl_inv_history a ops r : wf_args a -> mk c a = Ok r ->
    Forall (fun o => ~ raw_edit o) ops -> cl_inv (runops ops r).
  Proof. intros Hw Hm Hf. apply run_inv; [exact Hf|]. apply (mk_inv c a r Hw Hm). Qed.

  (* the same at the WSGI boundary, from ANY state r0, once a resetting body mutation has happened *)
  Theorem wire_after_reset r0 o ops : resetting o -> Forall (fun o => ~ raw_edit o) ops ->
    let k := call uj false (runops ops (fst (step gz gunzip inflate md5b64 uj c r0 o))) in
    forall st hl, In (st, hl) (sr_calls k) ->
      Forall (fun v => v = dec (blen (List.concat (yielded k)))) (clvals hl).
  Proof. intros Hr Hf k. apply wire_truthful. apply run_inv_after_reset; assumption. Qed.

  Theorem wire_history a ops r : wf_args a -> mk c a = Ok r -> Forall (fun o => ~ raw_edit o) ops ->
    let k := call uj false (runops ops r) in
    forall st hl, In (st, hl) (sr_calls k) ->
      Forall (fun v => v = dec (blen (List.concat (yielded k)))) (clvals hl).
  Proof. intros Hw Hm Hf k. apply wire_truthful. apply (cl_inv_history a ops r Hw Hm Hf). Qed.

  Theorem body_read_is_content r : cl_inv r ->
    snd (get_body r) = Ok (content r) /\ content (fst (get_body r)) = content r /\ cl_inv (fst (get_body r)).
  Proof. intros Hi. split; [apply get_body_ok; exact Hi|]. split; [apply get_body_content|apply get_body_inv; exact Hi]. Qed.

  Theorem readback_set_body b r ops : Forall keeps_body ops ->
    snd (get_body (runops ops (set_body b r))) = Ok b.
  Proof. intros Hf. apply (readback_body gz gunzip inflate md5b64 uj c b ops Hf). apply holds_set_body. Qed.

  Theorem readback_write b x r ops : holds b r -> Forall keeps_body ops ->
    snd (write_bytes x r) = Ok (blen x) /\
    snd (get_body (runops ops (fst (write_bytes x r)))) = Ok (b ++ x).
  Proof.
    intros Hh Hf. split; [apply (write_bytes_spec x r (proj1 Hh))|].
    apply (readback_body gz gunzip inflate md5b64 uj c (b ++ x) ops Hf). apply holds_write. exact Hh.
  Qed.

  Theorem readback_app_iter a r ops : Forall keeps_body ops ->
    snd (get_body (runops ops (fst (get_body (set_app_iter a r))))) = Ok (List.concat (chunks a)).
  Proof.
    intros Hf. apply (readback_body gz gunzip inflate md5b64 uj c _ ops Hf).
    pose proof (set_app_iter_inv a r) as Hi.
    split; [apply get_body_inv; exact Hi|]. split.
    - apply get_body_list_always.
    - rewrite get_body_content. reflexivity.
  Qed.
End Top.

(* the symbolic gzip of the correspondence satisfies the law assumed of gzip *)
Lemma concat_filter_nonempty (cs : list bytes) :
  List.concat (filter (fun ch => match ch with [] => false | _ => true end) cs) = List.concat cs.
Proof.
  induction cs as [|[|x ch] cs IH]; [reflexivity|exact IH|]. cbn [filter List.concat]. rewrite IH. reflexivity.
Qed.

Lemma split_last_close_final d : split_last_close (d ++ [GZ_CLOSE]) = Some (d, []).
Proof.
  induction d as [|x d IH]; [reflexivity|].
  rewrite <- app_comm_cons. cbn [split_last_close]. rewrite IH. reflexivity.
Qed.

Lemma fake_gz_law cs : fake_gunzip (List.concat (fake_gz cs)) = Some (List.concat cs).
Proof.
  unfold fake_gz. cbn [List.concat]. rewrite concat_app, concat_filter_nonempty. cbn [List.concat].
  rewrite app_nil_r. change ([GZ_OPEN] ++ List.concat cs ++ [GZ_CLOSE]) with (GZ_OPEN :: (List.concat cs ++ [GZ_CLOSE])).
  unfold fake_gunzip. rewrite N.eqb_refl, split_last_close_final. reflexivity.
Qed.
