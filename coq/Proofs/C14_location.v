(* C14 — the Location theorems for the repaired webob code paths (Model/C14_location.v). *)
From Coq Require Import NArith Arith List Bool Lia ZifyBool ZifyN.
Require Import Webob.Lib.Val Webob.Lib.PyStr Webob.Model.C14_urlsplit Webob.Model.C14_location
               Webob.Spec.C14_origin Webob.Proofs.C14_urljoin.
Import ListNotations.
Local Open Scope N_scope.

(* ---------- the neutralised value is a pure path/query/fragment reference ---------- *)
Lemma encode_ctl_chars v : forallb (fun c => negb (c <=? 32)) (encode_ctl v) = true.
Proof.
  induction v as [|c v IH]; [reflexivity|]. unfold encode_ctl in *. cbn [flat_map]. rewrite forallb_app, IH, andb_true_r.
  destruct (c <=? 32) eqn:E; [apply pct_chars|]. cbn. rewrite E. reflexivity.
Qed.

Lemma split_first_head d c s x p r : split_first d (c :: s) = Some (x :: p, r) -> x = c.
Proof.
  cbn. destruct (c =? d); [discriminate|]. destruct (split_first d s) as [[a b]|]; [|discriminate].
  intros H. injection H as <- _ _. reflexivity.
Qed.

Lemma take_scheme_nonalpha d c s : is_ascii_alpha c = false -> take_scheme d (c :: s) = (d, c :: s).
Proof.
  intros Hc. unfold take_scheme. destruct (split_first 58 (c :: s)) as [[[|x p] r]|] eqn:E; try reflexivity.
  apply split_first_head in E. subst x. rewrite Hc. reflexivity.
Qed.

Lemma scheme_means_colon_in_first_segment s : forall p r,
  split_first 58 s = Some (p, r) -> forallb is_scheme_char p = true -> colon_in_first_segment s = true.
Proof.
  unfold colon_in_first_segment.
  induction s as [|c s IH]; intros p r H Hp; cbn in H; [discriminate|].
  cbn [star_then]. destruct (c =? 58) eqn:E; [reflexivity|].
  destruct (split_first 58 s) as [[a b]|] eqn:E2; [|discriminate]. injection H as <- <-.
  cbn [forallb] in Hp. apply andb_true_iff in Hp as [Hc Ha].
  rewrite (scheme_char_not_delim _ Hc). cbn [negb orb andb]. eapply IH; [reflexivity | exact Ha].
Qed.

Lemma take_scheme_no_colon d s : colon_in_first_segment s = false -> take_scheme d s = (d, s).
Proof.
  intros H. unfold take_scheme. destruct (split_first 58 s) as [[[|x p] r]|] eqn:E; try reflexivity.
  destruct (is_ascii_alpha x && forallb is_scheme_char (x :: p)) eqn:E2; [|reflexivity].
  apply andb_true_iff in E2 as [_ E2]. rewrite (scheme_means_colon_in_first_segment _ _ _ E E2) in H. discriminate.
Qed.

Lemma relative_location_ok v : ref_ok (relative_location v).
Proof.
  unfold relative_location. pose proof (encode_ctl_chars v) as Hc. set (u := encode_ctl v) in *.
  destruct (starts2 47 47 u) eqn:E2.
  - unfold s_pct2f. cbn [app]. split; [|split].
    + cbn [forallb]. rewrite (forallb_skipn _ 2 _ Hc). reflexivity.
    + reflexivity.
    + intros d. apply take_scheme_nonalpha. reflexivity.
  - destruct (colon_in_first_segment u) eqn:E3.
    + split; [|split].
      * cbn [forallb]. rewrite Hc. reflexivity.
      * reflexivity.
      * intros d. apply take_scheme_nonalpha. reflexivity.
    + split; [exact Hc | split; [exact E2 |]]. intros d. apply take_scheme_no_colon. exact E3.
Qed.

(* ---------- _request_uri(environ) = scheme :// netloc qpath ---------- *)
Lemma raw_host_req e : raw_host e = req_host e.
Proof. unfold raw_host, req_host. destruct (e_http_host e) as [[|c h]|]; reflexivity. Qed.

Lemma starts_with_len p : forall a, starts_with p a = true -> (length p <= length a)%nat.
Proof.
  induction p as [|x p IH]; intros a H; cbn; [lia|]. destruct a as [|y a]; cbn in H; [discriminate|].
  apply andb_true_iff in H as [_ H]. apply IH in H. cbn. lia.
Qed.

Lemma sw80 a X : starts_with [48; 56; 58] (a ++ 47 :: X) = starts_with [48; 56; 58] a.
Proof.
  destruct a as [|x [|y [|z a]]]; cbn; rewrite ?andb_false_r; reflexivity.
Qed.
Lemma sw443 a X : starts_with [51; 52; 52; 58] (a ++ 47 :: X) = starts_with [51; 52; 52; 58] a.
Proof.
  destruct a as [|x [|y [|z [|w a]]]]; cbn; rewrite ?andb_false_r; reflexivity.
Qed.

Lemma drop_last_app n pre h : (n <= length h)%nat -> drop_last n (pre ++ h) = pre ++ drop_last n h.
Proof.
  intros H. unfold drop_last. rewrite rev_app_distr, skipn_app.
  replace (n - length (rev h))%nat with 0%nat by (rewrite rev_length; lia).
  cbn [skipn]. rewrite rev_app_distr, rev_involutive. reflexivity.
Qed.

Lemma strip_port scheme h :
  (scheme = s_http \/ scheme = s_https) ->
  (if ends_with s_p80 (scheme ++ s_css ++ h) && str_eqb scheme s_http then drop_last 3 (scheme ++ s_css ++ h)
   else if ends_with s_p443 (scheme ++ s_css ++ h) && str_eqb scheme s_https then drop_last 4 (scheme ++ s_css ++ h)
   else scheme ++ s_css ++ h)
  = scheme ++ s_css ++ strip_default_port scheme h.
Proof.
  intros Hs. unfold strip_default_port, ends_with.
  assert (E80 : starts_with (rev s_p80) (rev (scheme ++ s_css ++ h)) = starts_with (rev s_p80) (rev h)).
  { rewrite app_assoc, rev_app_distr. destruct Hs as [-> | ->]; apply sw80. }
  assert (E443 : starts_with (rev s_p443) (rev (scheme ++ s_css ++ h)) = starts_with (rev s_p443) (rev h)).
  { rewrite app_assoc, rev_app_distr. destruct Hs as [-> | ->]; apply sw443. }
  rewrite E80, E443.
  destruct (starts_with (rev s_p80) (rev h)) eqn:H80; destruct (starts_with (rev s_p443) (rev h)) eqn:H443;
    apply starts_with_len in H80 || idtac; apply starts_with_len in H443 || idtac;
    rewrite ?rev_length in *; cbn [length rev app s_p80 s_p443] in *;
    destruct Hs as [-> | ->]; cbn [str_eqb s_http s_https N.eqb Pos.eqb andb];
    rewrite ?app_assoc; try reflexivity; rewrite ?drop_last_app by lia; reflexivity.
Qed.

Lemma quote_slash_chars bs : forallb (fun c => negb (unsafe_byte c)) (quote safe_slash bs) = true.
Proof.
  induction bs as [|c bs IH]; [reflexivity|]. unfold quote in *. cbn [flat_map]. rewrite forallb_app, IH, andb_true_r.
  destruct (always_safe c || safe_slash c) eqn:E.
  - cbn. rewrite andb_true_r. unfold always_safe, safe_slash, is_ascii_alpha, is_digit, unsafe_byte in *. lia.
  - eapply forallb_impl; [|apply pct_chars]. intros x Hx. cbv beta in *. unfold unsafe_byte. lia.
Qed.

Lemma quote_slash_head t : quote safe_slash (47 :: t) = 47 :: quote safe_slash t.
Proof. reflexivity. Qed.

Lemma forallb_tl {A} (f : A -> bool) l : forallb f l = true -> forallb f (tl l) = true.
Proof. destruct l as [|x l]; cbn; [auto|]. intros H. apply andb_true_iff in H as [_ H]. exact H. Qed.

Lemma quote_path_ok p : path_ok (Some p) ->
  match quote safe_slash p with [] => True | c :: _ => c = 47 end.
Proof. intros [-> | [t ->]]; [exact I | reflexivity]. Qed.

Definition gt32 (c : N) : bool := negb (c <=? 32).

Lemma quote_slash_gt32 bs : forallb gt32 (quote safe_slash bs) = true.
Proof.
  induction bs as [|c bs IH]; [reflexivity|]. unfold quote in *. cbn [flat_map]. rewrite forallb_app, IH, andb_true_r.
  destruct (always_safe c || safe_slash c) eqn:E.
  - cbn. rewrite andb_true_r. unfold gt32, always_safe, safe_slash, is_ascii_alpha, is_digit in *. lia.
  - apply pct_chars.
Qed.

Lemma request_uri_shape e : env_ok e ->
  exists qpath, request_uri e = e_scheme e ++ s_css ++ req_netloc e ++ qpath /\ qpath_ok qpath /\ forallb gt32 qpath = true.
Proof.
  intros [Hs Hh Hn Hsc Hpi]. unfold request_uri.
  rewrite (strip_port _ _ Hs), raw_host_req. fold (req_netloc e).
  set (pi := match e_path_info e with Some p => p | None => [] end).
  assert (Hpi' : path_ok (Some pi)) by (unfold pi; destruct (e_path_info e); [exact Hpi | left; reflexivity]).
  destruct (e_script_name e) as [s|].
  - exists (quote safe_slash s ++ quote safe_slash pi). split; [|split].
    + rewrite <- !app_assoc. reflexivity.
    + split; [|rewrite forallb_app, !quote_slash_chars; reflexivity].
      destruct Hsc as [-> | [t ->]]; [apply (quote_path_ok _ Hpi') | reflexivity].
    + rewrite forallb_app, !quote_slash_gt32. reflexivity.
  - exists (quote safe_slash [47] ++ tl (quote safe_slash pi)). split; [|split].
    + rewrite <- !app_assoc. reflexivity.
    + split; [reflexivity|]. rewrite forallb_app. rewrite (forallb_tl _ _ (quote_slash_chars pi)). reflexivity.
    + rewrite forallb_app. rewrite (forallb_tl _ _ (quote_slash_gt32 pi)). reflexivity.
Qed.

Lemma forallb_drop_last {A} (f : A -> bool) n l : forallb f l = true -> forallb f (rev (skipn n (rev l))) = true.
Proof. intros H. rewrite forallb_rev. apply forallb_skipn. rewrite forallb_rev. exact H. Qed.

Lemma req_netloc_chars e : forallb host_char (req_host e) = true -> forallb host_char (req_netloc e) = true.
Proof.
  intros H. unfold req_netloc, strip_default_port, drop_last.
  destruct (_ && _); [apply forallb_drop_last; exact H|]. destruct (_ && _); [apply forallb_drop_last; exact H | exact H].
Qed.

(* ---------- Response._make_location_absolute ---------- *)
Lemma make_abs_same_origin e v : env_ok e -> has_alpha_scheme v = false ->
  exists r, make_location_absolute e v = JOk r /\ same_origin e r.
Proof.
  intros He Hv. unfold make_location_absolute. rewrite Hv.
  destruct (request_uri_shape e He) as (qpath & -> & Hq & _). destruct He as [Hs Hh Hn _ _].
  apply urljoin_origin; auto using req_netloc_chars, relative_location_ok.
Qed.

Lemma make_abs_unchanged e v : has_alpha_scheme v = true -> make_location_absolute e v = JOk v.
Proof. intros Hv. unfold make_location_absolute. rewrite Hv. reflexivity. Qed.

(* ---------- _abs_headerlist: every Location header, nothing else ---------- *)
Definition header_rel (e : environ) (kv kv' : header) : Prop :=
  fst kv' = fst kv /\
  if is_location (fst kv)
  then (has_alpha_scheme (snd kv) = true -> snd kv' = snd kv) /\
       (has_alpha_scheme (snd kv) = false -> same_origin e (snd kv'))
  else snd kv' = snd kv.

Lemma abs_headerlist_spec e hl : env_ok e ->
  exists hl', abs_headerlist e hl = HOk hl' /\ Forall2 (header_rel e) hl hl'.
Proof.
  intros He. induction hl as [|[k v] hl (hl' & IH & IHr)]; cbn [abs_headerlist].
  - exists []. split; [reflexivity | constructor].
  - rewrite IH. destruct (is_location k) eqn:Ek.
    + destruct (has_alpha_scheme v) eqn:Ev.
      * rewrite (make_abs_unchanged e v Ev). eexists; split; [reflexivity|]. constructor; [|exact IHr].
        split; [reflexivity|]. cbn [fst snd]. rewrite Ek. split; [reflexivity | congruence].
      * destruct (make_abs_same_origin e v He Ev) as (r & -> & Hr). eexists; split; [reflexivity|].
        constructor; [|exact IHr]. split; [reflexivity|]. cbn [fst snd]. rewrite Ek. split; [congruence | intros _; exact Hr].
    + eexists; split; [reflexivity|]. constructor; [|exact IHr]. split; [reflexivity|]. cbn [fst snd]. rewrite Ek. reflexivity.
Qed.

(* ---------- conditional_response_app: same Location values on every exit ---------- *)
Lemma locations_filter_headers remove h :
  mem_str s_location remove = false -> locations (filter_headers remove h) = locations h.
Proof.
  intros Hr. unfold locations, filter_headers. f_equal.
  induction h as [|[k v] h IH]; [reflexivity|]. cbn [filter fst].
  destruct (is_location k) eqn:Ek.
  - unfold is_location in Ek. apply str_eqb_eq in Ek. rewrite Ek, Hr. cbn [negb filter fst].
    unfold is_location at 1. rewrite Ek, str_eqb_refl. rewrite IH. reflexivity.
  - destruct (negb (mem_str (lower k) remove)); cbn [filter fst]; rewrite ?Ek; exact IH.
Qed.

Lemma cond_locations b e hl h : abs_headerlist e hl = HOk h ->
  exists h', cond_headerlist b e hl = HOk h' /\ locations h' = locations h.
Proof.
  intros H. unfold cond_headerlist. rewrite H. eexists; split; [reflexivity|].
  destruct b as [|cl cr|cl cr|]; [| | |reflexivity];
    try (change (locations (?a :: ?b :: ?c :: nil ++ ?r)) with (locations r));
    unfold locations; cbn [app filter fst is_location]; try apply locations_filter_headers; reflexivity.
Qed.

(* ---------- exc._HTTPMove ---------- *)
Lemma mem_n_in c l : In c l -> mem_n c l = true.
Proof.
  induction l as [|x l IH]; cbn; [tauto|]. intros [-> | H]; [rewrite N.eqb_refl; reflexivity|].
  rewrite (IH H). apply orb_true_r.
Qed.

Lemma move_rejects_crlf v a : In 10 v \/ In 13 v -> move_init (Some v) a = IValueError.
Proof.
  intros H. unfold move_init.
  assert (mem_n 10 v || mem_n 13 v = true) as -> by (destruct H as [H | H]; rewrite (mem_n_in _ _ H); auto using orb_true_r).
  reflexivity.
Qed.

Lemma origin_has_alpha_scheme e r : env_ok e -> same_origin e r -> has_alpha_scheme r = true.
Proof. intros [Hs _ _ _ _] (rest & -> & _). destruct Hs as [-> | ->]; reflexivity. Qed.

Lemma set_header_ok v r : set_header v = JOk r -> r = v.
Proof. unfold set_header. destruct (_ || _); [discriminate|]. intros H. injection H as <-. reflexivity. Qed.

(* the location is resolved once in _HTTPMove.__call__ and passes unchanged through _abs_headerlist *)
Lemma resolve_move_value e v r : env_ok e -> v <> [] ->
  resolve_move e (Some v) = JOk r ->
  (has_alpha_scheme v = true -> r = v) /\ (has_alpha_scheme v = false -> same_origin e r).
Proof.
  intros He Hne. unfold resolve_move. destruct v as [|c v]; [congruence|]. cbn [is_empty].
  destruct (has_alpha_scheme (c :: v)) eqn:Ev.
  - rewrite (make_abs_unchanged _ _ Ev). cbn [bind]. destruct (set_header (c :: v)) as [s| |] eqn:Es; cbn [bind]; try discriminate.
    apply set_header_ok in Es. subst s. rewrite (make_abs_unchanged _ _ Ev). intros H. injection H as <-.
    split; [reflexivity | discriminate].
  - destruct (make_abs_same_origin e _ He Ev) as (r0 & -> & Hr0). cbn [bind].
    destruct (set_header r0) as [s| |] eqn:Es; cbn [bind]; try discriminate.
    apply set_header_ok in Es. subst s.
    rewrite (make_abs_unchanged _ _ (origin_has_alpha_scheme _ _ He Hr0)). intros H. injection H as <-.
    split; [discriminate | intros _; exact Hr0].
Qed.

Lemma move_same_origin e v r : env_ok e -> v <> [] -> has_alpha_scheme v = false ->
  move_emit e (Some v) false = JOk r -> same_origin e r.
Proof.
  intros He Hne Hv. unfold move_emit, move_init. destruct (mem_n 10 v || mem_n 13 v); [discriminate|].
  unfold move_call. intros H. apply (resolve_move_value e v r He Hne) in H as [_ H]. auto.
Qed.

Lemma move_absolute_unchanged e v r : env_ok e -> has_alpha_scheme v = true ->
  move_emit e (Some v) false = JOk r -> r = v.
Proof.
  intros He Hv. assert (Hne : v <> []) by (destruct v; [discriminate | congruence]).
  unfold move_emit, move_init. destruct (mem_n 10 v || mem_n 13 v); [discriminate|].
  unfold move_call. intros H. apply (resolve_move_value e v r He Hne) in H as [H _]. auto.
Qed.

(* an absolute URL without CR/LF is really emitted (the redirect is not lost) *)
Lemma move_absolute_emitted e v : has_alpha_scheme v = true -> mem_n 10 v || mem_n 13 v = false ->
  move_emit e (Some v) false = JOk v.
Proof.
  intros Hv Hc. unfold move_emit, move_init. rewrite Hc. unfold move_call, resolve_move.
  destruct v as [|c v]; [discriminate|]. cbn [is_empty]. rewrite (make_abs_unchanged _ _ Hv). cbn [bind].
  unfold set_header. rewrite Hc. cbn [bind]. apply make_abs_unchanged. exact Hv.
Qed.

(* ---------- a decision procedure for has_origin, to exhibit counterexamples by computation ---------- *)
Definition has_origin_b (scheme netloc r : str) : bool :=
  let p := scheme ++ s_css ++ netloc in
  starts_with p r && match skipn (length p) r with [] => true | c :: _ => is_delim c end.

Lemma starts_with_app p r : starts_with p (p ++ r) = true.
Proof. induction p as [|c p IH]; cbn; [reflexivity|]. rewrite N.eqb_refl, IH. reflexivity. Qed.

Lemma has_origin_dec scheme netloc r : has_origin scheme netloc r -> has_origin_b scheme netloc r = true.
Proof.
  intros (rest & -> & Hr). unfold has_origin_b. rewrite !app_assoc. rewrite starts_with_app.
  rewrite skipn_app, skipn_all, Nat.sub_diag. cbn [app skipn andb].
  destruct rest as [|c t]; [reflexivity | exact Hr].
Qed.

(* the code before the repair (only a literal leading '//' was neutralised) sends these elsewhere *)
Module Ex.
  Import String.
  Definition host := A "example.org"%string.
  Definition name := A "srv.local"%string.
  Definition port := A "80"%string.
  Definition path := A "/dir/page"%string.
  Definition evil := A "evil.com"%string.
  Definition http_evil := A "http://evil.com"%string.
  Definition evil_port := A "evil.com:80/x"%string.
  Definition slashes_evil := A "//evil.com/x"%string.
  Definition outs := [ A "http://example.org/%09/evil.com"%string; A "http://example.org/dir/%09/evil.com"%string;
                       A "http://example.org/dir/%09http:/evil.com"%string; A "http://example.org/dir/evil.com:80/x"%string;
                       A "http://example.org/%2fevil.com/x"%string ].
End Ex.

Definition env_example : environ :=
  mkEnv s_http (Some Ex.host) Ex.name Ex.port (Some []) (Some Ex.path) None.

Lemma env_example_ok : env_ok env_example.
Proof. split; cbn; try (left; reflexivity); try reflexivity; try discriminate. right. eexists. reflexivity. Qed.

Lemma old_code_refuted :
  forall v, In v [ [47; 9; 47] ++ Ex.evil;            (* /<TAB>/evil.com *)
                   [9; 47; 47] ++ Ex.evil;            (* <TAB>//evil.com *)
                   [32; 47; 47] ++ Ex.evil;           (* <SP>//evil.com *)
                   [1; 47; 47] ++ Ex.evil;            (* \x01//evil.com *)
                   9 :: Ex.http_evil;                 (* <TAB>http://evil.com *)
                   Ex.evil_port ] ->                  (* urlsplit reads the scheme "evil.com" *)
  has_alpha_scheme v = false /\
  exists r, make_location_absolute_old env_example v = JOk r /\ ~ same_origin env_example r.
Proof.
  intros v Hv. cbn [In] in Hv.
  repeat (destruct Hv as [<- | Hv]; [split; [reflexivity|]; eexists; split; [vm_compute; reflexivity|];
    intros H; apply has_origin_dec in H; vm_compute in H; discriminate|]).
  contradiction.
Qed.

(* ... and the repaired code keeps every one of them at home (instances of make_abs_same_origin) *)
Lemma new_code_examples :
  map (make_location_absolute env_example)
      [ [47; 9; 47] ++ Ex.evil; [9; 47; 47] ++ Ex.evil; 9 :: Ex.http_evil; Ex.evil_port; Ex.slashes_evil ]
  = map JOk Ex.outs.
Proof. vm_compute. reflexivity. Qed.
