(* C06 — the arithmetic of webob.byterange AS IT IS IN THE SOURCE TREE NOW (coq/Gen/C06_byterange.v,
   a syntactic dump regenerated on every run) computes what the hand-written model computes, for
   all arguments.  A change of `_is_content_range_valid` or `Range.range_for_length` that alters
   their result on any input makes these proofs fail. *)
From Coq Require Import ZArith List Bool String Lia.
Require Import Webob.Lib.Val Webob.Lib.C06_MiniPy Webob.Gen.C06_byterange Webob.Model.C06_ByteRange.
Import ListNotations.
Local Open Scope string_scope.
Local Open Scope Z_scope.

Ltac zb :=
  rewrite ?Z.geb_leb, ?Z.gtb_ltb in *;
  repeat match goal with
         | |- context [?a <? ?b] => destruct (Z.ltb_spec a b)
         | |- context [?a <=? ?b] => destruct (Z.leb_spec a b)
         | |- context [?a =? ?b] => destruct (Z.eqb_spec a b)
         end.

(* calling convention: missing trailing arguments take the declared defaults *)
Definition fill_defaults (params : list string) (defaults : list expr) (args : list pv) : list pv :=
  args ++ map (eval no_calls []) (skipn (List.length defaults - (List.length params - List.length args)) defaults).

Definition src_valid (args : list pv) : pv :=
  run_fun no_calls src_valid_params src_valid_body (fill_defaults src_valid_params src_valid_defaults args).

Theorem gen_valid_eq : forall s e l r,
  src_valid [py_oz s; py_oz e; py_oz l; PBool r] = PBool (is_cr_valid s e l r).
Proof.
  intros [s|] [e|] [l|] [|]; vm_compute fill_defaults; unfold src_valid, run_fun; cbn; zb; try reflexivity; exfalso; lia.
Qed.

Theorem gen_valid_default_eq : forall s e l,
  src_valid [py_oz s; py_oz e; py_oz l] = PBool (is_cr_valid s e l false).
Proof. intros s e l. rewrite <- gen_valid_eq. reflexivity. Qed.

Definition call_tbl (f : string) (args : list pv) : pv :=
  if String.eqb f "_is_content_range_valid" then src_valid args else PErr.

Lemma call_tbl_valid : forall a b c,
  call_tbl "_is_content_range_valid" [PInt a; PInt b; PInt c] = PBool (is_cr_valid (Some a) (Some b) (Some c) false).
Proof. intros a b c. exact (gen_valid_default_eq (Some a) (Some b) (Some c)). Qed.

Definition pv_of_range (o : option (Z * Z)) : pv :=
  match o with None => PNone | Some (a, b) => PPair (PInt a) (PInt b) end.

Lemma pair_eq : forall a a' b b', a = a' -> b = b' ->
  Some (PPair (PInt a) (PInt b)) = Some (PPair (PInt a') (PInt b')).
Proof. intros; subst; reflexivity. Qed.

Ltac zb1 :=
  rewrite ?Z.geb_leb, ?Z.gtb_ltb in *;
  match goal with
  | |- context [?a <? ?b] => destruct (Z.ltb_spec a b)
  | |- context [?a <=? ?b] => destruct (Z.leb_spec a b)
  | |- context [?a =? ?b] => destruct (Z.eqb_spec a b)
  end.

(* the environment of `Range(start, end).range_for_length(length)` *)
Definition rfl_env (start : Z) (e l : option Z) : env :=
  [("self.start", PInt start); ("self.end", py_oz e); ("length", py_oz l)].

Theorem gen_rfl_eq : forall start e l,
  snd (exec call_tbl (rfl_env start e l) src_rfl_body)
  = Some (pv_of_range (range_for_length (Range start e) l)).
Proof.
  intros start [e|] [l|]; unfold range_for_length, pv_of_range, rfl_env;
    repeat (cbn -[call_tbl Z.min]; rewrite ?call_tbl_valid; try zb1);
    first [ reflexivity | apply pair_eq; lia | exfalso; lia ].
Qed.

Example gen_signatures :
  src_valid_params = ["start"; "stop"; "length"; "response"] /\ src_rfl_params = ["self"; "length"].
Proof. split; reflexivity. Qed.
