(* C20 — every CGI header key of a WSGI environ is a well-formed entry key: its header name is a
   visible token and maps back to the same key (so the hypothesis wf_headers of the round-trip
   theorem holds for every environ a WSGI server builds, given distinct keys and tight values). *)
From Coq Require Import ZArith NArith List Bool Lia.
Require Import Webob.Lib.Val Webob.Lib.PyStr Webob.Model.C20_wire Webob.Spec.C20_spec Webob.Proofs.C20_lib.
From Coq Require String.
Import String.StringSyntax.
Import ListNotations.
Local Open Scope string_scope.
Local Open Scope list_scope.
Local Open Scope N_scope.

Definition swap (a b c : N) : N := if c =? a then b else c.

Lemma replace_c_map a b s : replace_c a [b] s = map (swap a b) s.
Proof. induction s as [|c s IH]; cbn; [reflexivity|]. unfold swap at 1. destruct (c =? a); cbn; rewrite IH; reflexivity. Qed.

(* characters after '_' -> '-' *)
Definition name_char (c : N) : bool := is_upper c || is_digit c || (c =? 45).

Lemma cgi_swap c : cgi_char c = true -> name_char (swap 95 45 c) = true /\ swap 45 95 (swap 95 45 c) = c.
Proof.
  unfold cgi_char, name_char, swap. intros H.
  destruct (c =? 95) eqn:E.
  - apply N.eqb_eq in E. subst c. split; reflexivity.
  - rewrite orb_false_r in H. rewrite H. split; [reflexivity|].
    destruct (c =? 45) eqn:E2; [|reflexivity].
    apply N.eqb_eq in E2. subst c. discriminate H.
Qed.

Lemma name_char_cases c : name_char c = true ->
  (is_upper c = true) \/ (is_alpha c = false /\ vis c /\ c <> 58 /\ is_lower c = false).
Proof.
  unfold name_char, is_alpha, is_upper, is_lower, is_digit, vis. intros H.
  apply orb_true_iff in H as [H|H]; [apply orb_true_iff in H as [H|H]|].
  - left. exact H.
  - right. apply andb_true_iff in H as [H1 H2]. apply N.leb_le in H1, H2.
    repeat split; try lia.
    + apply orb_false_iff; split; apply andb_false_iff.
      * left. apply N.leb_gt. lia.
      * left. apply N.leb_gt. lia.
    + apply andb_false_iff. left. apply N.leb_gt. lia.
  - right. apply N.eqb_eq in H. subst. repeat split; try lia; reflexivity.
Qed.

Lemma upper_facts c : is_upper c = true ->
  is_alpha c = true /\ vis c /\ c <> 58 /\ vis (lower_a c) /\ lower_a c <> 58 /\
  upper_a c = c /\ upper_a (lower_a c) = c.
Proof.
  unfold is_alpha, is_upper, is_lower, lower_a, upper_a, vis. intros H.
  pose proof H as H'. apply andb_true_iff in H' as [H1 H2]. apply N.leb_le in H1, H2.
  rewrite H. cbn [orb].
  assert (L1 : (97 <=? c) && (c <=? 122) = false) by (apply andb_false_iff; left; apply N.leb_gt; lia).
  assert (L2 : (97 <=? c + 32) && (c + 32 <=? 122) = true) by (apply andb_true_iff; split; apply N.leb_le; lia).
  unfold is_upper, is_lower. rewrite H, L1, L2. repeat split; try lia.
Qed.

(* title-casing a name whose letters are upper-case: visible, no ':', and upper() undoes it *)
Lemma title_name r : forall b, Forall (fun c => name_char c = true) r ->
  Forall (fun c => vis c /\ c <> 58) (title_from b r) /\ upper (title_from b r) = r.
Proof.
  induction r as [|c r IH]; intros b Hr; [split; constructor|].
  inversion Hr as [|? ? Hc Hr']; subst. cbn [title_from].
  destruct (name_char_cases c Hc) as [Hu|[Ha [Hv [H58 Hl]]]].
  - destruct (upper_facts c Hu) as [Ha [Hv [H58 [Hlv [Hl58 [Hup Hul]]]]]]. rewrite Ha.
    destruct (IH true Hr') as [IH1 IH2]. split.
    + constructor; [destruct b; split; try assumption; rewrite Hup; assumption|assumption].
    + unfold upper in *. cbn [map]. rewrite IH2. destruct b; [rewrite Hul|rewrite Hup, Hup]; reflexivity.
  - rewrite Ha. destruct (IH false Hr') as [IH1 IH2]. split.
    + constructor; [split; assumption|assumption].
    + unfold upper in *. cbn [map]. rewrite IH2. unfold upper_a. rewrite Hl. reflexivity.
Qed.

Lemma seqb_prefix p a b : str_eqb (p ++ a) (p ++ b) = str_eqb a b.
Proof. induction p as [|c p IH]; cbn; [reflexivity|]. rewrite N.eqb_refl. exact IH. Qed.

Lemma starts_with_app p s : starts_with p (p ++ s) = true.
Proof. induction p as [|c p IH]; cbn; [reflexivity|]. rewrite N.eqb_refl. exact IH. Qed.

Lemma map_swap_back s : Forall (fun c => cgi_char c = true) s ->
  Forall (fun c => name_char c = true) (map (swap 95 45) s) /\ map (swap 45 95) (map (swap 95 45) s) = s.
Proof.
  induction 1 as [|c s Hc Hs [IH1 IH2]]; [split; constructor|].
  destruct (cgi_swap c Hc) as [H1 H2]. cbn [map]. split; [constructor; assumption|]. rewrite H2, IH2. reflexivity.
Qed.

Theorem cgi_key_name : forall k, cgi_header_key k ->
  exists n, trans_key k = Some n /\ good_hname n /\ trans_name n = k.
Proof.
  intros k [->|[->|[s [-> [Hs [Hc [HnT HnL]]]]]]].
  - exists (A "Content-Type"). split; [reflexivity|]. split; [|reflexivity].
    split; [discriminate|]. apply Forall_forall. intros c Hin. cbn in Hin.
    repeat (destruct Hin as [<-|Hin]; [unfold vis; lia|]). contradiction.
  - exists n_CL. split; [reflexivity|]. split; [|reflexivity].
    split; [discriminate|]. apply Forall_forall. intros c Hin. cbn in Hin.
    repeat (destruct Hin as [<-|Hin]; [unfold vis; lia|]). contradiction.
  - destruct (map_swap_back s Hc) as [Hr Hback].
    set (r := map (swap 95 45) s) in *.
    destruct (title_name r false Hr) as [Hvis Hup].
    exists (title r). split; [|split].
    + unfold trans_key.
      assert (E1 : str_eqb (p_HTTP_ ++ s) k_CT = false) by reflexivity.
      assert (E2 : str_eqb (p_HTTP_ ++ s) k_CL = false) by reflexivity.
      rewrite E1, E2.
      change k_HCT with (p_HTTP_ ++ A "CONTENT_TYPE"). change k_HCL with (p_HTTP_ ++ A "CONTENT_LENGTH").
      rewrite !seqb_prefix, (seqb_neq _ _ HnT), (seqb_neq _ _ HnL), starts_with_app.
      change (skipn 5 (p_HTTP_ ++ s)) with s. rewrite replace_c_map. reflexivity.
    + split; [|exact Hvis]. unfold title. destruct s as [|c0 s0]; [contradiction|].
      unfold r. cbn [map title_from]. destruct (is_alpha (swap 95 45 c0)); discriminate.
    + unfold trans_name. fold (title r). unfold title. rewrite Hup.
      assert (N1 : r <> A "CONTENT-TYPE").
      { intros E. apply HnT. rewrite <- Hback, E. reflexivity. }
      assert (N2 : r <> A "CONTENT-LENGTH").
      { intros E. apply HnL. rewrite <- Hback, E. reflexivity. }
      assert (N3 : r <> A "CONTENT_TYPE").
      { intros E. rewrite E in Hr. rewrite Forall_forall in Hr. specialize (Hr 95). discriminate Hr. cbn. tauto. }
      assert (N4 : r <> A "CONTENT_LENGTH").
      { intros E. rewrite E in Hr. rewrite Forall_forall in Hr. specialize (Hr 95). discriminate Hr. cbn. tauto. }
      rewrite (seqb_neq _ _ N1), (seqb_neq _ _ N2), (seqb_neq _ _ N3), (seqb_neq _ _ N4).
      rewrite replace_c_map, Hback. reflexivity.
Qed.

Theorem cgi_key_wf_entry : forall k v, cgi_header_key k -> good_hvalue v -> wf_entry (k, v).
Proof.
  intros k v Hk Hv. destruct (cgi_key_name k Hk) as [n [H1 [H2 H3]]].
  exists n. cbn [fst snd]. split; [assumption|]. split; [assumption|]. split; assumption.
Qed.
