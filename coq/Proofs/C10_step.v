(* C10 — every access path of the model is allowed by the specification (one step). *)
From Coq Require Import ZArith NArith List Bool Arith Lia.
Require Import Webob.Lib.Val Webob.Model.C10_BodyStream Webob.Spec.C10_BodySpec
               Webob.Proofs.C10_stream Webob.Proofs.C10_loops Webob.Proofs.C10_refine.
Import ListNotations.

Lemma obound_same : forall r r',
  seekable r' = seekable r -> cl r' = cl r -> term_flag r' = term_flag r -> obound r' = obound r.
Proof. intros r r' H1 H2 H3; unfold obound; now rewrite H1, H2, H3. Qed.

Lemma frame_trans : forall h1 h2 h3 r1 r2 r3,
  inp r1 < next h1 -> frame h1 h2 r1 r2 -> frame h2 h3 r2 r3 -> frame h1 h3 r1 r3.
Proof.
  intros h1 h2 h3 r1 r2 r3 Hi (A1 & A2 & A3 & A4 & A5 & A6 & A7 & A8) (B1 & B2 & B3 & B4 & B5 & B6 & B7 & B8).
  unfold frame.
  assert (Hcase : inp r2 = inp r1 \/ (next h1 <= inp r2 /\ inp r2 <> inp r1)) by (destruct A3; [left|right]; lia).
  splits; try lia; try congruence.
  - intros j Hj1 Hj2. rewrite B2; try lia. apply A2; auto.
  - intros E. destruct Hcase as [E2|[E2 E3]].
    + assert (E3 : inp r3 = inp r2) by lia.
      destruct (A5 E2) as (a1 & a2 & a3). destruct (B5 E3) as (b1 & b2 & b3).
      splits; congruence.
    + exfalso. destruct B3; lia.
  - intros b Hb. destruct Hcase as [E2|[E2 E3]].
    + destruct (A5 E2) as (a1 & a2 & a3). rewrite <- E2. apply B7.
      rewrite (obound_same r1 r2); auto.
    + rewrite B2; try lia. auto.
  - intros Hs. destruct Hcase as [E2|[E2 E3]].
    + destruct (A5 E2) as (a1 & a2 & a3). destruct (A8 Hs) as [a8 a9].
      rewrite <- E2. rewrite a1 in *. destruct (B8 ltac:(congruence)) as [b8 b9].
      rewrite E2 in *. split; congruence.
    + rewrite B2; try lia. auto.
Qed.

(* changing only the remembered wrapper / POST cache / form flag *)
Lemma frame_fields : forall h r s r',
  R h r s -> inp r' = inp r -> seekable r' = seekable r -> cl r' = cl r ->
  term_flag r' = term_flag r -> limit r' = limit r -> frame h h r r'.
Proof.
  intros h r s r' HR E1 E2 E3 E4 E5. pose proof HR as (Hi & _ & _ & _ & Hwf & _).
  unfold frame. rewrite E1. splits; auto.
  intros b Hb. eapply R_obound; eauto.
Qed.

(* ------------------------------------------------------------------ reads on a held body *)
Lemma held_fread : forall h r s k d f',
  R h r s -> smode s = MHeld -> fread k (cells h (inp r)) = (d, f') ->
  d = take k (skipn (scur s) (sbody s)) /\
  R (upd h (inp r) f') r (s_cur s (scur s + length d)) /\ frame h (upd h (inp r) f') r r.
Proof.
  intros h r s k d f' HR Hmode Hr.
  destruct (R_held_facts _ _ _ HR Hmode) as (Hs & Hcl & Hdata & Hpos & Hle).
  pose proof HR as (_ & _ & _ & _ & Hwf & _).
  destruct (fread_spec _ _ _ _ Hwf Hr) as (Hd & Hk & Hwf1 & Hp & _ & _).
  assert (Hdd : d = take k (skipn (scur s) (sbody s))).
  { unfold fread in Hr. injection Hr as Hr _. rewrite Hdata, Hpos in Hr. destruct k; auto. }
  splits; auto.
  - apply R_held_move; auto; try lia. unfold fwf in Hwf1. rewrite Hd, Hdata in Hwf1. lia.
  - eapply frame_own; eauto. intros b Hb. exfalso; eapply obound_seekable; eauto.
Qed.

Lemma held_seek0 : forall h r s,
  R h r s -> smode s = MHeld ->
  R (upd h (inp r) (fseek0 (cells h (inp r)))) r (s_cur s 0) /\
  frame h (upd h (inp r) (fseek0 (cells h (inp r)))) r r.
Proof.
  intros h r s HR Hmode.
  destruct (R_held_facts _ _ _ HR Hmode) as (Hs & Hcl & Hdata & Hpos & Hle).
  split.
  - apply R_held_move; auto. lia.
  - eapply frame_own; eauto using fseek0_wf. intros b Hb. exfalso; eapply obound_seekable; eauto.
Qed.

Lemma take_all : forall (b : bytes), firstn (length b) (skipn 0 b) = b.
Proof. intros; cbn. apply firstn_all. Qed.

(* reading the whole held body through the body_file handle, cursor at 0 *)
Lemma held_handle_read : forall h r s hd r2 adv y adv' h2 r3,
  R h r s -> smode s = MHeld -> scur s = 0 ->
  body_file r = (hd, r2) ->
  hread hd (Some (length (sbody s))) adv h r2 = (y, adv', h2, r3) ->
  y = Ok (sbody s) /\ r3 = r /\ exists c, R h2 r (s_cur s c) /\ frame h h2 r r.
Proof.
  intros h r s hd r2 adv y adv' h2 r3 HR Hmode Hc0 Hbf Hh.
  destruct (R_held_facts _ _ _ HR Hmode) as (Hs & Hcl & Hdata & Hpos & Hle).
  unfold body_file in Hbf. destruct (readable r) eqn:Hrd; cbn [negb] in Hbf.
  - rewrite Hcl, Hs in Hbf. cbn [negb] in Hbf. injection Hbf as <- <-.
    cbn [hread] in Hh. destruct (fread _ (cells h (inp r))) as [d f'] eqn:Er.
    injection Hh as <- <- <- <-.
    destruct (held_fread _ _ _ _ _ _ HR Hmode Er) as (Hd & HR' & Hfr).
    rewrite Hc0 in Hd. cbn [take] in Hd. rewrite take_all in Hd. subst d.
    splits; auto. eexists; split; eauto.
  - injection Hbf as <- <-. cbn [hread] in Hh. injection Hh as <- <- <- <-.
    assert (Hlen0 : length (sbody s) = 0).
    { unfold readable in Hrd. rewrite Hcl in Hrd. apply Z.ltb_ge in Hrd. lia. }
    assert (Hb0 : sbody s = []) by (destruct (sbody s); auto; discriminate).
    split; [now rewrite Hb0|]. split; [reflexivity|]. exists 0. split; [|eapply frame_refl; eauto].
    destruct HR as (H1 & H2 & H3 & H4 & H5 & H6). unfold R, s_cur; cbn [sform spost]. splits; auto.
    unfold Rmode in *; cbn [smode sbody scur]. rewrite Hmode in *. rewrite <- Hc0. exact H6.
Qed.

Lemma R_set_postc : forall h r s,
  R h r s -> R h (set_postc r (Some (inp r))) (s_post s true) /\ frame h h r (set_postc r (Some (inp r))).
Proof.
  intros h r s HR. pose proof HR as (Hi & Hp & Hf & Hc & Hwf & Hm).
  split.
  - unfold R, s_post. destruct r; cbn in *. splits; auto.
    + intros j Hj. injection Hj as <-. auto.
    + unfold cached; cbn. now rewrite Nat.eqb_refl.
  - eapply frame_fields; eauto; destruct r; reflexivity.
Qed.

Lemma R_set_form : forall h r b c m p f,
  R h r (mkS b c m p f) -> forall f', R h (set_form r f') (mkS b c m p f').
Proof.
  intros h r b c m p f (H1 & H2 & H3 & H4 & H5 & H6) f'. destruct r; unfold R in *; cbn in *. splits; auto.
Qed.

(* ------------------------------------------------------------------ body_file.read on a raw request *)
Lemma raw_file_read : forall (good : bool) chunk h r s k adv x h' r',
  R h r s -> smode s = (if good then MRaw else MShort) ->
  rstep chunk (FileRead k) adv h r = (x, h', r', None) ->
  frame h h' r r' /\
  ((exists d, x = OBytes d /\ scur s + length d <= length (sbody s) /\
              d = firstn (length d) (skipn (scur s) (sbody s)) /\
              R h' r' (s_cur s (scur s + length d)) /\
              match k with
              | Some k => length d = k \/ (good = true /\ d = skipn (scur s) (sbody s) /\ length d < k)
              | None => good = true /\ d = skipn (scur s) (sbody s)
              end)
   \/ (good = false /\ x = ODisc /\ R h' r' (s_cur s (length (sbody s))))).
Proof.
  intros good chunk h r s k adv x h' r' HR Hmode H.
  pose proof HR as (Hi & Hp & Hf & Hc & Hwf & Hm).
  assert (HRr : Rraw good (cells h (inp r)) r s).
  { unfold Rmode in Hm; rewrite Hmode in Hm; destruct good; exact Hm. }
  destruct (body_file_raw_mode _ _ _ _ HRr) as (w & n & Hbf & Hraw & Hcl & Hn & Hbuf & Hcons).
  destruct HRr as (Hs & n' & Hcl' & _ & Hbody & Hgood & Hcur & _).
  assert (n' = n) by (rewrite Hcl in Hcl'; injection Hcl' as E; lia). subst n'.
  cbn [rstep] in H. rewrite Hbf in H.
  set (r1 := set_wrap r (Some w)) in *.
  destruct (set_wrap_fields r (Some w)) as (F1 & F2 & F3 & F4 & F5 & F6 & F7 & F8 & F9). fold r1 in F1, F2, F3, F4, F5, F6, F7, F8, F9.
  destruct (set_wrap_derived r (Some w)) as (G1 & G2 & G3 & G4). fold r1 in G1, G2, G3, G4.
  destruct (hread HWrap k adv h r1) as [[[y adv1] h2] r2] eqn:Eh.
  injection H as <- <- <-.
  eapply (hread_wrap _ _ _ _ w (scur s)) in Eh; auto; rewrite ?F5; auto.
  cbv zeta in Eh. rewrite F5 in Eh.
  destruct Eh as (w2 & Hr2 & Hraw2 & [Hnx Hoth] & Hd2 & Hk2 & Hwf2 & Hle2 & Hcons2 & Hy).
  assert (Hfp2 : fpos (cells h2 (inp r)) <= length (fdata (cells h (inp r)))) by (unfold fwf in Hwf2; rewrite Hd2 in Hwf2; lia).
  destruct (set_wrap_fields r1 (Some w2)) as (E1 & E2 & E3 & E4 & E5 & E6 & E7 & E8 & E9).
  destruct (set_wrap_derived r1 (Some w2)) as (D1 & D2 & D3 & D4).
  rewrite <- Hr2 in E1, E2, E3, E4, E5, E6, E7, E8, E9, D1, D2, D3, D4.
  assert (Hlenb : length (sbody s) = Nat.min n (length (fdata (cells h (inp r)))))
    by (rewrite Hbody; apply firstn_length).
  assert (Hframe : frame h h2 r r2).
  { unfold frame. rewrite E5, F5. splits; auto; try lia; try congruence.
    intros b Hb. rewrite (obound_raw r n Hs Hcl) in Hb. injection Hb as <-. lia. }
  split; auto.
  (* the relation for the new cursor c' given the wrapper facts *)
  assert (HRnew : forall c', scur s <= c' -> c' <= fpos (cells h2 (inp r)) ->
            wbuf w2 = seg (fdata (cells h (inp r))) c' (fpos (cells h2 (inp r))) ->
            R h2 r2 (s_cur s c')).
  { intros c' Hc1 Hc2 Hb2. unfold R. rewrite E5, F5, Hnx. unfold s_cur; cbn [sform spost].
    split; [exact Hi|]. split; [intros j Hj; apply Hp; congruence|].
    split; [congruence|]. split; [congruence|]. split; [exact Hwf2|].
    unfold Rmode; cbn [smode sbody scur]. rewrite Hmode.
    assert (HR' : Rraw good (cells h2 (inp r)) r2 (mkS (sbody s) c' (smode s) (spost s) (sform s))).
    { unfold Rraw; cbn [sbody scur]. split; [congruence|].
      exists n. rewrite Hd2. splits; auto; try congruence; try lia.
      rewrite Hr2, wvalid_set by congruence. split; auto. lia. }
    rewrite Hmode in HR'. destruct good; exact HR'. }
  destruct y as [d| |].
  - left. destruct Hy as (Hseg & Hcd & Hbuf2 & Hfull).
    exists d. cbn [lift_bytes].
    assert (Hdlen : scur s + length d <= length (sbody s)) by lia.
    assert (Hdseg : d = firstn (length d) (skipn (scur s) (sbody s))).
    { rewrite Hbody, skipn_firstn_seg, firstn_seg by lia. exact Hseg. }
    split; [reflexivity|]. split; [exact Hdlen|]. split; [exact Hdseg|].
    split; [apply HRnew; auto; lia|].
    destruct k as [k|].
    + destruct Hfull as [Hfull|(Hlt & Hw0 & Hb0 & Hcp)]; [left; auto|].
      assert (Hg : good = true) by (destruct good; auto; lia).
      right. splits; auto. subst good.
      rewrite Hbody, skipn_firstn_seg. rewrite Hseg at 1. f_equal. lia.
    + destruct Hfull as (Hw0 & Hb0 & Hcp).
      assert (Hg : good = true) by (destruct good; auto; lia).
      split; auto. subst good.
      rewrite Hbody, skipn_firstn_seg. rewrite Hseg at 1. f_equal. lia.
  - right. destruct Hy as (Hb0 & Hend & Hrem).
    assert (Hg : good = false) by (destruct good; auto; lia).
    cbn [lift_bytes]. splits; auto.
    apply HRnew; try lia. rewrite Hb0. subst good. symmetry. apply seg_ge. lia.
  - contradiction.
Qed.

(* ------------------------------------------------------------------ the per-step statement *)
Definition new_ok (h h' : heap) (r r' : req) (new : option req) (snew : option sreq) : Prop :=
  match new with
  | Some rn => exists sn, snew = Some sn /\ R h' rn sn /\ next h <= inp rn /\ inp rn < next h' /\
                          inp rn <> inp r' /\ limit rn = limit r
  | None => snew = None
  end.

Definition step_post (chunk : nat) (o : op) (adv : list nat) (h : heap) (r : req) (s : sreq) : Prop :=
  forall x h' r' new, rstep chunk o adv h r = (x, h', r', new) ->
  exists s' snew, sstep_ok o s x s' snew /\ R h' r' s' /\ frame h h' r r' /\ new_ok h h' r r' new snew.

Lemma R_seekable_mode : forall h r s, R h r s -> (seekable r = true <-> smode s = MHeld).
Proof.
  intros h r s (_ & _ & _ & _ & _ & Hm). unfold Rmode, Rraw in Hm.
  destruct (smode s); split; intros E; try discriminate; try reflexivity;
    try (destruct Hm as (Hs & _); congruence).
Qed.

Lemma frame_alloc : forall h h' r s,
  R h r s -> next h <= next h' -> (forall j, j < next h -> cells h' j = cells h j) -> frame h h' r r.
Proof.
  intros h h' r s HR Hn Ho. pose proof HR as (Hi & _ & _ & _ & Hwf & _).
  unfold frame. rewrite (Ho (inp r)) by lia. splits; auto; try lia.
  intros b Hb. eapply R_obound; eauto.
Qed.

Lemma step_setbody : forall chunk b adv h r s, R h r s -> step_post chunk (SetBody b) adv h r s.
Proof.
  intros chunk b adv h r s HR x h' r' new H. cbn [rstep] in H.
  destruct (set_body b h r) as [h1 r1] eqn:Es. injection H as <- <- <- <-.
  destruct (R_set_body _ _ _ _ _ _ HR Es) as (HR1 & Hfr & _ & _).
  exists (mkS b 0 MHeld false (sform s)), None. splits; auto. left; reflexivity. reflexivity.
Qed.

Lemma step_copyget : forall chunk adv h r s, R h r s -> step_post chunk CopyGet adv h r s.
Proof.
  intros chunk adv h r s HR x h' r' new H. cbn [rstep] in H.
  destruct (set_body [] h r) as [h1 r1] eqn:Es. injection H as <- <- <- <-.
  destruct (R_set_body _ _ _ _ _ _ HR Es) as (HR1 & Hfr & Hfresh & Hold).
  destruct (set_body_spec _ _ _ _ _ Es) as (Hi1 & Hn1 & _ & Ho & _ & _ & _ & _ & Hli & _).
  pose proof HR as (Hi & _).
  exists s, (Some (mkS [] 0 MHeld false false)). splits.
  - left; reflexivity.
  - apply (R_frame h); auto. lia.
  - eapply frame_alloc; eauto; try lia. intros j Hj. apply Ho. lia.
  - cbn [new_ok]. exists (mkS [] 0 MHeld false false).
    splits; auto; try (destruct r1; cbn in *; lia); try (destruct r1; cbn in *; congruence).
    apply R_set_form with (f := sform s). exact HR1.
Qed.

Lemma declared_held : forall h r s, R h r s -> smode s = MHeld -> declared r = Some (length (sbody s)).
Proof.
  intros h r s HR Hmode. destruct (R_held_facts _ _ _ HR Hmode) as (_ & Hcl & _).
  unfold declared. rewrite Hcl, Nat2Z.id. reflexivity.
Qed.

Lemma step_callapp : forall chunk adv h r s, R h r s -> step_post chunk CallApp adv h r s.
Proof.
  intros chunk adv h r s HR x h' r' new H. cbn [rstep] in H.
  destruct (seekable r) eqn:Hs.
  - assert (Hmode : smode s = MHeld) by (apply (R_seekable_mode _ _ _ HR); auto).
    destruct (held_seek0 _ _ _ HR Hmode) as [HR1 Hfr1].
    set (h1 := upd h (inp r) (fseek0 (cells h (inp r)))) in *.
    destruct (fread (declared r) (cells h1 (inp r))) as [d f'] eqn:Er.
    injection H as <- <- <- <-.
    rewrite (declared_held _ _ _ HR Hmode) in Er.
    assert (Hmode1 : smode (s_cur s 0) = MHeld) by exact Hmode.
    destruct (held_fread _ _ _ _ _ _ HR1 Hmode1 Er) as (Hd & HR2 & Hfr2).
    cbn [s_cur scur sbody take] in Hd. rewrite take_all in Hd. subst d.
    exists (s_cur s (length (sbody s))), None. splits.
    + left. unfold sstep. rewrite Hmode. reflexivity.
    + exact HR2.
    + apply (frame_trans h h1 _ r r r); [exact (proj1 HR)|exact Hfr1|exact Hfr2].
    + reflexivity.
  - injection H as <- <- <- <-.
    exists s, None. splits; auto.
    + left. unfold sstep. destruct (smode s) eqn:Hmode; auto.
      apply (R_seekable_mode _ _ _ HR) in Hmode. congruence.
    + eapply frame_refl; eauto.
    + reflexivity.
Qed.

Lemma R_same_cursor : forall h r s, R h r s -> R h r (s_cur s (scur s + 0)).
Proof.
  intros h r s HR. rewrite Nat.add_0_r. destruct s; exact HR.
Qed.

Lemma step_fileread : forall chunk k adv h r s, R h r s -> step_post chunk (FileRead k) adv h r s.
Proof.
  intros chunk k adv h r s HR x h' r' new H.
  pose proof HR as (Hi & Hp & Hf & Hc & Hwf & Hm).
  destruct (smode s) eqn:Hmode.
  - (* MRaw *)
    assert (new = None) by (cbn [rstep] in H; destruct (body_file r); destruct (hread _ _ _ _ _) as [[[? ?] ?] ?]; congruence).
    subst new.
    destruct (raw_file_read true _ _ _ _ _ _ _ _ _ HR Hmode H) as [Hfr [(d & Hx & Hlen & Hd & HR' & Hk)|(Hg & _)]]; [|discriminate].
    exists (s_cur s (scur s + length d)), None. splits; auto; [|reflexivity].
    left. unfold sstep. rewrite Hmode. unfold sread. subst x.
    assert (Hd' : d = take k (skipn (scur s) (sbody s))).
    { destruct k as [k|]; cbn [take].
      - destruct Hk as [Hk|(_ & Hk1 & Hk2)].
        + rewrite Hd at 1. now rewrite Hk.
        + rewrite firstn_all2; [exact Hk1|]. rewrite <- Hk1. lia.
      - apply Hk. }
    rewrite <- Hd'. reflexivity.
  - (* MShort *)
    assert (new = None) by (cbn [rstep] in H; destruct (body_file r); destruct (hread _ _ _ _ _) as [[[? ?] ?] ?]; congruence).
    subst new.
    destruct (raw_file_read false _ _ _ _ _ _ _ _ _ HR Hmode H) as [Hfr [(d & Hx & Hlen & Hd & HR' & Hk)|(_ & Hx & HR')]].
    + exists (s_cur s (scur s + length d)), None. splits; auto; [|reflexivity].
      right. split; auto.
      destruct k as [k|]; [|destruct Hk; discriminate].
      destruct Hk as [Hk|(Hk & _)]; [|discriminate].
      exists k. subst k. splits; auto. subst x. f_equal. exact Hd.
    + exists (s_cur s (length (sbody s))), None. splits; auto; [|reflexivity].
      left. unfold sstep. rewrite Hmode. subst x. reflexivity.
  - (* MTerm *)
    unfold Rmode in Hm; rewrite Hmode in Hm. destruct Hm as (Hs & Hcl & Htf & Hdata & Hpos).
    cbn [rstep] in H.
    assert (Hrd : readable r = true) by (unfold readable; rewrite Hcl; exact Htf).
    assert (Hbf : body_file r = (HRaw, r)) by (unfold body_file; rewrite Hrd, Hcl; reflexivity).
    rewrite Hbf in H. cbn [hread] in H.
    destruct (fread k (cells h (inp r))) as [d f'] eqn:Er.
    injection H as <- <- <- <-.
    destruct (fread_spec _ _ _ _ Hwf Er) as (Hd & Hk & Hwf1 & Hp1 & _ & _).
    assert (Hdd : d = take k (skipn (scur s) (sbody s))).
    { unfold fread in Er. injection Er as Er _. rewrite Hdata, Hpos in Er. destruct k; auto. }
    exists (s_cur s (scur s + length d)), None. splits; [| | |reflexivity].
    + left. unfold sstep. rewrite Hmode. unfold sread. rewrite <- Hdd. reflexivity.
    + unfold R. rewrite upd_same, upd_next. unfold s_cur; cbn [sform spost]. splits; auto.
      unfold Rmode; cbn [smode sbody scur]. rewrite Hmode. splits; auto; congruence.
    + eapply frame_own; eauto. intros b Hb. unfold obound in Hb. rewrite Hs, Hcl, Htf in Hb. discriminate.
  - (* MNone *)
    unfold Rmode in Hm; rewrite Hmode in Hm. destruct Hm as (Hs & Hrd & _).
    cbn [rstep] in H. unfold body_file in H. rewrite Hrd in H. cbn [negb hread] in H.
    injection H as <- <- <- <-.
    exists s, None. splits; auto; [| |reflexivity].
    + left. unfold sstep. rewrite Hmode. reflexivity.
    + eapply frame_refl; eauto.
  - (* MHeld *)
    destruct (R_held_facts _ _ _ HR Hmode) as (Hs & Hcl & Hdata & Hpos & Hle).
    cbn [rstep] in H. unfold body_file in H. destruct (readable r) eqn:Hrd; cbn [negb] in H.
    + rewrite Hcl, Hs in H. cbn [negb hread] in H.
      destruct (fread k (cells h (inp r))) as [d f'] eqn:Er.
      injection H as <- <- <- <-.
      destruct (held_fread _ _ _ _ _ _ HR Hmode Er) as (Hd & HR' & Hfr).
      exists (s_cur s (scur s + length d)), None. splits; auto; [|reflexivity].
      left. unfold sstep. rewrite Hmode. unfold sread. rewrite <- Hd. reflexivity.
    + cbn [hread] in H. injection H as <- <- <- <-.
      assert (Hlen0 : length (sbody s) = 0).
      { unfold readable in Hrd. rewrite Hcl in Hrd. apply Z.ltb_ge in Hrd. lia. }
      assert (Hb0 : sbody s = []) by (destruct (sbody s); auto; discriminate).
      exists (s_cur s (scur s + 0)), None. splits; [| | |reflexivity].
      * left. unfold sstep. rewrite Hmode. unfold sread. rewrite Hb0, skipn_nil.
        destruct k; cbn [take]; rewrite ?firstn_nil; reflexivity.
      * apply R_same_cursor; auto.
      * eapply frame_refl; eauto.
Qed.

Lemma body_file_held : forall h r s, R h r s -> smode s = MHeld -> exists hd, body_file r = (hd, r).
Proof.
  intros h r s HR Hmode. destruct (R_held_facts _ _ _ HR Hmode) as (Hs & Hcl & _).
  unfold body_file. destruct (readable r); cbn [negb]; [|eexists; reflexivity].
  rewrite Hcl, Hs. cbn [negb]. eexists; reflexivity.
Qed.

Lemma readable_modes : forall h r s, R h r s ->
  readable r = match smode s with
               | MNone => false
               | MHeld => Nat.ltb 0 (length (sbody s))
               | _ => true
               end.
Proof.
  intros h r s (_ & _ & _ & _ & _ & Hm). unfold Rmode, Rraw in Hm. unfold readable.
  destruct (smode s).
  - destruct Hm as (_ & n & Hcl & Hn & _). rewrite Hcl. apply Z.ltb_lt. lia.
  - destruct Hm as (_ & n & Hcl & Hn & _). rewrite Hcl. apply Z.ltb_lt. lia.
  - destruct Hm as (_ & Hcl & Htf & _). rewrite Hcl. exact Htf.
  - destruct Hm as (_ & Hrd & _). exact Hrd.
  - destruct Hm as (_ & Hcl & _). rewrite Hcl.
    destruct (length (sbody s)); cbn; auto.
Qed.

Lemma s_cur_cur0 : forall s c, scur s = 0 -> s_cur (s_cur s c) 0 = s.
Proof. intros [] c E; cbn in *; subst; reflexivity. Qed.

(* read the whole held body (cursor at 0) through body_file, then rewind *)
Lemma held_read_rewind : forall h r s adv hd r2 y adv' h2 r3,
  R h r s -> smode s = MHeld -> scur s = 0 ->
  body_file r = (hd, r2) ->
  hread hd (Some (length (sbody s))) adv h r2 = (y, adv', h2, r3) ->
  y = Ok (sbody s) /\ r3 = r /\
  R (upd h2 (inp r) (fseek0 (cells h2 (inp r)))) r s /\
  frame h (upd h2 (inp r) (fseek0 (cells h2 (inp r)))) r r.
Proof.
  intros h r s adv hd r2 y adv' h2 r3 HR Hmode Hc0 Hbf Hh.
  destruct (held_handle_read _ _ _ _ _ _ _ _ _ _ HR Hmode Hc0 Hbf Hh) as (Hy & Hr3 & c & HR2 & Hfr2).
  assert (Hmode2 : smode (s_cur s c) = MHeld) by exact Hmode.
  destruct (held_seek0 _ _ _ HR2 Hmode2) as [HR3 Hfr3].
  rewrite s_cur_cur0 in HR3 by auto.
  splits; auto.
  apply (frame_trans h h2 _ r r r); auto. exact (proj1 HR).
Qed.

Lemma step_body : forall chunk adv h r s, 1 <= chunk -> R h r s -> step_post chunk Body adv h r s.
Proof.
  intros chunk adv h r s Hch HR x h' r' new H. cbn [rstep] in H.
  destruct (get_body chunk adv h r) as [[y h1] r1] eqn:Eg. injection H as <- <- <- <-.
  unfold get_body in Eg. pose proof (readable_modes _ _ _ HR) as Hrd.
  destruct (readable r) eqn:Er; cbn [negb] in Eg.
  - destruct (make_seekable chunk adv h r) as [[[y1 adv1] h2] r2] eqn:Em.
    destruct (conv_refines _ _ _ _ _ _ _ _ _ Hch HR Em) as (Hfr & _ & Hconv).
    destruct (sconv s) as [[s1|] s2] eqn:Es.
    + destruct Hconv as (Hy1 & HR2 & Hmode2 & Hc2 & Hf2). subst y1.
      destruct (body_file_held _ _ _ HR2 Hmode2) as [hd Hbf]. rewrite Hbf in Eg.
      destruct (R_held_facts _ _ _ HR2 Hmode2) as (Hs2 & Hcl2 & _).
      unfold z_to_read in Eg. rewrite Hcl2, Nat2Z.id in Eg.
      destruct (hread hd (Some (length (sbody s1))) adv1 h2 r2) as [[[y3 adv3] h3] r3] eqn:Eh.
      destruct (held_read_rewind _ _ _ _ _ _ _ _ _ _ HR2 Hmode2 Hc2 Hbf Eh) as (Hy3 & Hr3 & HR4 & Hfr4).
      subst y3 r3. rewrite Hcl2, Z.ltb_irrefl in Eg. injection Eg as <- <- <-.
      exists s1, None. splits; [| | |reflexivity].
      * left. unfold sstep. rewrite Es. destruct (smode s); try reflexivity. discriminate.
      * exact HR4.
      * eapply frame_trans; eauto. exact (proj1 HR).
    + destruct Hconv as (Hy1 & HR2). subst y1. injection Eg as <- <- <-.
      exists s2, None. splits; auto; [|reflexivity].
      left. unfold sstep. rewrite Es. destruct (smode s); try reflexivity. discriminate.
  - injection Eg as <- <- <-.
    destruct (smode s) eqn:Hmode; try discriminate.
    + exists s, None. splits; auto; [| |reflexivity].
      * left. unfold sstep. rewrite Hmode. reflexivity.
      * eapply frame_refl; eauto.
    + destruct (R_held_facts _ _ _ HR Hmode) as (_ & _ & _ & _ & Hle).
      assert (Hlen0 : length (sbody s) = 0) by (destruct (length (sbody s)); auto; discriminate).
      assert (Hb0 : sbody s = []) by (destruct (sbody s); auto; discriminate).
      exists (s_cur s 0), None. splits; [| | |reflexivity].
      * left. unfold sstep, sconv. rewrite Hmode. cbn [s_cur sbody]. now rewrite Hb0.
      * assert (E : scur s = 0) by lia. destruct s; cbn in *; subst; exact HR.
      * eapply frame_refl; eauto.
Qed.

Lemma step_seekread : forall chunk k adv h r s, 1 <= chunk -> R h r s -> step_post chunk (SeekRead k) adv h r s.
Proof.
  intros chunk k adv h r s Hch HR x h' r' new H. cbn [rstep] in H.
  destruct (seekable r) eqn:Hs.
  - assert (Hmode : smode s = MHeld) by (apply (R_seekable_mode _ _ _ HR); auto).
    destruct (fread k (cells h (inp r))) as [d f'] eqn:Er. injection H as <- <- <- <-.
    destruct (held_fread _ _ _ _ _ _ HR Hmode Er) as (Hd & HR' & Hfr).
    exists (s_cur s (scur s + length d)), None. splits; auto; [|reflexivity].
    left. unfold sstep. rewrite Hmode. unfold sread. rewrite <- Hd. reflexivity.
  - assert (Hmode : smode s <> MHeld).
    { intros E. apply (R_seekable_mode _ _ _ HR) in E. congruence. }
    destruct (make_seekable chunk adv h r) as [[[y1 adv1] h2] r2] eqn:Em.
    destruct (conv_refines _ _ _ _ _ _ _ _ _ Hch HR Em) as (Hfr & _ & Hconv).
    destruct (sconv s) as [[s1|] s2] eqn:Es.
    + destruct Hconv as (Hy1 & HR2 & Hmode2 & Hc2 & Hf2). subst y1.
      destruct (fread k (cells h2 (inp r2))) as [d f'] eqn:Er. injection H as <- <- <- <-.
      destruct (held_fread _ _ _ _ _ _ HR2 Hmode2 Er) as (Hd & HR' & Hfr').
      exists (s_cur s1 (scur s1 + length d)), None. splits; auto; [| |reflexivity].
      * left. unfold sstep. rewrite Es. unfold sread. rewrite <- Hd.
        destruct (smode s); try reflexivity. congruence.
      * eapply frame_trans; eauto. exact (proj1 HR).
    + destruct Hconv as (Hy1 & HR2). subst y1. injection H as <- <- <- <-.
      exists s2, None. splits; auto; [|reflexivity].
      left. unfold sstep. rewrite Es. destruct (smode s); try reflexivity. congruence.
Qed.

Lemma step_copy : forall chunk adv h r s, 1 <= chunk -> R h r s -> step_post chunk Copy adv h r s.
Proof.
  intros chunk adv h r s Hch HR x h' r' new H. cbn [rstep] in H.
  destruct (make_seekable chunk adv h r) as [[[y1 adv1] h1] r1] eqn:Em.
  destruct (conv_refines _ _ _ _ _ _ _ _ _ Hch HR Em) as (Hfr & _ & Hconv).
  destruct (sconv s) as [[s1|] s2] eqn:Es.
  - destruct Hconv as (Hy1 & HR1 & Hmode1 & Hc1 & Hf1). subst y1.
    destruct (copy_body chunk adv1 h1 r1) as [[[y2 adv2] h2] rn] eqn:Ec.
    destruct (copy_body_held _ _ _ _ _ _ _ _ _ Hch HR1 Hmode1 Ec)
      as (Hy2 & HRn & HR1' & Hfresh & Hlt & Hnx & Hli & Hoth & Hdat & Hpos).
    subst y2. injection H as <- <- <- <-.
    destruct (R_held_facts _ _ _ HR1 Hmode1) as (Hs1 & _).
    pose proof HR1 as (Hi1 & _ & _ & _ & Hwf1 & _).
    assert (Hfr2 : frame h1 h2 r1 r1).
    { unfold frame. splits; auto; try lia.
      intros b Hb. exfalso; eapply obound_seekable; eauto. }
    pose proof Hfr as (A1 & A2 & A3 & A4 & A5 & A6 & A7 & A8).
    assert (Hmode1' : smode (s_cur s1 (length (sbody s1))) = MHeld) by exact Hmode1.
    destruct (held_seek0 _ _ _ HR1' Hmode1') as [HR3 Hfr3].
    pose proof HRn as (Hin & _).
    exists (s_cur s1 0), (Some (mkS (sbody s1) 0 MHeld false (sform s1))). splits.
    + left. unfold sstep. rewrite Es. reflexivity.
    + exact HR3.
    + apply (frame_trans h h1 _ r r1 r1); auto. exact (proj1 HR).
      apply (frame_trans h1 h2 _ r1 r1 r1); auto.
    + cbn [new_ok]. eexists. splits; eauto; try lia; try congruence.
      all: try (apply (R_frame h2); auto; apply upd_other; lia).
      all: try (rewrite upd_next; lia).
  - destruct Hconv as (Hy1 & HR2). subst y1. injection H as <- <- <- <-.
    exists s2, None. splits; auto; [|reflexivity].
    left. unfold sstep. rewrite Es. reflexivity.
Qed.

Lemma step_post_ : forall chunk adv h r s, 1 <= chunk -> R h r s -> step_post chunk Post adv h r s.
Proof.
  intros chunk adv h r s Hch HR x h' r' new H. cbn [rstep] in H.
  pose proof HR as (Hi & Hp & Hf & Hc & Hwf & Hm).
  fold (cached r) in H. rewrite Hc, Hf in H.
  destruct (spost s || negb (sform s)) eqn:Eca.
  - injection H as <- <- <- <-. exists s, None. splits; auto; [| |reflexivity].
    + left. unfold sstep. rewrite Eca. reflexivity.
    + eapply frame_refl; eauto.
  - destruct (make_seekable chunk adv h r) as [[[y1 adv1] h1] r1] eqn:Em.
    destruct (conv_refines _ _ _ _ _ _ _ _ _ Hch HR Em) as (Hfr & _ & Hconv).
    destruct (sconv s) as [[s1|] s2] eqn:Es.
    + destruct Hconv as (Hy1 & HR1 & Hmode1 & Hc1 & Hf1). subst y1.
      destruct (held_seek0 _ _ _ HR1 Hmode1) as [HR2 Hfr2].
      set (h2 := upd h1 (inp r1) (fseek0 (cells h1 (inp r1)))) in *.
      assert (Hmode2 : smode (s_cur s1 0) = MHeld) by exact Hmode1.
      destruct (body_file_held _ _ _ HR2 Hmode2) as [hd Hbf]. rewrite Hbf in H.
      destruct (R_held_facts _ _ _ HR2 Hmode2) as (Hs2 & Hcl2 & _).
      cbn [s_cur sbody] in Hcl2. rewrite Hcl2, Nat2Z.id in H.
      destruct (hread hd (Some (length (sbody s1))) adv1 h2 r1) as [[[y3 adv3] h3] r3] eqn:Eh.
      destruct (held_read_rewind _ _ (s_cur s1 0) _ _ _ _ _ _ _ HR2 Hmode2 eq_refl Hbf Eh) as (Hy3 & Hr3 & HR4 & Hfr4).
      subst y3 r3. injection H as <- <- <- <-.
      destruct (R_set_postc _ _ _ HR4) as [HR5 Hfr5].
      exists (s_post (s_cur s1 0) true), None. splits; [| | |reflexivity].
      * left. unfold sstep. rewrite Eca, Es. reflexivity.
      * exact HR5.
      * pose proof HR1 as (Hi1 & _).
        apply (frame_trans h h1 _ r r1 _); auto.
        apply (frame_trans h1 h2 _ r1 r1 _); auto.
    + destruct Hconv as (Hy1 & HR2). subst y1. injection H as <- <- <- <-.
      exists s2, None. splits; auto; [|reflexivity].
      left. unfold sstep. rewrite Eca, Es. reflexivity.
Qed.

Theorem rstep_refines : forall chunk o adv h r s, 1 <= chunk -> R h r s -> step_post chunk o adv h r s.
Proof.
  intros chunk o adv h r s Hch HR. destruct o.
  - apply step_body; auto.
  - apply step_fileread; auto.
  - apply step_seekread; auto.
  - apply step_copy; auto.
  - apply step_copyget; auto.
  - apply step_post_; auto.
  - apply step_callapp; auto.
  - apply step_setbody; auto.
Qed.
