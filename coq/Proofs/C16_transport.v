(* C16 — the signed token through an actual cookie: proofs.  Everything about quoting, the Cookie-header
   scanner, _unquote and RequestCookies comes from C07's lemmas (Required read-only); what is proved here is
   that a SignedSerializer token is inside the sub-domain where C07's codec is the identity, and the
   composition with C16's own round-trip / integrity lemmas. *)
From Coq Require Import String.
From Coq Require Import ZArith NArith List Bool Lia ZifyBool ZifyNat ZifyN.
Require Import Webob.Lib.Val Webob.Lib.PyStr Webob.Lib.C07_Utf8 Webob.Gen.C07_tables.
Require Webob.Model.C07_CookieCodec.
Require Import Webob.Spec.C07_CookieSpec Webob.Proofs.C07_tables Webob.Proofs.C07_output Webob.Proofs.C07_utf8
               Webob.Proofs.C07_input.
Require Import Webob.Gen.C16_cookie_tables.
Require Import Webob.Model.C16_signed Webob.Proofs.C16_signed Webob.Model.C16_transport.
Import ListNotations.
Local Open Scope N_scope.

(* ---------------------------------------------------------------- the tables under C07's model are the ones of
   the tree under check: Gen/C16_cookie_tables.v is regenerated from $WEBOB_REPO/src/webob/cookies.py by
   harness/props/c16.py:gen on every run; if Gen/C07_tables.v is stale or the source changed, this fails to compile *)
Lemma tables_agree :
  c16_allowed_cookie_bytes = allowed_cookie_bytes /\ c16_valid_token_bytes = valid_token_bytes /\
  c16_c_keys = c_keys /\ c16_c_renames = c_renames.
Proof. repeat split; vm_compute; reflexivity. Qed.

(* ---------------------------------------------------------------- the token alphabet is inside _allowed_cookie_bytes *)
Lemma b64url_small c : is_b64url c = true -> c < 128.
Proof. unfold is_b64url. lia. Qed.

Lemma b64url_allowed_sweep : forallb (fun c => implb (is_b64url c) (C07_CookieCodec.is_allowed c)) all_octets = true.
Proof. vm_compute. reflexivity. Qed.

Lemma b64url_allowed c : is_b64url c = true -> C07_CookieCodec.is_allowed c = true.
Proof.
  intros Hb. assert (Hc : c < 256) by (apply b64url_small in Hb; lia).
  pose proof (sweep _ b64url_allowed_sweep c Hc) as Hs. cbv beta in Hs. rewrite Hb in Hs. exact Hs.
Qed.

Definition b64url_str (t : str) : Prop := Forall (fun c => is_b64url c = true) t.

Lemma b64url_forallb_allowed t : b64url_str t -> forallb C07_CookieCodec.is_allowed t = true.
Proof. intros Ht. apply forallb_forall. intros c Hc. unfold b64url_str in Ht; rewrite Forall_forall in Ht. apply b64url_allowed, Ht, Hc. Qed.

(* _value_quote emits a token UNQUOTED and UNCHANGED *)
Lemma value_quote_b64url t : b64url_str t -> C07_CookieCodec.value_quote t = t.
Proof. intros Ht. unfold C07_CookieCodec.value_quote. rewrite (b64url_forallb_allowed t Ht). reflexivity. Qed.

(* ... and _unquote leaves it alone *)
Lemma unquote_b64url t : b64url_str t -> C07_CookieCodec.unquote t = t.
Proof.
  intros Ht. rewrite <- (value_quote_b64url t Ht) at 1. apply unquote_value_quote.
  unfold octets, octet. eapply Forall_impl; [|exact Ht]. intros c Hc. apply b64url_small in Hc. lia.
Qed.

(* a token is its own utf-8 encoding (ASCII) *)
Lemma b64url_utf8 t : b64url_str t -> utf8_encode t = Some t.
Proof.
  intros Ht. unfold utf8_encode.
  assert (H : valid_text t = true /\ utf8_encode_raw t = t).
  { induction Ht as [|c t Hc _ [IH1 IH2]]; [split; reflexivity|].
    apply b64url_small in Hc. split.
    - rewrite valid_text_cons, IH1. unfold is_scalar. lia.
    - unfold utf8_encode_raw in *. cbn [flat_map]. rewrite IH2. unfold utf8_enc_char.
      replace (c <? 128) with true by lia. reflexivity. }
  destruct H as [-> ->]. reflexivity.
Qed.

(* ---------------------------------------------------------------- the client keeps the cookie-pair *)
Lemma upto_semi_app a r : forallb (fun c => negb (c =? 59)) a = true -> upto_semi (a ++ 59 :: r) = a.
Proof.
  induction a as [|c a IH]; cbn [app upto_semi forallb]; intros H.
  - rewrite N.eqb_refl. reflexivity.
  - apply andb_prop in H as [Hc Ha]. destruct (c =? 59); [discriminate|]. rewrite IH by exact Ha. reflexivity.
Qed.

Lemma valid_name_no_semi name : C07_CookieCodec.valid_cookie_name name = true -> forallb (fun c => negb (c =? 59)) name = true.
Proof.
  intros Hv. apply valid_name_token in Hv as [_ Ht]. apply forallb_forall. intros c Hc.
  rewrite forallb_forall in Ht. specialize (Ht c Hc). apply token_props in Ht as (Hl & _).
  destruct (c =? 59) eqn:E; [|reflexivity]. apply N.eqb_eq in E. subst c.
  destruct legal_facts as (H59 & _). congruence.
Qed.

Lemma b64url_no_semi t : b64url_str t -> forallb (fun c => negb (c =? 59)) t = true.
Proof.
  intros Ht. apply forallb_forall. intros c Hc. unfold b64url_str in Ht; rewrite Forall_forall in Ht. specialize (Ht c Hc).
  unfold is_b64url in Ht. lia.
Qed.

Lemma client_pair_plain name dom tok :
  C07_CookieCodec.valid_cookie_name name = true -> b64url_str tok ->
  upto_semi (mk_cookie_plain name dom tok) = name ++ 61 :: tok.
Proof.
  intros Hn Ht. unfold mk_cookie_plain.
  assert (Hns : forallb (fun c => negb (c =? 59)) (name ++ 61 :: tok) = true).
  { rewrite forallb_app. rewrite (valid_name_no_semi name Hn). cbn [forallb]. rewrite (b64url_no_semi tok Ht). reflexivity. }
  destruct dom as [d|].
  - replace (name ++ [61] ++ tok ++ ([59; 32; 68; 111; 109; 97; 105; 110; 61] ++ d) ++ [59; 32; 80; 97; 116; 104; 61; 47])
      with ((name ++ 61 :: tok) ++ 59 :: ([32; 68; 111; 109; 97; 105; 110; 61] ++ d) ++ [59; 32; 80; 97; 116; 104; 61; 47])
      by (cbn [app]; rewrite <- !app_assoc; reflexivity).
    apply upto_semi_app, Hns.
  - replace (name ++ [61] ++ tok ++ [] ++ [59; 32; 80; 97; 116; 104; 61; 47])
      with ((name ++ 61 :: tok) ++ 59 :: [32; 80; 97; 116; 104; 61; 47])
      by (cbn [app]; rewrite <- !app_assoc; reflexivity).
    apply upto_semi_app, Hns.
Qed.

(* ---------------------------------------------------------------- the Cookie header is C07's rendered header *)
Lemma cookie_header_render l r name b :
  cookie_header l (name ++ 61 :: C07_CookieCodec.value_quote b) r = render (l ++ (name, b) :: r).
Proof. unfold cookie_header, render, C07_CookieCodec.join_semi. rewrite map_app. reflexivity. Qed.

(* request.cookies.get(name) on a header in which the cookie [name] carries the utf-8 octets b of a text t, among
   arbitrary well-formed other cookies (none of the same name to the right: a later one would win) *)
Lemma request_jar_rendered l r name t b :
  Forall text_pair l -> Forall text_pair r ->
  C07_CookieCodec.valid_cookie_name name = true -> utf8_encode t = Some b ->
  ~ In name (map fst r) ->
  request_jar (cookie_header l (name ++ 61 :: C07_CookieCodec.value_quote b) r) name = JarValue t.
Proof.
  intros Hl Hr Hv Ht Hn. rewrite cookie_header_render. unfold request_jar.
  destruct (request_cookies_roundtrip l r name t b Hl Hr Hv Ht Hn) as (d & Hd1 & Hd2).
  unfold str in Hd1, Hd2 |- *. rewrite Hd1, Hd2. reflexivity.
Qed.

(* (1) of the task: forall token, cookie_parse (cookie_render name token) = token, among other cookies *)
Lemma echo_among_plain l r name dom tok :
  Forall text_pair l -> Forall text_pair r ->
  C07_CookieCodec.valid_cookie_name name = true -> ~ In name (map fst r) -> b64url_str tok ->
  echo_among l r name (mk_cookie_plain name dom tok) = JarValue tok.
Proof.
  intros Hl Hr Hv Hn Ht. unfold echo_among. rewrite (client_pair_plain name dom tok Hv Ht).
  rewrite <- (value_quote_b64url tok Ht) at 1.
  apply request_jar_rendered; try assumption. apply b64url_utf8, Ht.
Qed.

(* ---------------------------------------------------------------- mk_cookie_plain IS C07's make_cookie on this domain *)
Definition plain_domain (d : str) : Prop := d <> [] /\ C07_CookieCodec.path_quote d = d /\ C07_CookieCodec.is_ascii d = true.

Lemma morsel_get_path m : C07_CookieCodec.morsel_get m (H "70617468"%string) = C07_CookieCodec.m_path m.
Proof. reflexivity. Qed.
Lemma morsel_get_domain m : C07_CookieCodec.morsel_get m (H "646f6d61696e"%string) = C07_CookieCodec.m_domain m.
Proof. reflexivity. Qed.
Lemma morsel_get_comment m : C07_CookieCodec.morsel_get m (H "636f6d6d656e74"%string) = C07_CookieCodec.m_comment m.
Proof. reflexivity. Qed.
Lemma morsel_get_maxage m : C07_CookieCodec.morsel_get m (H "6d61782d616765"%string) = C07_CookieCodec.m_maxage m.
Proof. reflexivity. Qed.

Lemma is_ascii_app a b : C07_CookieCodec.is_ascii (a ++ b) = C07_CookieCodec.is_ascii a && C07_CookieCodec.is_ascii b.
Proof. unfold C07_CookieCodec.is_ascii. apply forallb_app. Qed.

Lemma b64url_ascii t : b64url_str t -> C07_CookieCodec.is_ascii t = true.
Proof.
  intros Ht. unfold C07_CookieCodec.is_ascii. apply forallb_forall. intros c Hc. unfold b64url_str in Ht; rewrite Forall_forall in Ht.
  specialize (Ht c Hc). apply b64url_small in Ht. lia.
Qed.

Lemma valid_name_ascii name : C07_CookieCodec.valid_cookie_name name = true -> C07_CookieCodec.is_ascii name = true.
Proof. intros Hv. apply valid_name_token in Hv as [_ Ht]. apply token_ascii, Ht. Qed.

Lemma mk_cookie_plain_ascii name dom tok :
  C07_CookieCodec.is_ascii name = true -> C07_CookieCodec.is_ascii tok = true ->
  (forall d, dom = Some d -> C07_CookieCodec.is_ascii d = true) ->
  C07_CookieCodec.is_ascii (mk_cookie_plain name dom tok) = true.
Proof.
  intros Hn Ht Hd. unfold mk_cookie_plain. rewrite !is_ascii_app, Hn, Ht.
  destruct dom as [d|].
  - rewrite is_ascii_app, (Hd d eq_refl). vm_compute. reflexivity.
  - vm_compute. reflexivity.
Qed.

Lemma set_cookie_line_plain name dom tok :
  C07_CookieCodec.valid_cookie_name name = true -> b64url_str tok ->
  (forall d, dom = Some d -> plain_domain d) ->
  set_cookie_line name dom tok = C07_CookieCodec.Ok (mk_cookie_plain name dom tok).
Proof.
  intros Hv Ht Hd. unfold set_cookie_line, C07_CookieCodec.make_cookie, profile_request.
  cbn [C07_CookieCodec.mc_bad_max_age C07_CookieCodec.r_value C07_CookieCodec.r_max_age C07_CookieCodec.r_name
       C07_CookieCodec.mc_value].
  rewrite (valid_name_ascii name Hv). cbn [negb].
  assert (Hres : C07_CookieCodec.valid_cookie_name_res name = C07_CookieCodec.Ok true).
  { unfold C07_CookieCodec.valid_cookie_name in Hv.
    destruct (C07_CookieCodec.valid_cookie_name_res name) as [[|]|]; congruence. }
  rewrite Hres. cbn [C07_CookieCodec.mc_samesite C07_CookieCodec.r_samesite].
  unfold C07_CookieCodec.morsel_serialize.
  cbn [C07_CookieCodec.mc_morsel C07_CookieCodec.m_samesite C07_CookieCodec.truthy C07_CookieCodec.m_expires
       C07_CookieCodec.mc_expires C07_CookieCodec.r_value C07_CookieCodec.r_max_age C07_CookieCodec.m_secure
       C07_CookieCodec.r_secure C07_CookieCodec.m_httponly C07_CookieCodec.r_httponly C07_CookieCodec.m_name
       C07_CookieCodec.r_name C07_CookieCodec.m_value].
  rewrite (value_quote_b64url tok Ht).
  unfold C07_CookieCodec.valued_parts. rewrite <- (proj2 (proj2 (proj2 tables_agree))). unfold c16_c_renames.
  cbn [flat_map]. rewrite morsel_get_comment, morsel_get_domain, morsel_get_maxage, morsel_get_path.
  cbn [C07_CookieCodec.mc_morsel C07_CookieCodec.m_comment C07_CookieCodec.m_domain C07_CookieCodec.m_maxage
       C07_CookieCodec.m_path C07_CookieCodec.r_comment C07_CookieCodec.r_domain C07_CookieCodec.r_path
       C07_CookieCodec.mc_secs C07_CookieCodec.r_value C07_CookieCodec.r_max_age option_map C07_CookieCodec.truthy
       C07_CookieCodec.quote_with app].
  replace (C07_CookieCodec.path_quote [47]) with [47] by (vm_compute; reflexivity).
  assert (Hasc : C07_CookieCodec.is_ascii (mk_cookie_plain name dom tok) = true).
  { apply mk_cookie_plain_ascii; [apply valid_name_ascii, Hv|apply b64url_ascii, Ht|].
    intros d Ed. apply (Hd d Ed). }
  destruct dom as [d|].
  - destruct (Hd d eq_refl) as (Hne & Hq & Ha). destruct d as [|c d]; [congruence|].
    cbn [C07_CookieCodec.truthy]. rewrite Hq.
    unfold C07_CookieCodec.join_semi. cbn [join app].
    match goal with |- (if C07_CookieCodec.is_ascii ?l then _ else _) = C07_CookieCodec.Ok ?m => replace l with m end.
    + rewrite Hasc. reflexivity.
    + unfold mk_cookie_plain. cbn [app]. rewrite <- !app_assoc. cbn [app]. reflexivity.
  - unfold C07_CookieCodec.join_semi. cbn [join app C07_CookieCodec.truthy].
    match goal with |- (if C07_CookieCodec.is_ascii ?l then _ else _) = C07_CookieCodec.Ok ?m => replace l with m end.
    + rewrite Hasc. reflexivity.
    + unfold mk_cookie_plain. cbn [app]. rewrite <- !app_assoc. cbn [app]. reflexivity.
Qed.

(* ---------------------------------------------------------------- composition with the signed profile *)
Section CookieLevel.
  Variable V : Type.
  Variable mac : bytes -> bytes -> bytes.
  Variable dsize : nat.
  Variable ser : V -> bytes.
  Variable deser : bytes -> res V.
  Hypothesis mac_len : forall k m, length (mac k m) = dsize.
  Hypothesis deser_ser : forall v, deser (ser v) = Ok v.

  (* end to end: value --dumps--> Set-Cookie --client--> Cookie header among others --request.cookies--> loads *)
  Lemma cookie_roundtrip :
    (forall k m, bytesP (mac k m)) -> (forall v, bytesP (ser v)) ->
    forall l r p v key,
      Forall text_pair l -> Forall text_pair r ->
      C07_CookieCodec.valid_cookie_name (sp_name p) = true -> ~ In (sp_name p) (map fst r) ->
      salted_secret (sp_salt p) (sp_secret p) = Some key ->
      (length (signed_dumps V mac ser key v) <= 4093)%nat ->
      exists h hs,
        sp_get_headers V mac ser p v = Some (Ok (h :: hs)) /\
        forall x, In x (h :: hs) ->
          sp_get_value V mac dsize deser (sp_bind p (echo_among l r (sp_name p) x)) = Some (Ok (Some v)).
  Proof.
    intros MB SB l r p v key Hl Hr Hv Hn Hk Hlen.
    assert (Hecho : forall name dom tok,
              (C07_CookieCodec.valid_cookie_name name = true /\ ~ In name (map fst r)) ->
              Forall (fun c => is_b64url c = true) tok ->
              echo_among l r name (mk_cookie_plain name dom tok) = JarValue tok).
    { intros name dom tok [Hv' Hn'] Ht. apply echo_among_plain; assumption. }
    exact (profile_roundtrip V mac dsize ser deser mac_len MB SB deser_ser (echo_among l r)
             (fun name => C07_CookieCodec.valid_cookie_name name = true /\ ~ In name (map fst r))
             Hecho p v key (conj Hv Hn) Hk Hlen).
  Qed.

  (* what a bound profile answers for ANY outcome j of request.cookies.get (hence for any Cookie header), under the
     unforgeability hypothesis on the presented cookie text *)
  Lemma bound_integrity p key j v :
    salted_secret (sp_salt p) (sp_secret p) = Some key ->
    (forall t bb c, j = JarValue t -> latin1 t = Some bb -> c <> ser v -> decoded bb <> Some (mac key c ++ c)) ->
    (forall v', sp_get_value V mac dsize deser (sp_bind p j) = Some (Ok (Some v')) -> v' = v) /\
    (forall t bb, j = JarValue t -> latin1 t = Some bb -> decoded bb = Some (signed_bytes V mac ser key v) ->
       sp_get_value V mac dsize deser (sp_bind p j) = Some (Ok (Some v))) /\
    ((j = JarRaises \/ j = JarMissing \/
      exists t, j = JarValue t /\ forall bb, latin1 t = Some bb -> decoded bb <> Some (signed_bytes V mac ser key v)) ->
       sp_get_value V mac dsize deser (sp_bind p j) = Some (Ok None)).
  Proof.
    intros Hk UF. unfold sp_get_value. cbn [sp_bind sp_salt sp_secret sp_request]. rewrite Hk.
    cbn [get_value]. split; [|split].
    - intros v' H. inversion H as [H']. apply get_value_some in H' as (t & -> & Hl).
      unfold signed_loads in Hl. destruct (latin1 t) as [bb|] eqn:El; [|discriminate].
      destruct (integrity_under_unforgeability V mac dsize ser deser key mac_len deser_ser bb v
                  (fun c NE => UF t bb c eq_refl El NE)) as (_ & _ & H3).
      apply H3, Hl.
    - intros t bb -> El Hd. cbn [get_value_bound]. unfold signed_loads. rewrite El.
      rewrite (same_bytes_same_value V mac dsize ser deser key mac_len deser_ser bb v Hd). reflexivity.
    - intros [->|[->|(t & -> & Hne)]]; [reflexivity|reflexivity|].
      cbn [get_value_bound]. unfold signed_loads. destruct (latin1 t) as [bb|] eqn:El; [|reflexivity].
      destruct (integrity_under_unforgeability V mac dsize ser deser key mac_len deser_ser bb v
                  (fun c NE => UF t bb c eq_refl El NE)) as (_ & H2 & _).
      rewrite (H2 (Hne bb eq_refl)). reflexivity.
  Qed.

  (* tamper theorem at the cookie level: the echoed cookie value is replaced by ANY text t' (sent as its utf-8
     octets b', quoted as needed, among the other cookies - i.e. a change that still parses) *)
  Lemma cookie_altered l r p key v t' b' :
    Forall text_pair l -> Forall text_pair r ->
    C07_CookieCodec.valid_cookie_name (sp_name p) = true -> ~ In (sp_name p) (map fst r) ->
    utf8_encode t' = Some b' ->
    salted_secret (sp_salt p) (sp_secret p) = Some key ->
    (forall bb c, latin1 t' = Some bb -> c <> ser v -> decoded bb <> Some (mac key c ++ c)) ->
    let j := request_jar (cookie_header l (sp_name p ++ 61 :: C07_CookieCodec.value_quote b') r) (sp_name p) in
    (forall v', sp_get_value V mac dsize deser (sp_bind p j) = Some (Ok (Some v')) -> v' = v) /\
    (forall bb, latin1 t' = Some bb -> decoded bb = Some (signed_bytes V mac ser key v) ->
       sp_get_value V mac dsize deser (sp_bind p j) = Some (Ok (Some v))) /\
    ((forall bb, latin1 t' = Some bb -> decoded bb <> Some (signed_bytes V mac ser key v)) ->
       sp_get_value V mac dsize deser (sp_bind p j) = Some (Ok None)).
  Proof.
    intros Hl Hr Hv Hn Ht Hk UF j.
    assert (Hj : j = JarValue t') by (apply request_jar_rendered; assumption).
    destruct (bound_integrity p key j v Hk) as (H1 & H2 & H3).
    { intros t bb c Ej. rewrite Hj in Ej. injection Ej as <-. apply UF. }
    split; [exact H1|]. split.
    - intros bb El Hd. apply (H2 t' bb Hj El Hd).
    - intros Hne. apply H3. right. right. exists t'. split; [exact Hj|exact Hne].
  Qed.
End CookieLevel.

(* ---------------------------------------------------------------- hypotheses are satisfiable *)
Definition ex_name : str := H "73657373696f6e"%string.                      (* "session" *)
Definition ex_before : list (str * str) := [(H "61"%string, H "31"%string); (H "6c616e67"%string, H "c3a9"%string)].
Definition ex_after : list (str * str) := [(H "7a"%string, H "7920783b"%string)].

Lemma ex_text_pairs : Forall text_pair ex_before /\ Forall text_pair ex_after.
Proof.
  split; repeat constructor; cbn [fst snd]; try (vm_compute; reflexivity).
  - exists [49]. vm_compute. reflexivity.
  - exists [233]. vm_compute. reflexivity.
  - exists [121; 32; 120; 59]. vm_compute. reflexivity.
Qed.

Lemma ex_name_ok : C07_CookieCodec.valid_cookie_name ex_name = true /\ ~ In ex_name (map fst ex_after).
Proof. split; [vm_compute; reflexivity|]. cbn. intros [E|[]]. discriminate. Qed.

Lemma ex_plain_domain : plain_domain (H "6578616d706c652e636f6d"%string).
Proof. split; [discriminate|]. split; vm_compute; reflexivity. Qed.
