(* C04 — lemmas about the stable insertion sort that models Python's list.sort:
   permutation, sortedness, stability (a list already sorted by a secondary relation comes out
   lexicographically sorted), and uniqueness of the sorted permutation. *)
From Coq Require Import List Bool Permutation Sorted Arith Lia.
Require Import Webob.Lib.C04_Sort.
Import ListNotations.

Section SortLemmas.
  Context {A : Type}.
  Variable leb : A -> A -> bool.

  Lemma insert_perm : forall x l, Permutation (insert leb x l) (x :: l).
  Proof.
    intros x l; induction l as [|y l IH]; cbn; [reflexivity|].
    destruct (leb x y); [reflexivity|].
    rewrite IH. apply perm_swap.
  Qed.

  Lemma isort_perm : forall l, Permutation (isort leb l) l.
  Proof.
    induction l as [|x l IH]; cbn; [constructor|].
    rewrite insert_perm. now constructor.
  Qed.

  Lemma py_sort_perm : forall r l, Permutation (py_sort leb r l) l.
  Proof.
    intros [|] l; unfold py_sort.
    - rewrite <- Permutation_rev, isort_perm. symmetry; apply Permutation_rev.
    - apply isort_perm.
  Qed.

  Lemma Forall_insert : forall (P : A -> Prop) x l, P x -> Forall P l -> Forall P (insert leb x l).
  Proof.
    intros P x l Hx Hl. eapply Permutation_Forall; [symmetry; apply insert_perm|]. now constructor.
  Qed.

  Hypothesis leb_total : forall a b, leb a b = true \/ leb b a = true.
  Hypothesis leb_trans : forall a b c, leb a b = true -> leb b c = true -> leb a c = true.

  (* a strictly before b in the primary key, or tied and related by the secondary relation *)
  Definition lexR (R2 : A -> A -> Prop) (a b : A) : Prop :=
    leb b a = false \/ (leb a b = true /\ R2 a b).

  Lemma lexR_leb : forall R2 a b, lexR R2 a b -> leb a b = true.
  Proof.
    intros R2 a b [H|[H _]]; [|exact H].
    destruct (leb_total a b) as [H1|H1]; [exact H1|congruence].
  Qed.

  Lemma insert_stable : forall (R2 : A -> A -> Prop) x l,
    StronglySorted (lexR R2) l -> Forall (R2 x) l -> StronglySorted (lexR R2) (insert leb x l).
  Proof.
    intros R2 x l; induction l as [|y l IH]; intros Hs Hx; cbn.
    - constructor; constructor.
    - inversion Hs as [|? ? Hs' Hy]; subst. inversion Hx as [|? ? Hxy Hxl]; subst.
      destruct (leb x y) eqn:Exy.
      + constructor; [exact Hs|].
        constructor.
        * destruct (leb y x) eqn:Eyx; [right; split; assumption|left; exact Eyx].
        * rewrite Forall_forall in *. intros z Hz.
          assert (Hxz : leb x z = true) by (eapply leb_trans; [exact Exy|eapply lexR_leb; apply Hy; exact Hz]).
          destruct (leb z x) eqn:Ezx; [right; split; [exact Hxz|apply Hxl; exact Hz]|left; exact Ezx].
      + constructor.
        * apply IH; assumption.
        * apply Forall_insert; [left; exact Exy|exact Hy].
  Qed.

  (* stability: input sorted by R2  ==>  output sorted by (leb, then R2) *)
  Lemma isort_stable : forall (R2 : A -> A -> Prop) l,
    StronglySorted R2 l -> StronglySorted (lexR R2) (isort leb l).
  Proof.
    intros R2 l; induction l as [|x l IH]; intros Hs; cbn.
    - constructor.
    - inversion Hs as [|? ? Hs' Hx]; subst.
      apply insert_stable; [apply IH; exact Hs'|].
      eapply Permutation_Forall; [symmetry; apply isort_perm|exact Hx].
  Qed.

  Lemma isort_sorted : forall l, StronglySorted (fun a b => leb a b = true) (isort leb l).
  Proof.
    intros l.
    assert (Ht : StronglySorted (fun _ _ : A => True) l).
    { induction l; constructor; [assumption|]. apply Forall_forall; trivial. }
    pose proof (isort_stable _ l Ht) as Hs.
    eapply StronglySorted_ind with (P := fun l => StronglySorted (fun a b => leb a b = true) l) in Hs;
      [exact Hs|constructor|].
    intros a l0 _ IH Hf. constructor; [exact IH|].
    eapply Forall_impl; [|exact Hf]. intros b Hb. eapply lexR_leb; exact Hb.
  Qed.
End SortLemmas.

(* StronglySorted is preserved by reversal with the relation flipped *)
Lemma SS_app {A} (R : A -> A -> Prop) : forall l1 l2,
  StronglySorted R l1 -> StronglySorted R l2 ->
  (forall a b, In a l1 -> In b l2 -> R a b) -> StronglySorted R (l1 ++ l2).
Proof.
  induction l1 as [|x l1 IH]; intros l2 H1 H2 H12; cbn; [exact H2|].
  inversion H1 as [|? ? H1' Hx]; subst.
  constructor.
  - apply IH; [exact H1'|exact H2|]. intros a b Ha Hb. apply H12; [now right|exact Hb].
  - apply Forall_app; split; [exact Hx|].
    apply Forall_forall; intros b Hb. apply H12; [now left|exact Hb].
Qed.

Lemma SS_rev {A} (R : A -> A -> Prop) : forall l,
  StronglySorted R l -> StronglySorted (fun a b => R b a) (rev l).
Proof.
  induction l as [|x l IH]; intros Hs; cbn; [constructor|].
  inversion Hs as [|? ? Hs' Hx]; subst.
  apply SS_app; [apply IH; exact Hs'|constructor; constructor|].
  intros a b Ha Hb. destruct Hb as [<-|[]].
  rewrite Forall_forall in Hx. apply Hx. now apply in_rev.
Qed.

Lemma SS_impl {A} (R R' : A -> A -> Prop) : forall l,
  (forall a b, In a l -> In b l -> R a b -> R' a b) -> StronglySorted R l -> StronglySorted R' l.
Proof.
  induction l as [|x l IH]; intros Hi Hs; [constructor|].
  inversion Hs as [|? ? Hs' Hx]; subst. constructor.
  - apply IH; [|exact Hs']. intros a b Ha Hb. apply Hi; now right.
  - rewrite Forall_forall in *. intros b Hb. apply Hi; [now left|now right|apply Hx; exact Hb].
Qed.

Lemma SS_filter {A} (R : A -> A -> Prop) (f : A -> bool) : forall l,
  StronglySorted R l -> StronglySorted R (filter f l).
Proof.
  induction l as [|x l IH]; intros Hs; cbn; [constructor|].
  inversion Hs as [|? ? Hs' Hx]; subst.
  destruct (f x); [|apply IH; exact Hs'].
  constructor; [apply IH; exact Hs'|].
  rewrite Forall_forall in *. intros b Hb. apply filter_In in Hb. apply Hx, Hb.
Qed.

(* a flat_map that emits at most one element per input, related to its input by [rel] *)
Lemma SS_flat_map1 {A B} (R : A -> A -> Prop) (R' : B -> B -> Prop) (g : A -> list B) :
  (forall a, length (g a) <= 1) ->
  (forall a1 a2 b1 b2, R a1 a2 -> In b1 (g a1) -> In b2 (g a2) -> R' b1 b2) ->
  forall l, StronglySorted R l -> StronglySorted R' (flat_map g l).
Proof.
  intros Hlen Hrel l; induction l as [|x l IH]; intros Hs; cbn; [constructor|].
  inversion Hs as [|? ? Hs' Hx]; subst.
  apply SS_app; [|apply IH; exact Hs'|].
  - specialize (Hlen x). destruct (g x) as [|b [|b' t]]; cbn in Hlen; [constructor|constructor; constructor|lia].
  - intros b1 b2 Hb1 Hb2. apply in_flat_map in Hb2 as [a2 [Ha2 Hb2]].
    rewrite Forall_forall in Hx. eapply Hrel; [apply Hx; exact Ha2|exact Hb1|exact Hb2].
Qed.

(* two sorted permutations of the same list are equal when the order is antisymmetric on it *)
Lemma SS_perm_unique {A} (R : A -> A -> Prop) : forall l1 l2,
  (forall a b, In a l1 -> In b l1 -> R a b -> R b a -> a = b) ->
  StronglySorted R l1 -> StronglySorted R l2 -> Permutation l1 l2 -> l1 = l2.
Proof.
  induction l1 as [|a l1 IH]; intros l2 Hanti H1 H2 Hp.
  - apply Permutation_nil in Hp. now subst.
  - destruct l2 as [|b l2]; [apply Permutation_sym, Permutation_nil in Hp; discriminate|].
    inversion H1 as [|? ? H1' Ha]; subst. inversion H2 as [|? ? H2' Hb]; subst.
    assert (Hab : a = b).
    { assert (Hin_a : In a (b :: l2)) by (eapply Permutation_in; [exact Hp|now left]).
      assert (Hin_b : In b (a :: l1)) by (eapply Permutation_in; [symmetry; exact Hp|now left]).
      destruct Hin_a as [->|Hin_a]; [reflexivity|].
      destruct Hin_b as [<-|Hin_b]; [reflexivity|].
      rewrite Forall_forall in Ha, Hb.
      apply Hanti; [now left|now right|apply Ha; exact Hin_b|apply Hb; exact Hin_a]. }
    subst b. f_equal.
    apply IH; [|exact H1'|exact H2'|eapply Permutation_cons_inv; exact Hp].
    intros x y Hx Hy. apply Hanti; now right.
Qed.

Lemma SS_lt_NoDup {A} (f : A -> nat) : forall l,
  StronglySorted (fun a b => f a < f b) l -> NoDup (map f l).
Proof.
  induction l as [|x l IH]; intros Hs; cbn; [constructor|].
  inversion Hs as [|? ? Hs' Hx]; subst. constructor; [|apply IH; exact Hs'].
  intros Hin. apply in_map_iff in Hin as [y [Hy Hin]].
  rewrite Forall_forall in Hx. specialize (Hx y Hin). lia.
Qed.

Lemma NoDup_map_inj {A B} (f : A -> B) : forall l a b,
  NoDup (map f l) -> In a l -> In b l -> f a = f b -> a = b.
Proof.
  induction l as [|x l IH]; intros a b Hnd Ha Hb Hf; [contradiction|].
  cbn in Hnd. inversion Hnd as [|? ? Hnx Hnd']; subst.
  destruct Ha as [->|Ha], Hb as [->|Hb]; try reflexivity.
  - exfalso; apply Hnx. rewrite Hf. now apply in_map.
  - exfalso; apply Hnx. rewrite <- Hf. now apply in_map.
  - now apply IH.
Qed.
