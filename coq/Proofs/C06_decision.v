(* C06 — the branch structure of conditional_response_app (Model/C06_CondResp.v) computes the
   RFC 7232/7233 outcome (Spec/C06_Rfc.v), and what it then sends: 304 headers, exact 206 slice
   with truthful Content-Length / Content-Range, 416 with `bytes */L`, or the unmodified response. *)
From Coq Require Import ZArith NArith List Bool Lia.
Require Import Webob.Lib.Val Webob.Lib.PyStr Webob.Model.C06_ByteRange Webob.Model.C06_AppIterRange
               Webob.Model.C06_CondResp Webob.Spec.C06_Rfc Webob.Proofs.C06_air Webob.Proofs.C06_range.
Import ListNotations.
Local Open Scope Z_scope.

(* ---------------------------------------------------------------- validators *)
Lemma ims_check_spec : forall i, ims_check i = not_modified_since i.
Proof. intros i. unfold ims_check, not_modified_since. destruct (q_ims i), (r_lm i); reflexivity. Qed.

Lemma status304_spec : forall i,
  status304 i = inm_matches i || (negb (inm_pair_applies i) && not_modified_since i).
Proof.
  intros i. unfold status304, inm_matches, inm_pair_applies. rewrite ims_check_spec.
  destruct (q_inm i) as [| |tags]; cbn [negb andb orb]; try reflexivity.
  destruct (r_etag i) as [[t w]|]; cbn [negb andb orb]; [now rewrite orb_false_r | reflexivity].
Qed.

Lemma if_range_ok_spec : forall i, if_range_ok i = if_range_matches i.
Proof.
  intros i. unfold if_range_ok, if_range_matches, etag_strong.
  destruct (q_ifr i) as [| |tags|[d|]]; try reflexivity.
  - destruct (r_etag i) as [[t [|]]|]; reflexivity.
  - destruct (r_lm i); reflexivity.
Qed.

Lemma req_range_spec : forall i, req_range i = option_map range_of_spec (header_spec (q_range i)).
Proof.
  intros i. unfold req_range. destruct (q_range i) as [h|]; [apply range_parse_spec | reflexivity].
Qed.

Lemma applicable_spec : forall i,
  if_range_ok i && negb (r_has_cr i) && is_safe (q_method i) && (r_code i =? 200) = range_applicable i.
Proof.
  intros i. unfold range_applicable. rewrite if_range_ok_spec.
  destruct (if_range_matches i), (r_has_cr i), (is_safe (q_method i)), (r_code i =? 200); reflexivity.
Qed.

(* ---------------------------------------------------------------- the decision *)
Theorem decision_rfc : forall i,
  (forall L, r_clen i = Some L -> 0 <= L) ->
  suffix_within_i i ->
  outcome_of (decide i) = Some (rfc_outcome i).
Proof.
  intros i HL Hsuf. unfold decide, rfc_outcome, rfc_304. rewrite status304_spec.
  destruct (is_safe (q_method i) && (inm_matches i || negb (inm_pair_applies i) && not_modified_since i));
    [reflexivity|].
  rewrite req_range_spec. unfold suffix_within_i in Hsuf.
  destruct (header_spec (q_range i)) as [sp|] eqn:Esp; cbn [option_map]; [|reflexivity].
  rewrite applicable_spec.
  destruct (r_clen i) as [L|] eqn:EL.
  2:{ destruct (range_applicable i); reflexivity. }
  destruct (range_applicable i); [|reflexivity].
  rewrite (range_arith sp L (header_spec_wf _ _ Esp) (HL L eq_refl) Hsuf).
  destruct (rfc_selected sp L) as [[f l]|]; cbn [option_map cr_of fst snd outcome_of]; [|reflexivity].
  do 2 f_equal. lia.
Qed.

(* the model never reaches the ValueError / assertion branches *)
Lemma range_cr_shape : forall rg l c,
  range_content_range rg (Some l) = Some (Some c) -> exists s e, c = CR (Some s) (Some e) (Some l).
Proof.
  intros rg l c E. unfold range_content_range in E.
  destruct (range_for_length rg (Some l)) as [[a b]|]; [|discriminate].
  unfold mk_content_range in E. destruct (is_cr_valid (Some a) (Some b) (Some l) false); [|discriminate].
  injection E as <-. now exists a, b.
Qed.

Lemma decide_never_raises : forall i, decide i <> DRaise.
Proof.
  intros i. unfold decide.
  destruct (is_safe (q_method i) && status304 i); [discriminate|].
  destruct (req_range i) as [rg|]; [|discriminate].
  destruct (if_range_ok i && negb (r_has_cr i) && is_safe (q_method i) && (r_code i =? 200)); [|discriminate].
  destruct (r_clen i) as [l|]; [|discriminate].
  pose proof (content_range_never_raises rg l) as Hn.
  destruct (range_content_range rg (Some l)) as [[c|]|] eqn:E; [| discriminate | now elim Hn].
  destruct (range_cr_shape _ _ _ E) as (s & e & ->). discriminate.
Qed.

(* what a 206 decision carries: a non-empty range inside the declared length *)
Lemma decide_206_bounds : forall i s e L,
  decide i = D206 s e L -> r_clen i = Some L /\ 0 <= s /\ s < e /\ e <= L.
Proof.
  intros i s e L H. unfold decide in H.
  destruct (is_safe (q_method i) && status304 i); [discriminate|].
  destruct (req_range i) as [rg|]; [|discriminate].
  destruct (if_range_ok i && negb (r_has_cr i) && is_safe (q_method i) && (r_code i =? 200)); [|discriminate].
  destruct (r_clen i) as [l|]; [|discriminate].
  destruct (range_content_range rg (Some l)) as [[c|]|] eqn:E; try discriminate.
  destruct c as [[s0|] [e0|] x]; try discriminate. injection H as -> -> ->.
  split; [reflexivity|].
  unfold range_content_range in E. destruct (range_for_length rg (Some L)) as [[a b]|] eqn:Er; [|discriminate].
  unfold mk_content_range in E. destruct (is_cr_valid (Some a) (Some b) (Some L) false) eqn:Ev; [|discriminate].
  injection E as -> -> _.
  unfold range_for_length in Er. destruct rg as [st en].
  destruct en as [e0|].
  - destruct (is_cr_valid (Some st) (Some e0) (Some L) false) eqn:Ev2; [|discriminate].
    injection Er as <- <-. cbn [is_cr_valid andb] in Ev, Ev2.
    revert Ev Ev2. zb; cbn [andb]; try discriminate; intros; lia.
  - destruct (is_cr_valid (Some (if st <? 0 then st + L else st)) (Some L) (Some L) false) eqn:Ev2; [|discriminate].
    injection Er as <- <-. cbn [is_cr_valid andb] in Ev, Ev2.
    revert Ev Ev2. zb; cbn [andb]; try discriminate; intros; lia.
Qed.

(* ---------------------------------------------------------------- what is sent *)
(* the response body, however it is chunked / read *)
Definition body_of (a : app_iter) : str :=
  match a with AList cs => concat cs | AFile d _ => d | ANoRange cs => concat cs end.
Definition app_ok (a : app_iter) : Prop :=
  match a with AList _ => True | AFile _ bs => (0 < bs)%nat | ANoRange _ => True end.
(* the app_iter serves ranges (plain iterables via AppIterRange, FileIter by itself) *)
Definition serves_ranges (a : app_iter) : Prop :=
  match a with ANoRange _ => False | _ => True end.

Lemma app_chunks_body : forall a, app_ok a -> concat (app_chunks a) = body_of a.
Proof. intros [cs|d bs|cs] H; cbn [app_chunks body_of]; [reflexivity | now apply fileiter_full | reflexivity]. Qed.

Lemma app_range_slice : forall a start stop, app_ok a -> serves_ranges a -> (start < stop)%nat ->
  exists chunks, app_range_chunks a start stop = Some chunks /\
                 concat chunks = slice (body_of a) start stop.
Proof.
  intros [cs|d bs|cs] start stop H Hs Hss; cbn [app_range_chunks body_of].
  - eexists; split; [reflexivity|]. now apply air_slice_exact.
  - eexists; split; [reflexivity|]. now apply fileiter_slice_exact.
  - now elim Hs.
Qed.

Definition sent_body (i : cin) (payload : str) : str := if is_head (q_method i) then [] else payload.

(* 304: no body, no Content-Length / Content-Type, every other header kept in order *)
Theorem resp_304 : forall i, decide i = D304 ->
  cond_resp_app i = Some (S_304, filter_headers (r_headers i) [S_cl; S_ct], []).
Proof. intros i H. unfold cond_resp_app. now rewrite H. Qed.

Lemma filter_headers_spec : forall hl remove k v,
  In (k, v) (filter_headers hl remove) <-> In (k, v) hl /\ mem_str (lower k) remove = false.
Proof.
  intros hl remove k v. unfold filter_headers. rewrite filter_In. cbn [fst].
  now rewrite negb_true_iff.
Qed.

(* 206: status, Content-Length = last - first + 1, Content-Range = bytes first-last/L, the other
   headers kept, payload = body[first:last+1] byte for byte, for every chunking and block size;
   HEAD gets the same status and headers and no payload *)
Theorem resp_206 : forall i s e L, decide i = D206 s e L -> app_ok (r_app i) -> serves_ranges (r_app i) ->
  exists chunks,
    cond_resp_app i =
      Some (S_206,
            (S_CL, int_str (e - s))
              :: (S_CR, S_bytes_sp ++ int_str s ++ [45%N] ++ int_str (e - 1) ++ [47%N] ++ int_str L)
              :: filter_headers (r_headers i) [S_cl],
            chunks)
    /\ concat chunks = sent_body i (slice (body_of (r_app i)) (Z.to_nat s) (Z.to_nat e)).
Proof.
  intros i s e L H Hok Hs. destruct (decide_206_bounds _ _ _ _ H) as (_ & H0 & Hse & _).
  unfold cond_resp_app, sent_body. rewrite H. cbn [content_range_str].
  destruct (app_range_slice (r_app i) (Z.to_nat s) (Z.to_nat e) Hok Hs ltac:(lia)) as (chunks & -> & Hc).
  destruct (is_head (q_method i)).
  - eexists; split; reflexivity.
  - eexists; split; [reflexivity | exact Hc].
Qed.

(* an app_iter whose own app_iter_range declines (returns None) gets the complete response *)
Theorem resp_206_declined : forall i s e L cs, decide i = D206 s e L -> r_app i = ANoRange cs ->
  cond_resp_app i = Some (r_status i, r_headers i, if is_head (q_method i) then [] else cs).
Proof. intros i s e L cs H Ha. unfold cond_resp_app. rewrite H, Ha. reflexivity. Qed.

(* ... and when Content-Length is truthful, the payload has exactly the announced size *)
Lemma slice_length : forall (b : str) s e, (s <= e)%nat -> (e <= length b)%nat -> length (slice b s e) = (e - s)%nat.
Proof. intros b s e H1 H2. unfold slice. rewrite firstn_length, skipn_length. lia. Qed.

Theorem resp_206_length : forall i s e L, decide i = D206 s e L ->
  L = Z.of_nat (length (body_of (r_app i))) ->
  Z.of_nat (length (slice (body_of (r_app i)) (Z.to_nat s) (Z.to_nat e))) = e - s.
Proof.
  intros i s e L H HL. destruct (decide_206_bounds _ _ _ _ H) as (_ & H0 & Hse & HeL).
  rewrite slice_length by lia. lia.
Qed.

(* 416: Content-Range: bytes */L, the other headers (minus Content-Length / Content-Type) kept *)
Theorem resp_416 : forall i rg L, decide i = D416 rg L -> 0 <= L ->
  exists cl body,
    cond_resp_app i =
      Some (S_416,
            (S_CL, cl) :: (S_CR, S_bytes_sp ++ [42%N; 47%N] ++ int_str L) :: (S_CT, S_text_plain)
              :: filter_headers (r_headers i) [S_cl; S_ct],
            body)
    /\ (is_head (q_method i) = true -> body = []).
Proof.
  intros i rg L H HL. unfold cond_resp_app. rewrite H. unfold mk_content_range. cbn [is_cr_valid].
  destruct (Z.leb_spec 0 L); [|lia]. cbn [content_range_str].
  destruct (is_head (q_method i)); do 2 eexists; (split; [reflexivity|]); intros Hh.
  - reflexivity.
  - discriminate Hh.
Qed.

(* every other case: status line and header list untouched, whole body (nothing for HEAD) *)
Theorem resp_full : forall i, decide i = DFull -> app_ok (r_app i) ->
  exists chunks,
    cond_resp_app i = Some (r_status i, r_headers i, chunks)
    /\ concat chunks = sent_body i (body_of (r_app i)).
Proof.
  intros i H Hok. unfold cond_resp_app, sent_body. rewrite H.
  destruct (is_head (q_method i)); eexists; split; try reflexivity. now apply app_chunks_body.
Qed.

(* the statement's individual clauses, read off the outcome formula *)
Lemma unsafe_never_304 : forall i, is_safe (q_method i) = false -> rfc_outcome i <> O304.
Proof.
  intros i H. unfold rfc_outcome, rfc_304. rewrite H. cbn [andb].
  destruct (header_spec (q_range i)) as [sp|]; [|discriminate].
  destruct (r_clen i) as [L|]; [|discriminate].
  destruct (range_applicable i); [|discriminate].
  destruct (rfc_selected sp L) as [[f l]|]; discriminate.
Qed.

Lemma nonmatching_inm_not_overridden : forall i tags t w,
  q_inm i = InmTags tags -> r_etag i = Some (t, w) -> mem_str t tags = false -> rfc_outcome i <> O304.
Proof.
  intros i tags t w H1 H2 H3. unfold rfc_outcome, rfc_304, inm_matches, inm_pair_applies.
  rewrite H1, H2, H3. cbn [negb andb orb]. rewrite andb_false_r.
  destruct (header_spec (q_range i)) as [sp|]; [|discriminate].
  destruct (r_clen i) as [L|]; [|discriminate].
  destruct (range_applicable i); [|discriminate].
  destruct (rfc_selected sp L) as [[f l]|]; discriminate.
Qed.

Lemma star_304 : forall i, is_safe (q_method i) = true -> q_inm i = InmStar -> rfc_outcome i = O304.
Proof. intros i H1 H2. unfold rfc_outcome, rfc_304, inm_matches. now rewrite H1, H2. Qed.
