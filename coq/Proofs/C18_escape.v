(* C18 — html_escape: output alphabet and entity structure, for every string. *)
From Coq Require Import NArith List Bool Lia ZifyBool ZifyNat ZifyN String Ascii.
Require Import Webob.Lib.Val Webob.Lib.PyStr Webob.Model.C18_ExcBody Webob.Spec.C18_HtmlTok Webob.Spec.C18_Flat.
Import ListNotations.
Local Open Scope N_scope.


Lemma dec_fuel_digits : forall fuel n acc,
  Forall is_digit_c acc -> Forall is_digit_c (dec_fuel fuel n acc).
Proof.
  induction fuel as [|f IH]; intros n acc Hacc; cbn [dec_fuel]; auto.
  assert (Hd : is_digit_c (48 + n mod 10)).
  { unfold is_digit_c. pose proof (N.mod_lt n 10). lia. }
  destruct (n / 10 =? 0) eqn:E.
  - constructor; auto.
  - apply IH. constructor; auto.
Qed.

Lemma dec_fuel_acc_nonempty : forall fuel n acc, acc <> [] -> dec_fuel fuel n acc <> [].
Proof.
  induction fuel as [|f IH]; intros n acc H; cbn [dec_fuel]; auto.
  destruct (n / 10 =? 0); [discriminate|]. apply IH. discriminate.
Qed.

Lemma dec_fuel_nonempty : forall fuel n acc, (fuel <> 0)%nat -> dec_fuel fuel n acc <> [].
Proof.
  intros [|f] n acc H; [congruence|]. cbn [dec_fuel].
  destruct (n / 10 =? 0); [discriminate|]. apply dec_fuel_acc_nonempty. discriminate.
Qed.

Lemma dec_digits : forall n, Forall is_digit_c (dec n).
Proof. intros; unfold dec; apply dec_fuel_digits; constructor. Qed.

Lemma dec_nonempty : forall n, dec n <> [].
Proof. intros; unfold dec; apply dec_fuel_nonempty; lia. Qed.

(* ---- output alphabet *)
Definition out_ok (c : N) : Prop := c < 128 /\ c <> 60 /\ c <> 62 /\ c <> 34 /\ c <> 39.

Lemma digit_out_ok : forall c, is_digit_c c -> out_ok c.
Proof. unfold is_digit_c, out_ok; intros; lia. Qed.

Lemma esc_char_out : forall c, Forall out_ok (esc_char c).
Proof.
  intros c. unfold esc_char.
  destruct (c =? 38) eqn:E1; [cbn; repeat constructor; unfold out_ok; lia|].
  destruct (c =? 60) eqn:E2; [cbn; repeat constructor; unfold out_ok; lia|].
  destruct (c =? 62) eqn:E3; [cbn; repeat constructor; unfold out_ok; lia|].
  destruct (c =? 34) eqn:E4; [cbn; repeat constructor; unfold out_ok; lia|].
  destruct (c =? 39) eqn:E5; [cbn; repeat constructor; unfold out_ok; lia|].
  destruct (c <? 128) eqn:E6.
  - repeat constructor; unfold out_ok; lia.
  - cbn [A N_of_ascii]. apply Forall_app; split; [repeat constructor; unfold out_ok; cbn; lia|].
    apply Forall_app; split.
    + eapply Forall_impl; [apply digit_out_ok | apply dec_digits].
    + cbn; repeat constructor; unfold out_ok; lia.
Qed.

Lemma html_escape_out : forall s, Forall out_ok (html_escape s).
Proof.
  induction s as [|c r IH]; cbn; [constructor|].
  apply Forall_app; split; [apply esc_char_out | exact IH].
Qed.

Lemma out_ok_safe_c : forall c, out_ok c -> safe_c c = true.
Proof. unfold out_ok, safe_c; intros; lia. Qed.

Lemma html_escape_safe : forall s, safe (html_escape s) = true.
Proof.
  intros s. unfold safe. apply forallb_forall. intros c Hin.
  apply out_ok_safe_c. pose proof (html_escape_out s) as H.
  rewrite Forall_forall in H. auto.
Qed.

(* ---- an ampersand only ever starts an entity: the output is a concatenation of chunks, each a plain
        character (none of the five markup characters, below 128), one of the five named/hex entities, or a decimal
        character reference *)
Lemma esc_char_chunk : forall c, chunk_ok (esc_char c).
Proof.
  intros c. unfold esc_char.
  destruct (c =? 38) eqn:E1; [constructor|].
  destruct (c =? 60) eqn:E2; [constructor|].
  destruct (c =? 62) eqn:E3; [constructor|].
  destruct (c =? 34) eqn:E4; [constructor|].
  destruct (c =? 39) eqn:E5; [constructor|].
  destruct (c <? 128) eqn:E6.
  - constructor; lia.
  - constructor; [apply dec_nonempty | apply dec_digits].
Qed.

Lemma html_escape_chunks : forall s,
  html_escape s = List.concat (map esc_char s) /\ Forall chunk_ok (map esc_char s).
Proof.
  intros s; split.
  - unfold html_escape. apply flat_map_concat_map.
  - induction s; cbn; constructor; auto using esc_char_chunk.
Qed.

(* the character reference names the escaped character: a decimal reference is produced exactly for
   code points >= 128 and spells that code point *)
Lemma esc_char_cases : forall c,
  (c = 38 /\ esc_char c = A "&amp;") \/ (c = 60 /\ esc_char c = A "&lt;") \/ (c = 62 /\ esc_char c = A "&gt;") \/
  (c = 34 /\ esc_char c = A "&quot;") \/ (c = 39 /\ esc_char c = A "&#x27;") \/
  (c < 128 /\ esc_char c = [c] /\ safe_c c = true /\ c <> 38) \/
  (128 <= c /\ esc_char c = A "&#" ++ dec c ++ A ";").
Proof.
  intros c. unfold esc_char, safe_c.
  destruct (c =? 38) eqn:E1; [left; split; [lia|reflexivity]|].
  destruct (c =? 60) eqn:E2; [right; left; split; [lia|reflexivity]|].
  destruct (c =? 62) eqn:E3; [right; right; left; split; [lia|reflexivity]|].
  destruct (c =? 34) eqn:E4; [right; right; right; left; split; [lia|reflexivity]|].
  destruct (c =? 39) eqn:E5; [right; right; right; right; left; split; [lia|reflexivity]|].
  destruct (c <? 128) eqn:E6.
  - right; right; right; right; right; left. repeat split; try lia.
  - right; right; right; right; right; right. split; [lia|reflexivity].
Qed.
