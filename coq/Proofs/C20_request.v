(* C20 — Request.from_bytes / from_file invert Request.as_bytes. *)
From Coq Require Import ZArith NArith List Bool Lia Permutation.
Require Import Webob.Lib.Val Webob.Lib.PyStr Webob.Model.C20_wire Webob.Spec.C20_spec Webob.Proofs.C20_lib.
From Coq Require String.
Import String.StringSyntax.
Import ListNotations.
Local Open Scope string_scope.
Local Open Scope list_scope.
Local Open Scope N_scope.

Ltac norm_app := repeat first [ rewrite <- app_assoc | progress (cbn [app]) ].

(* ------------------------------------------------------------------ characters *)
Lemma vis_lt128 c : vis c -> c < 128.
Proof. intros [H1 H2]. lia. Qed.

Lemma vis_not_str_space c : vis c -> is_space_str c = false.
Proof. apply (vis_not_space true). Qed.

Lemma vis_not_crlf c : vis c -> is_crlf c = false.
Proof.
  intros [H1 H2]. unfold is_crlf. destruct (N.eqb_spec c 13); [lia|]. destruct (N.eqb_spec c 10); [lia|]. reflexivity.
Qed.

Lemma space_of_crlf text : Forall (fun c => space_of text c = true) CRLF.
Proof. destruct text; repeat constructor. Qed.

Lemma str_crlf : Forall (fun c => is_space_str c = true) CRLF.
Proof. repeat constructor. Qed.

Lemma crlf_crlf : Forall (fun c => is_crlf c = true) CRLF.
Proof. repeat constructor. Qed.

Lemma ascii_forall s : Forall (fun c => c < 128) s -> ascii_only s = true.
Proof.
  intros H. unfold ascii_only. apply forallb_forall. intros c Hc.
  rewrite Forall_forall in H. apply N.ltb_lt. apply H. assumption.
Qed.

Lemma is_nil_false {T} (l : list T) : l <> [] -> is_nil l = false.
Proof. destruct l; [contradiction|reflexivity]. Qed.

(* ------------------------------------------------------------------ one header line *)
Lemma hname_no_colon n : good_hname n -> Forall (fun c => c <> 58) n.
Proof. intros [_ H]. eapply Forall_impl; [|exact H]. intros c [_ Hc]. exact Hc. Qed.

Lemma hname_vis n : good_hname n -> all_vis n.
Proof. intros [_ H]. eapply Forall_impl; [|exact H]. intros c [Hc _]. exact Hc. Qed.

Lemma no_lf_rhline p : good_hname (fst p) -> good_hvalue (snd p) -> no_lf (hline p).
Proof.
  intros Hn [Hv _]. unfold hline. apply no_lf_app.
  - apply all_vis_no_lf, hname_vis. assumption.
  - apply no_lf_app; [repeat constructor; discriminate|].
    eapply Forall_impl; [|exact Hv]. intros c [_ H]. exact H.
Qed.

Lemma request_header_line text n v E :
  good_hname n -> good_hvalue v -> (E = [] \/ E = CRLF) ->
  is_nil (strip_by (space_of text) (hline (n, v) ++ E)) = false /\
  ascii_only (hline (n, v) ++ E) = true /\
  partition_c 58 (hline (n, v) ++ E) = (n, true, 32 :: v ++ E) /\
  strip_by is_space_str (32 :: v ++ E) = v.
Proof.
  intros Hn Hv HE. pose proof Hn as [Hnn Hnc]. pose proof Hv as [Hvc Hvt].
  unfold hline, COLON_SP. cbn [fst snd].
  destruct n as [|c n]; [contradiction|].
  assert (Hc : vis c) by (inversion Hnc as [|? ? [H _] _]; exact H).
  repeat split.
  - apply is_nil_false. apply (strip_nonnil (space_of text) c). apply vis_not_space. assumption.
  - rewrite !ascii_only_app. rewrite (all_vis_ascii _ (hname_vis _ Hn)). cbn [andb].
    rewrite (ascii_forall v) by (eapply Forall_impl; [|exact Hvc]; intros x [H _]; exact H).
    destruct HE as [->| ->]; reflexivity.
  - rewrite <- app_assoc. cbn [app]. change (c :: n ++ 58 :: 32 :: v ++ E) with ((c :: n) ++ 58 :: 32 :: v ++ E).
    apply partition_first. apply hname_no_colon. assumption.
  - pose proof (strip_pad is_space_str [32] v E) as P. cbn [app] in P. apply P.
    + repeat constructor.
    + destruct HE as [->| ->]; [constructor|apply str_crlf].
    + assumption.
Qed.

Definition to_entry (p : str * str) : str * str := (trans_name (fst p), snd p).

(* the header loop on a CRLF-joined message *)
Lemma hdr_loop_join text items : forall fuel d tl X,
  Forall (fun p => good_hname (fst p) /\ good_hvalue (snd p)) items ->
  NoDup (map (fun p => trans_name (fst p)) items) ->
  (forall p, In p items -> dict_get (trans_name (fst p)) d = None) ->
  (length items < fuel)%nat ->
  (tl = [] /\ X = [] \/ tl = [[]; X]) ->
  hdr_loop fuel (space_of text) d (join CRLF (map hline items ++ tl)) = Ok (d ++ map to_entry items, X).
Proof.
  induction items as [|[n v] items IH]; intros fuel d tl X Hg Hnd Hfresh Hf Htl.
  - destruct fuel as [|f]; [cbn in Hf; lia|]. cbn [map app]. rewrite app_nil_r.
    destruct Htl as [ [-> ->] | -> ].
    + reflexivity.
    + cbn [hdr_loop]. change (join CRLF [[]; X]) with (13 :: 10 :: X). cbn [readline N.eqb Pos.eqb].
      assert (E : strip_by (space_of text) [13; 10] = []) by (destruct text; reflexivity).
      rewrite E. reflexivity.
  - destruct fuel as [|f]; [cbn in Hf; lia|].
    inversion Hg as [|? ? [Hn Hv] Hg']; subst. cbn [fst snd] in Hn, Hv.
    inversion Hnd as [|? ? Hnotin Hnd']; subst.
    cbn [map app hdr_loop].
    rewrite readline_join by (apply (no_lf_rhline (n, v)); assumption).
    remember (match map hline items ++ tl with [] => [] | _ :: _ => CRLF end) as E eqn:EE.
    assert (HE : E = [] \/ E = CRLF) by (subst E; destruct (map hline items ++ tl); auto).
    destruct (request_header_line text n v E Hn Hv HE) as [E1 [E2 [E3 E4]]].
    rewrite E1, E2, E3. cbn [negb]. rewrite E4.
    pose proof (Hfresh (n, v) (or_introl eq_refl)) as Hnone. cbn [fst] in Hnone.
    rewrite Hnone. rewrite dict_set_new by assumption.
    rewrite IH with (X := X); [| assumption | assumption | | cbn in Hf; lia | assumption].
    + rewrite <- app_assoc. reflexivity.
    + intros p Hp. rewrite dict_get_app_other.
      * apply Hfresh. right. assumption.
      * intros Heq. apply Hnotin. rewrite Heq. apply (in_map (fun p => trans_name (fst p))). assumption.
Qed.

(* ------------------------------------------------------------------ the request line *)
Lemma request_line_parse text m target ver E :
  m <> [] -> all_vis m -> target <> [] -> all_vis target -> ver <> [] -> all_vis ver ->
  (E = [] \/ E = CRLF) ->
  split_ws_max (space_of text) 2 (rstrip_crlf ((m ++ [32] ++ target ++ [32] ++ ver) ++ E)) = [m; target; ver] /\
  ascii_only ((m ++ [32] ++ target ++ [32] ++ ver) ++ E) = true.
Proof.
  intros Hm Hmv Ht Htv Hv Hvv HE. split.
  - unfold rstrip_crlf. rewrite rstrip_pad by (destruct HE as [->| ->]; [constructor|apply crlf_crlf]).
    rewrite rstrip_last.
    + destruct ver as [|c0 v]; [contradiction|].
      assert (Hc0 : vis c0) by (inversion Hvv; assumption).
      norm_app. apply split_three; try assumption.
      * destruct text; reflexivity.
      * apply all_vis_no_sp. assumption.
      * apply all_vis_no_sp. assumption.
      * apply vis_not_space. assumption.
    + destruct m; [contradiction|discriminate].
    + rewrite !app_assoc. rewrite last_app_nonnil by assumption.
      apply vis_not_crlf. unfold all_vis in Hvv. rewrite Forall_forall in Hvv. apply Hvv. apply last_in. assumption.
  - rewrite !ascii_only_app. rewrite (all_vis_ascii _ Hmv), (all_vis_ascii _ Htv), (all_vis_ascii _ Hvv).
    destruct HE as [->| ->]; reflexivity.
Qed.

(* ------------------------------------------------------------------ the target *)
Lemma no_qmark_quote bs : Forall (fun c => c < 256) bs -> Forall (fun c => c <> 63) (url_quote bs).
Proof. intros H. eapply Forall_impl; [|apply quote_chars; exact H]. intros c [_ Hc]. exact Hc. Qed.

Lemma quote_vis bs : Forall (fun c => c < 256) bs -> all_vis (url_quote bs).
Proof. intros H. eapply Forall_impl; [|apply quote_chars; exact H]. intros c [Hc _]. exact Hc. Qed.

Definition qs_part (q : str) : str := match q with [] => [] | _ => 63 :: q end.

Lemma target_partition bs q :
  Forall (fun c => c < 256) bs ->
  exists f, partition_c 63 (url_quote bs ++ qs_part q) = (url_quote bs, f, q).
Proof.
  intros Hb. destruct q as [|c q]; cbn [qs_part].
  - rewrite app_nil_r. exists false. apply partition_none. apply no_qmark_quote. assumption.
  - exists true. apply partition_first. apply no_qmark_quote. assumption.
Qed.

Lemma path_qs_eq e : path_qs e = url_quote (e_script e ++ e_path e) ++ qs_part (e_qs e).
Proof. unfold path_qs, qs_part. rewrite url_quote_app, <- app_assoc. destruct (e_qs e); reflexivity. Qed.

Lemma request_line_eq e : path_qs e <> [] ->
  request_line e = e_method e ++ [32] ++ path_qs e ++ [32] ++ e_proto e.
Proof.
  intros H. unfold request_line, request_target, url. rewrite skipn_length_app.
  destruct (path_qs e); [contradiction|reflexivity].
Qed.

(* ------------------------------------------------------------------ parsing a serialised request *)
Lemma no_lf_line0 m target ver : all_vis m -> all_vis target -> all_vis ver ->
  no_lf (m ++ [32] ++ target ++ [32] ++ ver).
Proof.
  intros Hm Ht Hv. repeat apply no_lf_app; try (apply all_vis_no_lf; assumption); repeat constructor; discriminate.
Qed.

Lemma req_parse text conv cw m target ver items (tl : list str) X :
  m <> [] -> all_vis m -> target <> [] -> all_vis target -> has_scheme target = false ->
  ver <> [] -> all_vis ver ->
  Forall (fun p => good_hname (fst p) /\ good_hvalue (snd p)) items ->
  NoDup (map (fun p => trans_name (fst p)) items) ->
  (tl = [] /\ X = [] \/ tl = [[]; X]) ->
  req_from_file text conv cw (join CRLF ((m ++ [32] ++ target ++ [32] ++ ver) :: map hline items ++ tl)) =
  let '(p, _, q) := partition_c 63 target in
  let e0 := mkEnv m [] (url_unquote p) q ver (A "http") (A "localhost") (A "80")
                  (map to_entry items) [] true false in
  let '(raw, s3) := read_body cw (content_length e0) X in
  match conv raw with
  | Er x => Er x
  | Ok body => Ok (set_body e0 body, s3)
  end.
Proof.
  intros Hm Hmv Ht Htv Hsch Hv Hvv Hg Hnd Htl. unfold req_from_file.
  rewrite readline_join by (apply no_lf_line0; assumption).
  remember (match map hline items ++ tl with [] => [] | _ :: _ => CRLF end) as E eqn:EE.
  assert (HE : E = [] \/ E = CRLF) by (subst E; destruct (map hline items ++ tl); auto).
  destruct (request_line_parse text m target ver E Hm Hmv Ht Htv Hv Hvv HE) as [E1 E2].
  rewrite E1, E2, Hsch. cbn [negb].
  destruct (partition_c 63 target) as [[p f] q].
  rewrite hdr_loop_join with (X := X); try assumption.
  - reflexivity.
  - intros. reflexivity.
  - apply headers_fuel.
Qed.

(* ------------------------------------------------------------------ header items and environ entries *)
Definition item_ok (p : str * str) : Prop :=
  good_hname (fst p) /\ good_hvalue (snd p) /\ trans_key (trans_name (fst p)) = Some (fst p).

Lemma hdr_items_cons_some k v d n : trans_key k = Some n -> n <> [] ->
  hdr_items ((k, v) :: d) = (n, v) :: hdr_items d.
Proof. intros H Hn. cbn [hdr_items]. rewrite H. destruct n; [contradiction|reflexivity]. Qed.

Lemma hdr_items_wf d : Forall wf_entry d ->
  Forall item_ok (hdr_items d) /\ map to_entry (hdr_items d) = d.
Proof.
  induction 1 as [|[k v] d [n [Hk [Hn [Htn Hv]]]] Hd [IH1 IH2]]; [split; constructor|].
  cbn [fst snd] in *. rewrite (hdr_items_cons_some k v d n Hk (proj1 Hn)). split.
  - constructor; [|assumption]. unfold item_ok. cbn [fst snd].
    split; [assumption|]. split; [assumption|]. rewrite Htn. assumption.
  - cbn [map]. unfold to_entry at 1. cbn [fst snd]. rewrite Htn, IH2. reflexivity.
Qed.

Lemma hdr_items_entries S : Forall item_ok S -> hdr_items (map to_entry S) = S.
Proof.
  induction 1 as [|[n v] S [Hn [Hv Hk]] HS IH]; [reflexivity|].
  cbn [map]. unfold to_entry at 1. cbn [fst snd] in *.
  rewrite (hdr_items_cons_some _ v _ n Hk (proj1 Hn)), IH. reflexivity.
Qed.

Lemma hdr_items_app d k v n : trans_key k = Some n -> n <> [] ->
  hdr_items (d ++ [(k, v)]) = hdr_items d ++ [(n, v)].
Proof.
  intros Hk Hn. induction d as [|[k' v'] d IH]; cbn [app].
  - apply hdr_items_cons_some; assumption.
  - cbn [hdr_items]. rewrite IH. destruct (trans_key k') as [[|c m]|]; reflexivity.
Qed.

(* the entries a re-parse produces are a permutation of the original environ entries *)
Lemma reparse_entries d : wf_headers d ->
  let S := sort_items (hdr_items d) in
  Forall item_ok S /\ Permutation (map to_entry S) d /\ NoDup (keys (map to_entry S)) /\
  NoDup (map (fun p => trans_name (fst p)) S).
Proof.
  intros [Hnd Hwf] S. destruct (hdr_items_wf d Hwf) as [Hok Hmap].
  assert (HP : Permutation S (hdr_items d)) by apply sort_perm.
  assert (HP2 : Permutation (map to_entry S) d) by (rewrite <- Hmap; apply Permutation_map; assumption).
  assert (Hk : NoDup (keys (map to_entry S))).
  { unfold keys. eapply Permutation_NoDup; [apply Permutation_map, Permutation_sym; exact HP2|exact Hnd]. }
  repeat split; try assumption.
  - eapply Permutation_Forall; [apply Permutation_sym; exact HP|assumption].
  - unfold keys in Hk. rewrite map_map in Hk. exact Hk.
Qed.

(* ------------------------------------------------------------------ reading the body *)
Lemma k_CL_HOST : k_CL <> k_HOST.
Proof. intros H. vm_compute in H. discriminate. Qed.

Lemma acquire_frame e e1 b : acquire e = Ok (e1, b) -> e1 = e \/ e1 = set_body e b.
Proof.
  unfold acquire. destruct (negb (is_body_readable e)); [intros H; injection H as <- <-; left; reflexivity|].
  destruct (e_seekable e).
  - destruct (content_length e) as [n|].
    + destruct (Z.of_nat (length (e_input e)) <? n)%Z; [discriminate|]. intros H; injection H as <- <-; left; reflexivity.
    + intros H; injection H as <- <-; left; reflexivity.
  - destruct (content_length e) as [n|].
    + destruct (n <? 0)%Z; [discriminate|].
      destruct (Z.of_nat (length (e_input e)) <? n)%Z; [discriminate|].
      intros H; injection H as <- <-. right. reflexivity.
    + intros H; injection H as <- <-. right. reflexivity.
Qed.

Lemma host_url_ext a b h :
  e_scheme a = e_scheme b -> dict_get k_HOST (e_hdrs a) = Some h -> dict_get k_HOST (e_hdrs b) = Some h ->
  host_url a = host_url b.
Proof. intros Hs Ha Hb. unfold host_url. rewrite Ha, Hb, Hs. reflexivity. Qed.

Lemma request_line_set_body e b : request_line (set_body e b) = request_line e.
Proof.
  unfold request_line, request_target, url, path_qs.
  assert (H : host_url (set_body e b) = host_url e).
  { unfold host_url, set_body. cbn [e_scheme e_hdrs e_sname e_sport].
    rewrite dict_get_set_other by apply k_CL_HOST. reflexivity. }
  rewrite H. reflexivity.
Qed.

Lemma as_bytes_no e :
  as_bytes SkipNo e =
  match acquire e with
  | Er x => Er x
  | Ok (e1, body) =>
      Ok (join CRLF (request_line e :: map hline (sort_items (hdr_items (e_hdrs e1))) ++
                     match body with [] => [] | _ => [[]; body] end), e1)
  end.
Proof.
  unfold as_bytes. destruct (is_body_readable e) eqn:Hr.
  - destruct (acquire e) as [[e1 [|c b]]|x]; [rewrite app_nil_r| |]; reflexivity.
  - unfold acquire. rewrite Hr. cbn [negb]. rewrite app_nil_r. reflexivity.
Qed.

Lemma acquire_set_body e0 body :
  acquire (set_body e0 body) = Ok (set_body e0 body, body).
Proof.
  unfold acquire, is_body_readable, content_length, set_body.
  cbn [e_hdrs e_seekable e_input e_term]. rewrite dict_get_set_same, parse_dec_len.
  destruct body as [|c b].
  - reflexivity.
  - cbn [length]. replace (0 <? Z.of_nat (S (length b)))%Z with true by (symmetry; apply Z.ltb_lt; lia).
    cbn [negb]. rewrite Z.ltb_irrefl. rewrite Nat2Z.id. change (S (length b)) with (length (c :: b)).
    rewrite firstn_all. reflexivity.
Qed.

(* ------------------------------------------------------------------ the request after re-parsing *)
(* what from_file builds from the serialisation of e1 when it reads [body] *)
Definition reparsed (e1 : env) (body : bytes) : env :=
  set_body (mkEnv (e_method e1) [] (e_script e1 ++ e_path e1) (e_qs e1) (e_proto e1)
                  (A "http") (A "localhost") (A "80")
                  (map to_entry (sort_items (hdr_items (e_hdrs e1)))) [] true false) body.

Lemma wf_target e : wf_request e ->
  path_qs e <> [] /\ all_vis (path_qs e) /\ has_scheme (path_qs e) = false.
Proof.
  intros W. destruct (wf_path e W) as [[p Hp] Hb]. rewrite path_qs_eq, Hp.
  split; [|split].
  - rewrite quote_slash. discriminate.
  - apply Forall_app; split.
    + rewrite <- Hp. apply quote_vis. assumption.
    + pose proof (wf_qs e W) as Hq. unfold qs_part. destruct (e_qs e); [constructor|].
      constructor; [unfold vis; lia|assumption].
  - rewrite quote_slash. reflexivity.
Qed.

Lemma wf_items e : wf_request e ->
  Forall (fun p => good_hname (fst p) /\ good_hvalue (snd p)) (sort_items (hdr_items (e_hdrs e))).
Proof.
  intros W. destruct (reparse_entries _ (wf_hdrs e W)) as [Hok _].
  eapply Forall_impl; [|exact Hok]. intros p [H1 [H2 _]]. split; assumption.
Qed.

(* parsing the serialisation of a well-formed request whose body part in the stream is X *)
Lemma parse_serialised text conv cw e (tl : list str) X :
  wf_request e -> (tl = [] /\ X = [] \/ tl = [[]; X]) ->
  req_from_file text conv cw
    (join CRLF (request_line e :: map hline (sort_items (hdr_items (e_hdrs e))) ++ tl)) =
  let e0 := mkEnv (e_method e) [] (e_script e ++ e_path e) (e_qs e) (e_proto e)
                  (A "http") (A "localhost") (A "80")
                  (map to_entry (sort_items (hdr_items (e_hdrs e)))) [] true false in
  let '(raw, s3) := read_body cw (content_length e0) X in
  match conv raw with
  | Er x => Er x
  | Ok body => Ok (set_body e0 body, s3)
  end.
Proof.
  intros W Htl. destruct (wf_target e W) as [Ht1 [Ht2 Ht3]].
  destruct (wf_method e W) as [Hm1 Hm2]. destruct (wf_proto e W) as [Hv1 Hv2].
  destruct (reparse_entries _ (wf_hdrs e W)) as [_ [_ [_ Hnd]]].
  rewrite request_line_eq by assumption.
  rewrite (req_parse text conv cw (e_method e) (path_qs e) (e_proto e) _ tl X); try assumption.
  2:{ apply wf_items. assumption. }
  destruct (wf_path e W) as [_ Hb].
  rewrite path_qs_eq. destruct (target_partition (e_script e ++ e_path e) (e_qs e) Hb) as [f Ef].
  rewrite Ef. rewrite unquote_quote by assumption. reflexivity.
Qed.

Lemma reparsed_clen e1 :
  wf_request e1 ->
  dict_get k_CL (map to_entry (sort_items (hdr_items (e_hdrs e1)))) = dict_get k_CL (e_hdrs e1) /\
  dict_get k_HOST (map to_entry (sort_items (hdr_items (e_hdrs e1)))) = dict_get k_HOST (e_hdrs e1).
Proof.
  intros W. destruct (reparse_entries _ (wf_hdrs e1 W)) as [_ [HP [Hk _]]].
  split; apply dict_get_perm; assumption.
Qed.

Lemma n_CL_key : trans_key k_CL = Some n_CL /\ n_CL <> [].
Proof. split; [reflexivity|discriminate]. Qed.

(* the observations of the re-parsed request *)
Lemma reparsed_observations e1 body :
  wf_request e1 -> settled e1 body ->
  e_method (reparsed e1 body) = e_method e1 /\
  url (reparsed e1 body) = url e1 /\
  e_proto (reparsed e1 body) = e_proto e1 /\
  hdr_items (e_hdrs (reparsed e1 body)) = reparsed_items e1 /\
  acquire (reparsed e1 body) = Ok (reparsed e1 body, body).
Proof.
  intros W Hset. destruct (reparsed_clen e1 W) as [Hcl Hhost].
  destruct (reparse_entries _ (wf_hdrs e1 W)) as [Hok _].
  split; [reflexivity|]. repeat split.
  - unfold url. f_equal.
    + destruct (wf_host e1 W) as [h Hh].
      apply (host_url_ext _ _ h).
      * rewrite (wf_scheme e1 W). reflexivity.
      * unfold reparsed, set_body. cbn [e_hdrs]. rewrite dict_get_set_other by apply k_CL_HOST.
        rewrite Hhost. assumption.
      * assumption.
    + rewrite !path_qs_eq. unfold reparsed, set_body. cbn [e_script e_path e_qs app]. reflexivity.
  - unfold reparsed, set_body. cbn [e_hdrs]. unfold reparsed_items, settled in *.
    destruct (dict_get k_CL (e_hdrs e1)) as [v|] eqn:Ev.
    + subst v. rewrite dict_set_same by (rewrite Hcl; reflexivity).
      rewrite hdr_items_entries by assumption. rewrite app_nil_r. reflexivity.
    + subst body. rewrite dict_set_new by (rewrite Hcl; reflexivity).
      rewrite (hdr_items_app _ k_CL _ n_CL (proj1 n_CL_key) (proj2 n_CL_key)).
      rewrite hdr_items_entries by assumption. reflexivity.
  - apply acquire_set_body.
Qed.

(* ------------------------------------------------------------------ main theorems *)
Theorem request_roundtrip : forall e e1 body,
  acquire e = Ok (e1, body) -> wf_request e1 -> settled e1 body ->
  exists b,
    as_bytes SkipNo e = Ok (b, e1) /\
    from_bytes b = Ok (reparsed e1 body) /\
    (* the serialisation: head, then a blank line and the body when there is one *)
    b = request_head e1 ++ match body with [] => [] | _ => CRLF ++ CRLF ++ body end.
Proof.
  intros e e1 body Hacq W Hset.
  assert (Hline : request_line e = request_line e1).
  { destruct (acquire_frame _ _ _ Hacq) as [->| ->]; [reflexivity|]. symmetry. apply request_line_set_body. }
  eexists. split; [rewrite as_bytes_no, Hacq, Hline; reflexivity|].
  destruct (reparsed_clen e1 W) as [Hcl _].
  split.
  - unfold from_bytes.
    rewrite (parse_serialised false conv_id one_byte e1 _ body W).
    2:{ destruct body; [left; split; reflexivity|right; reflexivity]. }
    cbv zeta. unfold content_length at 1. cbn [e_hdrs]. rewrite Hcl.
    unfold settled in Hset. destruct (dict_get k_CL (e_hdrs e1)) as [v|] eqn:Ev.
    + subst v. rewrite parse_dec_len.
      rewrite <- (app_nil_r body) at 2. rewrite read_body_exact. reflexivity.
    + subst body. reflexivity.
  - unfold request_head. destruct body as [|c b]; [rewrite !app_nil_r; reflexivity|].
    change (request_line e1 :: map hline (sort_items (hdr_items (e_hdrs e1))) ++ [[]; c :: b])
      with ((request_line e1 :: map hline (sort_items (hdr_items (e_hdrs e1)))) ++ [[]; c :: b]).
    assert (HL : forall (L : list str) x y, L <> [] -> join CRLF (L ++ [x; y]) = join CRLF L ++ CRLF ++ x ++ CRLF ++ y).
    { clear. induction L as [|l L IH]; intros x y HL; [contradiction|].
      destruct L as [|l2 L].
      - reflexivity.
      - change (join CRLF ((l :: l2 :: L) ++ [x; y])) with (l ++ CRLF ++ join CRLF ((l2 :: L) ++ [x; y])).
        rewrite IH by discriminate.
        change (join CRLF (l :: l2 :: L)) with (l ++ CRLF ++ join CRLF (l2 :: L)).
        rewrite <- !app_assoc. reflexivity. }
    rewrite HL by discriminate. reflexivity.
Qed.

(* from_file stops exactly at the end of the serialised request; from_bytes refuses what follows *)
Theorem request_consumed_exactly : forall e e1 body extra,
  acquire e = Ok (e1, body) -> wf_request e1 -> settled e1 body -> body <> [] ->
  exists b,
    as_bytes SkipNo e = Ok (b, e1) /\
    req_from_file false conv_id one_byte (b ++ extra) = Ok (reparsed e1 body, extra) /\
    (extra <> [] -> from_bytes (b ++ extra) = Er e_Value).
Proof.
  intros e e1 body extra Hacq W Hset Hb.
  assert (Hline : request_line e = request_line e1).
  { destruct (acquire_frame _ _ _ Hacq) as [->| ->]; [reflexivity|]. symmetry. apply request_line_set_body. }
  destruct body as [|c0 body0]; [contradiction|].
  eexists. split; [rewrite as_bytes_no, Hacq, Hline; reflexivity|].
  set (body := c0 :: body0) in *.
  assert (Hparse : req_from_file false conv_id one_byte
            (join CRLF (request_line e1 :: map hline (sort_items (hdr_items (e_hdrs e1))) ++ [[]; body]) ++ extra)
          = Ok (reparsed e1 body, extra)).
  { replace (request_line e1 :: map hline (sort_items (hdr_items (e_hdrs e1))) ++ [[]; body])
      with (((request_line e1 :: map hline (sort_items (hdr_items (e_hdrs e1)))) ++ [[]]) ++ [body])
      by (rewrite <- app_assoc; reflexivity).
    rewrite join_last_app.
    replace (((request_line e1 :: map hline (sort_items (hdr_items (e_hdrs e1)))) ++ [[]]) ++ [body ++ extra])
      with (request_line e1 :: map hline (sort_items (hdr_items (e_hdrs e1))) ++ [[]; body ++ extra])
      by (rewrite <- app_assoc; reflexivity).
    rewrite (parse_serialised false conv_id one_byte e1 _ (body ++ extra) W) by (right; reflexivity).
    cbv zeta. destruct (reparsed_clen e1 W) as [Hcl _].
    unfold content_length at 1. cbn [e_hdrs]. rewrite Hcl.
    unfold settled in Hset. destruct (dict_get k_CL (e_hdrs e1)) as [v|] eqn:Ev; [|discriminate].
    subst v. rewrite parse_dec_len, read_body_exact. reflexivity. }
  split; [exact Hparse|].
  intros Hex. unfold from_bytes.
  match goal with |- context [req_from_file ?a ?b ?w ?c] =>
    replace (req_from_file a b w c) with (@Ok (env * str) (reparsed e1 body, extra)) by (symmetry; exact Hparse) end.
  destruct extra; [contradiction|reflexivity].
Qed.

(* a text file carrying the same request: the body as text t that encodes (character widths cw) to
   exactly the body's length in bytes, followed by anything *)
Theorem request_text_roundtrip : forall conv cw e1 body t extra,
  wf_request e1 -> settled e1 body -> body <> [] -> conv t = Ok body ->
  sane_widths cw t -> text_width cw t = length body ->
  req_from_file true conv cw (request_head e1 ++ CRLF ++ CRLF ++ t ++ extra) = Ok (reparsed e1 body, extra).
Proof.
  intros conv cw e1 body t extra W Hset Hb Hc Hw Hlen.
  destruct (reparsed_clen e1 W) as [Hcl _]. unfold request_head.
  assert (HL : forall (L : list str) x y, L <> [] -> join CRLF L ++ CRLF ++ x ++ CRLF ++ y = join CRLF (L ++ [x; y])).
  { clear. induction L as [|l L IH]; intros x y HL; [contradiction|].
    destruct L as [|l2 L].
    - reflexivity.
    - change (join CRLF ((l :: l2 :: L) ++ [x; y])) with (l ++ CRLF ++ join CRLF ((l2 :: L) ++ [x; y])).
      rewrite <- IH by discriminate.
      change (join CRLF (l :: l2 :: L)) with (l ++ CRLF ++ join CRLF (l2 :: L)).
      rewrite <- !app_assoc. reflexivity. }
  change (CRLF ++ CRLF ++ t ++ extra) with (CRLF ++ [] ++ CRLF ++ (t ++ extra)). rewrite HL by discriminate.
  change ((request_line e1 :: map hline (sort_items (hdr_items (e_hdrs e1)))) ++ [[]; t ++ extra])
    with (request_line e1 :: map hline (sort_items (hdr_items (e_hdrs e1))) ++ [[]; t ++ extra]).
  rewrite (parse_serialised true conv cw e1 _ (t ++ extra) W) by (right; reflexivity).
  cbv zeta. unfold content_length at 1. cbn [e_hdrs]. rewrite Hcl.
  unfold settled in Hset. destruct (dict_get k_CL (e_hdrs e1)) as [v|] eqn:Ev; [|contradiction].
  subst v. rewrite parse_dec_len, <- Hlen, read_body_width by assumption. rewrite Hc. reflexivity.
Qed.

(* ... and a request without a body, as a text file *)
Theorem request_text_roundtrip_nobody : forall conv cw e1,
  wf_request e1 -> settled e1 [] -> conv [] = Ok [] ->
  req_from_file true conv cw (request_head e1) = Ok (reparsed e1 [], []).
Proof.
  intros conv cw e1 W Hset Hc.
  destruct (reparsed_clen e1 W) as [Hcl _]. unfold request_head.
  rewrite <- (app_nil_r (map hline (sort_items (hdr_items (e_hdrs e1))))).
  rewrite (parse_serialised true conv cw e1 [] [] W) by (left; split; reflexivity).
  cbv zeta. unfold content_length at 1. cbn [e_hdrs]. rewrite Hcl.
  unfold settled in Hset. destruct (dict_get k_CL (e_hdrs e1)) as [v|] eqn:Ev.
  - subst v. rewrite parse_dec_len. cbn. rewrite Hc. reflexivity.
  - cbn. rewrite Hc. reflexivity.
Qed.

(* as_bytes(skip_body=True) is the serialisation without its body part, and changes nothing *)
Theorem skip_body_head : forall e, as_bytes SkipAll e = Ok (request_head e, e).
Proof.
  intros e. unfold as_bytes, request_head. destruct (is_body_readable e); reflexivity.
Qed.

(* as_bytes(skip_body=k) for a body of at most k bytes is as_bytes() *)
Theorem skip_body_threshold : forall e e1 body k,
  acquire e = Ok (e1, body) -> (length body <= k)%nat ->
  as_bytes (SkipOver k) e = as_bytes SkipNo e.
Proof.
  intros e e1 body k Hacq Hk. unfold as_bytes. destruct (is_body_readable e); [|reflexivity].
  rewrite Hacq. destruct (Nat.ltb_spec k (length body)); [lia|reflexivity].
Qed.

(* ------------------------------------------------------------------ well-formedness survives reading the body *)
Lemma keys_dict_set k v d :
  keys (dict_set k v d) = keys d \/ (~ In k (keys d) /\ keys (dict_set k v d) = keys d ++ [k]).
Proof.
  induction d as [|[k' v'] d IH]; cbn.
  - right. split; [tauto|reflexivity].
  - destruct (str_eqb k' k) eqn:E; cbn.
    + left. reflexivity.
    + destruct IH as [IH|[Hn IH]].
      * left. unfold keys in *. rewrite IH. reflexivity.
      * right. split.
        -- intros [H|H]; [apply seqb_false in E; contradiction|contradiction].
        -- unfold keys in *. rewrite IH. reflexivity.
Qed.

Lemma nodup_snoc {T} (l : list T) x : NoDup l -> ~ In x l -> NoDup (l ++ [x]).
Proof.
  induction 1 as [|y l Hy Hl IH]; intros Hx; cbn.
  - constructor; [intros []|constructor].
  - constructor.
    + intros Hin. apply in_app_or in Hin as [Hin|[<-|[]]]; [contradiction|]. apply Hx. left. reflexivity.
    + apply IH. intros Hin. apply Hx. right. assumption.
Qed.

Lemma nodup_dict_set k v d : NoDup (keys d) -> NoDup (keys (dict_set k v d)).
Proof.
  intros H. destruct (keys_dict_set k v d) as [->|[Hn ->]]; [assumption|].
  apply nodup_snoc; assumption.
Qed.

Lemma forall_dict_set (P : str * str -> Prop) k v d :
  P (k, v) -> (forall v', P (k, v') -> P (k, v)) -> Forall P d -> Forall P (dict_set k v d).
Proof.
  intros Hkv _. induction 1 as [|[k' v'] d Hp Hd IH]; cbn.
  - constructor; [assumption|constructor].
  - destruct (str_eqb k' k) eqn:E.
    + apply seqb_eq in E. subst. constructor; assumption.
    + constructor; assumption.
Qed.

Lemma all_vis_tight_str s : all_vis s -> tightb is_space_str s = true.
Proof.
  intros H. destruct s as [|c s]; [reflexivity|]. unfold tightb.
  assert (Hl : vis (last (c :: s) 0)).
  { unfold all_vis in H. rewrite Forall_forall in H. apply H. apply last_in. discriminate. }
  rewrite (vis_not_str_space c) by (inversion H; assumption).
  rewrite (vis_not_str_space _ Hl). reflexivity.
Qed.

Lemma digit_is_vis c : is_digit c = true -> vis c.
Proof. unfold is_digit, vis. intros H. apply andb_true_iff in H as [H1 H2]. apply N.leb_le in H1, H2. lia. Qed.

Lemma wf_entry_cl {T} (b : list T) : wf_entry (k_CL, dec_len b).
Proof.
  exists n_CL. cbn [fst snd]. split; [reflexivity|]. split; [|split; [reflexivity|]].
  - split; [discriminate|]. apply Forall_forall. intros c Hc. cbn in Hc.
    repeat (destruct Hc as [<-|Hc]; [unfold vis; lia|]). contradiction.
  - assert (Hv : all_vis (dec_len b)).
    { eapply Forall_impl; [|apply dec_digits]. intros c. apply digit_is_vis. }
    split; [|apply all_vis_tight_str; assumption].
    eapply Forall_impl; [|exact Hv]. intros c [H1 H2]. lia.
Qed.

Theorem wf_request_acquire : forall e e1 body,
  wf_request e -> acquire e = Ok (e1, body) -> wf_request e1.
Proof.
  intros e e1 body W Hacq. destruct (acquire_frame _ _ _ Hacq) as [->| ->]; [assumption|].
  destruct W as [Wm Wp Ws Wh Wpa Wq [Wnd Wf]].
  constructor; unfold set_body; cbn [e_method e_proto e_scheme e_hdrs e_script e_path e_qs]; try assumption.
  - destruct Wh as [h Hh]. exists h. rewrite dict_get_set_other by apply k_CL_HOST. assumption.
  - split.
    + apply nodup_dict_set. assumption.
    + apply forall_dict_set; [apply wf_entry_cl|intros; apply wf_entry_cl|assumption].
Qed.


(* ------------------------------------------------------------------ the body state *)
Lemma length_zero_nil {T} (l : list T) : Z.of_nat (length l) = 0%Z -> l = [].
Proof. destruct l; [reflexivity|cbn [length]; lia]. Qed.

Theorem acquire_consistent : forall e, body_consistent e ->
  exists e1, acquire e = Ok (e1, body_of e) /\ settled e1 (body_of e) /\ (e1 = e \/ e1 = set_body e (body_of e)).
Proof.
  intros e Hc. unfold body_consistent in Hc. unfold acquire, body_of, is_body_readable, content_length, settled.
  destruct (dict_get k_CL (e_hdrs e)) as [v|] eqn:Ev.
  - subst v. rewrite parse_dec_len.
    destruct (Z.ltb_spec 0 (Z.of_nat (length (e_input e)))) as [Hpos|Hz]; cbn [negb].
    2:{ exists e. rewrite Ev. assert (Hnil : e_input e = []) by (apply length_zero_nil; lia).
        rewrite Hnil. repeat split; auto. }
    + destruct (Z.ltb_spec (Z.of_nat (length (e_input e))) 0); [lia|].
      destruct (e_seekable e).
      * rewrite Z.ltb_irrefl, Nat2Z.id, firstn_all. exists e. rewrite Ev. repeat split; auto.
      * rewrite Z.ltb_irrefl. rewrite Nat2Z.id, firstn_all.
        exists (set_body e (e_input e)). split; [reflexivity|]. split; [|right; reflexivity].
        unfold set_body. cbn [e_hdrs]. rewrite dict_get_set_same. reflexivity.
  - cbn [parse_int_safe]. destruct (e_term e) eqn:Et; cbn [negb].
    + destruct Hc as [Hc|Hc]; [discriminate|]. rewrite Hc.
      exists (set_body e (e_input e)). split; [reflexivity|]. split; [|right; reflexivity].
      unfold set_body. cbn [e_hdrs]. rewrite dict_get_set_same. reflexivity.
    + exists e. rewrite Ev. repeat split; auto.
Qed.

Lemma url_set_body e b : url (set_body e b) = url e.
Proof.
  unfold url, path_qs. f_equal. unfold host_url, set_body. cbn [e_scheme e_hdrs e_sname e_sport].
  rewrite dict_get_set_other by apply k_CL_HOST. reflexivity.
Qed.

(* the complete statement, from hypotheses about the request before it is serialised *)
Theorem request_roundtrip_full : forall e,
  wf_request e -> body_consistent e ->
  exists b e1,
    as_bytes SkipNo e = Ok (b, e1) /\
    (e1 = e \/ e1 = set_body e (body_of e)) /\
    b = request_head e1 ++ match body_of e with [] => [] | _ => CRLF ++ CRLF ++ body_of e end /\
    exists e',
      from_bytes b = Ok e' /\
      e_method e' = e_method e /\ url e' = url e /\ e_proto e' = e_proto e /\
      hdr_items (e_hdrs e') = reparsed_items e1 /\
      acquire e' = Ok (e', body_of e).
Proof.
  intros e W Hc. destruct (acquire_consistent e Hc) as [e1 [Hacq [Hset Hfr]]].
  pose proof (wf_request_acquire _ _ _ W Hacq) as W1.
  destruct (request_roundtrip _ _ _ Hacq W1 Hset) as [b [Hb [Hfrom Hform]]].
  exists b, e1. repeat split; try assumption.
  exists (reparsed e1 (body_of e)).
  destruct (reparsed_observations e1 (body_of e) W1 Hset) as [O1 [O2 [O3 [O4 O5]]]].
  repeat split; try assumption.
  - rewrite O1. destruct Hfr as [->| ->]; reflexivity.
  - rewrite O2. destruct Hfr as [->| ->]; [reflexivity|apply url_set_body].
  - rewrite O3. destruct Hfr as [->| ->]; reflexivity.
Qed.

(* ------------------------------------------------------------------ repeated use of one request *)
(* reading the body a second time gives the same body and changes nothing any more *)
Theorem acquire_idempotent : forall e e1 body, acquire e = Ok (e1, body) -> acquire e1 = Ok (e1, body).
Proof.
  intros e e1 body H. destruct (acquire_frame _ _ _ H) as [->| ->]; [assumption|].
  apply acquire_set_body.
Qed.

(* as_bytes() leaves the request in a state on which as_bytes() returns the same bytes and which it
   does not change any more: the serialisation of one Request object is repeatable *)
Theorem as_bytes_repeatable : forall e b e1,
  as_bytes SkipNo e = Ok (b, e1) -> as_bytes SkipNo e1 = Ok (b, e1).
Proof.
  intros e b e1 H. rewrite as_bytes_no in H. rewrite as_bytes_no.
  destruct (acquire e) as [[e1' body]|x] eqn:Hacq; [|discriminate].
  injection H as <- <-.
  rewrite (acquire_idempotent _ _ _ Hacq).
  assert (Hline : request_line e1' = request_line e).
  { destruct (acquire_frame _ _ _ Hacq) as [->| ->]; [reflexivity|]. apply request_line_set_body. }
  rewrite Hline. reflexivity.
Qed.
